"""Systematic small program families, one per clause of the source-level semantics (C01/C04):
snapshot iteration, reference sharing vs scalar copies, shadowing, short-circuit and program
order, value-yielding constructs, integer boundary arithmetic. Deterministic and exhaustive
over their small parameter spaces; they run before the random stream."""
import itertools

BOUNDARY_INTS = ["0", "1", "(-1)", "2", "63", "64", "(-64)", "9223372036854775807", "(-9223372036854775807 - 1)", "4294967296", "(-3)", "7"]


def snapshot():
    out = []
    muts = ["l[0] = 90;", "l[1] = 91;", "l[2] = 92;", "l[-1] = 99;", "l[1] += 10;", "l[-1] -= 5;",
            "l.push(7);", "l.push_front(8);", "l.pop();", "l.pop_front();", "l.insert(0, 5);", "l.insert(1, 6);",
            "l.remove(0);", "l.remove(-1);", "l = [4, 5];", "l.concat([1]);"]
    for m in muts:
        out.append(f"fn main() {{ let l = [1, 2, 3]; for x in l {{ println(x); {m} }} println(l); }}")
        out.append(f"fn main() {{ let l = [1, 2, 3]; let n = 0; for x in l {{ n += x; if x == 1 {{ {m} }}; }} println(n, l); }}")
        out.append(f"fn f(l: [int]) {{ for x in l {{ println(x); {m} }} }} fn main() {{ let a = [1, 2, 3]; f(a); println(a); }}")
    for m in ["s = \"zz\";", "s += \"q\";"]:
        out.append(f"fn main() {{ let s = \"abc\"; for c in s {{ println(c); {m} }} println(s); }}")
    # every loop starts its iterable from the beginning: a loop left early, or nested loops over the SAME value, must not
    # share an iteration cursor (strings, ranges, lists; variable, parameter, literal)
    for it, decl in [('s', 'let s = "abc";'), ('r', 'let r = 0..3;'), ('l', 'let l = [7, 8, 9];'), ('q', 'let q = 2..=0;')]:
        out.append(f"fn main() {{ {decl} for c in {it} {{ println(c); break; }} for c in {it} {{ println(c); }} }}")
        out.append(f"fn main() {{ {decl} for a in {it} {{ for b in {it} {{ print(a, b, \"|\"); }} }} println(); }}")
        out.append(f"fn main() {{ {decl} for a in {it} {{ for b in {it} {{ print(a, b, \"|\"); break; }} }} println(); }}")
        out.append(f"fn main() {{ {decl} let n = 0; for c in {it} {{ if n == 1 {{ continue; }}; n += 1; try {{ for d in {it} {{ throw(\"x\"); }} }} catch e {{ print(c, \"!\"); }}; }} println(n); }}")
    # the iterable is the result of a call that hands back a value someone else still holds: snapshot and fresh cursor too
    out.append("fn id(l: [int]) -> [int] { l } fn main() { let l = [1, 2, 3]; let n = 0; for x in id(l) { l.push(x * 10); n += 1; } println(n, l); }")
    out.append("let g = [1, 2, 3, 4]; fn get() -> [int] { g } fn main() { for x in get() { println(x); if x == 2 { break; } } for x in get() { print(x); } println(); }")
    out.append("fn idr(r: range) -> range { r } fn main() { let r = 0..2; for a in idr(r) { for b in idr(r) { print(a, b, \"|\"); } } println(); }")
    out.append("fn ids(s: str) -> str { s } fn main() { let s = \"ab\"; for a in ids(s) { for b in ids(s) { print(a + b, \"\"); break; } } println(); for c in ids(s) { print(c); } println(); }")
    out.append("fn main() { let o = new { l: [1, 2] }; for x in o.l { o.l.push(9); print(x); } println(o.l); let ll = [[1, 2]]; for x in ll[0] { ll[0].push(x); } println(ll); }")
    out.append("fn first(s: str) -> str { for c in s { return c; } \"\" } fn main() { let s = \"xyz\"; println(first(s)); println(first(s)); let n = 0; for c in s { n += 1; } println(n); }")
    out.append("fn upto(r: range) -> int { for i in r { if i == 1 { return i; } } 0 - 1 } fn main() { let r = 0..5; println(upto(r)); println(upto(r)); for i in r { print(i); } println(); }")
    out.append("fn main() { for i in 0..3 { for c in \"abc\" { println(c); break; } } for i in 0..2 { for j in 5..8 { if j == 6 { break; } print(i, j, \"|\"); } } println(); }")
    out.append("fn main() { let a = 0; let b = 3; for i in a..b { println(i); b = 10; a = 5; } println(a, b); }")
    out.append("fn main() { let l = [1, 2, 3]; for x in l { for y in l { print(x * 10 + y, \"\"); } } println(); }")
    out.append("fn main() { let l = [1, 2]; for x in l { for y in l { l[1] = 7; print(x, y, \"\"); } } println(l); }")
    return out


def sharing():
    out = []
    cont = {"[1, 2]": ["b.push(3);", "b[0] = 9;", "b.pop();", "b[1] += 4;"],
            "new { a: 1, b: \"s\" }": ["b.a = 9;", "b.a += 4;", "b.b = \"t\";"]}
    for c, muts in cont.items():
        for m in muts:
            out.append(f"fn main() {{ let a = {c}; let b = a; {m} println(a); println(b); }}")
            ty = "[int]" if c.startswith("[") else "{ a: int, b: str }"
            out.append(f"fn g(b: {ty}) {{ {m} }} fn main() {{ let a = {c}; g(a); println(a); }}")
            out.append(f"fn main() {{ let a = {c}; let h = [a]; let b = h[0]; {m} println(a); }}" if c.startswith("[") is False else
                       f"fn main() {{ let a = {c}; let b = a; let c2 = b; {m} println(a, c2); }}")
    out += [
        "fn main() { let s = 1; let t = s; t += 1; println(s, t); }",
        "fn main() { let s = \"a\"; let t = s; t += \"b\"; println(s, t); }",
        "fn main() { let l = [1, 2]; let x = l[0]; l[0] = 9; println(x, l); }",
        # `?e` wraps a COPY of a scalar read from a cell: later writes to the cell do not reach the option
        "fn main() { let l = [1, 2, 3]; let a = ?l[0]; l[0] = 10; println(a, l); let o = new { n: 7, s: \"x\" }; let b = ?o.n; let c = ?o.s; o.n += 1; o.s = \"y\"; println(b, c, o.n, o.s); let d = ?l[1]; l[1] += 5; println(d, d.unwrap() + 1, l); }",
        # a `for` loop copies the sequence, not its elements: inner lists and objects are the same ones
        "fn main() { let m = [[1], [2]]; for row in m { row.push(0); } println(m); let os = [new { a: 1 }, new { a: 2 }]; for x in os { x.a += 5; } println(os); for row in m { m.push([9]); row[0] = 7; if m.len() > 5 { break; } } println(m); let n = [[[1]]]; for a in n { for b in a { b.push(2); } } println(n); }",
        "fn main() { let x = 5; let l = [x, x]; l[0] = 9; println(x, l); x = 6; println(l); }",
        "fn main() { let o = new { a: 1, b: \"s\" }; let x = o.a; o.a = 9; println(x, o.a); }",
        "fn main() { let x = 5; let o = new { a: x, b: \"s\" }; o.a = 9; println(x); x = 7; println(o.a); }",
        "fn inc(n: int) -> int { n += 1; n } fn main() { let k = 1; println(inc(k), k); }",
        "fn main() { let a = [1]; let b = [a.len()]; a.push(2); println(a, b); }",
        "fn main() { let l = [1, 2, 3]; let p = l.pop(); l.push(9); println(p, l); }",
        "fn main() { let l = [1, 2]; let q = l.last(); l[-1] = 5; println(q, l); }",
        "let g = [1]; fn add() { g.push(2); } fn main() { let a = g; add(); println(a, g); g = [0]; println(a, g); }",
        "let n = 1; fn bump() { n += 1; } fn main() { let a = n; bump(); println(a, n); }",
    ]
    return out


def shadowing():
    out = [
        "fn main() { let x = 1; { let x = 2; { let x = 3; println(x); } println(x); } println(x); }",
        "fn main() { let x = 1; { let x = \"s\"; println(x); } println(x + 1); }",
        "fn main() { let x = 1; if true { let x = x + 1; println(x); }; println(x); }",
        "fn main() { let x = 1; for x in [7, 8] { println(x); } println(x); }",
        # the iterable is evaluated in the scope OUTSIDE the loop: a loop variable named like a variable it reads
        "fn warm(k: int) -> int { let a = k; a } fn count(n: int) -> int { let c = 0; for n in 0..n { c += 1; } c } fn main() { println(warm(7)); println(count(3)); println(count(0), count(5)); }",
        "fn main() { let i = 3; for i in 0..i { println(\"in\", i); } println(i); let l = [[1, 2], [3]]; for l in l[0] { println(l); } println(l); for i in 0..2 { for i in i..(i + 2) { print(i, \"\"); } } println(\"\"); }",
        "let g = 2; fn f() -> int { let s = 0; for g in 0..(g + 1) { s += g; } s + g } fn main() { println(f(), g); let w = \"ab\"; for w in w { println(w); } println(w); }",
        "fn main() { let x = 1; let i = 0; while i < 2 { i += 1; let x = i * 10; println(x); } println(x); }",
        "let x = 100; fn f() -> int { x } fn main() { let x = 1; println(x, f()); }",
        "let x = 100; fn f(x: int) -> int { x + 1 } fn main() { println(f(1), x); }",
        "fn main() { let x = 1; let y = { let x = 5; x * 2 }; println(x, y); }",
        "fn main() { let x = 1; x = 2; { x = 3; let x = 9; x = 10; println(x); } println(x); }",
        "fn main() { let x = 1; try { let x = 2; throw(\"t\"); } catch e { println(x); let x = 3; println(x); }; println(x); }",
        "fn main() { let x = 1; let r = match x { 1 => { let x = 7; x + 1 }, _ => 0 }; println(x, r); }",
        "fn main() { let x = 1; let x = x + 1; let x = x * 3; println(x); }",
    ]
    return out


def order_and_shortcircuit():
    pre = ("fn t(n: int) -> bool { println(\"t\", n); true } fn f(n: int) -> bool { println(\"f\", n); false } "
           "fn v(n: int) -> int { println(\"v\", n); n } ")
    out = []
    bools = ["t(1)", "f(1)"]
    for a, b in itertools.product(bools, ["t(2)", "f(2)"]):
        for op in ["&&", "||", "&", "|", "^", "==", "!="]:
            out.append(pre + f"fn main() {{ println({a} {op} {b}); }}")
        for c in ["t(3)", "f(3)"]:
            out.append(pre + f"fn main() {{ println({a} && {b} || {c}); println({a} || {b} && {c}); println(({a} || {b}) && {c}); }}")
    for op in ["+", "-", "*", "/", "%", "<", "==", "<<", "|"]:
        out.append(pre + f"fn main() {{ println(v(7) {op} v(2)); }}")
    out += [
        pre + "fn main() { println([v(1), v(2), v(3)]); }",
        pre + "fn main() { let o = new { a: v(1), b: \"s\" }; println(o); }",
        pre + "fn main() { let l = [10, 20, 30]; println(l[v(1)] + l[v(2)]); }",
        pre + "fn main() { println(v(1)..v(3)); }",
        pre + "fn main() { let l = [1, 2, 3]; l[v(0)] = v(9); println(l); }",
        pre + "fn main() { let x = v(1); let y = v(2); x += v(3); println(x - y); }",
        pre + "fn main() { println(if t(1) { v(2) } else { v(3) }, if f(4) { v(5) } else { v(6) }); }" if False else
        pre + "fn main() { println(if t(1) { v(2) } else { v(3) }); println(if f(4) { v(5) } else { v(6) }); }",
        pre + "fn main() { println(match v(2) { 1 => v(10), 2 | 3 => v(20), _ => v(30) }); }",
        pre + "fn main() { println(v(1) + 1 / (v(2) - 2)); println(v(3)); }",
        pre + "fn main() { println((-v(1)) ** v(2)); }",
        # the right operand changes what the left operand denotes: operands are read in program order
        "let g = 10; fn f() -> int { g += 5; 1 } fn main() { println(g - f()); println(g); g = 10; g -= f(); println(g); println(g == f()); println(g); }",
        "let s = \"a\"; fn f() -> str { s += \"z\"; \"b\" } fn main() { println(s + f()); println(s); s += f(); println(s); }",
        "let b = true; fn f() -> bool { b = false; true } fn main() { println(b & f()); println(b); b = true; println(b == f()); }",
        "let g = 1.5; fn f() -> float { g = 100.0; 0.5 } fn main() { println(g + f()); println(g < f()); }",
        "fn main() { let l = [1, 2]; let i = 0; l[i] = { i = 1; 7 }; println(l, i); }",
    ]
    return out


def string_indexing():
    """Strings are indexed by character, from both ends; characters are not bytes."""
    out = []
    for lit, n in [('"abc"', 3), ('"h\u00e9llo"', 5), ('"\u00e4b"', 2), ('"\u65e5\u672c\u8a9e"', 3)]:
        inr = " ".join(f"println(s[{i}], s[{i - n}]);" for i in range(n))
        out.append(f"fn main() {{ let s = {lit}; println(s.len()); {inr} for c in s {{ print(c, \"|\"); }} println(); }}")
        for i in [n, n + 1, -n - 1, 2 * n + 1]:
            out.append(f"fn main() {{ let s = {lit}; let i = {i}; println(\"before\"); println(s[i]); println(\"after\"); }}")
    return out


def values_of_constructs():
    out = [
        "fn main() { println(if true { 1 } else { 2 }, if false { 1 } else { 2 }); }",
        "fn main() { let s = if 1 < 2 { \"y\" } else { \"n\" }; println(s + \"!\"); }",
        "fn main() { for k in 0..5 { println(match k { 0 => \"zero\", 1 | 2 => \"low\", 4 => \"four\", _ => \"other\" }); } }",
        "fn main() { let v = { let a = 2; let b = 3; a * b }; println(v); }",
        "fn main() { let v = try { 5 } catch e { 6 }; println(v); }",
        "fn main() { let v = try { throw(\"x\"); 5 } catch e { 6 }; println(v); }" if False else
        "fn g() -> int { throw(\"x\"); } fn main() { let v = try { g() } catch e { 6 }; println(v); }",
        "fn main() { let v = if true { if false { 1 } else { { let q = 4; q + 1 } } } else { 0 }; println(v); }",
        "fn f(n: int) -> int { if n < 0 { return 0; }; match n { 0 => 1, _ => n * f(n - 1) } } fn main() { println(f(10), f(-1), f(20), f(21)); }",
        "fn main() { let l = [if true { 1 } else { 2 }, { 3 }, match 1 { 1 => 4, _ => 5 }]; println(l); }",
        "fn main() { let o = ?5; println(o.unwrap_or(1), o.is_some(), o); let n = [1].pop(); println(n); }",
    ] + string_indexing()
    return out


def int_matrix():
    out = []
    ops = ["+", "-", "*", "/", "%", "<<", ">>", "|", "&", "^", "<", "<=", ">", ">=", "==", "!="]
    for op in ops:
        for a, b in itertools.product(BOUNDARY_INTS, BOUNDARY_INTS):
            out.append(f"fn main() {{ let a = {a}; let b = {b}; println(a {op} b); }}")
    for a in BOUNDARY_INTS:
        out.append(f"fn main() {{ let a = {a}; println(-a, !a, a.to_string(), ?a); }}")
    for a, b in itertools.product(["0", "1", "2", "(-2)", "3", "7", "(-1)"], ["0", "1", "2", "3", "10", "31"]):
        out.append(f"fn main() {{ let a = {a}; let b = {b}; println(a ** b); }}")
    # negative exponents: a reciprocal truncates to 0 unless the base is 1 or -1 (parity of the exponent as a float64)
    for a, b in itertools.product(["1", "2", "(-2)", "3", "7", "(-1)", "9223372036854775807", "(-9223372036854775807 - 1)"],
                                  ["(-1)", "(-2)", "(-3)", "(-64)", "(-9007199254740993)", "(-9223372036854775807)", "(-9223372036854775807 - 1)"]):
        out.append(f"fn main() {{ let a = {a}; let b = {b}; println(a ** b); a **= b; println(a); }}")
    return out


def pending_operands():
    """An exception raised in the middle of an expression, caught in the SAME activation (and in a
    caller): the operands pushed so far are dropped, nothing leaks however often it happens."""
    raisers = ["{ throw(\"b\"); 1 }", "thr(i)", "l.pop().unwrap()", "throw(\"e\")"]
    shapes = ["acc = acc + {r};", "acc = 1 + 2 * (3 - {r});", "let t = [1, 2, {r}]; acc += t[0];", "acc += h(1, {r});",
              "acc = acc + if i > 1 {{ {r} }} else {{ 2 }};", "println(acc, {r});", "let o = new {{ a: 1, b: {r} }}; acc += o.a;",
              "acc = [acc, 1][{r}];", "acc = acc + (match i {{ 0 => 1, _ => {r} }});"]
    pre = "fn thr(n: int) -> int { if n >= 0 { throw(\"t\"); }; n } fn h(a: int, b: int) -> int { a + b } "
    out = []
    for r in raisers:
        for sh in shapes:
            body = sh.format(r=r)
            out.append(pre + f"fn main() {{ let acc = 0; let l = [1]; l.pop(); for i in 0..70 {{ try {{ {body} }} catch e {{ acc += 10; }}; }} println(acc); }}")
            out.append(pre + f"fn w(i: int) -> int {{ let acc = 0; let l = [1]; l.pop(); try {{ {body} }} catch e {{ acc += 10; }}; acc }} "
                             f"fn main() {{ let s = 0; for i in 0..70 {{ s += w(i); }} println(s); }}")
    return out


def lambda_scope_programs():
    """A function literal created inside a block (if / loop / bare block, at several depths) and called — directly and
    through a higher-order function — from blocks one and two levels deeper that declared locals (shadowing outer ones)
    before the call: the call neither sees nor disturbs the caller's block scopes."""
    out = []
    for opener, closer in (("{", "}"), ("if true {", "}"), ("for q in 0..1 {", "}"), ("{ {", "} }"), ("{ { {", "} } }")):
        out.append("fn apply(f: fn(v: int) -> int, v: int) -> int { f(v) } fn main() { let x = 1; " + opener +
                   " let inc = fn(v: int) -> int { let x = v + 1; x }; { let x = 2; let y = 5; println(inc(10)); println(x, y); "
                   "{ let x = 3; let z = 7; println(apply(inc, 20)); println(x, y, z); } println(x, y); } println(inc(0), x); " + closer + " println(x); }")
    # parameters of a function literal are passed by value: assigning to a parameter never reaches the caller's variable
    # (scalars, strings, the list / object VARIABLE itself; the shared list and object contents are written through)
    out.append('fn main() { let f = fn(x: int) -> null { x = 5; }; let a = 1; f(a); println(a); let l = [1]; let g = fn(m: [int]) { m.push(2); m = [9]; }; g(l); println(l); '
               'let o = new { k: 1 }; let h = fn(p: { k: int }, s: str) { p.k = 7; s = "z"; }; let t = "s"; h(o, t); println(o, t); '
               'let c = 0; let bump = fn(n: int) -> int { n += 1; n }; println(bump(c), c, bump(c), c); let fl = 1.5; let neg = fn(v: float, b: bool) { v = 0.0 - v; b = !b; }; let tb = true; neg(fl, tb); println(fl, tb); }')
    # a function-typed variable (parameter, block-local, loop variable) shadows a module function of the same name, also in a
    # DIRECT call; any-object equality when one side's fields are a strict subset of the other's
    out.append('fn scale(n: int) -> int { n * 2 }\nfn greet(s: str) { println("hello", s); }\nfn apply(scale: fn(n: int) -> int, v: int) -> int { scale(v) + 100 }\n'
               'fn main() { println(scale(4)); println(apply(fn(n: int) -> int { n + 0 }, 4)); greet("a"); { let greet = fn(s: str) { println("bye", s); }; greet("b"); greet("c"); } greet("d"); println(scale(1)); '
               'let e = new { ? }; let o = new { ? }; o.set("k", 1); let p = new { ? }; p.set("k", 1); p.set("j", 2); println(e == o, o == e, o == p, p == o, e != p, [e].contains(p), [p].contains(o), o == o); }')
    out.append('fn named(x: int, m: [int]) { x = 5; m = [0]; }\nfn main() { let a = 1; let l = [1]; named(a, l); println(a, l); let w = fn(q: int) { named(q, [q]); q = 9; }; w(a); println(a); for i in 0..2 { let k = fn(j: int) { j += 10; }; k(i); println(i); } }')
    return out


def lambdas():
    """Function literals (capture-free): nested, sibling, passed, returned, stored; each gets its own code."""
    return [
        "fn main() { let outer = fn() -> int { let inner = fn() -> int { 1 }; inner() + 10 }; let after = fn() -> int { 7 }; println(outer()); println(after()); }",
        "fn main() { let a = fn() -> int { let b = fn() -> int { let c = fn() -> int { 3 }; c() + 20 }; b() + 100 }; println(a()); let d = fn() -> int { 4 }; println(d(), a()); }",
        "fn main() { let f = fn(x: int) -> int { x + 1 }; let g = fn(x: int) -> int { x * 2 }; println(f(g(3)), g(f(3))); }",
        "fn apply(f: fn(int) -> int, v: int) -> int { f(v) } fn main() { println(apply(fn(x: int) -> int { x - 1 }, 5), apply(fn(x: int) -> int { let h = fn(y: int) -> int { y * y }; h(x) }, 5)); }",
        "fn mk() -> fn() -> int { fn() -> int { 42 } } fn mk2() -> fn() -> int { let z = fn() -> int { 1 }; fn() -> int { 43 } } fn main() { let a = mk(); let b = mk2(); println(a(), b(), mk()()); }",
        "fn main() { let l = [fn() -> int { 1 }, fn() -> int { 2 }, fn() -> int { let q = fn() -> int { 30 }; q() + 3 }]; for f in l { println(f()); } }",
        "fn main() { let o = new { f: fn(a: int) -> int { a + 1 }, g: fn(a: int) -> int { let n = fn(b: int) -> int { b * 10 }; n(a) } }; println(o.f(1), o.g(2)); }",
        "fn main() { let s = 0; for i in 0..3 { let f = fn(k: int) -> int { let g = fn(m: int) -> int { m + 1 }; g(k) * 2 }; s += f(i); } println(s); }",
        "fn rec(n: int) -> int { let step = fn(k: int) -> int { k - 1 }; if n <= 0 { 0 } else { 1 + rec(step(n)) } } fn main() { println(rec(5)); }",
        "fn main() { let f = fn() -> fn() -> int { fn() -> int { 9 } }; let g = f(); println(g(), f()()); let h = fn() -> int { 8 }; println(h()); }",
        # the arguments of a literal's call are evaluated in the CALLER's scopes; the call does not disturb the caller's scopes
        "fn mk() -> fn(a: int) -> int { let y = 100; fn(a: int) -> int { a + 1 } } fn main() { let f = mk(); let y = 5; println(f(y)); }",
        "fn main() { let f = fn(q: int) -> int { q + 1 }; let i = 0; while i < 2 { i += 1; let a = 5 * i; if a > 0 { let b = a + 1; let r = f(b); println(a, b, r); }; } println(i); }",
        "fn main() { let f = fn() -> int { 1 }; { let a = 5; { let c = 7; let r = f(); println(a, c, r); } println(a); } }",
        "fn f() -> int { let x = { return 3; } + 1; x } fn g() -> str { let y = throw(\"t\") + \"a\"; y } fn main() { println(f()); try { println(g()); } catch e { println(e.message); }; }",
        # function values print and compare the same on both backends
        "fn g() -> int { 2 } fn main() { let f = fn() -> int { 1 }; println(f); println(g); println([f, g]); let o = new { h: f }; println(o); println(f == f, f == g, g != g); println(println); }",
    ]


def feature_corpus():
    """One program per language feature that the random generator does not produce (inclusive ranges, match on strings /
    bools / floats / lists, float division and powers, string members, options, any-objects, compound assignment on
    elements and fields, casts, every kind of global): judged VM == interpreter (C04) and, where the specification covers
    the feature, against the specification (C01)."""
    return [
 "fn main() { println([1.0, 2.5, -3.0].to_json()); let o = new { a: 2.0, b: 100.0, c: [0.0] }; println(o.to_json()); println(o.to_json_indent()); }",
 "fn main() { let o = new { ? }; try { o.set(\"self\", o); } catch e { println(e.message); }; println(o); let l = [o]; try { o.set(\"l\", l); } catch e { println(\"2\", e.message); }; let p = new { ? }; p.set(\"o\", o); o.set(\"k\", 1); println(p); try { o.set(\"p\", ?p); } catch e { println(\"3\"); }; println(o == p); }",
 "fn main() { let o = new { ? }; o.set(\"a\", 1); o.set(\"l\", [1, 2]); println(o->a); println(o->zz); for i in 0..5 { println(o->missing); } println(o~>a); println(o~>l); try { println(o~>zz); } catch e { println(e.message); }; println(o->a.is_some()); println(o->b.is_none()); }",
 # number parsing is decimal only, on both backends
 "fn p(s: str) { try { println(s, \"->\", s.parse_int()); } catch e { println(s, \"!\", e.message); }; } fn main() { p(\"010\"); p(\"08\"); p(\"0x1F\"); p(\"0b101\"); p(\"0o17\"); p(\"1_000\"); p(\"+5\"); p(\"-007\"); p(\" 5\"); p(\"5 \"); p(\"\"); p(\"9223372036854775807\"); p(\"9223372036854775808\"); p(\"-9223372036854775808\"); p(\"1e3\"); p(\"12.0\"); }",
 "fn p(s: str) { try { println(s, \"->\", s.parse_float()); } catch e { println(s, \"!\"); }; } fn q(s: str) { try { println(s, \"->\", s.parse_bool()); } catch e { println(s, \"!\"); }; } fn main() { p(\"1.5\"); p(\"010\"); p(\"0x10\"); p(\"1_0.5\"); p(\".5\"); p(\"5.\"); p(\"-2.25\"); p(\"abc\"); q(\"true\"); q(\"false\"); q(\"True\"); q(\"1\"); q(\"t\"); q(\"\"); }",
 # a data field named like a builtin member is the field (read, write, compound assignment, through a cast)
 "fn main() { let o = new { to_string: 3, name: \"door\" }; println(o.to_string); o.to_string = 4; println(o.to_string); o.to_string += 3; println(o.to_string, o.name); let c = \"{\\\"keys\\\": 3, \\\"name\\\": \\\"door\\\", \\\"to_json\\\": 1}\".parse_json() as { keys: int, name: str, to_json: int }; println(c.name); println(c.keys + c.to_json); }",
 # every evaluation of a literal creates a fresh container (loop body, function called twice, recursion)
 "fn mk(k: str) -> { ? } { let o = new { ? }; o.set(k, 1); o } fn main() { let a = mk(\"a\"); let b = mk(\"b\"); println(a.keys(), b.keys(), a == b); for i in 0..3 { let o = new { ? }; o.set(i.to_string(), i); println(o.keys(), o.get(\"0\")); } }",
 "fn mk(n: int) -> [int] { let l = [0]; l.push(n); l } fn mo(n: int) -> { a: int, l: [int] } { let o = new { a: 0, l: [0] }; o.a += n; o.l.push(n); o } fn main() { let a = mk(1); let b = mk(2); println(a, b); let p = mo(1); let q = mo(2); println(p, q, p == q); for i in 0..3 { let l = [[i]]; l[0].push(9); println(l); } }",
 "fn rec(n: int) -> [str] { let acc = [\"x\"]; if n > 0 { let sub = rec(n - 1); acc.concat(sub); }; acc.push(n.to_string()); acc } fn main() { println(rec(3)); println(rec(1)); }",
 # inclusive ranges, range members
 "fn main() { for i in 1..=3 { print(i, \"\"); } println(); let r = 2..=5; println(r, r.rev(), r.diff()); for j in (0..3).rev() { print(j); } println(); for k in 5..2 { print(k); } println(); }",
 # match on strings / bools / several literals
 "fn f(s: str) -> int { match s { \"a\" => 1, \"b\" | \"c\" => 2, _ => 0 } } fn main() { println(f(\"a\"), f(\"c\"), f(\"zz\")); let b = true; println(match b { true => \"t\", _ => \"f\" }); println(match 2.5 { 2.5 => 1, _ => 0 }); println(match [1, 2] { [1, 2] => \"l\", _ => \"n\" }); }",
 # float arithmetic and printing
 "fn main() { let a = 7.5; let b = 2.0; println(a + b, a - b, a * b, a / b, a ** b, -a, a < b, a == 7.5); println(1.0 / 4.0, 0.5 + 0.25, 100.0, 2.0 ** 3.0); println((7.75) as int, (-7.75) as int, 3 as float, \"4.5\".parse_float(), a.round(), a.trunc(), b.is_int(), a.to_string()); }",
 # string ops
 "fn main() { let s = \"héllo wörld\"; println(s.len(), s.to_upper(), s.to_lower(), s.replace(\"l\", \"L\"), s.contains(\"wö\"), s.split(\" \"), s.starts_with(\"hé\"), s.substring(3), s.repeat(2)); println(\"abc\" != \"abd\", \"abc\" == \"abc\", \"a\" + \"b\" + 1.to_string()); for c in \"añb\" { print(c, \"|\"); } println(); }",
 # options
 "fn g(n: int) -> ?int { if n > 0 { ?n } else { none } } fn main() { let a = g(3); let b = g(-1); println(a, b, a.is_some(), b.is_none(), a.unwrap(), b.unwrap_or(7), a == ?3, b == none); if a.is_some() { println(a.unwrap() + 1); }; let c: ?[int] = ?[1]; c.unwrap().push(2); println(c); }",
 # any-objects
 "fn main() { let o = new { ? }; o.set(\"b\", 2); o.set(\"a\", \"x\"); println(o, o.keys(), o.get(\"a\"), o.get(\"zz\")); let t = new { x: 1, y: [1, 2] }; let d = t as { ? }; println(d.keys(), d.get(\"y\")); }",
 # compound assignment on elements/fields
 "fn main() { let l = [1, 2, 3]; l[0] += 10; l[-1] *= 2; l[1] -= 5; let o = new { a: 1, s: \"x\" }; o.a <<= 3; o.s += \"y\"; o.a %= 5; println(l, o); let n = [[1], [2]]; n[1][0] **= 3; println(n); }",
 # nested functions values, recursion, early return values
 "fn fib(n: int) -> int { if n < 2 { return n; } fib(n - 1) + fib(n - 2) } fn main() { println(fib(15)); let fs = [fib]; println(fs[0](10)); }",
 # while with complex conditions, loop with break value? nested break/continue
 "fn main() { let i = 0; let s = 0; while i < 10 && s < 20 { i += 1; if i % 2 == 0 { continue; } s += i; } println(i, s); let n = 0; loop { n += 1; for j in 0..5 { if j == 3 { break; } if j == 1 { continue; } n += j; } if n > 10 { break; } } println(n); }",
 # try value, nested try, rethrow, e fields
 "fn t(n: int) -> int { try { if n == 0 { throw(\"zero\"); } 10 / n } catch e { println(e.message, e.line > 0, e.column > 0, e.filename); -1 } } fn main() { println(t(2), t(0)); try { try { throw(\"in\"); } catch a { throw(a.message + \"!\"); } } catch b { println(b.message); } }",
 # globals of all kinds and mutation from functions
 "let gi = 1; let gs = \"s\"; let gl = [1]; let go = new { k: 1 }; let gf = 1.5; let gb = true; let gn: ?int = none; fn m() { gi += 1; gs += \"t\"; gl.push(2); go.k = 5; gf *= 2.0; gb = !gb; gn = ?3; } fn main() { m(); m(); println(gi, gs, gl, go, gf, gb, gn); }",
 # list members
 "fn main() { let l = [3, 1, 2]; println(l.len(), l.contains(2), l.last()); println(l.pop()); println(l.pop_front()); println(l); l.push_front(9); l.insert(1, 7); l.remove(0); l.concat([4, 5]); println(l, l.join(\"-\")); l.sort(); println(l); }",
 # int members / conversions
 "fn main() { let n = 255; println(n.to_string(), n.to_range(), (5).to_range(), n as float, n as bool, 0 as bool, true as int, \"12\".parse_int() + 1); }",
 # if without else as statement / value null, block scoping values
 "fn main() { let x = 5; let y = if x > 3 { \"big\" } else if x > 1 { \"mid\" } else { \"small\" }; println(y); let z = { let x = 2; x * x }; println(x, z); }",
 # shifts, bit ops precedence
 "fn main() { println(1 << 3 | 1, 6 & 3 ^ 1, 2 ** 3 ** 2, -2 ** 2, 10 - 3 - 2, 100 / 10 / 5, 7 % 4 * 2, 1 + 2 < 4 == true, !true || true && false); }",
    ] + modelled_members_and_casts()


def modelled_members_and_casts():
    """Programs for the features the core models (Hms/Core/Sem.lean, VM.lean) cover since the cast / member extension:
    float `**` (integral and +-0.5 exponents: the paths of math.Pow that use IEEE operations only), float members,
    printing of whole floats >= 1e6 and of -0, `as` between scalars / lists / objects / options, annotated `let` and
    globals validated at run time (`Cast error at `path`: ...` caught and printed), string members (to_upper, to_lower,
    replace, split, substring, repeat, parse_int / parse_bool / parse_float with their strconv error texts), list sort,
    range / option / any-object members, indexing with a missing key. Kept outside the zones of the open findings:
    an annotated let whose initialiser's static kind is neither `any` nor the annotated kind (M1: the interpreter
    drops the variable), element assignment after `concat` (M2: shared element cells)."""
    return [
 # --- float ** (math.Pow): integral exponents, +-0.5, special values; compound assignment
 'fn main() { println(2.0 ** 10.0, 1.5 ** 2.0, 2.0 ** -1.0, 0.0 ** 0.0, 4.0 ** 0.5, 0.25 ** -0.5, (-2.0) ** 3.0, (-2.0) ** 2.0, 1.0 ** 1000.0, 10.0 ** 15.0, 0.5 ** 10.0, 2.0 ** -10.0); }',
 'fn main() { let x = 3.0; let y = 2.0; println(x ** y, y ** x, -x, -(x ** y), x ** 0.0, x ** 1.0, (x ** y) / y); let z = 1.5; z **= 2.0; println(z); println(2.0 ** 3.0 ** 2.0, 2.0 ** 52.0, 10.0 ** 6.0, 10.0 ** 5.0); }',
 'fn main() { let a = 2.0 ** 64.0; let b = 2.0 ** 1023.0; println(a > 1.0, b > a, 2.0 ** -1074.0 > 0.0, 2.0 ** -1075.0 == 0.0, 3.0 ** 40.0 > 3.0 ** 39.0, (-1.0) ** 7.0, (-1.0) ** 8.0, 7.0 ** -2.0 < 0.03125, 0.0 ** 3.0, 0.0 ** 2.0 == 0.0, (-0.0) ** 3.0, (-0.0) ** 2.0); }',
 'fn p(b: float, e: float) -> float { b ** e } fn main() { let s = 0.0; for i in 0..12 { s += p(2.0, i as float); } println(s, p(s, 2.0), p(1.5, 3.0), p(-1.5, 3.0), p(0.5, -3.0), p(16.0, 0.5), p(16.0, -0.5), p(100.0, 3.0)); }',
 # --- float comparisons, unary minus, negative zero, printing of large whole floats (exponent form from 1e6 on)
 'fn main() { println(7.5 < 2.0, 7.5 <= 7.5, 7.5 > 2.0, 2.0 >= 7.5, 7.5 == 7.5, 7.5 != 2.0, -(7.5), -0.0, 0.0 * -1.0, [-0.0, 0.0], 0.0 == -0.0); }',
 'fn main() { println(999999.0, 1000000.0, 1500000.0, 123456789.0, 120000000.0, 4503599627370496.0, -1000000.0, 65535.5, 1024.0 * 1024.0, 1000000.0 / 4.0, 2000000.0 - 1.0); }',
 # --- float members
 'fn main() { let f = 7.5; println(f.to_string(), f.round(), f.trunc(), f.is_int(), (2.0).is_int(), (-7.5).round(), (-7.5).trunc(), (2.5).round(), (-2.5).round(), (0.5).round(), (-0.25).round(), (-0.25).trunc()); println((1024.0).to_string() + "!", (0.125).to_string(), (-3.0).to_string(), (9007199254740991.0).trunc(), (65535.5).round(), (-0.0).is_int(), (-0.0).to_string()); }',
 'fn main() { let l = [1.5, -2.25, 1000000.0, 0.0]; let t = 0; for f in l { t += f.round() + f.trunc(); println(f.to_string().len(), f.is_int()); } println(t, l.join("|"), l.to_string()); }',
 # --- casts between scalars (`as`)
 'fn main() { println(7.75 as int, (-7.75) as int, 3 as float, 0.0 as bool, 0.5 as bool, (-0.0) as bool, 1 as bool, 0 as bool, (-5) as bool, true as int, false as int, true as float, false as float, 9007199254740993 as float == 2.0 ** 53.0, (-9223372036854775807 - 1) as float == -(2.0 ** 63.0), 9223372036854775807 as float == 2.0 ** 63.0); }',
 'fn main() { println(5 as int, 2.5 as float, true as bool, "s" as str, (1..3) as range, none as ?int, (?3) as ?int, [1, 2] as [int], (9.75 as int) as float, ((1 as bool) as int) as bool, (2.0 ** 62.0) as int, (-(2.0 ** 63.0)) as int, 1000.0 as int); }',
 'fn main() { let i = 3; let f = i as float; let b = f as bool; let j = b as int; println(i, f, b, j, (i as float) / 2.0, ((i as float) / 2.0) as int, (i / 2) as float); let n = 0; for k in 0..5 { n += (k as float * 1.5) as int; } println(n); }',
 # --- `as` on lists / objects / options: new containers, conversions element by element
 'fn main() { let l = [1, 2]; let m = l as [int]; m.push(3); println(l, m); let o = new { a: 1, b: [1] }; let p = o as { a: int, b: [int] }; p.a = 9; p.b.push(2); println(o, p); let q = (?5) as ?int; println(q, q == ?5); }',
 'fn main() { let o = new { a: 1, b: "x", c: [1, 2] }; let d = o as { ? }; d.set("a", "str"); println(o); println(d); let e = d as { ? }; e.set("z", 1); println(d.keys(), e.keys(), d == e); let c: [int] = d.get("c").unwrap(); c.push(3); println(c, o.c, d.get("c")); }',
 # --- `v as T` of an `any` value: conversions allowed, failures are catchable exceptions with a position
 'fn c(v: any) { try { println((v as int) + 1); } catch e { println(e.message, e.line, e.column); }; } fn main() { c(1); c(2.5); c(true); c("s"); c([1]); c(none); c(?1); c(1..2); c(new { a: 1 }); c(new { ? }); }',
 'fn c(v: any) { try { println(v as float); } catch e { println(e.message); }; try { println(v as bool); } catch e { println(e.message); }; try { println(v as str); } catch e { println(e.message); }; } fn main() { c(1); c(0.0); c(true); c("s"); c(none); }',
 'fn c(v: any) { try { println(v as [float]); } catch e { println(e.message); }; try { println(v as ?bool); } catch e { println(e.message); }; try { println(v as [[int]]); } catch e { println(e.message); }; } fn main() { c([1, 2]); c([true]); c([1.5]); c(0); c(?1.5); c("x"); c(["a"]); c([[1.5], [2.5, 3.5]]); c([["b"]]); c(??0); }',
 'fn c(v: any) { try { let r = v as { a: float, b: ?[int] }; println(r.a, r.b); } catch e { println(e.message); }; } fn main() { c(new { a: 1, b: [1.5] }); c(new { a: true, b: ?[2] }); c(new { a: 1, b: ["x"] }); c(new { a: 1 }); c(new { a: 1, b: 2, z: 0 }); c(new { a: "s", b: "t" }); c(new { b: [1, 2], a: 0.5 }); }',
 'fn c(v: any) { try { let r = v as { ? }; r.set("n", 1); println(r); } catch e { println(e.message); }; try { println(v as range); } catch e { println(e.message); }; try { println(v as ?{ ? }); } catch e { println(e.message); }; } fn main() { let o = new { a: 1 }; c(o); println(o); let d = new { ? }; c(d); println(d); c(1); c(1..=3); c(none); }',
 # --- annotated `let` with an `any` initialiser: validation without conversion
 'fn c(v: any) { try { let x: int = v; println("int", x); } catch e { println(e.message, e.line, e.column); }; } fn main() { c(1); c("s"); c(1.5); c(true); c(none); c(?1); c([1]); c(new { a: 1 }); c(new { ? }); c(1..2); }',
 'fn c(v: any) { try { let x: ?int = v; println("ok", x); } catch e { println(e.message); }; } fn main() { c(1); c("s"); c(1.5); c(none); c(?1); c(?"s"); c(??1); c([1]); }',
 'fn c(v: any) { try { let x: [int] = v; x.push(0); println("ok", x); } catch e { println(e.message); }; } fn main() { c([1, 2]); c(["s"]); c([2.5]); c(1); c([[1]]); let l = [5]; c(l); println(l); let e: [int] = []; c(e); println(e); }',
 'fn c(v: any) { try { let x: [[?int]] = v; println("ok", x); } catch e { println(e.message); }; } fn main() { c([[?1, none], [?2]]); c([[1], [2]]); c([[?1], [?2, ?3]]); c([[?"s"]]); c([[?2.5, ?3.5]]); c([1]); c([[[?1]]]); }',
 'fn c(v: any) { try { let x: { a: int, b: str } = v; x.a += 1; println("ok", x.a, x.b); } catch e { println(e.message); }; } fn main() { let o = new { a: 1, b: "s" }; c(o); println(o); c(new { a: 1 }); c(new { a: 1, b: "s", c: 2 }); c(new { a: "x", b: "s" }); c(new { b: 1, a: "x" }); c(new { b: 1, a: 2 }); }',
 'fn c(v: any) { try { let x: { l: [{ k: ?int }] } = v; println("ok", x); } catch e { println(e.message); }; } fn main() { c(new { l: [new { k: ?1 }, new { k: ?2 }] }); c(new { l: [new { k: ?"s" }] }); c(new { l: [new { z: 1 }] }); c(new { l: [new { k: 1 }] }); c(new { l: [new { k: ?1, j: 0 }] }); }',
 'fn c(v: any) { try { let x: { ? } = v; x.set("n", 1); println("ok", x); } catch e { println(e.message); }; } fn main() { let o = new { a: 1 }; c(o); println(o); let d = new { ? }; c(d); println(d); c(1); c([1]); c("s"); }',
 'fn c(v: any) { try { let x: str = v; println("ok", x); } catch e { println(e.message); }; try { let y: float = v; println("ok", y); } catch e { println(e.message); }; try { let z: bool = v; println("ok", z); } catch e { println(e.message); }; try { let r: range = v; println("ok", r); } catch e { println(e.message); }; } fn main() { c("s"); c(1.5); c(true); c(1..=2); c(1); }',
 # values out of any-objects (heterogeneous data) validated by annotated lets; failures deep inside a structure
 'fn main() { let o = new { ? }; o.set("n", 1); o.set("s", "txt"); o.set("l", [1, 2]); o.set("f", 2.5); let n: int = o.get("n").unwrap(); let s: str = o.get("s").unwrap(); let l: [int] = o.get("l").unwrap(); println(n + 1, s + "!", l); try { let f: [float] = o.get("l").unwrap(); println(f); } catch e { println(e.message); } try { let g: int = o.get("f").unwrap(); println(g); } catch e { println(e.message); } println((o.get("f").unwrap() as int) + n); }',
 'fn main() { let o = new { ? }; o.set("k", 1); let q: ?int = o.get("k"); let m: ?int = o.get("zz"); println(q, m, q.unwrap() + 1, m.is_none()); try { let r: ?str = o.get("k"); println(r); } catch e { println(e.message, e.line, e.column); } }',
 # --- globals with run-time validation (`none` is a `?any`)
 'let gn: ?int = none; let gl: [?int] = [none, none]; let go: { a: ?str } = new { a: none }; fn main() { println(gn, gl, go); gn = ?3; gl.push(?1); go.a = ?"x"; println(gn, gl, go); }',
 # --- string members
 'fn main() { let s = "Hello, World"; println(s.to_upper(), s.to_lower(), s.replace("l", "L"), s.replace("", "-"), s.replace("o", ""), s.replace("xyz", "!"), s.replace("Hello", s), "aaa".replace("aa", "b"), "".replace("", "x"), "abc".replace("abc", "")); }',
 'fn main() { let s = "a,b,,c"; println(s.split(","), s.split(""), s.split(",,"), s.split("x"), "".split(","), "".split(""), ",".split(","), "abab".split("ab"), s.split(",").len(), s.split(",")[2] == ""); let parts = "k=v".split("="); println(parts[0], parts[1]); }',
 'fn main() { println("abc".substring(2), "abc".substring(0), "héllo".substring(2), "héllo".len()); try { println("abc".substring(3)); } catch e { println(e.message); } try { println("abc".substring(-1)); } catch e { println(e.message); } try { println("".substring(0)); } catch e { println(e.message); } }',
 'fn main() { println("ab".repeat(3), "ab".repeat(0), "".repeat(5) == "", "x".repeat(1)); try { println("abc".repeat(-1)); } catch e { println(e.message, e.line > 0); } try { println("abc".repeat(9223372036854775807)); } catch e { println(e.message); } try { println("ab".repeat(4611686018427387904)); } catch e { println(e.message); } println("".repeat(9223372036854775807) == ""); }',
 'fn main() { let s = "Mixed Case 123 _-!"; println(s.to_upper(), s.to_lower(), s.to_upper().to_lower() == s.to_lower(), s.contains("Case"), s.contains(""), s.contains("case"), s.starts_with("Mixed"), s.starts_with(""), s.starts_with("mixed"), s.len()); }',
 'fn p(s: str) { try { println(s, "->", s.parse_int()); } catch e { println(s, "!", e.message); }; } fn main() { p("42"); p("-42"); p("+7"); p("007"); p(""); p("-"); p("+"); p("12a"); p("a12"); p(" 1"); p("1 "); p("1_000"); p("0x1F"); p("9223372036854775807"); p("9223372036854775808"); p("-9223372036854775808"); p("-9223372036854775809"); p("99999999999999999999"); p("99999999999999999999x"); p("18446744073709551616"); p("1.5"); p("1e3"); p("--1"); p("it is"); p("a/b"); }',
 'fn q(s: str) { try { println(s, "->", s.parse_bool()); } catch e { println(s, "!", e.message); }; } fn main() { q("true"); q("false"); q("True"); q("FALSE"); q("1"); q("0"); q("t"); q("F"); q(""); q("yes"); q("tRUE"); q(" true"); q("2"); }',
 'fn p(s: str) { try { println(s, "->", s.parse_float()); } catch e { println(s, "!", e.message); }; } fn main() { p("1.5"); p("-2.25"); p("+0.125"); p("010"); p("3"); p("-0"); p("1000000"); p("65535.0009765625"); p("0.5"); p("abc"); p(""); p("x1"); p(" 1"); p("$5"); p("1024.0"); p(".5"); p("5."); p("."); p("+"); p("-."); p("1.5abc"); p("1.2.3"); p("12a"); p("1 "); p("1,5"); p("..5"); p("+-1"); }',
 'fn main() { let t = 0; for w in "10 20 x 30 -5".split(" ") { try { t += w.parse_int(); } catch e { println("skip", w, e.message); } } println(t); let fs = "0.5;1.25;2".split(";"); let sum = 0.0; for f in fs { sum += f.parse_float(); } println(sum, sum.is_int(), sum as int); }',
 # --- list sort / join / to_string / contains / concat
 'fn main() { let l = [3, -1, 2, 9223372036854775807, -9223372036854775807, 2, 0]; l.sort(); println(l); let s = ["b", "a", "B", "", "ab", "a"]; s.sort(); println(s, s.join("")); let f = [2.5, -1.0, 2.5, 0.0, -0.0, 1000000.0]; f.sort(); println(f); let e: [int] = []; e.sort(); println(e, e.join(","), [1].join(",")); }',
 'fn main() { let l = [[2, 1], [0]]; l[0].sort(); println(l, l.to_string(), l.contains([0]), l.contains([1, 2]), l.contains([2, 1])); let a = ["x"]; a.concat(["y", "z"]); let em: [str] = []; a.concat(em); println(a, a.len(), a.join(", "), a.to_string().len()); let o = [?1, ?3]; println(o.contains(?3), o.contains(?2), o.join("/")); }',
 # --- ranges, ints
 'fn main() { let r = 2..7; println(r.start, r.end, r.rev(), r.diff(), r.to_string(), r.rev().to_string(), (5..=1).diff(), (5..=1).to_string(), (-3..3).diff(), r.rev().rev() == r, (1..2) == (1..=2), 10.to_range(), (-2).to_range().diff(), 255.to_string() + "", (-0).to_string()); let t = 0; for i in 3.to_range() { t += i; } println(t); }',
 # --- options
 'fn main() { let a: ?int = ?3; let b: ?int = none; println(a.is_some(), a.is_none(), b.is_some(), b.is_none(), a.unwrap(), a.unwrap_or(9), b.unwrap_or(9), a.expect("no"), a.to_string(), b.to_string(), (?[1, 2]).to_string(), (??1).to_string()); try { println(b.unwrap()); } catch e { println(e.message, e.line, e.column); } println(b.expect("expected a value")); }',
 # --- any-objects: get / set / keys / get_type / to_string; missing keys; self containment
 'fn main() { let o = new { ? }; o.set("i", 1); o.set("f", 1.5); o.set("b", true); o.set("s", "x"); o.set("l", [1]); o.set("o", new { a: 1 }); o.set("d", new { ? }); o.set("n", ?1); o.set("r", 1..2); for k in o.keys() { println(k, o.get_type(k)); } println(o.to_string() == o.to_string(), o.get("i"), o.get("none")); println(o.get_type("missing")); }',
 # split on an empty receiver / empty separator: the number of parts
 'fn main() { let p = "".split(","); println(p.len(), p, p[0].len()); for x in p { println("part", x.len()); } println("".split("").len(), "a,b".split(",").len(), ",".split(",").len(), "abc".split("").len(), "a".split("abc").len()); }',
 # whole floats beyond the int64 range through to_json / to_json_indent (the forced `.0`), also nested
 'fn main() { let a = 10.0 ** 19.0; let b = 9223372036854775808.0; let c = 0.0 - 2.0 ** 63.0; let d = 2.0 ** 100.0; let o = new { a: a, b: b, c: c, d: d, e: ?a, l: [a, d, 0.5] }; println(o.to_json()); println(o.to_json_indent()); println([a, b, c, d].to_json(), a.to_string(), d); }',
 # compound assignment whose target contains an effectful sub-expression: the target is evaluated once
 'let n = 0;\nfn next() -> int { n += 1; println("next", n); n - 1 }\nfn get(o: { hits: int }) -> { hits: int } { println("get"); o }\nfn main() { let l = [1, 2, 3]; l[next()] += 5; l[next()] *= 2; println(l, n); let o = new { hits: 0 }; get(o).hits += 1; get(o).hits -= 3; println(o, n); let m = [[1, 2], [3, 4]]; m[next() - 2][next() - 3] += 10; println(m, n); }',
 'fn helper(x: int) -> int { x + 1 } fn main() { let o = new { ? }; o.set("u", helper); o.set("l", fn(x: int) -> int { x }); let nn: ?int = none; o.set("non", nn); o.set("lf", [helper]); o.set("of", new { f: helper }); for k in o.keys() { println(k, o.get_type(k)); } }',
 'fn main() { let o = new { ? }; let p = new { ? }; p.set("o", o); try { o.set("p", p); } catch e { println(e.message); } try { o.set("l", [?p]); } catch e { println(e.message); } try { o.set("me", o); } catch e { println(e.message, e.line, e.column); } o.set("ok", [p.keys()]); println(o, p); let t = new { inner: p }; try { o.set("t", t); } catch e { println("t", e.message); } println(o.keys()); }',
 'fn main() { let o = new { a: 1, b: 2 }; let k = "a"; let a: int = o[k]; let b: int = o["b"]; println(a, b); let d = new { ? }; d.set("x", 5); let x: int = d["x"]; println(x); k = "zz"; let z: int = d[k]; println(z); }',
 'fn main() { let o = new { a: 1, b: 2 }; let k = "c"; println(o.keys()); let c: int = o[k]; println(c); }',
 # --- JSON: to_json / to_json_indent (sorted keys, whole floats with .0, escapes), parse_json of valid documents
 'fn main() { let nn: ?int = none; let o = new { s: "a\\"b<>&é", n: 1, f: 1.5, z: -0.0, big: 1000000.0, b: true, no: nn, so: ?[1, 2], e: [1], l: [new { k: "v" }], em: new { ? } }; println(o.to_json()); println(o.to_json_indent()); let e: [int] = []; println(e.to_json(), e.to_json_indent(), [[e]].to_json_indent()); }',
 'fn main() { let d = new { ? }; d.set("b", 1); d.set("a", [1.5, 2.0]); d.set("c d", new { x: ?"y" }); println(d.to_json()); println(d.to_json_indent()); let s = "tab\\there\\\\back"; println([s, "\\n", "</script>"].to_json()); let r = [s].to_json().parse_json() as [str]; println(r[0] == s, r); }',
 'fn p(s: str) { try { let v: { ? } = s.parse_json(); println(v); } catch e { println(e.message); }; } fn main() { p("{\\"a\\": 1, \\"b\\": [1, 2.5, \\"x\\", true, false, null], \\"c\\": {\\"d\\": {}}, \\"a\\": 2}"); p(" { } "); p("[1]"); p("{\\"u\\": \\"\\\\u00e9\\\\n\\\\/\\", \\"n\\": -0, \\"m\\": 2.0, \\"k\\": -12.25}"); }',
 'fn main() { let l: [int] = "[1, 2, 3]".parse_json(); println(l, l.len()); let f: [float] = "[1.5, 2.25]".parse_json(); println(f); try { let g: [float] = "[1.5, 2]".parse_json(); println(g); } catch e { println(e.message); } let o = "{\\"a\\": {\\"b\\": [null, 1]}}".parse_json() as { a: { b: [?int] } }; println(o.a.b, o.to_json()); let c = "{\\"keys\\": 3, \\"name\\": \\"door\\"}".parse_json() as { keys: int, name: str }; println(c.name, c.keys + 1, c.to_json()); }',
 # --- `->` (field of an any-object as an option) and `~>` (the same, unwrapped; a missing key throws)
 'fn main() { let o = new { ? }; o.set("k", 1); o.set("s", "x"); let a: int = o~>k; let b: ?int = o->k; let c: ?int = o->zz; let s: ?str = o->s; println(a, b, c, s); try { let d: int = o~>zz; println(d); } catch e { println(e.message, e.line, e.column); } try { let t: int = o~>s; println(t); } catch e { println(e.message); } for i in 0..3 { let m: ?int = o->missing; println(i, m); } }',
 'fn get(o: { ? }, dflt: int) -> int { let v: ?int = o->n; v.unwrap_or(dflt) } fn main() { let o = new { ? }; println(get(o, 7)); o.set("n", 3); println(get(o, 7)); let p = new { n: 5 } as { ? }; println(get(p, 7)); let q: ?int = p->n; println(q.unwrap() + (p~>n as int)); }',
 # --- compare_lev
 'fn main() { println("kitten".compare_lev("sitting"), "".compare_lev("abc"), "abc".compare_lev(""), "héllo".compare_lev("hello"), "same".compare_lev("same"), "flaw".compare_lev("lawn"), "a".compare_lev("bcdef"), "sunday".compare_lev("saturday")); }',
 # --- conversions inside larger programs
 'fn avg(l: [int]) -> float { let s = 0; for x in l { s += x; } (s as float) / (l.len() as float) } fn main() { println(avg([1, 2, 3, 4]), avg([10]), avg([1, 2]) ** 2.0, (avg([7, 8]) * 2.0) as int, avg([1, 2]).round(), avg([-1, -2]).round(), avg([-1, -2]).trunc()); }',
 'fn parse(line: str) -> { ? } { let o = new { ? }; for kv in line.split(";") { let p = kv.split("="); if p.len() == 2 { o.set(p[0].to_lower(), p[1]); }; } o } fn main() { let o = parse("A=1;b=two;C=3.5;bad;=e"); println(o.keys(), o); let a: str = o.get("a").unwrap(); println(a.parse_int() + 1); let c: str = o.get("c").unwrap(); println(c.parse_float() * 2.0); try { let n: int = o.get("b").unwrap(); println(n); } catch e { println(e.message); } }',
    ]


def nan_programs():
    """IEEE-754: every ordered comparison with a NaN operand is false, `!=` is true (NaN from the square root of a negative
    number and from inf - inf; neither is ever displayed: the models do not render NaN / Inf)."""
    return [
        'fn main() { let n = (0.0 - 1.0) ** 0.5; println(n <= 1.0, n >= 1.0, n < 1.0, n > 1.0, n == n, n != n, 1.0 <= n, 1.0 >= n); let r = 0; while n <= 0.0 { r += 1; if r > 2 { break; } } '
        'println("rounds", r); println(if n >= 0.0 { "ge" } else { "unordered" }); let i = 10.0 ** 400.0; println(i > 1.0, (i - i) <= i, (i - i) >= i, (i - i) != (i - i)); }',
        'fn cmp(a: float, b: float) -> str { if a < b { "lt" } else if a > b { "gt" } else if a == b { "eq" } else if a <= b { "le?" } else if a >= b { "ge?" } else { "unordered" } } '
        'fn main() { let n = (0.0 - 4.0) ** 0.5; println(cmp(n, 1.0), cmp(1.0, n), cmp(n, n), cmp(1.0, 1.0), cmp(0.5, 1.0)); let l = [n, 1.0]; println(l[0] <= l[1], l[0] >= l[1], !(l[0] > l[1])); }',
    ]


def overlapping_match():
    """`match` takes the FIRST arm that lists the value: arms sharing a literal (the analyzer accepts them)."""
    return [
        "fn cls(n: int) -> str { match n { 1 | 2 | 3 => \"small\", 3 | 4 | 5 => \"medium\", 5 | 6 => \"big\", _ => \"other\" } } fn main() { for i in 0..8 { println(i, cls(i)); } }",
        "fn main() { let s = \"b\"; println(match s { \"a\" | \"b\" => 1, \"b\" | \"c\" => 2, \"b\" => 3, _ => 4 }); for k in [true, false] { println(match k { true => \"t1\", true => \"t2\", _ => \"f\" }); } }",
        "fn main() { let i = 0; while i < 4 { match i { 0 | 1 => { println(\"lo\", i); }, 1 | 2 => { println(\"mid\", i); }, 2 | 3 => { println(\"hi\", i); }, _ => { println(\"none\"); } }; i += 1; } }",
    ]


def tour():
    """Corners of the language that the typed generator never reaches: type definitions (top level, nested, local), event
    functions, trigger annotations, type imports from a host module, the builtins debug / fmt / assert / assert_eq,
    matches over strings and bools, option and range members, non-ASCII strings."""
    return [
        'type P = { x: int, y: int };\nfn mk(a: int) -> P { new { x: a, y: a * 2 } }\nfn main() { let p: P = mk(3); println(p.x + p.y); let l: [P] = [mk(1), mk(2)]; for q in l { println(q.y); } println(l); }',
        'type A = [int];\ntype B = { l: A, o: ?A };\nfn main() { let b: B = new { l: [1, 2], o: ?[3] }; println(b.l.len(), b.o.unwrap()[0]); let c: B = new { l: [4], o: none }; println(c); println(b == c); }',
        'fn main() { type L = [str]; let l: L = ["a"]; l.push("b"); println(l.join("+")); }',
        'pub type Id = int;\npub fn next(i: Id) -> Id { i + 1 }\nfn main() { let a: Id = 41; println(next(a)); }',
        'event fn ev(a: int) { println("ev", a); }\nfn main() { println("m"); }',
        'import { trigger minute } from triggers;\n#[trigger on minute(1)]\nevent fn cb(elapsed: int) { println("cb"); }\nfn main() { println("m"); }',
        'import { type HttpResponse } from net;\nfn show(r: ?HttpResponse) -> str { if r.is_some() { r.unwrap().status } else { "nothing" } }\nfn main() { println(show(none)); println(show(?new { status: "OK", status_code: 200, body: "b", cookies: new { ? } })); }',
        'import { templ FooFeature } from templates;\n$Lamp = { power: bool, lvl: int };\nimpl FooFeature with { light } for $Lamp {\n    fn dim(self: $Lamp, percent: int) -> bool { self.lvl = percent; percent > 50 }\n}\nfn main() { println($Lamp.lvl); println(dim(70)); println($Lamp.lvl); println(dim(10), $Lamp.lvl); }',
        # a function literal written inside try blocks, leaving through `return`: the handlers of its caller stay in force
        'fn main() { try { let f0 = fn() -> int { return 5; }; println(f0()); } catch z { println("never"); } println("after plain try"); try { let f = fn() -> int { return 1; }; println(f()); throw("boom"); } catch e { println("caught", e.message); } try { try { let g = fn(k: int) -> int { if k > 0 { return k; } 0 }; println(g(2), g(0)); } catch a { println("inner"); } throw("outer"); } catch b { println("caught", b.message); } println("done"); }',
        # data fields named like the builtin members of objects, on both backends (read, arithmetic, assignment)
        'type Config = { keys: int, name: str, to_json: int };\nfn main() { let o = new { to_string: 42, n: 1 }; println(o.n, o.to_string); o.to_string += 1; println(o.to_string + 1); let c = "{\\"keys\\": 3, \\"name\\": \\"x\\", \\"to_json\\": 5}".parse_json() as Config; println(c.keys + c.to_json, c.name); c.keys = 9; println(c.keys); }',
        # variadic builtins as values inside objects / lists / options against function types of another parameter kind
        'fn main() { let p = println; p("via value", 1); let q = ?println; q.unwrap()("from option"); let d = ?debug; d.unwrap()(1, "x"); }',
        'fn main() { assert(true); println("ok"); assert(1 == 2); println("not reached"); }',
        'fn main() { debug(1, "a", [1, 2], new { a: 1 }); println("after debug"); }',
        'fn main() { println(fmt("%d and %s", 1, "x")); println(fmt("%v|%v", [1], 2.5)); }',
        'import { assert_eq } from testing;\nfn main() { assert_eq(1, 1); println("eq"); assert_eq("a", "b"); println("nr"); }',
        'fn main() { let s = "a\u00e9\u65e5"; println(s.len(), s[1], s.to_upper(), s.split("")); for c in s { print(c, "|"); } println(""); }',
        'fn main() { let r = 5..=7; println(r, r.start, r.end, r.rev(), r.diff()); for i in r.rev() { print(i, ""); } println(""); for i in 3..0 { print(i, ""); } println(""); }',
        'fn main() { let m = match "b" { "a" => 1, "b" | "c" => 2, _ => 3 }; let n = match true { true => "t", _ => "f" }; println(m, n); }',
        'fn main() { let o = ?[1, 2]; println(o.is_some(), o.unwrap_or([9]), o.expect("e").len()); let n: ?int = none; println(n.is_none(), n.unwrap_or(4)); println(n.expect("boom")); }',
    ]


def tour_vm_only():
    """Trigger statements: the interpreter's executor cannot register triggers (it answers with a fatal error), so
    these programs are judged on the compiler + VM against the specification only."""
    return [
        'import { trigger minute } from triggers;\nevent fn cb(elapsed: int) { println("cb", elapsed); }\nfn main() { trigger cb on minute(5); println("armed"); }',
        'import { trigger minute } from triggers;\nevent fn tick(elapsed: int) { println(elapsed); }\nfn main() { let arm = fn() { trigger tick at minute(1); }; arm(); arm(); println("armed"); }',
        'import { trigger minute } from triggers;\nevent fn cb(elapsed: int) { println("cb", elapsed); }\nevent fn cb2(elapsed: int) { println("cb2"); }\nfn main() { for i in 0..3 { trigger cb on minute(i * 2); } trigger cb2 at minute(7); println("armed"); }',
    ]


def module_programs():
    """Multi-module programs (as (main, mods, None) triples): a parameter or local of an imported function named like a global
    of its module, function literals that cross a module border in both directions, a singleton extracted by an imported
    function (declared in the defining module only). No name is defined in two modules (open finding V22)."""
    out = [
        # imported modules whose names sort AFTER the entry module's: the host starts the ENTRY module's `main`
        ("import { tick } from zeta;\nimport { tock } from omega;\nfn main() { let a = tick(); let b = tock(); let c = tick(); println(\"entry main\", a, b, c); }",
         {"zeta": "let n = 0;\npub fn tick() -> int { n += 1; n }\nfn main() { println(\"zeta main\"); }",
          "omega": "let m = 10;\npub fn tock() -> int { m += 10; m }\nfn main() { println(\"omega main\"); }"}),
        ("import { setx, getx, bump } from a;\nfn main() { println(getx()); setx(42); println(getx()); bump(5); println(getx()); setx(7); println(getx()); }",
         {"a": "let x = 1;\npub fn getx() -> int { x }\npub fn setx(x: int) { println(\"setx\", x); }\npub fn bump(n: int) { let x = n * 2; println(\"bump\", x); }\nfn main() { }"}),
        ("import { shadow, inc, get } from a;\nfn main() { println(shadow(100)); inc(); inc(); println(get()); println(shadow(5)); inc(); println(get()); }",
         {"a": "let cnt = 0;\npub fn shadow(cnt: int) -> int { cnt + 1 }\npub fn inc() { cnt += 1; }\npub fn get() -> int { cnt }\nfn main() { }"}),
        ("import { apply, get } from b;\nlet xm = 9;\nfn main() { println(apply(fn() -> int { get() })); println(apply(fn() -> int { xm })); }",
         {"b": "let xb = 5;\npub fn get() -> int { xb }\npub fn apply(f: fn() -> int) -> int { f() + xb }\nfn main() { }"}),
        ("import { twice, next, make } from lib;\nlet counter = 100;\nfn own() -> int { counter }\nfn main() { println(twice(fn() -> int { next() })); println(counter); println(next()); let add = make(); println(add(own)); counter = 2; println(add(own)); }",
         {"lib": "let cnt = 0;\nlet base = 10;\npub fn next() -> int { cnt += 1; cnt }\npub fn twice(f: fn() -> int) -> int { f() + f() }\n"
                 "pub fn make() -> fn(cb: fn() -> int) -> int { fn(cb: fn() -> int) -> int { cb() + base } }\nfn main() { }"}),
        ("import { dim, level } from dev;\nfn main() { let a = dim(20); println(a, level()); let b = dim(5); println(b + level()); }",
         {"dev": "$Lamp = { lvl: int };\npub fn dim(lamp: $Lamp, p: int) -> int { lamp.lvl = p; lamp.lvl }\npub fn level(lamp: $Lamp) -> int { lamp.lvl }\nfn main() { }"}),
    ]
    return [(m, mods, None) for m, mods in out]


def global_init_failures():
    """Global initializers that the analyzer accepts as constant and that throw when they are evaluated (G1): division and
    remainder by zero, negative shift counts, indices outside a list / string literal; bare and nested in the constant
    constructs (group, block, list, object, option, range, prefix, cast, short-circuit operands). In the entry module and
    in an imported module (also two imports deep), with and without a try/catch in main: the initializers run before main,
    nothing catches them, the program ends with that fatal exception and without output on both backends (the host gets
    the exception back; it must not be taken down). The last programs are the non-throwing neighbours."""
    faults = ["1 / 0", "1 % 0", "1.0 / 0.0", "1 << -1", "1 >> -1", "[1, 2][5]", "[1, 2][-5]", "[1, 2][2]", '"abc"[3]', '"abc"[-4]',
              "[[1], [2]][1][3]", "(new { a: [1] }).a[2]"]
    mains = ["fn main() { println(\"start\"); println(g); }",
             "fn main() { println(\"start\"); try { println(g); } catch e { println(\"caught\", e.message); } println(\"end\"); }"]
    out = []
    for f in faults:
        for m in mains:
            out.append(f"let g = {f};\n{m}")
            out.append((f"import {{ g }} from lib;\n{m}", {"lib": f"pub let g = {f};\nfn main() {{ }}"}, None))
    nested = ["(1 / 0)", "{ 1 / 0 }", "[1, 1 / 0]", "new { a: 1 % 0 }", "?(1 / 0)", "(1 / 0)..3", "0..(1 % 0)", "-(1 / 0)", "!(1 / 0 == 0)",
              "(1 / 0) as float", "[1, 2][1 / 0]", "1 / 0 == 1 / 0", "true && 1 / 0 == 1", "false || 1 % 0 == 1", "1 + 2 * (3 / (2 - 2))",
              "[1, 2][5] + 1 / 0", "[[1, 2][7]]"]
    for f in nested:
        out.append(f"let g = {f};\nfn main() {{ println(\"start\"); println(g); }}")
    out += [
        # the failing initializer between good ones; main does not read it; a function and an event function read it
        "let ok = 5;\nlet g = 1 / 0;\nlet after = 6;\nfn main() { println(ok, after); }",
        "let g = 1 / 0;\nfn helper() -> int { g }\nfn main() { try { println(helper()); } catch e { println(\"caught\", e.message); } }",
        "let g: int = 5 % 0;\nevent fn ev(a: int) { println(g); }\nfn main() { println(1); }",
        "let l: [int] = [];\nlet h = [1][1];\nfn main() { l.push(1); println(l); }",
        "let a = [1, 2][5];\nlet b = 1 / 0;\nfn main() { println(a, b); }",
        # an imported module that fails although nothing of the failing global is used; two imports deep; the entry
        # module's own globals come after the imports
        ("import { h } from lib;\nfn main() { println(\"start\", h); }", {"lib": "let g = 1 / 0;\npub let h = 2;\nfn main() { }"}, None),
        ("import { f } from lib;\nfn main() { try { println(f()); } catch e { println(\"caught\"); } }",
         {"lib": "let g = [1, 2][9];\npub fn f() -> int { g }\nfn main() { }"}, None),
        ("import { h } from lib;\nfn main() { println(h); }",
         {"lib": "import { k } from deep;\npub let h = 2;\nfn main() { }", "deep": "pub let k = 1 << -1;\nfn main() { }"}, None),
        # (at most ONE module of a program fails: which exception wins when two modules fail depends on the order in which
        # the modules are initialised, and that order differs between the backends — reported as a finding of its own)
        ("import { h } from lib;\nlet own = 1 % 0;\nfn main() { println(h, own); }", {"lib": "pub let h = 3;\nfn main() { }"}, None),
        # a module that is not imported is not initialised
        ("let l = [1, 2];\nfn main() { println(l); }", {"other": "let g = 1 / 0;\nfn main() { }"}, None),
        # non-throwing neighbours: short-circuit skips the faulting operand, wrapping arithmetic, in-range indices
        "let g = false && 1 / 0 == 1;\nlet h = true || 1 / 0 == 1;\nfn main() { println(g, h); }",
        "let a = 9223372036854775807 + 1;\nlet b = (0 - 9223372036854775807 - 1) / -1;\nlet c = (0 - 9223372036854775807 - 1) % -1;\nlet d = 1 << 64;\nlet e = 2 ** 64;\nfn main() { println(a, b, c, d, e); }",
        "let a = [1, 2][-2];\nlet b = [1, 2][1];\nlet c = \"abc\"[-3];\nlet d = 7 / 2;\nlet e = 7 % -2;\nlet f = 1.0 / 4.0;\nfn main() { println(a, b, c, d, e, f); }",
    ]
    return out


def all_families():
    return {
        "tour": tour(),
        "overlapping_match": overlapping_match(),
        "modules": module_programs(),
        "nan": nan_programs(),
        "snapshot": snapshot(),
        "sharing": sharing(),
        "shadowing": shadowing(),
        "order": order_and_shortcircuit(),
        "values": values_of_constructs(),
        "intmatrix": int_matrix(),
        "pending": pending_operands(),
        "lambdas": lambdas() + lambda_scope_programs(),
        "features": feature_corpus(),
        "global_init_failures": global_init_failures(),
    }


def host_value(v):
    """Python value -> value S-expression of harness/values.go (what the host hands over):
    None = none, ("some", v), bool, int, float (dyadic), str, list, dict = object."""
    if v is None:
        return "none"
    if isinstance(v, tuple) and v and v[0] == "some":
        return f"(some {host_value(v[1])})"
    if isinstance(v, bool):
        return "(b true)" if v else "(b false)"
    if isinstance(v, int):
        return f"(i {v})"
    if isinstance(v, float):
        m, e = v, 0
        while m != int(m):
            m, e = m * 2, e + 1
        return f"(f {int(m)} {e})"
    if isinstance(v, str):
        return "(s x" + v.encode("utf-8").hex() + ")"
    if isinstance(v, list):
        return "(l" + "".join(" " + host_value(x) for x in v) + ")"
    if isinstance(v, dict):
        return "(o" + "".join(f" (x{k.encode('utf-8').hex()} {host_value(x)})" for k, x in v.items()) + ")"
    raise TypeError(v)


def singleton_cases():
    """Singletons (`$Name = type;`): programs with what the host provides for them, as
    (main, mods, singletons) triples for progstream.run_all; singletons maps `$Name` to a value
    S-expression, a name that is missing gets the zero value of its type, None = the option is
    not sent at all. Covered: object and scalar singletons, `$Name` as an expression, extraction
    (`fn f(c: $Name, a: int)`, callers pass only `a`) in one / several functions and of two
    singletons, updates through the extracted parameter, through `$Name` and through aliases and
    where they are visible, singletons of imported modules, the order in which the host is asked.
    NOT generated: assignment to the singleton identifier itself (`$N = 1;`, `$N += 1;`: finding S1),
    one singleton name declared in two modules (finding V22), nested object types (outside the
    compiler model)."""
    H = host_value
    cfg_decl = "$Cfg = { n: int, s: str, b: bool, l: [int] };\n"
    cfg_host = {"n": 5, "s": "hi", "b": True, "l": [1, 2]}
    out = []

    def add(main, hosts, mods=None):
        for h in hosts:
            out.append((main, mods, None if h is None else {k: H(v) for k, v in h.items()}))

    cfg_hosts = [None, {}, {"$Cfg": cfg_host}]
    # `$Name` as an expression
    add(cfg_decl + "fn main() { println($Cfg); }", cfg_hosts)
    add(cfg_decl + "fn main() { println($Cfg.n + 1, $Cfg.s + \"!\", !$Cfg.b, $Cfg.l, $Cfg.l.len()); for x in $Cfg.l { println(x); } }", cfg_hosts)
    scal_decl = "$N = int;\n$F = float;\n$B = bool;\n$T = str;\n$L = [int];\n$O = ?int;\n"
    scal_main = scal_decl + ("fn main() { println($N, $F, $B, $T, $L, $O); println($N * 2 + 1, $F + 1.5, !$B, $T + \"?\", $T.len(), $L.len(), "
                             "$O.unwrap_or(7), $O.is_some()); if $B { println(\"yes\"); } else { println(\"no\"); } }")
    scal_full = {"$N": 20, "$F": 2.5, "$B": True, "$T": "txt", "$L": [4, 5, 6], "$O": ("some", 9)}
    add(scal_main, [None, scal_full, dict(reversed(list(scal_full.items()))), {"$N": -3, "$T": ""}, {"$O": None, "$L": [], "$B": False, "$F": -0.25},
                    {"$N": 9223372036854775807, "$F": 1024.0}])
    # zero values of the remaining kinds (range, any-object, list of lists, option of a list, object with such fields)
    add("$R = range;\n$Y = { ? };\n$LL = [[int]];\n$OL = ?[str];\n$W = { r: range, y: { ? }, o: ?int, f: float };\n"
        "fn main() { println($R, $R.start, $R.end); for i in $R { println(\"in R\", i); } println($Y, $Y.keys().len(), $LL, $LL.len(), $OL, $OL.is_none()); "
        "println($W.r, $W.y, $W.o, $W.f); for j in $W.r { println(\"in W.r\", j); } }", [None, {}])
    # extraction in one and in several functions; callers pass only the normal parameters
    add(cfg_decl + "fn f(c: $Cfg) { println(c.n, c.s, c.b, c.l); } fn main() { f(); f(); }", cfg_hosts)
    add(cfg_decl + "fn f(c: $Cfg) -> int { c.n } fn g(d: $Cfg) -> str { d.s } fn h(e: $Cfg, k: int) -> int { e.l.len() + k } "
                   "fn main() { println(f() + f(), g() + g(), h(10), h(f())); }", cfg_hosts)
    two_decl = "$A = int;\n$B = str;\n"
    two_hosts = [None, {"$A": 3, "$B": "bee"}, {"$B": "bee", "$A": 3}, {"$A": 3}, {"$B": "bee"}]
    add(two_decl + "fn ab(a: $A, b: $B) { println(\"ab\", a, b); } fn ba(b: $B, a: $A) { println(\"ba\", a, b); } "
                   "fn only_b(x: $B) -> str { x + x } fn main() { ab(); ba(); println(only_b(), $A, $B); }", two_hosts)
    add(two_decl + "fn f(a: $A, b: $B, p: int, q: str) { println(a + p, b + q); } fn g(b: $B, p: int) -> int { p + b.len() } "
                   "fn main() { f(1, \"x\"); f(g(2), \"y\"); let v = 7; f(v, $B); }", two_hosts)
    add("$K = int;\nfn sum(k: $K, n: int) -> int { if n == 0 { k } else { sum(n - 1) + k } } fn main() { println(sum(0), sum(4)); }",
        [None, {"$K": 10}])
    add("$K = int;\nfn a(k: $K) -> int { b(k) + k } fn b(k: $K, x: int) -> int { c(x, x) * k } fn c(k: $K, x: int, y: int) -> int { x + y + k } "
        "fn main() { println(a()); }", [None, {"$K": 3}])
    add("$K = int;\nfn get(k: $K) -> int { k } fn main() { let l = [get(), get() + 1]; let o = new { v: get() }; println(l, o.v); "
        "let i = 0; while i < get() { i += 1; } println(i); for j in 0..get() { print(j); } println(); }", [None, {"$K": 3}])
    # updates through the extracted parameter: fields / elements are shared with the singleton, the parameter itself is a local
    add(cfg_decl + "fn bump(c: $Cfg) { c.n += 1; c.s += \"x\"; c.b = !c.b; c.l.push(c.n); } fn show(c: $Cfg) { println(c.n, c.s, c.b, c.l); } "
                   "fn main() { show(); bump(); show(); bump(); bump(); show(); println($Cfg); }", cfg_hosts)
    add(cfg_decl + "fn f(c: $Cfg) { println(c.n); c.n = 9; println(c.n); c = new { n: 1, s: \"z\", b: false, l: [0] }; println(c.n); c.n = 2; } "
                   "fn main() { f(); f(); println($Cfg.n); }", cfg_hosts)
    add("$N = int;\n$T = str;\nfn f(n: $N, t: $T) { println(n, t); n = 9; n += 1; t += \"!\"; println(n, t); } fn main() { f(); f(); println($N, $T); }",
        [None, {"$N": 3, "$T": "t"}])
    add(cfg_decl + "fn main() { $Cfg.n = 8; $Cfg.n += 1; $Cfg.l.push(3); $Cfg.l[0] = 9; $Cfg.s = \"w\"; println($Cfg); }", [None, {"$Cfg": cfg_host}])
    add(cfg_decl + "fn rd(c: $Cfg) -> int { c.n } fn main() { println(rd()); $Cfg.n = 8; println(rd()); let a = $Cfg; a.n = 11; println(rd(), $Cfg.n); "
                   "let b = $Cfg.l; b.push(4); println($Cfg.l); }", cfg_hosts)
    add(cfg_decl + "fn grow(c: $Cfg, by: int) -> int { c.l.push(by); c.l.len() } fn main() { for i in 0..4 { println(grow(i * i)); } println($Cfg.l); }", cfg_hosts)
    add("$L = [int];\nfn add(l: $L) { l.push(l.len()); } fn last(l: $L) -> int { l[-1] } fn main() { add(); add(); println($L, last()); "
        "let m = $L; m.pop(); println($L); for x in $L { add(); } println($L); }", [None, {"$L": [10]}, {"$L": []}])
    add("$O = ?int;\nfn f(o: $O) -> int { o.unwrap_or(-1) } fn main() { println(f(), $O); }", [None, {"$O": ("some", 4)}, {"$O": None}])
    add(cfg_decl + "fn risky(c: $Cfg, k: int) { c.n += 1; if k > 0 { throw(\"boom\"); }; c.n += 100; } "
                   "fn main() { try { risky(1); } catch e { println(e.message); }; println($Cfg.n); risky(0); println($Cfg.n); }", cfg_hosts)
    add(cfg_decl + "fn main() { println($Cfg.l[1]); }", [None, {"$Cfg": cfg_host}])       # zero value: index out of bounds
    add("$O = ?int;\nfn f(o: $O) -> int { o.unwrap() } fn main() { println(f()); }", [None, {"$O": ("some", 4)}])
    add("$N = int;\nfn main() { println(10 / $N); }", [None, {"$N": 5}])
    add("$N = int;\nlet g = 5;\nfn f(n: $N) -> int { g += n; g } fn main() { println(f()); println(f()); println(g, $N); }", [None, {"$N": 2}])
    add("$U = int;\n$N = int;\nfn main() { println($N); }", [None, {"$U": 1, "$N": 2}, {"$Other": 1}])
    # singletons of an imported module
    m = "$Dev = { v: int, tag: str };\npub fn get(d: $Dev) -> int { d.v }\npub fn bump(d: $Dev, by: int) { d.v += by; d.tag += \"+\"; }\npub fn tag(d: $Dev) -> str { d.tag }\nfn main() { }"
    add("import { get, bump, tag } from dev;\nfn main() { println(get(), tag()); bump(2); bump(get()); println(get(), tag()); }",
        [None, {"$Dev": {"v": 40, "tag": "t"}}], mods={"dev": m})
    add("import { get, bump } from dev;\n$Own = { v: int };\nfn mine(o: $Own) -> int { o.v } fn both(o: $Own) -> int { bump(o.v); get() + o.v } "
        "fn main() { println(get(), mine()); $Own.v = 3; println(get(), mine()); println(both()); println(both()); println(get(), mine()); }",
        [None, {"$Dev": {"v": 40, "tag": "t"}}, {"$Own": {"v": 7}}, {"$Own": {"v": 7}, "$Dev": {"v": 40, "tag": "t"}}, {"$Dev": {"v": 40, "tag": "t"}, "$Own": {"v": 7}}],
        mods={"dev": m})
    m2 = "$Cnt = int;\n$Log = [str];\npub fn note(l: $Log, c: $Cnt, what: str) -> int { l.push(what); l.len() + c }\npub fn dump(l: $Log) { println(l); }\nfn main() { }"
    add("import { note, dump } from journal;\n$Own = int;\nfn main() { println(note(\"a\")); println(note(\"b\"), $Own); dump(); }",
        [None, {"$Cnt": 100, "$Log": ["z"], "$Own": 1}, {"$Own": 1, "$Log": ["z"], "$Cnt": 100}, {"$Log": ["y", "z"]}],
        mods={"journal": m2})
    return out


def spawn_programs():
    """`spawn` in every shape (S1; judged for "returns to the host" only: the output order of spawned cores is not
    deterministic and the interpreter runs a spawn as a plain call). What the analyzer accepts must compile to Opcode_Spawn
    and run: functions of the entry module (also event / pub functions, functions extracting singletons, functions defined
    further down), functions imported from a code module; as a statement, let-bound, as a list element / object field /
    operand, inside function literals, try, loops, match arms, nested spawns. The first block holds the shapes that the
    analyzer has to REJECT (a function value is no function of the program: the compiler cannot spawn it; thread handles do
    not exist: no `join`); a rejected program is skipped by the judge, an accepted one must not take the host down."""
    W = "fn work(n: int) { println(\"w\", n); }\n"
    C = "fn calc(n: int) -> int { n * 2 }\n"
    out = [
        # ---- must be rejected (crashed the compiler / the VM / both backends when they were accepted)
        W + "fn main() { let f = work; spawn f(3); }",
        W + "fn run(f: fn(n: int) -> null) { spawn f(1); }\nfn main() { run(work); }",
        "fn main() { let f = fn(n: int) { println(n); }; spawn f(1); }",
        W + "fn main() { let work = fn(n: int) { println(n); }; spawn work(1); }",
        W + "fn main() { let g = fn() { let w = work; spawn w(1); }; g(); }",
        W + "fn mk() -> fn(n: int) -> null { work }\nfn main() { let f = mk(); spawn f(2); }",
        "fn main() { spawn println(1); }",
        "fn main() { spawn print(1, 2); println(\"after\"); }",
        "fn main() { let h = spawn println(1); }",
        "fn main() { for i in 0..3 { spawn println(i); } }",
        "fn main() { spawn debug(1); }",
        "fn main() { spawn throw(\"x\"); }",
        "fn main() { try { spawn throw(\"x\"); } catch e { println(e.message); } }",
        "fn main() { spawn fmt(\"%d\", 1); }",
        "import { ping } from net;\nfn main() { spawn ping(\"localhost\", 1.0); }",
        "import { assert_eq } from testing;\nfn main() { spawn assert_eq(1, 1); }",
        W + "fn main() { let h = spawn work(3); h.join(); }",
        W + "fn main() { let h = spawn work(3); println(h.join); }",
        W + "fn main() { (spawn work(3)).join(); }",
        C + "fn main() { let h = spawn calc(3); println(h.join()); }",
        C + "fn main() { let l = [spawn calc(1), spawn calc(2)]; for h in l { println(h.join()); } }",
        C + "fn main() { let o = new { h: spawn calc(1) }; println(o.h.join() + 1); }",
        C + "fn wait(h: { join: fn() -> int }) -> int { h.join() }\nfn main() { println(wait(spawn calc(2))); }",
        ("import { fv } from lib;\nfn main() { let f = fv(); spawn f(1); }", {"lib": "pub fn fv() -> fn(n: int) -> null { fn(n: int) { println(n); } }\nfn main() { }"}, None),
        ("import { helper } from lib;\nfn main() { let g = helper; spawn g(1); }", {"lib": "pub fn helper(n: int) { println(\"lib\", n); }\nfn main() { }"}, None),
        ("import { helper } from lib;\nfn main() { let helper = fn(n: int) { println(n); }; spawn helper(1); }",
         {"lib": "pub fn helper(n: int) { println(\"lib\", n); }\nfn main() { }"}, None),
        ("import { helper } from lib;\nfn main() { let h = spawn helper(1); h.join(); }", {"lib": "pub fn helper(n: int) { println(\"lib\", n); }\nfn main() { }"}, None),
        # ---- accepted shapes
        W + "fn main() { spawn work(1); }",
        W + "fn main() { spawn work(1); spawn work(2); spawn work(3); println(\"main\"); }",
        "fn main() { spawn later(1); }\nfn later(n: int) { println(n); }",
        W + "fn main() { let h = spawn work(1); let k: null = h; println(\"bound\"); }",
        C + "fn main() { spawn calc(1); let h = spawn calc(2); println(\"dropped\"); }",
        W + "fn main() { let l = [spawn work(1), spawn work(2)]; println(l.len()); let o = new { a: spawn work(3) }; println(o.a == null); }",
        W + "fn main() { println(spawn work(1) == null); if spawn work(2) == null { println(\"null\"); } }",
        W + "fn main() { let g = fn() { spawn work(1); }; g(); g(); }",
        W + "fn main() { let g = fn(k: int) { for i in 0..k { spawn work(i); } }; g(3); }",
        W + "fn main() { try { spawn work(1); throw(\"after spawn\"); } catch e { println(e.message); spawn work(2); } }",
        W + "fn main() { for i in 0..4 { spawn work(i); } let i = 0; while i < 3 { spawn work(10 + i); i += 1; } loop { spawn work(20); break; } }",
        W + "fn main() { for i in 0..40 { spawn work(i); } }",
        W + "fn main() { for i in 0..3 { if i == 1 { continue; } spawn work(i); } }",
        W + "fn main() { let x = match 1 { 1 => spawn work(1), _ => spawn work(2) }; let y = if true { spawn work(3) } else { spawn work(4) }; println(x == y); }",
        W + "fn main() { let a = 5; spawn work(a); a = 6; spawn work(a + 1); }",
        "fn show(l: [int], o: { a: str }, p: ?int, r: range, s: str, f: float, b: bool) { println(l, o, p, r, s, f, b); }\n"
        "fn main() { let l = [1, 2]; let o = new { a: \"x\" }; spawn show(l, o, ?3, 1..4, \"s\", 1.5, true); l.push(3); o.a = \"y\"; println(l, o); }",
        "fn big(l: [[int]]) { println(l.len()); }\nfn main() { let l: [[int]] = []; for i in 0..20 { l.push([i, i]); } spawn big(l); spawn big(l); }",
        "fn any(o: { ? }) { println(o.keys()); }\nfn main() { let o = new { ? }; o.set(\"k\", 1); spawn any(o); o.set(\"j\", 2); }",
        "fn down(n: int) { println(n); if n > 0 { spawn down(n - 1); } }\nfn main() { spawn down(4); }",
        "fn leaf(n: int) { println(\"leaf\", n); }\nfn mid(n: int) { spawn leaf(n); spawn leaf(n + 1); }\nfn main() { spawn mid(1); spawn mid(10); }",
        "fn boom(n: int) { println(1 / n); }\nfn main() { spawn boom(0); println(\"main goes on\"); }",
        "fn boom(n: int) { throw(\"in the spawned core\"); }\nfn main() { spawn boom(0); spawn boom(1); }",
        "fn boom(l: [int]) { println(l[5]); }\nfn main() { try { spawn boom([1]); } catch e { println(\"not caught here\"); } }",
        "fn deep(n: int) -> int { deep(n + 1) }\nfn main() { spawn deep(0); println(\"main\"); }",
        "fn spin(n: int) { let i = 0; while i < n { i += 1; } println(i); }\nfn main() { spawn spin(2000); spawn spin(10); }",
        "let g = 0;\nfn bump(n: int) { g += n; }\nfn main() { spawn bump(1); spawn bump(2); println(\"main\"); }",
        "event fn ev(a: int) { println(\"ev\", a); }\nfn main() { spawn ev(3); let h = spawn ev(4); }",
        "pub fn helper(n: int) { println(n); }\nfn main() { spawn helper(3); }",
        "$Lamp = { lvl: int };\nfn dim(lamp: $Lamp, p: int) { lamp.lvl = p; println(lamp.lvl); }\nfn main() { spawn dim(3); let h = spawn dim(4); }",
        "import { templ FooFeature } from templates;\n$Lamp = { power: bool, lvl: int };\nimpl FooFeature with { light } for $Lamp {\n"
        "    fn dim(self: $Lamp, percent: int) -> bool { self.lvl = percent; percent > 50 }\n}\nfn main() { spawn dim(70); let h = spawn dim(10); println(\"main\"); }",
        "import { trigger minute } from triggers;\n#[trigger on minute(1)]\nevent fn cb(elapsed: int) { println(\"cb\", elapsed); }\nfn main() { spawn cb(5); }",
        "fn none_ret() -> ?int { none }\nfn f_ret() -> fn() -> int { fn() -> int { 1 } }\nfn main() { spawn none_ret(); spawn f_ret(); let h = spawn f_ret(); }",
        "fn never(n: int) -> int { throw(\"never\") }\nfn main() { spawn never(1); println(\"main\"); }",
        # a spawn as the value of a block / function body (null-typed, like the zone of V28: no crash expected, only residue)
        W + "fn g() { spawn work(1) }\nfn main() { g(); }",
        W + "fn main() { { spawn work(1) }; (spawn work(2)); if true { spawn work(3) } }",
        # imported functions: spawned from the entry module, spawning inside the imported module, two imports deep
        ("import helper from lib;\nfn main() { spawn helper(1); let h = spawn helper(2); }", {"lib": "pub fn helper(n: int) { println(\"lib\", n); }\nfn main() { }"}, None),
        ("import { helper, val } from lib;\nfn main() { spawn helper(val); for i in 0..3 { spawn helper(i); } let g = fn() { spawn helper(9); }; g(); }",
         {"lib": "pub let val = 5;\npub fn helper(n: int) { println(\"lib\", n, val); }\nfn main() { }"}, None),
        ("import { fan } from lib;\nfn main() { fan(3); spawn fan(2); }",
         {"lib": "fn leaf(n: int) { println(\"leaf\", n); }\npub fn fan(n: int) { for i in 0..n { spawn leaf(i); } }\nfn main() { }"}, None),
        ("import { outer } from a;\nfn main() { spawn outer(1); }",
         {"a": "import { inner } from b;\npub fn outer(n: int) { spawn inner(n + 1); inner(n); }\nfn main() { }", "b": "pub fn inner(n: int) { println(\"inner\", n); }\nfn main() { }"}, None),
        ("import { dim, level } from dev;\nfn main() { spawn dim(20); println(level() >= 0); }",
         {"dev": "$Lamp = { lvl: int };\npub fn dim(lamp: $Lamp, p: int) { lamp.lvl = p; }\npub fn level(lamp: $Lamp) -> int { lamp.lvl }\nfn main() { }"}, None),
        ("import { ev } from lib;\nfn own(n: int) { println(\"own\", n); }\nfn main() { spawn ev(1); spawn own(2); }", {"lib": "pub fn ev(a: int) { println(\"ev\", a); }\nfn main() { }"}, None),
    ]
    return out
