"""Exhaustive nestings of {loop, while, for, block, if, match arm, try, catch, call} around
{break, continue, return, throw, fatal error}, each followed by code that prints locals,
re-enters the construct and (where legal) throws again (C11)."""
import itertools

WRAPPERS = ["loop", "while", "for", "block", "if", "match", "try", "catch", "call", "lambda", "tryl"]
EXITS = ["break", "continue", "return", "throw", "fatal", "retthrow", "pthrow", "ethrow"]


def legal(ws, x):
    """Is exit x under wrappers ws (outermost first) a legal program, and inside the fragment?
    Returns (legal, in_fragment)."""
    # the innermost function boundary
    last_call = max((i for i, w in enumerate(ws) if w in ("call", "lambda")), default=-1)
    inner = ws[last_call + 1:]
    if x in ("break", "continue"):
        loops = [i for i, w in enumerate(inner) if w in ("loop", "while", "for")]
        if not loops:
            return False, False
        return True, True
    return True, True


class Builder:
    def __init__(self):
        self.fns = []
        self.n = 0

    def fresh(self, p):
        self.n += 1
        return f"{p}{self.n}"

    def exit_stmt(self, x, tag, in_fn=False):
        if x == "return" and in_fn:
            return [f'println("exit {tag}");', "return 7;"]
        if x == "pthrow":
            # a throw raised by this very activation while an operand of an enclosing expression is pending: the handler
            # must drop that operand again (a caller's own pending operands would otherwise be paired with it)
            return [f'println("exit {tag}");', 'let zz = 100 + { if zero == 0 { throw("boom p"); } 1 };', 'println("not reached", zz);']
        if x == "ethrow":
            # `throw(..)` in expression position (the value of an if branch): the exception still carries the position of
            # the call itself, not of whatever instruction follows it
            return [f'println("exit {tag}");', 'let zz = if zero == 0 {', '    throw("boom e")', '} else {', '    1', '};', 'println("not reached", zz);']
        if x == "retthrow":
            # the operand of `return` throws: it is still evaluated inside the enclosing try blocks
            return [f'println("exit {tag}");', "return boom_i();" if in_fn else "return boom_n();"]
        return self.exit_stmt0(x, tag)

    def exit_stmt0(self, x, tag):
        if x == "break":
            return [f'println("exit {tag}");', "break;"]
        if x == "continue":
            return [f'println("exit {tag}");', "continue;"]
        if x == "return":
            return [f'println("exit {tag}");', "return;"]
        if x == "throw":
            return [f'println("exit {tag}");', f'throw("boom {tag}");']
        return [f'println("exit {tag}");', "println(1 / zero);"]

    def wrap(self, ws, x, depth=0, in_fn=False):
        """statements for wrappers ws around exit x; exits only on the first round of loops."""
        if not ws:
            return self.exit_stmt(x, "x", in_fn)
        w, rest = ws[0], ws[1:]
        v = self.fresh("v")
        c = self.fresh("c")
        inner = self.wrap(rest, x, depth + 1, in_fn or w in ("call", "lambda"))
        first = self.fresh("first")
        guard = [f"if {first} {{", f"    {first} = false;"] + ["    " + l for l in inner] + ["};"]
        # `k` is declared anew at every level (shadowing): a scope that is not popped, or popped twice,
        # on some way out shows up as a wrong `k` in the code that runs afterwards
        # a function literal as a SIBLING of the inner construct (before the exit under test, inside whatever encloses it):
        # compiling it must leave the bookkeeping of the enclosing function (try depth, labels, loop stack) as it was
        d = self.fresh("sib")
        after_inner = [f'println("after-inner {w}{depth}", {v}, k, {d}());']
        body = [f"let {v} = {depth + 1};", f"let k = {10 * (depth + 1)};", f"let {d} = fn() -> int {{ for q in 0..2 {{ if q == 1 {{ return {depth + 1}; }} }} 0 }};"] + guard + after_inner
        ind = lambda ls: ["    " + l for l in ls]
        pre = [f"let {first} = true;"]
        # the loop's own exits come AFTER the inner construct has finished (an inner loop must not leave its labels behind):
        # `loop` is left by a break behind the inner part, `while` / `for` continue behind it on their first round.
        # (a `continue` as the EXIT under test restarts the body: the guard at the top still ends the loop then)
        if w == "loop":
            return pre + [f"let {c} = 0;", "loop {", f"    if {c} >= 3 {{ break; }}", f"    {c} += 1;"] + ind(body) + [
                f"    if {c} >= 2 {{ break; }};", f'    println("tail loop{depth}", {c});', "}", f'println("after loop{depth}", {c}, k);']
        if w == "while":
            return pre + [f"let {c} = 0;", f"while {c} < 2 {{", f"    {c} += 1;"] + ind(body) + [
                f"    if {c} == 1 {{ continue; }};", f'    println("tail while{depth}", {c});', "}", f'println("after while{depth}", {c}, k);']
        if w == "for":
            # the iterable is a GLOBAL range (and the loop may be left early, in a function that is called again): every
            # loop iterates its own snapshot from the start, whatever an earlier loop over the same value did
            return pre + [f"for {c} in RG2 {{"] + ind(body) + [
                f"    if {c} == 0 {{ continue; }};", f'    println("tail for{depth}", {c});', "}", f'println("after for{depth}", k);']
        if w == "block":
            return pre + ["{"] + ind(body) + ["};", f'println("after block{depth}", k);']
        if w == "if":
            return pre + ["if true {"] + ind(body) + ["};", f'println("after if{depth}", k);']
        if w == "match":
            return pre + ["match 1 {", "    1 => {"] + ind(ind(body)) + ["    },", "    _ => {},", "};", f'println("after match{depth}", k);']
        if w == "try":
            return pre + ["try {"] + ind(body) + [f"}} catch {c} {{", f'    println("caught{depth}", {c}.message, {c}.line, {c}.column);', "};",
                          f'println("after try{depth}", k);']
        if w == "tryl":
            # a try whose body, when it reaches its end, still throws: the handler installed on entry must be the one in
            # force after everything the body did (calls that returned, inner constructs that were left)
            return pre + ["try {"] + ind(body) + [f'    throw("late{depth}");', f"}} catch {c} {{", f'    println("caught{depth}", {c}.message, {c}.line, {c}.column);', "};",
                          f'println("after tryl{depth}", k);']
        if w == "catch":
            return pre + ["try {", f'    throw("enter{depth}");', f"}} catch {c} {{"] + ind(body) + ["};", f'println("after catch{depth}", k);']
        if w == "call":
            f = self.fresh("f")
            self.fns.append([f"fn {f}() -> int {{", "    let zero = 0;", f"    let k = {5 + depth};"] + ind(pre + body) + ["    0", "}"])
            return [f"println({f}());", f"println({f}());", f'println("after call{depth}", k);']
        if w == "lambda":
            # a function literal written right here (inside whatever encloses it) and called twice: its body starts
            # outside of every enclosing construct; it uses only its own locals (captured variables: open finding V12)
            f = self.fresh("lam")
            return [f"let {f} = fn() -> int {{", "    let zero = 0;", f"    let k = {5 + depth};"] + ind(pre + body) + ["    0", "};",
                    f"println({f}());", f"println({f}());", f'println("after lambda{depth}", k);']
        raise ValueError(w)


def program(ws, x):
    b = Builder()
    main = b.wrap(list(ws), x)
    lines = ['let RG2 = 0..2;', 'fn boom_i() -> int { throw("boom i"); }', 'fn boom_n() { throw("boom n"); }']
    for f in b.fns:
        lines += f
    lines += ["fn main() {", "    let zero = 0;", "    let k = 1;"] + ["    " + l for l in main] + [
        '    for z in RG2 { print("z", z, ""); }', '    println("end of main", k);', "}"]
    return "\n".join(lines) + "\n"


def enumerate_all(max_depth):
    out = []
    for d in range(1, max_depth + 1):
        for ws in itertools.product(WRAPPERS, repeat=d):
            for x in EXITS:
                ok, frag = legal(ws, x)
                if ok:
                    out.append((ws, x, frag))
    return out


def recursive_programs():
    """(name, source): handlers of OUTER activations of a recursive function catch what inner activations throw — a
    handler belongs to one activation, not to the function: direct recursion (throw in the base case outside the try of
    that activation, re-throw on the way up), mutual recursion, a recursive function literal-free helper chain, exits out of
    recursive activations inside loops."""
    out = []
    out.append(("rec-direct", 'fn rec(n: int) -> int { if n == 0 { throw("base"); } let k = n * 10; let r = try { rec(n - 1) } catch e { println("caught at", n, k, e.message); if n < 3 { throw("again " + e.message); } n }; println("leave", n, k, r); r }\n'
                'fn main() { let k = 1; try { println(rec(4)); } catch e { println("main caught", e.message); } println("after", k); try { throw("final"); } catch e { println("main caught", e.message); } println(rec2(3)); }\n'
                'fn rec2(n: int) -> int { if n == 0 { return 0; } try { if n == 1 { throw("one"); } rec2(n - 1) + 1 } catch e { println("rec2 caught", n, e.message); 100 } }\n'))
    out.append(("rec-mutual", 'fn outer(n: int) -> int { let k = n; try { middle(n) } catch e { println("outer caught", n, k, e.message); 1000 + n } }\n'
                'fn middle(n: int) -> int { if n == 0 { throw("bottom"); } let r = outer(n - 1); println("middle", n, r); if n == 2 { throw("from middle"); } r + 100 }\n'
                'fn main() { println(outer(3)); try { throw("final"); } catch e { println("main caught", e.message); } println(outer(1)); }\n'))
    out.append(("rec-loop", 'fn walk(n: int) -> int { let s = 0; for i in 0..3 { try { if n > 0 { s += walk(n - 1); } if i == n { throw("t" ); } s += 1; } catch e { s += 10; if i == 2 { break; } continue; } } println("walk", n, s); s }\n'
                'fn main() { println(walk(2)); println(walk(1)); try { throw("final"); } catch e { println("main caught", e.message); } }\n'))
    out.append(("rec-fatal-base", 'fn down(n: int) -> int { if n == 0 { let l = [1]; return l[5]; } try { down(n - 1) } catch e { println("never", n); 0 } }\n'
                'fn main() { println("start"); println(down(3)); println("not reached"); }\n'))
    # a callee without locals of its own whose try block holds a loop / a nested try and whose handler fires: the caller's
    # locals (its first one in particular) are intact afterwards
    out.append(("callee-frames", 'fn find(l: [int], want: int) -> int { try { for x in l { if x == want { throw("found"); } } 0 } catch e { 1 } }\n'
                'fn deeper(c: str) { throw("hit " + c); }\n'
                'fn scan(s: str) -> int { try { for c in s { match c { "x" => { deeper(c); }, _ => {} } } 0 } catch e { 2 } }\n'
                'fn nested() -> int { try { try { throw("inner"); } catch e { throw("outer"); } 0 } catch f { 3 } }\n'
                'fn main() { let sum = 100; let k = 5; println(find([1, 2, 3], 2)); println("sum", sum, k); println(scan("axb")); println("sum", sum, k); println(nested()); println("sum", sum, k); '
                'println(find([1], 7), scan("ab")); println("sum", sum, k); }\n'))
    # an exit written in the CONDITION of a `while` belongs to the loop that encloses the `while`
    out.append(("exit-in-while-condition", 'fn main() { let out = ""; let n = 0; for i in 0..4 { let j = 0; while { if j == 1 && i == 2 { break; } j < 2 } { out += "b"; j += 1; } out += "o"; n += 1; } println(out, n);\n'
                '  let k = 0; let seen = ""; loop { k += 1; if k > 4 { break; } let m = 0; while { if k == 2 && m == 0 { seen += "c"; continue; } m < 1 } { m += 1; seen += "w"; } seen += "e"; } println(k, seen);\n'
                '  for q in 0..2 { try { let t = 0; while { if t == 1 { continue; } t < 3 } { t += 1; } println("not reached", q); } catch e { println("never"); } } try { throw("final"); } catch e { println("caught", e.message); } }\n'))
    # every kind of fatal error under handlers at several depths (own activation, one call below): none is catchable
    for i, e in enumerate(["println(7 % z);", "let a = 7; a %= z; println(a);", "println(7 / z);", "let b = 7; b /= z; println(b);", "println(1 << (z - 1));",
                           "println([1, 2][z + 5]);", "let l = [1]; l[z - 9] = 2; println(l);", "println(1.5 / (z as float));"]):
        out.append((f"fatal-kind-{i}", 'fn deep(z: int) { try { ' + e + ' } catch inner { println("inner caught", inner.message); } println("deep goes on"); }\n'
                    'fn main() { let z = 0; for i in 0..2 { try { println("round", i); if i == 1 { deep(z); } try { if i == 1 { ' + e + ' } } catch e1 { println("caught", e1.message); } println("goes on", i); } '
                    'catch e2 { println("outer caught", e2.message); } } println("end"); }\n'))
    return out
