"""Generators for the value checks (C12, C13).

Values and types are Python tuples mirroring the S-expression syntax of harness/values.go:
  value: ("null",) ("none",) ("some", v) ("i", n) ("f", m, e) ("b", bool) ("s", str)
         ("l", [v…]) ("o", [(k, v)…]) ("a", [(k, v)…]) ("r", a, b, incl) ("fn",)
  type:  "any" "null" "int" "float" "bool" "str" "range" "anyobj" "fn"
         ("list", t) ("opt", t) ("obj", [(k, t)…])
All randomness comes from the random.Random passed in.
"""
import unicodedata

KEYS = ["a", "b", "c", "name", "id", "k1", "é", "x_y", "Z"]
STRINGS = ["", "a", "abc", "hello world", "é", "日本", "a\nb", "\"q\"", "tab\there", "😀", "<&>", "null", "0", "{}", "line1\nline2\n", "\\"]
# strings that are not in NFC (both runtimes must normalise them identically)
NON_NFC = ["é", "Å", "ẛ̣", "ộ", "Å"]
INTS = [0, 1, -1, 2, 7, 42, -42, 255, 1000, 2**31, -(2**31), 2**53, -(2**53), 2**53 + 1, 2**62, 2**63 - 1, -(2**63)]
# dyadic-safe floats (m, e) = m / 2^e: at most 15 significant digits, |x| in [1e-4, 1e21) or 0
FLOATS = [(0, 0), (1, 0), (-1, 0), (3, 0), (1, 1), (-1, 1), (5, 1), (1, 2), (3, 2), (-7, 3), (255, 4), (1, 8),
          (12345, 3), (-98765, 5), (2**40, 0), (2**49 - 1, 0), (1000001, 7), (10, 0), (100, 0), (1048575, 8)]


def hexs(s):
    return "x" + s.encode("utf-8").hex()


def sx_val(v):
    t = v[0]
    if t in ("null", "none", "fn"):
        return t
    if t == "some":
        return f"(some {sx_val(v[1])})"
    if t == "i":
        return f"(i {v[1]})"
    if t == "f":
        return f"(f {v[1]} {v[2]})"
    if t == "b":
        return "(b true)" if v[1] else "(b false)"
    if t == "s":
        return f"(s {hexs(v[1])})"
    if t == "l":
        return "(l" + "".join(" " + sx_val(x) for x in v[1]) + ")"
    if t in ("o", "a"):
        return f"({t}" + "".join(f" ({hexs(k)} {sx_val(x)})" for k, x in v[1]) + ")"
    if t == "r":
        return f"(r {v[1]} {v[2]} {'true' if v[3] else 'false'})"
    raise ValueError(v)


def sx_ty(t):
    if isinstance(t, str):
        return t
    if t[0] in ("list", "opt"):
        return f"({t[0]} {sx_ty(t[1])})"
    if t[0] == "obj":
        return "(obj" + "".join(f" ({hexs(k)} {sx_ty(x)})" for k, x in t[1]) + ")"
    raise ValueError(t)


def canon_val_sx(s):
    """canonical text of a value S-expression as both sides print it (fields sorted by key)"""
    return s.strip()


# ---------------------------------------------------------------------------
# types
# ---------------------------------------------------------------------------

SCALAR_TYPES = ["int", "float", "bool", "str", "null", "range"]


def gen_type(rng, depth, allow_any=True, allow_null=True, allow_range=True, allow_anyobj=True):
    kw = dict(allow_any=allow_any, allow_null=allow_null, allow_range=allow_range, allow_anyobj=allow_anyobj)
    r = rng.random()
    if depth <= 0 or r < 0.35:
        pool = ["int", "float", "bool", "str"]
        if allow_null:
            pool.append("null")
        if allow_range:
            pool.append("range")
        if allow_anyobj:
            pool.append("anyobj")
        if allow_any and rng.random() < 0.15:
            return "any"
        return rng.choice(pool)
    if r < 0.55:
        return ("list", gen_type(rng, depth - 1, **kw))
    if r < 0.72:
        return ("opt", gen_type(rng, depth - 1, **kw))
    n = rng.randrange(0, 4)
    keys = rng.sample(KEYS, n)
    return ("obj", [(k, gen_type(rng, depth - 1, **kw)) for k in keys])


# ---------------------------------------------------------------------------
# values
# ---------------------------------------------------------------------------

def gen_string(rng, nfc_only=True):
    r = rng.random()
    if r < 0.6:
        return rng.choice(STRINGS)
    if r < 0.7 and not nfc_only:
        return rng.choice(NON_NFC) + rng.choice(["", "x"])
    n = rng.randrange(0, 6)
    s = "".join(rng.choice("abz09 _-éß\n\"\\{}[]:,") for _ in range(n))
    return unicodedata.normalize("NFC", s) if nfc_only else s


def gen_int(rng, json_safe=False):
    if rng.random() < 0.7:
        v = rng.choice(INTS)
    else:
        v = rng.randrange(-(2**40), 2**40)
    if json_safe and abs(v) > 2**53:
        v = v % 1000
    return v


def gen_float(rng, non_integral=False):
    while True:
        if rng.random() < 0.7:
            m, e = rng.choice(FLOATS)
        else:
            m, e = rng.randrange(-(2**20), 2**20), rng.randrange(0, 9)
        # normalise
        while e > 0 and m % 2 == 0:
            m //= 2
            e -= 1
        if m == 0:
            e = 0
        if non_integral and e == 0:
            continue
        return ("f", m, e)


def gen_any_value(rng, depth, **kw):
    """an arbitrary value (contents of `any` / any-object fields)"""
    r = rng.random()
    if depth <= 0 or r < 0.5:
        k = rng.randrange(7)
        if k == 0:
            return ("null",)
        if k == 1:
            return ("i", gen_int(rng, kw.get("json_safe", False)))
        if k == 2:
            return gen_float(rng, kw.get("non_integral", False))
        if k == 3:
            return ("b", rng.random() < 0.5)
        if k == 4:
            return ("s", gen_string(rng, kw.get("nfc_only", True)))
        if k == 5:
            return ("none",)
        return ("r", rng.randrange(-5, 10), rng.randrange(-5, 10), rng.random() < 0.5)
    if r < 0.65:
        return ("l", [gen_any_value(rng, depth - 1, **kw) for _ in range(rng.randrange(0, 4))])
    if r < 0.8:
        keys = rng.sample(KEYS, rng.randrange(0, 4))
        return (rng.choice(["o", "a"]), [(k, gen_any_value(rng, depth - 1, **kw)) for k in keys])
    return ("some", gen_any_value(rng, depth - 1, **kw))


def gen_value(rng, t, depth=3, **kw):
    """a value conforming to type t"""
    if isinstance(t, str):
        if t == "any":
            return gen_any_value(rng, min(depth, 2), **kw)
        if t == "null":
            return ("null",)
        if t == "int":
            return ("i", gen_int(rng, kw.get("json_safe", False)))
        if t == "float":
            return gen_float(rng, kw.get("non_integral", False))
        if t == "bool":
            return ("b", rng.random() < 0.5)
        if t == "str":
            return ("s", gen_string(rng, kw.get("nfc_only", True)))
        if t == "range":
            return ("r", rng.randrange(-5, 10), rng.randrange(-5, 10), rng.random() < 0.5)
        if t == "anyobj":
            keys = rng.sample(KEYS, rng.randrange(0, 4))
            return ("a", [(k, gen_any_value(rng, min(depth, 2) - 1, **kw)) for k in keys])
        if t == "fn":
            return ("fn",)
        raise ValueError(t)
    if t[0] == "list":
        n = rng.choice([0, 0, 1, 2, 3]) if depth > 0 else 0
        return ("l", [gen_value(rng, t[1], depth - 1, **kw) for _ in range(n)])
    if t[0] == "opt":
        if rng.random() < 0.35:
            return ("none",)
        return ("some", gen_value(rng, t[1], depth - 1, **kw))
    if t[0] == "obj":
        fields = [(k, gen_value(rng, ft, depth - 1, **kw)) for k, ft in t[1]]
        rng.shuffle(fields)
        return ("o", fields)
    raise ValueError(t)


def subvalue_positions(v, pre=()):
    """paths (tuples of steps) to every sub-value"""
    out = [pre]
    t = v[0]
    if t == "some":
        out += subvalue_positions(v[1], pre + (("u",),))
    elif t == "l":
        for i, x in enumerate(v[1]):
            out += subvalue_positions(x, pre + (("i", i),))
    elif t in ("o", "a"):
        for k, x in v[1]:
            out += subvalue_positions(x, pre + (("k", k),))
    return out


def replace_at(v, path, f):
    """v with the sub-value at path replaced by f(sub-value)"""
    if not path:
        return f(v)
    step, rest = path[0], path[1:]
    t = v[0]
    if step[0] == "u" and t == "some":
        return ("some", replace_at(v[1], rest, f))
    if step[0] == "i" and t == "l":
        xs = list(v[1])
        xs[step[1]] = replace_at(xs[step[1]], rest, f)
        return ("l", xs)
    if step[0] == "k" and t in ("o", "a"):
        return (t, [(k, replace_at(x, rest, f) if k == step[1] else x) for k, x in v[1]])
    raise ValueError((v, path))


def get_at(v, path):
    for step in path:
        if step[0] == "u":
            v = v[1]
        elif step[0] == "i":
            v = v[1][step[1]]
        else:
            v = dict(v[1])[step[1]]
    return v


def perturb(rng, v):
    """a value differing from v in exactly one place (near miss / unequal same-type neighbour)"""
    pos = rng.choice(subvalue_positions(v))

    def change(x):
        t = x[0]
        r = rng.random()
        if t == "i":
            return ("i", x[1] + 1 if x[1] < 2**63 - 1 else 0) if r < 0.6 else rng.choice([("s", "1"), ("f", 1, 1), ("b", True), ("null",)])
        if t == "f":
            return ("f", x[1] + 2, x[2]) if r < 0.6 else rng.choice([("i", 1), ("s", "1.5"), ("none",)])
        if t == "b":
            return ("b", not x[1]) if r < 0.6 else rng.choice([("i", 1), ("s", "true")])
        if t == "s":
            return ("s", x[1] + "x") if r < 0.6 else rng.choice([("i", 0), ("l", []), ("null",)])
        if t == "null":
            return rng.choice([("none",), ("i", 0), ("s", "")])
        if t == "none":
            return rng.choice([("null",), ("some", ("i", 1)), ("i", 0)])
        if t == "some":
            return rng.choice([("none",), x[1], ("some", ("some", x[1]))])
        if t == "r":
            return rng.choice([("r", x[1], x[2], not x[3]), ("r", x[1] + 1, x[2], x[3]), ("r", x[1], x[2] + 1, x[3]), ("i", x[1])])
        if t == "l":
            k = rng.randrange(4)
            if k == 0:
                return ("l", list(x[1]) + [rng.choice([("i", 1), ("s", "q"), ("none",), ("null",)])])
            if k == 1 and x[1]:
                return ("l", list(x[1])[:-1])
            if k == 2:
                return ("o", [])
            return ("l", [("s", "q")] + list(x[1]))
        if t in ("o", "a"):
            k = rng.randrange(5)
            fields = list(x[1])
            if k == 0:
                extra = next((q for q in KEYS if q not in dict(fields)), "zz")
                return (t, fields + [(extra, rng.choice([("i", 1), ("none",), ("s", "")]))])
            if k == 1 and fields:
                del fields[rng.randrange(len(fields))]
                return (t, fields)
            if k == 2:
                return ("a" if t == "o" else "o", fields)
            if k == 3 and fields:
                i = rng.randrange(len(fields))
                fields[i] = (fields[i][0] + "_", fields[i][1])
                return (t, fields)
            return ("l", [])
        return ("i", 0)

    return replace_at(v, pos, change), pos


def path_sx(path):
    out = []
    for step in path:
        if step[0] == "u":
            out.append("(u)")
        elif step[0] == "i":
            out.append(f"(i {step[1]})")
        else:
            out.append(f"(k {hexs(step[1])})")
    return "(" + " ".join(out) + ")"


def gen_ops(rng, v, n):
    """a mutation sequence for (a clone of) v: ops at positions that exist in v, plus a few
    positions that may or may not exist after earlier ops"""
    ops = []
    positions = subvalue_positions(v)
    for _ in range(n):
        pos = rng.choice(positions)
        x = get_at(v, pos)
        arg = gen_any_value(rng, 1)
        p = path_sx(pos)
        if x[0] == "l":
            k = rng.randrange(9)
            if k == 0:
                ops.append(f"(push {p} {sx_val(arg)})")
            elif k == 1:
                ops.append(f"(push_front {p} {sx_val(arg)})")
            elif k == 2:
                ops.append(f"(pop {p})")
            elif k == 3:
                ops.append(f"(pop_front {p})")
            elif k == 4:
                ops.append(f"(insert {p} {rng.randrange(-3, 4)} {sx_val(arg)})")
            elif k == 5:
                ops.append(f"(remove {p} {rng.randrange(-3, 4)})")
            elif k == 6:
                ops.append(f"(concat {p} {sx_val(('l', [arg, ('i', 5)]))})")
            elif k == 7:
                ops.append(f"(seti {p} {rng.randrange(-3, 4)} {sx_val(arg)})")
            else:
                ops.append(f"(assign {p} {sx_val(arg)})")
        elif x[0] in ("o", "a"):
            keys = [k for k, _ in x[1]] + [rng.choice(KEYS)]
            if rng.random() < 0.75:
                ops.append(f"(setf {p} {hexs(rng.choice(keys))} {sx_val(arg)})")
            else:
                ops.append(f"(assign {p} {sx_val(arg)})")
        else:
            ops.append(f"(assign {p} {sx_val(arg)})")
    return "(" + " ".join(ops) + ")"


# ---------------------------------------------------------------------------
# homescript source text for values and types (in-program routes)
# ---------------------------------------------------------------------------

def hms_string(s):
    out = []
    for ch in s:
        if ch == "\\":
            out.append("\\\\")
        elif ch == '"':
            out.append('\\"')
        elif ch == "\n":
            out.append("\\n")
        elif ch == "\t":
            out.append("\\t")
        elif ch == "\r":
            out.append("\\r")
        elif ord(ch) < 32:
            return None
        else:
            out.append(ch)
    return '"' + "".join(out) + '"'


def is_ident(k):
    return k.isascii() and (k[0].isalpha() or k[0] == "_") and all(c.isalnum() or c == "_" for c in k)


def hms_type(t):
    if isinstance(t, str):
        return {"any": "any", "null": "null", "int": "int", "float": "float", "bool": "bool", "str": "str",
                "range": "range", "anyobj": "{ ? }"}.get(t)
    if t[0] == "list":
        x = hms_type(t[1])
        return None if x is None else f"[{x}]"
    if t[0] == "opt":
        x = hms_type(t[1])
        return None if x is None else f"?{x}"
    if t[0] == "obj":
        parts = []
        for k, ft in t[1]:
            x = hms_type(ft)
            if x is None or not is_ident(k):
                return None
            parts.append(f"{k}: {x}")
        return "{ " + ", ".join(parts) + " }" if parts else None
    return None


def hms_float(m, e):
    # exact decimal expansion of m / 2^e
    neg = m < 0
    a = abs(m) * 5 ** e
    s = str(a).rjust(e + 1, "0")
    ip, fp = (s[:-e], s[-e:]) if e > 0 else (s, "0")
    return ("-" if neg else "") + ip + "." + fp


def hms_value(v, t=None):
    """source text of a literal expression with value v (of type t when given), or None when
    the value has no literal form in the supported subset"""
    k = v[0]
    if k == "null":
        return "null"
    if k == "none":
        return "none"
    if k == "some":
        x = hms_value(v[1], t[1] if isinstance(t, tuple) and t[0] == "opt" else None)
        return None if x is None else f"?({x})"
    if k == "i":
        if v[1] < 0:
            return None if v[1] == -(2**63) else f"(-{-v[1]})"
        return str(v[1])
    if k == "f":
        s = hms_float(abs(v[1]), v[2])
        return f"(-{s})" if v[1] < 0 else s
    if k == "b":
        return "true" if v[1] else "false"
    if k == "s":
        return hms_string(v[1])
    if k == "r":
        if v[1] < 0 or v[2] < 0:
            return None
        return f"({v[1]}..{'=' if v[3] else ''}{v[2]})"
    if k == "l":
        if not v[1]:
            return None  # the element type of an empty literal is not inferable everywhere
        parts = [hms_value(x, t[1] if isinstance(t, tuple) and t[0] == "list" else None) for x in v[1]]
        return None if any(p is None for p in parts) else "[" + ", ".join(parts) + "]"
    if k == "o":
        if not v[1]:
            return None
        ft = dict(t[1]) if isinstance(t, tuple) and t[0] == "obj" else {}
        parts = []
        for key, x in v[1]:
            s = hms_value(x, ft.get(key))
            if s is None or not is_ident(key):
                return None
            parts.append(f"{key}: {s}")
        return "new { " + ", ".join(parts) + " }"
    return None


# ---------------------------------------------------------------------------
# reading value S-expressions printed by the harness / the driver
# ---------------------------------------------------------------------------

def parse_sx(text):
    """S-expression -> nested lists / atom strings"""
    toks = text.replace("(", " ( ").replace(")", " ) ").split()
    pos = 0

    def rd():
        nonlocal pos
        t = toks[pos]
        pos += 1
        if t == "(":
            out = []
            while toks[pos] != ")":
                out.append(rd())
            pos += 1
            return out
        return t

    return rd()


def unhex(a):
    return bytes.fromhex(a[1:]).decode("utf-8", "replace")


def val_of_sx(s):
    """value tuple from a parsed S-expression"""
    if isinstance(s, str):
        return (s,)
    t = s[0]
    if t == "some":
        return ("some", val_of_sx(s[1]))
    if t == "i":
        return ("i", int(s[1]))
    if t == "f":
        return ("f", int(s[1]), int(s[2]))
    if t == "b":
        return ("b", s[1] == "true")
    if t == "s":
        return ("s", unhex(s[1]))
    if t == "l":
        return ("l", [val_of_sx(x) for x in s[1:]])
    if t in ("o", "a"):
        return (t, [(unhex(f[0]), val_of_sx(f[1])) for f in s[1:]])
    if t == "r":
        return ("r", int(s[1]), int(s[2]), s[3] == "true")
    return ("other", str(s))


def canon(v):
    """value with object fields sorted by key at every depth (finite-map view)"""
    t = v[0]
    if t == "some":
        return ("some", canon(v[1]))
    if t == "l":
        return ("l", [canon(x) for x in v[1]])
    if t in ("o", "a"):
        return (t, sorted(((k, canon(x)) for k, x in v[1]), key=lambda kv: kv[0].encode("utf-8")))
    if t == "f":
        m, e = v[1], v[2]
        while e > 0 and m % 2 == 0:
            m //= 2
            e -= 1
        return ("f", m, 0 if m == 0 else e)
    return v


# ---------------------------------------------------------------------------
# JSON text + JSON tree S-expression of a value (what to_json writes, X4-fixed)
# ---------------------------------------------------------------------------

import json as _json


def json_of(v, vm=True):
    """(text, tree-sexp) or None when the value has no JSON form (none/null fields are written as null: X24)."""
    t = v[0]
    if t in ("null", "none"):
        return "null", "null"
    if t == "some":
        return json_of(v[1], vm)
    if t == "i":
        return str(v[1]), f"(jn {v[1]} 0 true)"
    if t == "f":
        txt = hms_float(v[1], v[2])
        integral = v[2] == 0
        if integral and not vm:
            txt = txt[:-2]
        return txt, f"(jn {v[1]} {v[2]} {'true' if (integral and not vm) else 'false'})"
    if t == "b":
        return ("true", "(jb true)") if v[1] else ("false", "(jb false)")
    if t == "s":
        return _json.dumps(v[1], ensure_ascii=False), f"(js {hexs(v[1])})"
    if t == "l":
        parts = [json_of(x, vm) for x in v[1]]
        if any(p is None for p in parts):
            return None
        return "[" + ",".join(p[0] for p in parts) + "]", "(ja" + "".join(" " + p[1] for p in parts) + ")"
    if t in ("o", "a"):
        txt, tree = [], []
        for k, x in sorted(v[1], key=lambda kv: kv[0].encode("utf-8")):
            p = json_of(x, vm)
            if p is None:
                return None
            txt.append(_json.dumps(k, ensure_ascii=False) + ":" + p[0])
            tree.append(f" ({hexs(k)} {p[1]})")
        return "{" + ",".join(txt) + "}", "(jo" + "".join(tree) + ")"
    return None


def jtree_of_text(text):
    """JSON tree S-expression of a JSON text. A number spelled as an integer which fits an int64 is exact
    (`(jn m 0 true)`: J1, parse_json decodes with UseNumber and reads it as that int); every other number
    is a float64 as Go's decoder sees it. Numbers outside the dyadic class give None."""
    from fractions import Fraction

    def num(tok):
        fr = Fraction(tok)
        # must be a dyadic rational representable exactly
        e = 0
        d = fr.denominator
        while d % 2 == 0:
            d //= 2
            e += 1
        if d != 1:
            raise ValueError("not dyadic")
        m = fr.numerator
        intlit = not any(c in tok for c in ".eE")
        exact_int = intlit and -2**63 <= m < 2**63
        if abs(m) >= 2**53 and (abs(m) & (abs(m) - 1)) != 0 and e == 0 and not exact_int:
            # other integers beyond 2^53 are rounded by the parser: outside the model
            if float(m) != m:
                raise ValueError("inexact")
        return f"(jn {m} {e} {'true' if intlit else 'false'})"

    def conv(x):
        if x is None:
            return "null"
        if x is True:
            return "(jb true)"
        if x is False:
            return "(jb false)"
        if isinstance(x, _Num):
            return num(x.tok)
        if isinstance(x, str):
            return f"(js {hexs(x)})"
        if isinstance(x, list):
            return "(ja" + "".join(" " + conv(y) for y in x) + ")"
        if isinstance(x, dict):
            return "(jo" + "".join(f" ({hexs(k)} {conv(y)})" for k, y in x.items()) + ")"
        raise ValueError(x)

    try:
        obj = _json.loads(text, parse_float=_Num, parse_int=_Num)
        return conv(obj)
    except (ValueError, RecursionError):
        return None


class _Num:
    def __init__(self, tok):
        self.tok = tok
