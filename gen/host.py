"""Generators for the host/concurrency checks (C16, C10, C17).

C16: a library of host-callable functions (homescript source LIB_SRC) together with an
independent reference semantics in Python (FUNCS): given the argument values and the globals a
function's outcome is computed here, not taken from either the Go code or the Lean model.
Histories of (function, arguments) are drawn from one random.Random.

Values are Python tuples: ("int", n) ("float", f) ("bool", b) ("str", s) ("list", [v…]) ("none",)
("some", v) ("obj", {k: v}) ("anyobj", {k: v}) ("range", a, b, incl) ("null",); rendered as the
S-expressions `hv host` prints and reads.
"""

# ---------------------------------------------------------------------------
# values
# ---------------------------------------------------------------------------


def xhex(s):
    return "x" + s.encode("utf-8").hex()


def fl(f):
    if f == int(f) and abs(f) < 1e15:
        return str(int(f))
    return repr(f)


def sx(v):
    if v is None:
        return "(nil)"
    k = v[0]
    if k == "null":
        return "(null)"
    if k == "int":
        return f"(int {v[1]})"
    if k == "float":
        return f"(float {fl(v[1])})"
    if k == "bool":
        return f"(bool {'true' if v[1] else 'false'})"
    if k == "str":
        return f"(str {xhex(v[1])})"
    if k == "list":
        return "(list" + "".join(" " + sx(e) for e in v[1]) + ")"
    if k == "none":
        return "(none)"
    if k == "some":
        return f"(some {sx(v[1])})"
    if k in ("obj", "anyobj"):
        return f"({k}" + "".join(f" ({xhex(key)} {sx(v[1][key])})" for key in sorted(v[1], key=lambda s: s.encode())) + ")"
    if k == "range":
        return f"(range {sx(v[1])} {sx(v[2])} {'true' if v[3] else 'false'})"
    raise ValueError(v)


def I(n):
    return ("int", n)


def S(s):
    return ("str", s)


def B(b):
    return ("bool", b)


def F(f):
    return ("float", f)


def Lst(xs):
    return ("list", list(xs))


# ---------------------------------------------------------------------------
# the library
# ---------------------------------------------------------------------------

LIB_SRC = '''
$Cfg = { base: int };
$Aux = { shift: int, tag: str };
let counter = 0;
let total = 0;
let name = "init";
let journal = "";
let flag = false;
let items: [int] = [];
let done = 0;

fn sub(a: int, b: int) -> int { a - b }
fn enc3(a: int, b: int, c: int) -> int { a * 100 + b * 10 + c }
fn enc4(a: int, b: str, c: bool, d: float) -> { a: int, b: str, c: bool, d: float } { new { a: a, b: b, c: c, d: d } }
fn cat(a: str, b: str, c: str) -> str { a + "|" + b + "|" + c }
fn zero() -> int { 42 }
fn bump() -> int { counter = counter + 1; counter }
fn add(n: int) -> int { total = total + n; total }
fn get_counter() -> int { counter }
fn set_name(s: str) { name = s; }
fn get_name() -> str { name }
fn append_log(s: str) -> str { journal = journal + s + ";"; journal }
fn toggle() -> bool { flag = !flag; flag }
fn push_item(n: int) -> [int] { items.push(n); items }
fn r_bool(a: int, b: int) -> bool { a > b }
fn r_float(a: float, b: float) -> float { a * 2.0 - b }
fn r_list(a: int, b: int) -> [int] { [a, b, a] }
fn r_strs(a: str, b: str) -> [str] { [b, a] }
fn r_opt(a: int) -> ?int { if a > 0 { ?a } else { none } }
fn r_range(a: int, b: int) -> range { a..b }
fn r_obj(a: int, s: str) -> { x: int, y: str } { new { x: a, y: s } }
fn r_anyobj(k: int, s: str) -> { ? } { new { k: k, s: s } as { ? } }
fn r_null(n: int) { counter = counter + n; }
fn r_nested(a: int) -> [[int]] { [[a], [a, a]] }
fn say(s: str, n: int) -> int { println(s, n); print("."); n + 1 }
fn in_loop(n: int) -> int { for i in 0..100 { if i == n { return i * 2; } } 0 - 1 }
fn in_while(n: int) -> int { let i = 0; while i < 1000 { if i >= n { return i; } i += 1; } 0 - 1 }
fn in_loop2(n: int) -> int { let i = 0; loop { if i * i >= n { return i; } i += 1; } }
fn in_match(k: int) -> str { match k { 1 => { return "one"; }, 2 => "two", _ => "many" } }
fn in_try(a: int) -> int { try { if a > 0 { return a; } throw("neg"); } catch e { return 0 - 1; } }
fn caught(s: str) -> str { try { throw(s); "no" } catch e { e.message } }
fn checked(x: int) -> int { if x > 10 { throw("too big"); } x * 2 }
fn ret_try(a: int) -> int { counter = counter + 1; try { return checked(a); } catch e { return 0 - 1; } }
fn ret_try_loop(a: int) -> int { try { try { for i in 0..3 { return checked(a + i); } } catch e { throw("again"); } } catch f { return 0 - 2; } 0 }
fn leaf() { time.sleep(0.06); done = done + 1; }
fn mid() { time.sleep(0.02); spawn leaf(); time.sleep(0.02); }
fn start() -> int { spawn mid(); 7 }
fn get_done() -> int { done }
let RG = 0..6;
fn position(needle: str) -> int { let i = 0; for c in "abcdef" { if c == needle { return i; } i += 1; } 0 - 1 }
fn below(n: int) -> int { let k = 0; for i in RG { if i >= n { return k; } k += 1; } k }
fn fresh(k: str, n: int) -> int { let l: [int] = []; l.push(n); let o = new { ? }; o.set(k, n); let ob = new { a: 0, l: [1] }; ob.a += n; ob.l.push(n); l.len() * 1000 + o.keys().len() * 100 + ob.l.len() * 10 + ob.a }
fn lam_try(x: int) -> int { try { let f = fn() -> int { 1 }; for i in 0..3 { if i + x > 1 { return x + f(); } } throw("neg"); } catch e { return 0 - 1; } }
fn after_lam_try(x: int) -> int { let r = lam_try(x); try { checked(x * 20); r += 1000; } catch e { r += 100; } r }
fn describe(s: str, limit: int) -> str { "total: " + try { let sum = 100 + try { s.parse_int() } catch e { 0 }; if sum > limit { throw("over limit"); } sum.to_string() } catch e { "n/a" } }
fn pick(_: int, x: int, _y: str) -> int { x }
fn wb(n: int) -> int { let r = 0; try { let i = 0; while i < 5 { i += 1; if i == n { break; } if i == n + 3 { continue; } r += i; } } catch e { r = 0 - 1; } r }
fn guarded(n: int) -> int { try { let a = wb(n); if n > 0 { throw("boom"); } a } catch e { 40 + n } }
fn early(x: int) -> int { let y = 100 + if x > 0 { return x; } else { 1 }; y }
fn nested_call(a: int, b: int) -> int { sub(b, a) * 2 + enc3(a, b, 0) }
fn fact(n: int) -> int { if n <= 1 { 1 } else { n * fact(n - 1) } }
fn sing(c: $Cfg, a: int, b: int) -> int { c.base + a * 10 + b }
fn sing2(c: $Cfg, x: $Aux, a: int, b: int) -> int { c.base + x.shift + x.tag.len() + a * 10 + b }
fn boom(s: str) -> int { throw(s); 1 }
fn div(a: int, b: int) -> int { a / b }
fn idx(l: [int], i: int) -> int { l[i] }
fn unwrap_opt(o: ?int) -> int { o.unwrap() }
fn opt_or(o: ?int, d: int) -> int { o.unwrap_or(d) + 1 }
fn opt_list(o: ?[int]) -> int { if o.is_some() { o.unwrap().len() } else { 0 - 1 } }
fn deep(n: int) -> int { deep(n + 1) + 1 }
fn spawn_deep(n: int) -> int { spawn deep(n); time.sleep(0.05); n }
fn partial(n: int) -> int { counter = counter + n; throw("after"); 0 }
fn main() {}
'''


def init_globals():
    return {"counter": I(0), "total": I(0), "name": S("init"), "journal": S(""), "flag": B(False), "items": Lst([]), "done": I(0), "RG": ("range", I(0), I(6), False)}


def globals_sx(g):
    return "(" + " ".join(f"({xhex(k)} {sx(g[k])})" for k in sorted(g)) + ")"


def ok(v, out=""):
    return ("ret", v, out)


def fail(kind, msg=None, out=""):
    # the harness reports the first line of an interrupt's message (the VM appends a stack trace)
    return ("fail", "fatal", kind, None if msg is None else msg.split("\n")[0], out)


def go_div(a, b):
    q = abs(a) // abs(b)
    return q if (a >= 0) == (b >= 0) else -q


def _bump(a, g):
    g["counter"] = I(g["counter"][1] + 1)
    return ok(g["counter"])


def _add(a, g):
    g["total"] = I(g["total"][1] + a[0][1])
    return ok(g["total"])


def _set_name(a, g):
    g["name"] = a[0]
    return ok(None)


def _append_log(a, g):
    g["journal"] = S(g["journal"][1] + a[0][1] + ";")
    return ok(g["journal"])


def _toggle(a, g):
    g["flag"] = B(not g["flag"][1])
    return ok(g["flag"])


def _push_item(a, g):
    g["items"] = Lst(g["items"][1] + [a[0]])
    return ok(g["items"])


def _r_null(a, g):
    g["counter"] = I(g["counter"][1] + a[0][1])
    return ok(None)


def _in_loop(a, g):
    n = a[0][1]
    return ok(I(n * 2)) if 0 <= n < 100 else ok(I(-1))


def _in_while(a, g):
    n = a[0][1]
    if n <= 0:
        return ok(I(0))
    return ok(I(n)) if n < 1000 else ok(I(-1))


def _in_loop2(a, g):
    n = a[0][1]
    i = 0
    while i * i < n:
        i += 1
    return ok(I(i))


def _ret_try(a, g):
    g["counter"] = I(g["counter"][1] + 1)
    return ok(I(a[0][1] * 2)) if a[0][1] <= 10 else ok(I(-1))


def _fact(a, g):
    n = a[0][1]
    r = 1
    for k in range(2, n + 1):
        r *= k
    return ok(I(r))


def _idx(a, g):
    l, i = a[0][1], a[1][1]
    if 0 <= i < len(l):
        return ok(l[i])
    return fail("IndexOutOfBounds")


def _start(a, g):
    g["done"] = I(g["done"][1] + 1)
    return ok(I(7))


def _partial(a, g):
    g["counter"] = I(g["counter"][1] + a[0][1])
    return fail("UncaughtThrow", "after")


# name -> (param types, return kind tag or None for null, reference, flags)
# flags: "fails" = may fail; "v10" = returns from inside try (dead core keeps a handler: V10, C11);
# "v8" = returns while an operand is pending (dead core keeps the operand: V8, C11) — the residue is not judged
FUNCS = {
    "sub": (["int", "int"], "int", lambda a, g: ok(I(a[0][1] - a[1][1])), ()),
    "enc3": (["dig", "dig", "dig"], "int", lambda a, g: ok(I(a[0][1] * 100 + a[1][1] * 10 + a[2][1])), ()),
    "enc4": (["int", "str", "bool", "float"], "obj",
             lambda a, g: ok(("obj", {"a": a[0], "b": a[1], "c": a[2], "d": a[3]})), ()),
    "cat": (["str", "str", "str"], "str", lambda a, g: ok(S(a[0][1] + "|" + a[1][1] + "|" + a[2][1])), ()),
    "zero": ([], "int", lambda a, g: ok(I(42)), ()),
    "bump": ([], "int", _bump, ()),
    "add": (["int"], "int", _add, ()),
    "get_counter": ([], "int", lambda a, g: ok(g["counter"]), ()),
    "set_name": (["str"], None, _set_name, ()),
    "get_name": ([], "str", lambda a, g: ok(g["name"]), ()),
    "append_log": (["str"], "str", _append_log, ()),
    "toggle": ([], "bool", _toggle, ()),
    "push_item": (["int"], "list", _push_item, ()),
    "r_bool": (["int", "int"], "bool", lambda a, g: ok(B(a[0][1] > a[1][1])), ()),
    "r_float": (["float", "float"], "float", lambda a, g: ok(F(a[0][1] * 2.0 - a[1][1])), ()),
    "r_list": (["int", "int"], "list", lambda a, g: ok(Lst([a[0], a[1], a[0]])), ()),
    "r_strs": (["str", "str"], "list", lambda a, g: ok(Lst([a[1], a[0]])), ()),
    "r_opt": (["int"], "option", lambda a, g: ok(("some", a[0]) if a[0][1] > 0 else ("none",)), ()),
    "r_range": (["int", "int"], "range", lambda a, g: ok(("range", a[0], a[1], False)), ()),
    "r_obj": (["int", "str"], "obj", lambda a, g: ok(("obj", {"x": a[0], "y": a[1]})), ()),
    "r_anyobj": (["int", "str"], "anyobj", lambda a, g: ok(("anyobj", {"k": a[0], "s": a[1]})), ()),
    "r_null": (["int"], None, _r_null, ()),
    "r_nested": (["int"], "list", lambda a, g: ok(Lst([Lst([a[0]]), Lst([a[0], a[0]])])), ()),
    "say": (["str", "dig"], "int", lambda a, g: ok(I(a[1][1] + 1), out=f"{a[0][1]} {a[1][1]}\n."), ()),
    "in_loop": (["loopn"], "int", _in_loop, ()),
    "in_while": (["loopn"], "int", _in_while, ()),
    "in_loop2": (["dig2"], "int", _in_loop2, ()),
    "in_match": (["dig"], "str", lambda a, g: ok(S({1: "one", 2: "two"}.get(a[0][1], "many"))), ()),
    "in_try": (["int"], "int", lambda a, g: ok(a[0] if a[0][1] > 0 else I(-1)), ("v10",)),
    "caught": (["str"], "str", lambda a, g: ok(a[0]), ()),
    # the operand of `return` is still inside the try: its exception is caught by the function's own handler
    "ret_try": (["dig2"], "int", _ret_try, ("v10",)),
    "ret_try_loop": (["dig2"], "int", lambda a, g: ok(I(a[0][1] * 2)) if a[0][1] <= 10 else ok(I(-2)), ("v10",)),
    # `return` while an operand of the enclosing `+` is pending (V8: the operand stays on the dead core's stack);
    # the host must still be handed the value of the `return`, which is on top
    "early": (["int"], "int", lambda a, g: ok(a[0]) if a[0][1] > 0 else ok(I(101)), ("v8",)),
    # a call whose function spawns a thread that spawns another one after the first core has ended and been collected:
    # the host call returns only when every core of the invocation has finished (`done` is already counted)
    # every evaluation of a literal is a fresh value: what one call put into its empty list / any-object / object literal
    # is not there in the next call (the literals live in the compiled program, shared by all invocations)
    # loops over a string literal and over a global range left early by `return`: the next call starts at the beginning
    # again (the literal lives in the compiled program, the range in the globals — both survive the call)
    "position": (["letter"], "int", lambda a, g: ok(I("abcdef".find(a[0][1]))), ()),
    "below": (["dig"], "int", lambda a, g: ok(I(min(a[0][1], 6))), ()),
    # a function literal inside a try block, followed by a `return` out of that block: the handler is uninstalled on the
    # way out, so a later throw of the CALLER is caught by the caller's own handler
    # an inner try (entered under a pending operand) has ended when the outer handler fires: the state restored is the
    # outer one's (handler labels and their recorded states are popped together)
    "describe": (["str", "int"], "str", lambda a, g: ok(S("total: n/a")) if 100 > a[1][1] else ok(S("total: 100")), ()),
    # a parameter named `_` still takes its argument: the parameters after it receive theirs
    "pick": (["dig", "dig2", "str"], "int", lambda a, g: ok(a[1]), ()),
    # break / continue out of a `while` inside a try block of a callee: the caller's handler is still installed afterwards
    "guarded": (["dig"], "int", lambda a, g: ok(I(40 + a[0][1])) if a[0][1] > 0 else ok(I(12)), ()),
    "lam_try": (["dig"], "int", lambda a, g: ok(I(a[0][1] + 1)) if a[0][1] >= 0 else ok(I(-1)), ()),
    "after_lam_try": (["dig"], "int", lambda a, g: ok(I(a[0][1] + 1 + (100 if a[0][1] >= 1 else 1000))), ()),
    "fresh": (["str", "dig"], "int", lambda a, g: ok(I(1000 + 100 + 20 + a[1][1])), ()),
    "start": ([], "int", _start, ()),
    "get_done": ([], "int", lambda a, g: ok(g["done"]), ()),
    "nested_call": (["dig", "dig"], "int",
                    lambda a, g: ok(I((a[1][1] - a[0][1]) * 2 + a[0][1] * 100 + a[1][1] * 10)), ()),
    "fact": (["dig"], "int", _fact, ()),
    "sing": (["dig", "dig"], "int", lambda a, g: ok(I(0 + a[0][1] * 10 + a[1][1])), ()),
    # two singleton parameters of different singletons: each is bound to its own singleton
    "sing2": (["dig", "dig"], "int", lambda a, g: ok(I(0 + a[0][1] * 10 + a[1][1])), ()),
    "boom": (["str"], "int", lambda a, g: fail("UncaughtThrow", a[0][1]), ("fails",)),
    "div": (["int", "divisor"], "int",
            lambda a, g: fail("ValueError") if a[1][1] == 0 else ok(I(go_div(a[0][1], a[1][1]))), ("fails",)),
    "idx": (["ilist", "index"], "int", _idx, ("fails",)),
    "unwrap_opt": (["?int"], "int",
                   lambda a, g: ok(a[0][1]) if a[0][0] == "some" else fail("UncaughtThrow", "Called 'unwrap' on a 'null' option value"),
                   ("fails",)),
    # the host may pass a plain T (or null) where ?T is declared: the argument is converted to the declared type
    "opt_or": (["raw?int", "dig"], "int", lambda a, g: ok(I((a[0][1] if a[0][0] == "int" else (a[0][1][1] if a[0][0] == "some" else a[1][1])) + 1)), ()),
    "opt_list": (["raw?ilist"], "int", lambda a, g: ok(I(len(a[0][1]) if a[0][0] == "list" else (len(a[0][1][1]) if a[0][0] == "some" else -1))), ()),
    "deep": (["dig"], "int", lambda a, g: fail("StackOverFlow"), ("fails",)),
    # the limit is exceeded in a core the invoked function SPAWNED: the host call is answered with that failure
    "spawn_deep": (["dig"], "int", lambda a, g: fail("StackOverFlow"), ("fails",)),
    "partial": (["dig"], "int", _partial, ("fails",)),
}

STRINGS = ["", "a", "b c", "é∑", "x;y", "|", "line\nbreak", "Zz", "0", "tab\there"]


def gen_arg(rng, ty, want_fail):
    if ty == "int":
        return I(rng.choice([0, 1, -1, 2, 7, -13, 50, 1000, -99999, 123456789, rng.randrange(-200, 200)]))
    if ty == "dig":
        return I(rng.randrange(0, 10))
    if ty == "dig2":
        return I(rng.randrange(0, 60))
    if ty == "loopn":
        return I(rng.choice([0, 1, 5, 99, 100, 150, -3, rng.randrange(0, 100)]))
    if ty == "str":
        return S(rng.choice(STRINGS))
    if ty == "letter":
        return S(rng.choice("abcdefz"))
    if ty == "bool":
        return B(rng.random() < 0.5)
    if ty == "float":
        return F(rng.choice([0.0, 0.5, 1.5, -2.25, 3.0, 10.125, 1024.0]))
    if ty == "divisor":
        if want_fail:
            return I(0)
        return I(rng.choice([1, -1, 2, 3, -7, 10]))
    if ty == "ilist":
        return Lst([I(rng.randrange(-5, 50)) for _ in range(rng.randrange(1, 5))])
    if ty == "index":
        return I(rng.randrange(5, 9)) if want_fail else I(0)
    if ty == "?int":
        return ("none",) if want_fail else ("some", I(rng.randrange(-9, 99)))
    if ty == "raw?int":
        return rng.choice([I(rng.randrange(-9, 99)), ("null",), ("none",), ("some", I(rng.randrange(-9, 99)))])
    if ty == "raw?ilist":
        l = Lst([I(rng.randrange(0, 9)) for _ in range(rng.randrange(0, 4))])
        return rng.choice([l, ("null",), ("none",), ("some", l)])
    raise ValueError(ty)


OK_FUNCS = [n for n, f in FUNCS.items() if "fails" not in f[3]]
FAIL_FUNCS = [n for n, f in FUNCS.items() if "fails" in f[3]]


def gen_history(rng, maxlen, p_fail):
    """A history: list of (mode, fn, args). With probability p_fail per call a failing call is
    inserted (after which the generator keeps calling, to exercise 'after a failure')."""
    n = rng.randrange(1, maxlen + 1)
    hist = []
    for _ in range(n):
        if rng.random() < p_fail:
            fn = rng.choice(FAIL_FUNCS)
            want_fail = rng.random() < 0.8
        else:
            fn = rng.choice(OK_FUNCS + FAIL_FUNCS[:4])
            want_fail = False
        ptypes = FUNCS[fn][0]
        args = [gen_arg(rng, t, want_fail) for t in ptypes]
        if fn == "idx":
            l = args[0][1]
            args[1] = I(len(l) + rng.randrange(0, 3)) if want_fail else I(rng.randrange(0, len(l)))
        mode = "acall" if rng.random() < 0.7 else "call"
        hist.append((mode, fn, args))
    return hist


def copy_globals(g):
    return {k: (("list", list(v[1])) if v[0] == "list" else v) for k, v in g.items()}


def expected(hist):
    """Reference run of a history: per call a dict with the expected observation, and the
    oracle entry for the Lean model (bound parameters, globals before/after, body outcome)."""
    g = init_globals()
    dead = False
    res = []
    for mode, fn, args in hist:
        ptypes, retkind, ref, flags = FUNCS[fn]
        before = copy_globals(g)
        e = {"mode": mode, "fn": fn, "args": args, "before": before, "flags": flags, "retkind": retkind}
        if dead:
            e.update(kind="exc", cls="terminate", ekind="-", msg="context canceled", out="", after=copy_globals(g),
                     body=None, stack=len(args), frames=1)
        else:
            r = ref(args, g)
            e["after"] = copy_globals(g)
            e["body"] = r
            if r[0] == "ret":
                e.update(kind="ret", value=r[1], out=r[2], stack=0 if retkind is None else 1, frames=0)
            else:
                e.update(kind="exc", cls=r[1], ekind=r[2], msg=r[3], out=r[4])
                dead = True
        res.append(e)
    return res


def host_line(hist, limits=None):
    parts = ["(host"]
    if limits:
        parts.append("(limits %d %d %d)" % limits)
    parts.append(f"(main {xhex(LIB_SRC)})")
    for mode, fn, args in hist:
        parts.append(f"({mode} {xhex(fn)}" + "".join(" " + sx(a) for a in args) + ")")
    return " ".join(parts) + ")"


def fns_sx():
    items = []
    for n, (ptypes, retkind, _, _) in sorted(FUNCS.items()):
        items.append(f"({xhex(n)} {len(ptypes)} {'true' if retkind else 'false'} {retkind or 'null'})")
    return "(fns " + " ".join(items) + ")"


def model_line(exp, cfg="fixed"):
    """`hostmodel` payload for the Lean driver. For calls on a dead VM the oracle entry is a
    dummy (the model must not consult it)."""
    calls = []
    for e in exp:
        b = e["body"]
        if b is None:
            res = "(fail fatal xdead x)"      # must never be used
            out = ""
        elif b[0] == "ret":
            res = "(retnull)" if b[1] is None else f"(ret {sx(b[1])})"
            out = b[2]
        else:
            res = f"(fail {b[1]} {xhex(b[2])} {xhex(b[3] or '')})"
            out = b[4]
        calls.append("(call %s (args%s) (bound%s) (before %s) (after %s) %s %s)" % (
            xhex(e["fn"]), "".join(" " + sx(a) for a in e["args"]), "".join(" " + sx(a) for a in e["args"]),
            globals_sx(e["before"]), globals_sx(e["after"]), xhex(out), res))
    return f"hostmodel (cfg {cfg}) {fns_sx()} (init {globals_sx(init_globals())}) (calls {' '.join(calls)})"


# ---------------------------------------------------------------------------
# C10: programs for the cancellation check
# ---------------------------------------------------------------------------

def gen_straight(rng, size):
    """Straight-line program: prints and calls of helper functions (acyclic), no jumps.
    Its compiled listing is interpreted exactly by the Lean listing machine."""
    nf = rng.randrange(0, 4)
    fns = []
    for i in range(nf):
        body = []
        for _ in range(rng.randrange(1, max(2, size // 3))):
            callees = list(range(i + 1, nf))
            if callees and rng.random() < 0.25:
                body.append(f"f{rng.choice(callees)}();")
            else:
                body.append(f'print("{rng.choice("abcdefgh")}{i}");')
        fns.append(f"fn f{i}() {{ {' '.join(body)} }}")
    body = []
    for _ in range(rng.randrange(1, size)):
        if nf and rng.random() < 0.3:
            body.append(f"f{rng.randrange(nf)}();")
        else:
            body.append(f'print("{rng.choice("mnopqrst")}");')
    return "\n".join(fns) + "\nfn main() { " + " ".join(body) + " }\n"


FINITE_BODIES = [
    # loops, calls, try/catch, match, nested functions
    'for i in 0..{n} {{ print(i); }}',
    'let i = 0; while i < {n} {{ i += 1; if i % 3 == 0 {{ continue; }} print("w", i); }}',
    'let i = 0; loop {{ if i >= {n} {{ break; }} i += 1; try {{ if i % 2 == 0 {{ throw("even"); }} print("odd", i); }} catch e {{ print(e.message); }} }}',
    'for i in 0..{n} {{ let s = match i % 3 {{ 0 => "zero", 1 => "one", _ => "two" }}; print(s); }}',
    'for i in 0..{m} {{ for j in 0..{m} {{ print(i * 10 + j); }} }}',
    'print(fib({f}));',
    'for i in 0..{m} {{ print(sq(i) + tw(i)); }}',
    'let l = [1, 2, 3, 4, 5, 6, 7, 8]; let s = 0; for x in l {{ s += x; print(s); }}',
    'try {{ for i in 0..{n} {{ if i == {m} {{ throw("stop"); }} print(i); }} }} catch e {{ print("caught", e.message); }} print("after");',
    'time.sleep(0.02); print("slept"); for i in 0..{m} {{ print(i); }}',
    'for i in 0..{m} {{ print(i); }} throw("final");',
    'let s = ""; for i in 0..{n} {{ s = s + "x"; }} print(s.len());' if False else 'let s = 0; for i in 0..{n} {{ s = s + i; }} print(s);',
]

HELPERS = '''
fn fib(n: int) -> int { if n < 2 { n } else { fib(n - 1) + fib(n - 2) } }
fn sq(x: int) -> int { x * x }
fn tw(x: int) -> int { sq(x) + sq(x) }
'''


def gen_finite(rng):
    body = rng.choice(FINITE_BODIES).format(n=rng.randrange(3, 40), m=rng.randrange(2, 7), f=rng.randrange(3, 11))
    pre = 'print("start"); ' if rng.random() < 0.5 else ""
    return HELPERS + "fn main() { " + pre + body + " }\n"


INFINITE_BODIES = [
    'loop { }',
    'let i = 0; loop { i += 1; }',
    'while true { }',
    'let i = 0; loop { try { i += 1; throw("x"); } catch e { i += 2; } }',
    'loop { try { loop { try { throw("in"); } catch a { throw("out"); } } } catch b { } }',
    'loop { spin(3); }',
    'loop { time.sleep(0.01); }',
    'let i = 0; loop { i += 1; if i % 1000 == 0 { print(i); } }',
    'forever(0);',
    'loop { for i in 0..10 { let x = sq(i); } }',
    'try { loop { } } catch e { print("never"); }',
    'loop { try { time.sleep(0.01); } catch e { print("never"); } }',
    # ONE very long sleep: the blocking builtin itself notices the cancellation within its polling interval, however long
    # the sleep is
    'print("a"); time.sleep(100000.0); print("never");',
    'time.sleep(3000000.0);',
]

INF_HELPERS = '''
fn sq(x: int) -> int { x * x }
fn spin(n: int) { let i = 0; while i < n { i += 1; } }
fn forever(n: int) { loop { spin(2); } }
'''


def gen_infinite(rng):
    return INF_HELPERS + "fn main() { " + rng.choice(INFINITE_BODIES) + " }\n"


def gen_spawn_cancel(rng):
    """Programs with spawned cores for the cancellation check: (source, number of cores, finite?)."""
    n = rng.randrange(1, 5)
    kind = rng.choice(["inf", "inf", "fin", "sleep", "mixed", "relay"])
    if kind == "relay":
        # a relay of short-lived cores (each far below one quantum of instructions): every core prints, spawns its
        # successor and ends; a core that is not polled before it runs lets the relay outlive the cancellation
        length = rng.choice([60, 120, 200])
        return (f'fn relay(n: int) {{ print(n); if n < {length} {{ spawn relay(n + 1); }} }}\nfn main() {{ spawn relay(0); }}\n',
                length + 2, True)
    if kind == "inf":
        w = 'fn worker(n: int) { let i = 0; loop { i += n; } }'
        m = "loop { }"
        fin = False
    elif kind == "sleep":
        w = 'fn worker(n: int) { loop { time.sleep(0.01); } }'
        m = "loop { time.sleep(0.01); }"
        fin = False
    elif kind == "mixed":
        w = 'fn worker(n: int) { if n % 2 == 0 { loop { } } else { for i in 0..20 { print(n, i); } } }'
        m = "loop { }"
        fin = False
    else:
        w = 'fn worker(n: int) { for i in 0..30 { print(n * 100 + i); } }'
        m = 'for i in 0..30 { print(i); }'
        fin = True
    spawns = " ".join(f"spawn worker({i + 1});" for i in range(n))
    return f"{w}\nfn main() {{ {spawns} {m} }}\n", n + 1, fin


def cancel_line(src, ks, backends=("vm", "tree"), full=True, asm=False, maxk=None, trace=None):
    parts = ["(cancel", "(ks " + " ".join(str(k) for k in ks) + ")", "(backends " + " ".join(backends) + ")"]
    if not full:
        parts.append("(full false)")
    if asm:
        parts.append("(asm true)")
    if maxk:
        parts.append(f"(maxk {maxk})")
    if trace is not None:
        parts.append(f"(trace {trace})")
    parts.append(f"(main {xhex(src)})")
    return " ".join(parts) + ")"


STRAIGHT_OPS = {"Nop", "CopyPush", "CloningPush", "Clone", "Drop", "GetGlobImm", "GetVarImm", "SetVarImm", "SetGlobImm",
                "AddMempointer", "Duplicate"}


def listing_ops(asm):
    """`ASM=((x<fn> op…)…)` -> {fn: [X|P|R|C:x..]} or None if the listing is not straight-line."""
    body = asm.strip()
    assert body.startswith("((") or body == "()", body[:40]
    fns = {}
    for chunk in body[2:-2].split(") ("):
        toks = chunk.split()
        name, ops = toks[0], []
        for o in toks[1:]:
            if o == "Call_Val":
                ops.append("P")
            elif o == "Return":
                ops.append("R")
            elif o.startswith("Call_Imm:"):
                ops.append("C:" + o.split(":", 1)[1])
            elif o in STRAIGHT_OPS:
                ops.append("X")
            else:
                return None
        fns[name] = ops
    return fns


def poll_model_line(fns, entry, ks):
    return "pollmodel (entry %s) (fns %s) (ks %s)" % (
        entry, " ".join("(" + " ".join([n] + ops) + ")" for n, ops in sorted(fns.items())), " ".join(str(k) for k in ks))


# ---------------------------------------------------------------------------
# C17: programs that spawn cores
# ---------------------------------------------------------------------------

def hs_str(s):
    return '"' + s.replace("\\", "\\\\").replace('"', '\\"') + '"'


def disp(v):
    """Display() of a value as println shows it."""
    k = v[0]
    if k == "int":
        return str(v[1])
    if k == "str":
        return v[1]
    if k == "bool":
        return "true" if v[1] else "false"
    if k == "list":
        return "[" + ", ".join(disp(e) for e in v[1]) + "]"
    raise ValueError(v)


def lit(v):
    k = v[0]
    if k == "int":
        return str(v[1]) if v[1] >= 0 else f"(0 - {-v[1]})"
    if k == "str":
        return hs_str(v[1])
    if k == "bool":
        return "true" if v[1] else "false"
    if k == "list":
        return "[" + ", ".join(lit(e) for e in v[1]) + "]"
    raise ValueError(v)


def gen_spawn_program(rng, max_workers=8, fail=False):
    """Returns dict(src, acts (per core program, for the model), lines (expected multiset as a sorted list),
    ncores, fail, slots (expected exact globals), incs (number of counter increments))."""
    n = rng.randrange(1, max_workers + 1)          # spawned cores
    parent = {}
    depth = {0: 0}
    for k in range(1, n + 1):
        cands = [p for p in range(0, k) if depth[p] < 3]
        p = 0 if rng.random() < 0.6 else rng.choice(cands)
        parent[k] = p
        depth[k] = depth[p] + 1
    children = {k: [c for c in range(1, n + 1) if parent[c] == k] for k in range(0, n + 1)}
    args = {k: (I(rng.randrange(-50, 1000)), S(rng.choice(["a", "bc", "x y", "é", "q-1", "Z"])),
                Lst([I(rng.randrange(0, 9)) for _ in range(rng.randrange(0, 4))])) for k in range(1, n + 1)}
    failing = rng.randrange(0, n + 1) if fail else None
    body, acts, lines = {}, {}, []
    incs = 0
    slots = {}
    for k in range(0, n + 1):
        name = "m" if k == 0 else f"c{k}"
        st, ac = [], []
        if k > 0:
            a, s, l = args[k]
            st.append(f'println("{name} args", a, s, l);')
            line = f"{name} args {disp(a)} {disp(s)} {disp(l)}"
            ac.append(("p", line))
            lines.append(line)
            st.append("l.push(99);")
            st.append(f'println("{name} own", l.len());')
            line = f"{name} own {len(l[1]) + 1}"
            ac.append(("p", line))
            lines.append(line)
        items = [("spawn", c) for c in children[k]]
        for _ in range(rng.randrange(1, 5)):
            items.append((rng.choice(["loop", "inc", "slot", "read", "print"]), None))
        rng.shuffle(items)
        if failing == k:
            items.insert(rng.randrange(0, len(items) + 1), ("fail", None))
        elif fail and rng.random() < 0.5:
            items.append(("long", None))
        for kind, c in items:
            if kind == "spawn":
                a, s, l = args[c]
                st.append(f"let lst{c}: [int] = {lit(l)};")
                st.append(f"spawn w{c}({lit(a)}, {lit(s)}, lst{c});")
                ac.append(("s", c))
                st.append(f'println("{name} kept", lst{c});')
                line = f"{name} kept {disp(l)}"
                ac.append(("p", line))
                lines.append(line)
            elif kind == "loop":
                m = rng.randrange(2, 25)
                st.append(f'for i in 0..{m} {{ println("{name} i", i); }}')
                for i in range(m):
                    line = f"{name} i {i}"
                    ac.append(("p", line))
                    lines.append(line)
            elif kind == "long":
                st.append(f'for i in 0..400 {{ println("{name} long", i); }}')
                for i in range(400):
                    line = f"{name} long {i}"
                    ac.append(("p", line))
                    lines.append(line)
            elif kind == "inc":
                m = rng.randrange(1, 12)
                st.append(f"for i in 0..{m} {{ counter = counter + 1; }}")
                for _ in range(m):
                    ac += ["r", "w"]
                incs += m
            elif kind == "slot":
                v = rng.randrange(1, 1000)
                st.append(f"slot{k} = {v};")
                ac.append("w")
                slots[f"slot{k}"] = I(v)
            elif kind == "read":
                st.append(f'let t{len(st)} = counter + slot{k};')
                ac += ["r", "r"]
            elif kind == "print":
                t = rng.choice(["x", "hello world", "1,2", "ü"])
                st.append(f'println("{name} says", {hs_str(t)});')
                line = f"{name} says {t}"
                ac.append(("p", line))
                lines.append(line)
            elif kind == "fail":
                st.append(f'throw("boom {k}");')
                ac.append("f")
        body[k] = st
        acts[k] = ac
    src = ["let counter = 0;"] + [f"let slot{k} = 0;" for k in range(0, n + 1)]
    for k in range(1, n + 1):
        src.append(f"fn w{k}(a: int, s: str, l: [int]) {{ " + " ".join(body[k]) + " }")
    src.append("fn main() { " + " ".join(body[0]) + " }")
    for k in range(0, n + 1):
        slots.setdefault(f"slot{k}", I(0))
    return {"src": "\n".join(src) + "\n", "acts": [acts[k] for k in range(0, n + 1)], "lines": sorted(lines),
            "ncores": n + 1, "fail": fail, "failing": failing, "slots": slots, "incs": incs}


def spawn_line(src, runs, procs, yield_):
    return "(spawn (runs %d) (procs %s) (yield %s) (main %s))" % (
        runs, " ".join(str(p) for p in procs), "true" if yield_ else "false", xhex(src))


def spawn_model_line(acts, seeds):
    def a(x):
        if isinstance(x, tuple):
            return f"(p {xhex(x[1])})" if x[0] == "p" else f"(s {x[1]})"
        return x
    return "spawnmodel (seeds %s) (progs %s)" % (
        " ".join(str(s) for s in seeds), " ".join("(" + " ".join(a(x) for x in prog) + ")" for prog in acts))


def gen_spawn_storm(rng):
    """Many short-lived cores that spawn further cores while others finish (stresses the core list)."""
    m = rng.randrange(3, 9)
    l = rng.randrange(1, 4)
    src = 'fn leaf(id: int) { println("leaf", id); }\n'
    src += "fn mid(id: int) { " + " ".join(f"spawn leaf(id * 10 + {j});" for j in range(l)) + ' println("mid", id); }\n'
    src += "fn main() { " + " ".join(f"spawn mid({i + 1});" for i in range(m)) + " }\n"
    lines = [f"mid {i + 1}" for i in range(m)] + [f"leaf {(i + 1) * 10 + j}" for i in range(m) for j in range(l)]
    acts = [[("s", 1 + i) for i in range(m)]]
    # program table for the model: mids are programs 1..m, leaves follow
    leaf_index = {}
    nxt = 1 + m
    for i in range(m):
        for j in range(l):
            leaf_index[(i, j)] = nxt
            nxt += 1
    for i in range(m):
        acts.append([("s", leaf_index[(i, j)]) for j in range(l)] + [("p", f"mid {i + 1}")])
    for i in range(m):
        for j in range(l):
            acts.append([("p", f"leaf {(i + 1) * 10 + j}")])
    return {"src": src, "acts": acts, "lines": sorted(lines), "ncores": 1 + m + m * l, "fail": False, "failing": None,
            "slots": {}, "incs": 0, "storm": True}


def gen_spawn_staggered(rng):
    """Cores are spawned while earlier ones have already finished AND BEEN COLLECTED by Wait (it polls every few ms) and
    others are still running: core bookkeeping (ids, list) must not confuse a late core with a collected or a live one."""
    src = ['fn quick(id: int) { println("quick", id); }',
           'fn slow(id: int, t: float) { time.sleep(t); println("slow", id); }',
           'fn nest(id: int, t: float) { spawn quick(id * 10); time.sleep(t); spawn slow(id * 10 + 1, t); println("nest", id); }']
    body, lines = [], []
    n = rng.randrange(4, 9)
    for k in range(1, n + 1):
        kind = rng.choice(["quick", "slow", "slow", "nest", "pause"])
        t = rng.choice(["0.02", "0.04", "0.07"])
        if kind == "quick":
            body.append(f"spawn quick({k});")
            lines.append(f"quick {k}")
        elif kind == "slow":
            body.append(f"spawn slow({k}, {t});")
            lines.append(f"slow {k}")
        elif kind == "nest":
            body.append(f"spawn nest({k}, {t});")
            lines += [f"quick {k * 10}", f"slow {k * 10 + 1}", f"nest {k}"]
        if kind == "pause" or rng.random() < 0.5:
            body.append(f"time.sleep({rng.choice(['0.015', '0.03', '0.05'])});")
    body.append('println("main done");')
    lines.append("main done")
    src.append("fn main() { " + " ".join(body) + " }")
    return {"src": "\n".join(src) + "\n", "acts": [], "lines": sorted(lines), "ncores": 1 + len(lines) - 1, "fail": False,
            "failing": None, "slots": {}, "incs": 0, "staggered": True}
