"""Input streams for C05 (totality of lexing/parsing/analysis) and C08 (positions).

Every random choice comes from the `random.Random` passed in. A case is a dict
  {"main": bytes, "mods": {name: bytes}, "stream": str, "depth": int?}
where `main` is the entry module's text and `mods` what the in-memory host serves.
Texts are *bytes*: arbitrary byte strings (incl. invalid UTF-8) are part of the quantifier.
"""
import glob
import itertools
import os
import re

from vlib import core
from vlib.tables import list_of_tuples
from gen import progs

MAX_BYTES = 64 * 1024
DEPTH = 1000


def b(s):
    return s if isinstance(s, bytes) else s.encode("utf-8")


def xhex(bs):
    return "x" + b(bs).hex()


def line_of(case):
    l = "(total (main %s)" % xhex(case["main"])
    for k, v in sorted(case.get("mods", {}).items()):
        l += " (mod %s %s)" % (xhex(k), xhex(v))
    if case.get("nomain"):
        l += " (nomain)"
    return l + ")"


# ---------------------------------------------------------------------------
# corpus
# ---------------------------------------------------------------------------

def corpus_files():
    out = []
    for d in ("examples", "tests"):
        for p in sorted(glob.glob(os.path.join(core.REPO, d, "*.hms"))):
            out.append((os.path.basename(p)[:-4], open(p, "rb").read()))
    return out


def corpus_modules():
    """All shipped programs as a module map (each can import the others by file stem)."""
    return {n: t for n, t in corpus_files()}


def generated_programs(rng, n):
    out = []
    for i in range(n):
        src, _ = progs.generate(rng, max_depth=rng.choice([2, 3]))
        out.append((f"gen{i}", b(src)))
    # the tour of rarely used constructs (type definitions, event functions, triggers also inside function literals, impl
    # blocks, host imports): complete programs, their prefixes and single-token edits go through the same streams
    from gen import families
    for i, src in enumerate(families.tour() + families.tour_vm_only()):
        out.append((f"tour{i}", b(src)))
    # impl blocks: the whole decision table of template constraints (missing / surplus methods, parameter count, names
    # and types, return types, modifiers, capabilities) and every subset of methods of the three-method template
    from gen import faults
    for i, case in enumerate(faults.template_cases(None, 0)):
        out.append((f"impl{i}", b(case[0])))
    # the hand-written analyzer cases (witnesses of repaired findings and rule corners; well- and ill-typed)
    for case in faults.fixed_cases():
        out.append((f"fixed-{case[0]}", b(case[1])))
    # every escape sequence of string literals, both quote kinds: the prefix stream cuts the text after every character of
    # every escape (seed S-C05j: the end of the input inside the digits of a numeric escape)
    for i, esc in enumerate(['\\x41', '\\u00e9', '\\U0001F600', '\\101', '\\n', '\\"', "\\'", '\\\\', '\\t\\r\\b\\a\\f\\v']):
        out.append((f"esc-d{i}", b('fn main() { println("a' + esc + '"); }')))
        out.append((f"esc-s{i}", b("fn main() { println('" + esc + "z'); }")))
    # block and line comments in every position (the prefix stream cuts them after every character: an unclosed block
    # comment ending in `*`, `/`, `/*`; seed S-C05l)
    out.append(("comments0", b('/* head */ fn main() { /* note * / */ println(1 /* in expr */ + 2); /** doc **/ } // tail\n/* last *** */')))
    out.append(("comments1", b('fn main() {\n    // line /* not open\n    let a = 1; /* multi\n line * comment */ println(a); /***/ /**/\n}\n/* generated, do not edit */')))
    from props.C14 import template_programs
    for i, (mods, _) in enumerate(template_programs()):
        if i % 4 == 0:
            out.append((f"trio{i}", b(mods["main"])))
    return out


# ---------------------------------------------------------------------------
# token alphabet (regenerated TokenKind.String() table)
# ---------------------------------------------------------------------------

def token_texts():
    """Text of one token of every kind, from the regenerated `HmsGen.tokStrings`."""
    rows = list_of_tuples("Tokens", "tokStrings")
    out = {}
    for code, s in rows:
        if s is None or s in ("unknown", "EOF"):
            continue
        out[code] = {"string": '"s"', "int": "7", "float": "1.5", "identifier": "x"}.get(s, s)
    return out


def token_spans(texts):
    """[(start_idx, end_idx_inclusive)] of the tokens of each text (rune indices), via the Go lexer."""
    lines = ["(" + " ".join(str(ord(c)) for c in t) + ")" for t in texts]
    res = core.go_lines("lex", lines)
    out = []
    for r in res:
        spans = []
        for m in re.finditer(r"T\d+:[\d.]*:\d+\.\d+\.(\d+)-\d+\.\d+\.(\d+)", r):
            spans.append((int(m.group(1)), int(m.group(2))))
        out.append(spans)
    return out


# ---------------------------------------------------------------------------
# streams
# ---------------------------------------------------------------------------

def prefixes(text, rng, limit):
    """Every truncation at a rune boundary if there are at most `limit`, else `limit` random ones."""
    s = text.decode("utf-8", "replace")
    n = len(s)
    cuts = range(n + 1) if n + 1 <= limit else sorted(rng.sample(range(n + 1), limit))
    return [b(s[:i]) for i in cuts]


def byte_truncations(text, rng, k):
    """Truncations at arbitrary byte offsets (may cut a UTF-8 sequence)."""
    if len(text) < 2:
        return []
    return [text[:rng.randrange(1, len(text))] for _ in range(k)]


def token_edits(text, spans, toks, rng, per_text):
    """Single-token edits: delete / duplicate / swap with the next / replace by a token of every kind."""
    s = text.decode("utf-8", "replace")
    if not spans:
        return []
    kinds = sorted(toks)
    all_edits = []
    for i, (a, e) in enumerate(spans):
        all_edits.append(("del", i, None))
        all_edits.append(("dup", i, None))
        if i + 1 < len(spans):
            all_edits.append(("swap", i, None))
        for k in kinds:
            all_edits.append(("rep", i, k))
    chosen = all_edits if len(all_edits) <= per_text else rng.sample(all_edits, per_text)
    out = []
    for op, i, k in chosen:
        a, e = spans[i]
        tok = s[a:e + 1]
        if op == "del":
            t = s[:a] + s[e + 1:]
        elif op == "dup":
            t = s[:e + 1] + " " + tok + s[e + 1:]
        elif op == "swap":
            a2, e2 = spans[i + 1]
            t = s[:a] + s[a2:e2 + 1] + s[e + 1:a2] + tok + s[e2 + 1:]
        else:
            t = s[:a] + " " + toks[k] + " " + s[e + 1:]
        out.append((f"{op}", b(t)))
    return out


SOUP_EXTRA = ["x", "y", "main", "f", "0", "1", "42", "1.5", '"s"', "'t'", "\n", " ", "//c\n", "/*c*/", "$S", "@a", "#",
              "int", "str", "bool", "println", "throw", "9223372036854775808", "1e", "1..2", "..="]


def token_soup(rng, toks, n_tokens):
    vals = list(toks.values()) + SOUP_EXTRA
    sep = rng.choice([" ", " ", "", "\n"])
    return b(sep.join(rng.choice(vals) for _ in range(n_tokens)))


def structured_soup(rng, toks, n):
    """Token soup biased towards item/statement openers so that the parser gets deep into productions."""
    openers = ["fn f(", "fn main() {", "let a =", "let a: ", "import {", "import a from", "type T =", "impl T with {",
               "impl T for $S {", "$S =", "#[", "#[trigger on e(", "match x {", "if a {", "for i in", "while", "loop {",
               "try {", "} catch e {", "new {", "[", "(", "fn(", "spawn f(", "trigger f on e(", "pub", "event fn e(",
               "return", "break;", "continue;", "a.b", "a->b", "a~>b", "a as", "1..", "-", "!", "?", "{ ? }", "=> ",
               "_ =>", "1 | 2 =>", "}", ")", "]", ";", ",", ":", "->", "@a x: int", '"k": int']
    vals = list(toks.values())
    parts = []
    for _ in range(n):
        parts.append(rng.choice(openers) if rng.random() < 0.6 else rng.choice(vals + SOUP_EXTRA))
    return b(" ".join(parts))


LEX_ERRORS = ["\\", "`", "\x00", "\x7f", '"abc', "'x", "/* c", "1e", "1.", "0x", "\u00e9", '"\\q"']
LEX_ERROR_CONTEXTS = [
    "%s", "fn main() { %s }", "fn main() { let a = %s; }", "fn main() { if true { %s } }", "fn main() { f(%s) }",
    "fn main() { let a: %s = 1; }", "fn f(a: %s) {}", "type X = %s;", "import { %s } from m;", "fn main() { [%s] }",
    "fn main() { match 1 { %s } }", "impl %s", "#[%s] fn f() {}", "fn main() { new { a: %s } }",
    "fn main() { for i in %s {} }", "fn main() { try { %s } catch e { } }",
]


def lex_error_after_token(toks):
    """Every token kind (and the soup extras) followed, with and without a blank, by every kind of text the lexer
    rejects, in every position class of the grammar. The lexer does not advance over what it rejects, so a parser
    routine that swallows the error and returns without having consumed a token is asked again for ever (seed S-C05d:
    `$` + illegal character in expression position)."""
    out = []
    heads = sorted(set(toks.values())) + [e for e in SOUP_EXTRA if e.strip()] + [""]
    for ctx in LEX_ERROR_CONTEXTS:
        for t in heads:
            for e in LEX_ERRORS:
                sep = " " if t[-1:].isalnum() and e[:1].isalnum() else ""
                out.append(b(ctx % (t + sep + e)))
    return out


def arbitrary_bytes(rng, n):
    mode = rng.random()
    if mode < 0.3:
        return bytes(rng.randrange(256) for _ in range(n))
    if mode < 0.6:
        alphabet = b"ab1_f.\"'\\/*\n \t<>=!-+~|&^%#?@$;,:(){}[]xXuU07\r`\x00\xff\xc3\xa9\xe2\x88"
        return bytes(rng.choice(alphabet) for _ in range(n))
    # ASCII with sprinkled high bytes
    return bytes(rng.randrange(32, 127) if rng.random() < 0.9 else rng.randrange(256) for _ in range(n))


# ---- nesting towers ---------------------------------------------------------------------------------

def wrap_main(expr):
    return "fn main() { let v = " + expr + "; }"


def towers(depth):
    """(name, text, closed?) — one tower per bracket / prefix / block form, closed and unclosed."""
    d = depth
    T = []

    def add(name, opened, core_, closed, as_item=False):
        full = opened * d + core_ + closed * d
        T.append((name, full if as_item else wrap_main(full)))
        T.append((name + "-unclosed", (opened * d) if as_item else "fn main() { let v = " + opened * d))
        T.append((name + "-half", (opened * d + core_ + closed * (d // 2)) if as_item
                  else "fn main() { let v = " + opened * d + core_ + closed * (d // 2)))

    add("paren", "(", "1", ")")
    add("list", "[", "1", "]")
    add("block", "{", "1", "}")
    add("neg", "-", "1", "")
    add("not", "!", "true", "")
    add("some", "?", "1", "")
    add("if-cond", "if ", "true", " { 1 } else { 2 }")
    add("if-then", "if true { ", "1", " } else { 2 }")
    add("else-if", "if false { 1 } else ", "{ 2 }", "")
    add("match", "match 1 { 1 => ", "2", ", _ => 3 }")
    add("match-default", "match 1 { 1 => 2, _ => ", "3", " }")
    add("match-only-default", "match 1 { _ => ", "3", " }")
    add("try", "try { ", "1", " } catch e { 2 }")
    add("lambda", "fn() -> int { ", "1", " }")
    add("lambda-null", "fn() { ", "", " }")
    add("call", "f(", "1", ")")
    add("index", "l[", "0", "]")
    add("new", "new { a: ", "1", " }")
    add("pow", "2 ** ", "2", "")
    add("assign", "a = ", "1", "")
    add("range", "1..", "2", "")
    add("plus-right", "1 + (", "1", ")")
    add("loop", "loop { ", "break;", " }")
    add("while", "while true { ", "break;", " }")
    add("for", "for i in 0..1 { ", "1;", " }")
    add("member", "", "a" + ".b" * d, "")
    add("call-chain", "", "f" + "()" * d, "")
    add("index-chain", "", "l" + "[0]" * d, "")
    add("plus-left", "", "1" + " + 1" * d, "")
    add("cast-chain", "", "1" + " as int" * d, "")
    # type-level towers
    T.append(("type-list", "type T = " + "[" * d + "int" + "]" * d + "; fn main() {}"))
    T.append(("type-list-unclosed", "type T = " + "[" * d))
    T.append(("type-option", "type T = " + "?" * d + "int; fn main() {}"))
    T.append(("type-object", "type T = " + "{ a: " * d + "int" + " }" * d + "; fn main() {}"))
    T.append(("type-fn", "type T = " + "fn(a: " * d + "int" + ")" * d + "; fn main() {}"))
    T.append(("type-fn-ret", "type T = " + "fn() -> " * d + "int; fn main() {}"))
    T.append(("let-type", "fn main() { let a: " + "[" * d + "int" + "]" * d + " = 1; }"))
    T.append(("cast-type", "fn main() { let a = 1 as " + "?" * d + "int; }"))
    T.append(("param-type", "fn f(a: " + "[" * d + "int" + "]" * d + ") {} fn main() {}"))
    T.append(("singleton-type", "$S = " + "{ a: " * d + "int" + " }" * d + "; fn main() {}"))
    T.append(("annotation-args", "#[trigger on e(" + "(" * d + "1" + ")" * d + ")] fn f() {} fn main() {}"))
    T.append(("trigger-args", "fn cb() {} fn main() { trigger cb on e(" + "[" * d + "1" + "]" * d + "); }"))
    T.append(("impl-body", "impl T for $S { " + "fn f() { let v = " + "(" * d + "1" + ")" * d + "; } }"))
    T.append(("stmt-blocks", "fn main() { " + "{ " * d + " }" * d + " }"))
    T.append(("many-fns", "".join(f"fn f{i}() {{ f{i + 1}(); }}\n" for i in range(d)) + f"fn f{d}() {{}} fn main() {{ f0(); }}"))
    T.append(("many-lets", "fn main() {\n" + "".join(f"let a{i} = {i};\n" for i in range(d)) + "}"))
    T.append(("many-imports", "".join(f"import f{i} from m;\n" for i in range(d)) + "fn main() {}"))
    T.append(("import-list", "import { " + ", ".join(f"a{i}" for i in range(d)) + " } from m; fn main() {}"))
    T.append(("match-arms", "fn main() { let v = match 1 { " + ", ".join(f"{i} => {i}" for i in range(d)) + ", _ => 0 }; }"))
    T.append(("match-alts", "fn main() { let v = match 1 { " + " | ".join(str(i) for i in range(d)) + " => 1, _ => 0 }; }"))
    T.append(("list-wide", "fn main() { let v = [" + ", ".join("1" for _ in range(d)) + "]; }"))
    T.append(("object-wide", "fn main() { let v = new { " + ", ".join(f"a{i}: 1" for i in range(d)) + " }; }"))
    T.append(("call-wide", "fn main() { println(" + ", ".join("1" for _ in range(d)) + "); }"))
    T.append(("params-wide", "fn f(" + ", ".join(f"a{i}: int" for i in range(d)) + ") {} fn main() {}"))
    T.append(("else-if-chain", "fn main() { " + "if false { 1 } else " * d + "{ 2 } }"))
    return [(n, b(t)) for n, t in T]


def big_inputs(rng, toks, corpus):
    """Inputs of (almost) 64 KiB with bounded nesting."""
    out = []
    n = MAX_BYTES

    def fit(s):
        s = b(s)
        return s[:n]

    out.append(("big-ident", fit("fn main() { let " + "a" * n)))
    out.append(("big-string", fit('fn main() { let a = "' + "s" * (n - 40) + '"; }')))
    out.append(("big-string-open", fit('fn main() { let a = "' + "s\\n" * n)))
    out.append(("big-line-comment", fit("// " + "c" * n)))
    out.append(("big-block-comment-open", fit("/* " + "c\n" * n)))
    out.append(("big-newlines", fit("\n" * (n - 20) + "fn main() {}")))
    out.append(("big-number", fit("fn main() { let a = " + "9" * n)))
    out.append(("big-float", fit("fn main() { let a = 1." + "9" * n)))
    out.append(("big-semicolons", fit("fn main() { " + ";" * n)))
    out.append(("big-illegal", fit("fn main() {} " + "`" * n)))
    out.append(("big-plus", fit("fn main() { let a = 1" + " + 1" * (n // 4 - 10) + "; }")))
    out.append(("big-stmts", fit("fn main() {\n" + "println(1);\n" * (n // 12 - 4) + "}")))
    out.append(("big-stmts-nosemi", fit("fn main() {\n" + "println(1)\n" * (n // 11 - 4) + "}")))
    out.append(("big-fns", fit("".join(f"fn f{i}() {{}}\n" for i in range(n // 13)))))
    out.append(("big-lets-undefined", fit("fn main() {\n" + "let a = zz;\n" * (n // 11 - 4) + "}")))
    out.append(("big-soup", fit(token_soup(rng, toks, n // 3))))
    out.append(("big-structured", fit(structured_soup(rng, toks, n // 6))))
    out.append(("big-bytes", arbitrary_bytes(rng, n)))
    out.append(("big-unicode", fit('fn main() { let a = "' + "é∑😀" * (n // 9 - 10) + '"; }')))
    out.append(("big-unicode-idents", fit("fn main() { " + "é " * (n // 3))))
    # valid programs concatenated up to the limit (functions renamed apart is not needed: duplicates are diagnostics)
    acc = b""
    names = [t for _, t in corpus if b"import" not in t]
    while names and len(acc) < n:
        acc += rng.choice(names) + b"\n"
    out.append(("big-corpus", acc[:n]))
    return out


# ---- imports -------------------------------------------------------------------------------------------

def as_import(text, name="m"):
    """Entry module that imports `x` from a module serving `text`."""
    return {"main": b(f"import x from {name};\nfn main() {{}}\n"), "mods": {name: text}}


def import_graphs(max_mods=3):
    """Every import graph over the modules main, a, b (each module imports any subset, incl. itself):
    2^(n*n) graphs for n = 1..max_mods. Module `a`/`b` export `pub fn fa()/fb()`; unknown modules excluded."""
    names = ["main", "a", "b"][:max_mods]
    exports = {"main": "main", "a": "fa", "b": "fb"}
    out = []
    for n in range(1, max_mods + 1):
        ns = names[:n]
        pairs = [(x, y) for x in ns for y in ns]
        for bits in itertools.product([0, 1], repeat=len(pairs)):
            edges = [p for p, bit in zip(pairs, bits) if bit]
            texts = {}
            for m in ns:
                lines = [f"import {exports[y]} from {y};" for (x, y) in edges if x == m]
                if m == "main":
                    lines.append("fn main() {}")
                else:
                    lines.append(f"pub fn {exports[m]}() {{}}")
                    lines.append("fn main() {}")
                texts[m] = b("\n".join(lines) + "\n")
            main = texts.pop("main")
            out.append({"main": main, "mods": texts, "stream": "import-graph", "edges": edges})
    return out


def import_chain(depth):
    """main -> m0 -> m1 -> … -> m<depth-1> (a long acyclic chain) and the same closed into a cycle."""
    mods = {}
    for i in range(depth):
        nxt = f"import f{i + 1} from m{i + 1};\n" if i + 1 < depth else ""
        mods[f"m{i}"] = b(nxt + f"pub fn f{i}() {{}}\nfn main() {{}}\n")
    chain = {"main": b("import f0 from m0;\nfn main() { f0(); }\n"), "mods": dict(mods), "stream": "import-chain"}
    cyc = dict(mods)
    cyc[f"m{depth - 1}"] = b(f"import f0 from m0;\npub fn f{depth - 1}() {{}}\nfn main() {{}}\n")
    cycle = {"main": b("import f0 from m0;\nfn main() { f0(); }\n"), "mods": cyc, "stream": "import-chain-cycle"}
    return [chain, cycle]


# ---------------------------------------------------------------------------
# C08: runtime failures with a known culprit
# ---------------------------------------------------------------------------

def locate(text, needle, occurrence=0):
    """(start_line, start_col, end_line, end_col) inclusive of the `occurrence`-th `needle` in `text`."""
    i = -1
    for _ in range(occurrence + 1):
        i = text.index(needle, i + 1)
    j = i + len(needle) - 1

    def lc(k):
        pre = text[:k]
        return pre.count("\n") + 1, k - (pre.rfind("\n") + 1) + 1
    return lc(i) + lc(j)


PRINT_E = 'println("@@", e.line, e.column, e.filename, "@@");'

CULPRITS = [
    # (name, culprit text, culprit kind for the AST cross-check, catchable?)
    ("throw", 'throw("boom")', "call:throw", True),
    ("throw-multiline", 'throw(\n        "boom"\n    )', "call:throw", True),
    ("throw-obj", "throw(42)", "call:throw", True),
    ("div-zero", "one / zero", "infix:/", False),
    ("mod-zero", "one % zero", "infix:%", False),
    ("div-zero-multiline", "one\n      /\n      zero", "infix:/", False),
    ("index-oob", "lst[seven]", "index:", False),
    ("index-neg-oob", "lst[-seven]", "index:", False),
    ("shift-neg", "one << (zero - one)", "infix:<<", False),
    ("unwrap-none", "opt.unwrap()", "call:", True),
    ("str-index-oob", 'wrd[seven]', "index:", False),
    ("parse-int", 'wrd.parse_int()', "call:", True),
    # failed runtime validation of a dynamically typed value: an `as` cast, an annotated `let` (the statement is the
    # culprit) with an inline type and with a named type alias (whose definition is somewhere else)
    ("cast-as", "jsn.parse_json() as int", "cast:", True),
    ("cast-as-list", "jsl.parse_json() as [str]", "cast:", True),
    ("let-annot", "let r: int = jsn.parse_json();", "let:", True, "", None, True),
    ("let-annot-obj", "let r: { a: int } = jsl.parse_json();", "let:", True, "", None, True),
    ("let-alias", "let r: Num = jsn.parse_json();", "let:", True, "type Num = int;\n", None, True),
    ("let-alias-obj", "let r: Rec = jsl.parse_json();", "let:", True, "type Rec = {\n    a: int,\n    b: str\n};\n", None, True),
    # an object that lacks a declared field / has a field of the wrong type / has a surplus field, validated against a
    # named type: the failing construct is the `let`, not the field's declaration inside the type definition
    ("let-alias-missing-field", "let r: Rec = jso.parse_json();", "let:", True, "type Rec = {\n    a: int,\n    b: str\n};\n", None, True),
    ("let-alias-wrong-field", "let r: Rek = jso.parse_json();", "let:", True, "type Rek = {\n    a: str\n};\n", None, True),
    ("let-alias-surplus-field", "let r: Ret = jsx.parse_json();", "let:", True, "type Ret = {\n    a: int\n};\n", None, True),
    ("let-alias-nested-missing", "let r: Out = jsw.parse_json();", "let:", True, "type Inn = {\n    a: int,\n    b: str\n};\ntype Out = {\n    w: Inn\n};\n", None, True),
    ("cast-as-alias-missing-field", "jso.parse_json() as Rec", "cast:", True, "type Rec = {\n    a: int,\n    b: str\n};\n", None, False),
    # the culprit sits in a helper function of the same file; the statement only starts the recursion
    # (the culprit is the recursive function: the VM notices the limit at whatever instruction of it is current)
    ("stack-overflow", "fn deep(n: int) -> int {\n    deep(n + 1)\n}", "fn:deep", False, "fn deep(n: int) -> int {\n    deep(n + 1)\n}\n", "deep(0)"),
]

PRELUDE = ("    let one = 1;\n    let zero = 0;\n    let seven = 7;\n    let lst = [1, 2, 3];\n    let wrd = \"ab\";\n    let opt: ?int = none;\n"
           "    let jsn = \"\\\"text\\\"\";\n    let jsl = \"[1, 2]\";\n    let jso = \"{\\\"a\\\": 1}\";\n    let jsx = \"{\\\"a\\\": 1, \\\"z\\\": 2}\";\n"
           "    let jsw = \"{\\\"w\\\": {\\\"a\\\": 1}}\";\n"
           # control flow in front of the culprit: its instructions come after several labels of the same function
           "    let pre = 0;\n    if one > zero && seven > one {\n        pre = 1;\n    } else {\n        pre = 2;\n    }\n    for q in 0..2 {\n        pre += q;\n    }\n"
           "    while pre > 100 {\n        pre -= 1;\n    }\n    let sel = match pre {\n        1 => 10,\n        _ => 20,\n    };\n    try {\n        pre += sel;\n    } catch never_e {\n        pre = 0;\n    }\n")


def runtime_cases(rng, n_layout):
    """Programs with exactly one runtime failure whose culprit position is known by construction:
    in main / in a called function / in an imported module; caught (prints e.line, e.column, e.filename)
    or uncaught; with random leading layout (blank lines, comments, indentation, unicode before it)."""
    out = []
    for name, culprit, kind, catchable, *extra in CULPRITS:
        helper, starter, is_stmt = (extra + ["", None, False])[:3] if extra else ("", None, False)
        for where in ("main", "callee", "module", "module-global-fn"):
            for caught in (True, False):
                for _ in range(n_layout):
                    pad_lines = "".join(rng.choice(["\n", "// é comment\n", "/* block\n comment */\n", "   \n"])
                                        for _ in range(rng.randrange(0, 4)))
                    pre = rng.choice(["", "  ", "let s = \"é∑\"; ", "/* é */ ", "\t"])
                    stmt = f"{pre}{culprit}\n    println(r);\n" if is_stmt else f"{pre}let r = {starter or culprit};\n    println(r);\n"
                    body = PRELUDE + pad_lines + "    " + stmt
                    if caught:
                        call = "    try {\n%s    } catch e {\n        " + PRINT_E + "\n    }\n"
                    else:
                        call = "%s"
                    if where == "main":
                        main = helper + pad_lines + "fn main() {\n" + (call % body) + "}\n"
                        mods = {}
                        file = "main"
                    elif where == "callee":
                        main = helper + "fn work() {\n" + body + "}\n" + pad_lines + "fn main() {\n" + (call % "    work();\n") + "}\n"
                        mods = {}
                        file = "main"
                    else:
                        # (a module without globals has an empty '@init' routine, finding V31: keep one global)
                        lib = "let LIBG = 1;\n" + helper + pad_lines + "pub fn work() {\n" + body + "}\nfn main() { println(LIBG); }\n"
                        main = "import work from lib;\nfn main() {\n" + (call % "    work();\n") + "}\n"
                        if where == "module-global-fn":
                            # the handler sits in `work` itself: a throw that crosses two frames is finding V11 (open)
                            lib = ("let LIBG = 1;\n" + helper + "fn inner() {\n" + body + "}\n" + pad_lines
                                   + "pub fn work() {\n" + (call % "    inner();\n") + "}\nfn main() { println(LIBG); }\n")
                            main = "import work from lib;\nfn main() {\n    work();\n}\n"
                        mods = {"lib": lib}
                        file = "lib"
                    text = main if file == "main" else mods[file]
                    out.append({"name": name, "where": where, "caught": caught, "catchable": catchable, "kind": kind,
                                "main": main, "mods": mods, "file": file, "range": locate(text, culprit),
                                "culprit": culprit})
    return out


def run_line(case):
    l = "(run (backends vm tree) (main %s)" % xhex(case["main"])
    for k, v in sorted(case["mods"].items()):
        l += " (mod %s %s)" % (xhex(k), xhex(v))
    return l + ")"


# ---------------------------------------------------------------------------
# C08: diagnostics / syntax errors with a known culprit
# ---------------------------------------------------------------------------

STATIC_CULPRITS = [
    # (name, template with {C} = culprit, culprit, level-or-'syn', message prefix)
    ("unknown-ident", "fn main() {{\n    let a = 1;\n    println({C});\n}}\n", "CULPRIT", 3, "Use of undefined variable"),
    ("unknown-ident-multiline", "fn main() {{\n    println(\n        1,\n        {C}\n    );\n}}\n", "CULPRIT", 3,
     "Use of undefined variable"),
    ("unknown-type", "fn main() {{\n    let a: {C} = 1;\n}}\n", "CULPRIT", 3, "Illegal use of undeclared type"),
    ("unused-var", "fn main() {{\n    let {C} = 1;\n}}\n", "culprit", 2, "Variable 'culprit' is unused"),
    ("unused-fn", "fn {C}() {{}}\nfn main() {{}}\n", "culprit", 2, "Function 'culprit' is never used"),
    ("type-mismatch-let", "fn main() {{\n    let _a: int = {C};\n}}\n", '"culprit"', 3, "Mismatched types"),
    ("infix-mismatch", "fn main() {{\n    let _a = 1 + {C};\n}}\n", '"culprit"', 3, "Mismatched types"),
    ("missing-semicolon", "fn main() {{\n    let a = {C}\n    println(a);\n}}\n", "42", "syn", "Missing semicolon"),
    ("expected-expr", "fn main() {{\n    let a = 1 + {C} 2;\n}}\n", "]", "syn", "Expected an expression"),
    ("illegal-char", "fn main() {{\n    let a = 1 {C} 2;\n}}\n", "`", "syn", "illegal character"),
    ("eof-in-block", "fn main() {{\n    let a = 1;\n{C}", "", "syn", "Expected '}'"),
    ("string-never-closed", "fn main() {{\n    let a = {C}", '"abc\ndef', "syn", "String literal never closed"),
    ("int-overflow", "fn main() {{\n    let _a = {C};\n}}\n", "99999999999999999999", "syn", "Cannot use"),
    ("break-outside", "fn main() {{\n    {C}\n}}\n", "break;", 3, "Illegal use of 'break'"),
    ("call-args", "fn f(a: int) {{ println(a); }}\nfn main() {{\n    f{C};\n}}\n", "(1, 2)", 3, "Function requires 1 argument"),
    ("trigger-undefined-in-block", "fn main() {{\n    let fa = match 1 {{ 3 => 5, _ => {C} }};\n}}\n", "if true { } else if false { trigger y on h(1); }", 3, "Mismatched types"),
    # every entry of a braced import list has its own span (the second, the third on its own line, a `type` entry)
    ("import-list-2nd", "import {{ ping, {C} }} from net;\nfn main() {{\n    println(ping(\"a\", 1.0));\n}}\n", "CULPRIT", 3, "No variable or function named"),
    ("import-list-3rd-multiline", "import {{\n    ping,\n    http,\n    {C}\n}} from net;\nfn main() {{\n    println(ping(\"a\", 1.0), http);\n}}\n", "CULPRIT", 3,
     "No variable or function named"),
    ("import-list-type-2nd", "import {{ ping, {C} }} from net;\nfn main() {{\n    println(ping(\"a\", 1.0));\n}}\n", "type CULPRIT", 3, "No type named"),
    ("builtin-fn-param", "fn main() {{\n    let f: fn(seconds: int) -> null = {C};\n    f(1);\n}}\n", "time.sleep", 3, "Mismatched types"),
    # unused imports are reported at the import entry in the importing file — whatever was imported: a function, a global
    # or a type of a code module (sixth element: the other modules of the program), a host value
    ("unused-import-code-fn", "import {{ double, {C} }} from lib2;\nfn main() {{\n    println(double(21));\n}}\n", "culprit", 2, "Import `culprit` is unused",
     {"lib2": "\n\n// padding\n\npub fn double(n: int) -> int {{ n * 2 }}\n\n\n\n       pub fn culprit(n: int) -> int {{ n }}\nfn main() {{ }}\n"}),
    ("unused-import-code-fn-single", "import {C} from lib2;\nfn main() {{\n}}\n", "culprit", 2, "Import `culprit` is unused",
     {"lib2": "\n\n\n\n\n\n\n  pub fn culprit(n: int) -> int {{ n }}\nfn main() {{ }}\n"}),
    ("unused-import-code-let", "import {{ {C}, k }} from lib2;\nfn main() {{\n    println(k);\n}}\n", "culprit", 2, "Import `culprit` is unused",
     {"lib2": "\n\n\n\npub let k = 1;\n\n\n     pub let culprit = 2;\nfn main() {{ }}\n"}),
    # hints lie within the construct they speak about: the DEFAULT arm for "branches following this arm", the unreachable arm
    # for the warning; both in a multi-line match
    ("unreachable-arm-hint", "fn main() {{\n    let a = match 1 {{\n        {C},\n        2 => 3,\n        4 => 5,\n    }};\n    println(a);\n}}\n", "_ => 1", 0, "Any branches following this arm"),
    ("unreachable-arm-warning", "fn main() {{\n    let a = match 1 {{\n        _ => 1,\n        {C},\n        4 => 5,\n    }};\n    println(a);\n}}\n", "2 => 3", 2, "This match-arm is unreachable"),
    # a local shadowed in its own scope before it was read: the WARNING names the first declaration, the HINT the second
    ("shadowed-unused-warning", "fn main() {{\n    let {C} = 1;\n    // between\n    let total = 2;\n    println(total);\n}}\n", "total", 2, "Unused variable 'total'"),
    ("shadowed-unused-hint", "fn main() {{\n    let second = 1;\n    // between\n    let {C};\n    println(second);\n}}\n", "second = 2", 0, "Variable 'second' shadowed here"),
    ("shadowed-unused-param", "fn f({C}: int) -> int {{\n    let amount = 2;\n    amount\n}}\nfn main() {{\n    println(f(1));\n}}\n", "amount", 2, "Unused parameter 'amount'"),
    # an unused parameter of a FUNCTION LITERAL whose type is a named alias: the warning names the parameter, not the alias
    ("unused-lambda-param-alias", "type Foo = {{ a: int }};\n\nfn main() {{\n    let f = fn({C}: Foo) -> int {{ 42 }};\n    println(f(new {{ a: 1 }}));\n}}\n", "culprit", 2, "Parameter 'culprit' is unused"),
    ("unused-import-host", "import {{ ping, {C} }} from net;\nfn main() {{\n    println(ping(\"a\", 1.0));\n}}\n", "http", 2, "Import `http` is unused"),
]


def static_cases(rng, n_layout):
    out = []
    for name, tmpl, culprit, level, prefix, *more in STATIC_CULPRITS:
        for where in (("main",) if more else ("main", "module")):
            for _ in range(n_layout):
                pad = "".join(rng.choice(["\n", "// é\n", "/* x\n y */\n", "  \n"]) for _ in range(rng.randrange(0, 4)))
                text = pad + tmpl.format(C=culprit)
                if culprit:
                    rng_ = locate(text, culprit)
                else:
                    # failure at end of input: the end-of-input position
                    rng_ = (text.count("\n") + 1, len(text) - (text.rfind("\n") + 1) + 1) * 2
                if name == "string-never-closed":
                    # the error extends to the end-of-input position, one past the last character
                    rng_ = rng_[:2] + (rng_[2], rng_[3] + 1)
                if where == "main":
                    case = {"main": b(text), "mods": {k: b(v.format()) for k, v in more[0].items()} if more else {}, "file": "main"}
                else:
                    case = {"main": b("import x from lib;\nfn main() {}\n"), "mods": {"lib": b(text)}, "file": "lib"}
                case.update(name=name, where=where, level=level, prefix=prefix, range=rng_, text=text, culprit=culprit)
                out.append(case)
    return out


# ---------------------------------------------------------------------------
# running `hv total` and reading its answers (shared by props/C05.py and props/C08.py)
# ---------------------------------------------------------------------------

LIMIT_S = 30          # watchdog per input line (the slowest legitimate input takes ~2 s)


class Item:
    __slots__ = ("tag", "kind", "span", "file", "pos", "ord", "disp", "edisp", "ddisp", "msg", "syntax_clean")

    def __init__(self, text):
        f = dict(p.split("=", 1) for p in text.split(" ")[1:] if "=" in p)
        self.tag = text.split(" ", 1)[0]
        self.kind = int(f["k"])
        a, e = f["sp"].split("-")
        self.span = tuple(int(x) for x in a.split(".")) + tuple(int(x) for x in e.split("."))
        self.file = bytes.fromhex(f["f"][1:]).decode("utf-8", "replace")
        self.pos, self.ord, self.disp, self.edisp, self.ddisp = f["pos"], f["ord"] == "1", f["disp"], f["edisp"], f["ddisp"]
        self.msg = bytes.fromhex(f["m"][1:]).decode("utf-8", "replace")


class Result:
    def __init__(self, line):
        self.raw = line
        parts = line.split(" | ")
        head = parts[0].split(" ")
        self.cls = head[0]
        self.dead = self.cls in ("CRASH", "HANG") or line.startswith(("CRASH", "HANG", "PANIC x", "BAD-INPUT"))
        self.fields = dict(p.split("=", 1) for p in head[1:] if "=" in p)
        self.items = [] if self.dead else [Item(p) for p in parts[1:]]
        # no syntax error at all: the analyzer saw the program the text denotes (no error-recovery nodes)
        clean = all(self.fields.get(k, "0") == "0" for k in ("psoft", "phard", "syn"))
        n_err = sum(1 for it in self.items if it.tag == "AD" and it.kind == 3)
        for it in self.items:
            # … and this is the program's only error: not a follow-up of another error's recovery value
            it.syntax_clean = clean and n_err == 1
        self.mods = [m for m in self.fields.get("mods", "").split(",") if m]

    @property
    def total_ok(self):
        return self.cls in ("ok", "errors")

    def describe(self):
        if self.cls.startswith("PANIC:"):
            _, where, msg = self.cls.split(":", 2)
            return f"panic in {where}: {bytes.fromhex(msg[1:]).decode('utf-8', 'replace')[:120]}"
        if self.raw.startswith(("CRASH", "HANG")):
            what = bytes.fromhex(self.raw.split(" ")[1][1:]).decode("utf-8", "replace")
            if "watchdog" in what:
                return "does not return (killed by the watchdog: hang)"
            return "process died: " + what[:120]
        return self.raw[:160]


def run_total(cases, limit=LIMIT_S, stop_after_dead=4, chunk=2000):
    """`hv total` over the cases; stops early (answers None) once several inputs killed the worker,
    so that a regression that hangs on a whole class of inputs costs seconds, not hours."""
    out = []
    dead = 0
    for i in range(0, len(cases), chunk):
        if dead >= stop_after_dead:
            out += [None] * (len(cases) - len(out))
            break
        part = cases[i:i + chunk]
        res = core.go_lines("total", [line_of(c) for c in part], args=("-limit", str(limit)), timeout=max(600, limit * 8))
        for r in res:
            rr = Result(r)
            if rr.dead:
                dead += 1
            out.append(rr)
    return out


def case_replay(case, stream=None):
    """JSON-serialisable form of a case."""
    return {"kind": "total", "stream": stream or case.get("stream", ""), "main": xhex(case["main"]),
            "mods": {k: xhex(v) for k, v in case.get("mods", {}).items()},
            "main_text": case["main"][:400].decode("utf-8", "replace")}


def case_of_replay(rep):
    return {"main": bytes.fromhex(rep["main"][1:]), "mods": {k: bytes.fromhex(v[1:]) for k, v in rep.get("mods", {}).items()},
            "stream": rep.get("stream", "")}


def shrink(case, still_fails, max_steps=300):
    """Delta-debugging on the text that carries the failure (imported module if there is one, else main)."""
    field = "main"
    if case.get("mods") and len(case["mods"]) == 1 and case.get("stream", "").endswith("import"):
        field = next(iter(case["mods"]))
    data = case["main"] if field == "main" else case["mods"][field]

    def with_(d):
        c = dict(case)
        c["mods"] = dict(case.get("mods", {}))
        if field == "main":
            c["main"] = d
        else:
            c["mods"][field] = d
        return c
    n, steps = 2, 0
    while len(data) >= 2 and steps < max_steps:
        chunk = max(1, len(data) // n)
        reduced = False
        for i in range(0, len(data), chunk):
            cand = data[:i] + data[i + chunk:]
            steps += 1
            if still_fails(with_(cand)):
                data, n, reduced = cand, max(n - 1, 2), True
                break
            if steps >= max_steps:
                break
        if not reduced:
            if chunk == 1:
                break
            n = min(n * 2, len(data))
    return with_(data)


# ---- regression witnesses (findings of this property, all proposed as fixes) -----------------------

WITNESSES = [
    ("P1", {"main": b"import a from b:`", "mods": {}}, "importIdent ignores the lexer error: the parser never returns"),
    ("P1", {"main": b"import x from m;\nfn main() {}\n", "mods": {"m": b"import a from b:`"}},
     "importIdent ignores the lexer error (imported module)"),
    ("A4", {"main": b"fn f() {} let x = f; fn main() {}", "mods": {}}, "nil CurrentFunction dereference in a global initialiser"),
    ("A8", {"main": b"import fa from a;\nfn main() {}\n", "mods": {"a": b"import fa from a;\npub fn fa() {}\nfn main() {}\n"}},
     "importGraphIsCyclic recurses forever on main -> a -> a"),
    ("A8", {"main": b"import fa from a;\nfn main() {}\n",
            "mods": {"a": b"import fb from b;\npub fn fa() {}\nfn main() {}\n", "b": b"import fa from a;\npub fn fb() {}\nfn main() {}\n"}},
     "importGraphIsCyclic recurses forever on main -> a -> b -> a"),
    ("T1", {"main": b"fn main() { spawn nope(); }", "mods": {}}, "spawn of something that is not callable: nil result type dereferenced"),
    ("T1", {"main": b"fn n(){spawn a", "mods": {}}, "spawn of an unknown function in a truncated program"),
    ("T2", {"main": b"import trigger U from lib;\nfn cb() {}\nfn main() { trigger cb at U(); }\n", "mods": {"lib": b"fn main() {}\n"}},
     "trigger statement on a trigger whose import failed: nil parameter type"),
    ("T2", {"main": b"import trigger U from lib;\n#[trigger at U()]\nfn f() {}\nfn main() {}\n", "mods": {"lib": b"fn main() {}\n"}},
     "trigger annotation on a trigger whose import failed: nil return type"),
]


def build_streams(ctx, toks, corp, want_items=False):
    """The input streams of C05/C08 as a list of (stream name, [case]). Sizes depend on ctx.tier."""
    rng = ctx.rng
    quick = ctx.tier == "quick"
    mods_all = dict(corp)

    # nesting towers, entry and imported
    tw = []
    for n, t in towers(DEPTH):
        tw.append({"main": t, "mods": {}, "stream": "tower:" + n, "depth": DEPTH})
        c = as_import(t)
        c["stream"] = "tower-import:" + n
        tw.append(c)
    yield "towers", tw

    # import graphs of every shape over <= 3 modules, chains
    g = import_graphs(3)
    for d in (2, 10, 200):
        g += import_chain(d)
    yield "import-graphs", g

    # corpus: every shipped program with all the others available as modules
    cs = [{"main": t, "mods": mods_all, "stream": "corpus:" + n} for n, t in corp]
    gens = generated_programs(rng, 10 if quick else 60)
    cs += [{"main": t, "mods": {}, "stream": "generated:" + n} for n, t in gens]
    yield "corpus", cs

    # every prefix (rune boundaries), byte truncations; a share of them as imported module
    pf = []
    for n, t in corp + gens:
        for p in prefixes(t, rng, 10 ** 9 if (len(t) < 4000 or not quick) else 600):
            pf.append({"main": p, "mods": {}, "stream": "prefix:" + n})
            if not quick or rng.random() < 0.25:
                c = as_import(p)
                c["stream"] = "prefix-import:" + n
                pf.append(c)
        for p in byte_truncations(t, rng, 10):
            pf.append({"main": p, "mods": {}, "stream": "byte-truncation:" + n})
    yield "prefixes", pf

    # single-token edits
    base = [(n, t) for n, t in corp + gens if len(t) < 8000]
    spans = token_spans([t.decode("utf-8", "replace") for _, t in base])
    ed = []
    for (n, t), sp in zip(base, spans):
        for op, e in token_edits(t, sp, toks, rng, 250 if quick else 2000):
            ed.append({"main": e, "mods": {k: v for k, v in mods_all.items() if k != n}, "stream": f"edit-{op}:{n}"})
            if rng.random() < (0.15 if quick else 0.5):
                c = as_import(e)
                c["stream"] = f"edit-{op}-import:{n}"
                ed.append(c)
    yield "token-edits", ed

    # token soup, structured soup, arbitrary bytes
    n_soup = 6000 if quick else 70000
    sp = []
    for _ in range(n_soup):
        sp.append({"main": token_soup(rng, toks, rng.randrange(1, 40)), "mods": {}, "stream": "soup"})
        sp.append({"main": structured_soup(rng, toks, rng.randrange(1, 30)), "mods": {}, "stream": "structured-soup"})
        sp.append({"main": arbitrary_bytes(rng, rng.randrange(0, 80)), "mods": {}, "stream": "bytes"})
        if rng.random() < 0.2:
            c = as_import(structured_soup(rng, toks, rng.randrange(1, 30)))
            c["stream"] = "structured-soup-import"
            sp.append(c)
    yield "soup", sp

    # a lexer error directly after every token kind in every position class
    yield "lex-error", [{"main": t, "mods": {}, "stream": "lex-error-after-token"} for t in lex_error_after_token(toks)]

    # every name the host modules know (and one they do not), asked for under every import kind, in both import forms
    hi = []
    for mod in ("net", "triggers", "templates", "testing", "veriftemplates", "nomod"):
        for name in ("ping", "http", "HttpResponse", "minute", "FooFeature", "Trio", "assert_eq", "any_func", "any_list", "nope"):
            for kind in ("", "type ", "templ ", "trigger "):
                hi.append({"main": b(f"import {kind}{name} from {mod};\nfn main() {{ }}\n"), "mods": {}, "stream": "host-import"})
                hi.append({"main": b(f"import {{ {kind}{name}, {kind}nope }} from {mod};\nfn main() {{ }}\n"), "mods": {}, "stream": "host-import"})
    yield "host-imports", hi

    # grammar-directed programs (syntactically valid, semantically arbitrary)
    yield "wild", wild_cases(rng, 8000 if quick else 120000)

    # 64 KiB inputs
    bg = []
    for n, t in big_inputs(rng, toks, corp):
        bg.append({"main": t, "mods": {}, "stream": "big:" + n})
        c = as_import(t)
        c["stream"] = "big-import:" + n
        bg.append(c)
    yield "big", bg


# ---------------------------------------------------------------------------
# grammar-directed programs: syntactically valid, semantically arbitrary (stress for the analyzer)
# ---------------------------------------------------------------------------

class Wild:
    """Random programs that follow grammar.ebnf but ignore scoping and typing on purpose: names come from a
    small pool so that definitions, uses, duplicates, shadowing and misuse (calling a type, spawning a
    variable, importing twice, returning outside of functions' types …) all occur."""

    NAMES = ["a", "b", "c", "f", "g", "h", "main", "x", "y", "T", "U", "println", "throw", "exit", "assert", "e", "i",
             "time", "fa", "_", "_u", "len", "push", "join", "unwrap", "to_string", "keys"]
    TYPES = ["int", "float", "bool", "str", "null", "any", "range", "T", "U", "unknown_t", "_"]
    MODS = ["m", "lib", "main", "testing", "nosuch"]
    INFIX = ["+", "-", "*", "/", "%", "**", "<<", ">>", "|", "&", "^", "||", "&&", "==", "!=", "<", "<=", ">", ">="]
    ASSIGN = ["=", "+=", "-=", "*=", "/=", "%=", "**=", "<<=", ">>=", "|=", "&=", "^="]

    def __init__(self, rng, depth=4):
        self.r = rng
        self.max = depth

    def name(self):
        return self.r.choice(self.NAMES)

    def ty(self, d=0):
        r = self.r
        c = r.random()
        if d >= 3 or c < 0.45:
            return r.choice(self.TYPES)
        if c < 0.55:
            return "[" + self.ty(d + 1) + "]"
        if c < 0.65:
            return "?" + self.ty(d + 1)
        if c < 0.70:
            return "{ ? }"
        if c < 0.80:
            fields = ", ".join(f"{r.choice(['a', 'b', 'c', chr(34) + 'k' + chr(34)])}: {self.ty(d + 1)}" for _ in range(r.randrange(0, 3)))
            return "{ " + fields + " }"
        if c < 0.92:
            ps = ", ".join(f"{self.name()}: {self.ty(d + 1)}" for _ in range(r.randrange(0, 3)))
            ret = (" -> " + self.ty(d + 1)) if r.random() < 0.6 else ""
            return f"fn({ps}){ret}"
        return "$S"

    def lit(self):
        r = self.r
        return r.choice(["0", "1", "42", "1.5", "true", "false", '"s"', "''", "null", "none", "9223372036854775807", "2f"])

    def expr(self, d=0):
        r = self.r
        c = r.random()
        if d >= self.max or c < 0.22:
            return r.choice([self.lit(), self.name(), self.name(), "$S"])
        d1 = d + 1
        if c < 0.34:
            return f"{self.expr(d1)} {r.choice(self.INFIX)} {self.expr(d1)}"
        if c < 0.38:
            return r.choice(["-", "!", "?"]) + self.expr(d1)
        if c < 0.42:
            return "(" + self.expr(d1) + ")"
        if c < 0.52:
            args = ", ".join(self.expr(d1) for _ in range(r.randrange(0, 3)))
            return f"{self.expr(d1) if r.random() < 0.3 else self.name()}({args})"
        if c < 0.55:
            args = ", ".join(self.expr(d1) for _ in range(r.randrange(0, 3)))
            return f"spawn {self.name()}({args})"
        if c < 0.60:
            return f"{self.expr(d1)}[{self.expr(d1)}]"
        if c < 0.66:
            return f"{self.expr(d1)}{r.choice(['.', '.', '->', '~>'])}{self.name()}"
        if c < 0.69:
            return f"{self.expr(d1)} as {self.ty()}"
        if c < 0.72:
            return f"{self.expr(d1)}..{'=' if r.random() < 0.3 else ''}{self.lit()}"
        if c < 0.76:
            return "[" + ", ".join(self.expr(d1) for _ in range(r.randrange(0, 3))) + "]"
        if c < 0.80:
            if r.random() < 0.2:
                return "new { ? }"
            return "new { " + ", ".join(f"{r.choice(['a', 'b', chr(34) + 'k' + chr(34)])}: {self.expr(d1)}" for _ in range(r.randrange(0, 3))) + " }"
        if c < 0.84:
            ps = ", ".join(f"{self.name()}: {self.ty()}" for _ in range(r.randrange(0, 3)))
            ret = (" -> " + self.ty()) if r.random() < 0.5 else ""
            return f"fn({ps}){ret} {self.block(d1)}"
        if c < 0.88:
            els = ""
            if r.random() < 0.6:
                els = " else " + (self.block(d1) if r.random() < 0.7 else f"if {self.expr(d1)} {self.block(d1)}")
            return f"if {self.expr(d1)} {self.block(d1)}{els}"
        if c < 0.92:
            arms = []
            for _ in range(r.randrange(0, 3)):
                pats = " | ".join(self.lit() for _ in range(r.randrange(1, 3)))
                arms.append(f"{pats} => {self.expr(d1)}")
            if r.random() < 0.7:
                arms.append(f"_ => {self.expr(d1)}")
            return f"match {self.expr(d1)} {{ " + ", ".join(arms) + " }"
        if c < 0.95:
            return f"try {self.block(d1)} catch {self.name()} {self.block(d1)}"
        if c < 0.98:
            return f"{self.name()} {r.choice(self.ASSIGN)} {self.expr(d1)}"
        return self.block(d1)

    def stmt(self, d):
        r = self.r
        c = r.random()
        d1 = d + 1
        if c < 0.25:
            ann = f": {self.ty()}" if r.random() < 0.4 else ""
            return f"let {self.name()}{ann} = {self.expr(d1)};"
        if c < 0.33:
            return "return" + (" " + self.expr(d1) if r.random() < 0.7 else "") + ";"
        if c < 0.37:
            return r.choice(["break;", "continue;"])
        if c < 0.41:
            return f"loop {self.block(d1)}"
        if c < 0.45:
            return f"while {self.expr(d1)} {self.block(d1)}"
        if c < 0.50:
            return f"for {self.name()} in {self.expr(d1)} {self.block(d1)}"
        if c < 0.53:
            return f"type {r.choice(['T', 'U', 'V'])} = {self.ty()};"
        if c < 0.56:
            args = ", ".join(self.expr(d1) for _ in range(r.randrange(0, 3)))
            return f"trigger {self.name()} {r.choice(['on', 'at', 'in'])} {self.name()}({args});"
        e = self.expr(d1)
        return e + (";" if r.random() < 0.9 else "")

    def block(self, d):
        r = self.r
        if d >= self.max + 1:
            return "{ }"
        stmts = [self.stmt(d) for _ in range(r.randrange(0, 4))]
        tail = (" " + self.expr(d + 1)) if r.random() < 0.3 else ""
        return "{ " + " ".join(stmts) + tail + " }"

    def fn(self, name=None):
        r = self.r
        ps = ", ".join(f"{self.name()}: {self.ty()}" for _ in range(r.randrange(0, 3)))
        ret = (" -> " + self.ty()) if r.random() < 0.5 else ""
        return f"fn {name or self.name()}({ps}){ret} {self.block(1)}"

    def item(self):
        r = self.r
        c = r.random()
        if c < 0.12:
            what = r.choice(["", "type ", "templ ", "trigger "])
            if r.random() < 0.5:
                return f"import {what}{self.name()} from {r.choice(self.MODS)};"
            names = ", ".join((r.choice(["", "type ", "templ "]) + self.name()) for _ in range(r.randrange(1, 3)))
            return f"import {{ {names} }} from {r.choice(self.MODS)};"
        if c < 0.22:
            return f"{r.choice(['', 'pub '])}type {r.choice(['T', 'U', 'V'])} = {self.ty()};"
        if c < 0.36:
            ann = f": {self.ty()}" if r.random() < 0.4 else ""
            return f"{r.choice(['', 'pub '])}let {self.name()}{ann} = {self.expr(1)};"
        if c < 0.42:
            return f"$S = {self.ty()};"
        if c < 0.48:
            caps = " with { a, b }" if r.random() < 0.4 else ""
            fns = " ".join(self.fn() for _ in range(r.randrange(0, 3)))
            return f"impl {self.name()}{caps} for $S {{ {fns} }}"
        if c < 0.54:
            items = ", ".join(r.choice([self.name(), f"trigger {r.choice(['on', 'at'])} {self.name()}({self.expr(2)})"])
                              for _ in range(r.randrange(1, 3)))
            return f"#[{items}] {r.choice(['', 'pub ', 'event '])}{self.fn()}"
        return r.choice(["", "", "pub ", "event "]) + self.fn()

    def program(self):
        r = self.r
        items = [self.item() for _ in range(r.randrange(0, 6))]
        if r.random() < 0.8:
            items.append(self.fn("main") if r.random() < 0.3 else "fn main() " + self.block(1))
        r.shuffle(items)
        return b("\n".join(items) + "\n")


WILD_MODS = {"m": b"pub fn a() {}\npub fn f(x: int) -> int { x }\npub type T = int;\npub let b = 1;\nfn main() {}\n",
             "lib": b"import a from m;\npub fn g() { a(); }\nfn h() {}\ntype U = str;\nfn main() {}\n"}


def wild_cases(rng, n):
    out = []
    for _ in range(n):
        w = Wild(rng, depth=rng.choice([2, 3, 4]))
        p = w.program()
        if rng.random() < 0.15:
            out.append({"main": b("import a from wild;\nfn main() { a(); }\n"), "mods": dict(WILD_MODS, wild=p), "stream": "wild-import"})
        else:
            out.append({"main": p, "mods": WILD_MODS, "stream": "wild"})
    return out


def locate_index(text, idx):
    """(line, column) of the rune index `idx` of `text` (str): 1 + newlines before, 1 + runes since the last newline."""
    pre = text[:idx]
    return pre.count("\n") + 1, idx - (pre.rfind("\n") + 1) + 1
