"""Type-directed generator of homescript programs in the modelled core fragment.

Every random choice comes from the `random.Random` passed in. The generator stays
inside the fragment the partial theorems cover (DESIGN.md §7a): loop exits and
`return` only in statement position, `throw` only directly inside a `try` of the
same function or never caught at all, no captured variables, at most one
effectful argument per call, `null`-typed expressions only as statements,
global initialisers that cannot fail, integer `**` with small operands.

Since the core models cover them (Hms/Core/Sem.lean `castVal`, `strMember`, `floatMember`, `listSort`, `goPow`) the
generator also produces (`allow_ext`): `as` between int / float / bool, float `**` with the exponents 0, 1, 2, 3,
float members (round, trunc, is_int, to_string), string members (to_upper, to_lower, replace, contains, starts_with,
repeat with a small count, split), parse_int / parse_float / parse_bool of literals that parse, `sort` of int lists.
"""
import re

INT_POOL = [0, 1, 2, 3, 5, 7, 10, 42, 100, -1, -2, -7, 255, 2**31 - 1, 2**31, -(2**31), 2**53, 2**62,
            2**63 - 1, -(2**63) + 1]
SMALL_INTS = [0, 1, 2, 3, 4, 5, 7]
STR_POOL = ["", "a", "ab", "hello", "x y", "Z9", "0", "-"]
FLOAT_POOL = ["0.5", "1.5", "2.25", "10.0", "3.0", "0.125", "100.75"]

T_INT, T_BOOL, T_STR, T_FLOAT, T_LINT, T_LSTR, T_OBJ, T_OINT = "int", "bool", "str", "float", "[int]", "[str]", "{ a: int, b: str }", "?int"
SCALARS = [T_INT, T_BOOL, T_STR]
ALL_TYPES = [T_INT, T_BOOL, T_STR, T_FLOAT, T_LINT, T_LSTR, T_OBJ, T_OINT]


def lit_int(v):
    if v < 0:
        if v == -(2**63):
            return "(-9223372036854775807 - 1)"
        return f"(-{-v})"
    return str(v)


EFFECT_RE = re.compile(r"[A-Za-z_]\w*\(|\{")


class Fn:
    def __init__(self, name, params, ret, may_throw=False, effectful=True):
        self.name, self.params, self.ret = name, params, ret
        self.may_throw = may_throw
        self.effectful = effectful


class Gen:
    def __init__(self, rng, max_depth=3, allow_throw=True, allow_float=True, allow_loops=True,
                 allow_lambda=True, fault_rate=0.04, allow_trigger=False, allow_singletons=False, allow_ext=True):
        self.r = rng
        self.max_depth = max_depth
        self.allow_throw = allow_throw
        self.allow_float = allow_float
        self.allow_loops = allow_loops
        self.allow_lambda = allow_lambda
        self.fault_rate = fault_rate          # probability of operands that may fault (x / 0, l[9])
        self.allow_trigger = allow_trigger
        self.use_trigger = False
        self.allow_singletons = allow_singletons
        self.allow_ext = allow_ext            # casts between scalars, float **, string / float members, sort
        self.singletons = {}                  # `$Name` -> type; readable everywhere, never assigned to directly (finding S1)
        self.host = None                      # `$Name` -> python value the host provides (None: the program has no singletons)
        self.fns = []
        self.globals = {}                     # name -> type
        self.counter = 0
        self.features = set()

    # ---- names / scopes ---------------------------------------------------
    def fresh(self, prefix="v"):
        self.counter += 1
        return f"{prefix}{self.counter}"

    def vars_of(self, scopes, ty, assignable=False):
        if getattr(self, "no_vars", False):
            return []
        out = []
        seen = set()
        for sc in reversed(scopes):
            for name, (t, writable) in sc.items():
                if name in seen:
                    continue
                seen.add(name)
                if t == ty and (writable or not assignable):
                    out.append(name)
        if not assignable or True:
            for g, t in self.globals.items():
                if t == ty and g not in seen:
                    out.append(g)
        if not assignable:
            # `$Name` is an expression; its fields / elements may be updated through it, the identifier itself is not assigned
            out += [sn for sn, t in self.singletons.items() if t == ty]
        return out

    # ---- expressions ----------------------------------------------------------
    def pure_int(self, scopes):
        """An int expression that cannot fault and has no effects."""
        vs = self.vars_of(scopes, T_INT)
        c = self.r.random()
        if vs and c < 0.5:
            return self.r.choice(vs)
        if c < 0.8:
            return lit_int(self.r.choice(INT_POOL))
        a, b = self.pure_atom_int(scopes), self.pure_atom_int(scopes)
        return f"({a} {self.r.choice(['+', '-', '*', '|', '&', '^'])} {b})"

    def pure_atom_int(self, scopes):
        vs = self.vars_of(scopes, T_INT)
        if vs and self.r.random() < 0.5:
            return self.r.choice(vs)
        return lit_int(self.r.choice(INT_POOL))

    def bin(self, lt, rt, op, scopes, d, pure):
        """(l op r). When l reads a list element or an object field, r is generated without calls and effects: an
        assignment to that cell while r is evaluated changes the operand already on the VM's stack (open finding V38)."""
        left = self.expr(lt, scopes, d, pure)
        right = self.expr(rt, scopes, d, pure or "[" in left or "." in left)
        return f"({left} {op} {right})"

    def ext_expr(self, ty, scopes, d, pure):
        """Casts between scalars and members of strings / floats (none of them faults or throws: the parsed
        strings are literals that parse, `repeat` counts are small, the cast operands stay far inside int64).
        None: nothing for this type."""
        r = self.r
        sa = lambda: self.atom(T_STR, scopes)
        slit = lambda: '"' + r.choice(STR_POOL + [",", " ", "l", "ab"]) + '"'
        if ty == T_INT:
            k = r.randrange(5)
            if k == 0:
                self.features.add("cast:float->int")
                return f"({self.expr(T_FLOAT, scopes, d, pure)} as int)"
            if k == 1:
                self.features.add("cast:bool->int")
                return f"({self.expr(T_BOOL, scopes, d, pure)} as int)"
            if k == 2:
                m = r.choice(["round", "trunc"])
                self.features.add("float." + m)
                return f"({self.expr(T_FLOAT, scopes, d, pure)}).{m}()"
            if k == 3:
                self.features.add("str.parse_int")
                return '"' + r.choice(["0", "7", "-12", "+5", "0042", "9223372036854775807", "-9223372036854775808"]) + '".parse_int()'
            self.features.add("cast:int->int")
            return f"({self.expr(T_INT, scopes, d, pure)} as int)"
        if ty == T_BOOL:
            k = r.randrange(6)
            if k == 0:
                self.features.add("cast:int->bool")
                return f"({self.expr(T_INT, scopes, d, pure)} as bool)"
            if k == 1:
                self.features.add("cast:float->bool")
                return f"({self.expr(T_FLOAT, scopes, d, pure)} as bool)"
            if k == 2:
                self.features.add("str.contains")
                return f"{sa()}.contains({slit()})"
            if k == 3:
                self.features.add("str.starts_with")
                return f"{sa()}.starts_with({slit()})"
            if k == 4:
                self.features.add("float.is_int")
                return f"({self.expr(T_FLOAT, scopes, d, pure)}).is_int()"
            self.features.add("str.parse_bool")
            return '"' + r.choice(["true", "false", "1", "0", "T", "False"]) + '".parse_bool()'
        if ty == T_STR:
            k = r.randrange(5)
            if k == 0:
                m = r.choice(["to_upper", "to_lower"])
                self.features.add("str." + m)
                return f"({self.expr(T_STR, scopes, d, pure)}).{m}()"
            if k == 1:
                self.features.add("str.replace")
                return f"{sa()}.replace({slit()}, {slit()})"
            if k == 2:
                self.features.add("float.to_string")
                return f"({self.expr(T_FLOAT, scopes, d, pure)}).to_string()"
            if k == 3:
                self.features.add("str.repeat")
                return f"{sa()}.repeat({r.choice([0, 1, 2, 3])})"
            self.features.add("str.split.join")
            return f"{sa()}.split({slit()}).join(\"/\")"
        if ty == T_FLOAT and self.allow_float:
            k = r.randrange(4)
            if k == 0:
                self.features.add("cast:int->float")
                return f"(({self.expr(T_INT, scopes, d, pure)} % 1000) as float)"
            if k == 1:
                self.features.add("float**")
                return f"({self.atom(T_FLOAT, scopes)} ** {r.choice(['2.0', '2.0', '0.0', '1.0', '3.0'])})"
            if k == 2:
                self.features.add("cast:bool->float")
                return f"({self.expr(T_BOOL, scopes, d, pure)} as float)"
            self.features.add("str.parse_float")
            return '"' + r.choice(["0.5", "2", "-1.25", "10.0", "+3.125"]) + '".parse_float()'
        if ty == T_LSTR:
            self.features.add("str.split")
            return f"{sa()}.split({slit()})"
        return None

    def expr(self, ty, scopes, depth, pure=False):
        """Expression of type ty. pure=True: no calls to user functions, no faults, no effects."""
        r = self.r
        if depth <= 0:
            return self.atom(ty, scopes)
        d = depth - 1
        if self.allow_ext and (self.allow_float or ty in (T_STR, T_LSTR)) and r.random() < 0.07:
            e = self.ext_expr(ty, scopes, d, pure)
            if e is not None:
                return e
        c = r.random()
        if ty == T_INT:
            if c < 0.18:
                return self.atom(ty, scopes)
            if c < 0.50:
                op = r.choice(["+", "-", "*", "+", "-", "|", "&", "^"])
                self.features.add("int" + op)
                return self.bin(T_INT, T_INT, op, scopes, d, pure)
            if c < 0.58:
                op = r.choice(["/", "%"])
                self.features.add("int" + op)
                if not pure and r.random() < self.fault_rate:
                    return self.bin(T_INT, T_INT, op, scopes, d, pure)      # may be zero: fatal ValueError
                rhs = lit_int(r.choice([1, 2, 3, 7, -1, -2, 10]))
                return f"({self.expr(T_INT, scopes, d, pure)} {op} {rhs})"
            if c < 0.64:
                op = r.choice(["<<", ">>"])
                self.features.add("int" + op)
                if not pure and r.random() < self.fault_rate:
                    return self.bin(T_INT, T_INT, op, scopes, d, pure)
                cnt = str(r.choice([0, 1, 2, 5, 31, 63, 64, 65, 100]))
                return f"({self.expr(T_INT, scopes, d, pure)} {op} {cnt})"
            if c < 0.67:
                self.features.add("int**")
                return f"({lit_int(r.choice([0, 1, 2, 3, -2, 5, -3, 7]))} ** {r.choice([0, 1, 2, 3, 4, 5, 10])})"
            if c < 0.71:
                self.features.add("neg")
                return f"(-{self.expr(T_INT, scopes, d, pure)})"
            if c < 0.74:
                self.features.add("bitnot")
                return f"(!{self.expr(T_INT, scopes, d, pure)})"
            if c < 0.80:
                self.features.add("if-expr")
                return f"(if {self.expr(T_BOOL, scopes, d, pure)} {{ {self.expr(T_INT, scopes, d, pure)} }} else {{ {self.expr(T_INT, scopes, d, pure)} }})"
            if c < 0.84:
                self.features.add("match-expr")
                return (f"(match {self.expr(T_INT, scopes, d, pure)} {{ {r.choice(SMALL_INTS)} => {self.expr(T_INT, scopes, d, pure)}, "
                        f"{r.choice([8, 9, 6])} | {r.choice([11, 12])} => {self.expr(T_INT, scopes, d, pure)}, _ => {self.expr(T_INT, scopes, d, pure)}, }})")
            if c < 0.88:
                self.features.add("list.len")
                return f"{self.expr(T_LINT, scopes, 0, pure)}.len()"
            if c < 0.91:
                self.features.add("str.len")
                return f"{self.atom(T_STR, scopes)}.len()"
            if c < 0.94:
                ls = self.vars_of(scopes, T_LINT)
                if ls:
                    self.features.add("index")
                    l = r.choice(ls)
                    if not pure and r.random() < self.fault_rate:
                        return f"{l}[{self.expr(T_INT, scopes, d, pure)}]"
                    # in-range index by construction is not known statically: guard with length
                    return f"(if {l}.len() > 0 {{ {l}[{r.choice([0, -1])}] }} else {{ 0 }})"
                return self.atom(ty, scopes)
            if c < 0.96:
                os_ = self.vars_of(scopes, T_OBJ)
                if os_:
                    self.features.add("obj.field")
                    return f"{r.choice(os_)}.a"
                return self.atom(ty, scopes)
            if c < 0.98:
                self.features.add("block-expr")
                v = self.fresh("t")
                return f"{{ let {v} = {self.expr(T_INT, scopes, d, pure)}; {v} + 1 }}"
            if not pure:
                cand = [f for f in self.fns if f.ret == T_INT and not f.may_throw]
                if cand:
                    self.features.add("call")
                    return self.call(r.choice(cand), scopes, d)
            return self.atom(ty, scopes)
        if ty == T_BOOL:
            if c < 0.2:
                return self.atom(ty, scopes)
            if c < 0.5:
                op = r.choice(["<", "<=", ">", ">=", "==", "!="])
                self.features.add("cmp" + op)
                return self.bin(T_INT, T_INT, op, scopes, d, pure)
            if c < 0.6:
                op = r.choice(["==", "!="])
                self.features.add("streq")
                return self.bin(T_STR, T_STR, op, scopes, d, pure)
            if c < 0.78:
                op = r.choice(["&&", "||"])
                self.features.add("logic" + op)
                return self.bin(T_BOOL, T_BOOL, op, scopes, d, pure)
            if c < 0.84:
                op = r.choice(["|", "&", "^", "==", "!="])
                self.features.add("boolbit" + op)
                return self.bin(T_BOOL, T_BOOL, op, scopes, d, pure)
            if c < 0.92:
                self.features.add("not")
                return f"(!{self.expr(T_BOOL, scopes, d, pure)})"
            if c < 0.96:
                self.features.add("list.contains")
                return f"{self.expr(T_LINT, scopes, 0, pure)}.contains({self.pure_atom_int(scopes)})"
            if self.allow_float:
                self.features.add("floatcmp")
                return self.bin(T_FLOAT, T_FLOAT, r.choice(['<', '>', '<=', '>=']), scopes, d, pure)
            return self.atom(ty, scopes)
        if ty == T_STR:
            if c < 0.3:
                return self.atom(ty, scopes)
            if c < 0.6:
                self.features.add("concat")
                return self.bin(T_STR, T_STR, "+", scopes, d, pure)
            if c < 0.8:
                self.features.add("int.to_string")
                return f"({self.expr(T_INT, scopes, d, pure)}).to_string()"
            if c < 0.9:
                self.features.add("if-expr")
                return f"(if {self.expr(T_BOOL, scopes, d, pure)} {{ {self.expr(T_STR, scopes, d, pure)} }} else {{ {self.expr(T_STR, scopes, d, pure)} }})"
            if c < 0.95:
                os_ = self.vars_of(scopes, T_OBJ)
                if os_:
                    return f"{r.choice(os_)}.b"
            ls = self.vars_of(scopes, T_LSTR)
            if ls:
                self.features.add("join")
                return f"{r.choice(ls)}.join(\",\")"
            return self.atom(ty, scopes)
        if ty == T_FLOAT:
            if c < 0.5 or not self.allow_float:
                return self.atom(ty, scopes)
            op = r.choice(["+", "-", "*"])
            self.features.add("float" + op)
            return f"({self.atom(T_FLOAT, scopes)} {op} {self.atom(T_FLOAT, scopes)})"
        if ty == T_LINT:
            if c < 0.5:
                return self.atom(ty, scopes)
            n = r.randrange(0, 4)
            self.features.add("listlit")
            if n == 0:
                return self.atom(ty, scopes)
            return "[" + ", ".join(self.expr(T_INT, scopes, d, pure) for _ in range(n)) + "]"
        if ty == T_OINT:
            if c < 0.4:
                return self.atom(ty, scopes)
            if c < 0.8:
                self.features.add("some")
                return f"(?{self.expr(T_INT, scopes, d, pure)})"
            ls = self.vars_of(scopes, T_LINT)
            if ls and not pure:
                self.features.add("list.last")
                return f"{r.choice(ls)}.last()"
            return self.atom(ty, scopes)
        return self.atom(ty, scopes)

    def atom(self, ty, scopes):
        r = self.r
        vs = self.vars_of(scopes, ty)
        if vs and r.random() < 0.6:
            return r.choice(vs)
        if ty == T_INT:
            return lit_int(r.choice(INT_POOL))
        if ty == T_BOOL:
            return r.choice(["true", "false"])
        if ty == T_STR:
            return '"' + r.choice(STR_POOL) + '"'
        if ty == T_FLOAT:
            return r.choice(FLOAT_POOL)
        if ty == T_LINT:
            n = r.randrange(0, 4)
            if n == 0 and vs:
                return r.choice(vs)
            return "[" + ", ".join(lit_int(r.choice(INT_POOL)) for _ in range(max(n, 1))) + "]"
        if ty == T_LSTR:
            return "[" + ", ".join('"' + r.choice(STR_POOL) + '"' for _ in range(r.randrange(1, 4))) + "]"
        if ty == T_OBJ:
            return f"new {{ a: {lit_int(r.choice(INT_POOL))}, b: \"{r.choice(STR_POOL)}\" }}"
        if ty == T_OINT:
            return r.choice(["none", f"(?{lit_int(r.choice(INT_POOL))})"]) if False else f"(?{lit_int(r.choice(INT_POOL))})"
        raise ValueError(ty)

    def call(self, fn, scopes, depth):
        """Call with at most one effectful argument (the others are pure atoms)."""
        eff = self.r.randrange(len(fn.params)) if fn.params else -1
        args = [None] * len(fn.params)
        if eff >= 0 and depth > 0 and self.r.random() < 0.5:
            args[eff] = self.expr(fn.params[eff][1], scopes, depth - 1, pure=False)
        # the siblings of an argument that calls or runs statements read no variable: what they read could be
        # written by that argument, and the order of argument evaluation is the open finding V13
        self.no_vars = args[eff] is not None and EFFECT_RE.search(args[eff]) is not None if eff >= 0 else False
        try:
            for i, (_, pty) in enumerate(fn.params):
                if args[i] is None:
                    args[i] = self.expr(pty, scopes, 0, pure=True) if pty in (T_INT, T_BOOL, T_STR, T_FLOAT) else self.atom(pty, scopes)
        finally:
            self.no_vars = False
        return f"{fn.name}({', '.join(args)})"

    # ---- statements -------------------------------------------------------------
    def block(self, scopes, depth, ctx, n=None):
        """List of statement lines. ctx: dict(break_ok, in_try, ret, may_throw_ok)"""
        scopes = scopes + [{}]
        lines = []
        n = n if n is not None else self.r.randrange(1, 5)
        for _ in range(n):
            st = self.stmt(scopes, depth, ctx)
            if st[-1].rstrip().endswith("}") and st[0].lstrip().startswith(("if ", "try ")):
                # `if c { } (x)` would parse as a call of the if-expression: always terminate
                st[-1] = st[-1] + ";"
            lines += st
        return lines

    def stmt(self, scopes, depth, ctx):
        r = self.r
        d = max(depth - 1, 0)
        c = r.random()
        ind = lambda ls: ["    " + l for l in ls]
        if c < 0.22:
            ty = r.choice([T_INT, T_INT, T_BOOL, T_STR, T_LINT, T_OBJ, T_OINT] + ([T_FLOAT] if self.allow_float else []))
            name = self.fresh()
            e = self.expr(ty, scopes, depth)
            if len(scopes) > 2 and r.random() < 0.25:
                # shadow a local of an enclosing scope or a global (never a loop counter)
                outer = [n for sc in scopes[:-1] for n, (t, w) in sc.items() if w and not n.startswith("c_")]
                if outer:
                    name = r.choice(outer)
                    self.features.add("shadow")
            ann = f": {ty}" if r.random() < 0.3 and ty != T_OBJ else ""
            scopes[-1][name] = (ty, True)
            self.features.add("let")
            return [f"let {name}{ann} = {e};"]
        if c < 0.36:
            self.features.add("println")
            k = r.randrange(1, 3)
            tys = [r.choice([T_INT, T_BOOL, T_STR, T_LINT, T_OINT, T_OBJ] + ([T_FLOAT] if self.allow_float else [])) for _ in range(k)]
            eff = r.randrange(k)
            args = [None] * k
            args[eff] = self.expr(tys[eff], scopes, d, pure=False)
            self.no_vars = EFFECT_RE.search(args[eff]) is not None          # see call(): V13
            try:
                for i, t in enumerate(tys):
                    if args[i] is None:
                        args[i] = self.expr(t, scopes, 0, pure=True)
            finally:
                self.no_vars = False
            return [f"{r.choice(['println', 'println', 'print'])}({', '.join(args)});"]
        if c < 0.48:
            # assignment to a variable / element / field
            vs = self.vars_of(scopes, T_INT, assignable=True)
            vs = [v for v in vs if not v.startswith("c_")]
            ch = r.random()
            if vs and ch < 0.5:
                self.features.add("assign")
                op = r.choice(["=", "+=", "-=", "*=", "|=", "&=", "^="])
                return [f"{r.choice(vs)} {op} {self.expr(T_INT, scopes, d)};"]
            ls = self.vars_of(scopes, T_LINT)
            if ls and ch < 0.75:
                l = r.choice(ls)
                self.features.add("index-assign")
                # the right-hand side is pure: a call that resizes the list between the evaluation of the
                # element designator and the store is outside the modelled fragment
                if r.random() < self.fault_rate:
                    return [f"{l}[{self.pure_atom_int(scopes)}] = {self.expr(T_INT, scopes, d, pure=True)};"]
                return [f"if {l}.len() > 0 {{ {l}[{r.choice([0, -1])}] {r.choice(['=', '+='])} {self.expr(T_INT, scopes, d, pure=True)}; }}"]
            os_ = self.vars_of(scopes, T_OBJ)
            if os_:
                self.features.add("field-assign")
                return [f"{r.choice(os_)}.a {r.choice(['=', '+=', '-='])} {self.expr(T_INT, scopes, d, pure=True)};"]
            ss = [v for v in self.vars_of(scopes, T_STR, assignable=True)]
            if ss:
                # no variable on the right-hand side: `s += s` in a loop grows exponentially
                rhs = '"' + r.choice(STR_POOL) + '"'
                if r.random() < 0.5:
                    rhs = f"({rhs} + ({self.pure_atom_int(scopes)}).to_string())"
                return [f"{r.choice(ss)} {r.choice(['=', '+='])} {rhs};"]
            return [f"println({self.expr(T_INT, scopes, d)});"]
        if c < 0.56:
            ls = self.vars_of(scopes, T_LINT)
            if ls:
                l = r.choice(ls)
                m = r.choice(["push", "push", "pop", "push_front", "pop_front", "insert", "remove"] + (["sort"] if self.allow_ext else []))
                shared = l in scopes[0] or not any(l in sc for sc in scopes)   # a parameter (alias of the caller's list) or a global
                if m in ("push", "push_front", "insert") and (ctx.get("loop_depth", 0) >= 2 or (ctx.get("in_fn") and shared)):
                    # growing a list inside nested loops over it blows up exponentially; a function that grows a list of its
                    # caller may be called from such loops
                    m = "pop"
                self.features.add("list." + m)
                if m == "sort":
                    return [f"{l}.sort();"]
                if m in ("push", "push_front"):
                    return [f"{l}.{m}({self.expr(T_INT, scopes, d)});"]
                if m in ("pop", "pop_front"):
                    return [f"println({l}.{m}());"]
                if m == "insert":
                    if r.random() < self.fault_rate:
                        return [f"{l}.insert({self.pure_atom_int(scopes)}, {self.pure_atom_int(scopes)});"]
                    return [f"{l}.insert({r.choice([0, -1]) if r.random() < 0.5 else 0}, {self.pure_atom_int(scopes)});"] if False else [f"{l}.insert(0, {self.pure_atom_int(scopes)});"]
                if r.random() < self.fault_rate:
                    return [f"{l}.remove({self.pure_atom_int(scopes)});"]
                return [f"if {l}.len() > 0 {{ {l}.remove({r.choice([0, -1])}); }}"]
            return [f"println({self.expr(T_STR, scopes, d)});"]
        if c < 0.68 and depth > 0:
            self.features.add("if-stmt")
            out = [f"if {self.expr(T_BOOL, scopes, d)} {{"] + ind(self.block(scopes, d, ctx)) + ["}"]
            if r.random() < 0.5:
                out[-1] = "} else {"
                out += ind(self.block(scopes, d, ctx)) + ["}"]
            return out
        if c < 0.80 and depth > 0 and self.allow_loops:
            kind = r.choice(["while", "loop", "for-range", "for-list", "for-str"])
            self.features.add(kind)
            inner = dict(ctx, break_ok=True, loop_depth=ctx.get("loop_depth", 0) + 1)
            if kind == "while":
                cn = self.fresh("c_")
                scopes[-1][cn] = (T_INT, False)
                k = r.randrange(0, 5)
                body = self.block(scopes, d, inner)
                return [f"let {cn} = 0;", f"while {cn} < {k} {{", f"    {cn} += 1;"] + ind(body) + ["}"]
            if kind == "loop":
                cn = self.fresh("c_")
                scopes[-1][cn] = (T_INT, False)
                k = r.randrange(0, 5)
                body = self.block(scopes, d, inner)
                return [f"let {cn} = 0;", "loop {", f"    if {cn} >= {k} {{ break; }}", f"    {cn} += 1;"] + ind(body) + ["}"]
            it = self.fresh("i")
            if kind == "for-range":
                a, b = r.choice([0, 1, 3, -2]), r.choice([0, 2, 4, -3])
                rng = f"{lit_int(a)}..{'=' if r.random() < 0.3 else ''}{lit_int(b)}"
                body = self.block(scopes + [{it: (T_INT, False)}], d, inner)
                return [f"for {it} in {rng} {{"] + ind(body) + ["}"]
            if kind == "for-list":
                ls = self.vars_of(scopes, T_LINT)
                src = r.choice(ls) if ls and r.random() < 0.7 else self.atom(T_LINT, scopes)
                body = self.block(scopes + [{it: (T_INT, False)}], d, inner)
                return [f"for {it} in {src} {{"] + ind(body) + ["}"]
            body = self.block(scopes + [{it: (T_STR, False)}], d, inner)
            return [f"for {it} in \"{r.choice(['abc', '', 'xy', 'q'])}\" {{"] + ind(body) + ["}"]
        if c < 0.84 and ctx.get("break_ok"):
            self.features.add("break/continue")
            kw = r.choice(["break", "continue"])
            return [f"if {self.expr(T_BOOL, scopes, 0, pure=True)} {{ {kw}; }}"]
        if c < 0.88:
            self.features.add("return-in-try" if ctx.get("in_try") else "return")
            rt = ctx.get("ret")
            cond = self.expr(T_BOOL, scopes, 0, pure=True)
            if rt is None:
                return [f"if {cond} {{ return; }}"]
            return [f"if {cond} {{ return {self.expr(rt, scopes, d, pure=True)}; }}"]
        if c < 0.93 and depth > 0 and self.allow_throw and ctx.get("try_ok", True):
            self.features.add("try")
            ev = self.fresh("e")
            tctx = dict(ctx, in_try=True)
            body = self.block(scopes, d, tctx)
            pos = r.randrange(len(body) + 1)
            if r.random() < 0.7:
                # (statements of the body may shadow outer names with other types: only a statement placed FIRST may use them)
                if pos == 0:
                    thr = f"if {self.expr(T_BOOL, scopes, 0, pure=True)} {{ throw(\"err \" + ({self.pure_atom_int(scopes)}).to_string()); }}"
                else:
                    thr = f"if {r.choice(['true', 'false', '(1 < 2)', '(3 == 4)', '!false'])} {{ throw(\"err \" + ({lit_int(r.choice(INT_POOL))}).to_string()); }}"
                body = body[:pos] + [thr] + body[pos:]
                self.features.add("throw-caught")
            cbody = [f"println(\"caught\", {ev}.message, {ev}.line, {ev}.column);"] + self.block(scopes, d, tctx, n=1)
            return ["try {"] + ind(body) + [f"}} catch {ev} {{"] + ind(cbody) + ["}"]
        if c < 0.95 and self.allow_throw and (ctx.get("in_try") or ctx.get("may_throw_ok")) and r.random() < 0.3:
            self.features.add("throw-uncaught")
            return [f"if {self.expr(T_BOOL, scopes, 0, pure=True)} {{ throw(\"fatal \" + {self.atom(T_STR, scopes)}); }}"]
        if self.allow_lambda and depth > 0 and self.r.random() < 0.25:
            self.features.add("lambda")
            fname = self.fresh("lam")
            p = self.fresh("q")
            body = self.expr(T_INT, [{p: (T_INT, False)}], 1, pure=True)
            arg = self.expr(T_INT, scopes, d, pure=True)
            return [f"let {fname} = fn({p}: int) -> int {{ {body} }};", f"println({fname}({arg}));"]
        if self.use_trigger and self.r.random() < 0.5:
            self.features.add("trigger")
            return [f"trigger on_tick at minute({self.expr(T_INT, scopes, d)});"]
        # call statement
        cand = [f for f in self.fns if not f.may_throw or ctx.get("may_throw_ok") or ctx.get("in_try")]
        if cand:
            self.features.add("call-stmt")
            f = r.choice(cand)
            callexpr = self.call(f, scopes, d)
            if f.ret is None:
                return [f"{callexpr};"]
            return [f"println({callexpr});"]
        return [f"println({self.expr(T_INT, scopes, d)});"]

    # ---- functions / program --------------------------------------------------------
    def function(self, name, depth, may_throw):
        r = self.r
        nparams = r.randrange(0, 4)
        params = [(self.fresh("p"), r.choice([T_INT, T_INT, T_BOOL, T_STR, T_LINT])) for _ in range(nparams)]
        ret = r.choice([T_INT, T_INT, T_BOOL, T_STR, None])
        # extraction parameters come first and are not passed by callers: locals bound to the singletons' values
        extracted = []
        if self.singletons and r.random() < 0.6:
            self.features.add("singleton-extraction")
            names = sorted(self.singletons)
            r.shuffle(names)
            extracted = [(self.fresh("e"), sn) for sn in names[:r.randrange(1, len(names) + 1)]]
        scopes = [{**{e: (self.singletons[sn], True) for e, sn in extracted}, **{p: (t, True) for p, t in params}}]
        ctx = {"break_ok": False, "in_try": False, "ret": ret, "may_throw_ok": may_throw, "in_fn": True}
        body = self.block(scopes, depth, ctx, n=r.randrange(1, 5))
        # block() pushed its own scope: for the tail expression only parameters and globals are visible
        sig = ", ".join([f"{e}: {sn}" for e, sn in extracted] + [f"{p}: {t}" for p, t in params])
        head = f"fn {name}({sig})" + (f" -> {ret}" if ret else "") + " {"
        lines = [head] + ["    " + l for l in body]
        if ret:
            lines.append("    " + self.expr(ret, scopes, 1, pure=True))
        lines.append("}")
        fn = Fn(name, params, ret, may_throw=may_throw)
        return fn, lines

    def program(self, nfns=None):
        r = self.r
        lines = []
        if self.allow_trigger and r.random() < 0.3:
            self.use_trigger = True
            lines += ["import trigger minute from triggers;", "event fn on_tick(elapsed: int) {", "    println(\"tick\", elapsed);", "}"]
        # globals: literal initialisers only
        for _ in range(r.randrange(0, 3)):
            g = self.fresh("g")
            ty = r.choice([T_INT, T_STR, T_BOOL, T_LINT])
            saved, self.globals = self.globals, {}
            init = self.atom(ty, [dict()])       # literals only: no reference to other globals
            self.globals = saved
            self.globals[g] = ty
            lines.append(f"let {g} = {init};")
        if self.allow_singletons and r.random() < 0.3:
            # singletons (declared after the globals were initialised: global initialisers are literals)
            self.features.add("singleton")
            self.host = {}
            for _ in range(r.randrange(1, 3)):
                sn = "$" + self.fresh("S")
                ty = r.choice([T_INT, T_INT, T_STR, T_BOOL, T_LINT, T_OBJ])
                self.singletons[sn] = ty
                lines.append(f"{sn} = {ty};")
                if r.random() < 0.6:
                    self.features.add("singleton-host-value")
                    self.host[sn] = {T_INT: lambda: r.choice(INT_POOL), T_STR: lambda: r.choice(STR_POOL), T_BOOL: lambda: r.random() < 0.5,
                                     T_LINT: lambda: [r.choice(INT_POOL) for _ in range(r.randrange(0, 4))],
                                     T_OBJ: lambda: {"a": r.choice(INT_POOL), "b": r.choice(STR_POOL)}}[ty]()
        nfns = nfns if nfns is not None else r.randrange(0, 4)
        for i in range(nfns):
            may_throw = self.allow_throw and r.random() < 0.2
            fn, flines = self.function(f"f{i}", self.max_depth - 1, may_throw)
            self.fns.append(fn)
            lines += flines
        ctx = {"break_ok": False, "in_try": False, "ret": None, "may_throw_ok": True}
        body = self.block([{}], self.max_depth, ctx, n=r.randrange(2, 7))
        lines += ["fn main() {"] + ["    " + l for l in body] + ["}"]
        return "\n".join(lines) + "\n"


def generate(rng, **kw):
    g = Gen(rng, **kw)
    src = g.program()
    return src, sorted(g.features)


def generate_case(rng, **kw):
    """Like generate, for the streams that hand host values to the backends (progstream.run_all):
    -> (case, features) where case is the program text, or (text, None, {`$Name`: value sexp}) when the
    program declares singletons (allow_singletons=True; a singleton without an entry gets its zero value)."""
    from gen.families import host_value
    g = Gen(rng, **kw)
    src = g.program()
    if g.host is None:
        return src, sorted(g.features)
    return (src, None, {k: host_value(v) for k, v in g.host.items()}), sorted(g.features)
