"""C03 generators: well-typed programs with KNOWN recorded types, and single-fault mutants.

`typed_program(rng)` -> (text, recs, feats): a well-typed program and the list of types the
analyzer must record (pre-order of the analysed AST, see harness/analyze.go `typeWalk`), as
S-expression strings in the format of harness/ast.go `sxType`.

`mutants_typed(rng, ...)`  -> tree-level single-fault mutants of such a program
`mutants_text(rng, src)`   -> text-level single-fault mutants of any accepted program (gen/progs.py)
`fixed_cases()`            -> hand-written witnesses (findings A1..A9, templates, triggers, main shape)

Every mutant is (text, rule, where): exactly one static rule is broken at one syntactic position.
"""
import re

# ---------------------------------------------------------------------------------------
# types
# ---------------------------------------------------------------------------------------
INT, BOOL, STR, FLOAT, NULL, NEVER, RANGE = "int", "bool", "str", "float", "null", "never", "range"


def LIST(t):
    return ("list", t)


def OPT(t):
    return ("opt", t)


def OBJ(*fields):
    return ("obj", tuple(fields))


def FN(params, ret):
    return ("fn", tuple(params), ret)       # params: ((name, type), ...)


PRINT_T = ("fnvar", (), "unknown", NULL)
THROW_T = ("fn", (("error", "unknown"),), NEVER)


def hexs(s):
    return "x" + s.encode().hex()


def sx(t):
    """S-expression of a type as printed by harness/ast.go sxType."""
    if isinstance(t, str):
        return t
    if t[0] == "list":
        return f"(list {sx(t[1])})"
    if t[0] == "opt":
        return f"(opt {sx(t[1])})"
    if t[0] == "obj":
        return "(obj" + "".join(f" ({hexs(n)} {sx(ft)})" for n, ft in t[1]) + ")"
    if t[0] == "fn":
        return "(fn (" + " ".join(sx(pt) for _, pt in t[1]) + ") " + sx(t[2]) + ")"
    if t[0] == "fnvar":
        return "(fnvar (" + " ".join(sx(pt) for pt in t[1]) + ") " + sx(t[2]) + " " + sx(t[3]) + ")"
    raise ValueError(t)


def src_type(t):
    """Source syntax of a type."""
    if isinstance(t, str):
        return t
    if t[0] == "list":
        return f"[{src_type(t[1])}]"
    if t[0] == "opt":
        return f"?{src_type(t[1])}"
    if t[0] == "obj":
        return "{ " + ", ".join(f"{n}: {src_type(ft)}" for n, ft in t[1]) + " }"
    if t[0] == "fn":
        return "fn(" + ", ".join(f"{n}: {src_type(pt)}" for n, pt in t[1]) + ") -> " + src_type(t[2])
    raise ValueError(t)


# ---------------------------------------------------------------------------------------
# typed trees
# ---------------------------------------------------------------------------------------
class N:
    """Typed tree node. parts: strings and child nodes in textual order (= walk order).
    ty: recorded type of the node itself (None: the node records no type of its own)."""

    def __init__(self, kind, ty, parts, **info):
        self.kind, self.ty, self.parts, self.info = kind, ty, parts, info

    def text(self):
        return "".join(p if isinstance(p, str) else p.text() for p in self.parts)

    def recs(self):
        out = [sx(self.ty)] if self.ty is not None else []
        for p in self.parts:
            if not isinstance(p, str):
                out += p.recs()
        return out

    def vt(self):
        """Type of the value (the recorded type, or the wrapped block's for block expressions)."""
        return self.ty if self.ty is not None else self.info.get("vty")

    def walk(self, path=()):
        yield path, self
        for i, p in enumerate(self.parts):
            if not isinstance(p, str):
                yield from p.walk(path + (i,))

    def replaced(self, path, new):
        if not path:
            return new
        parts = list(self.parts)
        parts[path[0]] = parts[path[0]].replaced(path[1:], new)
        return N(self.kind, self.ty, parts, **self.info)


def raw(text):
    return N("raw", None, [text])


SCALARS = [INT, BOOL, STR, FLOAT]
OBJ_T = OBJ(("a", INT), ("b", STR))
VALUE_TYPES = [INT, INT, BOOL, STR, FLOAT, LIST(INT), LIST(STR), OPT(INT), OBJ_T]


class TGen:
    def __init__(self, rng, max_depth=3, avoid=()):
        self.r = rng
        self.max_depth = max_depth
        self.avoid = set(avoid)          # construct zones to stay away from (open findings)
        self.counter = 0
        self.fns = []                    # (name, params ((n,t)..), ret)
        self.globals = []                # (name, type)
        self.feats = set()

    def fresh(self, p="v"):
        self.counter += 1
        return f"{p}{self.counter}"

    # ---- environment: list of dicts name -> type ------------------------------------
    def vars_of(self, env, ty):
        seen, out = set(), []
        for sc in reversed(env):
            for n, t in sc.items():
                if n not in seen:
                    seen.add(n)
                    if t == ty:
                        out.append(n)
        return out

    # ---- expressions -------------------------------------------------------------------
    def lit(self, ty):
        r = self.r
        if ty == INT:
            return N("int", INT, [str(r.choice([0, 1, 2, 3, 7, 42, 100, 9223372036854775807]))])
        if ty == BOOL:
            return N("bool", BOOL, [r.choice(["true", "false"])])
        if ty == STR:
            return N("str", STR, ['"' + r.choice(["", "a", "hello", "x y"]) + '"'])
        if ty == FLOAT:
            return N("float", FLOAT, [r.choice(["0.5", "1.5", "2.25", "10.0"])])
        if ty == RANGE:
            return N("range", RANGE, [self.lit(INT), ".." + ("=" if r.random() < 0.3 else ""), self.lit(INT)])
        if isinstance(ty, tuple) and ty[0] == "list":
            n = r.randrange(1, 4)
            parts = ["["]
            for i in range(n):
                if i:
                    parts.append(", ")
                parts.append(self.lit(ty[1]))
            return N("list", ty, parts + ["]"])
        if isinstance(ty, tuple) and ty[0] == "opt":
            return N("pre", ty, ["?", self.lit(ty[1])], op="some")
        if isinstance(ty, tuple) and ty[0] == "obj":
            parts = ["new { "]
            for i, (n, ft) in enumerate(ty[1]):
                if i:
                    parts.append(", ")
                parts += [f"{n}: ", self.lit(ft)]
            return N("obj", ty, parts + [" }"])
        raise ValueError(ty)

    def ident(self, name, ty):
        return N("ident", ty, [name], name=name)

    def atom(self, ty, env):
        vs = self.vars_of(env, ty)
        if vs and self.r.random() < 0.6:
            return self.ident(self.r.choice(vs), ty)
        return self.lit(ty)

    def grp(self, e):
        return N("grp", e.vt(), ["(", e, ")"])

    def expr(self, ty, env, depth):
        r = self.r
        if depth <= 0:
            return self.atom(ty, env)
        d = depth - 1
        c = r.random()
        f = self.feats.add
        if c < 0.12:
            return self.atom(ty, env)
        if c < 0.17:
            f("grp")
            return self.grp(self.expr(ty, env, d))
        if c < 0.22:
            f("if-expr")
            return N("if", ty, ["if ", self.expr(BOOL, env, d), " ", self.block(env, d, ty, n=r.randrange(0, 2)), " else ",
                                self.block(env, d, ty, n=0)])
        if c < 0.26 and "match" not in self.avoid:
            f("match-expr")
            return self.match(ty, env, d)
        if c < 0.29:
            f("block-expr")
            return N("blk", None, [self.block(env, d, ty, n=r.randrange(0, 3))], vty=ty)
        if c < 0.33:
            cand = [fn for fn in self.fns if fn[2] == ty]
            if cand:
                f("call")
                return self.call(r.choice(cand), env, d)
        if c < 0.36 and ty in (INT, STR, BOOL, FLOAT):
            f("try-expr")
            ev = self.fresh("e")
            return N("try", ty, ["try ", self.block(env, d, ty, n=r.randrange(0, 2)), f" catch {ev} ",
                                 self.block(env + [{ev: "err"}], d, ty, n=0)])
        if c < 0.39 and isinstance(ty, str) and ty in (INT, FLOAT, BOOL):
            src = r.choice([t for t in (INT, FLOAT, BOOL) if t != ty])
            f("cast")
            return self.grp(N("cast", ty, [self.grp(self.expr(src, env, d)), f" as {ty}"]))
        if ty == INT:
            if c < 0.65:
                op = r.choice(["+", "-", "*", "/", "%", "**", "<<", ">>", "|", "&", "^"])
                f("int" + op)
                return self.grp(N("infix", INT, [self.expr(INT, env, d), f" {op} ", self.expr(INT, env, d)], op=op))
            if c < 0.72:
                f("neg")
                return self.grp(N("pre", INT, [r.choice(["-", "!"]), self.expr(INT, env, 0)], op="neg"))
            if c < 0.80:
                f("member-call")
                base = self.atom(r.choice([LIST(INT), STR, LIST(STR)]), env)
                return N("call", INT, [N("member", FN((), INT), [base, ".len"], member="len"), "()"])
            if c < 0.86:
                ls = self.vars_of(env, LIST(INT))
                if ls:
                    f("index")
                    return N("index", INT, [self.ident(r.choice(ls), LIST(INT)), "[", self.expr(INT, env, d), "]"])
            if c < 0.92:
                os_ = self.vars_of(env, OBJ_T)
                if os_:
                    f("field")
                    return N("member", INT, [self.ident(r.choice(os_), OBJ_T), ".a"], member="a")
            if c < 0.96:
                f("opt.unwrap")
                base = self.atom(OPT(INT), env)
                if base.kind == "pre":
                    base = self.grp(base)
                return N("call", INT, [N("member", FN((), INT), [base, ".unwrap"], member="unwrap"), "()"])
            return self.atom(ty, env)
        if ty == BOOL:
            if c < 0.60:
                t = r.choice([INT, INT, FLOAT, STR])
                op = r.choice(["==", "!="] if t == STR else ["<", "<=", ">", ">=", "==", "!="])
                f("cmp")
                return self.grp(N("infix", BOOL, [self.expr(t, env, d), f" {op} ", self.expr(t, env, d)], op=op))
            if c < 0.80:
                op = r.choice(["&&", "||", "|", "&", "^", "==", "!="])
                f("logic")
                return self.grp(N("infix", BOOL, [self.expr(BOOL, env, d), f" {op} ", self.expr(BOOL, env, d)], op=op))
            if c < 0.88:
                f("not")
                return self.grp(N("pre", BOOL, ["!", self.expr(BOOL, env, 0)], op="not"))
            if c < 0.94:
                f("list.contains")
                base = self.atom(LIST(INT), env)
                return N("call", BOOL, [N("member", FN((("element", INT),), BOOL), [base, ".contains"], member="contains"),
                                        "(", self.expr(INT, env, d), ")"])
            if c < 0.97:
                f("listeq")
                return self.grp(N("infix", BOOL, [self.atom(LIST(INT), env), " == ", self.atom(LIST(INT), env)], op="=="))
            return self.atom(ty, env)
        if ty == STR:
            if c < 0.60:
                f("concat")
                return self.grp(N("infix", STR, [self.expr(STR, env, d), " + ", self.expr(STR, env, d)], op="+"))
            if c < 0.75:
                f("to_string")
                t = r.choice([INT, BOOL, FLOAT])
                return N("call", STR, [N("member", FN((), STR), [self.grp(self.expr(t, env, d)), ".to_string"], member="to_string"), "()"])
            if c < 0.82:
                os_ = self.vars_of(env, OBJ_T)
                if os_:
                    return N("member", STR, [self.ident(r.choice(os_), OBJ_T), ".b"], member="b")
            if c < 0.90:
                f("str-index")
                return N("index", STR, [self.atom(STR, env), "[", self.expr(INT, env, 0), "]"])
            return self.atom(ty, env)
        if ty == FLOAT:
            if c < 0.7:
                op = r.choice(["+", "-", "*", "/", "**"])
                f("float" + op)
                return self.grp(N("infix", FLOAT, [self.expr(FLOAT, env, d), f" {op} ", self.expr(FLOAT, env, d)], op=op))
            return self.atom(ty, env)
        if ty == OPT(INT):
            if c < 0.6:
                f("some")
                return self.grp(N("pre", OPT(INT), ["?", self.expr(INT, env, d)], op="some"))
            ls = self.vars_of(env, LIST(INT))
            if ls:
                f("list.last")
                return N("call", OPT(INT), [N("member", FN((), OPT(INT)), [self.ident(r.choice(ls), LIST(INT)), ".last"], member="last"), "()"])
            return self.atom(ty, env)
        if isinstance(ty, tuple) and ty[0] == "list" and c < 0.7:
            f("listlit")
            n = r.randrange(1, 4)
            parts = ["["]
            for i in range(n):
                if i:
                    parts.append(", ")
                parts.append(self.expr(ty[1], env, d))
            return N("list", ty, parts + ["]"])
        return self.atom(ty, env)

    def match(self, ty, env, d):
        r = self.r
        ct = r.choice([INT, STR, BOOL])
        lits = {INT: ["1", "2", "3", "10"], STR: ['"a"', '"b"', '"c"'], BOOL: ["true", "false"]}[ct]
        pool = list(lits)
        r.shuffle(pool)
        parts = ["match ", self.expr(ct, env, d), " { "]
        narms = r.randrange(0, min(3, len(pool)) + 1)
        for _ in range(narms):
            if not pool:
                break
            k = 1 if len(pool) < 2 or r.random() < 0.7 else 2
            for j in range(k):
                if j:
                    parts.append(" | ")
                parts.append(N(ct, ct, [pool.pop()]))
            # an arm may diverge (its type is `never`): it must not decide the type of the match, in whatever position
            if r.random() < 0.2:
                act = N("call", NEVER, [self.ident("throw", THROW_T), "(", self.expr(STR, env, 0), ")"])
            else:
                act = self.expr(ty, env, d)
            parts += [" => ", act, ", "]
        parts += ["_ => ", self.expr(ty, env, d), " }"]
        return N("match", ty, parts)

    def call(self, fn, env, d):
        name, params, ret = fn
        parts = [self.ident(name, FN(params, ret)), "("]
        for i, (_, pt) in enumerate(params):
            if i:
                parts.append(", ")
            parts.append(self.expr(pt, env, d))
        return N("call", ret, parts + [")"], callee=name, nargs=len(params))

    def println(self, env, d):
        k = self.r.randrange(1, 3)
        parts = [self.ident(self.r.choice(["println", "print"]), PRINT_T), "("]
        for i in range(k):
            if i:
                parts.append(", ")
            parts.append(self.expr(self.r.choice(VALUE_TYPES), env, d))
        return N("call", NULL, parts + [")"], callee="println", nargs=k)

    def lambda_(self, env, d):
        """fn literal with a known type; body sees its parameters and the enclosing variables
        (capturing is legal for the analyzer)."""
        r = self.r
        nparams = r.randrange(0, 3)
        params = tuple((self.fresh("q"), r.choice([INT, BOOL, STR])) for _ in range(nparams))
        ret = r.choice([INT, STR, BOOL, NULL])
        sig = ", ".join(f"{n}: {src_type(t)}" for n, t in params)
        inner_env = env + [dict(params)]
        ctx = {"ret": ret, "in_loop": False}
        body = self.block(inner_env, d, ret, n=r.randrange(0, 3), ctx=ctx, own_scope=False)
        head = f"fn({sig})" + (f" -> {src_type(ret)}" if ret != NULL else "") + " "
        return N("lambda", FN(params, ret), [head, body], ret=ret)

    # ---- blocks / statements ------------------------------------------------------------
    def block(self, env, depth, ty, n=None, ctx=None, own_scope=True, tail=True, diverge=None):
        """Block whose result type is `ty` (NULL: no trailing expression)."""
        ctx = ctx or self.ctx
        saved = self.ctx
        self.ctx = ctx
        try:
            scope_env = env + [{}]
            n = self.r.randrange(0, 3) if n is None else n
            parts = ["{ "]
            for _ in range(n):
                parts += [self.stmt(scope_env, depth), " "]
            bty = ty
            if diverge is not None:
                parts += [diverge, " "]
                bty = NEVER
                tail = False
            if ty != NULL and tail:
                parts += [self.expr(ty, scope_env, depth), " "]
            return N("block", bty, parts + ["}"])
        finally:
            self.ctx = saved

    ctx = {"ret": NULL, "in_loop": False}

    def stmt(self, env, depth):
        r = self.r
        d = max(depth - 1, 0)
        c = r.random()
        f = self.feats.add
        ctx = self.ctx
        if c < 0.25:
            ty = r.choice(VALUE_TYPES)
            name = self.fresh()
            e = self.expr(ty, env, depth)
            ann = f": {src_type(ty)}" if r.random() < 0.35 else ""
            env[-1][name] = ty
            f("let")
            return N("let", ty, [f"let {name}{ann} = ", e, ";"], name=name, annotated=bool(ann))
        if c < 0.27:
            # initialisers whose own type contains `any`: the annotation decides
            f("let-any")
            name = self.fresh()
            ty, lit, lty = r.choice([(LIST(INT), "[]", LIST("any")), (OPT(INT), "none", OPT("any")), (LIST(STR), "[]", LIST("any")),
                                     (OPT(STR), "none", OPT("any"))])
            env[-1][name] = ty
            return N("let", ty, [f"let {name}: {src_type(ty)} = ", N("anylit", lty, [lit]), ";"], name=name, annotated=True)
        if c < 0.37:
            f("println")
            return N("exprS", None, [self.println(env, d), ";"])
        if c < 0.47:
            t = r.choice([INT, INT, STR, FLOAT, BOOL])
            vs = [v for v in self.vars_of(env, t) if not v.startswith(("g", "i", "c_"))]
            if vs:
                ops = {INT: ["=", "+=", "-=", "*=", "/=", "%=", "**=", "<<=", ">>=", "|=", "&=", "^="], STR: ["=", "+="],
                       FLOAT: ["=", "+=", "-=", "*=", "/=", "**="], BOOL: ["=", "|=", "&=", "^="]}[t]
                op = r.choice(ops)
                f("assign" + op)
                return N("exprS", None, [N("assign", NULL, [self.ident(r.choice(vs), t), f" {op} ", self.expr(t, env, d)], op=op, vt=t), ";"])
            return N("exprS", None, [self.println(env, d), ";"])
        if c < 0.52:
            ls = self.vars_of(env, LIST(INT))
            if ls:
                f("index-assign")
                return N("exprS", None, [N("assign", NULL, [N("index", INT, [self.ident(r.choice(ls), LIST(INT)), "[", self.expr(INT, env, 0), "]"]),
                                                           " = ", self.expr(INT, env, d)], op="=", vt=INT), ";"])
            os_ = self.vars_of(env, OBJ_T)
            if os_:
                f("field-assign")
                return N("exprS", None, [N("assign", NULL, [N("member", INT, [self.ident(r.choice(os_), OBJ_T), ".a"], member="a"),
                                                           " += ", self.expr(INT, env, d)], op="+=", vt=INT), ";"])
        if c < 0.57:
            ls = self.vars_of(env, LIST(INT))
            if ls:
                f("list.push")
                return N("exprS", None, [N("call", NULL, [N("member", FN((("element", INT),), NULL), [self.ident(r.choice(ls), LIST(INT)), ".push"], member="push"),
                                                         "(", self.expr(INT, env, d), ")"]), ";"])
        if c < 0.67 and depth > 0:
            f("if-stmt")
            parts = ["if ", self.expr(BOOL, env, d), " ", self.block(env, d, NULL)]
            if r.random() < 0.5:
                parts += [" else ", self.block(env, d, NULL)]
            return N("exprS", None, [N("if", NULL, parts), ";"])
        if c < 0.79 and depth > 0:
            kind = r.choice(["while", "loop", "for-range", "for-list", "for-str"])
            f(kind)
            inner = dict(ctx, in_loop=True)
            if kind == "while":
                return N("while", None, ["while ", self.expr(BOOL, env, d), " ", self.block(env, d, NULL, ctx=inner)])
            if kind == "loop":
                # always contains a break: the statement is of type null
                brk = N("exprS", None, [N("if", NULL, ["if ", self.expr(BOOL, env, 0), " ", N("block", NEVER, ["{ ", N("break", None, ["break;"]), " }"])]), ";"])
                body = self.block(env, d, NULL, ctx=inner)
                body = N("block", NULL, ["{ ", brk, " "] + body.parts[1:])
                return N("loop", None, ["loop ", body])
            it = self.fresh("i")
            if kind == "for-range":
                src, ity = self.lit(RANGE), INT
            elif kind == "for-list":
                src, ity = self.atom(LIST(INT), env), INT
            else:
                src, ity = self.atom(STR, env), STR
            body = self.block(env + [{it: ity}], d, NULL, ctx=inner, own_scope=False)
            return N("for", ity, [f"for {it} in ", src, " ", body], var=it)
        if c < 0.83 and ctx.get("in_loop"):
            f("break/continue")
            kw = r.choice(["break", "continue"])
            return N("exprS", None, [N("if", NULL, ["if ", self.expr(BOOL, env, 0), " ", N("block", NEVER, ["{ ", N(kw, None, [kw + ";"]), " }"])]), ";"])
        if c < 0.88:
            f("return")
            rt = ctx["ret"]
            retn = N("return", None, ["return;"] if rt == NULL else ["return ", self.expr(rt, env, d), ";"], ret=rt)
            return N("exprS", None, [N("if", NULL, ["if ", self.expr(BOOL, env, 0), " ", N("block", NEVER, ["{ ", retn, " }"])]), ";"])
        if c < 0.93 and depth > 0 and "lambda" not in self.avoid:
            f("lambda")
            name = self.fresh("h")
            lam = self.lambda_(env, d)
            ann = f": {src_type(lam.ty)}" if r.random() < 0.3 and "fn-annotation" not in self.avoid else ""
            env[-1][name] = lam.ty
            return N("let", lam.ty, [f"let {name}{ann} = ", lam, ";"], name=name, annotated=bool(ann))
        if c < 0.96:
            hs = [(n, t) for sc in env for n, t in sc.items() if isinstance(t, tuple) and t[0] == "fn" and n.startswith("h")]
            if hs:
                f("lambda-call")
                n_, t_ = r.choice(hs)
                call = self.call((n_, t_[1], t_[2]), env, d)
                if t_[2] == NULL:
                    return N("exprS", None, [call, ";"])
                return N("exprS", None, [N("call", NULL, [self.ident("println", PRINT_T), "(", call, ")"]), ";"])
        if c < 0.98:
            f("throw")
            thr = N("exprS", None, [N("call", NEVER, [self.ident("throw", THROW_T), "(", self.expr(STR, env, 0), ")"]), ";"])
            return N("exprS", None, [N("if", NULL, ["if ", self.expr(BOOL, env, 0), " ", N("block", NEVER, ["{ ", thr, " }"])]), ";"])
        cand = [fn for fn in self.fns]
        if cand:
            f("call-stmt")
            fn = r.choice(cand)
            call = self.call(fn, env, d)
            if fn[2] == NULL:
                return N("exprS", None, [call, ";"])
            return N("exprS", None, [N("call", NULL, [self.ident("println", PRINT_T), "(", call, ")"]), ";"])
        return N("exprS", None, [self.println(env, d), ";"])

    # ---- functions / program --------------------------------------------------------------
    def function(self, name, depth):
        r = self.r
        nparams = r.randrange(0, 3)
        params = tuple((self.fresh("p"), r.choice([INT, INT, BOOL, STR, LIST(INT), FLOAT])) for _ in range(nparams))
        ret = r.choice([INT, INT, BOOL, STR, NULL, FLOAT])
        if name == "main":
            params, ret = (), NULL
        env = [dict(self.globals), dict(params)]
        ctx = {"ret": ret, "in_loop": False}
        style = r.random()
        if ret != NULL and style < 0.2:
            # body that ends in an explicit return: block type never
            self.ctx = ctx
            retn = N("return", None, ["return ", self.expr(ret, env, 1), ";"], ret=ret)
            body = self.block(env[:-1] + [env[-1]], depth, ret, n=r.randrange(0, 3), ctx=ctx, diverge=retn)
        else:
            body = self.block(env, depth, ret, n=r.randrange(1, 4), ctx=ctx)
        sig = ", ".join(f"{n}: {src_type(t)}" for n, t in params)
        head = f"fn {name}({sig})" + (f" -> {src_type(ret)}" if ret != NULL else "") + " "
        return (name, params, ret), N("fn", ret, [head, body], name=name, params=params, ret=ret)

    def program(self):
        r = self.r
        parts = []
        for _ in range(r.randrange(0, 3)):
            g = self.fresh("g")
            ty = r.choice([INT, STR, BOOL, LIST(INT), FLOAT, RANGE])
            init = self.lit(ty)
            ann = f": {src_type(ty)}" if r.random() < 0.3 else ""
            self.globals.append((g, ty))
            parts += [N("let", ty, [f"let {g}{ann} = ", init, ";"], name=g, is_global=True), "\n"]
        for i in range(r.randrange(0, 4)):
            sig, node = self.function(f"f{i}", self.max_depth - 1)
            self.fns.append(sig)
            parts += [node, "\n"]
        _, node = self.function("main", self.max_depth)
        parts += [node, "\n"]
        return N("prog", None, parts)


def typed_program(rng, **kw):
    g = TGen(rng, **kw)
    tree = g.program()
    return tree, sorted(g.feats)


# ---------------------------------------------------------------------------------------
# tree-level single-fault mutations
# ---------------------------------------------------------------------------------------
WRONG = {INT: ['"zz"', "true", "1.5", "[1]"], BOOL: ["1", '"zz"', "2.5"], STR: ["1", "false", "[\"a\"]"], FLOAT: ['"zz"', "true", "7"]}


def wrong_lit(rng, ty):
    if ty in WRONG:
        return rng.choice(WRONG[ty])
    if isinstance(ty, tuple) and ty[0] == "list":
        return rng.choice(["1", '"zz"', "true"])
    if isinstance(ty, tuple) and ty[0] == "opt":
        return rng.choice(['"zz"', "[1]"])
    if isinstance(ty, tuple) and ty[0] == "obj":
        return rng.choice(["1", "new { a: 1 }", 'new { a: 1, b: "x", c: 2 }', 'new { a: "s", b: "x" }'])
    return '"zz"'


def child_nodes(n):
    return [(i, p) for i, p in enumerate(n.parts) if not isinstance(p, str)]


def tree_mutations(rng, tree):
    """All applicable (rule, path, replacement-node) candidates of a typed program tree."""
    out = []
    fn_depth_loop = {}
    for path, n in tree.walk():
        kids = child_nodes(n)
        if n.kind == "infix" and n.ty in (INT, FLOAT, STR) and len(kids) == 2:
            lt = kids[0][1].ty
            if lt in WRONG:
                parts = list(n.parts)
                parts[kids[1][0]] = raw(wrong_lit(rng, lt))
                out.append(("operandMismatch", path, N("raw", None, parts)))
        if n.kind == "infix" and n.ty == BOOL and len(kids) == 2 and kids[0][1].ty in WRONG:
            parts = list(n.parts)
            parts[kids[1][0]] = raw(wrong_lit(rng, kids[0][1].ty))
            out.append(("operandMismatch", path, N("raw", None, parts)))
        if n.kind == "infix" and n.ty == STR:
            out.append(("operatorNotAdmitted", path, N("raw", None, [n.parts[0], " - ", n.parts[2]])))
        if n.kind == "infix" and n.info.get("op") in ("&&", "||"):
            out.append(("operatorNotAdmitted", path, N("raw", None, [n.parts[0], " + ", n.parts[2]])))
        if n.kind == "infix" and n.ty == FLOAT:
            out.append(("operatorNotAdmitted", path, N("raw", None, [n.parts[0], " % ", n.parts[2]])))
        if n.kind == "pre" and n.info.get("op") in ("neg", "not"):
            out.append(("operandMismatch", path, N("raw", None, [n.parts[0], '"zz"'])))
        if n.kind == "call" and "callee" in n.info and n.info["callee"] not in ("println",):
            args = [(i, p) for i, p in kids[1:]]
            for i, a in args:
                if a.ty is not None or a.kind == "blk":
                    aty = a.ty if a.ty is not None else None
                    if aty is None:
                        continue
                    parts = list(n.parts)
                    parts[i] = raw(wrong_lit(rng, aty))
                    out.append(("argMismatch", path, N("raw", None, parts)))
            # arity: one more / one fewer
            parts = list(n.parts)
            extra = [", 1"] if args else ["1"]
            out.append(("arity", path, N("raw", None, parts[:-1] + extra + [")"])))
            if args:
                parts = list(n.parts)
                i = args[-1][0]
                cut = i - 1 if len(args) > 1 else i
                out.append(("arity", path, N("raw", None, parts[:cut] + [")"])))
        if n.kind == "call" and n.parts and not isinstance(n.parts[0], str) and n.parts[0].kind == "member":
            m = n.parts[0]
            out.append(("unknownMember", path, N("raw", None, [m.parts[0], ".zz_nope", *n.parts[1:]])))
            if n.parts[-1] == "()" or n.parts[-1] == ")":
                out.append(("arity", path, N("raw", None, list(n.parts[:-1]) + (["(1, 2, 3)"] if n.parts[-1] == "()" else [", 1, 2, 3)"]))))
            if n.parts[-1] == ")" and len(kids) == 2 and kids[1][1].vt() is not None:
                parts = list(n.parts)
                parts[kids[1][0]] = raw(wrong_lit(rng, kids[1][1].vt()))
                out.append(("argMismatch", path, N("raw", None, parts)))
        if n.kind == "member" and n.info.get("member") in ("a", "b"):
            out.append(("unknownMember", path, N("raw", None, [n.parts[0], ".zz_nope"])))
        if n.kind == "return" and n.info.get("ret") is not None:
            rt = n.info["ret"]
            bad = "return 1;" if rt == NULL else "return " + wrong_lit(rng, rt) + ";"
            out.append(("returnMismatch", path, raw(bad)))
            if rt != NULL:
                out.append(("returnMismatch", path, raw("return;")))
        if n.kind == "assign":
            vt = n.info.get("vt")
            parts = list(n.parts)
            parts[kids[1][0]] = raw(wrong_lit(rng, vt))
            out.append(("assignMismatch", path, N("raw", None, parts)))
            if vt == STR:
                out.append(("operatorNotAdmitted", path, N("raw", None, [n.parts[0], " -= ", n.parts[2]])))
            if vt == BOOL:
                out.append(("operatorNotAdmitted", path, N("raw", None, [n.parts[0], " += ", n.parts[2]])))
            if vt == FLOAT:
                out.append(("operatorNotAdmitted", path, N("raw", None, [n.parts[0], " %= ", n.parts[2]])))
                out.append(("operatorNotAdmitted", path, N("raw", None, [n.parts[0], " <<= ", n.parts[2]])))
        if n.kind in ("if", "while") and kids:
            parts = list(n.parts)
            parts[kids[0][0]] = raw(rng.choice(["1", '"zz"', "1.5", "[true]"]))
            out.append(("conditionNotBool", path, N("raw", None, parts)))
        if n.kind == "if" and len(kids) == 3 and n.ty in WRONG:
            parts = list(n.parts)
            parts[kids[2][0]] = raw("{ " + wrong_lit(rng, n.ty) + " }")
            out.append(("branchMismatch", path, N("raw", None, parts)))
            out.append(("branchMismatch", path, N("raw", None, parts[:kids[2][0] - 1])))      # else branch removed
        # the actions of the literal arms of a match (the parts that follow " => ", without the default arm's): when all of
        # them diverge the default arm alone decides the type, and neither a wrong default nor a missing one is an error
        acts = [n.parts[i + 1] for i, q in enumerate(n.parts[:-1]) if q == " => " and isinstance(n.parts[i + 1], N)][:-1] if n.kind == "match" else []
        if n.kind == "match" and n.ty in WRONG and len(kids) > 2 and any(a.ty != NEVER for a in acts):
            parts = list(n.parts)
            parts[kids[-1][0]] = raw(wrong_lit(rng, n.ty))
            out.append(("branchMismatch", path, N("raw", None, parts)))
            if True:
                # drop the default arm of a value-producing match (if every remaining arm diverged, the match would
                # legally be a null-typed statement-like match)
                cut = kids[-1][0] - 1
                out.append(("missingDefault", path, N("raw", None, parts[:cut] + [" }"])))
                lit_kid = kids[1]
                p2 = list(n.parts)
                p2[lit_kid[0]] = raw(wrong_lit(rng, lit_kid[1].ty) if lit_kid[1].ty in WRONG else '"zz"')
                out.append(("matchLiteral", path, N("raw", None, p2)))
        if n.kind == "try" and n.ty in WRONG:
            parts = list(n.parts)
            parts[kids[1][0]] = raw("{ " + wrong_lit(rng, n.ty) + " }")
            out.append(("branchMismatch", path, N("raw", None, parts)))
        if n.kind == "for":
            parts = list(n.parts)
            parts[kids[0][0]] = raw(rng.choice(["5", "true", "1.5", "new { a: 1 }"]))
            out.append(("notIterable", path, N("raw", None, parts)))
        if n.kind == "ident" and n.info.get("name") not in ("println", "print", "throw"):
            out.append(("unknownIdent", path, raw("zz_undefined")))
        if n.kind == "let" and not n.info.get("is_global"):
            name = n.info["name"]
            e = n.parts[1]
            out.append(("unknownType", path, N("raw", None, [f"let {name}: ZzNope = ", e, ";"])))
            if (n.ty in WRONG or isinstance(n.ty, tuple) and n.ty[0] != "fn") and e.kind != "anylit":
                other = rng.choice([t for t in (INT, STR, BOOL, LIST(INT)) if t != n.ty])
                out.append(("annotationMismatch", path, N("raw", None, [f"let {name}: {src_type(other)} = ", e, ";"])))
        if n.kind == "let" and n.info.get("is_global"):
            name = n.info["name"]
            out.append(("duplicateDefinition", path, N("raw", None, [n, f"\nlet {name} = 1;"])))
            out.append(("nonConstantGlobal", path, N("raw", None, [n, "\nfn zz_k() -> int { 1 }\nlet zz_g = zz_k();"])))
            if n.ty == INT:
                out.append(("nonConstantGlobal", path, N("raw", None, [n, f"\nlet zz_g = {name} + 1;"])))
                out.append(("nonConstantGlobal", path, N("raw", None, [n, f"\nlet zz_g = {name}..5;"])))
                out.append(("nonConstantGlobal", path, N("raw", None, [n, f"\nlet zz_g = [{name}];"])))
        if n.kind == "cast":
            out.append(("unknownType", path, N("raw", None, [n.parts[0], " as ZzNope"])))
            out.append(("impossibleCast", path, N("raw", None, ['("zz")', n.parts[1]])))
        if n.kind == "index":
            parts = list(n.parts)
            parts[kids[1][0]] = raw(rng.choice(['"zz"', "true", "1.5"]))
            out.append(("indexType", path, N("raw", None, parts)))
        if n.kind == "list" and len(kids) >= 2 and kids[0][1].ty in WRONG:
            parts = list(n.parts)
            parts[kids[-1][0]] = raw(wrong_lit(rng, kids[0][1].ty))
            out.append(("elementMismatch", path, N("raw", None, parts)))
        if n.kind == "fn":
            name, params, ret = n.info["name"], n.info["params"], n.info["ret"]
            body = n.parts[1]
            sig = ", ".join(f"{a}: {src_type(t)}" for a, t in params)
            rs = f" -> {src_type(ret)}" if ret != NULL else ""
            out.append(("duplicateDefinition", path, N("raw", None, [n, f"\nfn {name}() {{ }}"])))
            if params:
                a, t = params[0]
                out.append(("duplicateDefinition", path, N("raw", None, [f"fn {name}({sig}, {a}: {src_type(t)}){rs} ", body])))
                bad = ", ".join(f"{a}: {src_type(t)}" if i else f"{a}: ZzNope" for i, (a, t) in enumerate(params))
                out.append(("unknownType", path, N("raw", None, [f"fn {name}({bad}){rs} ", body])))
            if name != "main":
                out.append(("unknownType", path, N("raw", None, [f"fn {name}({sig}) -> ZzNope ", body])))
                if ret != NULL and body.ty != NEVER:
                    # result type of the body does not match: drop the trailing expression
                    last = [i for i, p in child_nodes(body)][-1]
                    nb = N("raw", None, list(body.parts[:last]) + ["}"])
                    out.append(("returnMismatch", path, N("raw", None, [n.parts[0], nb])))
                if ret in WRONG and body.ty != NEVER:
                    last = [i for i, p in child_nodes(body)][-1]
                    nb = N("raw", None, list(body.parts[:last]) + [wrong_lit(rng, ret) + " }"])
                    out.append(("returnMismatch", path, N("raw", None, [n.parts[0], nb])))
            else:
                out.append(("mainShape", path, N("raw", None, ["fn main(zz: int) ", body])))
                out.append(("mainShape", path, N("raw", None, ["fn main() -> int ", N("raw", None, list(body.parts[:-1]) + ["1 }"])])))
                out.append(("mainShape", path, N("raw", None, ["fn zz_not_main() ", body])))
        if n.kind == "block":
            # insertion faults at the head of a block
            def ins(text):
                return N("raw", None, [n.parts[0], text + " ", *n.parts[1:]])
            out.append(("blockpos:unknownIdent", path, ins("zz_undefined_fn(1);")))
            out.append(("blockpos:implicitAny", path, ins("let zz_a = [];")))
            out.append(("blockpos:implicitAny", path, ins("let zz_a = none;")))
            out.append(("blockpos:implicitAny", path, ins("println([]);")))
            out.append(("blockpos:notCallable", path, ins("let zz_c = 5; zz_c();")))
            out.append(("blockpos:notIndexable", path, ins("let zz_c = 5; println(zz_c[0]);")))
            out.append(("blockpos:duplicateField", path, ins("let zz_o = new { k: 1, k: 2 };")))
            out.append(("blockpos:lambdaReturn", path, ins('let zz_l = fn() -> int { return "s"; };')))
            out.append(("blockpos:lambdaReturn", path, ins('let zz_l = fn() -> int { "s" };')))
            out.append(("blockpos:lambdaParam", path, ins("let zz_l = fn(a: int, a: int) { };")))
            out.append(("blockpos:nullArgument", path, ins("let zz_n = 1; println(zz_n = 2);")))
            out.append(("blockpos:loopBody", path, ins("while false { 1 }")))
            out.append(("blockpos:fnAnnotation", path, ins("let zz_l: fn(a: int) -> int = fn(a: str) -> int { 1 };")))
            out.append(("blockpos:fnAnnotation", path, ins("let zz_l: fn(a: int) -> int = fn(a: int) -> str { \"s\" };")))
            out.append(("blockpos:fnAnnotation", path, ins("let zz_l: fn(a: int) -> int = fn() -> int { 1 };")))
            out.append(("blockpos:optionMismatch", path, ins("let zz_p: ?int = ?\"s\";")))
            out.append(("blockpos:objectMismatch", path, ins("let zz_p: { a: int } = new { a: 1, b: 2 };")))
            out.append(("blockpos:objectMismatch", path, ins("let zz_p: { a: int, b: int } = new { a: 1 };")))
    return out


def loop_context(tree):
    """Paths of blocks that are NOT inside a loop body (for break/continue faults), and of
    blocks that are lambda bodies lexically inside a loop."""
    outside, lam_in_loop, fn_rets = [], [], {}
    IN_LOOP.clear()

    def go(n, path, in_loop, in_lambda_in_loop, ret):
        if n.kind == "fn":
            ret = n.info["ret"]
        if n.kind == "lambda":
            in_lambda_in_loop = in_loop
            in_loop = False
            ret = n.info["ret"]
        if n.kind == "block":
            if not in_loop:
                outside.append(path)
                if in_lambda_in_loop:
                    lam_in_loop.append(path)
            else:
                IN_LOOP.append(path)
            fn_rets[path] = ret
        for i, p in child_nodes(n):
            inl = in_loop or (n.kind in ("while", "loop", "for") and p.kind == "block")
            go(p, path + (i,), inl, in_lambda_in_loop, ret)
    go(tree, (), False, False, None)
    return outside, lam_in_loop, fn_rets


IN_LOOP = []
CLOSURE_RET = {INT: ('str', '"a"', '"zz"'), STR: ("int", "1", "7"), BOOL: ("int", "1", "7"), FLOAT: ("str", '"a"', '"zz"'),
               NULL: ("int", "1", "7")}


def context_mutations(rng, tree):
    out = []
    outside, lam_in_loop, fn_rets = loop_context(tree)
    for path in list(IN_LOOP):
        n = node_at(tree, path)
        for kw in ("break", "continue"):
            out.append((f"{kw}OutsideLoop:closure-in-loop", path,
                        N("raw", None, [n.parts[0], f"let zz_l = fn() {{ if false {{ {kw}; }}; }}; ", *n.parts[1:]])))
    for path, ret in fn_rets.items():
        if ret in CLOSURE_RET:
            n = node_at(tree, path)
            cty, cval, bad = CLOSURE_RET[ret]
            ins = f"let zz_l = fn() -> {cty} {{ {cval} }}; if false {{ return {bad}; }}; "
            out.append(("returnMismatch:after-closure", path, N("raw", None, [n.parts[0], ins, *n.parts[1:]])))
    for path in outside:
        n = node_at(tree, path)
        for kw in ("break", "continue"):
            rule = "breakOutsideLoop" if kw == "break" else "continueOutsideLoop"
            if path in lam_in_loop:
                rule += ":closure-in-loop"
            out.append((rule, path, N("raw", None, [n.parts[0], f"if false {{ {kw}; }}; ", *n.parts[1:]])))
    for path, ret in fn_rets.items():
        if ret is None:
            continue
        n = node_at(tree, path)
        bad = "return 1;" if ret == NULL else "return " + wrong_lit(rng, ret) + ";"
        # at the END of the block's statements (after any closure literal in it): state leaks show here
        idx = len(n.parts) - 1
        kids = child_nodes(n)
        if n.ty != NULL and n.ty != NEVER and kids:
            idx = kids[-1][0]           # before the trailing expression
        if n.ty == NEVER:
            continue
        out.append(("returnMismatch:block-end", path, N("raw", None, list(n.parts[:idx]) + [f"if false {{ {bad} }}; "] + list(n.parts[idx:]))))
    return out


def node_at(tree, path):
    n = tree
    for i in path:
        n = n.parts[i]
    return n


def mutants_typed(rng, tree, k=12):
    """k single-fault mutants (text, rule, where) of a typed program, spread over the rules."""
    cands = tree_mutations(rng, tree) + context_mutations(rng, tree)
    by_rule = {}
    for c in cands:
        by_rule.setdefault(c[0], []).append(c)
    rules = sorted(by_rule)
    rng.shuffle(rules)
    out = []
    while rules and len(out) < k:
        for rule in list(rules):
            if len(out) >= k:
                break
            lst = by_rule[rule]
            if not lst:
                rules.remove(rule)
                continue
            c = lst.pop(rng.randrange(len(lst)))
            text = tree.replaced(c[1], c[2]).text()
            out.append((text, c[0], "/".join(map(str, c[1]))))
    return out


# ---------------------------------------------------------------------------------------
# text-level single-fault mutations of accepted programs (gen/progs.py)
# ---------------------------------------------------------------------------------------
TEXT_INSERTS = [
    ("unknownIdent", "zz_undefined(1);"),
    ("unknownIdent", "println(zz_undefined);"),
    ("unknownType", "let zz_t: ZzNope = 1;"),
    ("annotationMismatch", 'let zz_t: int = "s";'),
    ("operandMismatch", 'println(1 + "s");'),
    ("operandMismatch", "println(true < false);"),
    ("argMismatch", 'println("abc".repeat("x"));'),
    ("arity", 'println("abc".repeat(1, 2));'),
    ("unknownMember", "println((1).zz_nope());"),
    ("conditionNotBool", "if 1 { };"),
    ("conditionNotBool", 'while "s" { }'),
    ("branchMismatch", 'println(if true { 1 } else { "s" });'),
    ("notIterable", "for zz_i in 5 { }"),
    ("assignMismatch", 'let zz_v = 1; zz_v = "s";'),
    ("implicitAny", "let zz_a = [];"),
    ("notCallable", "let zz_c = 1; zz_c();"),
    ("missingDefault", "println(match 1 { 1 => 2 });"),
]


def mutants_multi(rng, tree, k=3):
    """k programs with two or three independent faults each (tie only: error recovery of the
    analyzer against the model)."""
    cands = tree_mutations(rng, tree) + context_mutations(rng, tree)
    out = []
    for _ in range(k):
        if len(cands) < 2:
            break
        chosen = []
        for c in rng.sample(cands, min(len(cands), 12)):
            if all(c[1][:len(o[1])] != o[1] and o[1][:len(c[1])] != c[1] for o in chosen):
                chosen.append(c)
            if len(chosen) == rng.choice([2, 3]):
                break
        if len(chosen) < 2:
            continue
        t = tree
        for c in chosen:
            t = t.replaced(c[1], c[2])
        out.append((t.text(), "+".join(c[0] for c in chosen), "multi"))
    return out


def mutants_text(rng, src, k=6):
    """Insert one faulty statement at the head of a function body; structural faults."""
    out = []
    heads = [m.end() for m in re.finditer(r"^fn \w+\([^)]*\)(?: -> [^{]+)? \{\n", src, flags=re.M)]
    picks = rng.sample(TEXT_INSERTS, min(k, len(TEXT_INSERTS)))
    for rule, stmt in picks:
        if not heads:
            break
        pos = rng.choice(heads)
        out.append((src[:pos] + "    " + stmt + "\n" + src[pos:], rule, f"fn-head@{pos}"))
    # break / continue at a function head (never inside a loop)
    if heads:
        pos = rng.choice(heads)
        kw = rng.choice(["break", "continue"])
        out.append((src[:pos] + f"    if false {{ {kw}; }};\n" + src[pos:], kw + "OutsideLoop", f"fn-head@{pos}"))
    # rename one use of a let-bound variable
    uses = [m for m in re.finditer(r"\b(v\d+|p\d+)\b", src)]
    decl = (set(m.start(1) for m in re.finditer(r"\blet (\w+)", src)) | set(m.start(1) for m in re.finditer(r"[(,] ?(\w+):", src))
            | set(m.start(1) for m in re.finditer(r"\b(?:for|catch) (\w+)", src)))
    uses = [m for m in uses if m.start() not in decl]
    # a use whose only binder is a shadowing `let` of the same name further up must stay bound to SOMETHING unknown:
    # renaming the use is a fault whatever it was bound to, renaming a declaration is not
    if uses:
        m = rng.choice(uses)
        out.append((src[:m.start()] + "zz_undefined" + src[m.end():], "unknownIdent", f"use@{m.start()}"))
    out.append((src + "fn main() { }\n", "duplicateDefinition", "eof"))
    out.append((src.replace("fn main() {", "fn main(zz: int) {", 1), "mainShape", "main"))
    out.append((src.replace("fn main() {", "fn main() -> int {", 1), "mainShape", "main"))
    out.append((src.replace("fn main() {", "fn zz_other() {", 1), "mainShape", "main"))
    out.append(("let zz_g = zz_k();\nfn zz_k() -> int { 1 }\n" + src, "nonConstantGlobal", "bof"))
    return out


# ---------------------------------------------------------------------------------------
# hand-written cases
# ---------------------------------------------------------------------------------------
TEMPL_HEAD = "import { templ FooFeature } from templates;\n$Lamp = { power: bool };\n"
MODIFIERS = {0: "", 1: "pub ", 2: "event "}


def M(name, params, ret, modifier=0, extracts=True):
    """abstract impl method: params [(name, type)], ret type (source syntax = sexp for primitives)"""
    return {"name": name, "params": params, "ret": ret, "modifier": modifier, "extracts": extracts}


def method_text(m):
    ps = (["self: $Lamp"] if m["extracts"] else []) + [f"{n}: {t}" for n, t in m["params"]]
    body = {"null": "{ }", "bool": "{ true }", "int": "{ 1 }", "float": "{ 1.5 }", "str": '{ "s" }'}[m["ret"]]
    ret = "" if m["ret"] == "null" else f" -> {m['ret']}"
    return f"{MODIFIERS[m['modifier']]}fn {m['name']}({', '.join(ps)}){ret} {body}"


def impl_text(caps, methods, template="FooFeature", singleton="$Lamp"):
    with_ = f" with {{ {', '.join(caps)} }}" if caps else ""
    return (TEMPL_HEAD + f"impl {template}{with_} for {singleton} {{\n" + "\n".join("    " + method_text(m) for m in methods)
            + "\n}\nfn main() { }\n")


def impl_sexp(caps, methods):
    ms = " ".join("(%s (%s) %s %d %s)" % (hexs(m["name"]), " ".join(f"({hexs(n)} {t})" for n, t in m["params"]), m["ret"],
                                         m["modifier"], "true" if m["extracts"] else "false") for m in methods)
    return "(impl (%s) (%s))" % (" ".join(hexs(c) for c in caps), ms)


DIM = M("dim", [("percent", "int")], "bool")
TEMP = M("set_temp", [("celsius", "float")], "null")


def template_cases(rng=None, n_random=0):
    """(text, expect_error, what, abstract sexp or None) — decision table of
    validateTemplateConstraints / WithCapabilities against the testing host's FooFeature."""
    table = [
        (["light"], [DIM], False, "required method present"),
        (["temperature"], [TEMP], False, "other capability"),
        (["light"], [], True, "required method missing"),
        (["light"], [DIM, TEMP], True, "extra method"),
        (["light"], [M("dim", [("percent", "str")], "bool")], True, "parameter type mismatch"),
        (["light"], [M("dim", [("pct", "int")], "bool")], True, "parameter name mismatch"),
        (["light"], [M("dim", [], "bool")], True, "parameter count mismatch"),
        (["light"], [M("dim", [("percent", "int"), ("x", "int")], "bool")], True, "parameter count mismatch (more)"),
        (["light"], [M("dim", [("percent", "int")], "int")], True, "return type mismatch"),
        (["light"], [M("dim", [("percent", "int")], "null")], True, "return type missing"),
        (["light"], [M("dim", [("percent", "int")], "bool", modifier=1)], True, "redundant modifier"),
        (["light"], [M("dim", [("percent", "int")], "bool", modifier=2)], True, "redundant modifier (event)"),
        (["light"], [M("dim", [("percent", "int")], "bool", extracts=False)], True, "singleton not extracted"),
        (["light", "temperature"], [DIM, TEMP], True, "conflicting capabilities"),
        (["temperature", "light"], [DIM, TEMP], True, "conflicting capabilities (other order)"),
        (["zz_nope"], [], True, "unknown capability"),
        (["light", "zz_nope"], [DIM], True, "unknown capability next to a known one"),
        (["light", "light"], [DIM], False, "capability named twice"),
        ([], [], False, "no capability, no method"),
        ([], [DIM], True, "no capability but a method"),
    ]
    out = [(impl_text(c, ms), err, what, impl_sexp(c, ms)) for c, ms, err, what in table]
    if rng is not None:
        tys = ["int", "bool", "float", "str", "null"]
        for _ in range(n_random):
            caps = [rng.choice(["light", "temperature", "light", "zz_nope"]) for _ in range(rng.randrange(0, 3))]
            ms = []
            for nm in rng.sample(["dim", "set_temp", "other"], rng.randrange(0, 4)):
                base = {"dim": DIM, "set_temp": TEMP}.get(nm, M("other", [("a", "int")], "null"))
                m = dict(base)
                if rng.random() < 0.3:
                    names = rng.sample(["percent", "celsius", "p"], rng.randrange(0, 3))
                    m["params"] = [(nm_, rng.choice(tys[:4])) for nm_ in names]
                if rng.random() < 0.2:
                    m["ret"] = rng.choice(tys)
                if rng.random() < 0.15:
                    m["modifier"] = rng.choice([1, 2])
                if rng.random() < 0.15:
                    m["extracts"] = False
                ms.append(m)
            out.append((impl_text(caps, ms), None, "random", impl_sexp(caps, ms)))
    out.append((impl_text(["light"], [DIM], template="ZzNope"), True, "unknown template", None))
    out.append((impl_text(["light"], [DIM], singleton="$ZzNope"), True, "unknown singleton", None))
    return out


TRIG_HEAD = "import { trigger minute } from triggers;\n"
ARG_LIT = {"int": "5", "str": '"x"', "bool": "true", "float": "1.5", "null": "null"}


def trig_case(known=True, cb_known=True, itself=False, modifier=2, params=(("elapsed", "int"),), ret="null", args=("int",)):
    """-> (program text, abstract sexp) of one row of the trigger decision table"""
    body = {"null": "", "bool": "true", "int": "1", "float": "1.5", "str": '"s"'}[ret]
    rs = "" if ret == "null" else f" -> {ret}"
    stmt = f"trigger {'cb' if cb_known else 'zz_nope'} at {'minute' if known else 'zz_trig'}({', '.join(ARG_LIT[a] for a in args)});"
    sig = ", ".join(f"{n}: {t}" for n, t in params)
    cb_body = f"{{ {stmt} {body} }}" if itself else f"{{ {body} }}"
    main = "fn main() { }" if itself else f"fn main() {{ {stmt} }}"
    text = (TRIG_HEAD if known else "") + f"{MODIFIERS[modifier]}fn cb({sig}){rs} {cb_body}\n{main}\n"
    sexp = "(trig %s %s %s %d (%s) %s (%s))" % ("true" if known else "false", "true" if cb_known else "false",
                                               "true" if itself else "false", modifier,
                                               " ".join(f"({hexs(n)} {t})" for n, t in params), ret, " ".join(args))
    return text, sexp


def trigger_cases(rng=None, n_random=0):
    """(text, expect_error, what, abstract sexp)"""
    table = [
        (dict(), False, "well-shaped callback"),
        (dict(params=(("n", "int"),)), False, "parameter name differs (allowed)"),
        (dict(params=(("elapsed", "str"),)), True, "callback parameter type"),
        (dict(params=(("n", "str"),)), True, "callback parameter type (other name)"),
        (dict(params=()), True, "callback parameter count"),
        (dict(params=(("elapsed", "int"), ("b", "int"))), True, "callback parameter count (more)"),
        (dict(ret="int"), True, "callback return type"),
        (dict(modifier=0), True, "callback without event modifier"),
        (dict(modifier=1), True, "callback with pub modifier"),
        (dict(args=("str",)), True, "trigger argument type"),
        (dict(args=()), True, "trigger argument count"),
        (dict(args=("int", "int")), True, "trigger argument count (more)"),
        (dict(args=("null",)), True, "trigger argument without value"),
        (dict(cb_known=False), True, "unknown callback"),
        (dict(known=False), True, "unknown trigger"),
        (dict(itself=True), True, "trigger from itself"),
    ]
    out = []
    for kw, err, what in table:
        text, sexp = trig_case(**kw)
        out.append((text, err, what, sexp))
    if rng is not None:
        tys = ["int", "str", "bool", "float"]
        for _ in range(n_random):
            names = rng.sample(["elapsed", "n", "b"], rng.randrange(0, 3))
            kw = dict(known=rng.random() < 0.85, cb_known=rng.random() < 0.9, itself=rng.random() < 0.1,
                      modifier=rng.choice([2, 2, 2, 0, 1]), params=tuple((n, rng.choice(tys)) for n in names),
                      ret=rng.choice(["null", "null", "null", "int", "bool"]),
                      args=tuple(rng.choice(tys + ["int", "int", "null"]) for _ in range(rng.choice([1, 1, 1, 0, 2]))))
            if rng.random() < 0.5:
                kw["params"] = (("elapsed", "int"),)
            text, sexp = trig_case(**kw)
            out.append((text, None, "random", sexp))
    return out


SOUP = [
    # any-objects, any, casts
    "let o# = new { ? };", "let o# = new { ? }; o#.set(\"k\", 1);", "let o# = new { ? }; let a# = o#.get(\"k\");",
    "let o# = new { ? }; let b#: int = o#[\"k\"] as int;", "let o# = new { ? }; let c# = o#->k;", "let o# = new { ? }; let d# = o#~>k as str;",
    "let o# = new { ? }; let d# = o#~>k;", "let o# = new { ? }; println(o#[\"k\"]);", "let o# = new { ? }; println(o#[1]);",
    "let o# = new { ? }; println(o#.keys(), o#.to_json(), o#.get_type(\"k\"));", "let o# = new { ? }; let e#: int = o#.get(\"k\").unwrap() as int;",
    "let j# = \"1\".parse_json() as int;", "let j# = \"1\".parse_json();", "let j#: int = \"1\".parse_json();", "println(\"1\".parse_json());",
    "let o# = new { a: 1 }; let p# = o# as { ? };", "let o# = new { a: 1 }; println(o#[\"a\"], o#.keys());", "let o# = new { a: 1 }; let k# = \"a\"; let v# = o#[k#] as int;",
    "let o# = new { a: 1 }; println(o#->a);", "println(5->k);", "println(\"a\"~>b);", "let o# = new { keys: 1 };", "let o# = new { a: 1, a: 2 };",
    # host values
    "let t# = time.now(); println(t#.year, t#.unix_milli);", "time.sleep(1.5);", "time.sleep(1);", "let s# = fmt(\"%d\", 1);", "let s# = fmt(1);", "let s# = fmt();",
    "assert(true);", "assert(1);", "debug(1, \"a\");", "println(log(1.0, 2.0));", "println(log(1, 2.0));", "let t# = time.add_days(time.now(), 2);",
    "println(time.nope);", "println(print);", "let p# = print; p#(1);", "let b# = print == println;",
    # ranges, lists, strings, options
    "let r# = 1..5; println(r#.start, r#.rev().diff(), r#.to_string());", "let r# = 1..=\"a\";", "for i# in (1..3).rev() { println(i#); }",
    "let l#: [int] = []; l#.sort();", "let l# = [true]; l#.sort();", "let m# = [[1], [2]]; m#[0][0] = 1; println(m#[0].len());", "let m# = [[1], [\"a\"]];",
    "let l# = [1]; l#.concat([2]); l#.insert(0, 5); l#.remove(0); println(l#.pop(), l#.pop_front(), l#.last());", "let l# = [1]; l#.push(\"a\");",
    "println(\"abc\".replace(\"a\", \"b\").repeat(2).split(\",\").join(\";\"));", "println(\"a\".substring(1), \"a\".compare_lev(\"b\"), \"1\".parse_int());",
    "println(\"a\".contains(1));", "println((1).to_range(), (1.5).trunc(), (1.5).is_int(), true.to_string());",
    "let q# = ?1; println(q#.unwrap_or(2), q#.is_some(), q#.expect(\"x\"), q#.to_string());", "let q# = ?1; println(q#.unwrap_or(\"s\"));", "let q#: ?int = none; println(q#.is_none());",
    "let q# = ?none;", "let q#: ??int = ?none;", "let q# = [none];", "let q#: [?int] = [none];", "let q# = (none);", "let q#: ?int = (none);",
    # closures and function types
    "let f# = fn(a: int) -> int { a }; let g#: fn(a: int) -> int = f#; println(g#(1));", "let f# = fn(a: int) -> int { a }; let g#: fn(b: int) -> int = f#;",
    "let f# = fn(a: int, b: str) { }; let g#: fn(b: str, a: int) -> null = f#;", "let f# = fn() { }; f# = fn() { };", "let f# = fn() { }; let l# = [f#, f#];",
    "let f# = fn() -> int { return 1; }; println(f#() + 1);", "let f# = fn() -> int { return \"s\"; };", "let f# = fn() { return 1; };",
    "let f# = fn(a: int) { }; f#(1, 2);", "let f# = fn(a: Zz) { };", "let f# = fn() -> Zz { };", "let f# = fn(a: int) -> fn() -> int { fn() -> int { a } }; println(f#(1)());",
    "let f# = fn() { }; println(f# as fn() -> null);", "let f# = fn() { }; println(f#());", "println(if true { print } else { println });",
    # casts
    "let q# = (1 as float) as int; println(q# as bool, true as float);", "println(\"a\" as int);", "println(1 as str);", "println([1] as [float]);", "println(1 as any);",
    "println([] as [int]);", "println(none as ?int);", "println((?1) as ?float);", "println(1 as Zz);",
    # control flow
    "let v# = match 1 { 1 => \"a\", _ => \"b\" };", "let v# = match 1 { 1 => \"a\" };", "let v# = match 1 { _ => 1, 2 => 3 };", "let v# = match \"a\" { 1 => 2, _ => 3 };",
    "let v# = match 1 { 1 => 2, 2 => \"s\", _ => 3 };", "match 1 { 1 => println(1) }", "match 1 { }", "let v# = match true { true => 1, false => 2 };",
    "let v# = try { 1 } catch e# { \"s\" };", "let v# = try { throw(1) } catch e# { println(e#.message, e#.line, e#.filename); 2 };", "let v# = try { 1 } catch e# { e#.nope };",
    "let v# = if true { 1 };", "let v# = if true { 1 } else { throw(\"x\") };", "let v# = if 1 { 1 } else { 2 };", "let v#: int = { return; };", "let v# = { 1 };", "let v# = { let w# = 2; w# };",
    "loop { break; }", "loop { let w# = 1; if w# > 2 { continue; } break; }", "while true { 1 }", "for c# in \"abc\" { println(c#.len()); }", "for c# in 5 { }", "for c# in [[1]] { println(c#[0]); }",
    "let v# = -throw(\"x\");", "throw(\"x\")();", "let v# = throw(\"x\") + 1;", "let v# = [throw(\"x\"), 1];", "println(throw(\"x\"));", "throw();", "throw(1, 2);",
    "let v# = 1; v# = throw(\"x\");", "let v# = 1; v# += 1.5;", "let v# = 1.5; v# **= 2.0;", "let v# = true; v# |= false; v# += true;", "let v# = \"s\"; v# += \"t\"; v# -= \"u\";",
    "let v# = [1]; v# = [2]; v# += [3];", "let v# = null;", "let v# = null; println(v# == null);", "println(null);", "let v# = 1; println(v# = 2);",
    "let v# = 1 + 2 * 3 ** 2 % 4 << 1 | 2 & 3 ^ 4;", "let v# = 1 < 2 && 2.5 >= 1.5 || \"a\" == \"b\";", "let v# = 1 && 2;", "let v# = [1] == [2]; let w# = [1] < [2];", "let v# = !1; let w# = !1.5;",
    "let v# = zz_undefined;", "zz_undefined(1);", "let v#: Zz = 1;", "let v#: [Zz] = [];", "let v#: { a: int, a: str } = new { a: 1 };", "let v#: fn(a: int, a: int) -> int = fn(a: int) -> int { 1 };",
    "let v#: { a: int } = new { a: 1 }; println(v#.a);", "let v#: { a: int } = new { a: \"s\" };", "let v#: any = 1;", "let v#: [any] = [1];", "let v#: ?any = ?1;",
]


def soup_cases(rng, n):
    """main bodies assembled from assorted well- and ill-typed snippets (tie only)."""
    out = []
    for _ in range(n):
        k = rng.randrange(1, 7)
        parts = []
        for j in range(k):
            parts.append(rng.choice(SOUP).replace("#", str(j)))
        wrap = rng.random()
        body = " ".join(parts)
        if wrap < 0.15:
            body = "loop { " + body + " break; }"
        elif wrap < 0.3:
            body = "let zz_h = fn() { " + body + " }; zz_h();"
        ret = rng.random()
        if ret < 0.2:
            out.append("fn zz_f(a: int) -> int { " + body + " a }\nfn main() { println(zz_f(1)); }\n")
        elif ret < 0.3:
            out.append("let zz_g = 1;\nfn main() { " + body + " println(zz_g); }\n")
        else:
            out.append("fn main() { " + body + " }\n")
    return out


def fixed_cases():
    """(id, text, expect_error, what). Witnesses of the analyzer findings and rule corner cases."""
    return [
        ("A1", 'fn f() -> int { let g = fn() -> str { "a" }; println(g()); return "x"; }\nfn main() { println(f()); }\n', True,
         "return of the wrong type after a closure literal"),
        ("A1b", 'fn f() -> int { let g = fn() { }; g(); return 1; }\nfn main() { println(f()); }\n', False,
         "correct return after a closure literal of another return type"),
        ("A2", "fn main() { loop { let f = fn() { break; }; f(); break; } }\n", True, "break inside a closure inside a loop"),
        ("A2b", "fn main() { for i in 0..3 { let f = fn() { continue; }; f(); println(i); } }\n", True, "continue inside a closure inside a loop"),
        ("A3", "fn main() { let f: fn(a: int) -> int = fn(a: int) -> int { a }; println(f(1)); }\n", False,
         "annotated closure with parameters"),
        ("A3b", "fn main() { let f: fn(a: int) -> int = fn(a: str) -> int { 1 }; println(f(1)); }\n", True,
         "annotated closure with a wrong parameter type"),
        ("A4", "fn f() { }\nlet x = f;\nfn main() { }\n", True, "function value as global initialiser"),
        ("A5", "fn f(x: int) -> int { match x { 1 => { return 1; } } }\nfn main() { println(f(2)); }\n", True,
         "match without default whose only arm diverges: function can fall off its end"),
        ("A5b", "fn f(x: int) -> int { match x { 1 => { return 1; }, _ => { return 2; } } }\nfn main() { println(f(2)); }\n", False,
         "match with default whose arms all diverge"),
        ("A6", "let a = 1;\nlet r = a..5;\nfn main() { println(r); }\n", True, "range global with non-constant bound"),
        ("A7", "fn main() { let a = 1.5; a %= 2.0; println(a); }\n", True, "%= on floats"),
        ("A9", 'fn h() { throw("x"); }\nfn g() -> int { loop { } }\nfn main() { h(); println(g()); }\n', False,
         "loop without break is diverging regardless of earlier functions"),
        ("A9b", 'fn g() -> int { loop { } }\nfn h() { throw("x"); }\nfn main() { h(); println(g()); }\n', False, "same, other order"),
        ("A10", "fn main() { let b = print == println; println(b); }\n", False, "comparison of two variadic functions"),
        ("A10b", "fn main() { let f = if true { print } else { fmt }; f(\"x\"); }\n", True, "branches of different variadic function types"),
        # type definitions are scoped like variables: the innermost declaration of a name is the one in force
        ("type-shadow-ok", 'type T = int;\nfn main() { { type T = str; let x: T = "hello"; println(x); } let y: T = 1; println(y); }\n', False,
         "a type name re-declared in a nested block shadows the outer one there and only there"),
        ("type-shadow-bad", 'type T = int;\nfn main() { { type T = str; let x: T = 42; println(x); } }\n', True,
         "value of the outer type under the inner declaration of the name"),
        ("type-shadow-after", 'type T = int;\nfn main() { { type T = str; let x: T = "a"; println(x); } let y: T = "s"; println(y); }\n', True,
         "after the nested block the outer declaration is in force again"),
        ("type-shadow-lambda", 'type T = int;\nfn main() { let f = fn() -> str { type T = str; let x: T = "a"; x }; println(f()); let y: T = 2; println(y); }\n', False,
         "a type name re-declared in a function literal"),
        ("type-shadow-param", 'type T = int;\nfn main() { { type T = [str]; let f = fn(a: T) -> int { a.len() }; println(f(["x"])); } }\n', False,
         "parameter annotation under the inner declaration"),
        ("type-alias-chain", 'type A = int;\ntype B = [A];\nfn main() { let b: B = [1, 2]; let c: B = ["x"]; println(b, c); }\n', True,
         "alias of an alias: wrong element type"),
        # a function type that names a parameter twice, wherever a type can stand
        ("fntype-dup-param-typedef", "type Cb = fn(x: int, x: str) -> null;\nfn main() { }\n", True, "duplicate parameter name in a function type (type definition)"),
        ("fntype-dup-param-let", "fn main() { let f: fn(a: int, a: int) -> int = fn(a: int, b: int) -> int { a }; println(f(1, 2)); }\n", True,
         "duplicate parameter name in a function type (let annotation)"),
        ("fntype-dup-param-param", "fn ap(f: fn(k: str, k: str) -> str) -> str { f(\"a\", \"b\") }\nfn main() { }\n", True,
         "duplicate parameter name in a function type (parameter)"),
        ("fntype-dup-param-nested", "type L = [?fn(q: bool, q: bool) -> bool];\nfn main() { }\n", True, "duplicate parameter name in a function type nested in a list type"),
        ("fntype-distinct-params", "type Cb = fn(x: int, y: int) -> null;\nfn main() { }\n", False, "distinct parameter names"),
        # function types of another parameter kind (variadic builtins against fixed lists) inside object fields, as
        # arguments and in joined branches: a diagnostic, never a crash
        ("fnkind-in-object-let", "fn main() { let _o: { f: fn() -> null } = new { f: println }; }\n", True, "variadic builtin in an object field against a fixed function type"),
        ("fnkind-in-object-arg", "fn take(o: { f: fn(a: int) -> null }) { } fn main() { take(new { f: print }); }\n", True, "the same as a call argument"),
        ("fnkind-in-object-join", "fn main() { let x = if true { new { f: println } } else { new { f: fn() { } } }; println(x); }\n", True, "the same in joined branches"),
        ("fnkind-nested-return", "fn main() { let f: fn() -> fn() -> null = (?println).unwrap; }\n", True, "function type whose RETURN type differs in parameter kind"),
        # a string-literal index on a concrete object type names a declared field, never a builtin member
        ("index-builtin-keys", 'fn main() { let o = new { a: 1 }; let k = o["keys"]; println(k); }\n', True, "index `keys` on an object without such a field"),
        ("index-builtin-to-json", 'fn main() { let o = new { a: 1 }; println(o["to_json"]); }\n', True, "index `to_json` on an object without such a field"),
        ("index-builtin-to-json-indent", 'fn main() { let o = new { a: 1 }; let f: fn() -> str = o["to_json_indent"]; println(f()); }\n', True, "index `to_json_indent`"),
        ("index-declared", 'fn main() { let o = new { kk: 3, a: 1 }; let k: int = o["kk"]; println(k + o["a"]); }\n', False, "declared fields are indexed by string literals"),
        ("index-unknown", 'fn main() { let o = new { a: 1 }; println(o["nope"]); }\n', True, "index with an unknown field name"),
        # a function that extracts a singleton keeps that parameter kind when it is used as a value
        ("singleton-fn-value", "$Lamp = { level: int };\nfn bump(l: $Lamp, delta: int) -> int { l.level += delta; l.level }\nfn main() { let step = bump; println(step(5)); println(bump(1)); let again = step; println(again(2)); }\n", False,
         "function with a singleton extraction called through a variable"),
        ("singleton-fn-value-arity", "$Lamp = { level: int };\nfn bump(l: $Lamp, delta: int) -> int { l.level += delta; l.level }\nfn main() { let step = bump; println(step(5, 6)); }\n", True,
         "the same with a surplus argument"),
        # a singleton the host does not provide is created from the default value of its type: every singleton type has one
        ("SG1-fn", "$S = fn() -> int;\nfn main() { println(1); }\n", True, "singleton of a function type"),
        ("SG1-field-fn", "$S = { a: int, f: fn(x: int) -> null };\nfn main() { println(1); }\n", True, "singleton with a function field"),
        ("SG1-nested-fn", "$S = { a: { b: { c: fn() -> int } } };\nfn use(s: $S) -> int { 1 }\nfn main() { println(use()); }\n", True, "function type three objects deep"),
        ("SG1-alias-fn", "type F = fn() -> int;\n$S = { f: F };\nfn main() { println(1); }\n", True, "function type behind an alias"),
        ("SG1-any", "$S = { a: any };\nfn main() { println(1); }\n", True, "singleton with a field of type any"),
        ("SG1-list-option-ok", "$S = { a: [fn() -> int], o: ?fn() -> int, k: int, d: { ? }, r: range };\nfn use(s: $S) -> int { s.a.len() + s.k }\nfn main() { println(use()); }\n", False,
         "function types inside a list / an option have a default value (empty list, none)"),
        # a list literal takes its element type from its FIRST element; every later element is checked against it
        ("list-first-elem-none-last", 'fn total(l: [?int]) -> int { let s = 0; for x in l { s += x.unwrap_or(0); } s }\nfn main() { let readings = [?21, ?19, none]; println(total(readings), total([?1, none])); let names = [?"a", none, ?"b", none]; println(names.len()); }\n', False,
         "`none` after typed options: the list keeps the type of its first element"),
        ("list-first-elem-none-first", "fn main() { let l = [none, ?1]; println(l); }\n", True, "`none` first: the element type is ?any (implicit any)"),
        ("list-first-elem-mixed", 'fn main() { let l = [?1, none, ?"x"]; println(l); }\n', True, "a later element of another option type"),
        ("list-first-elem-mixed-scalar", 'fn main() { let l = [1, 2, "x", 3]; println(l); }\n', True, "a later element of another scalar type, followed by a fitting one"),
        # an if/else expression takes the type of its ELSE branch (compatible branches may differ: none is ?any)
        ("if-join-none-then", 'fn main() { let c = true; let x = if c { none } else { ?41 }; println(x.unwrap_or(0) + 1); println((if c { none } else { ?"a" }).unwrap_or("-") + "b"); }\n', False,
         "`none` in the then branch, a typed option in the else branch: ?int"),
        ("if-join-none-else", "fn main() { let c = true; let y = if c { ?1 } else { none }; println(y); }\n", True, "`none` in the else branch: ?any (implicit any)"),
        ("if-join-mismatch", 'fn main() { let c = true; let z = if c { ?1 } else { ?"s" }; println(z); }\n', True, "incompatible option branches"),
        # a variadic function with fixed leading parameters needs at least those: exactly those is enough
        ("variadic-exact-fixed", 'fn show(s: str) -> str { fmt(s) }\nfn main() { println(fmt("plain")); println(fmt("%d-%s", 1, "two")); println(show("== hi ==")); println(); print(); }\n', False,
         "fmt called with its format string only"),
        ("variadic-too-few", "fn main() { println(fmt()); }\n", True, "fmt without its format string"),
        # a try expression whose try block diverges has the type of its catch block
        ("try-never-catch-value-ok", "fn risky(n: int) -> int { n }\nfn f(n: int) -> int { let v = try { return risky(n); } catch _e { 0 - 1 }; v + 1 }\nfn main() { println(f(1)); }\n", False,
         "diverging try block, int catch block: the value is an int"),
        ("try-never-catch-value-misuse", "fn risky(n: int) -> int { n }\nfn f(n: int) -> int { let v = try { return risky(n); } catch _e { 0 - 1 }; let w: str = v; println(w); v }\nfn main() { println(f(1)); }\n", True,
         "the int of the catch block used as a str"),
        # every literal of a multi-literal match arm has the type of the control expression
        ("match-arm-second-literal", 'fn main() { let x = 2; println(match x { 1 | "a" => 10, _ => 20 }); }\n', True, "second literal of an arm of another type"),
        ("match-arm-third-literal", "fn main() { let x = 2; println(match x { 1 | 2 | true => 10, _ => 20 }); }\n", True, "third literal of an arm of another type"),
        ("match-arm-multi-ok", "fn main() { let x = 2; println(match x { 1 | 2 | 3 => 10, _ => 20 }); }\n", False, "several literals of the control type"),
        # the identifier of a catch block lives in the catch block only
        ("catch-ident-after", 'fn main() { try { throw("x"); } catch e { println(e.message); } println(e.message); }\n', True, "catch identifier used after the try expression"),
        ("catch-ident-after-fn", 'fn f() -> str { let r = try { "a" } catch err { err.message }; err.message }\nfn main() { println(f()); }\n', True, "catch identifier used after the try expression (function tail)"),
        ("catch-ident-shadows", 'fn main() { let e = 42; try { throw("x"); } catch e { println(e.message); } println(e + 1); }\n', False,
         "a variable of the enclosing block named like the catch identifier: shadowed inside, intact outside"),
        ("catch-ident-twice", 'fn main() { try { throw("x"); } catch e { println(e.message); } try { throw("y"); } catch e { println(e.line); } }\n', False, "two catch blocks with the same identifier"),
        ("main-missing", "fn f() { }\n", True, "no main"),
        ("main-ok", "fn main() { }\n", False, "empty main"),
        ("empty-match", "fn main() { let y: int = match 1 { }; println(y); }\n", True, "match without arms has no value"),
        # a function value with MORE parameters than the expected function type is not compatible
        ("fntype-surplus-arg", 'fn two(a: int, b: str) -> int { a } fn apply(f: fn(a: int) -> int) -> int { f(1) }\nfn main() { println(apply(two)); }\n', True,
         "function with a surplus parameter passed where a one-parameter function is expected"),
        ("fntype-surplus-let", 'fn two(a: int, b: str) -> int { a }\nfn main() { let f: fn(a: int) -> int = two; println(f(1)); }\n', True,
         "function with a surplus parameter bound to a one-parameter function type"),
        ("fntype-surplus-list", 'fn two(a: int, b: str) -> int { a } fn one(a: int) -> int { a }\nfn main() { let fs: [fn(a: int) -> int] = [one, two]; println(fs.len()); }\n', True,
         "surplus-parameter function inside a list of one-parameter functions"),
        ("fntype-fewer", 'fn zero() -> int { 1 } fn apply(f: fn(a: int) -> int) -> int { f(1) }\nfn main() { println(apply(zero)); }\n', True,
         "function with fewer parameters than expected"),
        ("fntype-equal-ok", 'fn one(a: int) -> int { a + 1 } fn apply(f: fn(a: int) -> int) -> int { f(1) }\nfn main() { println(apply(one)); }\n', False,
         "function of the expected type"),
        # F1: the parameters of two function types correspond by POSITION (calls bind arguments positionally); a same-named
        # parameter at another position does not count
        ("F1", 'fn g(a: int, b: str) -> int { a + b.len() }\nfn main() { let f: fn(b: str, a: int) -> int = g; println(f("xyz", 1)); }\n', True,
         "function bound to a function type that lists the same parameters in another order"),
        ("F1-order-ok", 'fn g(a: int, b: str) -> int { a + b.len() }\nfn main() { let f: fn(a: int, b: str) -> int = g; println(f(1, "xyz")); }\n', False,
         "function bound to a function type with the same parameters in the same order"),
        ("F1-three", 'fn h(a: int, b: str, c: bool) -> int { if c { a + b.len() } else { a } }\n'
                     'fn main() { let f: fn(c: bool, a: int, b: str) -> int = h; println(f(true, 1, "xyz")); }\n', True,
         "three parameters, rotated"),
        ("F1-three-ok", 'fn h(a: int, b: str, c: bool) -> int { if c { a + b.len() } else { a } }\n'
                        'fn main() { let f: fn(a: int, b: str, c: bool) -> int = h; println(f(1, "xyz", true)); }\n', False,
         "three parameters in declaration order"),
        ("F1-literal", 'fn main() { let f: fn(b: str, a: int) -> int = fn(a: int, b: str) -> int { a + b.len() }; println(f("xyz", 1)); }\n', True,
         "function literal bound to a function type with reordered parameters"),
        ("F1-param", 'fn g(a: int, b: str) -> int { a + b.len() } fn apply(f: fn(b: str, a: int) -> int) -> int { f("xyz", 1) }\n'
                     'fn main() { println(apply(g)); }\n', True,
         "function passed where a function type with reordered parameters is expected"),
        ("F1-param-ok", 'fn g(a: int, b: str) -> int { a + b.len() } fn apply(f: fn(a: int, b: str) -> int) -> int { f(1, "xyz") }\n'
                        'fn main() { println(apply(g)); }\n', False,
         "function passed where its own function type is expected"),
        ("F1-same-types", 'fn g(a: int, b: int) -> int { a - b }\nfn main() { let f: fn(b: int, a: int) -> int = g; println(f(1, 2)); }\n', True,
         "swapped parameter names of equal types: the names of corresponding parameters differ"),
        # a diverging FIRST arm must not fix the type of the match (later arms decide it)
        ("match-never-first", 'fn main() { let a = 1; let x = match a { 0 => throw("z"), 1 => 20, _ => "s" }; println(x); }\n', True,
         "arms of different types after a diverging first arm"),
        ("match-never-first-let", 'fn main() { let a = 1; let x: str = match a { 0 => throw("z"), _ => 20 }; println(x); }\n', True,
         "int-valued match with a diverging first arm bound to a str"),
        ("match-never-first-default", 'fn f(a: int) -> int { match a { 0 => throw("z"), 1 => 20 } }\nfn main() { println(f(1)); }\n', True,
         "value-producing match without default whose first arm diverges"),
        ("match-never-first-block", 'fn f(a: int) -> str { let r = match a { 0 => { return "q"; }, _ => 5 }; r }\nfn main() { println(f(1)); }\n', True,
         "match whose first arm returns, the rest is int, used as str"),
        ("match-never-first-ok", 'fn f(a: int) -> int { let r = match a { 0 => throw("z"), 1 => 20, _ => 30 }; r + 1 }\nfn main() { println(f(1)); }\n', False,
         "well-typed match with a diverging first arm: its value is an int"),
        ("match-never-second-ok", 'fn f(a: int) -> int { match a { 0 => 1, 1 => throw("z"), _ => 30 } }\nfn main() { println(f(1)); }\n', False,
         "diverging arm in second position"),
    ] + _f3_cases() + _s1_cases()


def _s1_cases():
    W = "fn work(n: int) { println(n); }\n"
    return [
        # S1: only a function of the program (defined in the module or imported from a code module) can be spawned: the
        # compiler emits Spawn for a function NAME; a function VALUE (local, parameter, global, builtin, host import) cannot
        # run on a new core. Thread handles do not exist: a spawn expression has the type null
        ("S1-local", W + "fn main() { let f = work; spawn f(3); }\n", True, "spawn of a local variable holding a function"),
        ("S1-param", "fn run(f: fn(n: int) -> null) { spawn f(1); }\n" + W + "fn main() { run(work); }\n", True, "spawn of a parameter of function type"),
        ("S1-lambda", "fn main() { let f = fn(n: int) { println(n); }; spawn f(1); }\n", True, "spawn of a variable holding a function literal"),
        ("S1-lambda-in-lambda", W + "fn main() { let g = fn() { let w = work; spawn w(1); }; g(); }\n", True, "the same inside a function literal"),
        ("S1-shadow", W + "fn main() { let work = fn(n: int) { println(n + 1); }; spawn work(1); }\n", True,
         "a local function value that shadows a function of the module"),
        ("S1-builtin", "fn main() { spawn println(1); }\n", True, "spawn of a builtin"),
        ("S1-builtin-throw", 'fn main() { spawn throw("x"); }\n', True, "spawn of the builtin throw"),
        ("S1-builtin-let", "fn main() { let h = spawn print(1, 2); }\n", True, "spawn of a builtin, let-bound"),
        ("S1-host-import", 'import { ping } from net;\nfn main() { spawn ping("a", 1.0); }\n', True, "spawn of a function imported from a host module"),
        ("S1-global-int", "let g = 1;\nfn main() { spawn g(1); }\n", True, "spawn of a global that is no function"),
        ("S1-catch-ident", W + 'fn main() { try { throw("x"); } catch work { spawn work(1); } }\n', True, "spawn of a catch identifier that shadows a function"),
        ("S1-for-ident", W + "fn main() { for work in 0..2 { spawn work(1); } }\n", True, "spawn of a loop variable that shadows a function"),
        ("S1-undefined", "fn main() { spawn nope(1); }\n", True, "spawn of an undefined name"),
        ("S1-join", W + "fn main() { let h = spawn work(3); h.join(); }\n", True, "`join` on the result of a spawn: thread handles do not exist"),
        ("S1-join-value", W + "fn main() { let h = spawn work(3); println(h.join); }\n", True, "`join` read as a value"),
        ("S1-join-direct", W + "fn main() { (spawn work(3)).join(); }\n", True, "`join` directly on the spawn expression"),
        ("S1-result-int", "fn calc(n: int) -> int { n * 2 }\nfn main() { let r: int = spawn calc(3); println(r); }\n", True,
         "the result of a spawn is not the result of the function"),
        ("S1-result-arg", "fn calc(n: int) -> int { n * 2 }\nfn main() { println(spawn calc(3)); }\n", True, "a spawn has no value that could be printed"),
        ("S1-called-twice", W + "fn main() { spawn work(1)(2); }\n", True, "call of the result of a spawn"),
        ("S1-closure-arg", "fn ap(f: fn() -> int) { println(f()); }\nfn main() { spawn ap(fn() -> int { 1 }); }\n", True, "function value as an argument of a spawn"),
        # controls: functions of the program, in every position
        ("S1-fn-ok", W + "fn main() { spawn work(3); }\n", False, "spawn of a function of the module"),
        ("S1-fn-later-ok", "fn main() { spawn later(3); }\nfn later(n: int) { println(n); }\n", False, "spawn of a function defined further down"),
        ("S1-event-ok", "event fn ev(a: int) { println(a); }\nfn main() { spawn ev(3); }\n", False, "spawn of an event function"),
        ("S1-pub-ok", "pub fn helper(n: int) { println(n); }\nfn main() { spawn helper(3); }\n", False, "spawn of a pub function"),
        ("S1-let-ok", W + "fn main() { let h = spawn work(1); let k: null = h; }\n", False, "the result of a spawn is null"),
        ("S1-value-fn-ok", "fn calc(n: int) -> int { n * 2 }\nfn main() { spawn calc(3); let h = spawn calc(4); }\n", False,
         "spawn of a function with a result: the result is dropped"),
        ("S1-nested-ok", W + "fn main() { let g = fn() { spawn work(1); }; g(); try { spawn work(2); } catch e { println(e.message); } "
                             "for i in 0..2 { spawn work(i); } let i = 0; while i < 2 { spawn work(i); i += 1; } loop { spawn work(9); break; } }\n", False,
         "spawns inside a function literal, try, for, while, loop"),
        ("S1-list-ok", W + "fn main() { let l = [spawn work(1), spawn work(2)]; println(l.len()); println(spawn work(3) == null); }\n", False,
         "spawn expressions as list elements and operands"),
        ("S1-other-local-ok", W + "fn main() { let w = work; w(1); spawn work(2); }\n", False, "a function value of another name does not matter"),
        ("S1-recursive-ok", "fn down(n: int) { if n > 0 { spawn down(n - 1); } }\nfn main() { spawn down(3); }\n", False, "a function that spawns itself"),
        ("S1-singleton-ok", "$Lamp = { lvl: int };\nfn dim(lamp: $Lamp, p: int) { lamp.lvl = p; }\nfn main() { spawn dim(3); }\n", False,
         "spawn of a function that extracts a singleton"),
    ]


def _f3_cases():
    return [
        # F3: a function may not take a name that a value of the module's root scope already has (global, import, builtin):
        # the analyzer resolves the name to the value, both backends run the function
        ("F3", "let f = 1;\nfn f() { }\nfn main() { }\n", True, "function named like a global of the module"),
        ("F3-fn-first", "fn f() { }\nlet f = 1;\nfn main() { }\n", True, "global named like a function defined before it in the source"),
        ("F3-used", "let f = 1;\nfn f() -> int { 2 }\nfn main() { println(f); }\n", True, "function named like a global, the name is read"),
        ("F3-main", "fn main() { }\nlet main = 1;\n", True, "global named main"),
        ("F3-main-first", "let main = 1;\nfn main() { }\n", True, "global named main, before the function"),
        ("F3-builtin", "fn println(x: int) { }\nfn main() { println(1); }\n", True, "function named like a builtin of the host scope"),
        ("F3-throw", "fn throw(x: int) -> int { x + 1 }\nfn main() { println(throw(1)); }\n", True, "function named like the builtin throw"),
        ("F3-import", "import { ping } from net;\nfn ping() { }\nfn main() { }\n", True, "function named like a value imported from a host module"),
        ("F3-pub", "pub let f = 1;\npub fn f() { }\nfn main() { }\n", True, "pub function named like a pub global"),
        ("F3-distinct-ok", "let f = 1;\nfn g() { }\nfn main() { g(); println(f); }\n", False, "global and function of different names"),
        ("F3-local-ok", "fn f() -> int { 1 }\nfn main() { let f = f(); println(f); }\n", False, "a local variable may shadow a function"),
        ("F3-param-ok", "fn f(f: int) -> int { f + 1 }\nfn main() { println(f(1)); }\n", False, "a parameter may be named like the function"),
        ("F3-import-ok", "import { ping } from net;\nfn pong() { }\nfn main() { pong(); }\n", False, "imported value and function of different names"),
    ]


def operator_matrix_cases():
    """Every (operand type, operand type, infix / compound-assignment operator) as a one-line program; no expectation of the
    generator: the model (proved equivalent to the typing relation) says which are admitted, the analyzer must agree."""
    lits = {"int": "2", "float": "2.5", "bool": "true", "str": '"s"', "list": "[1]", "range": "(1..3)", "opt": "(?1)",
            "obj": "new { a: 1 }", "null": "null", "fn": "main"}
    infix = ["+", "-", "*", "/", "%", "**", "<<", ">>", "|", "&", "^", "||", "&&", "==", "!=", "<", "<=", ">", ">="]
    assign = ["+=", "-=", "*=", "/=", "%=", "**=", "<<=", ">>=", "|=", "&=", "^="]
    out = []
    for ta, a in lits.items():
        for tb, b in lits.items():
            if ta != tb and {ta, tb} - {"int", "float", "bool", "str"}:
                continue        # mixed pairs beyond the scalars: covered by the operand-mismatch mutants
            for op in infix:
                out.append(f"fn main() {{ let v = ({a} {op} {b}); }}\n")
            if ta not in ("null", "fn"):
                for op in assign:
                    out.append(f"fn main() {{ let w = {a}; w {op} {b}; }}\n")
    for t, a in lits.items():
        for pre in ["-", "!", "?"]:
            out.append(f"fn main() {{ let v = ({pre}{a}); }}\n")
    return out
