"""Generators for C19 (printers, optimizer) and helpers shared with C20.

* `generate(rng, caps)`        programs that reach every expression / statement / type / item
                               form the two printers can meet (built on gen/progs.py, so that the
                               bulk of every program stays inside the fragment whose behaviour
                               is deterministic on both backends);
* `syntax_only(rng)`           texts that only have to *parse* (forms the testing host rejects:
                               unknown annotations, templates, …) for the parser-level oracle;
* `optimizer_program(rng, caps)` functions whose blocks contain diverging statements followed
                               by live-looking code at every nesting depth.

`caps` (dict of bool): features that are only generated when a probe at the start of the check
showed that the corresponding finding of another area is fixed on the tree under test:
    lambda       A1  (a function literal does not redirect later `return` statements)
    fn_types     A3  (function type annotations keep their parameters)
    match_never  A5  (a match without default is not typed `never`)
Every random choice comes from the `random.Random` passed in.
"""
import re

from gen import progs
from gen.progs import T_INT, T_BOOL, T_STR, T_FLOAT, T_LINT, T_LSTR, T_OBJ, T_OINT

# ---- string literals ---------------------------------------------------------------------

# (source text inside double quotes) pieces; every escape form of the lexer, raw non-ASCII
STR_PIECES = [
    "a", "Z9", " ", "x y", "hello", "-", "#", "%", "{}", "//", "/*", "$", "@",
    "\\n", "\\t", "\\r", "\\\\", "\\\"", "\\'", "\\b", "\\x41", "\\x7f", "\\u00e9", "\\u20ac",
    "\\U0001F600", "\\101", "\\000", "\\\\n", "\\\\\\\"",
    # every control character, through the escape forms the lexer knows (a printer must give back a form it reads)
    "\\x07", "\\x0b", "\\x0c", "\\x08", "\\x1b", "\\x00", "\\x01", "\\x1f", "\\007", "\\013", "\\014", "\\u0085", "\\u2028",
    "é", "ß", "→", "😀", "日本", "\u00a0", "\ufffd", "'", "\t",
]


def str_lit(rng, rich=True):
    """Source text of a string literal (with quotes)."""
    if not rich or rng.random() < 0.35:
        return '"' + rng.choice(progs.STR_POOL) + '"'
    n = rng.randrange(1, 5)
    body = "".join(rng.choice(STR_PIECES) for _ in range(n))
    if rng.random() < 0.15 and "'" not in body and "\\'" not in body:
        # single-quoted form: a double quote needs no escape there
        return "'" + body.replace('\\"', '"') + "'"
    return '"' + body + '"'


KEY_POOL = ["a", "b", "k", "_", "name", "a b", "fn", "if", "type", "x-y", "0", "", "é", "q\\\"t", "back\\\\slash",
            "tab\\t", "new", "_u", "A1", "with space ", "let", "none"]


def obj_key(rng):
    k = rng.choice(KEY_POOL)
    bare = k.replace("_", "a").isalnum() and k.isascii() and not k[0].isdigit() and k not in (
        "fn", "if", "type", "new", "let", "none", "_") if k else False
    if bare and rng.random() < 0.6:
        return k
    return '"' + k + '"'


FLOAT_EXTRA = ["1000000000000000000000.0", "0.00001", "3f", "1_000.5", "0.1", "123456789012345678.0", "2.5", "1_0f",
               "0.000_001", "7.0"]
INT_EXTRA = ["1_000", "0", "9223372036854775807", "1_2_3", "00", "42"]

# (type text, value text) pairs for typed lets; all accepted by the analyzer and printable
TYPED_VALUES = [
    ("?int", "none"), ("?int", "?5"), ("?str", '?"s"'), ("[[int]]", "[[1], [2, 3]]"), ("[?int]", "[?1, none]"),
    ("{ a: int, \"b c\": ?str }", 'new { a: 1, "b c": none }'), ("{ ? }", "new { ? }"), ("range", "1..=3"),
    ("[range]", "[1..2, 3..=4]"), ("{ x: { y: [bool] } }", "new { x: new { y: [true, false] } }"),
    ("float", "2.5"), ("bool", "!false"), ("str", '"t" + "u"'), ("[str]", '["a", "\\n"]'),
    ("??int", "??1"), ("{ \"fn\": int, k: str }", 'new { "fn": 1, k: "v" }'),
]


class PGen(progs.Gen):
    """progs.Gen plus statements that exist only to reach printer forms."""

    def __init__(self, rng, caps=None, **kw):
        kw.setdefault("fault_rate", 0.0)
        super().__init__(rng, **kw)
        self.caps = caps or {}
        self.has_singleton = False
        self.has_lib = False
        self.has_trigger = False
        self.event_fns = []
        self.local_types = 0

    # ---- atoms with richer literals -------------------------------------------------------
    def atom(self, ty, scopes):
        r = self.r
        if ty == T_STR and r.random() < 0.5:
            self.features.add("str-escapes")
            return str_lit(r)
        if ty == T_FLOAT and self.allow_float and r.random() < 0.4:
            self.features.add("float-forms")
            return r.choice(FLOAT_EXTRA)
        if ty == T_INT and r.random() < 0.1:
            self.features.add("int-forms")
            return r.choice(INT_EXTRA)
        if ty == T_OBJ and r.random() < 0.3:
            return f"new {{ a: {progs.lit_int(r.choice(progs.INT_POOL))}, b: {str_lit(r)} }}"
        return super().atom(ty, scopes)

    # ---- extra statements -------------------------------------------------------------------
    def stmt(self, scopes, depth, ctx):
        if self.r.random() < 0.3:
            st = self.extra_stmt(scopes, depth, ctx)
            if st:
                return st
        return super().stmt(scopes, depth, ctx)

    def extra_stmt(self, scopes, depth, ctx):
        r = self.r
        d = max(depth - 1, 0)
        kinds = ["objkeys", "typedlet", "nested", "match", "elseif", "anyobj", "cast", "ranges", "typedef", "compound",
                 "prefix", "chains", "spawn", "underscore", "grouped", "tryval", "strs", "matchstr", "blockval", "listobj"]
        if self.caps.get("lambda"):
            kinds.append("lambda" if self.caps.get("fn_types") else "lambda-call")
        if self.has_singleton:
            kinds += ["singleton"] * 2
        if self.has_lib:
            kinds += ["libcall"] * 2
        if self.has_trigger and self.event_fns:
            kinds += ["trigger"] * 2
        k = r.choice(kinds)
        self.features.add("x:" + k)
        v = self.fresh("x")
        if k == "objkeys":
            n = r.randrange(0, 5)
            keys = []
            fields = []
            for _ in range(n):
                key = obj_key(r)
                norm = key.strip('"')
                if norm in keys:
                    continue
                keys.append(norm)
                val = r.choice([self.atom(T_INT, scopes), str_lit(r), "[1, 2]", "true", "new { z: 1 }", "?1", "1..2"])
                fields.append(f"{key}: {val}")
            trail = "," if fields and r.random() < 0.3 else ""
            return [f"let {v} = new {{ {', '.join(fields)}{trail} }};", f"println({v});"]
        if k == "typedlet":
            ty, val = r.choice(TYPED_VALUES)
            return [f"let {v}: {ty} = {val};", f"println({v});"]
        if k == "nested":
            inner = self.block(scopes, d, dict(ctx, break_ok=False), n=r.randrange(1, 3))
            return ["{"] + ["    {"] + ["        " + l for l in inner] + ["    }"] + ["};"]
        if k == "match":
            ctl = self.expr(T_INT, scopes, 0, pure=True)
            arms = [f"{r.choice([0, 1, 2])} => println(\"a\")", f"3 | 4 | {r.choice([5, 6])} => {{ println(\"b\"); }}",
                    f"-{r.choice([1, 7])} => {{ }}"]
            r.shuffle(arms)
            arms = arms[:r.randrange(1, 4)]
            dflt = r.random() < 0.7
            if dflt:
                arms.insert(r.randrange(len(arms) + 1), f"_ => println({self.atom(T_STR, scopes)})")
            sep = ", "
            # the `;` matters: `match x { … } (y)` would parse as a call of the match expression
            return [f"match {ctl} {{ {sep.join(arms)}{',' if r.random() < 0.3 else ''} }};"]
        if k == "matchstr":
            e = f'match {self.atom(T_STR, scopes)} {{ "a" | {str_lit(r)} => 1, "" => 2, _ => 3 }}'
            b = f"match {self.expr(T_BOOL, scopes, 0, pure=True)} {{ true => \"T\", false => \"F\", _ => \"?\" }}"
            return [f"let {v} = {e};", f"println({v}, {b});"]
        if k == "elseif":
            c1, c2 = self.expr(T_BOOL, scopes, 0, pure=True), self.expr(T_BOOL, scopes, 0, pure=True)
            return [f"let {v} = if {c1} {{ 1 }} else if {c2} {{ 2 }} else {{ 3 }};",
                    f"if {c2} {{ println({v}) }} else if {c1} {{ println(\"b\") }};", f"println({v});"]
        if k == "lambda":
            return [f"let {v} = fn(a: int, _b: str) -> int {{ a * 2 }};", f"println({v}({self.atom(T_INT, scopes)}, \"s\"));"]
        if k == "lambda-call":
            # a lambda that is never bound to a variable needs no function type annotation
            return [f"println((fn(a: int) -> int {{ a + 1 }})({self.atom(T_INT, scopes)}));"]
        if k == "anyobj":
            return [f"let {v} = new {{ ? }};", f"{v}.set({str_lit(r)}, {self.atom(T_INT, scopes)});", f"{v}.set(\"k\", \"v\");",
                    f"println({v}, {v}.get(\"k\"), {v}->k);"]
        if k == "cast":
            return [f"println({self.atom(T_INT, scopes)} as float, 2.5 as int, (7 as float) as int, \"s\" as str, true as int);"]
        if k == "ranges":
            return [f"let {v} = {r.choice([0, 1])}..{'=' if r.random() < 0.5 else ''}{r.choice([2, 3])};",
                    f"println({v}, {v}.start, ({v}).end, [{v}, 5..6]);", f"for _ in {v} {{ print(\".\"); }}"]
        if k == "typedef":
            self.local_types += 1
            t = f"L{self.local_types}"
            return [f"type {t} = {r.choice(['[int]', '{ a: int }', '?str', 'int'])};"]
        if k == "compound":
            return [f"let {v} = {r.choice([2, 3])};"] + [f"{v} {op} {val};" for op, val in r.sample(
                [("**=", 2), ("<<=", 2), (">>=", 1), ("%=", 7), ("/=", 2), ("|=", 8), ("&=", 12), ("^=", 5), ("+=", 1), ("-=", 1), ("*=", 3), ("=", 4)],
                r.randrange(1, 6))] + [f"println({v});"]
        if k == "prefix":
            a = self.atom(T_INT, scopes)
            return [f"println(- -{a}, -(-{a}), !!true, !{a}, ?{a}, ??{a}, -{a} - -{a}, !(1 < 2));"]
        if k == "chains":
            return [f"println([1, 2][1], [[1], [2]][1][0], new {{ a: [5] }}.a[0], \"abc\".len(), (1..3).end, {self.atom(T_STR, scopes)}.len().to_string());"]
        if k == "spawn":
            return ["let _t = spawn p_nop();"] if "p_nop" in [f.name for f in self.fns] else None
        if k == "underscore":
            return [f"let _ = {self.atom(T_INT, scopes)};", f"let _u{self.counter} = {str_lit(r)};"]
        if k == "grouped":
            a = self.atom(T_INT, scopes)
            return [f"println((({a})), ({a}) + ({a}), ({a} + 1) * 2, 2 * ({a} - 1), -({a} + 1), ({a}) as float);"]
        if k == "tryval":
            return [f"let {v} = try {{ if {self.expr(T_BOOL, scopes, 0, pure=True)} {{ throw(\"e\"); }} 1 }} catch _e {{ 2 }};", f"println({v});"]
        if k == "strs":
            return [f"println({', '.join(str_lit(r) for _ in range(r.randrange(1, 4)))});"]
        if k == "blockval":
            return [f"let {v} = {{ let q = {self.atom(T_INT, scopes)}; {{ q + 1 }} }};", f"println({v}, {{ 1 }}, {{ {{ 2 }} }});"]
        if k == "listobj":
            return [f"let {v} = [new {{ a: 1, b: {str_lit(r)} }}, new {{ a: 2, b: \"\" }}];", f"println({v}, {v}[0].b, {v}.len());"]
        if k == "singleton":
            return [r.choice(["println($S.x);", "$S.x = $S.x + 1;", "println($S);", "println(p_ext(2));", "$S.x += 2;"])]
        if k == "libcall":
            return [r.choice(["println(inc(K));", "println(K, inc(2));", f"let {v}: P = new {{ x: inc(1), y: K }}; println({v});"])]
        if k == "trigger":
            return [f"trigger {r.choice(self.event_fns)} {r.choice(['on', 'at', 'in'])} minute({self.atom(T_INT, scopes)});"]
        return None

    # ---- items ------------------------------------------------------------------------------
    def program(self, nfns=None):
        r = self.r
        head = []
        mods = {}
        if r.random() < 0.5:
            self.has_lib = True
            self.features.add("i:import")
            forms = ["import { inc, K, type P } from lib;", "import { type P, K, inc, } from lib;",
                     "import { inc } from lib;\nimport { K } from lib;\nimport { type P } from lib;"]
            head.append(r.choice(forms))
            mods["lib"] = ("pub fn inc(a: int) -> int { a + 1 }\npub let K = 7;\npub type P = { x: int, y: int };\n"
                           "let hidden = \"h\\t\";\ntype Q = [P];\nfn priv() -> str { hidden }\nfn main() { }\n")
        if r.random() < 0.4:
            self.has_trigger = True
            self.features.add("i:trigger-import")
            head.append(r.choice(["import { trigger minute } from triggers;", "import trigger minute from triggers;"]))
        if r.random() < 0.25:
            self.features.add("i:templ+impl")
            head.append("import { templ FooFeature } from templates;")
            head.append("$D = { b: int };")
            head.append("impl FooFeature with { light } for $D {\n    fn dim(self: $D, percent: int) -> bool { self.b = percent; true }\n}")
        # types
        for i in range(r.randrange(0, 3)):
            self.features.add("i:type")
            t = r.choice(["{ a: int, \"b c\": ?str }", "[[int]]", "?[str]", "{ ? }", "range", "{ f: { g: int } }", "{ }", "int"])
            head.append(f"{r.choice(['', 'pub '])}type T{i} = {t};")
        if self.caps.get("fn_types") and r.random() < 0.3:
            self.features.add("i:fn-type")
            head.append("type F0 = fn(a: int, b: str) -> ?int;")
        if r.random() < 0.4:
            self.has_singleton = True
            self.features.add("i:singleton")
            fields = ["x: int", r.choice(["\"y z\": str", "yz: str"]), r.choice(["@setting plain: bool", "plain: bool"])]
            head.append(f"$S = {{ {', '.join(fields)}{',' if r.random() < 0.3 else ''} }};")
        # globals with every literal kind
        for _ in range(r.randrange(0, 4)):
            g = self.fresh("g")
            ty, init = r.choice([(T_INT, None), (T_STR, None), (T_BOOL, None), (T_LINT, None), (T_INT, "-5"),
                                 (T_FLOAT, None), (T_OINT, "?4"), (None, "1..3"), (None, "new { k: 1, \"w w\": [2] }"),
                                 (None, "[1, -2]"), (None, "[\"a\", \"\\\\\"]")])
            if init is None:
                saved, self.globals = self.globals, {}
                init = self.atom(ty, [dict()])
                self.globals = saved
            if ty in (T_INT, T_STR, T_BOOL, T_LINT, T_FLOAT, T_OINT) and not init.startswith("-"):
                self.globals[g] = ty
            ann = f": {ty}" if ty in (T_INT, T_STR, T_BOOL) and r.random() < 0.3 else ""
            self.features.add("i:global")
            head.append(f"{r.choice(['', '', 'pub '])}let {g}{ann} = {init};")
        lines = list(head)
        # helper functions the extra statements refer to
        self.fns.append(progs.Fn("p_nop", [], None, effectful=False))
        lines.append("fn p_nop() { }")
        if self.has_singleton:
            lines.append("fn p_ext(s: $S, k: int) -> int { s.x + k }")
        if self.has_trigger:
            for i in range(r.randrange(1, 3)):
                name = f"p_ev{i}"
                self.event_fns.append(name)
                ann = r.choice(["", "#[trigger on minute(5)]\n", "#[trigger at minute(1 + 2), trigger in minute(0)]\n"])
                if ann:
                    self.features.add("i:annotation")
                self.features.add("i:event-fn")
                lines.append(f"{ann}event fn {name}(_elapsed: int) {{ println(\"ev\"); }}")
        nfns = nfns if nfns is not None else r.randrange(0, 4)
        for i in range(nfns):
            may_throw = self.allow_throw and r.random() < 0.2
            fn, flines = self.function(f"f{i}", self.max_depth - 1, may_throw)
            if r.random() < 0.3:
                flines[0] = "pub " + flines[0]
                self.features.add("i:pub-fn")
            self.fns.append(fn)
            lines += flines
        ctx = {"break_ok": False, "in_try": False, "ret": None, "may_throw_ok": True}
        body = self.block([{}], self.max_depth, ctx, n=r.randrange(2, 7))
        lines += [r.choice(["fn main() {", "fn main() -> null {", "pub fn main() {"])] + ["    " + l for l in body] + ["}"]
        return "\n".join(lines) + "\n", mods


def generate(rng, caps=None, **kw):
    g = PGen(rng, caps=caps, **kw)
    src, mods = g.program()
    # the position of an exception changes with the layout of the text: do not print it
    src = re.sub(r", (e\d+)\.line, \1\.column", "", src)
    return src, mods, sorted(g.features)


# ---- texts that only have to parse ----------------------------------------------------------

SYNTAX_ONLY = [
    "#[foo] fn a() {}\n#[foo, bar,] pub fn b() {}\n#[trigger on t(1, \"x\")] event fn c(x: int) {}\nfn main() {}",
    "import { templ T, type U, w } from m;\nimport { trigger v } from m;\nimport trigger v2 from m;\nimport x from y;\nimpl T for $S { }\nimpl T with { a, b } for $S { pub fn f() {} event fn g(s: $S) -> int { 1 } fn h() {} }",
    "$S = { @setting \"a b\": int, @x y: { w: [?str] } };\n$E = { };\n$A = { ? };\n$L = [int];",
    "type A = fn() -> null;\ntype B = fn(a: int, _b: fn(c: ?[str]) -> { ? }) -> [fn() -> int];\npub type C = { \"\\\\\": int, \"\\\"\": str, \"\\n\": bool };",
    "fn main() { let a = $S.x; $S.y = 1; let f = fn() { }; let g = fn(a: $S) -> $S { a }; spawn h(1, 2); x->y~>z.w; a as ?[{ ? }]; }",
    "fn main() { return; }\nfn a() -> int { return 1; }\nfn b() { loop { break; } while true { continue; } }",
    "fn main() { let x = match y { 1 | 2 | 3 => a, \"s\" => { b }, -1 => c, !true => d, ?2 => e, 1.5 => f, none => g, null => h, [1] => i, _ => j }; match x { } match x { _ => 1 } }",
    "fn main() { a = b; a[0] = 1; a.b = 2; a.b[1].c += 3; a as int = 4; a **= 2; }",
    "fn main() { let r = 1..2; let s = a..=b + 1; let t = (1..2)..3; for i in 0..n + 1 { } }",
    "fn main() { if a { } else if b { } else { }; if if c { true } else { false } { 1 } else { 2 } }",
    "fn main() { try { } catch e { }; let v = try { 1 } catch _ { 2 }; { }; { { } }; { 1 } }",
    "fn main() { x(); x(1,); x(1, 2)(3)[4].y(5); [1, 2,]; [[]]; new { }; new { a: 1, }; new { \"k\": new { ? } }; }",
    "fn main() { 1 + 2 * 3 - 4 / 5 % 6; 2 ** 3 ** 4; (2 ** 3) ** 4; 1 << 2 >> 3; 1 | 2 & 3 ^ 4; a || b && c; !a == b; a < b == c > d; -a ** 2; (-a) ** 2; a as int ** 2; -a as float; }",
    "let a = 1;let b: int = 2;pub let c = \"x\";\nlet d = [1,];\nfn main() {}",
    "fn main() { trigger a on b(); trigger a at b(1, 2 + 3,); trigger a in b(\"x\"); }",
    "fn _() { } fn a(_: int) { let _ = 1; for _ in x { } } fn main() { }",
    "fn main() { 'single'; \"dq\"; '\"'; \"'\"; \"\\x41\\u00e9\\U0001F600\\101\\b\\r\"; \"\"; '' }",
]


def syntax_only(rng):
    return rng.choice(SYNTAX_ONLY)


# ---- optimizer programs -------------------------------------------------------------------------

class OptGen:
    """Functions whose blocks contain diverging statements followed by live-looking code."""

    def __init__(self, rng, caps=None):
        self.r = rng
        self.caps = caps or {}
        self.n = 0
        self.features = set()

    def mark(self):
        self.n += 1
        return f'println("m{self.n}");'

    def live(self):
        """A statement that completes normally (and leaves a trace)."""
        r = self.r
        c = r.random()
        if c < 0.5:
            return [self.mark()]
        if c < 0.65:
            return [f"k = k + {r.choice([1, 2])};"]
        if c < 0.8:
            return [f"if k > {r.choice([0, 1, 2])} {{ {self.mark()} }}"]
        if c < 0.9:
            return [f"for _i in 0..{r.choice([0, 1, 2])} {{ {self.mark()} }}"]
        self.n += 1
        return [f"let t{self.n} = k * 2;", f"println(t{self.n});"]

    def diverging(self, depth, in_loop, ret):
        """A statement the analyzer types `never` (as source lines)."""
        r = self.r
        kinds = ["return", "return", "throw", "block"]
        if in_loop:
            kinds += ["break", "continue", "break"]
        if depth > 0:
            kinds += ["loop-ret", "if-else", "match-default", "try", "loop-inner"]
            if self.caps.get("match_never"):
                pass
        k = r.choice(kinds)
        self.features.add("div:" + k)
        rv = f" {ret()}" if ret else ""
        d = depth - 1
        if k == "return":
            return [f"return{rv};"]
        if k == "throw":
            return [f'throw("t{self.n}");']
        if k == "break":
            return ["break;"]
        if k == "continue":
            return ["continue;"]
        if k == "block":
            return ["{"] + ind(self.body(max(d, 0), in_loop, ret, force_div=True)) + ["};"]
        if k == "loop-ret":
            # a loop without `break`: left only by return / throw
            return ["loop {"] + ind(self.body(d, False, ret, force_div=True, no_break=True)) + ["}"]
        if k == "loop-inner":
            return ["loop {"] + ind([self.mark(), f"return{rv};"]) + ["}"]
        if k == "if-else":
            return [f"if k > {r.choice([0, 1, 2, 3])} {{"] + ind(self.body(d, in_loop, ret, force_div=True)) + ["} else {"] + \
                ind(self.body(d, in_loop, ret, force_div=True)) + ["}"]
        if k == "match-default":
            return [f"match k {{ {r.choice([0, 1])} => {{"] + ind(self.body(d, in_loop, ret, force_div=True)) + \
                [f"}}, {r.choice([2, 3])} | 4 => {{"] + ind(self.body(d, in_loop, ret, force_div=True)) + ["}, _ => {"] + \
                ind(self.body(d, in_loop, ret, force_div=True)) + ["} };"]
        if k == "try":
            return ["try {"] + ind(self.body(d, False, ret, force_div=True, no_break=True)) + ["} catch _e {"] + \
                ind(self.body(d, False, ret, force_div=True, no_break=True)) + ["}"]
        raise ValueError(k)

    def body(self, depth, in_loop, ret, force_div=False, no_break=False, no_div=False):
        """Statements of a block: live ones, then (maybe) a diverging one followed by dead code."""
        r = self.r
        lines = []
        for _ in range(r.randrange(0, 3)):
            lines += self.live()
            if depth > 0 and r.random() < 0.3:
                lines += self.nested(depth - 1, in_loop and not no_break, ret, no_div=no_div)
        if no_div:
            return lines or [self.mark()]
        if force_div or r.random() < 0.5:
            lines += self.diverging(depth, in_loop and not no_break, ret)
            for _ in range(r.randrange(0, 3)):       # dead, but looks alive
                lines += self.live()
                self.features.add("dead-code")
            if r.random() < 0.2:
                lines += self.diverging(0, in_loop and not no_break, ret)
        return lines

    def nested(self, depth, in_loop, ret, no_div=False):
        """A construct that completes normally although blocks inside it may diverge."""
        r = self.r
        k = r.choice(["if", "while", "for", "loop-break", "match-nodefault", "block", "if-else-one"])
        self.features.add("nest:" + k)
        if k == "if":
            return [f"if k > {r.choice([1, 2, 5])} {{"] + ind(self.body(depth, in_loop, ret)) + ["}"]
        if k == "if-else-one":
            return [f"if k > {r.choice([1, 2, 5])} {{"] + ind(self.body(depth, in_loop, ret, force_div=True)) + ["} else {"] + \
                ind([self.mark()]) + ["}"]
        if k == "while":
            c = f"w{self.n}"
            self.n += 1
            return [f"let {c} = 0;", f"while {c} < {r.choice([1, 2, 3])} {{", f"    {c} += 1;"] + ind(self.body(depth, True, ret)) + ["}"]
        if k == "for":
            return [f"for i{self.n} in 0..{r.choice([1, 2, 3])} {{"] + ind(self.body(depth, True, ret)) + ["}"]
        if k == "loop-break":
            c = f"w{self.n}"
            self.n += 1
            return [f"let {c} = 0;", "loop {", f"    {c} += 1;", f"    if {c} > {r.choice([1, 2])} {{ break; {self.mark()} }}"] + \
                ind(self.body(depth, True, ret)) + ["}"]
        if k == "match-nodefault":
            # a match without default completes normally when no arm matches
            # (while A5 is open the analyzer types it `never` if its arms diverge: then the arm must not)
            ok = self.caps.get("match_never", False)
            return [f"match k {{ {r.choice([0, 1, 2])} => {{"] + ind(self.body(depth, in_loop, ret, force_div=ok and r.random() < 0.5, no_div=not ok)) + ["} };"]
        # a block statement diverges if its body does
        return ["{"] + ind(self.body(depth, in_loop, ret, no_div=no_div)) + ["};"]

    def program(self):
        r = self.r
        lines = []
        nf = r.randrange(1, 4)
        calls = []
        for i in range(nf):
            rt = r.choice(["int", "int", "str", None])
            ret = (lambda: str(r.choice([1, 2, 3, 10]))) if rt == "int" else ((lambda: r.choice(['"a"', '"b"'])) if rt == "str" else None)
            depth = r.choice([1, 2, 2, 3])
            body = self.body(depth, False, ret)
            sig = f"fn o{i}(k: int)" + (f" -> {rt}" if rt else "") + " {"
            lines += [sig] + ind(body)
            if rt:
                lines.append("    " + ret())
            lines.append("}")
            for a in r.sample([0, 1, 2, 3, 4, 5], 3):
                calls.append(f"try {{ println(o{i}({a})); }} catch e {{ println(\"caught\", e.message); }}" if rt else
                             f"try {{ o{i}({a}); }} catch e {{ println(\"caught\", e.message); }}")
        lines += ["fn main() {"] + ind(calls)
        # main's own body is optimised as well
        self.n += 1
        lines += ind(["let k = 1;"] + self.body(2, False, None)) + ["}"]
        return "\n".join(lines) + "\n"


def ind(ls):
    return ["    " + l for l in ls]


def optimizer_program(rng, caps=None):
    g = OptGen(rng, caps)
    return g.program(), sorted(g.features)


# ---- C20: programs inside the class of the fuzzer property ------------------------------------

# identifiers the transformer introduces: a program that uses them itself is outside the class
RESERVED = ["count_once", "_i", "lhs_init", "mul_res", "mul_count"]
# integer literals far from the overflow boundary of `n * 4711`; floats far from the rounding boundary
CLASS_INT_POOL = [0, 1, 2, 3, 5, 7, 10, 42, 100, 255, 1000, 65536, 1000003, 2**31 - 1, 2**31, 2**40, -1, -2, -7, -1000]
CLASS_FLOAT_POOL = ["0.5", "1.5", "2.25", "10.0", "3.0", "0.125", "100.75", "7f", "1024.0"]


def split_top(s):
    """'(A op B)' -> (A, op, B) for the top-level binary operator of a fully parenthesised
    expression text, or None."""
    if not (s.startswith("(") and s.endswith(")")):
        return None
    depth = 0
    in_str = False
    i = 1
    while i < len(s) - 1:
        c = s[i]
        if in_str:
            if c == "\\":
                i += 1
            elif c == '"':
                in_str = False
        elif c == '"':
            in_str = True
        elif c in "([{":
            depth += 1
        elif c in ")]}":
            depth -= 1
        elif c == " " and depth == 0:
            j = s.find(" ", i + 1)
            if j > 0 and s[i + 1:j] in ("*", "+", "-", "/", "%", "|", "&", "^", "<<", ">>", "**"):
                return s[1:i], s[i + 1:j], s[j + 1:-1]
        i += 1
    return None


class FGen(progs.Gen):
    """progs.Gen restricted to the class of C20: every operand of an operator is free of calls,
    effects and faults (so reordering or duplicating it is unobservable), the right operand of an
    integer multiplication is a small non-negative literal, literals are far from the overflow
    and rounding boundaries, no reserved identifier, no position is printed."""

    def __init__(self, rng, **kw):
        kw.setdefault("fault_rate", 0.0)
        kw.setdefault("allow_lambda", False)
        super().__init__(rng, **kw)

    def expr(self, ty, scopes, depth, pure=False):
        s = super().expr(ty, scopes, depth, True)
        if ty == T_INT:
            t = split_top(s)
            if t and t[1] == "*":
                self.features.add("mul-small-literal")
                return f"({t[0]} * {self.r.choice([0, 1, 2, 3, 4, 7, 9])})"
        return s

    def pure_int(self, scopes):
        s = super().pure_int(scopes)
        t = split_top(s)
        if t and t[1] == "*":
            return f"({t[0]} * {self.r.choice([0, 1, 2, 3, 5])})"
        return s


def inclass_program(rng, **kw):
    saved = (progs.INT_POOL, progs.FLOAT_POOL)
    progs.INT_POOL, progs.FLOAT_POOL = CLASS_INT_POOL, CLASS_FLOAT_POOL
    try:
        g = FGen(rng, **kw)
        src = g.program()
    finally:
        progs.INT_POOL, progs.FLOAT_POOL = saved
    src = re.sub(r", (e\d+)\.line, \1\.column", "", src)
    return src, sorted(g.features)
