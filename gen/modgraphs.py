"""Module-graph generator for C15 (and multi-module programs for C14).

A graph is a list of `Mod`s (entry module "main" first). Every module has a `main` function (the
analyzer demands one of every imported module); functions `f`/`g`, globals `x`/`y` and a type `T`
come with `pub`/private variants. Function bodies make name resolution observable:

    fn f() { println("<module>.f", <every global visible in the module>); <own global> = <own global> + "!"; [g();] }

and the entry `main` prints every visible global, calls every visible function, changes every
visible global once and repeats. The same graph is rendered three ways: source texts for the real
toolchain, an S-expression for the Lean model (`modgraph`), and the generator's own verdict on
every import statement (`illegal_reasons`).
"""
import itertools

FNS = ["f", "g"]
GLOBS = ["x", "y"]
TYPE = "T"
MISSING = "zz"


def xhex(s):
    return "x" + s.encode("utf-8").hex()


class Mod:
    def __init__(self, name, items=None, imports=None):
        self.name = name
        self.items = list(items or [])      # (kind in fn|glob|type, name, pub)
        self.imports = list(imports or [])  # (target, [(name, kind in n|t)])

    def defines(self, kind, name):
        return any(k == kind and n == name for k, n, _ in self.items)

    def is_pub(self, kind, name):
        return any(k == kind and n == name and p for k, n, p in self.items)


class Graph:
    def __init__(self, mods, family=""):
        self.mods = mods
        self.family = family

    def mod(self, name):
        for m in self.mods:
            if m.name == name:
                return m
        return None

    # ---- the generator's own knowledge: which import statements are illegal ------------------
    def edges(self):
        return {m.name: [t for t, _ in m.imports if self.mod(t) is not None] for m in self.mods}

    def reaches(self, a, b):
        """b reachable from a along >= 1 import edge"""
        e = self.edges()
        seen, todo = set(), list(e.get(a, []))
        while todo:
            c = todo.pop()
            if c == b:
                return True
            if c in seen:
                continue
            seen.add(c)
            todo += e.get(c, [])
        return False

    def item_reasons(self, target, name, kind):
        t = self.mod(target)
        if kind == "t":
            if not t.defines("type", name):
                return {"missing-item"}
            return set() if t.is_pub("type", name) else {"private"}
        for k in ("fn", "glob"):
            if t.defines(k, name):
                return set() if t.is_pub(k, name) else {"private"}
        return {"missing-item"}

    def illegal_reasons(self, m, idx):
        target, items = m.imports[idx]
        if self.mod(target) is None:
            return {"missing-module"}
        r = set()
        if target == m.name:
            r.add("self-import")
        elif self.reaches(target, m.name):
            r.add("cycle")
        for name, kind in items:
            r |= self.item_reasons(target, name, kind)
        return r

    def stmt_keys(self):
        return [(m.name, i) for m in self.mods for i in range(len(m.imports))]

    def reachable_from_main(self):
        seen, todo = set(), ["main"]
        e = self.edges()
        while todo:
            c = todo.pop()
            if c in seen:
                continue
            seen.add(c)
            todo += e.get(c, [])
        return seen

    # ---- what each module can see -----------------------------------------------------------------
    def legal_imports(self, m):
        """(name, kind, target, item kind in target) of items of m's legal import statements."""
        out = []
        for i, (target, items) in enumerate(m.imports):
            if self.illegal_reasons(m, i):
                continue
            t = self.mod(target)
            for name, kind in items:
                if kind == "t":
                    out.append((name, "type", target))
                else:
                    out.append((name, "fn" if t.defines("fn", name) else "glob", target))
        return out

    def visible(self, m, kind):
        own = [n for k, n, _ in m.items if k == kind and n != "main"]
        imp = [n for n, k, _ in self.legal_imports(m) if k == kind]
        return sorted(set(own + imp))

    def body(self, m, fn):
        """list of acts: ('say', label, [globals]) | ('bump', g) | ('call', f)"""
        globs = self.visible(m, "glob")
        own = sorted(n for k, n, _ in m.items if k == "glob")
        if fn == "main":
            if m.name != "main":
                return []
            fns = self.visible(m, "fn")
            acts = [("say", "main.main", globs)]
            acts += [("call", f) for f in fns]
            acts += [("bump", g) for g in globs]
            acts += [("say", "main.again", globs)]
            acts += [("call", f) for f in fns]
            acts += [("say", "main.end", globs)]
            return acts
        acts = [("say", f"{m.name}.{fn}", globs)] + [("bump", g) for g in own]
        if fn == "f" and "g" in self.visible(m, "fn"):
            acts.append(("call", "g"))
        return acts

    # ---- rendering -------------------------------------------------------------------------------------
    def source(self, m):
        parts = []
        for target, items in m.imports:
            its = ", ".join(("type " if k == "t" else "") + n for n, k in items)
            parts.append(f"import {{ {its} }} from {target};")
        for k, n, p in m.items:
            pub = "pub " if p else ""
            if k == "type":
                parts.append(f"{pub}type {n} = int;")
            elif k == "glob":
                parts.append(f'{pub}let {n} = "{m.name}.{n}";')
        for k, n, p in m.items:
            if k != "fn":
                continue
            pub = "pub " if p and n != "main" else ""
            stmts = []
            for a in self.body(m, n):
                if a[0] == "say":
                    stmts.append("println(" + ", ".join([f'"{a[1]}"'] + a[2]) + ");")
                elif a[0] == "bump":
                    stmts.append(f'{a[1]} = {a[1]} + "!";')
                else:
                    stmts.append(f"{a[1]}();")
            parts.append(f"{pub}fn {n}() {{ " + " ".join(stmts) + " }")
        return "\n".join(parts)

    def sources(self):
        return {m.name: self.source(m) for m in self.mods}

    def sexp(self):
        ms = []
        for m in self.mods:
            imps = " ".join("(imp " + xhex(t) + " " + " ".join(f"({xhex(n)} {k})" for n, k in items) + ")"
                            for t, items in m.imports)
            items = " ".join(f"({k} {xhex(n)} {1 if p else 0})" for k, n, p in m.items)
            inits = " ".join(f"({xhex(n)} {xhex(m.name + '.' + n)})" for k, n, _ in m.items if k == "glob")
            bodies = []
            for k, n, _ in m.items:
                if k != "fn":
                    continue
                acts = []
                for a in self.body(m, n):
                    if a[0] == "say":
                        acts.append("(say " + " ".join([xhex(a[1])] + [xhex(g) for g in a[2]]) + ")")
                    else:
                        acts.append(f"({a[0]} {xhex(a[1])})")
                bodies.append("(" + " ".join([xhex(n)] + acts) + ")")
            ms.append(f"(mod {xhex(m.name)} (imports {imps}) (items {items}) (inits {inits}) (bodies {' '.join(bodies)}))")
        return "(graph " + " ".join(ms) + ")"

    def describe(self):
        return {"family": self.family, "mods": self.sources()}

    # ---- zones that are not generated in the main stream -----------------------------------------
    def cross_module_clash(self):
        """V22: a global name defined in two modules; a function name that some module imports and
        two modules define; a name that is a function here and a global there."""
        globs = [n for m in self.mods for k, n, _ in m.items if k == "glob"]
        if len(globs) != len(set(globs)):
            return True
        fns = {n for m in self.mods for k, n, _ in m.items if k == "fn"}
        if fns & set(globs):
            return True
        for m in self.mods:
            for _, items in m.imports:
                for n, k in items:
                    if k == "n" and not m.defines("fn", n):
                        if sum(1 for o in self.mods if o.defines("fn", n)) > 1:
                            return True
        return False

    def own_overlap(self):
        """a module imports a name it also defines, or imports a name twice ("already exists")"""
        for m in self.mods:
            vals = [n for _, items in m.imports for n, k in items if k == "n"] + [n for k, n, _ in m.items if k != "type"]
            tys = [n for _, items in m.imports for n, k in items if k == "t"] + [n for k, n, _ in m.items if k == "type"]
            if len(vals) != len(set(vals)) or len(tys) != len(set(tys)):
                return True
        return False


MAIN_FN = ("fn", "main", False)


def items_from_states(states):
    """states: dict name -> 0 absent | 1 private | 2 pub, over f g x y T"""
    out = []
    for n in GLOBS:
        if states.get(n, 0):
            out.append(("glob", n, states[n] == 2))
    if states.get(TYPE, 0):
        out.append(("type", TYPE, states[TYPE] == 2))
    for n in FNS:
        if states.get(n, 0):
            out.append(("fn", n, states[n] == 2))
    out.append(MAIN_FN)
    return out


ALL5 = FNS + GLOBS + [TYPE]


def kind_of(n):
    return "t" if n == TYPE else "n"


def family_a():
    """2 modules: every visibility table of `a` (3^5) x every non-empty subset of {f,g,x,y,type T}
    imported by `main` in one statement."""
    for st in itertools.product((0, 1, 2), repeat=5):
        states = dict(zip(ALL5, st))
        for r in range(1, 6):
            for sub in itertools.combinations(ALL5, r):
                main = Mod("main", [MAIN_FN], [("a", [(n, kind_of(n)) for n in sub])])
                yield Graph([main, Mod("a", items_from_states(states))], "A:visibility-x-subset")


def family_b():
    """wrong kind: a function/global imported as a type, a type imported as a value; alone and next
    to a legal item"""
    for n in ALL5:
        for s in (0, 1, 2):
            states = {k: 2 for k in ALL5}
            states[n] = s
            wrong = "n" if n == TYPE else "t"
            other = "x" if n != "x" else "y"
            for items in ([(n, wrong)], [(other, "n"), (n, wrong)], [(n, wrong), (other, "n")]):
                yield Graph([Mod("main", [MAIN_FN], [("a", items)]), Mod("a", items_from_states(states))], "B:wrong-kind")


def orderings(targets):
    for r in range(len(targets) + 1):
        for sub in itertools.combinations(targets, r):
            for perm in itertools.permutations(sub):
                yield list(perm)


def family_c():
    """2 modules: every set and order of import statements main -> {a, main, zz}, a -> {main, a, zz}
    (all cycle shapes, self-imports, missing modules), with a public and a private variant of the
    imported item."""
    for pub in (True, False):
        def item_for(target):
            return {"a": [("f", "n")], "main": [("g", "n")], MISSING: [("q", "n")]}[target]
        for mo in orderings(["a", "main", MISSING]):
            for ao in orderings(["main", "a", MISSING]):
                main = Mod("main", [("fn", "g", pub), MAIN_FN], [(t, item_for(t)) for t in mo])
                a = Mod("a", [("glob", "x", True), ("fn", "f", pub), MAIN_FN], [(t, item_for(t)) for t in ao])
                yield Graph([main, a], "C:edges-2")


def family_d_space():
    """3 modules: edge sets over main/a/b (9 edges incl. self-imports) + 3 missing-module edges,
    x pub flags of f, x (owned by a), g, y (owned by b)."""
    nodes = ["main", "a", "b"]
    edges = [(u, v) for u in nodes for v in nodes] + [(u, MISSING) for u in nodes]
    return edges, 1 << len(edges), 16


def family_d_graph(rng, eset, flags):
    edges, _, _ = family_d_space()
    own = {"a": [("fn", "f"), ("glob", "x")], "b": [("fn", "g"), ("glob", "y")], "main": [("type", TYPE)]}
    pubs = {"f": bool(flags & 1), "x": bool(flags & 2), "g": bool(flags & 4), "y": bool(flags & 8), TYPE: True}
    mods = {}
    for n in ("main", "a", "b"):
        items = [(k, nm, pubs[nm]) for k, nm in own[n] if k != "fn"] + [(k, nm, pubs[nm]) for k, nm in own[n] if k == "fn"] + [MAIN_FN]
        mods[n] = Mod(n, items)
    for i, (u, v) in enumerate(edges):
        if not (eset >> i) & 1:
            continue
        if v == MISSING:
            items = [("q", "n")]
        else:
            cand = [(nm, "t" if k == "type" else "n") for k, nm in own[v]]
            k = rng.randint(1, len(cand))
            items = rng.sample(cand, k)
        mods[u].imports.append((v, items))
    for m in mods.values():
        rng.shuffle(m.imports)
    return Graph([mods["main"], mods["a"], mods["b"]], "D:edges-3")


def family_e():
    """harmless overlaps: modules define private functions of the same name, nobody imports them"""
    a1 = Mod("a", [("glob", "x", True), ("fn", "f", False), ("fn", "g", True), MAIN_FN])
    yield Graph([Mod("main", [("fn", "f", False), MAIN_FN], [("a", [("g", "n")])]), a1], "E:overlap")
    yield Graph([Mod("main", [("glob", "y", False), ("fn", "f", False), MAIN_FN], [("a", [("g", "n"), ("x", "n")])]), a1], "E:overlap")
    a2 = Mod("a", [("glob", "x", False), ("fn", "g", False), ("fn", "f", True), MAIN_FN])
    b2 = Mod("b", [("glob", "y", True), ("fn", "g", False), MAIN_FN])
    yield Graph([Mod("main", [("fn", "g", False), MAIN_FN], [("a", [("f", "n")]), ("b", [("y", "n")])]), a2, b2], "E:overlap")
    # type names may overlap freely
    yield Graph([Mod("main", [("type", TYPE, False), MAIN_FN], [("a", [("f", "n")])]),
                 Mod("a", [("type", TYPE, True), ("glob", "x", False), ("fn", "f", True), MAIN_FN])], "E:overlap")
    # chains and diamonds (every module imported by several statements)
    a3 = Mod("a", [("glob", "x", True), ("fn", "g", True), MAIN_FN])
    b3 = Mod("b", [("glob", "y", True), ("fn", "f", True), MAIN_FN], [("a", [("g", "n"), ("x", "n")])])
    yield Graph([Mod("main", [MAIN_FN], [("a", [("g", "n"), ("x", "n")]), ("b", [("f", "n"), ("y", "n")])]), a3, b3], "E:diamond")
    yield Graph([Mod("main", [MAIN_FN], [("b", [("f", "n"), ("y", "n")]), ("a", [("g", "n"), ("x", "n")])]), a3, b3], "E:diamond")
    yield Graph([Mod("main", [MAIN_FN], [("b", [("f", "n")])]), a3, b3], "E:chain")
    # a module without globals (its @init is empty), a module imported for a type only
    yield Graph([Mod("main", [MAIN_FN], [("a", [("f", "n")])]), Mod("a", [("fn", "f", True), MAIN_FN])], "E:no-globals")
    yield Graph([Mod("main", [MAIN_FN], [("a", [(TYPE, "t")])]), Mod("a", [("type", TYPE, True), MAIN_FN])], "E:no-globals")
    # an imported module without `main`
    yield Graph([Mod("main", [MAIN_FN], [("a", [("f", "n")])]), Mod("a", [("fn", "f", True)])], "E:no-main")


def family_r():
    """re-export chains main -> b -> a: `b` imports items of `a`; `main` asks `b` for names that `b` only imported
    (never an item of `b`, whatever their visibility in `a`), alone and next to a genuine pub item of `b`."""
    for sf, sx, st in itertools.product((1, 2), repeat=3):
        a = Mod("a", items_from_states({"f": sf, "x": sx, TYPE: st}))
        pool = [n for n, s_ in (("f", sf), ("x", sx), (TYPE, st)) if s_ == 2]   # what b may legally import
        for r in range(1, len(pool) + 1):
            for sub in itertools.combinations(pool, r):
                for asked in itertools.chain.from_iterable(itertools.combinations(sub, k) for k in range(1, len(sub) + 1)):
                    for extra in ([], [("g", "n")], [("y", "n")]):
                        b = Mod("b", [("glob", "y", True), ("fn", "g", True), MAIN_FN], [("a", [(n, kind_of(n)) for n in sub])])
                        items = [(n, kind_of(n)) for n in asked] + extra
                        yield Graph([Mod("main", [MAIN_FN], [("b", items)]), b, a], "R:re-export")
                        if extra:
                            yield Graph([Mod("main", [MAIN_FN], [("b", extra + [(n, kind_of(n)) for n in asked])]), b, a], "R:re-export")


# ---- witnesses of the open findings (never in the main stream) ------------------------------------

V22_GLOBAL_CLASH = {
    "main": 'import f from a;\nimport g from b;\nfn main() { f(); g(); }',
    "a": 'let x = "a.x";\npub fn f() { println("a.f", x); }\nfn main() { }',
    "b": 'let x = "b.x";\npub fn g() { println("b.g", x); }\nfn main() { }',
}
V22_FN_CLASH = {
    "main": 'import g from a;\nimport y from b;\nfn main() { g(); println(y); }',
    "a": 'let x = "a.x";\npub fn g() { println("a.g", x); }\nfn main() { }',
    "b": 'pub let y = "b.y";\nfn g() { println("b.g", y); }\nfn main() { g(); }',
}
V23_DYNAMIC_SCOPE = {
    "main": 'import f from a;\nlet x = "main.x";\nfn h() { println("main.h", x); }\nfn k() { let x = "local"; h(); println(x); }\nfn main() { k(); f(); }',
    "a": 'let y = "a.y";\npub fn f() { println("a.f", y); }\nfn main() { }',
}


# ---- programs for C14 (determinism): many fields, many locals, colliding name shapes ----------------

def c14_program(rng):
    """-> (mods, features). Sources are meant to stress every place where the toolchain iterates a map:
    objects with many fields (display, equality, clone, JSON, casts), many locals whose names collide
    after mangling (a1 / a + counter, x_1 / x), several functions sharing local names, unused
    variables/imports/functions (warnings come out of scope maps), several modules."""
    feats = []
    nfields = rng.randint(2, 12)
    # (names that differ only in letter case: any order that is not a total order on the exact names shows)
    names = rng.sample(["a", "b", "c", "d", "e", "k1", "k2", "k10", "k", "zz", "y", "x", "a1", "a10", "b_1", "name", "val", "id",
                        "A", "B", "X", "Name", "NAME", "Id", "K1", "eTag", "etag", "ETag"], nfields)
    def lit(i):
        return rng.choice([(str(i), "int"), (f'"s{i}"', "str"), ("true", "bool"), (f"[{i}, {i + 1}]", "[int]"), (f"{i}.5", "float")])
    lits = [lit(i) for i in range(nfields)]
    vals = [l[0] for l in lits]
    objty = "{ " + ", ".join(f"{n}: {l[1]}" for n, l in zip(names, lits)) + " }"
    obj = "new { " + ", ".join(f"{n}: {v}" for n, v in zip(names, vals)) + " }"
    shuffled = list(zip(names, vals))
    rng.shuffle(shuffled)
    obj2 = "new { " + ", ".join(f"{n}: {v}" for n, v in shuffled) + " }"
    body = [f"let o = {obj};", f"let p = {obj2};", "println(o);", "println(o == p, p == o);", "println(o.keys());",
            "let ao = o as { ? };", "println(ao.keys());", "for key in ao.keys() { print(key, \"\"); }", "println();"]
    feats.append(f"fields:{min(nfields, 12) // 4 * 4}")
    if rng.random() < 0.7:
        body += ["let j = o.to_json();", "println(j);", f"let back: {objty} = j.parse_json();", "println(back);"]
        feats.append("json")
    if rng.random() < 0.5:
        # a cast with several ill-typed fields: the error message names a field (finding V35)
        bad = rng.sample(names, min(len(names), rng.randint(1, 3)))
        ty = "{ " + ", ".join(f"{n}: {'null' if n in bad else 'int'}" for n in names) + " }"
        src = "{" + ", ".join(f'\\"{n}\\": 1' for n in names) + "}"
        body += [f'try {{ let c: {ty} = "{src}".parse_json(); println(c); }} catch e {{ println(e.message); }}']
        feats.append(f"cast-errors:{len(bad)}")
    # many locals with colliding shapes
    base = rng.choice(["a", "x", "v", "k"])
    nloc = rng.randint(3, 14)
    body.append(f"let {base}1 = 100;")
    for i in range(nloc):
        body.append(f"{{ let {base} = {i}; if {base} < 0 {{ println({base}); }} }}")
    body += [f"let {base} = 7;", f"println({base}1, {base});"]
    if nloc >= 10:
        feats.append("mangle-collision-shape")
    feats.append(f"locals:{nloc // 5 * 5}")
    fns = []
    for k in range(rng.randint(0, 3)):
        fns.append(f"fn h{k}(n: int) -> int {{ let {base} = n + {k}; let {base}1 = {base} * 2; let unused{k} = 0; {base} + {base}1 }}")
        body.append(f"println(h{k}({k}));")
    if rng.random() < 0.4:
        fns.append("fn never_called() { let q = 1; }")
        feats.append("unused-fn")
    mods = {}
    imports = ""
    if rng.random() < 0.6:
        nm = rng.randint(1, 3)
        feats.append(f"modules:{nm + 1}")
        for i in range(nm):
            mn = ["ma", "mb", "mc"][i]
            # (every module owns a function literal and prints it: what a function value prints must not depend on
            # the order in which the modules are compiled)
            mods[mn] = (f'pub let g{mn} = "{mn}-global";\nlet priv{mn} = 1;\n'
                        f'pub fn f{mn}() {{ let lam{mn} = fn() -> int {{ {i} }}; println("{mn}.f", g{mn}, lam{mn}, lam{mn}(), f{mn}); '
                        f'g{mn} = g{mn} + "!"; }}\nfn main() {{ }}')
            extra = ", unused_" + mn if rng.random() < 0.2 else ""
            imports += f"import {{ f{mn}, g{mn}{extra} }} from {mn};\n"
            if extra:
                mods[mn] += f"\npub fn unused_{mn}() {{ }}"
            body += [f"f{mn}();", f"println(g{mn});", f"f{mn}();"]
    if rng.random() < 0.15:
        # a rejected program: several diagnostics at once (their multiset must be stable)
        body += ["let t1: int = \"s\";", "let t2: str = 1;", "undefined_name();"]
        feats.append("rejected")
    body += ["let lam = fn() -> int { 9 };", "println(lam, lam(), main);"]
    mods["main"] = imports + "\n".join(fns) + "\nfn main() {\n  " + "\n  ".join(body) + "\n}"
    return mods, feats
