"""C18 — boundary-value generator for the (type kind x member) product.

Values are Python tuples mirroring the S-expression syntax of `hv membercall` / the driver:
  ("null",) ("none",) ("int", n) ("float", "<source text>") ("bool", b) ("str", s)
  ("range", a, b, incl) ("list", [v…]) ("some", v) ("anyobj", [(k, v)…]) ("obj", [(k, v)…])
Types are the S-expressions the driver prints for `HmsGen.GTy`, parsed into nested tuples:
  "int" | ("list", t) | ("opt", t) | …

Everything here is deterministic except `random_sequences`, which draws from the `random.Random`
passed in (ctx.rng).
"""
import struct

I64_MIN, I64_MAX = -(2 ** 63), 2 ** 63 - 1
EXTREME_INTS = [2 ** 31, -(2 ** 31), I64_MAX, -I64_MAX, I64_MIN]


# ---------------------------------------------------------------------------
# S-expressions
# ---------------------------------------------------------------------------

def xhex(s):
    return "x" + s.encode("utf-8").hex()


def float_bits(text):
    return struct.unpack("<Q", struct.pack("<d", float(text)))[0]


def sx(v):
    k = v[0]
    if k in ("null", "none"):
        return k
    if k == "int":
        return f"(int {v[1]})"
    if k == "float":
        return f"(float {float_bits(v[1])})"
    if k == "bool":
        return f"(bool {'true' if v[1] else 'false'})"
    if k == "str":
        return f"(str {xhex(v[1])})"
    if k == "range":
        return f"(range {v[1]} {v[2]} {'true' if v[3] else 'false'})"
    if k == "list":
        return "(" + " ".join(["list"] + [sx(x) for x in v[1]]) + ")"
    if k == "some":
        return f"(some {sx(v[1])})"
    if k in ("anyobj", "obj"):
        return "(" + " ".join([k] + [f"({xhex(key)} {sx(val)})" for key, val in sorted(v[1])]) + ")"
    raise ValueError(v)


def parse_ty(text):
    """`int`, `(list int)`, `(opt (list int))` -> nested tuples / strings."""
    toks = text.replace("(", " ( ").replace(")", " ) ").split()
    pos = 0

    def go():
        nonlocal pos
        t = toks[pos]
        pos += 1
        if t != "(":
            return t
        items = []
        while toks[pos] != ")":
            items.append(go())
        pos += 1
        return tuple(items)
    return go()


def ty_src(t):
    """homescript source syntax of a type (None: not expressible / not wanted in a `let`)."""
    if isinstance(t, str):
        return {"int": "int", "float": "float", "bool": "bool", "str": "str", "range": "range",
                "anyobj": "{ ? }", "obj": "{ a: int }"}.get(t)
    if t[0] == "list":
        inner = ty_src(t[1])
        return None if inner is None else f"[{inner}]"
    if t[0] == "opt":
        inner = ty_src(t[1])
        return None if inner is None else f"?{inner}"
    return None


# ---------------------------------------------------------------------------
# value pools
# ---------------------------------------------------------------------------

STRS = ["", "a", "abc", "héllo", "日本語", "a,b,,c", "😀x"]
STR_SPECIAL = ["123", "-7", "true", "1.5", "  X y ", '{"a":[1,2,{"b":null}],"c":1.5}', "[1,2", "ÄÖ ü",
               # number syntax that only a base-guessing or lenient parser accepts
               "010", "08", "0x1F", "0b101", "1_000", "+5", "-007", " 5", "1e3", "9223372036854775808", ".5", "5.", "True", "t", "0"]
FLOATS = ["0.0", "1.5", "2.5", "3.0", "0.125", "10000000000000000000000.0", "-2.75", "-0.5", "-3.0", "4.5", "-1.5"]


def values_of(t, tier, depth=0):
    """Boundary values of a type (receivers and arguments)."""
    many = tier == "thorough"
    if t == "int":
        return [("int", n) for n in ([0, 1, -1, 7] + (EXTREME_INTS if depth == 0 else [I64_MIN]))]
    if t == "float":
        return [("float", f) for f in (FLOATS if depth == 0 else FLOATS[:2])]
    if t == "bool":
        return [("bool", True), ("bool", False)]
    if t == "str":
        pool = STRS + (STR_SPECIAL if depth == 0 else [])
        return [("str", s) for s in (pool if depth == 0 else pool[:4])]
    if t == "range":
        rs = [("range", 1, 3, False), ("range", 3, 1, False), ("range", 0, 0, False), ("range", 1, 3, True),
              ("range", -2, 2, True)]
        if depth == 0:
            rs += [("range", I64_MIN, I64_MAX, False), ("range", I64_MAX, I64_MIN, True)]
        return rs if depth == 0 else rs[:2]
    if t == "anyobj":
        objs = [("anyobj", []), ("anyobj", [("k", ("int", 1))]),
                ("anyobj", [("a", ("int", 1)), ("b", ("str", "x")), ("c", ("list", [("int", 1)])), ("d", ("none",)),
                            ("é", ("float", "1.5")), ("o", ("obj", [("a", ("int", 2))]))])]
        return objs if depth == 0 else objs[:2]
    if t == "obj":
        return [("obj", [("a", ("int", 1))]), ("obj", [("a", ("int", I64_MIN))])]
    if t == "null":
        return [("null",)]
    if isinstance(t, tuple) and t[0] == "list":
        elems = values_of(t[1], tier, depth + 1)
        e = elems
        out = [("list", []), ("list", [e[0]]), ("list", [e[i % len(e)] for i in (1, 0, 2)])]
        if many or depth == 0:
            out.append(("list", [e[i % len(e)] for i in (2, 1, 1, 0, 3)]))
            # leading (and only) "zero-like" elements: "", 0, 0.0 … first, twice, then something else
            out.append(("list", [e[0], e[0], e[1 % len(e)]]))
            out.append(("list", [e[0], e[0]]))
        if many and depth == 0:
            out.append(("list", [e[i % len(e)] for i in range(9)]))
        return out
    if isinstance(t, tuple) and t[0] == "opt":
        inner = values_of(t[1], tier, depth + 1)
        return [("none",)] + [("some", v) for v in inner[:3 if not many else 5]]
    if t in ("any", "unknown"):
        return [("int", 5), ("str", "s"), ("list", [("int", 1)]), ("none",), ("bool", True), ("float", "2.5"),
                ("anyobj", [("z", ("int", 0))])]
    raise ValueError(f"no values for type {t!r}")


def length_of(v):
    if v[0] == "list":
        return len(v[1])
    if v[0] == "str":
        return len(v[1])            # code points
    return 0


def index_args(n):
    """-n-1 … n+1, 0, ±2^31, ±(2^63-1), -2^63."""
    s = list(range(-n - 1, n + 2)) + [0] + EXTREME_INTS
    seen, out = set(), []
    for i in s:
        if i not in seen:
            seen.add(i)
            out.append(("int", i))
    return out


def repeat_counts(s):
    """Counts for `repeat`: negative, zero, small, and counts whose output length overflows `int`.
    Counts that would merely allocate a huge string are left out (open finding X16)."""
    blen = len(s.encode("utf-8"))
    cands = [I64_MIN, -I64_MAX, -(2 ** 31), -1, 0, 1, 2, 3, 2 ** 31, 2 ** 62, I64_MAX]
    out = []
    for c in cands:
        if c <= 0 or blen == 0 or blen * c <= 1 << 16 or blen * c > I64_MAX:
            out.append(("int", c))
    return out


def arg_tuples(rep_ty, member, params, recv, tier):
    """Argument tuples for one receiver value. Index-like parameters get the boundary set that
    depends on the receiver's length; everything else its type's pool (all pairs in the thorough
    tier, a diagonal-plus-extremes selection in the quick tier)."""
    if not params:
        return [()]
    pools = []
    for pi, p in enumerate(params):
        if p == "int" and member in ("insert", "remove", "substring") and pi == 0:
            pools.append(index_args(length_of(recv)))
        elif p == "int" and member == "repeat":
            pools.append(repeat_counts(recv[1]))
        elif p == "str" and member in ("get", "get_type", "set"):
            keys = [k for k, _ in recv[1]] if recv[0] in ("anyobj", "obj") else []
            pools.append([("str", k) for k in (keys[:2] + ["", "zz", "to_string", "é"])])
        elif isinstance(p, tuple) and p[0] == "list" and member == "concat":
            vals = values_of(p, tier, 1)
            pools.append(vals[:3] + [recv])
        else:
            pools.append(values_of(p, tier, 1 if member != "unwrap_or" else 0))
    if len(pools) == 1:
        return [(a,) for a in pools[0]]
    # two parameters
    a, b = pools
    if tier == "thorough" or member in ("insert",):
        bsel = b if tier == "thorough" else b[:2]
        return [(x, y) for x in a for y in bsel]
    out = [(x, b[i % len(b)]) for i, x in enumerate(a)]
    out += [(a[0], y) for y in b[1:]]
    return out


# ---------------------------------------------------------------------------
# homescript source rendering (in-language route)
# ---------------------------------------------------------------------------

def lit_int(n):
    if n == I64_MIN:
        return "(-9223372036854775807 - 1)"
    return f"(-{-n})" if n < 0 else str(n)


def lit_str(s):
    out = []
    for c in s:
        if c == '"':
            out.append('\\"')
        elif c == "\\":
            out.append("\\\\")
        elif c == "\n":
            out.append("\\n")
        elif c == "\t":
            out.append("\\t")
        else:
            out.append(c)
    return '"' + "".join(out) + '"'


class NoSource(Exception):
    pass


def lit(v, t, pre, counter):
    """Source expression for value v of type t; statements that must precede it go to `pre`."""
    k = v[0]
    if k == "int":
        return lit_int(v[1])
    if k == "float":
        return v[1]
    if k == "bool":
        return "true" if v[1] else "false"
    if k == "str":
        return lit_str(v[1])
    if k == "range":
        return f"({lit_int(v[1])}..{'=' if v[3] else ''}{lit_int(v[2])})"
    if k == "none":
        src_t = ty_src(t) if isinstance(t, tuple) and t[0] == "opt" else None
        if src_t is None:
            return "none"
        counter[0] += 1          # a bare `none` has no element type: bind it to a typed name
        name = f"n{counter[0]}"
        pre.append(f"let {name}: {src_t} = none;")
        return name
    if k == "some":
        inner_t = t[1] if isinstance(t, tuple) and t[0] == "opt" else guess_ty(v[1])
        return "?" + lit(v[1], inner_t, pre, counter)
    if k == "list":
        elem_t = t[1] if isinstance(t, tuple) and t[0] == "list" else (guess_ty(v[1][0]) if v[1] else None)
        if not v[1]:
            src_t = ty_src(("list", elem_t)) if elem_t is not None else None
            if src_t is None:
                raise NoSource()
            counter[0] += 1
            name = f"e{counter[0]}"
            pre.append(f"let {name}: {src_t} = [];")
            return name
        return "[" + ", ".join(lit(x, elem_t, pre, counter) for x in v[1]) + "]"
    if k == "obj":
        return "new { " + ", ".join(f"{key}: {lit(val, guess_ty(val), pre, counter)}" for key, val in v[1]) + " }"
    if k == "anyobj":
        counter[0] += 1
        name = f"o{counter[0]}"
        pre.append(f"let {name} = new {{ ? }};")
        for key, val in v[1]:
            pre.append(f"{name}.set({lit_str(key)}, {lit(val, guess_ty(val), pre, counter)});")
        return name
    raise NoSource()


def guess_ty(v):
    k = v[0]
    if k in ("int", "float", "bool", "str", "range", "anyobj", "obj"):
        return k
    if k == "list":
        return ("list", guess_ty(v[1][0])) if v[1] else ("list", "int")
    if k == "some":
        return ("opt", guess_ty(v[1]))
    if k == "none":
        return ("opt", "int")
    raise NoSource()


def contains_any(t):
    if t in ("any", "unknown"):
        return True
    return isinstance(t, tuple) and any(contains_any(x) for x in t[1:])


def program(op, rep_ty, member, recv, args, params, result):
    """One-line program for a case, or None when the case has no source form. The program prints
    the result (when there is one) and then the receiver."""
    try:
        pre, counter = [], [0]
        rt = ty_src(rep_ty)
        if rt is None:
            return None
        recv_src = lit(recv, rep_ty, pre, counter)
        body = pre + [f"let v: {rt} = {recv_src};"]
        pre2 = []
        if op == "index":
            if rep_ty in ("obj", "anyobj"):
                # a variable key: a literal key of an object type is checked statically
                pre2.append(f"let k = {lit(args[0], 'str', pre2, counter)};")
                expr = "v[k]"
            else:
                expr = f"v[{lit(args[0], 'int', pre2, counter)}]"
        elif op == "field":
            expr = f"v.{member}"
        else:
            arg_src = [lit(a, p if not contains_any(p) else guess_ty(a), pre2, counter) for a, p in zip(args, params)]
            expr = f"v.{member}({', '.join(arg_src)})"
        body += pre2
        if result == "null":
            body.append(f"{expr};")
        elif result == "any":
            if op != "index" or recv[0] not in ("obj", "anyobj"):
                return None      # `any` results need a cast chosen per value (C12): direct route only
            held = dict(recv[1]).get(args[0][1])
            cast = ty_src(guess_ty(held)) if held is not None else "int"
            if cast is None:
                return None
            body.append(f"println({expr} as {cast});")
        elif contains_any(result):
            body.append(f"println({expr});")
        else:
            body.append(f"let r: {ty_src(result)} = {expr};")
            body.append("println(r);")
        body.append("println(v);")
        return "fn main() { " + " ".join(body) + " }"
    except NoSource:
        return None


# ---------------------------------------------------------------------------
# case enumeration
# ---------------------------------------------------------------------------

def cases(rows, reps, tier):
    """rows: [(rep, member, is_method, params, result, modelled)], reps: {rep: type}.
    Yields dicts: op, rep, member, recv, args (+ rep_ty, params, result)."""
    out = []
    for rep, member, is_method, params, result, modelled in rows:
        t = reps[rep]
        for recv in values_of(t, tier):
            if not is_method:
                out.append(dict(op="field", rep=rep, member=member, recv=recv, args=(), rep_ty=t, params=params,
                                result=result, modelled=modelled))
                continue
            for args in arg_tuples(t, member, params, recv, tier):
                out.append(dict(op="call", rep=rep, member=member, recv=recv, args=args, rep_ty=t, params=params,
                                result=result, modelled=modelled))
    # indexing: every indexable representative
    for rep, t in reps.items():
        if isinstance(t, tuple) and t[0] == "list" or t == "str":
            res = t[1] if isinstance(t, tuple) else "str"
            for recv in values_of(t, tier):
                for a in index_args(length_of(recv)):
                    out.append(dict(op="index", rep=rep, member="[]", recv=recv, args=(a,), rep_ty=t, params=["int"],
                                    result=res, modelled=True))
        elif t in ("obj", "anyobj"):
            for recv in values_of(t, tier):
                keys = [k for k, _ in recv[1]]
                for k in keys + ["", "zz", "keys", "to_string", "get"]:
                    out.append(dict(op="index", rep=rep, member="[]", recv=recv, args=(("str", k),), rep_ty=t,
                                    params=["str"], result="any", modelled=True))
    return out


def case_line(c):
    if c["op"] == "index":
        return f"(index {sx(c['recv'])} {sx(c['args'][0])})"
    if c["op"] == "field":
        return f"(field {sx(c['recv'])} {xhex(c['member'])})"
    return "(" + " ".join(["call", sx(c["recv"]), xhex(c["member"])] + [sx(a) for a in c["args"]]) + ")"


MUTATORS = ["push", "push_front", "pop", "pop_front", "insert", "remove", "last", "len", "concat"]


def random_sequences(rng, n, max_len):
    """Random sequences of list members on one [int] receiver (capacity / aliasing behaviour of the
    in-place slice operations: a pop followed by an insert reuses the backing array)."""
    out = []
    for _ in range(n):
        cur = rng.randrange(0, 5)
        recv = ("list", [("int", rng.randrange(-3, 10)) for _ in range(cur)])
        steps = []
        for _ in range(rng.randrange(1, max_len + 1)):
            m = rng.choice(MUTATORS)
            if m in ("push", "push_front"):
                steps.append((m, [("int", rng.randrange(100, 200))]))
            elif m == "insert":
                steps.append((m, [("int", rng.randrange(-7, 8)), ("int", rng.randrange(100, 200))]))
            elif m == "remove":
                steps.append((m, [("int", rng.randrange(-7, 8))]))
            elif m == "concat":
                steps.append((m, [("list", [("int", rng.randrange(200, 300)) for _ in range(rng.randrange(0, 3))])]))
            else:
                steps.append((m, []))
        line = "(" + " ".join(["seq", sx(recv)] + ["(" + " ".join([xhex(m)] + [sx(a) for a in args]) + ")"
                                                   for m, args in steps]) + ")"
        out.append(dict(op="seq", recv=recv, steps=steps, line=line))
    return out


def seq_program(s):
    """The sequence as a program: the calls as statements, then the list is printed."""
    pre, counter = [], [0]
    body = [f"let v: [int] = {lit(s['recv'], ('list', 'int'), pre, counter)};"]
    for m, args in s["steps"]:
        srcs = [lit(a, guess_ty(a), pre, counter) for a in args]
        body.append(f"v.{m}({', '.join(srcs)});")
    return "fn main() { " + " ".join(pre + body) + " println(v); }"


RETURNING = ("pop", "pop_front", "last", "len")


def seq_program_shown(s, held):
    """The sequence as a program that also prints what the value-returning members answer. `held`: every member is
    first taken as a value (`let m3 = v.pop;`), all of them before the first call, and the calls go through those values:
    a member value must behave like the direct call at the time of the call, whatever happened to the list in between."""
    pre, counter = [], [0]
    body = [f"let v: [int] = {lit(s['recv'], ('list', 'int'), pre, counter)};"]
    calls = []
    for k, (m, args) in enumerate(s["steps"]):
        srcs = [lit(a, guess_ty(a), pre, counter) for a in args]
        if held:
            body.append(f"let m{k} = v.{m};")
            call = f"m{k}({', '.join(srcs)})"
        else:
            call = f"v.{m}({', '.join(srcs)})"
        calls.append(f"println({call});" if m in RETURNING else f"{call};")
    return "fn main() { " + " ".join(pre + body + calls) + " println(v); }"
