import HmsProofs.Lemmas.VMSound
/-!
# C02 — an accepted program can never crash, wedge or confuse the host (stack discipline)

`Hms.Core.BcCheck.hcheck : Code → Bool` is a bytecode verifier in the style of JVM verification,
restricted to heights: it assigns to every reachable instruction index of every function an
operand-stack height (relative to the activation's base), a memory-pointer offset (relative to
function entry) and the list of handlers the activation has installed, and checks the assignment
instruction by instruction (`verify`). The theorems below are about the VM model `Hms.Core.VM`.

* `hcheck_sound_partial`: for accepted code, from every state that satisfies the height invariant
  `Inv`, `step` never answers the panics "stack underflow", "handler stack underflow", "memory
  index", "label at run time"; `Inv` is preserved by a normal step and re-established by the
  exception dispatch (into a handler of any activation).
* `hcheck_run_sound_partial`: hence no run of accepted code from a fresh core ends in one of these
  panics, nor in "non-existent routine"/"no frame for the handler" raised by the loop itself.
* `balanced`: the height recorded for an instruction index is the height at that index on every
  visit: loops and calls neither grow the operand stack nor move the memory pointer.

`_partial`: the hypothesis `DynOK` — a *called function value* is a checked function with the
arity and result count its call site was checked for, and a builtin leaves a result exactly where
the site expects one. Heights cannot establish this; it is what the analyzer's type discipline
provides. Code without `callVal` needs no hypothesis (`run_sound_static`).
-/
namespace HmsProofs.C02
open Hms.Core Hms.Core.Comp Hms.Core.VM Hms.Core.BcCheck
open HmsProofs.Lemmas.VMStep HmsProofs.Lemmas.VMRun HmsProofs.Lemmas.VMCheck HmsProofs.Lemmas.VMSound

abbrev Inv := @HmsProofs.Lemmas.VMCheck.Inv
abbrev DynOK := @HmsProofs.Lemmas.VMCheck.DynOK
abbrev Excluded := HmsProofs.Lemmas.VMSound.Excluded

/-- `hcheck` accepts exactly when the annotation it infers passes `verify`. -/
theorem hcheck_verify (code : Code) (h : hcheck code = true) : ∃ A, verify code A = true := by
  unfold hcheck at h
  split at h
  · rename_i A _; exact ⟨A, h⟩
  · cases h

/-- **Soundness of the checker, one instruction.** For code accepted by `hcheck` there is an
annotation `A` such that from every state `s` that satisfies the height invariant `Inv code A`
(for every frame: operand-stack height, memory pointer and installed handlers are the ones
recorded for its instruction index), with the memory pointer within the limit and conforming
dynamic calls, executing the running instruction `i`
* never answers the Go panics "stack underflow" (`pop` on an empty stack), "handler stack
  underflow", "memory index" (slot outside the memory) or "label at run time";
* leads, if it completes normally, to a state that satisfies `Inv` again;
* leads, if it throws, either to `UncaughtThrow` (no handler installed at all) or into a handler
  in a state that satisfies `Inv` again. -/
theorem hcheck_sound_partial (code : Code) (h : hcheck code = true) :
    ∃ A, verify code A = true ∧
    ∀ (lim : Limits) (s : VMState) (f : Frame) (rest : List Frame) (c : FnCode) (i : RInstr) (sp : Span),
      Inv code A s → s.calls = f :: rest → findCode code f.fn = some c → c[f.ip]? = some (i, sp) →
      s.mp < (lim.memory : Int) → DynOK code A lim s →
      (∀ why st, step code lim s i sp = .panic why st → ¬ Excluded why)
      ∧ (∀ s', step code lim s i sp = .next s' → Inv code A s')
      ∧ (∀ msg tsp s', step code lim s i sp = .intr (.throw msg tsp) s' →
          (s'.handlers = [] ∨ ∃ s'', throwTo s' msg tsp = .cont s'')
          ∧ ∀ s'', throwTo s' msg tsp = .cont s'' → Inv code A s'') := by
  obtain ⟨A, hv⟩ := hcheck_verify code h
  refine ⟨A, hv, ?_⟩
  intro lim s f rest c i sp ⟨bs0, hinv⟩ hc hf hi hlim hdyn
  obtain ⟨fa, a, _, _, hs⟩ := step_sound hv hinv hc hf hi lim hlim hdyn
  refine ⟨?_, ?_, ?_⟩
  · intro why st e
    rw [e] at hs
    rintro (h | h | h | h) <;> simp_all [Sound, Sat3, NoBad]
  · intro s' e
    rw [e] at hs
    obtain ⟨bs', hb, _⟩ := hs
    exact ⟨bs', hb⟩
  · intro msg tsp s' e
    rw [e] at hs
    obtain ⟨h1, h2⟩ := hs msg tsp rfl
    exact ⟨h1, fun s'' ht => let ⟨bs', hb, _⟩ := h2 s'' ht; ⟨bs', hb⟩⟩

/-- A fresh core that is about to run a checked function without parameters satisfies `Inv`
(this is how `runMain` starts `@init` and the entry function). -/
theorem inv_fresh (code : Code) (A : List FnAnn) (hv : verify code A = true) (fn : String) (c : FnCode)
    (fa : FnAnn) (hl : lookupFn code A fn = some (c, fa)) (hp : fa.params = 0) (s : VMState)
    (hc : s.calls = [⟨fn, 0⟩]) (hs : s.stack = []) (hm : s.mp = 0) (hh : s.handlers = []) :
    Inv code A s := by
  obtain ⟨_, hentry, _⟩ := verify_fn hv hl
  refine ⟨[⟨0, 0⟩], ?_, ?_⟩
  · rw [hc, hs, hm, hh]
    simp only [InvL]
    exact ⟨c, fa, _, [], hl, hentry, by simp [hp], by simp, by simp, by simp [hmap], by simp, rfl⟩
  · intro f rest c' i sp n hc' _ _ _ hn
    rw [hc] at hc'
    simp only [List.cons.injEq] at hc'
    obtain ⟨rfl, _⟩ := hc'
    simp [argcAt_zero] at hn

/-- **Soundness of the checker, whole runs.** A run of checked code from a state that satisfies
`Inv` (e.g. a fresh core, `inv_fresh`) and `MemOK` (memory pointer below the limit, true for a
fresh core with a positive memory limit), in which the dynamic calls conform, never ends in one
of the four excluded panics, for any limits, quantum, cancellation point and fuel — and all its
poll states satisfy `Inv`. -/
theorem hcheck_run_sound_partial (code : Code) (h : hcheck code = true) :
    ∃ A, verify code A = true ∧
    ∀ (lim : Limits) (quantum : Nat) (cancelAt : Option Nat) (s₀ : VMState),
      Inv code A s₀ → MemOK lim s₀ → DynReach code A lim quantum cancelAt s₀ →
      (∀ fuel why st, run code lim quantum cancelAt fuel s₀ = .panic why st → ¬ Excluded why)
      ∧ (∀ p, PollReach code lim quantum cancelAt s₀ p → Inv code A p) := by
  obtain ⟨A, hv⟩ := hcheck_verify code h
  refine ⟨A, hv, ?_⟩
  intro lim q ca s₀ hinv hm hdyn
  exact ⟨fun fuel why st e => run_sound hv lim q ca fuel s₀ hinv hm hdyn why st e,
    fun p hp => (pollReach_inv hv hinv hm hdyn hp).1⟩

/-- No function contains a `callVal`. -/
def noCallVal (code : Code) : Bool :=
  code.all fun cf => cf.code.all fun x => match x.1 with | .callVal => false | _ => true

/-- Code without `callVal` has no dynamic calls: `DynOK` holds in every state. -/
theorem dynOK_static (code : Code) (A : List FnAnn) (lim : Limits)
    (hno : noCallVal code = true) (s : VMState) : DynOK code A lim s := by
  intro f rest c fa sp argc o g o' tl _ hlk hi _
  exfalso
  obtain ⟨cf, hm, rfl, _⟩ := lookup_mem code A f.fn c fa hlk
  simp only [noCallVal, List.all_eq_true] at hno
  have := hno cf (List.of_mem_zip hm).1 _ (List.mem_of_getElem? hi)
  simp at this

/-- **Unconditional corollary**: checked code without `callVal` (no calls of function values,
builtins or members) never ends in an excluded panic when run from a state that satisfies `Inv`. -/
theorem run_sound_static (code : Code) (h : hcheck code = true) (hno : noCallVal code = true) :
    ∃ A, verify code A = true ∧
    ∀ (lim : Limits) (quantum : Nat) (cancelAt : Option Nat) (s₀ : VMState),
      Inv code A s₀ → MemOK lim s₀ →
      ∀ fuel why st, run code lim quantum cancelAt fuel s₀ = .panic why st → ¬ Excluded why := by
  obtain ⟨A, hv, hs⟩ := hcheck_run_sound_partial code h
  refine ⟨A, hv, ?_⟩
  intro lim q ca s₀ hinv hm
  refine (hs lim q ca s₀ hinv hm ?_).1
  intro p _ _ k s1 _ _
  exact dynOK_static code A lim hno _

/-- **Balance** (the "run indefinitely" clause of C09). For checked code the recorded height is
a function of the instruction index only: if `s₂` is reached from `s₁` by instructions of the
activation that is running in `s₁` and of the activations it calls (the call depth never drops
below that of `s₁`; exception dispatch included), and `s₂` is again in that activation at the same
instruction index — the head of a loop on the next iteration, the instruction after a call — then
the operand stack has the same height and the memory pointer the same value as in `s₁`. -/
theorem balanced (code : Code) (A : List FnAnn) (hv : verify code A = true) (lim : Limits)
    (s₁ s₂ : VMState) (h1 : Inv code A s₁) (hp : Path code A lim s₁.calls.length s₁ s₂)
    (hd : s₂.calls.length = s₁.calls.length) (f : Frame) (r₁ r₂ : List Frame)
    (hc1 : s₁.calls = f :: r₁) (hc2 : s₂.calls = f :: r₂) :
    s₂.stack.length = s₁.stack.length ∧ s₂.mp = s₁.mp :=
  HmsProofs.Lemmas.VMSound.balanced hv h1 hp hd hc1 hc2 rfl

/-! ## Non-vacuity -/

section Examples

private def sp0 : Span := ⟨0, 0, 0, 0⟩
private def mk (l : List RInstr) : FnCode := l.map (·, sp0)

/-- `let i = 0; while i < 3 { i = f(i) }` with `f(x) = x + 1`, then a `try`/`catch` around a
`throw`: slots, a loop, a call, a handler. -/
private def loopCode : Code := [
  { name := "main", code := mk [.addMp 1, .copyPush (.int 0), .setVar 0,
      .getVar 0, .copyPush (.int 3), .lt, .jumpIfFalse 11,
      .getVar 0, .callImm "f", .setVar 0, .jump 3,
      .setTry "main" 16, .copyPush (.str "x"), .throw, .popTry, .jump 18, .setVar 0, .popTry,
      .addMp (-1), .ret] },
  { name := "f", code := mk [.addMp 1, .setVar 0, .getVar 0, .copyPush (.int 1), .add, .addMp (-1), .ret] } ]

/-- The checker accepts it (evaluated by the kernel). -/
example : hcheck loopCode = true := by decide

example : noCallVal loopCode = true := by decide

/-- ... and it runs to completion with the operand stack, the memory pointer and the handler
stack returned (27 instructions of the loop body per iteration, several polls). -/
example : (match run loopCode {} 7 none 50 { calls := [⟨"main", 0⟩] } with
    | .ok s => s.stack.length == 0 && s.mp == 0 && s.handlers.length == 0
    | _ => false) = true := by decide

/-- The annotation is a function of the instruction index: at the loop head (index 3) the height
is 0 on every visit — here the state one loop iteration (15 instructions) after the first visit. -/
example : (match runQuantum loopCode {} 3 { calls := [⟨"main", 0⟩] } with
    | .inl s1 =>
      (match runQuantum loopCode {} 15 s1 with
        | .inl s2 => s1.calls == [⟨"main", 3⟩] && s2.calls == [⟨"main", 3⟩] && s1.stack.length == s2.stack.length
            && s1.mp == s2.mp
        | _ => false)
    | _ => false) = true := by decide

/-- The hypotheses of `balanced` are satisfiable by a real loop iteration: from the first visit
of the loop head (index 3) of `loopCode`, 15 instructions (the loop body with its call of `f`,
call depth 1 → 2 → 1) lead back to the loop head along a `Path`. -/
example : ∃ A s₁ s₂, verify loopCode A = true ∧ Path loopCode A {} 1 s₁ s₂
    ∧ s₁.calls.map (fun f => (f.fn, f.ip)) = [("main", 3)] ∧ s₂.calls.map (fun f => (f.fn, f.ip)) = [("main", 3)]
    ∧ s₂.steps = s₁.steps + 15 := by
  have hd : (match pathRun loopCode {} 1 3 { calls := [⟨"main", 0⟩] } with
      | some s1 =>
        (match pathRun loopCode {} 1 15 s1 with
          | some s2 => s1.calls.map (fun f => (f.fn, f.ip)) == [("main", 3)]
              && s2.calls.map (fun f => (f.fn, f.ip)) == [("main", 3)] && s2.steps == s1.steps + 15
          | none => false)
      | none => false) = true := by decide
  cases h1 : pathRun loopCode {} 1 3 { calls := [⟨"main", 0⟩] } with
  | none => rw [h1] at hd; cases hd
  | some s1 =>
    rw [h1] at hd
    simp only at hd
    cases h2 : pathRun loopCode {} 1 15 s1 with
    | none => rw [h2] at hd; cases hd
    | some s2 =>
      rw [h2] at hd
      simp only [Bool.and_eq_true, beq_iff_eq] at hd
      exact ⟨(infer loopCode).getD [], s1, s2, by decide,
        path_of_pathRun (fun s => dynOK_static loopCode _ {} (by decide) s) 15 s1 s2 h2, hd.1.1, hd.1.2, hd.2⟩

/-- The hypotheses of the run theorems are satisfiable: the annotation `infer` computes for
`loopCode` passes `verify`, and the fresh core that is about to run `main` satisfies `Inv` and
`MemOK`; hence (by `run_sound_static`) no run of `loopCode` ends in an excluded panic. -/
example : ∃ A, verify loopCode A = true ∧ Inv loopCode A { calls := [⟨"main", 0⟩] }
    ∧ MemOK {} { calls := [⟨"main", 0⟩] } := by
  refine ⟨(infer loopCode).getD [], by decide, ?_, ⟨by decide, by simp, by simp, by simp⟩⟩
  have hp : (lookupFn loopCode ((infer loopCode).getD []) "main").map (fun x => x.2.params) = some 0 := by decide
  obtain ⟨⟨c, fa⟩, hl, hpar⟩ := Option.map_eq_some_iff.mp hp
  exact inv_fresh loopCode _ (by decide) "main" c fa hl hpar _ rfl rfl rfl rfl

/-- The checker rejects code that underflows, and that code does panic the VM. -/
example : hcheck [{ name := "main", code := mk [.drop, .ret] }] = false
    ∧ (match run [{ name := "main", code := mk [.drop, .ret] }] {} 5 none 5 { calls := [⟨"main", 0⟩] } with
      | .panic why _ => why == "stack underflow"
      | _ => false) = true := by decide

/-- The statement without the hypothesis `DynOK`: every run of accepted code from a fresh core
that starts a parameterless function avoids the excluded panics. -/
def hcheck_run_sound_full : Prop :=
  ∀ (code : Code), hcheck code = true → ∀ (lim : Limits) (quantum : Nat) (fn : String),
    (findCode code fn).map paramsOf = some 0 →
    ∀ fuel why st, run code lim quantum none fuel { calls := [⟨fn, 0⟩] } = .panic why st → ¬ Excluded why

/-- `main` calls the function value `g` with no argument; `g` pops one. Heights alone accept it. -/
private def arityCode : Code := [
  { name := "main", code := mk [.addMp 0, .copyPush (.vmFn "g"), .copyPush (.int 0), .callVal, .addMp 0, .ret] },
  { name := "g", code := mk [.addMp 1, .setVar 0, .addMp (-1), .ret] } ]

/-- **The hypothesis `DynOK` is needed**: a height checker cannot see which function a function
*value* denotes. `arityCode` is accepted by `hcheck` and panics with "stack underflow". (The Go
analyzer rejects the source of such code — arity is part of the function type — so this is the
division of labour between the two checkers, not a defect of the VM.) -/
theorem hcheck_run_sound_full_counterexample : ¬ hcheck_run_sound_full := by
  intro hfull
  have hd : (match run arityCode {} 50 none 5 { calls := [⟨"main", 0⟩] } with
      | .panic why _ => why == "stack underflow" | _ => false) = true := by decide
  cases hr : run arityCode {} 50 none 5 { calls := [⟨"main", 0⟩] } with
  | panic why st =>
    rw [hr] at hd
    exact hfull arityCode (by decide) {} 50 "main" (by decide) 5 why st hr (Or.inl (by simpa using hd))
  | ok s => rw [hr] at hd; cases hd
  | fatal k m sp s => rw [hr] at hd; cases hd
  | term s => rw [hr] at hd; cases hd
  | outOfFuel s => rw [hr] at hd; cases hd

/-- It rejects a loop that grows the stack (one push per iteration). -/
example : hcheck [{ name := "main", code := mk [.copyPush (.int 1), .jump 0] }] = false := by decide

/-- It rejects a slot outside the frame, and a `popTry` without a handler. -/
example : hcheck [{ name := "main", code := mk [.addMp 1, .getVar 1, .drop, .addMp (-1), .ret] }] = false
    ∧ hcheck [{ name := "main", code := mk [.popTry, .ret] }] = false := by decide

end Examples

end HmsProofs.C02
