import Hms.Members.Sig
import HmsProofs.Lemmas.MembersTyped
/-!
# C18 — every builtin member the analyzer offers exists and behaves as typed

Property theorems only; lemmas live in `HmsProofs/Lemmas/Members*.lean`, the model in
`Hms/Members/*.lean`.

* Table theorems (`decide +kernel` over `HmsGen/Members.lean`, regenerated from the Go code on every
  run by calling `ast.<Type>.Fields()` and `Fields()` of a representative value of both value
  packages): `members_exist`, `no_fields_panic`, `member_sigs_agree`.
* Model theorems (all lists, all 64-bit indices): `index_total`, `str_index_total`, `insert_total`,
  `remove_total`, `pop_total`, `pop_front_total`, `last_total`, `substring_total`, `repeat_total`,
  `index_typed`, `member_typed_partial`.

Hypothesis `xs.length < 2 ^ 63` (`goSized`): a Go slice or string is never longer than the largest
`int`; it is the invariant of Go's `len`, not a restriction of the language fragment.
-/
namespace HmsProofs.C18
open Hms.Members HmsGen HmsProofs.Lemmas.Members

/-! ## The three regenerated member tables -/

/-- `(rep, member, shape)` is a row of a runtime table. -/
def inRuntime (tbl : List (String × String × String)) (rep member shape : String) : Bool :=
  tbl.any fun r => r.1 == rep && r.2.1 == member && r.2.2 == shape

/-- Every member the analyzer offers on a type exists on the runtime value of that type in both
runtimes, with the same shape (field vs. method). -/
theorem members_exist :
    ∀ r ∈ membersAnalyzer,
      inRuntime membersVM r.1 r.2.1 r.2.2.1 = true ∧ inRuntime membersTree r.1 r.2.1 r.2.2.1 = true := by
  decide +kernel

/-- No `Fields()` call of a representative value panicked (a panic is dumped as a `<PANIC>` row; a
representative whose `Fields()` answers with an interrupt has no rows and fails `members_exist`). -/
theorem no_fields_panic :
    (∀ r ∈ membersVM, r.2.1 ≠ "<PANIC>") ∧ (∀ r ∈ membersTree, r.2.1 ≠ "<PANIC>") := by
  decide +kernel

/-- The string table and the structural table of the analyzer list the same (rep, member, shape)
rows, and every representative has a dumped type. -/
theorem typed_table_covers :
    (membersAnalyzer.map fun r => (r.1, r.2.1, r.2.2.1 == "method"))
        = (membersAnalyzerTyped.map fun r => (r.1, r.2.1, r.2.2.1))
      ∧ (∀ r ∈ membersAnalyzerTyped, (repType r.1).isSome = true) := by
  decide +kernel

/-- For every row inside the model, the signature the analyzer advertises (regenerated) is exactly
the signature the model was proved against (`expectedSig` / `expectedField`). -/
theorem member_sigs_agree :
    ∀ r ∈ membersAnalyzerTyped, modelled r.1 r.2.1 r.2.2.1 = true →
      ∃ t, repType r.1 = some t ∧
        (if r.2.2.1 then expectedSig t r.2.1 = some (r.2.2.2.1, r.2.2.2.2)
         else r.2.2.2.1 = [] ∧ expectedField t r.2.1 = some r.2.2.2.2) := by
  decide +kernel

/-- The model covers a substantial part of the table (so `member_typed_partial` is not vacuous). -/
theorem modelled_rows_many :
    80 ≤ (membersAnalyzerTyped.filter fun r => modelled r.1 r.2.1 r.2.2.1).length := by
  decide +kernel

/-- Converse report (not an obligation): members a runtime has but the analyzer does not offer. -/
def runtimeOnly (tbl : List (String × String × String)) : List (String × String) :=
  (tbl.filter fun r => !(membersAnalyzer.any fun a => a.1 == r.1 && a.2.1 == r.2.1)).map fun r => (r.1, r.2.1)

/-! ## Indexing and the index-taking members: the wrap rule, never a panic, never another element -/

/-- `IndexValue` on a list: for every list and every 64-bit index the result is the element at the
wrapped position, or (out of range) the IndexOutOfBounds interrupt. -/
theorem index_total (xs : List MVal) (i : I64) (hl : xs.length < 2 ^ 63) :
    (∃ k v, wrapSpec i.toInt xs.length = some k ∧ xs[k]? = some v
        ∧ indexValue (.list xs) (.int i) = .ok v (.list xs))
    ∨ (wrapSpec i.toInt xs.length = none
        ∧ ∃ msg, indexValue (.list xs) (.int i) = .fatal "IndexOutOfBounds" msg) := by
  have h := listIndex_spec xs i hl
  cases hw : wrapSpec i.toInt xs.length with
  | some k =>
    rw [hw] at h
    obtain ⟨v, hv, he⟩ := h
    exact Or.inl ⟨k, v, rfl, hv, he⟩
  | none =>
    rw [hw] at h
    exact Or.inr ⟨rfl, _, h⟩

/-- The same for strings (by code point). -/
theorem str_index_total (cs : List Char) (i : I64) (hl : cs.length < 2 ^ 63) :
    (∃ k c, wrapSpec i.toInt cs.length = some k ∧ cs[k]? = some c
        ∧ indexValue (.str cs) (.int i) = .ok (.str [c]) (.str cs))
    ∨ (wrapSpec i.toInt cs.length = none
        ∧ ∃ msg, indexValue (.str cs) (.int i) = .fatal "IndexOutOfBounds" msg) := by
  have h := strIndex_spec cs i hl
  cases hw : wrapSpec i.toInt cs.length with
  | some k =>
    rw [hw] at h
    obtain ⟨c, hc, he⟩ := h
    exact Or.inl ⟨k, c, rfl, hc, he⟩
  | none =>
    rw [hw] at h
    exact Or.inr ⟨rfl, _, h⟩

/-- The out-of-range message names the wrapped index (what the implementation prints). -/
theorem index_message (xs : List MVal) (i : I64) (hl : xs.length < 2 ^ 63)
    (hw : wrapSpec i.toInt xs.length = none) :
    indexValue (.list xs) (.int i)
        = .fatal "IndexOutOfBounds" (oobMsgIndex "list" xs.length (wrapIdx i (goLen xs)))
      ∧ (wrapIdx i (goLen xs)).toInt = wrappedInt i.toInt xs.length := by
  have h := listIndex_spec xs i hl
  rw [hw] at h
  exact ⟨h, toInt_wrapIdx xs i hl⟩

/-- `insert(index, v)`: the new list is `xs[..k] ++ v :: xs[k..]` for the wrapped position `k`
(`k = len` appends), or the interrupt; nothing else. -/
theorem insert_total (vm : Bool) (xs : List MVal) (i : I64) (v : MVal) (hl : xs.length < 2 ^ 63) :
    (∃ k, wrapSpecIns i.toInt xs.length = some k
        ∧ callMember vm (.list xs) "insert" [.int i, v] = .ok .null (.list (xs.take k ++ v :: xs.drop k)))
    ∨ (wrapSpecIns i.toInt xs.length = none
        ∧ ∃ msg, callMember vm (.list xs) "insert" [.int i, v] = .fatal "IndexOutOfBounds" msg) := by
  have h := listInsert_spec xs i v hl
  cases hw : wrapSpecIns i.toInt xs.length with
  | some k => rw [hw] at h; exact Or.inl ⟨k, rfl, h⟩
  | none => rw [hw] at h; exact Or.inr ⟨rfl, _, h⟩

/-- `remove(index)`: the new list is `xs` without the element at the wrapped position, or the interrupt. -/
theorem remove_total (vm : Bool) (xs : List MVal) (i : I64) (hl : xs.length < 2 ^ 63) :
    (∃ k, wrapSpec i.toInt xs.length = some k
        ∧ callMember vm (.list xs) "remove" [.int i] = .ok .null (.list (xs.eraseIdx k)))
    ∨ (wrapSpec i.toInt xs.length = none
        ∧ ∃ msg, callMember vm (.list xs) "remove" [.int i] = .fatal "IndexOutOfBounds" msg) := by
  have h := listRemove_spec xs i hl
  cases hw : wrapSpec i.toInt xs.length with
  | some k => rw [hw] at h; exact Or.inl ⟨k, rfl, h⟩
  | none => rw [hw] at h; exact Or.inr ⟨rfl, _, h⟩

/-- `pop`: `none` on the empty list, otherwise the last element and the list without it. -/
theorem pop_total (vm : Bool) (xs : List MVal) (hl : xs.length < 2 ^ 63) :
    callMember vm (.list xs) "pop" [] =
      match xs.getLast? with
      | none => .ok .none (.list xs)
      | some v => .ok (.some v) (.list xs.dropLast) := by
  simp only [callMember]; exact listPop_spec xs hl

/-- `pop_front`. -/
theorem pop_front_total (vm : Bool) (xs : List MVal) (hl : xs.length < 2 ^ 63) :
    callMember vm (.list xs) "pop_front" [] =
      match xs with
      | [] => .ok .none (.list xs)
      | v :: rest => .ok (.some v) (.list rest) := by
  simp only [callMember]; exact listPopFront_spec xs hl

/-- `last` leaves the list unchanged. -/
theorem last_total (vm : Bool) (xs : List MVal) (hl : xs.length < 2 ^ 63) :
    callMember vm (.list xs) "last" [] =
      match xs.getLast? with
      | none => .ok .none (.list xs)
      | some v => .ok (.some v) (.list xs) := by
  simp only [callMember]; exact listLast_spec xs hl

/-- `push` / `push_front`. -/
theorem push_total (vm : Bool) (xs : List MVal) (v : MVal) :
    callMember vm (.list xs) "push" [v] = .ok .null (.list (xs ++ [v]))
      ∧ callMember vm (.list xs) "push_front" [v] = .ok .null (.list (v :: xs)) := by
  simp [callMember]

/-- `substring(upper)`: the first `upper` characters for `0 ≤ upper < len`, otherwise the exception;
never a panic (negative bound, fix X8), never half a character (fix X14). -/
theorem substring_total (vm : Bool) (cs : List Char) (u : I64) (hl : cs.length < 2 ^ 63) :
    callMember vm (.str cs) "substring" [.int u] =
      if 0 ≤ u.toInt ∧ u.toInt < cs.length then .ok (.str (cs.take u.toInt.toNat)) (.str cs)
      else .throw "index out of range" := by
  simp only [callMember]; exact strSubstring_spec cs u hl

/-- `repeat(count)`: `count` copies, or an exception for a negative count or an output longer than
the largest `int`; `strings.Repeat` never panics (fix X8). -/
theorem repeat_total (vm : Bool) (cs : List Char) (n : I64) :
    callMember vm (.str cs) "repeat" [.int n] =
      if n.toInt < 0 then .throw "negative repeat count"
      else if 0 < byteLen cs ∧ n.toInt > (maxInt : Int) / (byteLen cs : Int) then .throw "repeat output length overflow"
      else .ok (.str (List.replicate n.toNat cs).flatten) (.str cs) := by
  simp only [callMember]; exact strRepeat_spec cs n

/-! ## Behaves as typed -/

/-- Indexing a value of a representative type with an index of the required type yields a value of
the element type the analyzer assigns, or an interrupt; never a panic. -/
theorem index_typed (T R : GTy) (hT : indexResultType T = some R) (recv idx : MVal)
    (hr : conforms recv T = true) (hz : goSized recv)
    (hi : conforms idx (match T with | .obj | .anyobj => GTy.str | _ => GTy.int) = true) :
    typedOutcome (indexValue recv idx) T R :=
  typed_index T R hT recv idx hr hz hi

/-- Full statement (kept for the record): every row of the analyzer table, modelled or not. Not
proved: the members outside the model (`split`, `replace`, `to_json`, `sort`, `parse_*`, …) are
judged on the implementation by the oracle of the check only. -/
def member_typed_full : Prop :=
  ∀ r ∈ membersAnalyzerTyped, ∀ (vm : Bool) (t : GTy), repType r.1 = some t →
    ∀ (recv : MVal) (args : List MVal), conforms recv t = true → goSized recv →
      conformsArgs args r.2.2.2.1 = true →
      typedOutcome (if r.2.2.1 then callMember vm recv r.2.1 args else fieldMember recv r.2.1) t r.2.2.2.2

/-- Every modelled member of the regenerated analyzer table behaves as typed in the model: called on
any receiver of the representative's type with arguments of the advertised parameter types it yields
a value of the advertised result type (and leaves a receiver of its type), or an interrupt — never a
panic. `_partial`: restricted by the decidable fragment predicate `modelled` (the members
`expectedSig` / `expectedField` list). -/
theorem member_typed_partial :
    ∀ r ∈ membersAnalyzerTyped, modelled r.1 r.2.1 r.2.2.1 = true →
      ∀ (vm : Bool) (t : GTy), repType r.1 = some t →
        ∀ (recv : MVal) (args : List MVal), conforms recv t = true → goSized recv →
          conformsArgs args r.2.2.2.1 = true →
          typedOutcome (if r.2.2.1 then callMember vm recv r.2.1 args else fieldMember recv r.2.1)
            t r.2.2.2.2 := by
  intro r hr hm vm t ht recv args hc hz ha
  obtain ⟨t', ht', hsig⟩ := member_sigs_agree r hr hm
  rw [ht] at ht'
  injection ht' with ht'
  subst ht'
  cases hmeth : r.2.2.1 with
  | true =>
    rw [hmeth] at hsig
    simp only [if_true] at hsig ⊢
    exact typed_generic t r.2.1 r.2.2.2.1 r.2.2.2.2 hsig vm recv args hc hz ha
  | false =>
    rw [hmeth] at hsig
    simp only [Bool.false_eq_true, if_false] at hsig ⊢
    exact typed_field_generic t r.2.1 r.2.2.2.2 hsig.2 recv hc

/-! ## Non-vacuity -/

/-- `[1, 2, 3][-1] = 3`, `[1, 2, 3][3]` and `[1, 2, 3][-4]` are out of range. -/
example : indexValue (.list [.int 1, .int 2, .int 3]) (.int (-1)) = .ok (.int 3) (.list [.int 1, .int 2, .int 3]) := by
  rfl
example : ∃ m, indexValue (.list [.int 1, .int 2, .int 3]) (.int (-4)) = .fatal "IndexOutOfBounds" m :=
  ⟨_, rfl⟩

/-- `[1, 2].insert(-1, 9)` gives `[1, 9, 2]`; an in-range `insert` row of the table is modelled. -/
example : callMember true (.list [.int 1, .int 2]) "insert" [.int (-1), .int 9]
    = .ok .null (.list [.int 1, .int 9, .int 2]) := by rfl
example : modelled "list_int" "insert" true = true ∧ modelled "str" "substring" true = true
    ∧ modelled "range" "end" false = true ∧ modelled "option_str" "unwrap_or" true = true := by decide +kernel

end HmsProofs.C18
