import Hms.Check.Template
/-! `templateCheck t i = [] ↔ TemplateOK t i` (decision-table model of the impl/template rules). -/
namespace HmsProofs.Lemmas.Check
open Hms.Check

theorem paramErrs_nil_iff : ∀ (rs gs : List (String × Ty)), rs.length = gs.length →
    (paramErrs rs gs = [] ↔ ParamsOK rs gs)
  | [], [], _ => by simp [paramErrs]; exact ParamsOK.nil
  | [], _ :: _, h => by simp at h
  | _ :: _, [], h => by simp at h
  | (rn, rt) :: rs, (gn, gt) :: gs, h => by
    have ih := paramErrs_nil_iff rs gs (by simpa using h)
    simp only [paramErrs]
    by_cases hn : rn = gn
    · subst hn
      simp only [bne_self_eq_false, Bool.false_eq_true, ↓reduceIte]
      cases htc : typeCheck true gt rt with
      | some m =>
        simp only [reduceCtorEq, false_iff]
        intro hp; cases hp with | cons h1 _ => simp [htc] at h1
      | none =>
        simp only [ih]
        constructor
        · intro hp; exact ParamsOK.cons htc hp
        · intro hp; cases hp with | cons _ h2 => exact h2
    · have : (rn != gn) = true := by simpa using hn
      simp only [this, ↓reduceIte, reduceCtorEq, false_iff]
      intro hp; cases hp; exact hn rfl

theorem paramsOK_length {rs gs : List (String × Ty)} (h : ParamsOK rs gs) : rs.length = gs.length := by
  induction h with
  | nil => rfl
  | cons _ _ ih => simp [ih]

theorem methodErrs_nil_iff (req : TMethod) (m : IMethod) : methodErrs req m = [] ↔ MethodOK req m := by
  unfold methodErrs
  by_cases hl : req.params.length = m.params.length
  · have hl' : (req.params.length != m.params.length) = false := by simpa using hl
    simp only [hl', Bool.false_eq_true, ↓reduceIte, List.append_eq_nil_iff]
    constructor
    · intro ⟨⟨⟨hp, he⟩, hr⟩, hm⟩
      have hret : typeCheck true m.ret req.ret = none := by
        cases htc : typeCheck true m.ret req.ret <;> simp_all
      have hext : m.extracts = true := by
        cases hx : m.extracts <;> simp_all
      have hmod : m.modifier = req.modifier := by
        by_cases hh : m.modifier = req.modifier
        · exact hh
        · have : (m.modifier != req.modifier) = true := by simpa using hh
          simp [this] at hm
      exact ⟨(paramErrs_nil_iff _ _ hl).mp hp, hret, hmod, hext⟩
    · intro ⟨hp, hr, hm, hx⟩
      have := (paramErrs_nil_iff _ _ hl).mpr hp
      simp [this, hr, hm, hx]
  · have hl' : (req.params.length != m.params.length) = true := by simpa using hl
    simp only [hl', ↓reduceIte, reduceCtorEq, false_iff]
    intro h; exact hl (paramsOK_length h.params)

theorem requiredErrs_nil_iff (ms : List IMethod) (req : TMethod) :
    requiredErrs ms req = [] ↔ ∃ m, ms.find? (·.name == req.name) = some m ∧ MethodOK req m := by
  unfold requiredErrs
  cases hf : ms.find? (·.name == req.name) with
  | none => simp
  | some m => simp [methodErrs_nil_iff]

theorem conflict_find_none_iff (sel : List TCap) (c : TCap) :
    c.conflicts.find? (fun n => sel.any (·.name == n)) = none ↔ conflicting sel c = false := by
  simp [conflicting, List.find?_eq_none, List.any_eq_false]

theorem conflictErrs_nil_of (sel : List TCap) : ∀ (todo : List TCap) (rep : List String),
    (∀ c ∈ todo, conflicting sel c = false) → conflictErrs sel todo rep = []
  | [], _, _ => by simp [conflictErrs]
  | c :: rest, rep, h => by
    have hc := (conflict_find_none_iff sel c).mpr (h c (by simp))
    simp only [conflictErrs, hc]
    exact conflictErrs_nil_of sel rest rep (fun c' hc' => h c' (by simp [hc']))

theorem conflictErrs_nil_imp (sel : List TCap) : ∀ (todo : List TCap),
    conflictErrs sel todo [] = [] → ∀ c ∈ todo, conflicting sel c = false
  | [], _ => by simp
  | c :: rest, h => by
    simp only [conflictErrs] at h
    cases hf : c.conflicts.find? (fun n => sel.any (·.name == n)) with
    | some other => simp [hf] at h
    | none =>
      simp only [hf] at h
      intro c' hc'
      cases hc' with
      | head => exact (conflict_find_none_iff sel c).mp hf
      | tail _ hr => exact conflictErrs_nil_imp sel rest h c' hr

theorem template_decision (t : Template) (i : Impl) : templateCheck t i = [] ↔ TemplateOK t i := by
  unfold templateCheck
  constructor
  · intro h
    by_cases he2 : conflictErrs (selectedCaps t i) (selectedCaps t i) [] = []
    · simp only [he2, List.isEmpty_nil, Bool.not_true, Bool.false_eq_true, ↓reduceIte, List.append_eq_nil_iff,
        List.map_eq_nil_iff, List.flatMap_eq_nil_iff, List.filter_eq_nil_iff] at h
      obtain ⟨⟨h1, h3⟩, h4⟩ := h
      refine ⟨?_, conflictErrs_nil_imp _ _ he2, ?_, ?_⟩
      · intro c hc
        have : c ∉ unknownCaps t i := by rw [h1]; simp
        simp only [unknownCaps, List.mem_filter, hc, true_and] at this
        cases hh : findCap t c <;> simp_all
      · intro r hr; exact (requiredErrs_nil_iff _ _).mp (h3 r hr)
      · intro m hm
        have := h4 m hm
        simpa using this
    · have : (conflictErrs (selectedCaps t i) (selectedCaps t i) []).isEmpty = false := by
        cases hh : conflictErrs (selectedCaps t i) (selectedCaps t i) [] with
        | nil => exact absurd hh he2
        | cons a as => rfl
      simp only [this, Bool.not_false, ↓reduceIte, List.append_eq_nil_iff] at h
      exact absurd h.2 he2
  · intro ⟨h1, h2, h3, h4⟩
    have he2 := conflictErrs_nil_of (selectedCaps t i) (selectedCaps t i) [] h2
    simp only [he2, List.isEmpty_nil, Bool.not_true, Bool.false_eq_true, ↓reduceIte, List.append_eq_nil_iff,
      List.map_eq_nil_iff, List.flatMap_eq_nil_iff, List.filter_eq_nil_iff]
    refine ⟨⟨?_, ?_⟩, ?_⟩
    · simp only [unknownCaps, List.filter_eq_nil_iff]
      intro c hc; have := h1 c hc; cases hh : findCap t c <;> simp_all
    · intro r hr; exact (requiredErrs_nil_iff _ _).mpr (h3 r hr)
    · intro m hm; simp [h4 m hm]

end HmsProofs.Lemmas.Check

namespace HmsProofs.Lemmas.Check
open Hms.Check

theorem trigArgErrs_nil_iff : ∀ (ps as : List Ty), ps.length = as.length → (trigArgErrs ps as = [] ↔ TrigArgsOK ps as)
  | [], [], _ => by simp [trigArgErrs]; exact TrigArgsOK.nil
  | [], _ :: _, h => by simp at h
  | _ :: _, [], h => by simp at h
  | p :: ps, a :: as, h => by
    have ih := trigArgErrs_nil_iff ps as (by simpa using h)
    simp only [trigArgErrs, List.append_eq_nil_iff, ih]
    constructor
    · intro ⟨h1, h2⟩
      have hk : a.kind ≠ Kind.null := by
        intro hk; simp [hk] at h1
      have hk' : (a.kind == Kind.null) = false := by simpa using hk
      simp only [hk', Bool.false_eq_true, ↓reduceIte] at h1
      have htc : typeCheck true a p = none := by
        cases hh : typeCheck true a p <;> simp_all
      exact TrigArgsOK.cons hk htc h2
    · intro hok
      cases hok with
      | cons hk htc hr =>
        have hk' : (a.kind == Kind.null) = false := by simpa using hk
        simp [hk', htc, hr]

theorem trigArgsOK_length {ps as : List Ty} (h : TrigArgsOK ps as) : ps.length = as.length := by
  induction h with
  | nil => rfl
  | cons _ _ _ ih => simp [ih]

theorem trigger_decision (c : TrigCase) : triggerCheck c = [] ↔ TriggerOK c := by
  unfold triggerCheck
  constructor
  · intro h
    cases hcb : c.callbackKnown with
    | false => simp [hcb] at h
    | true =>
      simp only [hcb, Bool.not_true, Bool.false_eq_true, ↓reduceIte, List.append_eq_nil_iff] at h
      obtain ⟨⟨⟨h1, h2⟩, h3⟩, h4⟩ := h
      have ht : c.triggerKnown = true := by cases hh : c.triggerKnown <;> simp_all
      have hf : c.fromItself = false := by cases hh : c.fromItself <;> simp_all
      have hm : c.modifier = 2 := by
        by_cases hh : c.modifier = 2
        · exact hh
        · have : (c.modifier != 2) = true := by simpa using hh
          simp [this] at h3
      simp only [ht, Bool.not_true, Bool.false_eq_true, ↓reduceIte, List.append_eq_nil_iff] at h4
      have hs : callbackShapeErr c = none := by cases hh : callbackShapeErr c <;> simp_all
      have hlen : c.trigParams.length = c.argTys.length := by
        by_cases hh : c.argTys.length = c.trigParams.length
        · exact hh.symm
        · have : (c.argTys.length != c.trigParams.length) = true := by simpa using hh
          simp [this] at h4
      have hlen' : (c.argTys.length != c.trigParams.length) = false := by simp [hlen]
      simp only [hlen', Bool.false_eq_true, ↓reduceIte] at h4
      exact ⟨ht, hcb, hf, hm, hs, (trigArgErrs_nil_iff _ _ hlen).mp h4.2⟩
  · intro ⟨ht, hcb, hf, hm, hs, ha⟩
    have hlen := trigArgsOK_length ha
    have hlen' : (c.argTys.length != c.trigParams.length) = false := by simp [hlen]
    simp [ht, hcb, hf, hm, hs, hlen', (trigArgErrs_nil_iff _ _ hlen).mpr ha]

end HmsProofs.Lemmas.Check
