import Hms.Lex.Spec
/-! One step of the lexer model (`nextPiece`) meets the lexical specification:
scanning helpers, strings and escapes, numbers, names, operators. -/
namespace HmsProofs.Lemmas.LexStep
open Hms Hms.Lex

/-- The maximality condition of `Spec.tokenizes.go`, as a function of the next character. -/
def maxOK (k : TokKind) (lx : List Char) (next : Option Char) : Bool :=
  match next with
  | some c =>
    if Spec.isOperatorKind k then !(Spec.extendable lx c)
    else if k == .identifier || Spec.isKeywordKind k then !(isLetter c || isDigit c)
    else if k == .int then !(isDigit c || c == '_' || c == 'f')
    else true
  | none => true

/-! ## Scanning helpers -/

theorem spanWhile_spec (p : Char → Bool) (l : List Char) :
    (spanWhile p l).1 ++ (spanWhile p l).2 = l ∧ (∀ x ∈ (spanWhile p l).1, p x = true)
      ∧ (∀ x, (spanWhile p l).2.head? = some x → p x = false) := by
  induction l with
  | nil => simp [spanWhile]
  | cons c cs ih =>
    unfold spanWhile
    by_cases h : p c = true
    · simp only [h, if_true]
      obtain ⟨h1, h2, h3⟩ := ih
      refine ⟨by simp [h1], ?_, h3⟩
      intro x hx
      simp at hx
      rcases hx with rfl | hx
      · exact h
      · exact h2 x hx
    · simp [h]

theorem lineBody_spec (l : List Char) :
    (lineBody l).1 ++ (lineBody l).2 = l ∧
      (((lineBody l).1.getLast? = some '\n' ∧ '\n' ∉ (lineBody l).1.dropLast)
        ∨ ((lineBody l).2 = [] ∧ '\n' ∉ (lineBody l).1)) := by
  induction l with
  | nil => simp [lineBody]
  | cons c cs ih =>
    unfold lineBody
    by_cases h : c = '\n'
    · simp [h]
    · simp only [h, if_false]
      obtain ⟨h1, h2⟩ := ih
      refine ⟨by simp [h1], ?_⟩
      rcases h2 with ⟨h2, h3⟩ | ⟨h2, h3⟩
      · left
        have hne : (lineBody cs).1 ≠ [] := by intro h0; simp [h0] at h2
        refine ⟨by simp [List.getLast?_cons_of_ne_nil hne, h2], ?_⟩
        obtain ⟨x, xs, hx⟩ := List.exists_cons_of_ne_nil hne
        rw [hx] at h3 ⊢
        simp only [List.dropLast_cons_cons, List.mem_cons, not_or]
        exact ⟨Ne.symm h, h3⟩
      · right
        exact ⟨h2, by simp [h3, Ne.symm h]⟩

theorem blockBody_append (l : List Char) : (blockBody l).1 ++ (blockBody l).2 = l := by
  fun_induction blockBody l with
  | case1 => rfl
  | case2 cs => rfl
  | case3 c cs hne a b hab ih => 
    rw [hab] at ih; simp at ih ⊢; exact ih

theorem blockBody_spec (l : List Char) :
      ((∃ a', (blockBody l).1 = a' ++ ['*', '/'] ∧ Spec.containsSeq ['*', '/'] (a' ++ ['*']) = false)
        ∨ ((blockBody l).2 = [] ∧ Spec.containsSeq ['*', '/'] (blockBody l).1 = false)) := by
  fun_induction blockBody l with
  | case1 => right; simp [Spec.containsSeq]
  | case2 cs => left; exact ⟨[], by simp, by decide⟩
  | case3 c cs hne a b hab ih => 
    have happ := blockBody_append cs
    rw [hab] at ih happ
    simp only at ih happ ⊢
    rcases ih with ⟨a', ha, hc⟩ | ⟨hb, hc⟩
    · left
      refine ⟨c :: a', by simp [ha], ?_⟩
      simp only [List.cons_append, Spec.containsSeq, hc, Bool.or_false]
      cases a' with
      | nil => simp [List.isPrefixOf]
      | cons x xs =>
        simp only [List.cons_append, List.isPrefixOf, Bool.and_eq_false_imp]
        intro h1 
        simp at h1 ⊢
        intro h2
        subst h1; subst h2
        exact hne (xs ++ ['*', '/'] ++ b) rfl (by rw [← happ, ha]; simp)
    · right
      refine ⟨hb, ?_⟩
      simp only [Spec.containsSeq, hc, Bool.or_false]
      subst hb
      simp at happ
      subst happ
      cases a with
      | nil => simp [List.isPrefixOf]
      | cons x xs => 
        simp only [List.isPrefixOf]
        simp
        intro h1 h2
        exact hne xs h1.symm (by rw [h2])

theorem blockComment_ok (l : List Char) :
    Spec.triviaOK (.blockComment ('/' :: '*' :: (blockBody l).1)) (blockBody l).2.isEmpty = true := by
  unfold Spec.triviaOK
  rcases blockBody_spec l with ⟨a', ha, hc⟩ | ⟨hb, hc⟩
  · rw [ha]
    have : (a' ++ ['*', '/']).dropLast = a' ++ ['*'] := by
      rw [List.dropLast_append_cons]; rfl
    simp [Spec.startsWith, List.isPrefixOf, this, hc]
  · simp [Spec.startsWith, List.isPrefixOf, hb, hc]

theorem lineComment_ok (l : List Char) :
    Spec.triviaOK (.lineComment ('/' :: '/' :: (lineBody l).1)) (lineBody l).2.isEmpty = true := by
  unfold Spec.triviaOK
  rcases (lineBody_spec l).2 with ⟨ha, hc⟩ | ⟨hb, hc⟩
  · simp [Spec.startsWith, List.isPrefixOf, ha, hc]
  · simp [Spec.startsWith, List.isPrefixOf, hb, hc]

/-! ## Strings -/

theorem takeDigits_spec (p : Char → Bool) (n : Nat) (l ds r : List Char)
    (h : takeDigits p n l = some (ds, r)) :
    ds ++ r = l ∧ ds.length = n ∧ ds.all p = true := by
  induction n generalizing l ds r with
  | zero => simp [takeDigits] at h; obtain ⟨rfl, rfl⟩ := h; simp
  | succ n ih =>
    cases l with
    | nil => simp [takeDigits] at h
    | cons c cs =>
      simp only [takeDigits] at h
      split at h
      · rename_i hp
        simp only [Option.map_eq_some_iff] at h
        obtain ⟨⟨a, b⟩, hab, heq⟩ := h
        simp only [Prod.mk.injEq] at heq
        obtain ⟨rfl, rfl⟩ := heq
        obtain ⟨h1, h2, h3⟩ := ih cs a b hab
        simp [h1, h2, h3, hp]
      · simp at h

theorem countDigits_prefix (p : Char → Bool) (n : Nat) (l : List Char) :
    ∃ r, countDigits p n l ++ r = l := by
  induction n generalizing l with
  | zero => exact ⟨l, by simp [countDigits]⟩
  | succ n ih =>
    cases l with
    | nil => exact ⟨[], by simp [countDigits]⟩
    | cons c cs =>
      simp only [countDigits]
      split
      · obtain ⟨r, hr⟩ := ih cs
        exact ⟨r, by simp [hr]⟩
      · exact ⟨c :: cs, by simp⟩

/-- One decoding step of the specification for an escape the model accepted. -/
theorem escape_ok (cs : List Char) (r : Char) (consumed rest' : List Char)
    (h : escape cs = .ok r consumed rest') :
    consumed ++ rest' = cs ∧ consumed ≠ [] ∧
      ∀ (q : Char) (f : Nat) (b : List Char), q ≠ '\\' →
        Spec.decodeBody q (f + 1) ('\\' :: consumed ++ b) = (Spec.decodeBody q f b).map (r :: ·) := by
  cases cs with
  | nil => simp [escape] at h
  | cons e rest0 =>
    simp only [escape] at h
    have part : ∀ (pre : List Char) (p : Char → Bool) (radix n : Nat),
        (match takeDigits p n rest0 with
          | some (ds, rest') => EscRes.ok (decodeRune (min (digitsVal radix (pre ++ ds)) (2 ^ 31 - 1))) (e :: ds) rest'
          | none => EscRes.invalid (e :: countDigits p n rest0)) = .ok r consumed rest' →
        consumed ++ rest' = e :: rest0 ∧ consumed ≠ [] ∧
          ∀ (b : List Char), ∃ t, consumed ++ b = e :: t ∧ t.length ≥ n ∧ (t.take n).all p = true
            ∧ t.drop n = b
            ∧ decodeRune (min (digitsVal radix (pre ++ t.take n)) (2 ^ 31 - 1)) = r := by
      intro pre p radix n hm
      split at hm
      · rename_i ds r' hd
        obtain ⟨h1, h2, h3⟩ := takeDigits_spec _ _ _ _ _ hd
        simp only [EscRes.ok.injEq] at hm
        obtain ⟨rfl, rfl, rfl⟩ := hm
        refine ⟨by simp [h1], by simp, ?_⟩
        intro b
        refine ⟨ds ++ b, by simp, by simp; omega, ?_, ?_, ?_⟩
        · simpa [← h2] using h3
        · simp [← h2]
        · simp [← h2]
      · simp at hm
    have simple : ∀ r0, EscRes.ok r0 [e] rest0 = EscRes.ok r consumed rest' →
        consumed = [e] ∧ rest' = rest0 ∧ r0 = r := by
      intro r0 h0; simp only [EscRes.ok.injEq] at h0; obtain ⟨rfl, rfl, rfl⟩ := h0; simp
    by_cases h1 : e = '\\'
    · rw [if_pos h1] at h
      obtain ⟨rfl, rfl, rfl⟩ := simple _ h
      refine ⟨by simp, by simp, ?_⟩
      intro q f b hq
      subst h1
      simp [Spec.decodeBody, hq.symm]
    rw [if_neg h1] at h
    by_cases h2 : e = '\''
    · rw [if_pos h2] at h
      obtain ⟨rfl, rfl, rfl⟩ := simple _ h
      refine ⟨by simp, by simp, ?_⟩
      intro q f b hq
      subst h2
      simp [Spec.decodeBody, hq.symm]
    rw [if_neg h2] at h
    by_cases h3 : e = '"'
    · rw [if_pos h3] at h
      obtain ⟨rfl, rfl, rfl⟩ := simple _ h
      refine ⟨by simp, by simp, ?_⟩
      intro q f b hq
      subst h3
      simp [Spec.decodeBody, hq.symm]
    rw [if_neg h3] at h
    by_cases h4 : e = 'b'
    · rw [if_pos h4] at h
      obtain ⟨rfl, rfl, rfl⟩ := simple _ h
      refine ⟨by simp, by simp, ?_⟩
      intro q f b hq
      subst h4
      simp [Spec.decodeBody, hq.symm]
    rw [if_neg h4] at h
    by_cases h5 : e = 'n'
    · rw [if_pos h5] at h
      obtain ⟨rfl, rfl, rfl⟩ := simple _ h
      refine ⟨by simp, by simp, ?_⟩
      intro q f b hq
      subst h5
      simp [Spec.decodeBody, hq.symm]
    rw [if_neg h5] at h
    by_cases h6 : e = 'r'
    · rw [if_pos h6] at h
      obtain ⟨rfl, rfl, rfl⟩ := simple _ h
      refine ⟨by simp, by simp, ?_⟩
      intro q f b hq
      subst h6
      simp [Spec.decodeBody, hq.symm]
    rw [if_neg h6] at h
    by_cases h7 : e = 't'
    · rw [if_pos h7] at h
      obtain ⟨rfl, rfl, rfl⟩ := simple _ h
      refine ⟨by simp, by simp, ?_⟩
      intro q f b hq
      subst h7
      simp [Spec.decodeBody, hq.symm]
    rw [if_neg h7] at h
    by_cases h8 : e = 'x'
    · rw [if_pos h8] at h
      obtain ⟨p1, p2, p3⟩ := part _ _ _ _ h
      refine ⟨p1, p2, ?_⟩
      intro q f b hq
      obtain ⟨t, ht, q1, q2, q3, q4⟩ := p3 b
      subst h8
      rw [List.cons_append, ht]
      subst q4
      simp [Spec.decodeBody, hq.symm, q1, q2, q3]
    rw [if_neg h8] at h
    by_cases h9 : e = 'u'
    · rw [if_pos h9] at h
      obtain ⟨p1, p2, p3⟩ := part _ _ _ _ h
      refine ⟨p1, p2, ?_⟩
      intro q f b hq
      obtain ⟨t, ht, q1, q2, q3, q4⟩ := p3 b
      subst h9
      rw [List.cons_append, ht]
      subst q4
      simp [Spec.decodeBody, hq.symm, q1, q2, q3]
    rw [if_neg h9] at h
    by_cases h10 : e = 'U'
    · rw [if_pos h10] at h
      obtain ⟨p1, p2, p3⟩ := part _ _ _ _ h
      refine ⟨p1, p2, ?_⟩
      intro q f b hq
      obtain ⟨t, ht, q1, q2, q3, q4⟩ := p3 b
      subst h10
      rw [List.cons_append, ht]
      subst q4
      simp [Spec.decodeBody, hq.symm, q1, q2, q3]
    rw [if_neg h10] at h
    by_cases h11 : isOctal e = true
    · rw [if_pos h11] at h
      obtain ⟨p1, p2, p3⟩ := part _ _ _ _ h
      refine ⟨p1, p2, ?_⟩
      intro q f b hq
      obtain ⟨t, ht, q1, q2, q3, q4⟩ := p3 b
      rw [List.cons_append, ht]
      subst q4
      simp [Spec.decodeBody, hq.symm, q1, q2, q3, h1, h2, h3, h4, h5, h6, h7, h8, h9, h10, h11]
    · rw [if_neg h11] at h
      simp at h

theorem escape_invalid (cs consumed : List Char) (h : escape cs = .invalid consumed) :
    ∃ r, consumed ++ r = cs := by
  cases cs with
  | nil => simp [escape] at h
  | cons e rest0 =>
    simp only [escape] at h
    have part : ∀ (pre : List Char) (p : Char → Bool) (radix n : Nat),
        (match takeDigits p n rest0 with
          | some (ds, rest') => EscRes.ok (decodeRune (min (digitsVal radix (pre ++ ds)) (2 ^ 31 - 1))) (e :: ds) rest'
          | none => EscRes.invalid (e :: countDigits p n rest0)) = .invalid consumed →
        ∃ r, consumed ++ r = e :: rest0 := by
      intro pre p radix n hm
      split at hm
      · simp at hm
      · simp only [EscRes.invalid.injEq] at hm
        subst hm
        obtain ⟨r, hr⟩ := countDigits_prefix p n rest0
        exact ⟨r, by simp [hr]⟩
    by_cases k0 : e = '\\'
    · rw [if_pos k0] at h; simp at h
    rw [if_neg k0] at h
    by_cases k1 : e = '\''
    · rw [if_pos k1] at h; simp at h
    rw [if_neg k1] at h
    by_cases k2 : e = '"'
    · rw [if_pos k2] at h; simp at h
    rw [if_neg k2] at h
    by_cases k3 : e = 'b'
    · rw [if_pos k3] at h; simp at h
    rw [if_neg k3] at h
    by_cases k4 : e = 'n'
    · rw [if_pos k4] at h; simp at h
    rw [if_neg k4] at h
    by_cases k5 : e = 'r'
    · rw [if_pos k5] at h; simp at h
    rw [if_neg k5] at h
    by_cases k6 : e = 't'
    · rw [if_pos k6] at h; simp at h
    rw [if_neg k6] at h
    by_cases j0 : e = 'x'
    · rw [if_pos j0] at h; exact part _ _ _ _ h
    rw [if_neg j0] at h
    by_cases j1 : e = 'u'
    · rw [if_pos j1] at h; exact part _ _ _ _ h
    rw [if_neg j1] at h
    by_cases j2 : e = 'U'
    · rw [if_pos j2] at h; exact part _ _ _ _ h
    rw [if_neg j2] at h
    by_cases j3 : isOctal e = true
    · rw [if_pos j3] at h; exact part _ _ _ _ h
    rw [if_neg j3] at h
    simp only [EscRes.invalid.injEq] at h
    subst h
    exact ⟨_, rfl⟩

theorem stringBody_ok (q : Char) (hq : q ≠ '\\') (fuel : Nat) (cs v body rest : List Char)
    (h : stringBody q fuel cs = .ok v body rest) :
    body ++ q :: rest = cs ∧ ∀ f, body.length + 1 ≤ f → Spec.decodeBody q f body = some v := by
  induction fuel generalizing cs v body rest with
  | zero => simp [stringBody] at h
  | succ fuel ih =>
    cases cs with
    | nil => simp [stringBody] at h
    | cons c rest0 =>
      simp only [stringBody] at h
      split at h
      · rename_i hc
        simp only [StrRes.ok.injEq] at h
        obtain ⟨rfl, rfl, rfl⟩ := h
        refine ⟨by simp [hc], ?_⟩
        intro f hf
        obtain ⟨f, rfl⟩ : ∃ f', f = f' + 1 := ⟨f - 1, by omega⟩
        simp [Spec.decodeBody]
      · rename_i hc
        split at h
        · rename_i hb
          split at h
          · rename_i r consumed rest' hesc
            obtain ⟨e1, e2, e3⟩ := escape_ok _ _ _ _ hesc
            split at h
            · rename_i v' b' r' hs
              simp only [StrRes.ok.injEq] at h
              obtain ⟨rfl, rfl, rfl⟩ := h
              obtain ⟨i1, i2⟩ := ih _ _ _ _ hs
              refine ⟨by simp [hb, ← e1, ← i1], ?_⟩
              intro f hf
              obtain ⟨f, rfl⟩ : ∃ f', f = f' + 1 := ⟨f - 1, by omega⟩
              rw [hb, e3 q f b' hq, i2 f]
              · rfl
              · have : consumed.length ≥ 1 := by
                  cases consumed with
                  | nil => exact absurd rfl e2
                  | cons _ _ => simp
                simp at hf; omega
            · simp at h
            · simp at h
          · simp at h
          · simp at h
        · rename_i hb
          split at h
          · rename_i v' b' r' hs
            simp only [StrRes.ok.injEq] at h
            obtain ⟨rfl, rfl, rfl⟩ := h
            obtain ⟨i1, i2⟩ := ih _ _ _ _ hs
            refine ⟨by simp [← i1], ?_⟩
            intro f hf
            obtain ⟨f, rfl⟩ : ∃ f', f = f' + 1 := ⟨f - 1, by omega⟩
            simp only [Spec.decodeBody, hc, hb, if_false]
            rw [i2 f (by simp at hf; omega)]
            rfl
          · simp at h
          · simp at h

theorem stringBody_err (q : Char) (fuel : Nat) (cs : List Char) :
    (∀ consumed, stringBody q fuel cs = .neverClosed consumed → ∃ r, consumed ++ r = cs)
    ∧ (∀ k before cons, stringBody q fuel cs = .badEscape k before cons → ∃ r, before ++ cons ++ r = cs) := by
  induction fuel generalizing cs with
  | zero => simp [stringBody]
  | succ fuel ih =>
    cases cs with
    | nil => simp [stringBody]
    | cons c rest0 =>
      simp only [stringBody]
      split
      · simp
      · split
        · split
          · rename_i r consumed rest' hesc
            obtain ⟨e1, -, -⟩ := escape_ok _ _ _ _ hesc
            obtain ⟨i1, i2⟩ := ih rest'
            split
            · simp
            · rename_i cons hs
              obtain ⟨r, hr⟩ := i1 _ hs
              refine ⟨?_, by simp⟩
              intro consumed' h
              simp only [StrRes.neverClosed.injEq] at h
              subst h
              exact ⟨r, by simp [← e1, ← hr]⟩
            · rename_i k before cons hs
              obtain ⟨r, hr⟩ := i2 _ _ _ hs
              refine ⟨by simp, ?_⟩
              intro k' b' c' h
              simp only [StrRes.badEscape.injEq] at h
              obtain ⟨rfl, rfl, rfl⟩ := h
              exact ⟨r, by simp [← e1, ← hr]⟩
          · refine ⟨by simp, ?_⟩
            intro k' b' c' h
            simp only [StrRes.badEscape.injEq] at h
            obtain ⟨rfl, rfl, rfl⟩ := h
            exact ⟨rest0, by simp⟩
          · rename_i consumed hesc
            obtain ⟨r, hr⟩ := escape_invalid _ _ hesc
            refine ⟨by simp, ?_⟩
            intro k' b' c' h
            simp only [StrRes.badEscape.injEq] at h
            obtain ⟨rfl, rfl, rfl⟩ := h
            exact ⟨r, by simp [hr]⟩
        · obtain ⟨i1, i2⟩ := ih rest0
          split
          · simp
          · rename_i cons hs
            obtain ⟨r, hr⟩ := i1 _ hs
            refine ⟨?_, by simp⟩
            intro consumed' h
            simp only [StrRes.neverClosed.injEq] at h
            subst h
            exact ⟨r, by simp [← hr]⟩
          · rename_i k before cons hs
            obtain ⟨r, hr⟩ := i2 _ _ _ hs
            refine ⟨by simp, ?_⟩
            intro k' b' c' h
            simp only [StrRes.badEscape.injEq] at h
            obtain ⟨rfl, rfl, rfl⟩ := h
            exact ⟨r, by simp [← hr]⟩

/-! ## Numbers -/

theorem splitAtChar_none (c : Char) (l : List Char) (h : ∀ x ∈ l, x ≠ c) :
    Spec.splitAtChar c l = (l, none) := by
  induction l with
  | nil => rfl
  | cons x xs ih =>
    simp only [Spec.splitAtChar]
    rw [if_neg (h x (by simp)), ih (fun y hy => h y (by simp [hy]))]

theorem splitAtChar_some (c : Char) (a b : List Char) (h : ∀ x ∈ a, x ≠ c) :
    Spec.splitAtChar c (a ++ c :: b) = (a, some b) := by
  induction a with
  | nil => simp [Spec.splitAtChar]
  | cons x xs ih =>
    simp only [List.cons_append, Spec.splitAtChar]
    rw [if_neg (h x (by simp)), ih (fun y hy => h y (by simp [hy]))]

def numCh (c : Char) : Bool := isDigit c || c == '_'

theorem numCh_ne_dot (x : Char) (h : numCh x = true) : x ≠ '.' := by
  rintro rfl; revert h; decide
theorem numCh_ne_f (x : Char) (h : numCh x = true) : x ≠ 'f' := by
  rintro rfl; revert h; decide
theorem isDigit_numCh (x : Char) (h : isDigit x = true) : numCh x = true := by simp [numCh, h]

theorem digitsShaped_of (d : Char) (l : List Char) (hd : isDigit d = true) (hl : ∀ x ∈ l, numCh x = true) :
    Spec.digitsShaped (d :: l) = true := by
  simp only [Spec.digitsShaped, hd, Bool.true_and, List.all_eq_true]
  exact hl


theorem lexemeOK_int (lx v : List Char) (h1 : Spec.numberShaped lx = some .int)
    (h2 : v = lx.filter (· != '_')) : Spec.lexemeOK .int lx v = true := by
  have hk1 : Spec.isOperatorKind .int = false := by decide
  have hk2 : Spec.isKeywordKind .int = false := by decide
  have hk3 : (some TokKind.int == some TokKind.int) = true := by decide
  subst h2
  simp only [Spec.lexemeOK, hk1, hk2, Bool.false_eq_true, if_false, h1, hk3, Bool.true_and, beq_self_eq_true]

theorem lexemeOK_float (lx v : List Char) (h1 : Spec.numberShaped lx = some .float)
    (h2 : v = lx.filter (fun c => c != '_' && c != 'f')) : Spec.lexemeOK .float lx v = true := by
  have hk1 : Spec.isOperatorKind .float = false := by decide
  have hk2 : Spec.isKeywordKind .float = false := by decide
  have hk3 : (some TokKind.float == some TokKind.float) = true := by decide
  subst h2
  simp only [Spec.lexemeOK, hk1, hk2, Bool.false_eq_true, if_false, h1, hk3, Bool.true_and, beq_self_eq_true]

theorem maxOK_int (lx : List Char) (next : Option Char)
    (h : ∀ c, next = some c → numCh c = false ∧ c ≠ 'f') : maxOK .int lx next = true := by
  have hk1 : Spec.isOperatorKind .int = false := by decide
  have hk2 : Spec.isKeywordKind .int = false := by decide
  have hk3 : (TokKind.int == TokKind.identifier) = false := by decide
  have hk4 : (TokKind.int == TokKind.int) = true := by decide
  cases next with
  | none => rfl
  | some c =>
    obtain ⟨h1, h2⟩ := h c rfl
    simp only [numCh, Bool.or_eq_false_iff] at h1
    simp [maxOK, hk1, hk2, hk3, hk4, h1.1, h2]
    simpa using h1.2

theorem maxOK_float (lx : List Char) (next : Option Char) : maxOK .float lx next = true := by
  have hk1 : Spec.isOperatorKind .float = false := by decide
  have hk2 : Spec.isKeywordKind .float = false := by decide
  have hk3 : (TokKind.float == TokKind.identifier) = false := by decide
  have hk4 : (TokKind.float == TokKind.int) = false := by decide
  cases next with
  | none => rfl
  | some c => simp [maxOK, hk1, hk2, hk3, hk4]

theorem number_eq (d : Char) (cs : List Char) : number d cs =
    match (spanWhile numCh cs).2 with
    | '.' :: d2 :: r2 =>
      if isDigit d2 then
        (.float, d :: (spanWhile numCh cs).1 ++ '.' :: (spanWhile numCh (d2 :: r2)).1, (spanWhile numCh (d2 :: r2)).2)
      else (.int, d :: (spanWhile numCh cs).1, (spanWhile numCh cs).2)
    | 'f' :: r2 => (.float, d :: (spanWhile numCh cs).1 ++ ['f'], r2)
    | _ => (.int, d :: (spanWhile numCh cs).1, (spanWhile numCh cs).2) := by
  rfl

theorem number_spec (d : Char) (cs : List Char) (hd : isDigit d = true) :
    (number d cs).2.1 ++ (number d cs).2.2 = d :: cs ∧ (number d cs).2.1 ≠ []
      ∧ Spec.lexemeOK (number d cs).1 (number d cs).2.1 (numberValue (number d cs).2.1) = true
      ∧ maxOK (number d cs).1 (number d cs).2.1 (number d cs).2.2.head? = true := by
  obtain ⟨s1, s2, s3⟩ := spanWhile_spec numCh cs
  have hall : ∀ x ∈ d :: (spanWhile numCh cs).1, numCh x = true := by
    intro x hx; simp at hx; rcases hx with rfl | hx
    · exact isDigit_numCh _ hd
    · exact s2 x hx
  have hint : Spec.lexemeOK .int (d :: (spanWhile numCh cs).1) (numberValue (d :: (spanWhile numCh cs).1)) = true := by
    apply lexemeOK_int
    · simp only [Spec.numberShaped]
      rw [splitAtChar_none _ _ (fun x hx => numCh_ne_dot x (hall x hx))]
      simp only [digitsShaped_of d _ hd s2, if_true]
    · unfold numberValue
      apply List.filter_congr
      intro x hx
      have := numCh_ne_f x (hall x hx)
      simp [this]
  rw [number_eq]
  generalize (spanWhile numCh cs).1 = intPart at *
  generalize (spanWhile numCh cs).2 = r1 at *
  split
  · rename_i d2 r2
    split
    · rename_i hd2
      obtain ⟨t1, t2, t3⟩ := spanWhile_spec numCh (d2 :: r2)
      have hfr : ∃ fr, (spanWhile numCh (d2 :: r2)).1 = d2 :: fr := by
        simp [spanWhile, numCh, hd2]
      generalize (spanWhile numCh (d2 :: r2)).1 = frac at *
      generalize (spanWhile numCh (d2 :: r2)).2 = r3 at *
      obtain ⟨fr, rfl⟩ := hfr
      refine ⟨by simp [← s1, ← t1], by simp, ?_, maxOK_float _ _⟩
      apply lexemeOK_float _ _ _ rfl
      simp only [Spec.numberShaped]
      have := splitAtChar_some '.' (d :: intPart) (d2 :: fr) (fun x hx => numCh_ne_dot x (hall x hx))
      rw [List.cons_append] at this
      simp only [List.cons_append]
      rw [this]
      simp only [digitsShaped_of d _ hd s2, digitsShaped_of d2 fr hd2 (fun x hx => t2 x (by simp [hx])),
        Bool.and_self, if_true]
    · rename_i hd2
      refine ⟨by simp [← s1], by simp, hint, ?_⟩
      apply maxOK_int
      intro c hc
      simp only [List.head?_cons, Option.some.injEq] at hc
      subst hc
      exact ⟨by decide, by decide⟩
  · rename_i r2
    refine ⟨by simp [← s1], by simp, ?_, maxOK_float _ _⟩
    apply lexemeOK_float _ _ _ rfl
    simp only [Spec.numberShaped]
    have hnd : ∀ x ∈ d :: intPart ++ ['f'], x ≠ '.' := by
      intro x hx
      simp only [List.cons_append, List.mem_cons, List.mem_append, List.not_mem_nil, or_false] at hx
      rcases hx with rfl | hx | rfl
      · exact numCh_ne_dot _ (isDigit_numCh _ hd)
      · exact numCh_ne_dot _ (s2 _ hx)
      · decide
    rw [splitAtChar_none _ _ hnd]
    have h1 : Spec.digitsShaped (d :: intPart ++ ['f']) = false := by
      simp [Spec.digitsShaped]
      intro _ _; decide
    have h2 : (d :: intPart ++ ['f']).getLast? = some 'f' := List.getLast?_concat
    have h3 : (d :: intPart ++ ['f']).dropLast = d :: intPart := by
      exact List.dropLast_concat
    simp only [h1, h2, h3, digitsShaped_of d _ hd s2]
    decide
  · rename_i hnf hnd
    refine ⟨by simp [← s1], by simp, hint, ?_⟩
    apply maxOK_int
    intro c hc
    refine ⟨s3 c hc, ?_⟩
    rintro rfl
    cases r1 with
    | nil => simp at hc
    | cons x xs =>
      simp only [List.head?_cons, Option.some.injEq] at hc
      subst hc
      exact hnd xs rfl

/-! ## Names -/

theorem lookup_cons_ne {β} (w k : String) (b : β) (as : List (String × β)) (h : w = k → False) :
    List.lookup w ((k, b) :: as) = List.lookup w as := by
  have : (w == k) = false := by simpa using h
  simp [List.lookup_cons, this]

theorem keywordKind_eq_lookup (w : String) : keywordKind w = Spec.keywords.lookup w := by
  unfold keywordKind
  split
  all_goals first | rfl | skip
  unfold Spec.keywords
  repeat rw [lookup_cons_ne _ _ _ _ (by assumption)]
  rfl

theorem lookup_some_mem {β} (w : String) (l : List (String × β)) (b : β) (h : l.lookup w = some b) :
    (w, b) ∈ l := by
  induction l with
  | nil => simp at h
  | cons e es ih =>
    obtain ⟨k, v⟩ := e
    rw [List.lookup_cons] at h
    split at h
    · rename_i hk
      have : w = k := by simpa using hk
      simp at h
      simp [this, h]
    · exact List.mem_cons_of_mem _ (ih h)

theorem lookup_none_any {β} (w : String) (l : List (String × β)) (h : l.lookup w = none) :
    (l.any fun e => e.1 == w) = false := by
  induction l with
  | nil => rfl
  | cons e es ih =>
    obtain ⟨k, v⟩ := e
    rw [List.lookup_cons] at h
    split at h
    · simp at h
    · rename_i hk
      have : ¬ w = k := by simpa using hk
      simp only [List.any_cons, ih h, Bool.or_false]
      simpa using fun h' => this h'.symm

theorem keywords_kinds : ∀ e ∈ Spec.keywords,
    Spec.isOperatorKind e.2 = false ∧ Spec.isKeywordKind e.2 = true := by decide

theorem keywords_contains : ∀ e ∈ Spec.keywords, Spec.keywords.contains e = true := by decide

theorem name_spec (c : Char) (cs : List Char) (hc : isLetter c = true) :
    Spec.lexemeOK ((keywordKind (String.ofList (c :: (spanWhile (fun x => isDigit x || isLetter x) cs).1))).getD .identifier)
        (c :: (spanWhile (fun x => isDigit x || isLetter x) cs).1) (c :: (spanWhile (fun x => isDigit x || isLetter x) cs).1) = true
      ∧ maxOK ((keywordKind (String.ofList (c :: (spanWhile (fun x => isDigit x || isLetter x) cs).1))).getD .identifier)
        (c :: (spanWhile (fun x => isDigit x || isLetter x) cs).1) (spanWhile (fun x => isDigit x || isLetter x) cs).2.head? = true := by
  obtain ⟨s1, s2, s3⟩ := spanWhile_spec (fun x => isDigit x || isLetter x) cs
  generalize (spanWhile (fun x => isDigit x || isLetter x) cs).1 = tail at *
  generalize (spanWhile (fun x => isDigit x || isLetter x) cs).2 = rest at *
  have hshape : Spec.identShaped (c :: tail) = true := by
    simp only [Spec.identShaped, hc, Bool.true_and, List.all_eq_true]
    intro x hx
    have := s2 x hx
    simpa [Bool.or_comm] using this
  have hnext : ∀ x, rest.head? = some x → (isLetter x || isDigit x) = false := by
    intro x hx
    have := s3 x hx
    simpa [Bool.or_comm] using this
  rw [keywordKind_eq_lookup]
  cases hl : Spec.keywords.lookup (String.ofList (c :: tail)) with
  | none =>
    have hany := lookup_none_any _ _ hl
    have hk1 : Spec.isOperatorKind .identifier = false := by decide
    have hk2 : Spec.isKeywordKind .identifier = false := by decide
    constructor
    · simp only [Option.getD_none, Spec.lexemeOK, hk1, hk2, Bool.false_eq_true, if_false, hshape, hany]
      simp
    · simp only [Option.getD_none]
      cases hr : rest.head? with
      | none => rfl
      | some x =>
        have hk3 : (TokKind.identifier == TokKind.identifier) = true := by decide
        simp only [maxOK, hk1, hk3, Bool.false_eq_true, if_false, Bool.true_or, if_true, hnext x hr]
        rfl
  | some k =>
    have hmem := lookup_some_mem _ _ _ hl
    obtain ⟨hk1, hk2⟩ := keywords_kinds _ hmem
    simp only at hk1 hk2
    constructor
    · simp only [Option.getD_some, Spec.lexemeOK, hk1, hk2, Bool.false_eq_true, if_false, if_true]
      simp only [beq_self_eq_true, Bool.and_true]
      exact keywords_contains _ hmem
    · simp only [Option.getD_some]
      cases hr : rest.head? with
      | none => rfl
      | some x =>
        simp only [maxOK, hk1, hk2, Bool.false_eq_true, if_false, Bool.or_true, if_true, hnext x hr]
        rfl

/-! ## Operators -/

def opPairs : List (List Char × Option Char) :=
  [([], some '#'), ([], some '?'), ([], some '@'), ([], some '$'), ([], some ';'), ([], some ','),
   ([], some ':'), ([], some '.'), (['.'], some '.'), (['-'], some '>'), (['='], some '>'),
   (['~'], some '>'), ([], some '('), ([], some ')'), ([], some '{'), ([], some '}'), ([], some '['),
   ([], some ']'), (['|'], some '|'), (['&'], some '&'), (['='], some '='), (['!'], some '='),
   ([], some '<'), (['<'], some '='), ([], some '>'), (['>'], some '='), ([], some '!'), ([], some '+'),
   ([], some '-'), ([], some '*'), ([], some '/'), ([], some '%'), (['*'], some '*'), (['<'], some '<'),
   (['>'], some '>'), ([], some '|'), ([], some '&'), ([], some '^'), ([], some '='), (['+'], some '='),
   (['-'], some '='), (['*'], some '='), (['/'], some '='), (['*', '*'], some '='), (['%'], some '='),
   (['<', '<'], some '='), (['>', '>'], some '='), (['|'], some '='), (['&'], some '='), (['^'], some '=')]

theorem opPairs_eq :
    (Spec.operators.map fun e => (e.1.toList.dropLast, e.1.toList.getLast?)) = opPairs := by decide

theorem extendable_mem (lx : List Char) (c : Char) (h : Spec.extendable lx c = true) :
    (lx, some c) ∈ opPairs := by
  simp only [Spec.extendable, List.any_eq_true, beq_iff_eq] at h
  obtain ⟨e, he, heq⟩ := h
  rw [← opPairs_eq, List.mem_map]
  exact ⟨e, he, by simp [heq]⟩

theorem maxOK_op (k : TokKind) (lx : List Char) (next : Option Char) (hk : Spec.isOperatorKind k = true)
    (h : ∀ c, next = some c → (lx, some c) ∉ opPairs) : maxOK k lx next = true := by
  cases next with
  | none => rfl
  | some c =>
    simp only [maxOK, hk, if_true, Bool.not_eq_true']
    cases he : Spec.extendable lx c with
    | false => rfl
    | true => exact absurd (extendable_mem _ _ he) (h c rfl)

theorem matchOp_spec (c : Char) (cs : List Char) (k : TokKind) (lx : String)
    (h : matchOp c cs = some (k, lx)) :
    lx.toList ++ (c :: cs).drop lx.toList.length = c :: cs ∧ lx.toList ≠ [] ∧
    Spec.lexemeOK k lx.toList lx.toList = true ∧ maxOK k lx.toList ((c :: cs).drop lx.toList.length).head? = true := by
  unfold matchOp at h
  repeat' split at h
  all_goals first | (simp at h; done) | skip
  all_goals
    simp only [Option.some.injEq, Prod.mk.injEq] at h
    obtain ⟨rfl, rfl⟩ := h
    refine ⟨by simp, by decide, by decide, maxOK_op _ _ _ (by decide) ?_⟩
    intro c' hc' hmem
    simp [opPairs] at hmem
  all_goals 
    simp [List.head?_eq_some_iff] at hc'
  all_goals
    obtain ⟨ys, rfl⟩ := hc'
    first
      | (subst hmem; simp_all; done)
      | (rcases hmem with rfl | rfl <;> simp_all; done)

end HmsProofs.Lemmas.LexStep
