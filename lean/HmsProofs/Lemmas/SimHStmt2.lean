import HmsProofs.Lemmas.SimHTry
import HmsProofs.Lemmas.SimHIdxAsg
import HmsProofs.Lemmas.SimHMeth
/-!
# Single statements of the general fragment
-/
namespace HmsProofs.Sim
open Hms.Core Hms.Core.Comp Hms.Core.VM

/-- Inversion of `okGS` on expression statements. -/
theorem okGS_exprS_inv (fr il rt : Bool) (sp : Span) (e : Expr) (h : Frag.okFS fr il rt (.exprS sp e) = true) :
    (∃ asp op isp ity name isFn r,
      e = .assign asp op (.ident isp ity name false isFn false) r ∧ Frag.okV fr r = true ∧
      (∀ o, op = some o → Frag.isLogical o = false)) ∨
    (∃ isp ty c t eb, e = .ifE isp ty c t (some eb) ∧ ty.isNull = true ∧ Frag.okE fr c = true ∧
      Frag.okFBS fr il rt t = true ∧ Frag.okFBS fr il rt eb = true) ∨
    (∃ isp ty c t, e = .ifE isp ty c t none ∧ ty.isNull = true ∧ Frag.okE fr c = true ∧ Frag.okFBS fr il rt t = true) ∨
    (∃ csp cty isp ity name g f si args sw, e = .call csp cty (.ident isp ity name g f si) args sw ∧
      ((name = "println" ∧ cty.isNull = true ∧ sw = false ∧ Frag.okEArgs fr args = true ∧
          Frag.oneNonAtom args = true ∧ args.length < 2 ^ 64) ∨
       (name ≠ "println" ∧ name ≠ "throw" ∧ cty.isNull = false ∧
          Frag.okE fr (.call csp cty (.ident isp ity name g f si) args sw) = true) ∨
       (name = "throw" ∧ sw = false ∧ ∃ a, args = [a] ∧ Frag.atomE a.2 = true))) ∨
    (∃ tsp ty t ci c, e = .tryE tsp ty t ci c ∧ ty.isNull = true ∧ Frag.okFBS fr false false t = true ∧
      Frag.okFBS fr il rt c = true) ∨
    (∃ msp ty c arms db, e = .matchE msp ty c arms (some (.blockE db)) ∧ ty.isNull = true ∧ Frag.okE fr c = true ∧
      Frag.okFArmsS fr il rt arms = true ∧ Frag.okFBS fr il rt db = true) ∨
    (∃ asp op isp ity b i r, e = .assign asp op (.index isp ity b i) r) ∨
    (∃ asp op msp mty b name r, e = .assign asp op (.member msp mty b name .dot) r) ∨
    (∃ csp cty msp mty b a, e = .call csp cty (.member msp mty b "push" .dot) [a] false) := by
  cases e <;> try (simp [Frag.okFS] at h; done)
  case matchE msp ty c arms dflt =>
    right; right; right; right; right; left
    cases dflt with
    | none => simp [Frag.okFS] at h
    | some d =>
      cases d <;> try (simp [Frag.okFS] at h; done)
      rename_i db
      simp only [Frag.okFS, Bool.and_eq_true] at h
      exact ⟨msp, ty, c, arms, db, rfl, h.1.1.1, h.1.1.2, h.1.2, h.2⟩
  case assign asp op l r =>
    cases l <;> try (cases op <;> simp [Frag.okFS] at h; done)
    case index isp ity b i =>
      right; right; right; right; right; right; left
      exact ⟨asp, op, isp, ity, b, i, r, rfl⟩
    case member msp mty b name mop =>
      cases mop <;> try (cases op <;> simp [Frag.okFS] at h; done)
      right; right; right; right; right; right; right; left
      exact ⟨asp, op, msp, mty, b, name, r, rfl⟩
    left
    cases op
    · rename_i isp ity name isGlobal isFn isSing
      cases isGlobal <;> cases isSing <;> simp [Frag.okFS] at h
      exact ⟨asp, none, isp, ity, name, isFn, r, rfl, h, by simp⟩
    · rename_i isp ity name isGlobal isFn isSing o
      cases isGlobal <;> cases isSing <;> simp [Frag.okFS] at h
      exact ⟨asp, some o, isp, ity, name, isFn, r, rfl, h.2, by simp [h.1]⟩
  case ifE isp ty c t el =>
    right
    cases el with
    | some eb =>
      left
      simp only [Frag.okFS, Bool.and_eq_true] at h
      exact ⟨isp, ty, c, t, eb, rfl, h.1.1.1, h.1.1.2, h.1.2, h.2⟩
    | none =>
      right; left
      simp only [Frag.okFS, Bool.and_eq_true] at h
      exact ⟨isp, ty, c, t, rfl, h.1.1, h.1.2, h.2⟩
  case call csp cty base args sw =>
    cases base <;> try (simp [Frag.okFS] at h; done)
    case member msp mty b nm mop =>
      cases mop <;> cases args <;> try (simp [Frag.okFS] at h; done)
      rename_i a rest
      cases rest <;> cases sw <;> try (simp [Frag.okFS] at h; done)
      simp only [Frag.okFS, Bool.and_eq_true, beq_iff_eq] at h
      obtain ⟨⟨⟨⟨⟨_, rfl⟩, _⟩, _⟩, _⟩, _⟩ := h
      right; right; right; right; right; right; right; right
      exact ⟨csp, cty, msp, mty, b, a, rfl⟩
    right; right; right; left
    rename_i isp ity name g f si
    refine ⟨csp, cty, isp, ity, name, g, f, si, args, sw, rfl, ?_⟩
    simp only [Frag.okFS] at h
    by_cases ht : name = "throw"
    · right; right
      simp only [ht, beq_self_eq_true, if_true, Bool.and_eq_true, Bool.not_eq_eq_eq_not, Bool.not_true,
        decide_eq_true_eq, List.all_eq_true] at h
      obtain ⟨⟨hsw, hlen⟩, hat⟩ := h
      cases args with
      | nil => simp at hlen
      | cons a as =>
        cases as with
        | cons _ _ => simp at hlen
        | nil => exact ⟨ht, hsw, a, rfl, hat a (by simp)⟩
    · have ht' : (name == "throw") = false := by simpa using ht
      simp only [ht', Bool.false_eq_true, if_false] at h
      by_cases hn : name = "println"
      · left
        simp only [hn, beq_self_eq_true, if_true, Bool.and_eq_true, Bool.not_eq_eq_eq_not, Bool.not_true,
          decide_eq_true_eq] at h
        exact ⟨hn, h.1.1.1.1, h.1.1.1.2, h.1.1.2, h.1.2, h.2⟩
      · right; left
        have : (name == "println") = false := by simpa using hn
        simp only [this, Bool.false_eq_true, if_false, Bool.and_eq_true, Bool.not_eq_eq_eq_not, Bool.not_true] at h
        exact ⟨hn, ht, h.1, h.2⟩
  case tryE tsp ty t ci c =>
    right; right; right; right; left
    simp only [Frag.okFS, Bool.and_eq_true] at h
    exact ⟨tsp, ty, t, ci, c, rfl, h.1.1, h.1.2, h.2⟩

theorem evalList_length (cfg : Cfg) : ∀ (fuel : Nat) (es : List Expr) (st st' : St) (vs : List Val),
    evalList cfg fuel es st = (.ok vs, st') → vs.length = es.length := by
  intro fuel
  induction fuel with
  | zero => intro es st st' vs h; rw [evalList] at h; cases h
  | succ f ih =>
    intro es st st' vs h
    cases es with
    | nil => rw [evalList_nil] at h; cases h; rfl
    | cons e es =>
      rw [evalList_cons] at h
      rcases h1 : evalExpr cfg f e st with ⟨r1, st1⟩
      rw [h1] at h
      cases r1 with
      | error c => cases h
      | ok v =>
        simp only [] at h
        rcases h2 : evalList cfg f es st1 with ⟨r2, st2⟩
        rw [h2] at h
        cases r2 with
        | error c => cases h
        | ok vs' =>
          cases h
          simp [ih es st1 _ vs' h2]

theorem GRel.assign {G : GCtx} {A : Act} (hA : A.OK G) {scopes vm ss mem}
    (h : GRel G A scopes vm ss mem) (x : String) (hx : x ∈ A.T) (m : String) (hρ : ρS scopes x = some m) (v : Val) :
    ∃ ss', assignScopes x v ss = some ss' ∧
      GRel G A scopes vm ss' (mem.set (A.mp - (A.σ m : Int)) v) := by
  obtain ⟨ss', h1, h2⟩ := h.rel.assign hA.good x hx m hρ v
  refine ⟨ss', h1, ⟨h2, h.key, ?_, h.ghostC⟩⟩
  obtain ⟨sc, hsc, hl⟩ : ∃ sc ∈ scopes, sc.lookup x = some m := by
    unfold ρS at hρ
    obtain ⟨sc, hsc, hl⟩ := List.exists_of_findSome?_eq_some hρ
    exact ⟨sc, hsc, hl⟩
  have hp := lookup_mem sc x m hl
  obtain ⟨c, hc, _⟩ := h.rel.named sc hsc (x, m) hp hx
  have hNm : A.N m := h.rel.inN m ((mem_liveNames A.T scopes m).mpr ⟨sc, hsc, (x, m), hp, hx, rfl⟩)
  exact h.ghost.set hA m hNm x c hc hx v

theorem Act.OK.cell {G : GCtx} {A : Act} (hA : A.OK G) (m : String) (hm : A.N m) :
    0 ≤ A.mp - (A.σ m : Int) ∧ A.mp - (A.σ m : Int) < (G.lim.memory : Int) ∧
      A.mp - (A.nv : Int) < A.mp - (A.σ m : Int) := by
  have := hA.slot m hm; have := hA.lo; have := hA.hi
  omega

theorem okGArmsS_lits (fr il rt : Bool) : ∀ (arms : List (List Expr × Expr)), Frag.okFArmsS fr il rt arms = true →
    ∀ a ∈ arms, ∀ l ∈ a.1, Frag.litE l = true := by
  intro arms
  induction arms with
  | nil => intro _ a ha; simp at ha
  | cons a0 rest iha =>
    intro hok a ha
    obtain ⟨lits0, act0⟩ := a0
    cases act0 <;> try (simp [Frag.okFArmsS] at hok; done)
    simp only [Frag.okFArmsS, Bool.and_eq_true, List.all_eq_true] at hok
    rcases List.mem_cons.mp ha with rfl | ha
    · exact hok.1.1
    · exact iha hok.2 a ha

theorem cgArmsS_vm_mono (mod fn : String) (φ : String → Option String) (loops : List (String × String)) (sp : Span)
    (after : String) (arms : List (List Expr × Expr)) (nms : List String) (env : CEnv) (k : String) :
    cnt env.vm k ≤ cnt (cgArmsS mod fn φ loops sp after arms nms env).2.vm k :=
  cgArmsS_env mod fn φ loops sp after (fun e e' => cnt e.vm k ≤ cnt e'.vm k) (fun _ => Nat.le_refl _)
    (fun _ _ _ h1 h2 => Nat.le_trans h1 h2) (Frag.depthGArmsS arms)
    (fun b env _ => cgBS_vm_mono mod fn φ loops b env k) arms nms env (Nat.le_refl _)

theorem cgArmsS_scopes (mod fn : String) (φ : String → Option String) (loops : List (String × String)) (sp : Span)
    (after : String) (arms : List (List Expr × Expr)) (nms : List String) (env : CEnv) :
    (cgArmsS mod fn φ loops sp after arms nms env).2.scopes = env.scopes :=
  cgArmsS_env mod fn φ loops sp after (fun e e' => e'.scopes = e.scopes) (fun _ => rfl)
    (fun _ _ _ h1 h2 => h2.trans h1) (Frag.depthGArmsS arms)
    (fun b env _ => cgBS_scopes mod fn φ loops b env) arms nms env (Nat.le_refl _)

/-- Where the body of arm `i` of a `match` statement sits, and the environment it was compiled in. -/
theorem cgArmsS_at (A : Act) (mod fn : String) (φ : String → Option String) (loops : List (String × String))
    (sp : Span) (after : String) (il rt : Bool) :
    ∀ (arms : List (List Expr × Expr)) (nms : List String) (env : CEnv) (ip : Nat), arms.length = nms.length →
    Frag.okFArmsS fr il rt arms = true → Frag.wsGArmsS mod fn φ loops arms env = true →
    Placed A.lab A.σ A.c ip (cgArmsS mod fn φ loops sp after arms nms env).1 →
    ∀ (i : Nat) (a : List Expr × Expr) (nm : String), arms[i]? = some a → nms[i]? = some nm →
      ∃ (b : Block) (envi : CEnv), a.2 = .blockE b ∧ Frag.okFBS fr il rt b = true ∧
        (∀ x ∈ Frag.identsGBS b, x ∈ Frag.identsGArmsS arms) ∧
        envi.scopes = env.scopes ∧ (∀ k, cnt env.vm k ≤ cnt envi.vm k) ∧
        (∀ k, cnt (cgBS mod fn φ loops b envi).2.vm k ≤ cnt (cgArmsS mod fn φ loops sp after arms nms env).2.vm k) ∧
        Frag.wsGBS mod fn φ loops b envi = true ∧
        (∀ m ∈ codeVars (cgBS mod fn φ loops b envi).1, m ∈ codeVars (cgArmsS mod fn φ loops sp after arms nms env).1) ∧
        A.c[A.lab nm]? = some (.drop, sp) ∧ Placed A.lab A.σ A.c (A.lab nm + 1) (cgBS mod fn φ loops b envi).1 ∧
        A.c[A.lab nm + 1 + nI (cgBS mod fn φ loops b envi).1]? = some (.jump (A.lab after), sp) := by
  intro arms
  induction arms with
  | nil => intro nms env ip _ _ _ _ i a nm hi; simp at hi
  | cons a0 rest ih =>
    intro nms env ip hlen hok hws hpl i a nm hi hn
    obtain ⟨lits0, act0⟩ := a0
    cases act0 <;> try (simp [Frag.okFArmsS] at hok; done)
    rename_i b0
    cases nms with
    | nil => simp at hlen
    | cons n0 nms' =>
      simp only [Frag.okFArmsS, Bool.and_eq_true] at hok
      simp only [Frag.wsGArmsS, Bool.and_eq_true] at hws
      simp only [cgArmsS] at hpl ⊢
      obtain ⟨h123, hplR⟩ := hpl.append
      obtain ⟨h12, hplJ⟩ := h123.append
      obtain ⟨hplL, hplB⟩ := h12.append
      obtain ⟨elb, hL2⟩ := hplL.label
      obtain ⟨idrop, _⟩ := hL2.instr (i := .drop) rfl
      obtain ⟨ijmp, _⟩ := hplJ.instr (i := .jump after) rfl
      have hnL : nI [((Instr.label n0 : SInstr), sp), (.drop, sp)] = 1 := rfl
      simp only [nI_append, hnL] at hplB ijmp hplR
      cases i with
      | zero =>
        simp only [List.getElem?_cons_zero, Option.some.injEq] at hi hn
        subst hi; subst hn
        rw [elb]
        refine ⟨b0, env, rfl, hok.1.2, ?_, rfl, fun _ => Nat.le_refl _, ?_, hws.1, ?_, idrop, hplB,
          by rw [← Nat.add_assoc] at ijmp; exact ijmp⟩
        · intro x hx; simp only [Frag.identsGArmsS, List.mem_append]; exact Or.inl hx
        · intro k; exact cgArmsS_vm_mono mod fn φ loops sp after rest nms' _ k
        · intro m hm
          simp only [codeVars_append, List.mem_append]
          exact Or.inl (Or.inl (Or.inr hm))
      | succ j =>
        simp only [List.getElem?_cons_succ] at hi hn
        obtain ⟨b, envi, hb, hokb, hid, hsc, hvm, hvm2, hwsb, hcv, hdr, hplb, hjmp⟩ :=
          ih nms' (cgBS mod fn φ loops b0 env).2 _ (by simpa using hlen) hok.2 hws.2 hplR j a nm hi hn
        refine ⟨b, envi, hb, hokb, ?_, by rw [hsc, cgBS_scopes], ?_, hvm2, hwsb, ?_, hdr, hplb, hjmp⟩
        · intro x hx; simp only [Frag.identsGArmsS, List.mem_append]; exact Or.inr (hid x hx)
        · intro k; exact Nat.le_trans (cgBS_vm_mono mod fn φ loops b0 env k) (hvm k)
        · intro m hm
          simp only [codeVars_append, List.mem_append]
          exact Or.inr (hcv m hm)

/-- `let`, assignments, `return`, `break`, `continue`, call statements, `println`, `if`;
loops through `PGL`. -/
theorem pgs_step (G : GCtx) (hG : G.OK') (n : Nat) (hPE : ∀ m, m ≤ n → PE G m) (hPArgsLow : ∀ m, m + 2 = n → PArgs G m)
    (hPL : PGL G n) (hPBlow : ∀ m, m + 1 ≤ n → PGBS G m)
    (hTry : ∀ m, m + 1 = n → ∀ hs, PGBS (G.withH hs) m) (hPSsLow : ∀ m, m + 2 = n → PGSs G m)
    (hPF : PGF G (n + 1)) : PGS G (n + 1) := by
  intro A hA loops lscopes d st env spec ip stk mem hs hT hws hN hpl hd hls hrel hsp
  have hPEn := hPE n (Nat.le_refl n)
  cases st
  case typedef | trigger => simp [Frag.okFS] at hs
  case forS sp name vty iter body =>
    obtain ⟨bsp, bty, stmts, boe⟩ := body
    cases iter <;> try (simp [Frag.okFS] at hs; done)
    cases boe <;> try (simp [Frag.okFS] at hs; done)
    rename_i rsp a b incl
    exact hPF A hA loops lscopes d sp name vty rsp a b incl bsp bty stmts env spec ip stk mem hs hT hws hN hpl hd hls hrel hsp
  case letS sp name vty needsCast oty e =>
    simp only [Frag.okFS, Bool.and_eq_true, Bool.not_eq_eq_eq_not, Bool.not_true] at hs
    obtain ⟨hnc, he⟩ := hs
    subst hnc
    simp only [Frag.wsGS] at hws
    simp only [Frag.identsGS, List.mem_cons] at hT
    simp only [cgS] at hN hpl ⊢
    generalize hce : cgE G.mod (ρS env.scopes) A.φ e env.lm = ce at hN hpl ⊢
    obtain ⟨hplE, hplS⟩ := hpl.append
    obtain ⟨iset, _⟩ := hplS.instr (i := .setVar (freshVar G.mod { env with lm := ce.2 } name).1) rfl
    have hNm : A.N (freshVar G.mod { env with lm := ce.2 } name).1 := hN _ (by simp [codeVars, var?])
    have h1 := pv_all G n hPE A hA e spec ip stk mem env.lm env.scopes env.vm he hws (fun x hx => hT x (Or.inr hx))
      (hce ▸ hplE) hrel.rel hsp
    rw [hce] at h1
    rw [evalStmt_let]
    rcases hev : evalExpr G.cfg n e spec with ⟨r1, st1⟩
    rw [hev] at h1
    cases r1 with
    | error ce' => exact SimGS.of_exprError _ hrel hls h1
    | ok v =>
      obtain ⟨hfr, mem1, ov, hrun, hml⟩ := h1
      have hcell := hA.cell _ hNm
      have hrel1 : GRel G A env.scopes env.vm st1.scopes mem1 := by rw [hfr]; exact hrel.memLe hml
      have hdecl := GRel.declare (env := { env with lm := ce.2 }) hA hrel1 name (hT name (Or.inl rfl)) v hNm
      have hout : (declareSt name v st1).world = st1.world := by
        unfold declareSt; cases st1.scopes <;> rfl
      have hset : Runs G.fr G.code G.lim G.s A.fn A.rest A.mp (ip + nI ce.1) (⟨v, ov⟩ :: stk) mem1 st1.world
          (ip + nI ce.1 + 1) stk
          (mem1.set (A.mp - (A.σ (freshVar G.mod { env with lm := ce.2 } name).1 : Int)) v) st1.world :=
        Runs.of_runsTo (fr := G.fr) (fun it_ => RunsTo.of_exec1 (fun k =>
          reach_setVar G.code G.lim (baseOf (withIt G.s it_) A.fn A.rest A.mp st1.world) _ k stk mem1 ⟨A.fn, 0⟩ A.rest A.c rfl
            hA.code _ sp v ov iset hcell.1 hcell.2.1))
      refine ⟨?_, mem1.set (A.mp - (A.σ (freshVar G.mod { env with lm := ce.2 } name).1 : Int)) v, ?_,
        (hml.mono (by omega)).trans (MemLe.set _ _ _ _ _ hcell.2.2), ?_⟩
      · have h1 := declareSt_frame name v st1
        have h2 : (declareSt name v st1) =
            { st1 with scopes := (declareSt name v st1).scopes, out := (declareSt name v st1).out, heap := (declareSt name v st1).heap } := by
          unfold declareSt; cases st1.scopes <;> rfl
        rw [h2, hfr]
      · rw [hout]
        exact (hrun.trans hset).cast (by rw [nI_append, nI_instr _ _ _ rfl]; simp only [nI_nil]; omega)
      · rw [declareSt_scopes]
        exact hdecl
  case ret sp oe =>
    cases oe with
    | none => simp [Frag.okFS] at hs
    | some e =>
      simp only [Frag.okFS, Bool.and_eq_true] at hs
      obtain ⟨hrt, hs⟩ := hs
      simp only [Frag.wsGS, Bool.and_eq_true] at hws
      simp only [Frag.identsGS] at hT
      simp only [cgS, hrel.key, Option.getD_some] at hN hpl ⊢
      generalize hce : cgE G.mod (ρS env.scopes) A.φ e env.lm = ce at hN hpl ⊢
      obtain ⟨hplE, hplS⟩ := hpl.append
      obtain ⟨ijmp, _⟩ := hplS.instr (i := .jump A.cl) rfl
      have h1 := hPEn A hA e spec ip stk mem env.lm env.scopes env.vm hs hws.1 hT (hce ▸ hplE) hrel.rel hsp
      rw [hce] at h1
      rw [evalStmt_ret]
      rcases hev : evalExpr G.cfg n e spec with ⟨r1, st1⟩
      rw [hev] at h1
      cases r1 with
      | error ce' => exact SimGS.of_exprError _ hrel hls h1
      | ok v =>
        obtain ⟨hfr, mem1, ov, hov, hrun, hml⟩ := h1
        refine ⟨hrt, by rw [hfr], mem1, ov, hov, hrun.trans (Runs.of_runsTo (fr := G.fr) (fun it_ => RunsTo.of_exec1 (fun k =>
          reach_jump G.code G.lim (baseOf (withIt G.s it_) A.fn A.rest A.mp st1.world) _ k _ mem1 ⟨A.fn, 0⟩ A.rest A.c rfl
            hA.code (A.lab A.cl) sp ijmp))), hml.mono (by omega)⟩
  case brk sp =>
    simp only [Frag.okFS] at hs
    cases loops with
    | nil => simp at hs
    | cons bc rest =>
      obtain ⟨b, c⟩ := bc
      simp only [cgS] at hpl ⊢
      obtain ⟨ijmp, _⟩ := hpl.instr (i := .jump b) rfl
      rw [evalStmt_brk]
      refine ⟨rfl, mem, Runs.of_runsTo (fr := G.fr) (fun it_ => RunsTo.of_exec1 (fun k =>
        reach_jump G.code G.lim (baseOf (withIt G.s it_) A.fn A.rest A.mp spec.world) _ k _ mem ⟨A.fn, 0⟩ A.rest A.c rfl
          hA.code (A.lab b) sp ijmp)), MemLe.refl _ _ _, ?_⟩
      rw [hls]; exact ⟨hrel.rel.scopes.drop d, hrel.ghost⟩
  case cont sp =>
    simp only [Frag.okFS] at hs
    cases loops with
    | nil => simp at hs
    | cons bc rest =>
      obtain ⟨b, c⟩ := bc
      simp only [cgS] at hpl ⊢
      obtain ⟨ijmp, _⟩ := hpl.instr (i := .jump c) rfl
      rw [evalStmt_cont]
      refine ⟨rfl, mem, Runs.of_runsTo (fr := G.fr) (fun it_ => RunsTo.of_exec1 (fun k =>
        reach_jump G.code G.lim (baseOf (withIt G.s it_) A.fn A.rest A.mp spec.world) _ k _ mem ⟨A.fn, 0⟩ A.rest A.c rfl
          hA.code (A.lab c) sp ijmp)), MemLe.refl _ _ _, ?_⟩
      rw [hls]; exact ⟨hrel.rel.scopes.drop d, hrel.ghost⟩
  case whileS sp cnd body =>
    rw [evalStmt_while]
    have h := hPL A hA loops lscopes d sp (some cnd) body env spec ip stk mem hs hT hws hN hpl hls hrel hsp
    simp only [] at h
    rcases hl : loopRun G.cfg n (some cnd) body spec with ⟨r1, st1⟩
    rw [hl] at h
    cases r1 with
    | error ce' => exact h.error_cast _
    | ok u =>
      obtain ⟨h1, mem', hrun, hml, hq⟩ := h
      refine ⟨h1, mem', hrun, hml, ?_⟩
      have hsc : (cgS G.mod A.src A.φ loops (.whileS sp cnd body) env).2.scopes = env.scopes := by
        simp only [cgS]; rw [cgBS_scopes]
      rw [hsc]
      exact hq.vm_mono ((cgS_vm_mono G.mod A.src A.φ _).1 loops _ env (Nat.le_refl _))
  case loopS sp body =>
    rw [evalStmt_loop]
    have h := hPL A hA loops lscopes d sp none body env spec ip stk mem hs hT hws hN hpl hls hrel hsp
    simp only [] at h
    rcases hl : loopRun G.cfg n none body spec with ⟨r1, st1⟩
    rw [hl] at h
    cases r1 with
    | error ce' => exact h.error_cast _
    | ok u =>
      obtain ⟨h1, mem', hrun, hml, hq⟩ := h
      refine ⟨h1, mem', hrun, hml, ?_⟩
      have hsc : (cgS G.mod A.src A.φ loops (.loopS sp body) env).2.scopes = env.scopes := by
        simp only [cgS]; rw [cgBS_scopes]
      rw [hsc]
      exact hq.vm_mono ((cgS_vm_mono G.mod A.src A.φ _).1 loops _ env (Nat.le_refl _))
  case exprS sp e =>
    rcases okGS_exprS_inv _ _ _ sp e hs with ⟨asp, op, isp, ity, name, isFn, r, rfl, hr, hlog⟩ |
      ⟨isp, ty, cnd, t, eb, rfl, hty, hcnd, ht, heb⟩ | ⟨isp, ty, cnd, t, rfl, hty, hcnd, ht⟩ |
      ⟨csp, cty, isp, ity, name, g, f, si, args, sw, rfl, hcall⟩ | ⟨tsp, tty, tb, ci, cb, rfl, htty, htb, hcb⟩ |
      ⟨msp, mty, mc, arms, db, rfl, hmty, hmc, hmarms, hmdb⟩ | ⟨asp, op, isp, ity, b, i, r, rfl⟩ |
      ⟨asp, op, msp, mty, b, name, r, rfl⟩ | ⟨csp, cty, msp, mty, b, a, rfl⟩
    rotate_right
    · -- `l.push(x);`
      rw [evalStmt_exprS]
      exact SimGS.exprS _ (push_step G n (fun m hm => pv_all G m (fun m' hm' => hPE m' (by omega))) A hA loops lscopes d sp csp cty
        msp mty b a env spec ip stk mem hs hT hws hpl hls hrel hsp)
    rotate_right
    · -- `o.f = e`, `o.f op= e`
      rw [evalStmt_exprS]
      match n, hPE with
      | 0, _ => rw [evalExpr]; trivial
      | 1, _ => rw [evalExpr_assign_gen, evalPlace]; trivial
      | n' + 2, hPE =>
      exact SimGS.exprS _ (memAssign_step G n' (pv_all G n' (fun m hm => hPE m (by omega)))
        (pv_all G (n' + 1) (fun m hm => hPE m (by omega))) A hA loops lscopes d sp asp op msp mty b name r env spec ip stk mem
        hs hT hws hpl hls hrel hsp)
    rotate_right
    · -- `l[i] = e`, `l[i] op= e`
      rw [evalStmt_exprS]
      match n, hPE with
      | 0, _ => rw [evalExpr]; trivial
      | 1, _ => rw [evalExpr_assign_gen, evalPlace]; trivial
      | n' + 2, hPE =>
      exact SimGS.exprS _ (idxAssign_step G n' (pv_all G n' (fun m hm => hPE m (by omega)))
        (pv_all G (n' + 1) (fun m hm => hPE m (by omega))) A hA loops lscopes d sp asp op isp ity b i r env spec ip stk mem
        hs hT hws hpl hls hrel hsp)
    · -- assignments
      simp only [Frag.wsGS, Bool.and_eq_true] at hws
      obtain ⟨hname, hwr⟩ := hws
      simp only [Frag.identsGS, List.mem_cons] at hT
      have hxT : name ∈ A.T := hT name (Or.inl rfl)
      have hlk := hrel.rel.scopes.lookup A.T A.σ G.lim A.mp name hxT
      cases hρ : ρS env.scopes name with
      | none => simp [hρ] at hname
      | some m =>
      cases hls' : lookupScopes name spec.scopes with
      | none => simp [hρ, hls'] at hlk
      | some cur =>
      simp only [hρ, hls'] at hlk
      obtain ⟨⟨hm0, hm1, hmv⟩, hmlive⟩ := hlk
      have hNm : A.N m := hrel.rel.inN m hmlive
      have hcell := hA.cell m hNm
      rw [evalStmt_exprS]
      match n, hPE, hPArgsLow, hPL, hPBlow, hPEn with
      | 0, _, _, _, _, _ => rw [evalExpr]; trivial
      | 1, _, _, _, _, _ => rw [evalExpr_assign_short]; trivial
      | n' + 2, hPE, _, _, _, _ =>
      have hPE1 := pv_all G (n' + 1) (fun m hm => hPE m (by omega))
      cases op with
      | none =>
        simp only [cgS, hρ, Option.getD_some] at hN hpl ⊢
        generalize hcr : cgE G.mod (ρS env.scopes) A.φ r env.lm = cr at hN hpl ⊢
        obtain ⟨hplE, hplS⟩ := hpl.append
        obtain ⟨iset, _⟩ := hplS.instr (i := .setVar m) rfl
        have h1 := hPE1 A hA r spec ip stk mem env.lm env.scopes env.vm hr hwr (fun x hx => hT x (Or.inr hx))
          (hcr ▸ hplE) hrel.rel hsp
        rw [hcr] at h1
        rw [evalExpr_assign_none]
        rcases hev : evalExpr G.cfg (n' + 1) r spec with ⟨r1, st1⟩
        rw [hev] at h1
        cases r1 with
        | error ce' => exact SimGS.of_exprError _ hrel hls h1
        | ok v =>
          obtain ⟨hfr, mem1, ov, hrun, hml⟩ := h1
          have hrel1 : GRel G A env.scopes env.vm st1.scopes mem1 := by rw [hfr]; exact hrel.memLe hml
          obtain ⟨ss', hass, hrel'⟩ := hrel1.assign hA name hxT m hρ v
          simp only [writePlace_var name false v st1 ss' hass]
          refine ⟨by rw [hfr], _, (hrun.trans (Runs.of_runsTo (fr := G.fr) (fun it_ => RunsTo.of_exec1 (fun k =>
            reach_setVar G.code G.lim (baseOf (withIt G.s it_) A.fn A.rest A.mp st1.world) _ k stk mem1 ⟨A.fn, 0⟩ A.rest A.c rfl
              hA.code _ asp v ov iset hm0 hm1)))).cast ?_,
            (hml.mono (by omega)).trans (MemLe.set _ _ _ _ _ hcell.2.2), hrel'⟩
          rw [nI_append, nI_instr _ _ _ rfl]; simp only [nI_nil]; omega
      | some o =>
        have hlog := hlog o rfl
        simp only [cgS, hρ, Option.getD_some] at hN hpl ⊢
        generalize hcr : cgE G.mod (ρS env.scopes) A.φ r env.lm = cr at hN hpl ⊢
        obtain ⟨h3, hplS⟩ := hpl.append
        obtain ⟨h2, hplA⟩ := h3.append
        obtain ⟨hplG, hplE⟩ := h2.append
        obtain ⟨iget, _⟩ := hplG.instr (i := .getVar m) rfl
        obtain ⟨iset, _⟩ := hplS.instr (i := .setVar m) rfl
        have hnG : nI [((Instr.getVar m : SInstr), asp)] = 1 := rfl
        simp only [nI_append, hnG] at hplE hplA iset ⊢
        simp only [← Nat.add_assoc] at hplA iset
        have hget : Runs G.fr G.code G.lim G.s A.fn A.rest A.mp ip stk mem spec.world (ip + 1) (⟨cur, none⟩ :: stk) mem
            spec.world :=
          Runs.of_runsTo (fr := G.fr) (fun it_ => RunsTo.of_exec1 (fun k => reach_getVar G.code G.lim (baseOf (withIt G.s it_) A.fn A.rest A.mp spec.world)
            ip k stk mem ⟨A.fn, 0⟩ A.rest A.c rfl hA.code (A.σ m) asp cur iget hm0 hm1 hmv))
        have h1 := hPE1 A hA r spec (ip + 1) (⟨cur, none⟩ :: stk) mem env.lm env.scopes env.vm hr hwr
          (fun x hx => hT x (Or.inr hx)) (hcr ▸ hplE) hrel.rel hsp
        rw [hcr] at h1
        rw [evalExpr_assign_some, readPlace_var name false cur spec hls']
        simp only []
        rcases hev : evalExpr G.cfg (n' + 1) r spec with ⟨r1, st1⟩
        rw [hev] at h1
        cases r1 with
        | error ce' =>
          exact SimGS.of_exprError _ hrel hls
            (SimGE.error_after (st0 := spec) (nI cr.1) [⟨cur, none⟩] hget (by cases spec; rfl) (MemLe.refl _ _ _) h1)
        | ok b =>
          obtain ⟨hfr, mem1, ob, hrun, hml⟩ := h1
          simp only []
          have hsp1 := hsp.world st1 hfr hrun.inv
          have ha := fun it_ => exec_arith G.code G.lim (baseOf (withIt G.s it_) A.fn A.rest A.mp st1.world) ⟨A.fn, 0⟩
            A.rest A.c A.σ A.lab
            rfl hA.code o asp cur b none ob st1 (ip + 1 + nI cr.1) stk mem1 hlog hplA rfl
          rcases hb : binOp o cur b asp st1 with ⟨rb, st2⟩
          have hst2 : st2 = st1 := by
            have := (binOp_heapOnly o cur b asp).state st1
            rw [hb] at this; exact this
          subst hst2
          simp only [hb] at ha
          cases rb with
          | error cb =>
            cases cb <;> first | trivial | exact (ha ⟨[], 0⟩).elim | skip
            intro _
            exact (hget.trans hrun).fatal (RunsF.of_runsFatal ha)
          | ok v =>
            simp only [] at ha ⊢
            have hrel1 : GRel G A env.scopes env.vm st2.scopes mem1 := by rw [hfr]; exact hrel.memLe hml
            obtain ⟨ss', hass, hrel'⟩ := hrel1.assign hA name hxT m hρ v
            simp only [writePlace_var name false v st2 ss' hass]
            refine ⟨by rw [hfr], _, (((hget.trans hrun).trans (Runs.of_runsTo ha)).trans (Runs.of_runsTo
              (fun it_ => RunsTo.of_exec1 (fun k => reach_setVar G.code G.lim (baseOf (withIt G.s it_) A.fn A.rest A.mp st2.world) _ k stk mem1
                ⟨A.fn, 0⟩ A.rest A.c rfl hA.code _ asp v none iset hm0 hm1)))).cast ?_,
              (hml.mono (by omega)).trans (MemLe.set _ _ _ _ _ hcell.2.2), hrel'⟩
            rw [nI_instr _ _ _ rfl]; simp only [nI_nil]; omega
    · -- `if c { … } else { … }`
      simp only [Frag.wsGS, Bool.and_eq_true] at hws
      obtain ⟨⟨hwc, hwt⟩, hwe⟩ := hws
      simp only [Frag.identsGS, List.mem_append] at hT
      rw [evalStmt_exprS]
      match n, hPE, hPArgsLow, hPL, hPBlow, hPEn with
      | 0, _, _, _, _, _ => rw [evalExpr]; trivial
      | m + 1, hPE, _, _, hPBlow, _ =>
      have hPB := hPBlow m (Nat.le_refl _)
      have hPEm := hPE m (by omega)
      simp only [cgS, codeVars_append, List.mem_append] at hN hpl ⊢
      generalize hC : cgE G.mod (ρS env.scopes) A.φ cnd env.lm = C at hN hpl hwt hwe ⊢
      generalize hAf : freshLabel G.mod C.2 "if_after" = aft at hN hpl hwt hwe ⊢
      generalize hEl : freshLabel G.mod aft.2 "else" = els at hN hpl hwt hwe ⊢
      generalize hTb : cgBS G.mod A.src A.φ loops t { env with lm := els.2 } = Tb at hN hpl hwe ⊢
      generalize hEb : cgBS G.mod A.src A.φ loops eb Tb.2 = Eb at hN hpl ⊢
      obtain ⟨h5, hZ⟩ := hpl.append
      obtain ⟨h4, hplE⟩ := h5.append
      obtain ⟨h3, hY⟩ := h4.append
      obtain ⟨h2, hplT⟩ := h3.append
      obtain ⟨hplC, hX⟩ := h2.append
      obtain ⟨ijif, _⟩ := hX.instr (i := .jumpIfFalse els.1) rfl
      obtain ⟨ijmp, hY'⟩ := hY.instr (i := .jump aft.1) rfl
      obtain ⟨eels, _⟩ := hY'.label
      obtain ⟨eaft, _⟩ := hZ.label
      have hnCX : nI (C.1 ++ [((Instr.jumpIfFalse els.1 : SInstr), isp)]) = nI C.1 + 1 := by
        rw [nI_append, nI_instr _ _ _ rfl]; rfl
      have hnY : nI [((Instr.jump aft.1 : SInstr), isp), (.label els.1, isp)] = 1 := rfl
      have hn : nI (C.1 ++ [((Instr.jumpIfFalse els.1 : SInstr), isp)] ++ Tb.1 ++
          [(.jump aft.1, isp), (.label els.1, isp)] ++ Eb.1 ++ [(.label aft.1, isp)]) =
          nI C.1 + 1 + nI Tb.1 + 1 + nI Eb.1 := by
        rw [nI_append, nI_append, nI_append, nI_append, hnCX, hnY]; rfl
      simp only [nI_append, hnCX, hnY] at hplT ijmp eels hplE eaft
      rw [hn]
      have hscT : Tb.2.scopes = env.scopes := by rw [← hTb, cgBS_scopes]
      have hscE : Eb.2.scopes = env.scopes := by rw [← hEb, cgBS_scopes, hscT]
      have hvmT : ∀ k, cnt env.vm k ≤ cnt Tb.2.vm k := fun k => by
        rw [← hTb]; exact cgBS_vm_mono G.mod A.src A.φ loops t { env with lm := els.2 } k
      have hvmE : ∀ k, cnt Tb.2.vm k ≤ cnt Eb.2.vm k := fun k => by
        rw [← hEb]; exact cgBS_vm_mono G.mod A.src A.φ loops eb Tb.2 k
      have h1 := hPEm A hA cnd spec ip stk mem env.lm env.scopes env.vm hcnd hwc (fun x hx => hT x (Or.inl hx))
        (hC ▸ hplC) hrel.rel hsp
      rw [hC] at h1
      rw [evalExpr_ifE]
      rcases hev : evalExpr G.cfg m cnd spec with ⟨r1, st1⟩
      rw [hev] at h1
      cases r1 with
      | error ce' => exact SimGS.of_exprError _ hrel hls h1
      | ok v =>
        obtain ⟨hfr, mem1, ov, hov, hrun, hml⟩ := h1
        have hsp1 := hsp.world st1 hfr hrun.inv
        have hfr' : st1 = { spec with scopes := st1.scopes, out := st1.out, heap := st1.heap } := by rw [hfr]
        have hrel1 : GRel G A env.scopes env.vm st1.scopes mem1 := by rw [hfr]; exact hrel.memLe hml
        cases v <;> try trivial
        rename_i bv
        have hjif := Runs.of_runsTo (fr := G.fr) (fun it_ => RunsTo.of_exec1 (fun k =>
          reach_jumpIfFalse G.code G.lim (baseOf (withIt G.s it_) A.fn A.rest A.mp st1.world) _ k stk mem1 ⟨A.fn, 0⟩ A.rest A.c rfl
            hA.code (A.lab els.1) isp bv ov ijif))
        cases bv with
        | true =>
          simp only []
          have hpre : Runs G.fr G.code G.lim G.s A.fn A.rest A.mp ip stk mem spec.world (ip + (nI C.1 + 1)) stk mem1 st1.world :=
            (hrun.trans hjif).cast (by simp only [if_true]; omega)
          have hb := hPB A hA loops lscopes d t { env with lm := els.2 } st1 (ip + (nI C.1 + 1)) stk mem1 ht
            (fun x hx => hT x (Or.inr (Or.inl hx))) hwt
            (fun mm hm => hN mm (Or.inl (Or.inl (Or.inl (Or.inr (hTb ▸ hm)))))) (hTb ▸ hplT) hls hrel1 hsp1
          rw [hTb] at hb
          rcases hbe : inScope (evalBlock G.cfg m t) st1 with ⟨r2, st2⟩
          rw [hbe] at hb
          cases r2 with
          | error ce' => exact SimGS.error_after _ hfr' hpre (hml.mono (by omega)) hb
          | ok u =>
            obtain ⟨hfr2, mem2, hrunB, hml2, hrelB⟩ := hb
            refine ⟨by rw [hfr2, hfr], mem2, ((hpre.trans hrunB).trans (Runs.of_runsTo (fr := G.fr) (fun it_ => RunsTo.of_exec1 (fun k =>
              reach_jump G.code G.lim (baseOf (withIt G.s it_) A.fn A.rest A.mp st2.world) _ k _ mem2 ⟨A.fn, 0⟩ A.rest A.c rfl
                hA.code (A.lab aft.1) isp (by rw [← Nat.add_assoc] at ijmp ⊢; exact ijmp))))).cast (by omega),
              (hml.mono (by omega)).trans hml2, ?_⟩
            rw [hscE, ← hscT]
            exact hrelB.vm_mono hvmE
        | false =>
          simp only []
          have hpre : Runs G.fr G.code G.lim G.s A.fn A.rest A.mp ip stk mem spec.world
              (ip + (nI C.1 + 1 + nI Tb.1 + 1)) stk mem1 st1.world :=
            (hrun.trans hjif).cast (by simp only [Bool.false_eq_true, if_false]; omega)
          have hrelT : GRel G A Tb.2.scopes Tb.2.vm st1.scopes mem1 := by
            rw [hscT]; exact hrel1.vm_mono hvmT
          have hb := hPB A hA loops lscopes d eb Tb.2 st1 (ip + (nI C.1 + 1 + nI Tb.1 + 1)) stk mem1 heb
            (fun x hx => hT x (Or.inr (Or.inr hx))) hwe
            (fun mm hm => hN mm (Or.inl (Or.inr (hEb ▸ hm)))) (hEb ▸ hplE) (by rw [hscT]; exact hls) hrelT hsp1
          rw [hEb] at hb
          rcases hbe : inScope (evalBlock G.cfg m eb) st1 with ⟨r2, st2⟩
          rw [hbe] at hb
          cases r2 with
          | error ce' => exact SimGS.error_after _ hfr' hpre (hml.mono (by omega)) hb
          | ok u =>
            obtain ⟨hfr2, mem2, hrunB, hml2, hrelB⟩ := hb
            exact ⟨by rw [hfr2, hfr], mem2, (hpre.trans hrunB).cast (by omega), (hml.mono (by omega)).trans hml2, hrelB⟩
    · -- `if c { … }`
      simp only [Frag.wsGS, Bool.and_eq_true] at hws
      obtain ⟨hwc, hwt⟩ := hws
      simp only [Frag.identsGS, List.mem_append] at hT
      rw [evalStmt_exprS]
      match n, hPE, hPArgsLow, hPL, hPBlow, hPEn with
      | 0, _, _, _, _, _ => rw [evalExpr]; trivial
      | m + 1, hPE, _, _, hPBlow, _ =>
      have hPB := hPBlow m (Nat.le_refl _)
      have hPEm := hPE m (by omega)
      simp only [cgS, codeVars_append, List.mem_append] at hN hpl ⊢
      generalize hC : cgE G.mod (ρS env.scopes) A.φ cnd env.lm = C at hN hpl hwt ⊢
      generalize hAf : freshLabel G.mod C.2 "if_after" = aft at hN hpl hwt ⊢
      generalize hEl : freshLabel G.mod aft.2 "else" = els at hN hpl hwt ⊢
      generalize hTb : cgBS G.mod A.src A.φ loops t { env with lm := els.2 } = Tb at hN hpl ⊢
      obtain ⟨h3, hY⟩ := hpl.append
      obtain ⟨h2, hplT⟩ := h3.append
      obtain ⟨hplC, hX⟩ := h2.append
      obtain ⟨ijif, _⟩ := hX.instr (i := .jumpIfFalse aft.1) rfl
      obtain ⟨ijmp, hY'⟩ := hY.instr (i := .jump aft.1) rfl
      obtain ⟨eaft, _⟩ := hY'.label
      have hnCX : nI (C.1 ++ [((Instr.jumpIfFalse aft.1 : SInstr), isp)]) = nI C.1 + 1 := by
        rw [nI_append, nI_instr _ _ _ rfl]; rfl
      have hnY : nI [((Instr.jump aft.1 : SInstr), isp), (.label aft.1, isp)] = 1 := rfl
      have hn : nI (C.1 ++ [((Instr.jumpIfFalse aft.1 : SInstr), isp)] ++ Tb.1 ++
          [(.jump aft.1, isp), (.label aft.1, isp)]) = nI C.1 + 1 + nI Tb.1 + 1 := by
        rw [nI_append, nI_append, hnCX, hnY]
      simp only [nI_append, hnCX] at hplT ijmp eaft
      rw [hn]
      have hscT : Tb.2.scopes = env.scopes := by rw [← hTb, cgBS_scopes]
      have hvmT : ∀ k, cnt env.vm k ≤ cnt Tb.2.vm k := fun k => by
        rw [← hTb]; exact cgBS_vm_mono G.mod A.src A.φ loops t { env with lm := els.2 } k
      have h1 := hPEm A hA cnd spec ip stk mem env.lm env.scopes env.vm hcnd hwc (fun x hx => hT x (Or.inl hx))
        (hC ▸ hplC) hrel.rel hsp
      rw [hC] at h1
      rw [evalExpr_ifE_none]
      rcases hev : evalExpr G.cfg m cnd spec with ⟨r1, st1⟩
      rw [hev] at h1
      cases r1 with
      | error ce' => exact SimGS.of_exprError _ hrel hls h1
      | ok v =>
        obtain ⟨hfr, mem1, ov, hov, hrun, hml⟩ := h1
        have hsp1 := hsp.world st1 hfr hrun.inv
        have hfr' : st1 = { spec with scopes := st1.scopes, out := st1.out, heap := st1.heap } := by rw [hfr]
        have hrel1 : GRel G A env.scopes env.vm st1.scopes mem1 := by rw [hfr]; exact hrel.memLe hml
        cases v <;> try trivial
        rename_i bv
        have hjif := Runs.of_runsTo (fr := G.fr) (fun it_ => RunsTo.of_exec1 (fun k =>
          reach_jumpIfFalse G.code G.lim (baseOf (withIt G.s it_) A.fn A.rest A.mp st1.world) _ k stk mem1 ⟨A.fn, 0⟩ A.rest A.c rfl
            hA.code (A.lab aft.1) isp bv ov ijif))
        cases bv with
        | true =>
          simp only []
          have hpre : Runs G.fr G.code G.lim G.s A.fn A.rest A.mp ip stk mem spec.world (ip + (nI C.1 + 1)) stk mem1 st1.world :=
            (hrun.trans hjif).cast (by simp only [if_true]; omega)
          have hb := hPB A hA loops lscopes d t { env with lm := els.2 } st1 (ip + (nI C.1 + 1)) stk mem1 ht
            (fun x hx => hT x (Or.inr hx)) hwt
            (fun mm hm => hN mm (Or.inl (Or.inr (hTb ▸ hm)))) (hTb ▸ hplT) hls hrel1 hsp1
          rw [hTb] at hb
          rcases hbe : inScope (evalBlock G.cfg m t) st1 with ⟨r2, st2⟩
          rw [hbe] at hb
          cases r2 with
          | error ce' => exact SimGS.error_after _ hfr' hpre (hml.mono (by omega)) hb
          | ok u =>
            obtain ⟨hfr2, mem2, hrunB, hml2, hrelB⟩ := hb
            exact ⟨by rw [hfr2, hfr], mem2, ((hpre.trans hrunB).trans (Runs.of_runsTo (fr := G.fr) (fun it_ => RunsTo.of_exec1 (fun k =>
              reach_jump G.code G.lim (baseOf (withIt G.s it_) A.fn A.rest A.mp st2.world) _ k _ mem2 ⟨A.fn, 0⟩ A.rest A.c rfl
                hA.code (A.lab aft.1) isp (by rw [← Nat.add_assoc] at ijmp ⊢; exact ijmp))))).cast (by omega),
              (hml.mono (by omega)).trans hml2, hrelB⟩
        | false =>
          refine ⟨by rw [hfr], mem1, (hrun.trans hjif).cast (by simp only [Bool.false_eq_true, if_false]; omega),
            hml.mono (by omega), ?_⟩
          rw [hscT]
          exact hrel1.vm_mono hvmT
    · -- calls as statements
      simp only [Frag.identsGS, List.mem_cons] at hT
      have hpnt : ("println" == "throw") = false := by decide
      rcases hcall with ⟨rfl, hcty, rfl, hoa, hone, hlen⟩ | ⟨hnp, hnt, hcty, hokc⟩ | ⟨rfl, rfl, a, rfl, hat⟩
      · -- `println(…)`
        simp only [Frag.wsGS, hpnt, Bool.false_eq_true, if_false, beq_self_eq_true, if_true, Bool.and_eq_true] at hws
        obtain ⟨⟨hρp, hφp⟩, hwa⟩ := hws
        have hpT : "println" ∈ A.T := hT _ (Or.inl rfl)
        have hTa : ∀ x ∈ Frag.namesGArgs args, x ∈ A.T := fun x hx => hT x (Or.inr hx)
        simp only [cgS, hpnt, Bool.false_eq_true, if_false, beq_self_eq_true, if_true, codeVars_append,
          List.mem_append] at hN hpl ⊢
        generalize hCA : cgArgs G.mod (ρS env.scopes) A.φ args env.lm = CA at hN hpl ⊢
        obtain ⟨hplA, hplR⟩ := hpl.append
        obtain ⟨iglob, hplR⟩ := hplR.instr (i := .getGlob "println") rfl
        obtain ⟨ipush, hplR⟩ := hplR.instr (i := .copyPush (.int args.length)) rfl
        obtain ⟨icall, _⟩ := hplR.instr (i := .callVal) rfl
        have hn : nI (CA.1 ++ [((Instr.getGlob "println" : SInstr), csp), (.copyPush (.int args.length), csp),
            (.callVal, csp)]) = nI CA.1 + 3 := by
          rw [nI_append, nI_instr _ _ _ rfl, nI_instr _ _ _ rfl, nI_instr _ _ _ rfl]; rfl
        rw [hn, evalStmt_exprS]
        match n, hPE, hPArgsLow, hPL, hPBlow, hPEn with
        | 0, _, _, _, _, _ => rw [evalExpr]; trivial
        | 1, _, _, _, _, _ => rw [evalExpr_call, evalCall]; trivial
        | 2, _, _, _, _, _ => rw [evalExpr_call, evalCall_step, evalExpr]; trivial
        | c + 3, _, hPArgsLow, _, _, _ =>
          have hPA := hPArgsLow (c + 1) rfl
          -- the callee is the builtin
          have hlk := hrel.rel.scopes.lookup A.T A.σ G.lim A.mp "println" hpT
          have hρp' : ρS env.scopes "println" = none := by simpa using hρp
          rw [hρp'] at hlk
          have hlsn : lookupScopes "println" spec.scopes = none := by
            cases hl : lookupScopes "println" spec.scopes with
            | none => rfl
            | some v => simp [hl] at hlk
          have hgl : spec.globals.lookup (spec.module, "println") = none := by rw [hsp.globals]; rfl
          have hid := evalExpr_builtinIdent G.cfg c isp ity "println" g f si spec hlsn hgl
            (by rw [hsp.module]; exact hG.noPrintFn) (by decide)
          rw [evalExpr_call, evalCall_step, hid]
          simp only []
          have h1 := hPA A hA args spec ip stk mem env.lm env.scopes env.vm hoa hone hwa hTa (hCA ▸ hplA)
            hrel.rel hsp
          rw [hCA] at h1
          rcases hea : evalList G.cfg (c + 1) (List.map (fun x => x.snd) args) spec with ⟨r1, st1⟩
          rw [hea] at h1
          rw [hea]
          cases r1 with
          | error c1 => exact SimGS.of_argsError _ hrel hls h1
          | ok vals =>
            obtain ⟨hfr, mem1, svs, hsv, _, hrun, hml⟩ := h1
            simp only []
            have hsp1 := hsp.world st1 hfr hrun.inv
            have hvl : vals.length = args.length := by
              have := evalList_length G.cfg _ _ _ _ _ hea
              simpa using this
            have hsvl : svs.length = vals.length := by rw [← hsv, List.length_map]
            rw [applyFn_builtin, println_run]
            cases hpt : printText st1.heap vals with
            | none => trivial
            | some t =>
              simp only []
              have hrelm : GRel G A env.scopes env.vm spec.scopes mem1 := hrel.memLe hml
              have hg := Runs.of_exec1 (fr := G.fr) (fun it_ k => mkS_getGlob_builtin G.code G.lim (withIt G.s it_) A.fn (ip + nI CA.1) A.rest A.mp
                k (svs ++ stk) mem1 st1.world A.c hA.code "println" csp iglob hG.println (by decide))
              have hp := Runs.of_runsTo (fr := G.fr) (fun it_ => RunsTo.of_exec1 (fun k =>
                reach_push G.code G.lim (baseOf (withIt G.s it_) A.fn A.rest A.mp st1.world) (ip + nI CA.1 + 1) k
                  (⟨.builtin "println", none⟩ :: (svs ++ stk)) mem1 ⟨A.fn, 0⟩ A.rest A.c rfl hA.code
                  (.int args.length) csp (.int (I64.ofInt args.length)) ipush (fun _ => rfl)))
              have hc := Runs.of_exec1W (fr := G.fr) (fun it_ k => mkS_callVal_println G.code G.lim (withIt G.s it_) A.fn (ip + nI CA.1 + 1 + 1)
                A.rest A.mp k stk mem1 st1.world A.c hA.code csp svs none none t icall
                (by rw [hsvl, hvl]; exact hlen)
                (by rw [hsv]; exact hpt)) (fun hi => hi)
              simp only [hsvl, hvl] at hc
              refine ⟨by rw [hfr], mem1, (((hrun.trans hg).trans hp).trans hc).cast (by omega),
                hml.mono (by omega), ?_⟩
              show GRel G A env.scopes env.vm st1.scopes mem1
              rw [hfr]; exact hrelm
      · -- a user function, result dropped
        have hnp' : (name == "println") = false := by simpa using hnp
        have hnt' : (name == "throw") = false := by simpa using hnt
        simp only [Frag.wsGS, hnp', hnt', Bool.false_eq_true, if_false, Bool.and_eq_true] at hws
        obtain ⟨⟨hρn, hφn⟩, hwa⟩ := hws
        simp only [cgS, hnp', hnt', Bool.false_eq_true, if_false, codeVars_append, List.mem_append] at hN hpl ⊢
        generalize hCE : cgE G.mod (ρS env.scopes) A.φ (.call csp cty (.ident isp ity name g f si) args sw) env.lm = CE
          at hN hpl ⊢
        obtain ⟨hplE, hplD⟩ := hpl.append
        obtain ⟨idrop, _⟩ := hplD.instr (i := .drop) rfl
        have hwsE : Frag.wsGE env.scopes A.φ (.call csp cty (.ident isp ity name g f si) args sw) = true := by
          simp only [Frag.wsGArgs, Bool.and_eq_true] at hwa
          simp only [Frag.wsGE, Frag.varsGE, Frag.callsGE, Frag.callsOK, List.all_cons, Bool.and_eq_true]
          exact ⟨hwa.1, ⟨hρn, hφn⟩, by simpa [Frag.callsOK] using hwa.2⟩
        have hTE : ∀ x ∈ Frag.namesGE (.call csp cty (.ident isp ity name g f si) args sw), x ∈ A.T := by
          intro x hx
          simp only [Frag.namesGE, Frag.varsGE, Frag.callsGE, List.mem_append, List.mem_cons] at hx
          rcases hx with hx | hx | hx
          · exact hT x (Or.inr (by simp [Frag.namesGArgs, hx]))
          · exact hT x (Or.inl hx)
          · exact hT x (Or.inr (by simp [Frag.namesGArgs, hx]))
        have h1 := hPEn A hA _ spec ip stk mem env.lm env.scopes env.vm hokc hwsE hTE (hCE ▸ hplE) hrel.rel hsp
        rw [hCE] at h1
        rw [evalStmt_exprS]
        rcases hev : evalExpr G.cfg n (.call csp cty (.ident isp ity name g f si) args sw) spec with ⟨r1, st1⟩
        rw [hev] at h1
        cases r1 with
        | error ce' => exact SimGS.of_exprError _ hrel hls h1
        | ok v =>
          obtain ⟨hfr, mem1, ov, hov, hrun, hml⟩ := h1
          refine ⟨by rw [hfr], mem1, (hrun.trans (Runs.of_runsTo (fr := G.fr) (fun it_ => RunsTo.of_exec1 (fun k =>
            reach_drop G.code G.lim (baseOf (withIt G.s it_) A.fn A.rest A.mp st1.world) _ k stk mem1 ⟨A.fn, 0⟩ A.rest A.c rfl
              hA.code sp ⟨v, ov⟩ idrop)))).cast ?_, hml.mono (by omega), ?_⟩
          · rw [nI_append, nI_instr _ _ _ rfl]; simp only [nI_nil]; omega
          · rw [hfr]; exact hrel.memLe hml
      · -- `throw(a)` with an atom `a`
        simp only [Frag.wsGS, beq_self_eq_true, if_true, Bool.and_eq_true] at hws
        obtain ⟨⟨hρp, hφp⟩, hwa⟩ := hws
        have hpT : "throw" ∈ A.T := hT _ (Or.inl rfl)
        simp only [cgS, beq_self_eq_true, if_true, codeVars_append, List.mem_append] at hN hpl ⊢
        generalize hCA : cgArgs G.mod (ρS env.scopes) A.φ [a] env.lm = CA at hN hpl ⊢
        generalize hD : (if cty.isNull = true then ([] : SCode) else [(Instr.drop, sp)]) = D at hN hpl ⊢
        obtain ⟨hplAT, _⟩ := hpl.append
        obtain ⟨hplA, hplT⟩ := hplAT.append
        obtain ⟨ithrow, _⟩ := hplT.instr (i := .throw) rfl
        rw [evalStmt_exprS]
        have hall : allAtoms [a] = true := by simp [allAtoms, hat]
        obtain ⟨hvs, hcs⟩ := varsG_atoms [a] hall
        simp only [Frag.wsGArgs, Bool.and_eq_true] at hwa
        obtain ⟨vals, hvals1, hvals2⟩ := atoms_run G A hA spec mem env.scopes env.vm hrel.rel [a] ip stk env.lm hall
          (by rw [← hvs]; exact hwa.1)
          (fun x hx => hT x (Or.inr (by rw [← hvs] at hx; simp [Frag.namesGArgs, hx]))) (hCA ▸ hplA)
        rw [hCA] at hvals2
        match n, hPE, hPArgsLow, hPL, hPBlow, hPEn with
        | 0, _, _, _, _, _ => rw [evalExpr]; trivial
        | 1, _, _, _, _, _ => rw [evalExpr_call, evalCall]; trivial
        | 2, _, _, _, _, _ => rw [evalExpr_call, evalCall_step, evalExpr]; trivial
        | c + 3, _, _, _, _, _ =>
          have hlk := hrel.rel.scopes.lookup A.T A.σ G.lim A.mp "throw" hpT
          have hρp' : ρS env.scopes "throw" = none := by simpa using hρp
          rw [hρp'] at hlk
          have hlsn : lookupScopes "throw" spec.scopes = none := by
            cases hl : lookupScopes "throw" spec.scopes with
            | none => rfl
            | some v => simp [hl] at hlk
          have hgl : spec.globals.lookup (spec.module, "throw") = none := by rw [hsp.globals]; rfl
          have hid := evalExpr_builtinIdent G.cfg c isp ity "throw" g f si spec hlsn hgl
            (by rw [hsp.module]; exact hG.noThrowFn) (by decide)
          rw [evalExpr_call, evalCall_step, hid]
          simp only []
          rcases hvals1 spec rfl (c + 1) with hea | hea
          · rw [show List.map (fun x : String × Expr => x.snd) [a] = List.map (fun x => x.snd) [a] from rfl] at hea
            rw [hea]; trivial
          · rw [hea]
            simp only []
            have hlen := evalList_length G.cfg _ _ _ _ _ hea
            cases vals with
            | nil => simp at hlen
            | cons v vs =>
              cases vs with
              | cons _ _ => simp at hlen
              | nil =>
                rw [applyFn_builtin, throw_run]
                cases hd : display spec.heap 1000000 v with
                | none => trivial
                | some dmsg =>
                  simp only []
                  refine ⟨by cases spec; rfl, mem, ?_, MemLe.refl _ _ _, ?_⟩
                  · refine ⟨fun k => ?_, id⟩
                    obtain ⟨k', e⟩ := hvals2 spec.world k
                    refine ⟨k', _, [], ip + nI CA.1 + 1, A.mp, [], e, ?_⟩
                    exact mkSI_throw G.code G.lim G.s A.fn (ip + nI CA.1) A.rest A.mp (k + k') stk mem spec.world A.c
                      hA.code csp v none dmsg ithrow hd
                  · rw [hls]; exact ⟨hrel.rel.scopes.drop d, hrel.ghost⟩
    · -- `try { … } catch e { … }`
      obtain ⟨cbsp, cbty, cstmts, coe⟩ := cb
      cases coe with
      | some _ => simp [Frag.okFBS] at hcb
      | none =>
      simp only [Frag.okFBS] at hcb
      simp only [Frag.wsGS, Bool.and_eq_true, beq_iff_eq] at hws
      obtain ⟨⟨⟨hmain, hself⟩, hwt⟩, hwc⟩ := hws
      simp only [Frag.identsGS, Frag.identsGBS, List.mem_append, List.mem_cons] at hT
      rw [evalStmt_exprS]
      match n, hPE, hPArgsLow, hPL, hPBlow, hPEn, hTry, hPSsLow with
      | 0, _, _, _, _, _, _, _ => rw [evalExpr]; trivial
      | m + 1, _, _, _, hPBlow, _, hTry, hPSsLow =>
      rw [evalExpr_tryE]
      simp only [cgS, codeVars_append, List.mem_append] at hN hpl ⊢
      have hcurr : (A.φ A.src).getD "" = A.fn := by rw [hself, hA.fnName]; rfl
      rw [hcurr] at hN hpl ⊢
      generalize hExc : freshLabel G.mod env.lm "exception_label" = exc at hN hpl hwt hwc ⊢
      generalize hAft : freshLabel G.mod exc.2 "after_catch_label" = aft at hN hpl hwt hwc ⊢
      generalize hCt : cgBS G.mod A.src A.φ [] tb { env with lm := aft.2 } = ct at hN hpl hwc ⊢
      generalize hFv : freshVar G.mod { ct.2 with scopes := [] :: ct.2.scopes } ci = fv at hN hpl hwc ⊢
      generalize hCc : cgSs G.mod A.src A.φ loops cstmts fv.2 = cc at hN hpl ⊢
      -- placement
      obtain ⟨h4, hplAft⟩ := hpl.append
      obtain ⟨h3, hplC⟩ := h4.append
      obtain ⟨h2, hplM⟩ := h3.append
      obtain ⟨hplS, hplB⟩ := h2.append
      obtain ⟨iset0, _⟩ := hplS.instr (i := .setTry A.fn exc.1) rfl
      obtain ⟨ipop1, hM1⟩ := hplM.instr (i := .popTry) rfl
      obtain ⟨ijmp, hM2⟩ := hM1.instr (i := .jump aft.1) rfl
      obtain ⟨eexc, hM3⟩ := hM2.label
      obtain ⟨isetv, hM4⟩ := hM3.instr (i := .setVar fv.1) rfl
      obtain ⟨ipop2, _⟩ := hM4.instr (i := .popTry) rfl
      obtain ⟨eaft, _⟩ := hplAft.label
      have hnS : nI [((Instr.setTry A.fn exc.1 : SInstr), tsp)] = 1 := rfl
      have hnM : nI [((Instr.popTry : SInstr), tsp), (.jump aft.1, tsp), (.label exc.1, tsp), (.setVar fv.1, tsp),
          (.popTry, tsp)] = 4 := rfl
      simp only [nI_append, hnS, hnM] at hplB ipop1 ijmp eexc isetv ipop2 hplC eaft ⊢
      simp only [← Nat.add_assoc] at ipop1 ijmp eexc isetv ipop2 hplC eaft
      have hnL : nI [((Instr.label aft.1 : SInstr), tsp)] = 0 := rfl
      rw [hnL, Nat.add_zero]
      -- static facts about the environments
      have hscT : ct.2.scopes = env.scopes := by rw [← hCt, cgBS_scopes]
      have hvmT : ∀ k, cnt env.vm k ≤ cnt ct.2.vm k := fun k => by
        rw [← hCt]; exact cgBS_vm_mono G.mod A.src A.φ [] tb { env with lm := aft.2 } k
      have hfvsc : fv.2.scopes.tail = ct.2.scopes := by rw [← hFv]; simp [freshVar]
      have hccT : cc.2.scopes.tail = env.scopes := by
        rw [← hCc, cgSs_tail, hfvsc, hscT]
      have hvmC : ∀ k, cnt ct.2.vm k ≤ cnt cc.2.vm k := fun k => by
        have h1 := cnt_freshVar G.mod { ct.2 with scopes := [] :: ct.2.scopes } ci k
        rw [hFv] at h1
        have h2 := (cgS_vm_mono G.mod A.src A.φ (Frag.depthGSs cstmts)).2.1 loops cstmts fv.2 (Nat.le_refl _) k
        rw [hCc] at h2
        have h1' : cnt ct.2.vm k ≤ cnt fv.2.vm k := by
          rw [h1]; simp only []; split <;> (try subst_vars) <;> omega
        exact Nat.le_trans h1' h2
      -- the body, under the handler
      have hA' := hA.withH (tryHandler G A (A.lab exc.1) stk :: G.s.handlers) false
      have hB := hTry m rfl (tryHandler G A (A.lab exc.1) stk :: G.s.handlers) _ hA' [] env.scopes 0 tb
        { env with lm := aft.2 } spec (ip + 1) stk mem htb (fun x hx => hT x (Or.inl hx)) hwt
        (fun mm hm => hN mm (Or.inl (Or.inl (Or.inl (Or.inr (hCt ▸ hm)))))) (hCt ▸ hplB) rfl
        ⟨hrel.rel, hrel.key, hrel.ghost, hrel.ghostC⟩ ⟨hsp.heap, hsp.module, hsp.globals, hsp.depth⟩
      have hB' : SimGS (G.inTry A (A.lab exc.1) stk) { A with rt := false } [] env.scopes 0 (ip + 1)
          (nI (cgBS G.mod A.src A.φ [] tb { env with lm := aft.2 }).1) stk mem
          (GRel (G.inTry A (A.lab exc.1) stk) { A with rt := false }
            (cgBS G.mod A.src A.φ [] tb { env with lm := aft.2 }).2.scopes
            (cgBS G.mod A.src A.φ [] tb { env with lm := aft.2 }).2.vm) spec
          (inScope (evalBlock G.cfg m tb) spec) := hB
      rw [hCt] at hB'
      rcases hbe : inScope (evalBlock G.cfg m tb) spec with ⟨r1, st1⟩
      rw [hbe] at hB'
      cases r1 with
      | ok u =>
        simp only []
        obtain ⟨hfr, mem1, hrunB, hmlB, hrelB⟩ := hB'
        refine ⟨hfr, mem1, (Runs.tryOk hA iset0 hrunB ipop1 ijmp).cast (by rw [eaft]; omega), hmlB, ?_⟩
        rw [hccT, ← hscT]
        exact GRel.vm_mono ⟨hrelB.rel, hrelB.key, hrelB.ghost, hrelB.ghostC⟩ hvmC
      | error ce' =>
        cases ce'
        case brk => exact hB'.elim
        case cont => exact hB'.elim
        case ret v => exact absurd hB'.1 (by simp)
        case unsupported => trivial
        case timeout => trivial
        case fatal kd fm fsp =>
          intro hk
          exact RunsF.tryBody hA iset0 (hB' hk)
        case throw msg tsp' =>
          obtain ⟨hfr, mem1, hT1, hmlB, hsr⟩ := hB'
          simp only []
          rw [catch_run]
          have hmod1 : st1.module = "main" := by
            rw [hfr]; show spec.module = "main"; rw [hsp.module]; exact hmain
          cases m with
          | zero => rw [evalBlock]; trivial
          | succ m' =>
          rw [evalBlock_stmts]
          have hPSs := hPSsLow m' rfl
          -- the VM: dispatch, `Set_Var`, `Pop_Try`
          have hNv : A.N fv.1 := hN fv.1 (Or.inl (Or.inl (Or.inr (by simp [codeVars, var?]))))
          have hcell := hA.cell _ hNv
          have hrunC := Runs.tryCatch hA iset0 hT1 (slot := A.σ fv.1) (by rw [eexc]; exact isetv) (by rw [eexc]; exact ipop2)
            hcell.1 hcell.2.1
          -- the specification: the catch block starts in `catchSt`
          have hst2 := catchSt_frame ci msg tsp' st1
          generalize catchSt ci msg tsp' st1 = st2 at hst2 ⊢
          have hw2 : st2.world = ⟨st1.world.heap.push (errCell msg tsp'), st1.world.out⟩ := by
            rw [hst2, hmod1, errCellOf_main]; rfl
          rw [← hw2] at hrunC
          have hsr' : ScopesRel A.T A.σ G.lim A.mp mem1 env.scopes st1.scopes := by
            have h0 : ScopesRel A.T A.σ G.lim A.mp mem1 env.scopes (st1.scopes.drop 0) := hsr.1
            simpa using h0
          have hgh1 : GhostOK A mem1 := hsr.2
          have hrelE : GRel G A env.scopes env.vm st1.scopes mem1 :=
            ⟨⟨hsr', hrel.rel.nodup, hrel.rel.inN, hrel.rel.named⟩, hrel.key, hgh1, hrel.ghostC⟩
          have hrelT : GRel G A ct.2.scopes ct.2.vm st1.scopes mem1 := by
            rw [hscT]; exact hrelE.vm_mono hvmT
          have hdecl := GRel.declare (env := { ct.2 with scopes := [] :: ct.2.scopes }) hA hrelT.push ci
            (hT ci (Or.inr (Or.inl rfl))) (.ref st1.heap.size) (by rw [hFv]; exact hNv)
          rw [hFv] at hdecl
          have hsc2 : st2.scopes = declScopes ci (.ref st1.heap.size) ([] :: st1.scopes) := by rw [hst2]
          have hfr02 : st2 = { spec with scopes := st2.scopes, out := st2.out, heap := st2.heap } := by
            rw [hst2, hfr]
          have hsp2 : SpecOK G A.mp st2 := hsp.scopes_out st2 hfr02 hrunC.inv
          have hml02 : MemLe G.fr (A.mp - (A.nv : Int)) mem
              (mem1.set (A.mp - (A.σ fv.1 : Int)) (.ref st1.world.heap.size)) :=
            hmlB.trans (MemLe.set _ _ _ _ _ hcell.2.2)
          have hC := hPSs A hA loops lscopes (d + 1) cstmts fv.2 st2 (ip + 1 + nI ct.1 + 4) stk
            (mem1.set (A.mp - (A.σ fv.1 : Int)) (.ref st1.world.heap.size)) hcb
            (fun x hx => hT x (Or.inr (Or.inr hx))) hwc
            (fun mm hm => hN mm (Or.inl (Or.inr (hCc ▸ hm)))) (hCc ▸ hplC) (by omega)
            (by rw [← List.drop_tail, hfvsc, hscT]; exact hls) (by rw [hsc2]; exact hdecl) hsp2
          rw [hCc] at hC
          have hCp := SimGS.popLevel (Q' := GRel G A cc.2.scopes.tail cc.2.vm)
            (fun ss mm hq => ⟨hq.rel.tail, by rw [hccT]; exact hrel.key, hq.ghost, hq.ghostC⟩) hC
          rcases hes : evalStmts G.cfg m' cstmts st2 with ⟨r2, st3⟩
          rw [hes] at hCp
          have hipC : A.lab exc.1 + 2 = ip + 1 + nI ct.1 + 4 := by rw [eexc]
          rw [hipC] at hrunC
          cases r2 with
          | error c2 =>
            simp only []
            exact SimGS.error_after _ hfr02 hrunC hml02 hCp
          | ok u2 =>
            simp only [] at hCp ⊢
            obtain ⟨hfr3, mem3, hrun3, hml3, hq⟩ := hCp
            refine ⟨?_, mem3, (hrunC.trans hrun3).cast (by omega), hml02.trans hml3, hq⟩
            rw [hfr3, hfr02]
    · -- `match c { l… => { … } … _ => { … } }`
      simp only [Frag.wsGS, Bool.and_eq_true] at hws
      obtain ⟨⟨hwc, hwa⟩, hwd⟩ := hws
      simp only [Frag.identsGS, List.mem_append] at hT
      rw [evalStmt_exprS]
      match n, hPE, hPArgsLow, hPL, hPBlow, hPEn with
      | 0, _, _, _, _, _ => rw [evalExpr]; trivial
      | m + 1, hPE, _, _, hPBlow, _ =>
      have hPEm := hPE m (by omega)
      simp only [cgS, codeVars_append, List.mem_append] at hN hpl ⊢
      generalize hCC : cgE G.mod (ρS env.scopes) A.φ mc env.lm = CC at hN hpl hwa hwd ⊢
      generalize hAf : freshLabel G.mod CC.2 "match_after" = aft at hN hpl hwa hwd ⊢
      generalize hTs : armTests G.mod msp arms aft.2 = ts at hN hpl hwa hwd ⊢
      generalize hDf : freshLabel G.mod ts.2.2 "match_default" = dfl at hN hpl hwa hwd ⊢
      generalize hBs : cgArmsS G.mod A.src A.φ loops msp aft.1 arms ts.2.1 { env with lm := dfl.2 } = bs
        at hN hpl hwd ⊢
      generalize hCD : cgBS G.mod A.src A.φ loops db bs.2 = CD at hN hpl ⊢
      obtain ⟨h6, hplE⟩ := hpl.append
      obtain ⟨h5, hplD⟩ := h6.append
      obtain ⟨h4, hplL⟩ := h5.append
      obtain ⟨h3, hplB⟩ := h4.append
      obtain ⟨h2, hplJ⟩ := h3.append
      obtain ⟨hplC, hplT⟩ := h2.append
      obtain ⟨ijd, _⟩ := hplJ.instr (i := .jump dfl.1) rfl
      obtain ⟨edfl, hL2⟩ := hplL.label
      obtain ⟨idrop, _⟩ := hL2.instr (i := .drop) rfl
      obtain ⟨ija, hE2⟩ := hplE.instr (i := .jump aft.1) rfl
      obtain ⟨eaft, _⟩ := hE2.label
      have hnJ : nI [((Instr.jump dfl.1 : SInstr), msp)] = 1 := rfl
      have hnL : nI [((Instr.label dfl.1 : SInstr), msp), (.drop, msp)] = 1 := rfl
      have hnE : nI [((Instr.jump aft.1 : SInstr), msp), (.label aft.1, msp)] = 1 := rfl
      simp only [nI_append, hnJ, hnL, hnE] at hplT ijd hplB edfl idrop hplD ija eaft ⊢
      simp only [← Nat.add_assoc] at hplT ijd hplB edfl idrop hplD ija eaft ⊢
      have hlit := okGArmsS_lits _ _ _ arms hmarms
      have hscB : bs.2.scopes = env.scopes := by rw [← hBs, cgArmsS_scopes]
      have hscD : CD.2.scopes = env.scopes := by rw [← hCD, cgBS_scopes, hscB]
      have hvmB : ∀ k, cnt env.vm k ≤ cnt bs.2.vm k := fun k => by
        rw [← hBs]; exact cgArmsS_vm_mono G.mod A.src A.φ loops msp aft.1 arms ts.2.1 { env with lm := dfl.2 } k
      have hvmD : ∀ k, cnt bs.2.vm k ≤ cnt CD.2.vm k := fun k => by
        rw [← hCD]; exact cgBS_vm_mono G.mod A.src A.φ loops db bs.2 k
      -- the control value
      have h1 := hPEm A hA mc spec ip stk mem env.lm env.scopes env.vm hmc hwc (fun x hx => hT x (Or.inl hx))
        (hCC ▸ hplC) hrel.rel hsp
      rw [hCC] at h1
      rw [evalExpr_matchE]
      rcases hec : evalExpr G.cfg m mc spec with ⟨r1, st1⟩
      rw [hec] at h1
      cases r1 with
      | error ce' => exact SimGS.of_exprError _ hrel hls h1
      | ok cv =>
        obtain ⟨hfr, mem1, ov1, hov1, hrun1, hml⟩ := h1
        simp only []
        have hsp1 := hsp.world st1 hfr hrun1.inv
        have hfr' : st1 = { spec with scopes := st1.scopes, out := st1.out, heap := st1.heap } := by rw [hfr]
        have hrel1 : GRel G A env.scopes env.vm st1.scopes mem1 := by rw [hfr]; exact hrel.memLe hml
        have htest := armTests_run G A hA msp ⟨cv, ov1⟩ stk mem1 st1.world arms aft.2 (ip + nI CC.1) hlit
          (hTs ▸ hplT)
        rw [hTs] at htest
        have hlen : arms.length = ts.2.1.length := by rw [← hTs, armTests_length]
        rcases evalArms_spec G.cfg arms m cv (.blockE db) st1 hlit with h | ⟨msg, h⟩ | ⟨i, a, f', hi, hh, hf, h⟩ |
          ⟨hh, f', hf, h⟩
        · rw [h]; trivial
        · rw [h]; trivial
        · -- arm `i` is taken
          rw [h]
          have hh' : armsHit st1.world.heap cv arms = some (some i) := hh
          rw [hh'] at htest
          obtain ⟨nm, hnm, hrunT⟩ := htest
          obtain ⟨b, envi, hab, hokb, hid, hsci, hvmi, hvmi2, hwsb, hcv, idr, hplA, ijmp⟩ :=
            cgArmsS_at A G.mod A.src A.φ loops msp aft.1 (!loops.isEmpty) A.rt arms ts.2.1 { env with lm := dfl.2 } _ hlen
              hmarms hwa (hBs ▸ hplB) i a nm hi hnm
          rw [hBs] at hvmi2 hcv
          have hdrop := Runs.of_runsTo (fr := G.fr) (fun it_ => RunsTo.of_exec1 (fun k => reach_drop G.code G.lim
            (baseOf (withIt G.s it_) A.fn A.rest A.mp st1.world) (A.lab nm) k stk mem1 ⟨A.fn, 0⟩ A.rest A.c rfl hA.code msp ⟨cv, ov1⟩
            idr))
          have hpre : Runs G.fr G.code G.lim G.s A.fn A.rest A.mp ip stk mem spec.world (A.lab nm + 1) stk mem1 st1.world :=
            (hrun1.trans hrunT).trans hdrop
          rw [hab]
          cases f' with
          | zero => rw [evalExpr]; trivial
          | succ g =>
          rw [evalExpr_blockE]
          have hreli : GRel G A envi.scopes envi.vm st1.scopes mem1 := by
            rw [hsci]; exact hrel1.vm_mono hvmi
          have hb := hPBlow g (by omega) A hA loops lscopes d b envi st1 (A.lab nm + 1) stk mem1 hokb
            (fun x hx => hT x (Or.inr (Or.inl (hid x hx)))) hwsb
            (fun mm hm => hN mm (Or.inl (Or.inl (Or.inl (Or.inr (hcv mm hm)))))) hplA (by rw [hsci]; exact hls)
            hreli hsp1
          rcases hbe : inScope (evalBlock G.cfg g b) st1 with ⟨r2, st2⟩
          rw [hbe] at hb
          cases r2 with
          | error ce' => exact SimGS.error_after _ hfr' hpre (hml.mono (by omega)) hb
          | ok u =>
            obtain ⟨hfr2, mem2, hrunB, hml2, hrelB⟩ := hb
            have hj := Runs.of_runsTo (fr := G.fr) (fun it_ => RunsTo.of_exec1 (fun k => reach_jump G.code G.lim
              (baseOf (withIt G.s it_) A.fn A.rest A.mp st2.world) _ k stk mem2 ⟨A.fn, 0⟩ A.rest A.c rfl hA.code
              (A.lab aft.1) msp ijmp))
            refine ⟨by rw [hfr2, hfr], mem2, ((hpre.trans hrunB).trans hj).cast (by rw [eaft]; omega),
              (hml.mono (by omega)).trans hml2, ?_⟩
            have hsc2 : (cgBS G.mod A.src A.φ loops b envi).2.scopes = CD.2.scopes := by
              rw [cgBS_scopes, hsci, hscD]
            rw [← hsc2]
            exact hrelB.vm_mono (fun k => Nat.le_trans (hvmi2 k) (hvmD k))
        · -- the default
          rw [h]
          have hh' : armsHit st1.world.heap cv arms = some none := hh
          rw [hh'] at htest
          have hjd := Runs.of_runsTo (fr := G.fr) (fun it_ => RunsTo.of_exec1 (fun k => reach_jump G.code G.lim
            (baseOf (withIt G.s it_) A.fn A.rest A.mp st1.world) _ k (⟨cv, ov1⟩ :: stk) mem1 ⟨A.fn, 0⟩ A.rest A.c rfl hA.code
            (A.lab dfl.1) msp ijd))
          have hdrop := Runs.of_runsTo (fr := G.fr) (fun it_ => RunsTo.of_exec1 (fun k => reach_drop G.code G.lim
            (baseOf (withIt G.s it_) A.fn A.rest A.mp st1.world) (A.lab dfl.1) k stk mem1 ⟨A.fn, 0⟩ A.rest A.c rfl hA.code msp
            ⟨cv, ov1⟩ (by rw [edfl]; exact idrop)))
          have hpre : Runs G.fr G.code G.lim G.s A.fn A.rest A.mp ip stk mem spec.world
              (ip + nI CC.1 + nI ts.1 + 1 + nI bs.1 + 1) stk mem1 st1.world :=
            (((hrun1.trans htest).trans hjd).trans hdrop).cast (by rw [edfl])
          cases f' with
          | zero => rw [evalExpr]; trivial
          | succ g =>
          rw [evalExpr_blockE]
          have hrelBs : GRel G A bs.2.scopes bs.2.vm st1.scopes mem1 := by
            rw [hscB]; exact hrel1.vm_mono hvmB
          have hb := hPBlow g (by omega) A hA loops lscopes d db bs.2 st1 (ip + nI CC.1 + nI ts.1 + 1 + nI bs.1 + 1)
            stk mem1 hmdb (fun x hx => hT x (Or.inr (Or.inr hx))) hwd
            (fun mm hm => hN mm (Or.inl (Or.inr (hCD ▸ hm)))) (hCD ▸ hplD) (by rw [hscB]; exact hls) hrelBs hsp1
          rw [hCD] at hb
          rcases hbe : inScope (evalBlock G.cfg g db) st1 with ⟨r2, st2⟩
          rw [hbe] at hb
          cases r2 with
          | error ce' => exact SimGS.error_after _ hfr' hpre (hml.mono (by omega)) hb
          | ok u =>
            obtain ⟨hfr2, mem2, hrunB, hml2, hrelB⟩ := hb
            have hj := Runs.of_runsTo (fr := G.fr) (fun it_ => RunsTo.of_exec1 (fun k => reach_jump G.code G.lim
              (baseOf (withIt G.s it_) A.fn A.rest A.mp st2.world) _ k stk mem2 ⟨A.fn, 0⟩ A.rest A.c rfl hA.code
              (A.lab aft.1) msp ija))
            exact ⟨by rw [hfr2, hfr], mem2, ((hpre.trans hrunB).trans hj).cast (by rw [eaft]; omega),
              (hml.mono (by omega)).trans hml2, hrelB⟩

end HmsProofs.Sim
