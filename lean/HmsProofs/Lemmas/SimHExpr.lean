import HmsProofs.Lemmas.SimHCast
/-!
# Expressions of the general fragment: the induction steps
-/
namespace HmsProofs.Sim
open Hms.Core Hms.Core.Comp Hms.Core.VM

theorem inScope_frame (st st1 : St)
    (h : st1 = { ({ st with scopes := [] :: st.scopes } : St) with out := st1.out, heap := st1.heap }) :
    ({ st1 with scopes := st1.scopes.tail } : St) = { st with out := st1.out, heap := st1.heap } := by
  obtain ⟨h1, g1, s1, c1, o1, t1, m1, d1⟩ := st1
  obtain ⟨h0, g0, s0, c0, o0, t0, m0, d0⟩ := st
  simp only [St.mk.injEq] at h ⊢
  obtain ⟨_, rfl, rfl, rfl, _, rfl, rfl, rfl⟩ := h
  simp

/-- Blocks `{ e }`. -/
theorem pgb_step (G : GCtx) (n : Nat) (hPE : ∀ m, m < n → PE G m) : PGB G n := by
  intro A hA b st ip stk mem lm scopes vm hb hres hcalls hT hpl hrel hsp
  obtain ⟨bsp, bty, stmts, oe⟩ := b
  cases stmts with
  | cons _ _ => simp [Frag.okEB] at hb
  | nil =>
    cases oe with
    | none => simp [Frag.okEB] at hb
    | some te =>
      simp only [Frag.okEB] at hb
      simp only [Frag.varsGB, Frag.callsGB] at hres hcalls hT
      rw [cgB] at hpl ⊢
      rw [inScope_run]
      match n, hPE with
      | 0, _ => rw [evalBlock]; trivial
      | 1, _ => rw [evalBlock_one]; trivial
      | n' + 2, hPE =>
        rw [evalBlock_pure]
        have hws : Frag.wsGE ([] :: scopes) A.φ te = true := by
          simp only [Frag.wsGE, Bool.and_eq_true, resolved_push, callsOK_push]
          exact ⟨hres, hcalls⟩
        have h1 := hPE (n' + 1) (by omega) A hA te { st with scopes := [] :: st.scopes } ip stk mem lm
          ([] :: scopes) vm hb hws hT (by rw [ρS_push]; exact hpl) hrel.push
          ⟨hsp.heap, hsp.module, hsp.globals, hsp.depth⟩
        rw [ρS_push] at h1
        rcases hte : evalExpr G.cfg (n' + 1) te { st with scopes := [] :: st.scopes } with ⟨r1, st1⟩
        rw [hte] at h1
        cases r1 with
        | ok v =>
          obtain ⟨hfr, mem', ov, hov, hrun, hml⟩ := h1
          exact ⟨inScope_frame st st1 hfr, mem', ov, hov, hrun, hml⟩
        | error cerr =>
          cases cerr <;> first | trivial | exact h1.elim | exact h1 | skip
          obtain ⟨hfr, mem', hT, hml⟩ := h1
          exact ⟨inScope_frame st st1 hfr, mem', hT, hml⟩

theorem cgE_infix (mod : String) (ρ φ : String → Option String) (sp ty op l r) (lm : LM)
    (h : Frag.isLogical op = false) :
    cgE mod ρ φ (.infix sp ty op l r) lm =
      ((cgE mod ρ φ l lm).1 ++ (cgE mod ρ φ r (cgE mod ρ φ l lm).2).1 ++ (arithI op).map (·, sp),
       (cgE mod ρ φ r (cgE mod ρ φ l lm).2).2) := by
  cases op <;> first | rfl | cases h

theorem okGE_call_inv (fr : Bool) (sp ty base args sw) (h : Frag.okE fr (.call sp ty base args sw) = true) :
    (∃ isp ity name g f si, base = .ident isp ity name g f si ∧ sw = false ∧ name ≠ "throw" ∧
      name ≠ "println" ∧ Frag.okEArgs fr args = true ∧ Frag.oneNonAtom args = true) ∨
    (∃ msp mty b nm, base = .member msp mty b nm .dot ∧ args = [] ∧ sw = false ∧ fr = true ∧ nm ∈ meth0 ∧
      Frag.okE fr b = true) := by
  cases base <;> try (simp [Frag.okE] at h; done)
  case ident isp ity name g f si =>
    left
    cases sw
    · simp only [Frag.okE, Bool.and_eq_true, bne_iff_ne, ne_eq] at h
      exact ⟨isp, ity, name, g, f, si, rfl, rfl, h.1.1.1, h.1.1.2, h.1.2, h.2⟩
    · simp [Frag.okE] at h
  case member msp mty b nm mop =>
    right
    cases mop <;> cases args <;> cases sw <;> try (simp [Frag.okE] at h; done)
    simp only [Frag.okE, Bool.and_eq_true, List.contains_iff_mem] at h
    obtain ⟨⟨hfr, hm⟩, hb⟩ := h
    exact ⟨msp, mty, b, nm, rfl, rfl, rfl, hfr, hm, hb⟩

/-- Expressions. -/
theorem pe_step (G : GCtx) (hG : G.OK') (n : Nat) (hPE : ∀ m, m ≤ n → PE G m)
    (hPArgs : ∀ m, m ≤ n → PArgs G m) (hPCall : ∀ m, m ≤ n → PCall G m) : PE G (n + 1) := by
  intro A hA e st ip stk mem lm scopes vm hok hws hT hpl hrel hsp
  have hws' := hws
  simp only [Frag.wsGE, Bool.and_eq_true] at hws'
  obtain ⟨hres, hcalls⟩ := hws'
  by_cases hp : Frag.pureE e = true
  · rw [cgE_of_pure _ _ _ _ _ hp] at hpl ⊢
    have hv := varsGE_pure e hp
    rw [hv] at hres
    exact simGE_pure G A hA (n + 1) e st ip stk mem lm scopes vm hp hres
      (fun x hx => hT x (by simp [Frag.namesGE, hv, hx])) hpl hrel hsp
  · have ihn := hPE n (Nat.le_refl n)
    have hPGB : PGB G n := pgb_step G n (fun m hm => hPE m (by omega))
    cases e <;> try (simp only [Frag.okE, Bool.false_eq_true] at hok)
    case int | bool | str | null | none => exact absurd rfl hp
    case ident sp ty name g f si => exact absurd (by simpa [Frag.pureE] using hok) hp
    case grouped sp e =>
      rw [evalExpr]
      rw [cgE] at hpl ⊢
      exact ihn A hA e st ip stk mem lm scopes vm hok (by simpa [Frag.wsGE, Frag.varsGE, Frag.callsGE] using hws)
        (by simpa [Frag.namesGE, Frag.varsGE, Frag.callsGE] using hT) hpl hrel hsp
    case pre sp ty op e =>
      simp only [cgE] at hpl ⊢
      obtain ⟨hplA, hplB⟩ := hpl.append
      have hi := (hplB.instr (preI_notLabel op)).1
      have h1 := ihn A hA e st ip stk mem lm scopes vm hok
        (by simpa [Frag.wsGE, Frag.varsGE, Frag.callsGE] using hws)
        (by simpa [Frag.namesGE, Frag.varsGE, Frag.callsGE] using hT) hplA hrel hsp
      have hn : nI ((cgE G.mod (ρS scopes) A.φ e lm).1 ++ [(preI op, sp)]) =
          nI (cgE G.mod (ρS scopes) A.φ e lm).1 + 1 := by
        rw [nI_append, nI_instr _ _ _ (preI_notLabel op)]; rfl
      rw [evalExpr_pre, hn]
      rcases he : evalExpr G.cfg n e st with ⟨r1, st1⟩
      rw [he] at h1
      cases r1 with
      | error c1 => exact h1.error_n _
      | ok a =>
        obtain ⟨hfr, mem1, ov, hov, hrun, hml⟩ := h1
        simp only []
        cases hpo : preOp op a with
        | error c' =>
          obtain ⟨w, rfl⟩ := preOp_error hpo
          trivial
        | ok v =>
          refine ⟨hfr, mem1, none, OrgOK.none _, (hrun.trans (Runs.of_runsTo (fr := G.fr) (fun it_ => RunsTo.of_exec1 (fun k =>
            reach_pre G.code G.lim (baseOf (withIt G.s it_) A.fn A.rest A.mp st1.world) _ k stk mem1 ⟨A.fn, 0⟩ A.rest A.c rfl
              hA.code op sp A.lab A.σ a v ov hi hpo)))).cast ?_, hml⟩
          omega
    case cast sp ty e =>
      simp only [Bool.and_eq_true] at hok
      obtain ⟨⟨_, hty⟩, hoke⟩ := hok
      have hplA : Placed A.lab A.σ A.c ip (cgE G.mod (ρS scopes) A.φ e lm).1 := by
        have h := hpl
        simp only [cgE] at h
        exact h.append.1
      exact cast_step G A hA n sp ty e hty st ip stk mem lm scopes hpl
        (ihn A hA e st ip stk mem lm scopes vm hoke
          (by simpa [Frag.wsGE, Frag.varsGE, Frag.callsGE] using hws)
          (by simpa [Frag.namesGE, Frag.varsGE, Frag.callsGE] using hT) hplA hrel hsp)
    case «infix» sp ty op l r =>
      have hnp : Frag.pureE (.infix sp ty op l r) = false := by simpa using hp
      simp only [hnp, Bool.false_or, Bool.and_eq_true, Bool.not_eq_eq_eq_not, Bool.not_true] at hok
      obtain ⟨⟨⟨hlog, hl⟩, hr⟩, _⟩ := hok
      simp only [Frag.varsGE, Frag.callsGE, resolved_append, callsOK_append] at hres hcalls
      simp only [Frag.namesGE, Frag.varsGE, Frag.callsGE, List.mem_append] at hT
      have hwl : Frag.wsGE scopes A.φ l = true := by simp [Frag.wsGE, hres.1, hcalls.1]
      have hwr : Frag.wsGE scopes A.φ r = true := by simp [Frag.wsGE, hres.2, hcalls.2]
      have hTl : ∀ x ∈ Frag.namesGE l, x ∈ A.T := by
        intro x hx; simp only [Frag.namesGE, List.mem_append] at hx
        rcases hx with hx | hx
        · exact hT x (Or.inl (Or.inl hx))
        · exact hT x (Or.inr (Or.inl hx))
      have hTr : ∀ x ∈ Frag.namesGE r, x ∈ A.T := by
        intro x hx; simp only [Frag.namesGE, List.mem_append] at hx
        rcases hx with hx | hx
        · exact hT x (Or.inl (Or.inr hx))
        · exact hT x (Or.inr (Or.inr hx))
      rw [cgE_infix _ _ _ _ _ _ _ _ _ hlog] at hpl ⊢
      simp only [] at hpl ⊢
      generalize hCA : cgE G.mod (ρS scopes) A.φ l lm = CA at hpl ⊢
      generalize hCB : cgE G.mod (ρS scopes) A.φ r CA.2 = CB at hpl ⊢
      obtain ⟨h12, hY⟩ := hpl.append
      obtain ⟨hpA, hpB⟩ := h12.append
      rw [evalExpr_infix _ _ _ _ _ _ _ _ hlog]
      have h1 := ihn A hA l st ip stk mem lm scopes vm hl hwl hTl (hCA ▸ hpA) hrel hsp
      rw [hCA] at h1
      rcases hel : evalExpr G.cfg n l st with ⟨r1, st1⟩
      rw [hel] at h1
      cases r1 with
      | error c1 => exact h1.error_n _
      | ok a =>
        obtain ⟨hfr1, mem1, ov1, hov1, hrun1, hml1⟩ := h1
        simp only []
        have hsp1 := hsp.world st1 hfr1 hrun1.inv
        have hrel1 : StRel G.mod A.T A.N A.σ G.lim A.mp scopes vm st1.scopes mem1 := by
          rw [hfr1]; exact hrel.memLe hml1.cells
        have h2 := ihn A hA r st1 (ip + nI CA.1) (⟨a, ov1⟩ :: stk) mem1 CA.2 scopes vm hr hwr hTr (hCB ▸ hpB)
          hrel1 hsp1
        rw [hCB] at h2
        rcases her : evalExpr G.cfg n r st1 with ⟨r2, st2⟩
        rw [her] at h2
        cases r2 with
        | error c2 => exact SimGE.error_after _ [⟨a, ov1⟩] hrun1 hfr1 hml1 h2
        | ok b =>
          obtain ⟨hfr2, mem2, ov2, hov2, hrun2, hml2⟩ := h2
          simp only []
          have hrun12 := (hrun1.trans hrun2).cast (Nat.add_assoc ip _ _)
          have hsp2 := hsp1.world st2 hfr2 hrun2.inv
          have ha := fun it_ => exec_arith G.code G.lim (baseOf (withIt G.s it_) A.fn A.rest A.mp st2.world) ⟨A.fn, 0⟩
            A.rest A.c A.σ A.lab
            rfl hA.code op sp a b ov1 ov2 st2 (ip + (nI CA.1 + nI CB.1)) stk mem2 hlog
            (by simpa [nI_append] using hY) rfl
          rcases hb : binOp op a b sp st2 with ⟨rb, st3⟩
          have hst3 : st3 = st2 := by
            have := (binOp_heapOnly op a b sp).state st2
            rw [hb] at this; exact this
          subst hst3
          simp only [hb] at ha
          have hfr : st3 = { st with out := st3.out, heap := st3.heap } := by rw [hfr2, hfr1]
          cases rb with
          | ok v =>
            simp only [] at ha
            refine ⟨hfr, mem2, none, OrgOK.none _, (hrun12.trans (Runs.of_runsTo ha)).cast ?_, hml1.trans hml2⟩
            simp only [nI_append]; omega
          | error cb =>
            cases cb <;> first | trivial | exact (ha ⟨[], 0⟩).elim | skip
            intro _
            exact hrun12.fatal (RunsF.of_runsFatal ha)
    case ifE sp ty cnd t el =>
      cases el with
      | none => simp [Frag.okE] at hok
      | some eb =>
        simp only [Frag.okE, Bool.and_eq_true] at hok
        obtain ⟨⟨hcnd, ht⟩, he⟩ := hok
        simp only [Frag.varsGE, Frag.callsGE, resolved_append, callsOK_append] at hres hcalls
        simp only [Frag.namesGE, Frag.varsGE, Frag.callsGE, List.mem_append] at hT
        have hwc : Frag.wsGE scopes A.φ cnd = true := by simp [Frag.wsGE, hres.1, hcalls.1]
        have hTc : ∀ x ∈ Frag.namesGE cnd, x ∈ A.T := by
          intro x hx; simp only [Frag.namesGE, List.mem_append] at hx
          rcases hx with hx | hx
          · exact hT x (Or.inl (Or.inl hx))
          · exact hT x (Or.inr (Or.inl hx))
        have hTt : ∀ x ∈ Frag.varsGB t ++ Frag.callsGB t, x ∈ A.T := by
          intro x hx; simp only [List.mem_append] at hx
          rcases hx with hx | hx
          · exact hT x (Or.inl (Or.inr (Or.inl hx)))
          · exact hT x (Or.inr (Or.inr (Or.inl hx)))
        have hTe : ∀ x ∈ Frag.varsGB eb ++ Frag.callsGB eb, x ∈ A.T := by
          intro x hx; simp only [List.mem_append] at hx
          rcases hx with hx | hx
          · exact hT x (Or.inl (Or.inr (Or.inr hx)))
          · exact hT x (Or.inr (Or.inr (Or.inr hx)))
        simp only [cgE] at hpl ⊢
        generalize hC : cgE G.mod (ρS scopes) A.φ cnd lm = C at hpl ⊢
        generalize hAf : freshLabel G.mod C.2 "if_after" = aft at hpl ⊢
        generalize hEl : freshLabel G.mod aft.2 "else" = els at hpl ⊢
        generalize hTb : cgB G.mod (ρS scopes) A.φ t els.2 = Tb at hpl ⊢
        generalize hEb : cgB G.mod (ρS scopes) A.φ eb Tb.2 = Eb at hpl ⊢
        obtain ⟨h5, hZ⟩ := hpl.append
        obtain ⟨h4, hpE⟩ := h5.append
        obtain ⟨h3, hY⟩ := h4.append
        obtain ⟨h2, hpT⟩ := h3.append
        obtain ⟨hpC, hX⟩ := h2.append
        obtain ⟨ijif, _⟩ := hX.instr (i := .jumpIfFalse els.1) rfl
        obtain ⟨ijmp, hY'⟩ := hY.instr (i := .jump aft.1) rfl
        obtain ⟨eels, _⟩ := hY'.label
        obtain ⟨eaft, _⟩ := hZ.label
        have hnCX : nI (C.1 ++ [((Instr.jumpIfFalse els.1 : SInstr), sp)]) = nI C.1 + 1 := by
          rw [nI_append, nI_instr _ _ _ rfl]; rfl
        have hnY : nI [((Instr.jump aft.1 : SInstr), sp), (.label els.1, sp)] = 1 := rfl
        have hn : nI (C.1 ++ [((Instr.jumpIfFalse els.1 : SInstr), sp)] ++ Tb.1 ++
            [(.jump aft.1, sp), (.label els.1, sp)] ++ Eb.1 ++ [(.label aft.1, sp)]) =
            nI C.1 + 1 + nI Tb.1 + 1 + nI Eb.1 := by
          rw [nI_append, nI_append, nI_append, nI_append, hnCX, hnY]; rfl
        simp only [nI_append, hnCX, hnY] at hpT ijmp eels hpE eaft
        rw [hn, evalExpr_ifE]
        have h1 := ihn A hA cnd st ip stk mem lm scopes vm hcnd hwc hTc (hC ▸ hpC) hrel hsp
        rw [hC] at h1
        rcases hec : evalExpr G.cfg n cnd st with ⟨r1, st1⟩
        rw [hec] at h1
        cases r1 with
        | error c1 => exact h1.error_n _
        | ok a =>
          obtain ⟨hfr1, mem1, ov, hov, hrun, hml1⟩ := h1
          have hsp1 := hsp.world st1 hfr1 hrun.inv
          have hrel1 : StRel G.mod A.T A.N A.σ G.lim A.mp scopes vm st1.scopes mem1 := by
            rw [hfr1]; exact hrel.memLe hml1.cells
          cases a <;> try trivial
          rename_i bv
          have hjif := Runs.of_runsTo (fr := G.fr) (fun it_ => RunsTo.of_exec1 (fun k =>
            reach_jumpIfFalse G.code G.lim (baseOf (withIt G.s it_) A.fn A.rest A.mp st1.world) _ k stk mem1 ⟨A.fn, 0⟩ A.rest A.c
              rfl hA.code (A.lab els.1) sp bv ov ijif))
          cases bv with
          | true =>
            simp only []
            have hpre : Runs G.fr G.code G.lim G.s A.fn A.rest A.mp ip stk mem st.world (ip + (nI C.1 + 1)) stk mem1 st1.world :=
              (hrun.trans hjif).cast (by simp only [if_true]; omega)
            have h2 := hPGB A hA t st1 (ip + (nI C.1 + 1)) stk mem1 els.2 scopes vm ht hres.2.1 hcalls.2.1 hTt
              (hTb ▸ hpT) hrel1 hsp1
            rw [hTb] at h2
            rcases hbt : inScope (evalBlock G.cfg n t) st1 with ⟨r2, st2⟩
            rw [hbt] at h2
            cases r2 with
            | error c2 => exact SimGE.error_after _ [] hpre hfr1 hml1 h2
            | ok v =>
              obtain ⟨hfr2, mem2, ov2, hov2, hrun2, hml2⟩ := h2
              refine ⟨by rw [hfr2, hfr1], mem2, ov2, hov2, ((hpre.trans hrun2).trans (Runs.of_runsTo (fr := G.fr) (fun it_ => RunsTo.of_exec1 (fun k =>
                reach_jump G.code G.lim (baseOf (withIt G.s it_) A.fn A.rest A.mp st2.world) _ k _ mem2 ⟨A.fn, 0⟩ A.rest A.c rfl
                  hA.code (A.lab aft.1) sp (by rw [← Nat.add_assoc] at ijmp ⊢; exact ijmp))))).cast ?_,
                hml1.trans hml2⟩
              omega
          | false =>
            simp only []
            have hpre : Runs G.fr G.code G.lim G.s A.fn A.rest A.mp ip stk mem st.world
                (ip + (nI C.1 + 1 + nI Tb.1 + 1)) stk mem1 st1.world :=
              (hrun.trans hjif).cast (by simp only [Bool.false_eq_true, if_false]; omega)
            have h2 := hPGB A hA eb st1 (ip + (nI C.1 + 1 + nI Tb.1 + 1)) stk mem1 Tb.2 scopes vm he hres.2.2
              hcalls.2.2 hTe (hEb ▸ hpE) hrel1 hsp1
            rw [hEb] at h2
            rcases hbe : inScope (evalBlock G.cfg n eb) st1 with ⟨r2, st2⟩
            rw [hbe] at h2
            cases r2 with
            | error c2 => exact SimGE.error_after _ [] hpre hfr1 hml1 h2
            | ok v =>
              obtain ⟨hfr2, mem2, ov2, hov2, hrun2, hml2⟩ := h2
              refine ⟨by rw [hfr2, hfr1], mem2, ov2, hov2, (hpre.trans hrun2).cast ?_, hml1.trans hml2⟩
              omega
    case call sp ty base args isSpawn =>
      rcases okGE_call_inv G.fr sp ty base args isSpawn hok with
        ⟨isp, ity, name, g, f, si, rfl, rfl, hnt, hnp, hoa, hone⟩ | ⟨msp, mty, b, nm, rfl, rfl, rfl, hfr, hnm, hb⟩
      rotate_left
      · -- `l.len()`, `o.is_some()`, `o.is_none()`
        obtain ⟨hHO, hnn, herr⟩ := callMember_meth0 nm hnm sp
        simp only [Frag.varsGE, Frag.callsGE, Frag.varsGArgs, Frag.callsGArgs, List.append_nil] at hres hcalls
        have hwb : Frag.wsGE scopes A.φ b = true := by simp [Frag.wsGE, hres, hcalls]
        have hTb : ∀ x ∈ Frag.namesGE b, x ∈ A.T := by
          intro x hx; exact hT x (by simpa [Frag.namesGE, Frag.varsGE, Frag.callsGE, Frag.varsGArgs, Frag.callsGArgs] using hx)
        refine SimGE.of_simOE hfr (meth0_step G A hA hfr (n + 1) nm (meth0_sub nm hnm) sp ty msp mty b hHO hnn herr st ip stk mem
          lm scopes hpl hsp ?_)
        intro g hg
        have hpb : Placed A.lab A.σ A.c ip (cgE G.mod (ρS scopes) A.φ b lm).1 := by
          simp only [cgE] at hpl; exact hpl.append.1
        exact SimOE.of_simGE (hPE g (by omega) A hA b st ip stk mem lm scopes vm hb hwb hTb hpb hrel hsp)
      simp only [Frag.varsGE, Frag.callsGE] at hres hcalls
      have hcalls' := hcalls
      simp only [Frag.callsOK, List.all_cons, Bool.and_eq_true] at hcalls'
      obtain ⟨⟨hρn, hφn⟩, hcargs⟩ := hcalls'
      simp only [Frag.namesGE, Frag.varsGE, Frag.callsGE, List.mem_append, List.mem_cons] at hT
      have hnT : name ∈ A.T := hT name (Or.inr (Or.inl rfl))
      cases hφ : A.φ name with
      | none => simp [hφ] at hφn
      | some fm =>
      obtain ⟨rfl, hK, fd, hfind, hresolve⟩ := hA.phi name fm hφ
      obtain ⟨I, stmts, e', hFn, hgh⟩ := hG.prog name fd hK hfind
      simp only [cgE, hφ, Option.getD_some] at hpl ⊢
      generalize hCA : cgArgs G.mod (ρS scopes) A.φ args lm = CA at hpl ⊢
      obtain ⟨hplA, hplC⟩ := hpl.append
      obtain ⟨icall, _⟩ := hplC.instr (i := .callImm (mangleFnName G.mod name)) rfl
      have hn : nI (CA.1 ++ [((Instr.callImm (mangleFnName G.mod name) : SInstr), sp)]) = nI CA.1 + 1 := by
        rw [nI_append, nI_instr _ _ _ rfl]; rfl
      rw [hn, evalExpr_call]
      match n, hPE, hPArgs, hPCall, ihn, hPGB with
      | 0, _, _, _, _, _ => rw [evalCall]; trivial
      | 1, _, _, _, _, _ =>
        rw [evalCall_step, evalExpr]; trivial
      | a + 2, hPE, hPArgs, hPCall, _, _ =>
        -- the callee identifier
        have hlk := hrel.scopes.lookup A.T A.σ G.lim A.mp name hnT
        have hρn' : ρS scopes name = none := by simpa using hρn
        rw [hρn'] at hlk
        have hls : lookupScopes name st.scopes = none := by
          cases hl : lookupScopes name st.scopes with
          | none => rfl
          | some v => simp [hl] at hlk
        have hgl : st.globals.lookup (st.module, name) = none := by rw [hsp.globals]; rfl
        have hid := evalExpr_fnIdent G.cfg a isp ity name g f si st G.mod fd hls hgl
          (by rw [hsp.module]; exact hresolve)
        rw [evalCall_step, hid]
        simp only []
        -- the arguments
        have hwa : Frag.wsGArgs scopes A.φ args = true := by
          simp only [Frag.wsGArgs, Bool.and_eq_true]
          exact ⟨hres, by simpa [Frag.callsOK] using hcargs⟩
        have hTa : ∀ x ∈ Frag.namesGArgs args, x ∈ A.T := by
          intro x hx; simp only [Frag.namesGArgs, List.mem_append] at hx
          rcases hx with hx | hx
          · exact hT x (Or.inl hx)
          · exact hT x (Or.inr (Or.inr hx))
        have h1 := hPArgs (a + 1) (by omega) A hA args st ip stk mem lm scopes vm hoa hone hwa hTa (hCA ▸ hplA)
          hrel hsp
        rw [hCA] at h1
        rcases hea : evalList G.cfg (a + 1) (List.map (fun x => x.snd) args) st with ⟨r1, st1⟩
        rw [hea] at h1
        rw [hea]
        cases r1 with
        | error c1 => cases c1 <;> first | trivial | exact h1.elim | exact h1
        | ok vals =>
          obtain ⟨hfr1, mem1, svals, hsv, _, hrun1, hml1⟩ := h1
          simp only []
          have hsp1 := hsp.world st1 hfr1 hrun1.inv
          rw [applyFn_fn _ _ _ _ _ _ _ fd hfind]
          have h2 := hPCall a (by omega) name fd I stmts e' hK hfind hFn hgh sp svals st1
            (⟨A.fn, ip + nI CA.1 + 1⟩ :: A.rest) A.mp stk mem1 hsp1 (by have := hA.lo; omega)
          rw [hsv] at h2
          rcases hcb : callBody G.cfg a sp G.mod fd.params fd.body vals st1 with ⟨r2, st2⟩
          rw [hcb] at h2
          cases r2 with
          | error c2 =>
            cases c2 <;> first | trivial | exact h2.elim | skip
            · -- the callee ends in an exception
              obtain ⟨hfr2, mem2, hct, hml2⟩ := h2
              exact ⟨frame_trans hfr1 hfr2, mem2, RunsT.of_call hA hrun1 icall hct, hml1.trans hml2⟩
            · intro hk
              exact hrun1.fatal (RunsF.call hA icall (h2 hk))
          | ok v =>
            obtain ⟨hfr2, mem2, o2, ho2, hrc, hml2⟩ := h2
            refine ⟨by rw [hfr2, hfr1], mem2, o2, ho2, (hrun1.trans (Runs.call hA icall hrc)).cast (by omega),
              hml1.trans hml2⟩
    case index sp ty b i =>
      simp only [Bool.and_eq_true] at hok
      obtain ⟨⟨⟨hfr, hb⟩, hi⟩, _⟩ := hok
      simp only [Frag.varsGE, Frag.callsGE, resolved_append, callsOK_append] at hres hcalls
      simp only [Frag.namesGE, Frag.varsGE, Frag.callsGE, List.mem_append] at hT
      have hwb : Frag.wsGE scopes A.φ b = true := by simp [Frag.wsGE, hres.1, hcalls.1]
      have hwi : Frag.wsGE scopes A.φ i = true := by simp [Frag.wsGE, hres.2, hcalls.2]
      have hTb : ∀ x ∈ Frag.namesGE b, x ∈ A.T := by
        intro x hx; simp only [Frag.namesGE, List.mem_append] at hx
        rcases hx with hx | hx
        · exact hT x (Or.inl (Or.inl hx))
        · exact hT x (Or.inr (Or.inl hx))
      have hTi : ∀ x ∈ Frag.namesGE i, x ∈ A.T := by
        intro x hx; simp only [Frag.namesGE, List.mem_append] at hx
        rcases hx with hx | hx
        · exact hT x (Or.inl (Or.inr hx))
        · exact hT x (Or.inr (Or.inr hx))
      have hpl' := hpl
      simp only [cgE] at hpl'
      obtain ⟨h12, _⟩ := hpl'.append
      obtain ⟨hpB, hpI⟩ := h12.append
      exact SimGE.of_simOE hfr (index_step G A hA n sp ty b i st ip stk mem lm scopes vm hpl hrel hsp
        (SimOE.of_simGE (ihn A hA b st ip stk mem lm scopes vm hb hwb hTb hpB hrel hsp))
        (fun st1 mem1 bv ob hrel1 hsp1 => SimOE.of_simGE
          (ihn A hA i st1 _ (⟨bv, ob⟩ :: stk) mem1 _ scopes vm hi hwi hTi hpI hrel1 hsp1)))
    case member sp ty b name mop =>
      cases mop <;> try (simp [Frag.okE] at hok; done)
      simp only [Frag.okE, Bool.and_eq_true] at hok
      obtain ⟨hfr, hb⟩ := hok
      simp only [Frag.varsGE, Frag.callsGE] at hres hcalls
      have hwb : Frag.wsGE scopes A.φ b = true := by simp [Frag.wsGE, hres, hcalls]
      have hTb : ∀ x ∈ Frag.namesGE b, x ∈ A.T := by
        intro x hx; exact hT x (by simpa [Frag.namesGE, Frag.varsGE, Frag.callsGE] using hx)
      have hpB : Placed A.lab A.σ A.c ip (cgE G.mod (ρS scopes) A.φ b lm).1 := by
        simp only [cgE] at hpl; exact hpl.append.1
      exact SimGE.of_simOE hfr (member_step G A hA n sp ty b name st ip stk mem lm scopes hpl
        (SimOE.of_simGE (ihn A hA b st ip stk mem lm scopes vm hb hwb hTb hpB hrel hsp)))
    case list sp ty xs =>
      simp only [Frag.varsGE] at hres
      simp only [Frag.namesGE, Frag.varsGE, Frag.callsGE, List.append_nil] at hT
      simp only [cgE] at hpl ⊢
      obtain ⟨hplP, hplE⟩ := hpl.append
      obtain ⟨ipush, _⟩ := hplP.instr (i := .cloningPush .emptyList) rfl
      have hn1 : nI [((Instr.cloningPush .emptyList : SInstr), sp)] = 1 := rfl
      simp only [nI_append, hn1] at hplE ⊢
      obtain ⟨hlm, vals, hev, hrun⟩ := listElems_run G A hA st mem scopes vm sp hrel xs (ip + 1) stk lm hok hres hT hplE
      rw [evalExpr_list]
      rcases hev st rfl n with h | h
      · rw [h]; trivial
      · rw [h]
        simp only []
        have hpush := Runs.of_exec1W (fr := G.fr) (mem := mem) (fun it_ k => mkS_cloningPush_emptyList G.code G.lim
          (withIt G.s it_) A.fn ip A.rest A.mp k stk mem.cells st.world A.c hA.code sp ipush)
          (fun hi => hi.push _ (fun fs h => by cases h))
        have hels := hrun st.heap st.out []
        rw [List.nil_append] at hels
        exact ⟨rfl, mem, none, OrgOK.none _, (hpush.trans hels).cast (by omega), MemLe.refl _ _ _⟩
    case obj sp ty fs =>
      simp only [Bool.and_eq_true, decide_eq_true_eq] at hok
      obtain ⟨⟨hat, hnd⟩, hnames⟩ := hok
      simp only [Frag.varsGE] at hres
      simp only [Frag.namesGE, Frag.varsGE, Frag.callsGE, List.append_nil] at hT
      simp only [cgE] at hpl ⊢
      obtain ⟨hplP, hplE⟩ := hpl.append
      obtain ⟨ipush, _⟩ := hplP.instr (i := .cloningPush (.obj (fs.map fun f => (f.1, PVal.null)))) rfl
      have hn1 : nI [((Instr.cloningPush (.obj (fs.map fun f => (f.1, PVal.null))) : SInstr), sp)] = 1 := rfl
      simp only [nI_append, hn1] at hplE ⊢
      obtain ⟨hlm, vals, hkeys, hev, hrun⟩ := objFields_run G A hA st mem scopes vm sp hrel fs (ip + 1) stk lm hat hres hT hplE
      rw [evalExpr_obj]
      rcases hev st rfl n with h | h
      · rw [h]; trivial
      · rw [h]
        simp only []
        have hmm : (fs.map fun f => (f.1, PVal.null)) = (fs.map (·.1)).map fun k => (k, PVal.null) := by
          rw [List.map_map]; rfl
        have hmv : ((fs.map (·.1)).map fun k => (k, Val.null)) = fs.map fun f => (f.1, Val.null) := by
          rw [List.map_map]; rfl
        have hpush := Runs.of_exec1W (fr := G.fr) (mem := mem) (fun it_ k => mkS_cloningPush_obj G.code G.lim
          (withIt G.s it_) A.fn ip A.rest A.mp k stk mem.cells st.world A.c hA.code sp (fs.map (·.1)) (hmm ▸ ipush))
          (fun hi => hi.push _ (fun fs' h => by
            cases h
            rw [hmv]
            simp only [List.all_eq_true, Bool.not_eq_true', List.contains_eq_mem, decide_eq_false_iff_not] at hnames
            exact fun k hk => lookup_nulls fs k (fun f hf e => hnames f hf (e ▸ hk))))
        rw [hmv] at hpush
        have hels := hrun st.heap st.out [] hnd (fun _ _ h => by simp at h)
        rw [List.nil_append, List.nil_append] at hels
        exact ⟨rfl, mem, none, OrgOK.none _, (hpush.trans hels).cast (by omega), MemLe.refl _ _ _⟩
    case matchE sp ty c arms dflt =>
      cases dflt with
      | none => simp [Frag.okE] at hok
      | some d =>
      simp only [Frag.okE, Bool.and_eq_true] at hok
      obtain ⟨⟨hc, harms⟩, hd⟩ := hok
      simp only [Frag.varsGE, Frag.callsGE] at hres hcalls
      rw [resolved_append, resolved_append] at hres
      rw [callsOK_append, callsOK_append] at hcalls
      obtain ⟨hvc, hva, hvd⟩ := hres
      obtain ⟨hcc, hca, hcd⟩ := hcalls
      simp only [Frag.namesGE, Frag.varsGE, Frag.callsGE, List.mem_append] at hT
      have hTc : ∀ x ∈ Frag.namesGE c, x ∈ A.T := by
        intro x hx; simp only [Frag.namesGE, List.mem_append] at hx
        rcases hx with hx | hx
        · exact hT x (Or.inl (Or.inl hx))
        · exact hT x (Or.inr (Or.inl hx))
      have hTd : ∀ x ∈ Frag.namesGE d, x ∈ A.T := by
        intro x hx; simp only [Frag.namesGE, List.mem_append] at hx
        rcases hx with hx | hx
        · exact hT x (Or.inl (Or.inr (Or.inr hx)))
        · exact hT x (Or.inr (Or.inr (Or.inr hx)))
      have hTa : ∀ a ∈ arms, ∀ x ∈ Frag.namesGE a.2, x ∈ A.T := by
        intro a ha x hx
        rcases namesGArms_mem arms a ha x hx with h | h
        · exact hT x (Or.inl (Or.inr (Or.inl h)))
        · exact hT x (Or.inr (Or.inr (Or.inl h)))
      simp only [cgE] at hpl ⊢
      generalize hCC : cgE G.mod (ρS scopes) A.φ c lm = CC at hpl ⊢
      generalize hAf : freshLabel G.mod CC.2 "match_after" = aft at hpl ⊢
      generalize hTs : armTests G.mod sp arms aft.2 = ts at hpl ⊢
      generalize hDf : freshLabel G.mod ts.2.2 "match_default" = dfl at hpl ⊢
      generalize hBs : cgArms G.mod (ρS scopes) A.φ sp aft.1 arms ts.2.1 dfl.2 = bs at hpl ⊢
      generalize hCD : cgE G.mod (ρS scopes) A.φ d bs.2 = CD at hpl ⊢
      obtain ⟨h6, hplE⟩ := hpl.append
      obtain ⟨h5, hplD⟩ := h6.append
      obtain ⟨h4, hplL⟩ := h5.append
      obtain ⟨h3, hplB⟩ := h4.append
      obtain ⟨h2, hplJ⟩ := h3.append
      obtain ⟨hplC, hplT⟩ := h2.append
      obtain ⟨ijd, _⟩ := hplJ.instr (i := .jump dfl.1) rfl
      obtain ⟨edfl, hL2⟩ := hplL.label
      obtain ⟨idrop, _⟩ := hL2.instr (i := .drop) rfl
      obtain ⟨ija, hE2⟩ := hplE.instr (i := .jump aft.1) rfl
      obtain ⟨eaft, _⟩ := hE2.label
      have hnJ : nI [((Instr.jump dfl.1 : SInstr), sp)] = 1 := rfl
      have hnL : nI [((Instr.label dfl.1 : SInstr), sp), (.drop, sp)] = 1 := rfl
      have hnE : nI [((Instr.jump aft.1 : SInstr), sp), (.label aft.1, sp)] = 1 := rfl
      simp only [nI_append, hnJ, hnL, hnE] at hplT ijd hplB edfl idrop hplD ija eaft ⊢
      simp only [← Nat.add_assoc] at hplT ijd hplB edfl idrop hplD ija eaft ⊢
      have hlit : ∀ a ∈ arms, ∀ l ∈ a.1, Frag.litE l = true := fun a ha => (okGArms_mem G.fr arms harms a ha).1
      -- the control value
      have h1 := ihn A hA c st ip stk mem lm scopes vm hc
        (by simp only [Frag.wsGE, Bool.and_eq_true]; exact ⟨hvc, hcc⟩) hTc (hCC ▸ hplC) hrel hsp
      rw [hCC] at h1
      rw [evalExpr_matchE]
      rcases hec : evalExpr G.cfg n c st with ⟨r1, st1⟩
      rw [hec] at h1
      cases r1 with
      | error c1 => exact h1.error_n _
      | ok cv =>
        obtain ⟨hfr1, mem1, ov1, hov1, hrun1, hml1⟩ := h1
        simp only []
        have hsp1 := hsp.world st1 hfr1 hrun1.inv
        have hrel1 : StRel G.mod A.T A.N A.σ G.lim A.mp scopes vm st1.scopes mem1 := by
          rw [hfr1]; exact hrel.memLe hml1.cells
        have htest := armTests_run G A hA sp ⟨cv, ov1⟩ stk mem1 st1.world arms aft.2 (ip + nI CC.1) hlit
          (hTs ▸ hplT)
        rw [hTs] at htest
        have hlen : arms.length = ts.2.1.length := by rw [← hTs, armTests_length]
        rcases evalArms_spec G.cfg arms n cv d st1 hlit with h | ⟨msg, h⟩ | ⟨i, a, f', hi, hh, hf, h⟩ | ⟨hh, f', hf, h⟩
        · rw [h]; trivial
        · rw [h]; trivial
        · -- arm `i` is taken
          rw [h]
          have hh' : armsHit st1.world.heap cv arms = some (some i) := hh
          rw [hh'] at htest
          obtain ⟨nm, hnm, hrunT⟩ := htest
          have ha : a ∈ arms := List.mem_of_getElem? hi
          obtain ⟨lmi, idr, hplA, ijmp⟩ := cgArms_at A G.mod (ρS scopes) A.φ sp aft.1 arms ts.2.1 dfl.2 _ hlen
            (hBs ▸ hplB) i a nm hi hnm
          have hdrop := Runs.of_runsTo (fr := G.fr) (fun it_ => RunsTo.of_exec1 (fun k => reach_drop G.code G.lim
            (baseOf (withIt G.s it_) A.fn A.rest A.mp st1.world) (A.lab nm) k stk mem1 ⟨A.fn, 0⟩ A.rest A.c rfl hA.code sp ⟨cv, ov1⟩
            idr))
          have hpre : Runs G.fr G.code G.lim G.s A.fn A.rest A.mp ip stk mem st.world (A.lab nm + 1) stk mem1 st1.world :=
            (hrun1.trans hrunT).trans hdrop
          have h2 := hPE f' (by omega) A hA a.2 st1 (A.lab nm + 1) stk mem1 lmi scopes vm
            (okGArms_mem G.fr arms harms a ha).2 (wsGArms_mem scopes A.φ arms hva hca a ha) (hTa a ha) hplA hrel1 hsp1
          rcases hea : evalExpr G.cfg f' a.2 st1 with ⟨r2, st2⟩
          rw [hea] at h2
          cases r2 with
          | error c2 => exact SimGE.error_after _ [] hpre hfr1 hml1 h2
          | ok v =>
            obtain ⟨hfr2, mem2, ov2, hov2, hrun2, hml2⟩ := h2
            have hj := Runs.of_runsTo (fr := G.fr) (fun it_ => RunsTo.of_exec1 (fun k => reach_jump G.code G.lim
              (baseOf (withIt G.s it_) A.fn A.rest A.mp st2.world) _ k (⟨v, ov2⟩ :: stk) mem2 ⟨A.fn, 0⟩ A.rest A.c rfl hA.code
              (A.lab aft.1) sp ijmp))
            exact ⟨frame_trans hfr1 hfr2, mem2, ov2, hov2, ((hpre.trans hrun2).trans hj).cast (by rw [eaft]; omega),
              hml1.trans hml2⟩
        · -- the default
          rw [h]
          have hh' : armsHit st1.world.heap cv arms = some none := hh
          rw [hh'] at htest
          have hjd := Runs.of_runsTo (fr := G.fr) (fun it_ => RunsTo.of_exec1 (fun k => reach_jump G.code G.lim
            (baseOf (withIt G.s it_) A.fn A.rest A.mp st1.world) _ k (⟨cv, ov1⟩ :: stk) mem1 ⟨A.fn, 0⟩ A.rest A.c rfl hA.code
            (A.lab dfl.1) sp ijd))
          have hdrop := Runs.of_runsTo (fr := G.fr) (fun it_ => RunsTo.of_exec1 (fun k => reach_drop G.code G.lim
            (baseOf (withIt G.s it_) A.fn A.rest A.mp st1.world) (A.lab dfl.1) k stk mem1 ⟨A.fn, 0⟩ A.rest A.c rfl hA.code sp
            ⟨cv, ov1⟩ (by rw [edfl]; exact idrop)))
          have hpre : Runs G.fr G.code G.lim G.s A.fn A.rest A.mp ip stk mem st.world
              (ip + nI CC.1 + nI ts.1 + 1 + nI bs.1 + 1) stk mem1 st1.world :=
            (((hrun1.trans htest).trans hjd).trans hdrop).cast (by rw [edfl])
          have h2 := hPE f' (by omega) A hA d st1 (ip + nI CC.1 + nI ts.1 + 1 + nI bs.1 + 1) stk mem1 bs.2 scopes vm hd
            (by simp only [Frag.wsGE, Bool.and_eq_true]; exact ⟨hvd, hcd⟩) hTd (hCD ▸ hplD) hrel1 hsp1
          rw [hCD] at h2
          rcases hed : evalExpr G.cfg f' d st1 with ⟨r2, st2⟩
          rw [hed] at h2
          cases r2 with
          | error c2 => exact SimGE.error_after _ [] hpre hfr1 hml1 h2
          | ok v =>
            obtain ⟨hfr2, mem2, ov2, hov2, hrun2, hml2⟩ := h2
            have hj := Runs.of_runsTo (fr := G.fr) (fun it_ => RunsTo.of_exec1 (fun k => reach_jump G.code G.lim
              (baseOf (withIt G.s it_) A.fn A.rest A.mp st2.world) _ k (⟨v, ov2⟩ :: stk) mem2 ⟨A.fn, 0⟩ A.rest A.c rfl hA.code
              (A.lab aft.1) sp ija))
            exact ⟨frame_trans hfr1 hfr2, mem2, ov2, hov2, ((hpre.trans hrun2).trans hj).cast (by rw [eaft]; omega),
              hml1.trans hml2⟩

end HmsProofs.Sim
