import HmsProofs.Lemmas.SimSlots
/-!
# The general fragment: calls, `return`, `loop`/`break`/`continue`, `println`

Expressions `Frag.okGE`: the pure fragment plus calls of top-level functions (arguments: all
atoms except at most one) inside arithmetic, prefix operators, parentheses and `if`/`else`.
Statements `Frag.okGS il rt` (`il`: inside a loop, `rt`: `return` allowed): `let`, assignment, `if`,
`while`, `loop`, `break`, `continue`, `return e`, call statements, `println(…)`, `throw(a)` and
`try { … } catch e { … }`. The emitted code is given by the pure functions
`cgE`, `cgS`, `cgFn`.
-/
namespace HmsProofs.Sim
open Hms.Core Hms.Core.Comp

/-- The builtin methods the fragment calls through a value (`Member m; …; Call_Val`); no object of the
fragment has a data field of such a name. -/
def methNames : List String := ["len", "push", "is_some", "is_none", "unwrap", "unwrap_or"]
/-- The methods without arguments that may stand in expressions: they only read, never yield `null`. -/
def meth0 : List String := ["len", "is_some", "is_none"]

namespace Frag

/-- Literals and local variables: evaluation cannot fail and has no effect. -/
def atomE : Expr → Bool
  | .int .. | .bool .. | .str .. | .null .. | .none .. => true
  | .ident _ _ _ isGlobal isFn isSingleton => !isGlobal && !isFn && !isSingleton
  | .grouped _ e => atomE e
  | _ => false

/-- At most one argument is not an atom (the VM evaluates arguments right to left, the
specification left to right: finding V13). -/
def oneNonAtom (args : List (String × Expr)) : Bool :=
  decide ((args.filter fun a => !atomE a.2).length ≤ 1)

/-- The target types of the casts of the fragment: the scalar kinds (`castVal` converts or raises the cast
exception, and allocates nothing). -/
def castTyOK : Ty → Bool
  | .int | .float | .bool | .str | .null | .range | .any => true
  | _ => false

/-- Literals a `match` arm may test against. -/
def litE : Expr → Bool
  | .int .. | .bool .. | .str .. => true
  | _ => false

mutual
def okGE : Expr → Bool
  | .int .. | .bool .. | .str .. | .null .. | .none .. => true
  | .ident _ _ _ isGlobal isFn isSingleton => !isGlobal && !isFn && !isSingleton
  | .grouped _ e => okGE e
  | .pre _ _ _ e => okGE e
  | .infix sp ty op l r => pureE (.infix sp ty op l r) || (!isLogical op && okGE l && okGE r)
  | .ifE _ _ c t (some eb) => okGE c && okGB t && okGB eb
  | .call _ _ (.ident _ _ name _ _ _) args false =>
    name != "throw" && name != "println" && okGArgs args && oneNonAtom args
  | .matchE _ _ c arms (some d) => okGE c && okGArms arms && okGE d
  | .list _ _ xs => xs.all atomE
  | .obj _ _ fs => fs.all (fun f => atomE f.2) && decide ((fs.map (·.1)).Nodup) &&
      fs.all (fun f => !methNames.contains f.1)
  | _ => false
/-- The arms of a `match`: literal patterns, bodies in the fragment. -/
def okGArms : List (List Expr × Expr) → Bool
  | [] => true
  | a :: as => a.1.all litE && okGE a.2 && okGArms as
def okGB : Block → Bool
  | .mk _ _ [] (some e) => okGE e
  | _ => false
def okGArgs : List (String × Expr) → Bool
  | [] => true
  | a :: as => okGE a.2 && okGArgs as
end

/-- A cell read: `l[i]`, possibly in parentheses (its value on the VM's stack carries the cell's origin). -/
def isRead : Expr → Bool
  | .index .. => true
  | .member .. => true
  | .grouped _ e => isRead e
  | _ => false

mutual
def depthGE : Expr → Nat
  | .grouped _ e => depthGE e + 1
  | .pre _ _ _ e => depthGE e + 1
  | .cast _ _ e => depthGE e + 1
  | .infix _ _ _ l r => max (depthGE l) (depthGE r) + 1
  | .ifE _ _ c t (some e) => max (depthGE c) (max (depthGB t) (depthGB e)) + 1
  | .call _ _ (.member _ _ b _ _) args _ => max (depthGE b) (depthGArgs args) + 2
  | .call _ _ _ args _ => depthGArgs args + 1
  | .matchE _ _ c arms (some d) => max (depthGE c) (max (depthGArms arms) (depthGE d)) + 1
  | .index _ _ b i => max (depthGE b) (depthGE i) + 1
  | .member _ _ b _ _ => depthGE b + 1
  | _ => 1
def depthGArms : List (List Expr × Expr) → Nat
  | [] => 1
  | a :: as => max (depthGE a.2) (depthGArms as) + 1
def depthGB : Block → Nat
  | .mk _ _ _ (some e) => depthGE e + 1
  | _ => 1
def depthGArgs : List (String × Expr) → Nat
  | [] => 1
  | a :: as => max (depthGE a.2) (depthGArgs as) + 1
end

mutual
def varsGE : Expr → List String
  | .grouped _ e => varsGE e
  | .ident _ _ name _ _ _ => [name]
  | .pre _ _ _ e => varsGE e
  | .cast _ _ e => varsGE e
  | .infix _ _ _ l r => varsGE l ++ varsGE r
  | .ifE _ _ c t (some e) => varsGE c ++ (varsGB t ++ varsGB e)
  | .call _ _ (.member _ _ b _ _) args _ => varsGE b ++ varsGArgs args
  | .call _ _ _ args _ => varsGArgs args
  | .matchE _ _ c arms (some d) => varsGE c ++ (varsGArms arms ++ varsGE d)
  | .index _ _ b i => varsGE b ++ varsGE i
  | .list _ _ xs => xs.flatMap varsE
  | .obj _ _ fs => fs.flatMap (fun f => varsE f.2)
  | .member _ _ b _ _ => varsGE b
  | _ => []
def varsGArms : List (List Expr × Expr) → List String
  | [] => []
  | a :: as => varsGE a.2 ++ varsGArms as
def varsGB : Block → List String
  | .mk _ _ _ (some e) => varsGE e
  | _ => []
def varsGArgs : List (String × Expr) → List String
  | [] => []
  | a :: as => varsGE a.2 ++ varsGArgs as
end

mutual
/-- The functions called. -/
def callsGE : Expr → List String
  | .grouped _ e => callsGE e
  | .pre _ _ _ e => callsGE e
  | .cast _ _ e => callsGE e
  | .infix _ _ _ l r => callsGE l ++ callsGE r
  | .ifE _ _ c t (some e) => callsGE c ++ (callsGB t ++ callsGB e)
  | .call _ _ (.ident _ _ name _ _ _) args _ => name :: callsGArgs args
  | .call _ _ (.member _ _ b _ _) args _ => callsGE b ++ callsGArgs args
  | .matchE _ _ c arms (some d) => callsGE c ++ (callsGArms arms ++ callsGE d)
  | .index _ _ b i => callsGE b ++ callsGE i
  | .member _ _ b _ _ => callsGE b
  | _ => []
def callsGArms : List (List Expr × Expr) → List String
  | [] => []
  | a :: as => callsGE a.2 ++ callsGArms as
def callsGB : Block → List String
  | .mk _ _ _ (some e) => callsGE e
  | _ => []
def callsGArgs : List (String × Expr) → List String
  | [] => []
  | a :: as => callsGE a.2 ++ callsGArgs as
end

/-- **Expressions in the value positions of statements** (`let`, assignments): the expression fragment
closed under element reads `l[i]` and arithmetic over them. Finding V38 (a read leaves a pointer to
the cell on the VM's stack) is excluded: next to a cell read, the later operand calls no function. -/
def okXE : Expr → Bool
  | .index _ _ b i => okXE b && okXE i && (!isRead b || (callsGE i).isEmpty)
  | .member _ _ b _ .dot => okXE b
  | .infix sp ty op l r =>
    pureE (.infix sp ty op l r) || (!isLogical op && okXE l && okXE r && (!isRead l || (callsGE r).isEmpty))
  | .pre _ _ _ e => okXE e
  | .grouped _ e => okXE e
  | e => okGE e

mutual
/-- **The expression fragment with its extension** (`fr = true`: cell reads `l[i]`, `o.f` and `l.len()`
anywhere an expression may stand; `fr = false`: `okGE`). Finding V38 stays excluded as in `okXE`. -/
def okE (fr : Bool) : Expr → Bool
  | .int .. | .bool .. | .str .. | .null .. | .none .. => true
  | .ident _ _ _ isGlobal isFn isSingleton => !isGlobal && !isFn && !isSingleton
  | .grouped _ e => okE fr e
  | .pre _ _ _ e => okE fr e
  | .cast _ ty e => fr && castTyOK ty && okE fr e
  | .infix sp ty op l r =>
    pureE (.infix sp ty op l r) ||
      (!isLogical op && okE fr l && okE fr r && (!isRead l || (callsGE r).isEmpty))
  | .ifE _ _ c t (some eb) => okE fr c && okEB fr t && okEB fr eb
  | .call _ _ (.ident _ _ name _ _ _) args false =>
    name != "throw" && name != "println" && okEArgs fr args && oneNonAtom args
  | .call _ _ (.member _ _ b nm .dot) [] false => fr && meth0.contains nm && okE fr b
  | .matchE _ _ c arms (some d) => okE fr c && okEArms fr arms && okE fr d
  | .list _ _ xs => xs.all atomE
  | .obj _ _ fs => fs.all (fun f => atomE f.2) && decide ((fs.map (·.1)).Nodup) &&
      fs.all (fun f => !methNames.contains f.1)
  | .index _ _ b i => fr && okE fr b && okE fr i && (!isRead b || (callsGE i).isEmpty)
  | .member _ _ b _ .dot => fr && okE fr b
  | _ => false
def okEArms (fr : Bool) : List (List Expr × Expr) → Bool
  | [] => true
  | a :: as => a.1.all litE && okE fr a.2 && okEArms fr as
def okEB (fr : Bool) : Block → Bool
  | .mk _ _ [] (some e) => okE fr e
  | _ => false
def okEArgs (fr : Bool) : List (String × Expr) → Bool
  | [] => true
  | a :: as => okE fr a.2 && okEArgs fr as
end

/-- A value position (`let`, right-hand sides, operands of a heap-slot assignment): `okXE` in every
context, the whole extended fragment when `fr`. -/
def okV (fr : Bool) (e : Expr) : Bool := okXE e || okE fr e

end Frag

/-- The push of a literal. -/
def litCode : Expr → SCode
  | .int sp v => [(.copyPush (.int v), sp)]
  | .bool sp b => [(.copyPush (.bool b), sp)]
  | .str sp s => [(.copyPush (.str s), sp)]
  | _ => []

/-- The tests of one `match` arm: the control value stays on the stack; a hit jumps to `name`. -/
def litTests (sp : Span) (name : String) : List Expr → SCode
  | [] => []
  | l :: ls => litCode l ++ [(.eqPopOnce, sp), (.not, sp), (.jumpIfFalse name, sp)] ++ litTests sp name ls

/-- The comparison cascade of a `match`: code, the case labels in arm order, label counters. -/
def armTests (mod : String) (sp : Span) : List (List Expr × Expr) → LM → SCode × List String × LM
  | [], lm => ([], [], lm)
  | a :: rest, lm =>
    (litTests sp (freshLabel mod lm "case").1 a.1 ++ (armTests mod sp rest (freshLabel mod lm "case").2).1,
     (freshLabel mod lm "case").1 :: (armTests mod sp rest (freshLabel mod lm "case").2).2.1,
     (armTests mod sp rest (freshLabel mod lm "case").2).2.2)

/-- The elements of a list literal (pure expressions): each is appended to the list under construction. -/
def cgEls (mod : String) (ρ : String → Option String) (sp : Span) : List Expr → LM → SCode × LM
  | [], lm => ([], lm)
  | x :: xs, lm =>
    ((cpE mod ρ x lm).1 ++ [(.copyPush (.int 2), sp), (.hostCall "__internal_list_push", sp)] ++
      (cgEls mod ρ sp xs (cpE mod ρ x lm).2).1,
     (cgEls mod ρ sp xs (cpE mod ρ x lm).2).2)

/-- The fields of an object literal (pure initializers): each is assigned through its member of the
object under construction. -/
def cgFields (mod : String) (ρ : String → Option String) (sp : Span) : List (String × Expr) → LM → SCode × LM
  | [], lm => ([], lm)
  | f :: fs, lm =>
    ([(.dup, sp), (.member f.1, sp)] ++ (cpE mod ρ f.2 lm).1 ++ [(.assign, sp)] ++
      (cgFields mod ρ sp fs (cpE mod ρ f.2 lm).2).1,
     (cgFields mod ρ sp fs (cpE mod ρ f.2 lm).2).2)

mutual
/-- **The code of an expression of the general fragment** (`ρ`: variables, `φ`: functions). -/
def cgE (mod : String) (ρ φ : String → Option String) : Expr → LM → SCode × LM
  | .int sp v, lm => ([(.copyPush (.int v), sp)], lm)
  | .bool sp b, lm => ([(.copyPush (.bool b), sp)], lm)
  | .str sp s, lm => ([(.copyPush (.str s), sp)], lm)
  | .null sp, lm => ([(.copyPush .null, sp)], lm)
  | .none sp, lm => ([(.copyPush .noneOpt, sp)], lm)
  | .grouped _ e, lm => cgE mod ρ φ e lm
  | .ident sp _ name _ _ _, lm =>
    (match ρ name with
      | some m => [(.getVar m, sp)]
      | none => [], lm)
  | .pre sp _ op e, lm => ((cgE mod ρ φ e lm).1 ++ [(preI op, sp)], (cgE mod ρ φ e lm).2)
  | .cast sp ty e, lm => ((cgE mod ρ φ e lm).1 ++ [(.cast ty true, sp)], (cgE mod ρ φ e lm).2)
  | .infix sp _ .or l r, lm =>
    let rt := freshLabel mod lm "return_true"
    let af := freshLabel mod rt.2 "after_infix"
    let cl := cgE mod ρ φ l af.2
    let cr := cgE mod ρ φ r cl.2
    (cl.1 ++ [(.not, sp), (.jumpIfFalse rt.1, sp)] ++ cr.1 ++
      [(.jump af.1, sp), (.label rt.1, sp), (.copyPush (.bool true), sp), (.label af.1, sp)], cr.2)
  | .infix sp _ .and l r, lm =>
    let rf := freshLabel mod lm "return_false"
    let af := freshLabel mod rf.2 "after_infix"
    let cl := cgE mod ρ φ l af.2
    let cr := cgE mod ρ φ r cl.2
    (cl.1 ++ [(.jumpIfFalse rf.1, sp)] ++ cr.1 ++
      [(.jump af.1, sp), (.label rf.1, sp), (.copyPush (.bool false), sp), (.label af.1, sp)], cr.2)
  | .infix sp _ op l r, lm =>
    let cl := cgE mod ρ φ l lm
    let cr := cgE mod ρ φ r cl.2
    (cl.1 ++ cr.1 ++ (arithI op).map (·, sp), cr.2)
  | .ifE sp _ c t (some eb), lm =>
    let cc := cgE mod ρ φ c lm
    let after := freshLabel mod cc.2 "if_after"
    let els := freshLabel mod after.2 "else"
    let ct := cgB mod ρ φ t els.2
    let ce := cgB mod ρ φ eb ct.2
    (cc.1 ++ [(.jumpIfFalse els.1, sp)] ++ ct.1 ++ [(.jump after.1, sp), (.label els.1, sp)] ++ ce.1 ++
      [(.label after.1, sp)], ce.2)
  | .call sp _ (.ident _ _ name _ _ _) args _, lm =>
    ((cgArgs mod ρ φ args lm).1 ++ [(.callImm ((φ name).getD name), sp)], (cgArgs mod ρ φ args lm).2)
  | .matchE sp _ c arms (some d), lm =>
    let cc := cgE mod ρ φ c lm
    let after := freshLabel mod cc.2 "match_after"
    let ts := armTests mod sp arms after.2
    let dfl := freshLabel mod ts.2.2 "match_default"
    let bs := cgArms mod ρ φ sp after.1 arms ts.2.1 dfl.2
    let cd := cgE mod ρ φ d bs.2
    (cc.1 ++ ts.1 ++ [(.jump dfl.1, sp)] ++ bs.1 ++ [(.label dfl.1, sp), (.drop, sp)] ++ cd.1 ++
      [(.jump after.1, sp), (.label after.1, sp)], cd.2)
  | .list sp _ xs, lm =>
    ([(.cloningPush .emptyList, sp)] ++ (cgEls mod ρ sp xs lm).1, (cgEls mod ρ sp xs lm).2)
  | .index sp _ b i, lm =>
    let cb := cgE mod ρ φ b lm
    let ci := cgE mod ρ φ i cb.2
    (cb.1 ++ ci.1 ++ [(.index, sp)], ci.2)
  | .obj sp _ fs, lm =>
    ([(.cloningPush (.obj (fs.map fun f => (f.1, .null))), sp)] ++ (cgFields mod ρ sp fs lm).1, (cgFields mod ρ sp fs lm).2)
  | .member sp _ b name .dot, lm =>
    ((cgE mod ρ φ b lm).1 ++ [(.member name, sp)], (cgE mod ρ φ b lm).2)
  | .call csp _ (.member msp _ b nm .dot) [] false, lm =>
    ((cgE mod ρ φ b lm).1 ++ [(.member nm, msp), (.copyPush (.int 0), csp), (.callVal, csp)], (cgE mod ρ φ b lm).2)
  | _, lm => ([], lm)
/-- The arm bodies of a `match`: `case: Drop; body; Jump after`. -/
def cgArms (mod : String) (ρ φ : String → Option String) (sp : Span) (after : String) :
    List (List Expr × Expr) → List String → LM → SCode × LM
  | a :: rest, nm :: nms, lm =>
    ([(.label nm, sp), (.drop, sp)] ++ (cgE mod ρ φ a.2 lm).1 ++ [(.jump after, sp)] ++
      (cgArms mod ρ φ sp after rest nms (cgE mod ρ φ a.2 lm).2).1,
     (cgArms mod ρ φ sp after rest nms (cgE mod ρ φ a.2 lm).2).2)
  | _, _, lm => ([], lm)
def cgB (mod : String) (ρ φ : String → Option String) : Block → LM → SCode × LM
  | .mk _ _ [] (some e), lm => cgE mod ρ φ e lm
  | _, lm => ([], lm)
/-- The code of the arguments: last argument first. -/
def cgArgs (mod : String) (ρ φ : String → Option String) : List (String × Expr) → LM → SCode × LM
  | [], lm => ([], lm)
  | a :: as, lm =>
    ((cgArgs mod ρ φ as lm).1 ++ (cgE mod ρ φ a.2 (cgArgs mod ρ φ as lm).2).1,
     (cgE mod ρ φ a.2 (cgArgs mod ρ φ as lm).2).2)
end

/-- On pure expressions `cgE` is `cpE`. -/
theorem cgE_pure (mod : String) (ρ φ : String → Option String) : ∀ (n : Nat),
    (∀ (e : Expr) (lm : LM), Frag.depthE e ≤ n → Frag.pureE e = true → cgE mod ρ φ e lm = cpE mod ρ e lm) ∧
    (∀ (b : Block) (lm : LM), Frag.depthB b ≤ n → Frag.pureB b = true → cgB mod ρ φ b lm = cpB mod ρ b lm) := by
  intro n
  induction n with
  | zero =>
    constructor
    · intro e lm hd; have := depthE_pos e; omega
    · intro b lm hd
      obtain ⟨sp, ty, stmts, oe⟩ := b
      cases oe <;> simp [Frag.depthB] at hd
  | succ n ih =>
    obtain ⟨ihE, ihB⟩ := ih
    constructor
    · intro e lm hd hp
      cases e <;> try (simp only [Frag.pureE, Bool.false_eq_true] at hp)
      case int | bool | str | null | none | ident => rfl
      case grouped sp e =>
        rw [cgE, cpE]; exact ihE e lm (by simp only [Frag.depthE] at hd; omega) hp
      case pre sp ty op e =>
        rw [cgE, cpE, ihE e lm (by simp only [Frag.depthE] at hd; omega) hp]
      case «infix» sp ty op l r =>
        simp only [Bool.and_eq_true] at hp
        simp only [Frag.depthE] at hd
        have hl := fun lm => ihE l lm (by omega) hp.1
        have hr := fun lm => ihE r lm (by omega) hp.2
        cases op <;> simp only [cgE, cpE, hl, hr]
      case ifE sp ty c t el =>
        cases el with
        | none => simp [Frag.pureE] at hp
        | some eb =>
          simp only [Frag.pureE, Bool.and_eq_true] at hp
          simp only [Frag.depthE] at hd
          have hc := fun lm => ihE c lm (by omega) hp.1.1
          have ht := fun lm => ihB t lm (by omega) hp.1.2
          have he := fun lm => ihB eb lm (by omega) hp.2
          simp only [cgE, cpE, hc, ht, he]
    · intro b lm hd hp
      obtain ⟨sp, ty, stmts, oe⟩ := b
      cases stmts with
      | cons _ _ => simp [Frag.pureB] at hp
      | nil =>
        cases oe with
        | none => simp [Frag.pureB] at hp
        | some e =>
          simp only [Frag.pureB] at hp
          rw [cgB, cpB]
          exact ihE e lm (by simp only [Frag.depthB] at hd; omega) hp

theorem cgE_of_pure (mod : String) (ρ φ : String → Option String) (e : Expr) (lm : LM)
    (h : Frag.pureE e = true) : cgE mod ρ φ e lm = cpE mod ρ e lm :=
  (cgE_pure mod ρ φ (Frag.depthE e)).1 e lm (Nat.le_refl _) h

/-- Compound assignment to a heap slot: the current value is duplicated first … -/
def opPre (op : Option InfixOp) (sp : Span) : SCode :=
  match op with
  | none => []
  | some _ => [(.dup, sp)]
/-- … and combined with the right-hand side before `Assign`. -/
def opPost (op : Option InfixOp) (sp : Span) : SCode :=
  match op with
  | none => []
  | some o => (arithI o).map (·, sp)
def opOK (op : Option InfixOp) : Bool :=
  match op with
  | none => true
  | some o => !Frag.isLogical o

/-! ## Statements -/

mutual
/-- **The code of a statement of the general fragment.** `fn`: the function being compiled (its
cleanup label is found under `cleanupKey mod fn` in the scopes); `loops`: the (break, continue)
labels of the enclosing loops, innermost first. -/
def cgS (mod fn : String) (φ : String → Option String) :
    List (String × String) → Stmt → CEnv → SCode × CEnv
  | _, .letS sp name _ false _ e, env =>
    let ce := cgE mod (ρS env.scopes) φ e env.lm
    let fv := freshVar mod { env with lm := ce.2 } name
    (ce.1 ++ [(.setVar fv.1, sp)], { fv.2 with nv := fv.2.nv + 1 })
  | _, .exprS _ (.assign asp none (.ident _ _ name false _ false) r), env =>
    let cr := cgE mod (ρS env.scopes) φ r env.lm
    (cr.1 ++ [(.setVar ((ρS env.scopes name).getD name), asp)], { env with lm := cr.2 })
  | _, .exprS _ (.assign asp (some op) (.ident _ _ name false _ false) r), env =>
    let m := (ρS env.scopes name).getD name
    let cr := cgE mod (ρS env.scopes) φ r env.lm
    ([(.getVar m, asp)] ++ cr.1 ++ (arithI op).map (·, asp) ++ [(.setVar m, asp)], { env with lm := cr.2 })
  | _, .exprS _ (.assign asp op (.index isp ity b i) r), env =>
    let cl := cgE mod (ρS env.scopes) φ (.index isp ity b i) env.lm
    let cr := cgE mod (ρS env.scopes) φ r cl.2
    (cl.1 ++ opPre op asp ++ cr.1 ++ opPost op asp ++ [(.assign, asp)], { env with lm := cr.2 })
  | _, .exprS _ (.assign asp op (.member msp mty b name .dot) r), env =>
    let cl := cgE mod (ρS env.scopes) φ (.member msp mty b name .dot) env.lm
    let cr := cgE mod (ρS env.scopes) φ r cl.2
    (cl.1 ++ opPre op asp ++ cr.1 ++ opPost op asp ++ [(.assign, asp)], { env with lm := cr.2 })
  | _, .exprS _ (.call csp _ (.member msp _ b nm .dot) [a] false), env =>
    -- `l.push(x)`: the argument first, then the receiver and its bound method
    let ca := cgE mod (ρS env.scopes) φ a.2 env.lm
    let cb := cgE mod (ρS env.scopes) φ b ca.2
    (ca.1 ++ cb.1 ++ [(.member nm, msp), (.copyPush (.int 1), csp), (.callVal, csp)], { env with lm := cb.2 })
  | loops, .exprS _ (.ifE isp _ c t (some eb)), env =>
    let cc := cgE mod (ρS env.scopes) φ c env.lm
    let after := freshLabel mod cc.2 "if_after"
    let els := freshLabel mod after.2 "else"
    let ct := cgBS mod fn φ loops t { env with lm := els.2 }
    let ce := cgBS mod fn φ loops eb ct.2
    (cc.1 ++ [(.jumpIfFalse els.1, isp)] ++ ct.1 ++ [(.jump after.1, isp), (.label els.1, isp)] ++ ce.1 ++
      [(.label after.1, isp)], ce.2)
  | loops, .exprS _ (.ifE isp _ c t none), env =>
    let cc := cgE mod (ρS env.scopes) φ c env.lm
    let after := freshLabel mod cc.2 "if_after"
    let els := freshLabel mod after.2 "else"
    let ct := cgBS mod fn φ loops t { env with lm := els.2 }
    (cc.1 ++ [(.jumpIfFalse after.1, isp)] ++ ct.1 ++ [(.jump after.1, isp), (.label after.1, isp)], ct.2)
  | loops, .exprS _ (.tryE tsp _ t catchIdent (.mk _ _ cstmts none)), env =>
    let exc := freshLabel mod env.lm "exception_label"
    let after := freshLabel mod exc.2 "after_catch_label"
    let ct := cgBS mod fn φ [] t { env with lm := after.2 }
    let fv := freshVar mod { ct.2 with scopes := [] :: ct.2.scopes } catchIdent
    let cc := cgSs mod fn φ loops cstmts fv.2
    ([(.setTry ((φ fn).getD "") exc.1, tsp)] ++ ct.1 ++
      [(.popTry, tsp), (.jump after.1, tsp), (.label exc.1, tsp), (.setVar fv.1, tsp), (.popTry, tsp)] ++ cc.1 ++
      [(.label after.1, tsp)], { cc.2 with scopes := cc.2.scopes.tail })
  | loops, .exprS _ (.matchE sp _ c arms (some (.blockE db))), env =>
    let cc := cgE mod (ρS env.scopes) φ c env.lm
    let after := freshLabel mod cc.2 "match_after"
    let ts := armTests mod sp arms after.2
    let dfl := freshLabel mod ts.2.2 "match_default"
    let bs := cgArmsS mod fn φ loops sp after.1 arms ts.2.1 { env with lm := dfl.2 }
    let cd := cgBS mod fn φ loops db bs.2
    (cc.1 ++ ts.1 ++ [(.jump dfl.1, sp)] ++ bs.1 ++ [(.label dfl.1, sp), (.drop, sp)] ++ cd.1 ++
      [(.jump after.1, sp), (.label after.1, sp)], cd.2)
  | _, .exprS sp (.call csp cty (.ident isp ity name g f si) args sw), env =>
    if name == "throw" then
      let ca := cgArgs mod (ρS env.scopes) φ args env.lm
      (ca.1 ++ [(.throw, csp)] ++ (if cty.isNull then [] else [(.drop, sp)]), { env with lm := ca.2 })
    else if name == "println" then
      let ca := cgArgs mod (ρS env.scopes) φ args env.lm
      (ca.1 ++ [(.getGlob "println", csp), (.copyPush (.int args.length), csp), (.callVal, csp)],
        { env with lm := ca.2 })
    else
      let ce := cgE mod (ρS env.scopes) φ (.call csp cty (.ident isp ity name g f si) args sw) env.lm
      (ce.1 ++ [(.drop, sp)], { env with lm := ce.2 })
  | loops, .whileS sp c body, env =>
    let head := freshLabel mod env.lm "loop_head"
    let after := freshLabel mod head.2 "loop_end"
    let cc := cgE mod (ρS env.scopes) φ c after.2
    let cb := cgBS mod fn φ ((after.1, head.1) :: loops) body { env with lm := cc.2 }
    ([(.label head.1, sp)] ++ cc.1 ++ [(.jumpIfFalse after.1, sp)] ++ cb.1 ++
      [(.jump head.1, sp), (.label after.1, sp)], cb.2)
  | loops, .loopS sp body, env =>
    let head := freshLabel mod env.lm "loop_head"
    let after := freshLabel mod head.2 "loop_end"
    let cb := cgBS mod fn φ ((after.1, head.1) :: loops) body { env with lm := after.2 }
    ([(.label head.1, sp)] ++ cb.1 ++ [(.jump head.1, sp), (.label after.1, sp)], cb.2)
  | loops, .forS sp name _ (.range rsp a b incl) (.mk _ _ stmts none), env =>
    let head := freshLabel mod env.lm "loop_head"
    let upd := freshLabel mod head.2 "loop_update"
    let after := freshLabel mod upd.2 "loop_end"
    let ca := cgE mod (ρS env.scopes) φ a after.2
    let cb := cgE mod (ρS env.scopes) φ b ca.2
    let fit := freshVar mod { env with scopes := [] :: env.scopes, lm := cb.2 } ("$iter_" ++ name)
    let fhv := freshVar mod fit.2 name
    let cbody := cgSs mod fn φ ((after.1, upd.1) :: loops) stmts fhv.2
    (ca.1 ++ cb.1 ++ [(.intoRange incl, rsp), (.clone, sp), (.intoIter, sp), (.setVar fit.1, sp), (.label head.1, sp),
        (.getVar fit.1, sp), (.iterAdvance, sp), (.setVar fhv.1, sp), (.jumpIfFalse after.1, sp)] ++ cbody.1 ++
      [(.label upd.1, sp), (.jump head.1, sp), (.label after.1, sp)],
     { cbody.2 with scopes := cbody.2.scopes.tail })
  | loops, .brk sp, env =>
    (match loops with
      | (b, _) :: _ => [(.jump b, sp)]
      | [] => [], env)
  | loops, .cont sp, env =>
    (match loops with
      | (_, c) :: _ => [(.jump c, sp)]
      | [] => [], env)
  | _, .ret sp (some e), env =>
    let ce := cgE mod (ρS env.scopes) φ e env.lm
    (ce.1 ++ [(.jump ((ρS env.scopes (cleanupKey mod fn)).getD "?cleanup"), sp)], { env with lm := ce.2 })
  | _, _, env => ([], env)
def cgSs (mod fn : String) (φ : String → Option String) :
    List (String × String) → List Stmt → CEnv → SCode × CEnv
  | _, [], env => ([], env)
  | loops, s :: ss, env =>
    ((cgS mod fn φ loops s env).1 ++ (cgSs mod fn φ loops ss (cgS mod fn φ loops s env).2).1,
     (cgSs mod fn φ loops ss (cgS mod fn φ loops s env).2).2)
/-- The arm bodies of a `match` statement: `case: Drop; block; Jump after`. -/
def cgArmsS (mod fn : String) (φ : String → Option String) (loops : List (String × String)) (sp : Span)
    (after : String) : List (List Expr × Expr) → List String → CEnv → SCode × CEnv
  | (_, .blockE b) :: rest, nm :: nms, env =>
    ([(.label nm, sp), (.drop, sp)] ++ (cgBS mod fn φ loops b env).1 ++ [(.jump after, sp)] ++
      (cgArmsS mod fn φ loops sp after rest nms (cgBS mod fn φ loops b env).2).1,
     (cgArmsS mod fn φ loops sp after rest nms (cgBS mod fn φ loops b env).2).2)
  | _ :: rest, nm :: nms, env =>
    ([(.label nm, sp), (.drop, sp), (.jump after, sp)] ++ (cgArmsS mod fn φ loops sp after rest nms env).1,
     (cgArmsS mod fn φ loops sp after rest nms env).2)
  | _, _, env => ([], env)
/-- A block of statements without a trailing expression, in its own scope. -/
def cgBS (mod fn : String) (φ : String → Option String) :
    List (String × String) → Block → CEnv → SCode × CEnv
  | loops, .mk _ _ stmts none, env =>
    ((cgSs mod fn φ loops stmts { env with scopes := [] :: env.scopes }).1,
     { (cgSs mod fn φ loops stmts { env with scopes := [] :: env.scopes }).2 with
       scopes := (cgSs mod fn φ loops stmts { env with scopes := [] :: env.scopes }).2.scopes.tail })
  | _, _, env => ([], env)
end

/-! ## Functions -/

/-- `compileParams`: every (non-singleton) parameter is declared and popped into its slot. -/
def cgParams (mod : String) (sp : Span) : List Param → CEnv → SCode × CEnv
  | [], env => ([], env)
  | p :: ps, env =>
    if p.isSingleton then cgParams mod sp ps env
    else
      ((.setVar (freshVar mod env p.name).1, sp) :: (cgParams mod sp ps (freshVar mod env p.name).2).1,
       (cgParams mod sp ps (freshVar mod env p.name).2).2)

/-- The environment in which the body is compiled: the cleanup label is generated and remembered
under the pseudo key in the function's top scope. -/
def bodyEnv (mod fn : String) (env : CEnv) : CEnv :=
  { env with
    scopes := match env.scopes with
      | sc :: rest => ((cleanupKey mod fn, (freshLabel mod env.lm "cleanup").1) :: sc) :: rest
      | [] => [],
    lm := (freshLabel mod env.lm "cleanup").2 }

/-- The pieces of a compiled function: parameters, statements, trailing expression. -/
structure FnParts where
  pcode : SCode
  envB : CEnv
  scode : SCode
  envS : CEnv
  ecode : SCode
  envE : CEnv
  cleanup : String

def fnParts (mod : String) (φ : String → Option String) (fd : FnDef) (stmts : List Stmt) (oe : Option Expr)
    (scopes0 : List (List (String × String))) (vm0 : List (String × Nat)) (lm0 : LM) : FnParts :=
  let p := cgParams mod fd.sp fd.params ⟨[] :: scopes0, vm0, lm0, 0⟩
  let envB := bodyEnv mod fd.name p.2
  let sc := cgSs mod fd.name φ [] stmts envB
  let ec := match oe with
    | some e => cgE mod (ρS sc.2.scopes) φ e sc.2.lm
    | none => ([], sc.2.lm)
  { pcode := p.1, envB := envB, scode := sc.1, envS := sc.2, ecode := ec.1,
    envE := { sc.2 with lm := ec.2 }, cleanup := (freshLabel mod p.2.lm "cleanup").1 }

/-- **The symbolic code of a function** with parameters, statements and an optional trailing
expression: `addMp n; setVar p₁ … setVar pₖ; statements; expression; cleanup: addMp (-n); ret`. -/
def cgFn (mod : String) (φ : String → Option String) (fd : FnDef) (stmts : List Stmt) (oe : Option Expr)
    (scopes0 : List (List (String × String))) (vm0 : List (String × Nat)) (lm0 : LM) : SCode :=
  let P := fnParts mod φ fd stmts oe scopes0 vm0 lm0
  [(.addMp (P.envE.nv : Int), fd.sp)] ++ P.pcode ++ P.scode ++ P.ecode ++
    [(.label P.cleanup, fd.sp), (.addMp (-(P.envE.nv : Int)), fd.sp), (.ret, fd.sp)]

namespace Frag

mutual
/-- The statement fragment; `fr`: `for` loops are allowed; `il`: inside a loop (`break`/`continue` are
allowed); `rt`: `return` is allowed. -/
def okFS : Bool → Bool → Bool → Stmt → Bool
  | fr, _, _, .letS _ _ _ needsCast _ e => !needsCast && okV fr e
  | fr, _, _, .exprS _ (.assign _ none (.ident _ _ _ false _ false) r) => okV fr r
  | fr, _, _, .exprS _ (.assign _ (some op) (.ident _ _ _ false _ false) r) => !isLogical op && okV fr r
  | fr, _, _, .exprS _ (.assign _ op (.index isp ity b i) r) =>
    opOK op && okV fr (.index isp ity b i) && okV fr r && (callsGE r).isEmpty
  | fr, _, _, .exprS _ (.assign _ op (.member msp mty b name .dot) r) =>
    opOK op && okV fr (.member msp mty b name .dot) && okV fr r && (callsGE r).isEmpty
  | fr, il, rt, .exprS _ (.ifE _ ty c t (some eb)) => ty.isNull && okE fr c && okFBS fr il rt t && okFBS fr il rt eb
  | fr, il, rt, .exprS _ (.ifE _ ty c t none) => ty.isNull && okE fr c && okFBS fr il rt t
  | fr, il, rt, .exprS _ (.tryE _ ty t _ c) => ty.isNull && okFBS fr false false t && okFBS fr il rt c
  | fr, il, rt, .exprS _ (.matchE _ ty c arms (some (.blockE db))) =>
    ty.isNull && okE fr c && okFArmsS fr il rt arms && okFBS fr il rt db
  | fr, _, _, .exprS _ (.call _ cty (.member _ _ b nm .dot) [a] false) =>
    fr && nm == "push" && cty.isNull && okV fr b && okV fr a.2 && (atomE b || atomE a.2)
  | fr, _, _, .exprS _ (.call csp cty (.ident isp ity name g f si) args sw) =>
    if name == "throw" then
      !sw && decide (args.length = 1) && args.all (fun a => atomE a.2)
    else if name == "println" then
      cty.isNull && !sw && okEArgs fr args && oneNonAtom args && decide (args.length < 2 ^ 64)
    else !cty.isNull && okE fr (.call csp cty (.ident isp ity name g f si) args sw)
  | fr, _, rt, .whileS _ c body => okE fr c && okFBS fr true rt body
  | fr, _, rt, .loopS _ body => okFBS fr true rt body
  | fr, _, rt, .forS _ _ _ (.range _ a b _) (.mk _ _ stmts none) => fr && okE fr a && okE fr b && okFSs fr true rt stmts
  | _, il, _, .brk _ => il
  | _, il, _, .cont _ => il
  | fr, _, rt, .ret _ (some e) => rt && okE fr e
  | _, _, _, _ => false
def okFSs : Bool → Bool → Bool → List Stmt → Bool
  | _, _, _, [] => true
  | fr, il, rt, s :: ss => okFS fr il rt s && okFSs fr il rt ss
def okFBS : Bool → Bool → Bool → Block → Bool
  | fr, il, rt, .mk _ _ stmts none => okFSs fr il rt stmts
  | _, _, _, _ => false
/-- The arms of a `match` statement: literal patterns, statement blocks as bodies. -/
def okFArmsS : Bool → Bool → Bool → List (List Expr × Expr) → Bool
  | _, _, _, [] => true
  | fr, il, rt, (lits, .blockE b) :: rest => lits.all litE && okFBS fr il rt b && okFArmsS fr il rt rest
  | _, _, _, _ => false
end

/-- The statement fragment without `for` loops. -/
abbrev okGS (il rt : Bool) (st : Stmt) : Bool := okFS false il rt st
abbrev okGSs (il rt : Bool) (ss : List Stmt) : Bool := okFSs false il rt ss
abbrev okGBS (il rt : Bool) (b : Block) : Bool := okFBS false il rt b
abbrev okGArmsS (il rt : Bool) (arms : List (List Expr × Expr)) : Bool := okFArmsS false il rt arms


mutual
def depthGS : Stmt → Nat
  | .letS _ _ _ _ _ e => depthGE e + 2
  | .exprS _ (.assign _ _ (.index _ _ b i) r) => max (depthGE b) (max (depthGE i) (depthGE r)) + 3
  | .exprS _ (.assign _ _ (.member _ _ b _ _) r) => max (depthGE b) (depthGE r) + 3
  | .exprS _ (.assign _ _ _ r) => depthGE r + 2
  | .exprS _ (.ifE _ _ c t (some eb)) => max (depthGE c) (max (depthGBS t) (depthGBS eb)) + 2
  | .exprS _ (.ifE _ _ c t none) => max (depthGE c) (depthGBS t) + 2
  | .exprS _ (.call _ _ (.member _ _ b _ _) args _) => max (depthGE b) (depthGArgs args) + 3
  | .exprS _ (.call _ _ _ args _) => depthGArgs args + 2
  | .exprS _ (.tryE _ _ t _ c) => max (depthGBS t) (depthGBS c) + 2
  | .exprS _ (.matchE _ _ c arms (some (.blockE db))) => max (depthGE c) (max (depthGArmsS arms) (depthGBS db)) + 2
  | .whileS _ c body => max (depthGE c) (depthGBS body) + 1
  | .loopS _ body => depthGBS body + 1
  | .forS _ _ _ (.range _ a b _) (.mk _ _ stmts _) => max (depthGE a) (max (depthGE b) (depthGSs stmts)) + 2
  | .ret _ (some e) => depthGE e + 1
  | _ => 1
def depthGSs : List Stmt → Nat
  | [] => 1
  | s :: ss => max (depthGS s) (depthGSs ss) + 1
def depthGBS : Block → Nat
  | .mk _ _ stmts _ => depthGSs stmts + 1
def depthGArmsS : List (List Expr × Expr) → Nat
  | (_, .blockE b) :: rest => max (depthGBS b) (depthGArmsS rest)
  | _ :: rest => depthGArmsS rest
  | [] => 0
end

/-- The called names are functions, not variables. -/
def callsOK (scopes : List (List (String × String))) (φ : String → Option String) (names : List String) : Bool :=
  names.all fun f => (ρS scopes f).isNone && (φ f).isSome

/-- Well-scoped expression: variables resolved, callees are top-level functions. -/
def wsGE (scopes : List (List (String × String))) (φ : String → Option String) (e : Expr) : Bool :=
  resolved scopes (varsGE e) && callsOK scopes φ (callsGE e)

def wsGArgs (scopes : List (List (String × String))) (φ : String → Option String)
    (args : List (String × Expr)) : Bool :=
  resolved scopes (varsGArgs args) && callsOK scopes φ (callsGArgs args)

mutual
def wsGS (mod fn : String) (φ : String → Option String) : List (String × String) → Stmt → CEnv → Bool
  | _, .letS _ _ _ _ _ e, env => wsGE env.scopes φ e
  | _, .exprS _ (.assign _ _ (.ident _ _ name _ _ _) r), env =>
    (ρS env.scopes name).isSome && wsGE env.scopes φ r
  | _, .exprS _ (.assign _ _ (.index isp ity b i) r), env =>
    wsGE env.scopes φ (.index isp ity b i) && wsGE env.scopes φ r
  | _, .exprS _ (.assign _ _ (.member msp mty b name mop) r), env =>
    wsGE env.scopes φ (.member msp mty b name mop) && wsGE env.scopes φ r
  | loops, .exprS _ (.ifE _ _ c t (some eb)), env =>
    wsGE env.scopes φ c &&
      wsGBS mod fn φ loops t { env with lm := (freshLabel mod (freshLabel mod
        (cgE mod (ρS env.scopes) φ c env.lm).2 "if_after").2 "else").2 } &&
      wsGBS mod fn φ loops eb (cgBS mod fn φ loops t { env with lm := (freshLabel mod (freshLabel mod
        (cgE mod (ρS env.scopes) φ c env.lm).2 "if_after").2 "else").2 }).2
  | loops, .exprS _ (.ifE _ _ c t none), env =>
    wsGE env.scopes φ c &&
      wsGBS mod fn φ loops t { env with lm := (freshLabel mod (freshLabel mod
        (cgE mod (ρS env.scopes) φ c env.lm).2 "if_after").2 "else").2 }
  | loops, .exprS _ (.tryE _ _ t catchIdent (.mk _ _ cstmts none)), env =>
    mod == "main" && φ fn == some (Hms.Core.Comp.mangleFnName mod fn) &&
      wsGBS mod fn φ [] t { env with lm := (freshLabel mod (freshLabel mod env.lm "exception_label").2
        "after_catch_label").2 } &&
      wsGSs mod fn φ loops cstmts
        (freshVar mod { (cgBS mod fn φ [] t { env with lm := (freshLabel mod (freshLabel mod env.lm
          "exception_label").2 "after_catch_label").2 }).2 with
          scopes := [] :: (cgBS mod fn φ [] t { env with lm := (freshLabel mod (freshLabel mod env.lm
            "exception_label").2 "after_catch_label").2 }).2.scopes } catchIdent).2
  | loops, .exprS _ (.matchE sp _ c arms (some (.blockE db))), env =>
    wsGE env.scopes φ c &&
      wsGArmsS mod fn φ loops arms { env with lm := (freshLabel mod (armTests mod sp arms (freshLabel mod
        (cgE mod (ρS env.scopes) φ c env.lm).2 "match_after").2).2.2 "match_default").2 } &&
      wsGBS mod fn φ loops db (cgArmsS mod fn φ loops sp (freshLabel mod
          (cgE mod (ρS env.scopes) φ c env.lm).2 "match_after").1 arms
        (armTests mod sp arms (freshLabel mod (cgE mod (ρS env.scopes) φ c env.lm).2 "match_after").2).2.1
        { env with lm := (freshLabel mod (armTests mod sp arms (freshLabel mod
          (cgE mod (ρS env.scopes) φ c env.lm).2 "match_after").2).2.2 "match_default").2 }).2
  | _, .exprS _ (.call _ _ (.member _ _ b _ _) args _), env =>
    wsGE env.scopes φ b && wsGArgs env.scopes φ args
  | _, .exprS _ (.call _ _ (.ident _ _ name _ _ _) args _), env =>
    if name == "throw" then
      (ρS env.scopes name).isNone && (φ name).isNone && wsGArgs env.scopes φ args
    else if name == "println" then
      (ρS env.scopes name).isNone && (φ name).isNone && wsGArgs env.scopes φ args
    else (ρS env.scopes name).isNone && (φ name).isSome && wsGArgs env.scopes φ args
  | loops, .whileS _ c body, env =>
    wsGE env.scopes φ c &&
      wsGBS mod fn φ (((freshLabel mod (freshLabel mod env.lm "loop_head").2 "loop_end").1,
          (freshLabel mod env.lm "loop_head").1) :: loops) body
        { env with lm := (cgE mod (ρS env.scopes) φ c
          (freshLabel mod (freshLabel mod env.lm "loop_head").2 "loop_end").2).2 }
  | loops, .loopS _ body, env =>
    wsGBS mod fn φ (((freshLabel mod (freshLabel mod env.lm "loop_head").2 "loop_end").1,
        (freshLabel mod env.lm "loop_head").1) :: loops) body
      { env with lm := (freshLabel mod (freshLabel mod env.lm "loop_head").2 "loop_end").2 }
  | loops, .forS _ name _ (.range _ a b _) (.mk _ _ stmts none), env =>
    let head := freshLabel mod env.lm "loop_head"
    let upd := freshLabel mod head.2 "loop_update"
    let after := freshLabel mod upd.2 "loop_end"
    let ca := cgE mod (ρS env.scopes) φ a after.2
    let cb := cgE mod (ρS env.scopes) φ b ca.2
    let fit := freshVar mod { env with scopes := [] :: env.scopes, lm := cb.2 } ("$iter_" ++ name)
    let fhv := freshVar mod fit.2 name
    wsGE env.scopes φ a && wsGE env.scopes φ b &&
      wsGSs mod fn φ ((after.1, upd.1) :: loops) stmts fhv.2
  | _, .ret _ (some e), env => wsGE env.scopes φ e && (ρS env.scopes (cleanupKey mod fn)).isSome
  | _, _, _ => true
def wsGSs (mod fn : String) (φ : String → Option String) : List (String × String) → List Stmt → CEnv → Bool
  | _, [], _ => true
  | loops, s :: ss, env => wsGS mod fn φ loops s env && wsGSs mod fn φ loops ss (cgS mod fn φ loops s env).2
def wsGBS (mod fn : String) (φ : String → Option String) : List (String × String) → Block → CEnv → Bool
  | loops, .mk _ _ stmts _, env => wsGSs mod fn φ loops stmts { env with scopes := [] :: env.scopes }
def wsGArmsS (mod fn : String) (φ : String → Option String) :
    List (String × String) → List (List Expr × Expr) → CEnv → Bool
  | loops, (_, .blockE b) :: rest, env =>
    wsGBS mod fn φ loops b env && wsGArmsS mod fn φ loops rest (cgBS mod fn φ loops b env).2
  | loops, _ :: rest, env => wsGArmsS mod fn φ loops rest env
  | _, [], _ => true
end

/-- Variables read and functions called. -/
def namesGE (e : Expr) : List String := varsGE e ++ callsGE e
def namesGArgs (args : List (String × Expr)) : List String := varsGArgs args ++ callsGArgs args

mutual
/-- The identifiers a statement declares, reads, assigns or calls. -/
def identsGS : Stmt → List String
  | .letS _ name _ _ _ e => name :: namesGE e
  | .exprS _ (.assign _ _ (.ident _ _ name _ _ _) r) => name :: namesGE r
  | .exprS _ (.assign _ _ (.index isp ity b i) r) => namesGE (.index isp ity b i) ++ namesGE r
  | .exprS _ (.assign _ _ (.member msp mty b name mop) r) => namesGE (.member msp mty b name mop) ++ namesGE r
  | .exprS _ (.ifE _ _ c t (some eb)) => namesGE c ++ (identsGBS t ++ identsGBS eb)
  | .exprS _ (.ifE _ _ c t none) => namesGE c ++ identsGBS t
  | .exprS _ (.call _ _ (.ident _ _ name _ _ _) args _) => name :: namesGArgs args
  | .exprS _ (.call _ _ (.member _ _ b _ _) args _) => namesGE b ++ namesGArgs args
  | .exprS _ (.tryE _ _ t catchIdent c) => identsGBS t ++ (catchIdent :: identsGBS c)
  | .exprS _ (.matchE _ _ c arms (some (.blockE db))) => namesGE c ++ (identsGArmsS arms ++ identsGBS db)
  | .whileS _ c body => namesGE c ++ identsGBS body
  | .loopS _ body => identsGBS body
  | .forS _ name _ (.range _ a b _) (.mk _ _ stmts _) => name :: (namesGE a ++ (namesGE b ++ identsGSs stmts))
  | .ret _ (some e) => namesGE e
  | _ => []
def identsGSs : List Stmt → List String
  | [] => []
  | s :: ss => identsGS s ++ identsGSs ss
def identsGBS : Block → List String
  | .mk _ _ stmts _ => identsGSs stmts
def identsGArmsS : List (List Expr × Expr) → List String
  | (_, .blockE b) :: rest => identsGBS b ++ identsGArmsS rest
  | _ :: rest => identsGArmsS rest
  | [] => []
end

end Frag

/-! ## Assignment through an index: unfolding lemmas (for either form of the operator) -/

theorem okFS_idxAssign (fr il rt sp asp op isp ity b i r) :
    Frag.okFS fr il rt (.exprS sp (.assign asp op (.index isp ity b i) r)) =
      (opOK op && Frag.okV fr (.index isp ity b i) && Frag.okV fr r && (Frag.callsGE r).isEmpty) := by
  cases op <;> simp only [Frag.okFS]

theorem cgS_idxAssign (mod fn φ loops sp asp op isp ity b i r) (env : CEnv) :
    cgS mod fn φ loops (.exprS sp (.assign asp op (.index isp ity b i) r)) env =
      ((cgE mod (ρS env.scopes) φ (.index isp ity b i) env.lm).1 ++ opPre op asp ++
        (cgE mod (ρS env.scopes) φ r (cgE mod (ρS env.scopes) φ (.index isp ity b i) env.lm).2).1 ++ opPost op asp ++
        [(.assign, asp)],
       { env with lm := (cgE mod (ρS env.scopes) φ r (cgE mod (ρS env.scopes) φ (.index isp ity b i) env.lm).2).2 }) := by
  cases op <;> simp only [cgS]

theorem wsGS_idxAssign (mod fn φ loops sp asp op isp ity b i r) (env : CEnv) :
    Frag.wsGS mod fn φ loops (.exprS sp (.assign asp op (.index isp ity b i) r)) env =
      (Frag.wsGE env.scopes φ (.index isp ity b i) && Frag.wsGE env.scopes φ r) := by
  simp only [Frag.wsGS]

theorem identsGS_idxAssign (sp asp op isp ity b i r) :
    Frag.identsGS (.exprS sp (.assign asp op (.index isp ity b i) r)) =
      Frag.namesGE (.index isp ity b i) ++ Frag.namesGE r := by
  simp only [Frag.identsGS]

theorem depthGS_idxAssign (sp asp op isp ity b i r) :
    Frag.depthGS (.exprS sp (.assign asp op (.index isp ity b i) r)) =
      max (Frag.depthGE b) (max (Frag.depthGE i) (Frag.depthGE r)) + 3 := by
  simp only [Frag.depthGS]

/-! ## Assignment through a member: unfolding lemmas -/

theorem okFS_memAssign (fr il rt sp asp op msp mty b name r) :
    Frag.okFS fr il rt (.exprS sp (.assign asp op (.member msp mty b name .dot) r)) =
      (opOK op && Frag.okV fr (.member msp mty b name .dot) && Frag.okV fr r && (Frag.callsGE r).isEmpty) := by
  cases op <;> simp only [Frag.okFS]

theorem cgS_memAssign (mod fn φ loops sp asp op msp mty b name r) (env : CEnv) :
    cgS mod fn φ loops (.exprS sp (.assign asp op (.member msp mty b name .dot) r)) env =
      ((cgE mod (ρS env.scopes) φ (.member msp mty b name .dot) env.lm).1 ++ opPre op asp ++
        (cgE mod (ρS env.scopes) φ r (cgE mod (ρS env.scopes) φ (.member msp mty b name .dot) env.lm).2).1 ++ opPost op asp ++
        [(.assign, asp)],
       { env with lm := (cgE mod (ρS env.scopes) φ r (cgE mod (ρS env.scopes) φ (.member msp mty b name .dot) env.lm).2).2 }) := by
  cases op <;> simp only [cgS]

theorem wsGS_memAssign (mod fn φ loops sp asp op msp mty b name mop r) (env : CEnv) :
    Frag.wsGS mod fn φ loops (.exprS sp (.assign asp op (.member msp mty b name mop) r)) env =
      (Frag.wsGE env.scopes φ (.member msp mty b name mop) && Frag.wsGE env.scopes φ r) := by
  simp only [Frag.wsGS]

theorem identsGS_memAssign (sp asp op msp mty b name mop r) :
    Frag.identsGS (.exprS sp (.assign asp op (.member msp mty b name mop) r)) =
      Frag.namesGE (.member msp mty b name mop) ++ Frag.namesGE r := by
  simp only [Frag.identsGS]

theorem depthGS_memAssign (sp asp op msp mty b name mop r) :
    Frag.depthGS (.exprS sp (.assign asp op (.member msp mty b name mop) r)) =
      max (Frag.depthGE b) (Frag.depthGE r) + 3 := by
  simp only [Frag.depthGS]

/-! ## `okGE` inside `okE` -/

theorem depthGE_pos0 (e : Expr) : 1 ≤ Frag.depthGE e := by
  cases e <;> try (simp [Frag.depthGE]; done)
  case ifE sp ty c t el => cases el <;> simp [Frag.depthGE]
  case matchE sp ty c arms dflt => cases dflt <;> simp [Frag.depthGE]
  case call sp ty base args sw => cases base <;> simp [Frag.depthGE]

theorem isRead_of_okGE : ∀ (n : Nat) (e : Expr), Frag.depthGE e ≤ n → Frag.okGE e = true → Frag.isRead e = false := by
  intro n
  induction n with
  | zero => intro e hd; have := depthGE_pos0 e; omega
  | succ n ih =>
    intro e hd h
    cases e <;> try rfl
    case grouped sp e =>
      simp only [Frag.okGE] at h
      simp only [Frag.depthGE] at hd
      simp only [Frag.isRead]
      exact ih e (by omega) h
    case index => simp [Frag.okGE] at h
    case member => simp [Frag.okGE] at h

theorem okE_of_okGE (fr : Bool) : ∀ (n : Nat),
    (∀ (e : Expr), Frag.depthGE e ≤ n → Frag.okGE e = true → Frag.okE fr e = true) ∧
    (∀ (arms : List (List Expr × Expr)), Frag.depthGArms arms ≤ n → Frag.okGArms arms = true → Frag.okEArms fr arms = true) ∧
    (∀ (b : Block), Frag.depthGB b ≤ n → Frag.okGB b = true → Frag.okEB fr b = true) ∧
    (∀ (args : List (String × Expr)), Frag.depthGArgs args ≤ n → Frag.okGArgs args = true →
      Frag.okEArgs fr args = true) := by
  intro n
  induction n with
  | zero =>
    refine ⟨?_, ?_, ?_, ?_⟩
    · intro e hd; have := depthGE_pos0 e; omega
    · intro arms hd; cases arms <;> simp [Frag.depthGArms] at hd
    · intro b hd; obtain ⟨sp, ty, stmts, oe⟩ := b; cases oe <;> simp [Frag.depthGB] at hd
    · intro args hd; cases args <;> simp [Frag.depthGArgs] at hd
  | succ n ih =>
    obtain ⟨ihE, ihM, ihB, ihA⟩ := ih
    refine ⟨?_, ?_, ?_, ?_⟩
    · intro e hd h
      cases e <;> try (simp [Frag.okGE] at h; done)
      case int | bool | str | null | none => rfl
      case ident => simpa [Frag.okGE, Frag.okE] using h
      case grouped sp e =>
        simp only [Frag.okGE] at h; simp only [Frag.depthGE] at hd; simp only [Frag.okE]
        exact ihE e (by omega) h
      case pre sp ty op e =>
        simp only [Frag.okGE] at h; simp only [Frag.depthGE] at hd; simp only [Frag.okE]
        exact ihE e (by omega) h
      case «infix» sp ty op l r =>
        simp only [Frag.okGE, Bool.or_eq_true, Bool.and_eq_true] at h
        simp only [Frag.depthGE] at hd
        simp only [Frag.okE, Bool.or_eq_true, Bool.and_eq_true]
        rcases h with h | ⟨⟨hlog, hl⟩, hr⟩
        · exact Or.inl h
        · refine Or.inr ⟨⟨⟨hlog, ihE l (by omega) hl⟩, ihE r (by omega) hr⟩, Or.inl ?_⟩
          rw [isRead_of_okGE _ l (Nat.le_refl _) hl]; rfl
      case ifE sp ty c t el =>
        cases el with
        | none => simp [Frag.okGE] at h
        | some eb =>
          simp only [Frag.okGE, Bool.and_eq_true] at h
          simp only [Frag.depthGE] at hd
          simp only [Frag.okE, Bool.and_eq_true]
          exact ⟨⟨ihE c (by omega) h.1.1, ihB t (by omega) h.1.2⟩, ihB eb (by omega) h.2⟩
      case call sp ty base args sw =>
        cases base <;> try (simp [Frag.okGE] at h; done)
        cases sw <;> try (simp [Frag.okGE] at h; done)
        simp only [Frag.okGE, Bool.and_eq_true] at h
        simp only [Frag.depthGE] at hd
        simp only [Frag.okE, Bool.and_eq_true]
        exact ⟨⟨h.1.1, ihA args (by omega) h.1.2⟩, h.2⟩
      case matchE sp ty c arms dflt =>
        cases dflt with
        | none => simp [Frag.okGE] at h
        | some d =>
          simp only [Frag.okGE, Bool.and_eq_true] at h
          simp only [Frag.depthGE] at hd
          simp only [Frag.okE, Bool.and_eq_true]
          exact ⟨⟨ihE c (by omega) h.1.1, ihM arms (by omega) h.1.2⟩, ihE d (by omega) h.2⟩
      case list => simpa [Frag.okGE, Frag.okE] using h
      case obj => simpa [Frag.okGE, Frag.okE] using h
    · intro arms hd h
      cases arms with
      | nil => rfl
      | cons a as =>
        simp only [Frag.okGArms, Bool.and_eq_true] at h
        simp only [Frag.depthGArms] at hd
        simp only [Frag.okEArms, Bool.and_eq_true]
        exact ⟨⟨h.1.1, ihE a.2 (by omega) h.1.2⟩, ihM as (by omega) h.2⟩
    · intro b hd h
      obtain ⟨sp, ty, stmts, oe⟩ := b
      cases stmts <;> cases oe <;> try (simp [Frag.okGB] at h; done)
      simp only [Frag.okGB] at h
      simp only [Frag.depthGB] at hd
      simp only [Frag.okEB]
      exact ihE _ (by omega) h
    · intro args hd h
      cases args with
      | nil => rfl
      | cons a as =>
        simp only [Frag.okGArgs, Bool.and_eq_true] at h
        simp only [Frag.depthGArgs] at hd
        simp only [Frag.okEArgs, Bool.and_eq_true]
        exact ⟨ihE a.2 (by omega) h.1, ihA as (by omega) h.2⟩

theorem okE_okGE (fr : Bool) (e : Expr) (h : Frag.okGE e = true) : Frag.okE fr e = true :=
  (okE_of_okGE fr _).1 e (Nat.le_refl _) h

theorem okEArgs_okGArgs (fr : Bool) (args : List (String × Expr)) (h : Frag.okGArgs args = true) :
    Frag.okEArgs fr args = true :=
  (okE_of_okGE fr _).2.2.2 args (Nat.le_refl _) h

theorem okE_mono (fr : Bool) : ∀ (n : Nat),
    (∀ (e : Expr), Frag.depthGE e ≤ n → Frag.okE false e = true → Frag.okE fr e = true) ∧
    (∀ (arms : List (List Expr × Expr)), Frag.depthGArms arms ≤ n → Frag.okEArms false arms = true →
      Frag.okEArms fr arms = true) ∧
    (∀ (b : Block), Frag.depthGB b ≤ n → Frag.okEB false b = true → Frag.okEB fr b = true) ∧
    (∀ (args : List (String × Expr)), Frag.depthGArgs args ≤ n → Frag.okEArgs false args = true →
      Frag.okEArgs fr args = true) := by
  intro n
  induction n with
  | zero =>
    refine ⟨?_, ?_, ?_, ?_⟩
    · intro e hd; have := depthGE_pos0 e; omega
    · intro arms hd; cases arms <;> simp [Frag.depthGArms] at hd
    · intro b hd; obtain ⟨sp, ty, stmts, oe⟩ := b; cases oe <;> simp [Frag.depthGB] at hd
    · intro args hd; cases args <;> simp [Frag.depthGArgs] at hd
  | succ n ih =>
    obtain ⟨ihE, ihM, ihB, ihA⟩ := ih
    refine ⟨?_, ?_, ?_, ?_⟩
    · intro e hd h
      cases e <;> try (simp [Frag.okE] at h; done)
      case int | bool | str | null | none => rfl
      case ident => simpa [Frag.okE] using h
      case grouped sp e =>
        simp only [Frag.okE] at h ⊢; simp only [Frag.depthGE] at hd
        exact ihE e (by omega) h
      case pre sp ty op e =>
        simp only [Frag.okE] at h ⊢; simp only [Frag.depthGE] at hd
        exact ihE e (by omega) h
      case «infix» sp ty op l r =>
        simp only [Frag.okE, Bool.or_eq_true, Bool.and_eq_true] at h ⊢
        simp only [Frag.depthGE] at hd
        rcases h with h | ⟨⟨⟨hlog, hl⟩, hr⟩, hv⟩
        · exact Or.inl h
        · exact Or.inr ⟨⟨⟨hlog, ihE l (by omega) hl⟩, ihE r (by omega) hr⟩, hv⟩
      case ifE sp ty c t el =>
        cases el with
        | none => simp [Frag.okE] at h
        | some eb =>
          simp only [Frag.okE, Bool.and_eq_true] at h ⊢
          simp only [Frag.depthGE] at hd
          exact ⟨⟨ihE c (by omega) h.1.1, ihB t (by omega) h.1.2⟩, ihB eb (by omega) h.2⟩
      case call sp ty base args sw =>
        cases base <;> try (simp [Frag.okE] at h; done)
        case ident =>
          cases sw <;> try (simp [Frag.okE] at h; done)
          simp only [Frag.okE, Bool.and_eq_true] at h ⊢
          simp only [Frag.depthGE] at hd
          exact ⟨⟨h.1.1, ihA args (by omega) h.1.2⟩, h.2⟩
        case member msp mty b nm mop =>
          cases mop <;> cases args <;> cases sw <;> simp [Frag.okE] at h
      case matchE sp ty c arms dflt =>
        cases dflt with
        | none => simp [Frag.okE] at h
        | some d =>
          simp only [Frag.okE, Bool.and_eq_true] at h ⊢
          simp only [Frag.depthGE] at hd
          exact ⟨⟨ihE c (by omega) h.1.1, ihM arms (by omega) h.1.2⟩, ihE d (by omega) h.2⟩
      case list => simpa [Frag.okE] using h
      case obj => simpa [Frag.okE] using h
      case member sp ty b nm mop => cases mop <;> simp [Frag.okE] at h
    · intro arms hd h
      cases arms with
      | nil => rfl
      | cons a as =>
        simp only [Frag.okEArms, Bool.and_eq_true] at h ⊢
        simp only [Frag.depthGArms] at hd
        exact ⟨⟨h.1.1, ihE a.2 (by omega) h.1.2⟩, ihM as (by omega) h.2⟩
    · intro b hd h
      obtain ⟨sp, ty, stmts, oe⟩ := b
      cases stmts <;> cases oe <;> try (simp [Frag.okEB] at h; done)
      simp only [Frag.okEB] at h ⊢
      simp only [Frag.depthGB] at hd
      exact ihE _ (by omega) h
    · intro args hd h
      cases args with
      | nil => rfl
      | cons a as =>
        simp only [Frag.okEArgs, Bool.and_eq_true] at h ⊢
        simp only [Frag.depthGArgs] at hd
        exact ⟨ihE a.2 (by omega) h.1, ihA as (by omega) h.2⟩

theorem okE_false_mono (fr : Bool) (e : Expr) (h : Frag.okE false e = true) : Frag.okE fr e = true :=
  (okE_mono fr _).1 e (Nat.le_refl _) h

theorem okEArgs_false_mono (fr : Bool) (args : List (String × Expr)) (h : Frag.okEArgs false args = true) :
    Frag.okEArgs fr args = true :=
  (okE_mono fr _).2.2.2 args (Nat.le_refl _) h

theorem okV_false_mono (fr : Bool) (e : Expr) (h : Frag.okV false e = true) : Frag.okV fr e = true := by
  simp only [Frag.okV, Bool.or_eq_true] at h ⊢
  exact h.imp id (okE_false_mono fr e)

end HmsProofs.Sim
