import Hms.Mod.Link
/-!
# The `@init` functions: every module is initialised exactly once (and findings V31, V24)
-/
namespace Hms.Mod

/-! ## Counting in lists of names -/

/-- the names of the non-entry modules -/
theorem otherNames_eq (ord : Modules) (entry : String) :
    (ord.filter (·.name != entry)).map (·.name) = (ord.map (·.name)).filter (· != entry) := by
  induction ord with
  | nil => rfl
  | cons o rest ih =>
    simp only [List.filter_cons, List.map_cons]
    by_cases h : (o.name != entry) = true
    · simp only [h, if_true, List.map_cons, ih]
    · simp only [h, if_false, ih, Bool.false_eq_true]

theorem count_otherNames (ord : Modules) (entry : String) (hn : (ord.map (·.name)).Nodup)
    (m : Module) (hm : m ∈ ord) :
    ((ord.filter (·.name != entry)).map (·.name)).count m.name = if m.name = entry then 0 else 1 := by
  rw [otherNames_eq]
  by_cases h : m.name = entry
  · simp only [h, if_true]
    apply List.count_eq_zero_of_not_mem
    intro hmem
    have := (List.mem_filter.1 hmem).2
    simp at this
  · simp only [h, if_false]
    rw [List.count_filter (by simpa using h), hn.count]
    simp only [ite_eq_left_iff]
    intro hnot
    exact (hnot (List.mem_map.2 ⟨m, hm, rfl⟩)).elim

theorem count_map_init (l : Modules) (x : String) :
    (l.map fun o => Event.init o.name).count (.init x) = (l.map (·.name)).count x := by
  induction l with
  | nil => rfl
  | cons o rest ih =>
    simp only [List.map_cons, List.count_cons, ih]
    by_cases h : o.name = x <;> simp [h]

theorem count_map_callInit (l : Modules) (x : String) :
    (l.map fun o => InitInstr.callInit o.name).count (.callInit x) = (l.map (·.name)).count x := by
  induction l with
  | nil => rfl
  | cons o rest ih =>
    simp only [List.map_cons, List.count_cons, ih]
    by_cases h : o.name = x <;> simp [h]

theorem nodup_names_of_perm {ms ord : Modules} (hd : namesDistinct ms = true) (ho : ord.Perm ms) :
    (ord.map (·.name)).Nodup := by
  unfold namesDistinct at hd
  exact (ho.map _).nodup_iff.2 (by simpa using hd)

/-! ## `@init` code -/

/-- every `@init` ends with `Return` and is therefore never empty (after the fix for V31) -/
theorem init_nonempty (ord : Modules) (entry : String) (m : Module) : (initOf ord entry m).getLast? = some .ret := by
  unfold initOf
  exact List.getLast?_concat

set_option linter.unusedVariables false in -- `he` is part of the fixed statement; it is not needed
/-- in the entry `@init` every other module's `@init` is called exactly once -/
theorem init_calls_once (ms ord : Modules) (entry : String) (hd : namesDistinct ms = true) (ho : ord.Perm ms)
    (e : Module) (he : e ∈ ms) (hn : e.name = entry) (m : Module) (hm : m ∈ ms) :
    (initOf ord entry e).count (.callInit m.name) = if m.name = entry then 0 else 1 := by
  unfold initOf
  have h0 : ∀ x, ((globalsOf e).map (InitInstr.setGlob x)).count (.callInit m.name) = 0 := by
    intro x
    apply List.count_eq_zero_of_not_mem
    intro hmem
    obtain ⟨_, _, h⟩ := List.mem_map.1 hmem
    cases h
  have h1 : ([InitInstr.ret] : List InitInstr).count (.callInit m.name) = 0 := by simp
  simp only [List.count_append, h0, h1, hn, beq_self_eq_true, if_true, count_map_callInit,
    Nat.zero_add, Nat.add_zero]
  exact count_otherNames ord entry (nodup_names_of_perm hd ho) m (ho.mem_iff.2 hm)

/-! ## Start-up events -/

/-- with fuel 1 an `@init` contributes exactly its own event (callees call nobody) -/
theorem initEvents_one (code : List (String × List InitInstr)) (o : String) :
    initEvents code 1 o = [.init o] := by
  simp only [initEvents, List.cons.injEq, true_and, List.flatMap_eq_nil_iff]
  intro i _
  cases i <;> rfl

theorem lookup_map_name (g : Module → List InitInstr) (entry : String) :
    ∀ (l : Modules) (e : Module), e ∈ l → e.name = entry →
      ∃ e' ∈ l, e'.name = entry ∧ (l.map fun m => (m.name, g m)).lookup entry = some (g e')
  | [], _, h, _ => by cases h
  | o :: rest, e, h, hn => by
    by_cases ho : entry == o.name
    · refine ⟨o, List.mem_cons_self, by simpa using (beq_iff_eq.1 ho).symm, ?_⟩
      simp only [List.map_cons, List.lookup_cons, ho]
    · have he : e ∈ rest := by
        rcases List.mem_cons.1 h with rfl | h'
        · simp [hn] at ho
        · exact h'
      obtain ⟨e', he', hn', hl⟩ := lookup_map_name g entry rest e he hn
      refine ⟨e', List.mem_cons_of_mem _ he', hn', ?_⟩
      simp only [List.map_cons, List.lookup_cons, ho]
      exact hl

theorem flatMap_setGlob (F : InitInstr → List Event) (hF : ∀ x n, F (.setGlob x n) = [])
    (x : String) (l : List String) : (l.map (InitInstr.setGlob x)).flatMap F = [] := by
  rw [List.flatMap_eq_nil_iff]
  intro i hi
  obtain ⟨_, _, rfl⟩ := List.mem_map.1 hi
  exact hF _ _

theorem flatMap_callInit (F : InitInstr → List Event) (hF : ∀ o, F (.callInit o) = [.init o])
    (l : Modules) :
    (l.map fun o => InitInstr.callInit o.name).flatMap F = l.map fun o => Event.init o.name := by
  induction l with
  | nil => rfl
  | cons o rest ih => simp only [List.map_cons, List.flatMap_cons, ih, hF]; rfl

/-- the events of the entry module's `@init` -/
theorem initEvents_entry (ord : Modules) (entry : String) (e : Module) (he : e ∈ ord) (hn : e.name = entry) :
    initEvents (initCode ord entry) 2 entry =
      .init entry :: (ord.filter (·.name != entry)).map fun o => Event.init o.name := by
  obtain ⟨e', _, hn', hl⟩ := lookup_map_name (initOf ord entry) entry ord e he hn
  have hl' : (initCode ord entry).lookup entry = some (initOf ord entry e') := hl
  rw [initEvents, hl']
  simp only [Option.getD_some, initOf, hn', beq_self_eq_true, if_true, List.flatMap_append,
    List.flatMap_cons, List.flatMap_nil, List.append_nil, initEvents_one]
  congr 1
  rw [flatMap_setGlob _ (fun _ _ => rfl), flatMap_callInit _ (fun _ => rfl)]
  rfl

/-- VM start-up: the entry module's `@init` runs every module's initialisation exactly once, then `main` runs. -/
theorem init_once_vm (ms ord : Modules) (entry : String) (hd : namesDistinct ms = true) (ho : ord.Perm ms)
    (he : (findMod ms entry).isSome = true) :
    (∀ m ∈ ms, (startup ord entry).count (.init m.name) = 1) ∧
    (startup ord entry).getLast? = some .main ∧ (startup ord entry).count .main = 1 := by
  obtain ⟨e, hfe⟩ := Option.isSome_iff_exists.1 he
  have hem : e ∈ ms := List.mem_of_find?_eq_some hfe
  have hen : e.name = entry := by simpa using List.find?_some hfe
  have hev := initEvents_entry ord entry e (ho.mem_iff.2 hem) hen
  unfold startup
  rw [hev]
  refine ⟨?_, List.getLast?_concat, ?_⟩
  · intro m hm
    have hc := count_otherNames ord entry (nodup_names_of_perm hd ho) m (ho.mem_iff.2 hm)
    have hmain : ([Event.main] : List Event).count (.init m.name) = 0 := by simp
    simp only [List.count_append, List.count_cons, count_map_init, hc, hmain]
    by_cases h : m.name = entry
    · simp [h]
    · have h' : ¬ entry = m.name := fun h'' => h h''.symm
      simp [h, h']
  · have h0 : ((ord.filter (·.name != entry)).map fun o => Event.init o.name).count .main = 0 := by
      apply List.count_eq_zero_of_not_mem
      intro hmem
      obtain ⟨_, _, h⟩ := List.mem_map.1 hmem
      cases h
    simp [h0]

/-! ## Findings V31 and V24 -/

/-- Finding V31: before the fix an imported module without globals has an empty `@init`: the VM panics the host. -/
theorem init_counterexample_V31 :
    ∃ ms : Modules, namesDistinct ms = true ∧ startupPanicsUnfixed ms "main" = true := by
  refine ⟨[{ name := "main", imports := [⟨"a", [⟨"f", .normal⟩]⟩], items := [⟨.fn, "main", false⟩],
             inits := [], bodies := [("main", [.call "f"])] },
           { name := "a", imports := [], items := [⟨.fn, "f", true⟩, ⟨.fn, "main", false⟩],
             inits := [], bodies := [("f", [.say "a.f" []]), ("main", [])] }], ?_, ?_⟩
  · decide
  · decide

/-- Finding V24: the unfixed interpreter executes a module imported by two statements twice (diamond),
the fixed one once. -/
theorem tree_exec_counterexample_V24 :
    ∃ ms : Modules, namesDistinct ms = true ∧
      (treeExecsUnfixed ms 10 "main").count "a" = 2 ∧ ((treeExecs ms 10 [] "main").1).count "a" = 1 := by
  refine ⟨[{ name := "main", imports := [⟨"b", [⟨"f", .normal⟩]⟩, ⟨"c", [⟨"g", .normal⟩]⟩],
             items := [⟨.fn, "main", false⟩], inits := [], bodies := [("main", [.call "f", .call "g"])] },
           { name := "b", imports := [⟨"a", [⟨"h", .normal⟩]⟩], items := [⟨.fn, "f", true⟩, ⟨.fn, "main", false⟩],
             inits := [], bodies := [("f", [.call "h"]), ("main", [])] },
           { name := "c", imports := [⟨"a", [⟨"h", .normal⟩]⟩], items := [⟨.fn, "g", true⟩, ⟨.fn, "main", false⟩],
             inits := [], bodies := [("g", [.call "h"]), ("main", [])] },
           { name := "a", imports := [], items := [⟨.glob, "x", false⟩, ⟨.fn, "h", true⟩, ⟨.fn, "main", false⟩],
             inits := [("x", "a.x")], bodies := [("h", [.bump "x", .say "a.h" ["x"]]), ("main", [])] }], ?_, ?_, ?_⟩
  · decide
  · decide
  · decide

end Hms.Mod
