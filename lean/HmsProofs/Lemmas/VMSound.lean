import HmsProofs.Lemmas.VMCheck
/-!
# Soundness of the bytecode checker along whole runs

`step_sound` lifted to the instruction loop (`iter`, `runQuantum`) and to `run`; balance of the
operand stack and of the memory pointer per activation.
-/
namespace HmsProofs.Lemmas.VMSound
open Hms.Core Hms.Core.Comp Hms.Core.VM Hms.Core.BcCheck
open HmsProofs.Lemmas.VMStep HmsProofs.Lemmas.VMRun HmsProofs.Lemmas.VMCheck

/-- The state `runQuantum` hands to `step`: the instruction counter has been incremented. -/
def tick (s : VMState) : VMState := { s with steps := s.steps + 1 }

theorem InvB_tick {code : Code} {A : List FnAnn} {s : VMState} {bs : List Base} :
    InvB code A (tick s) bs ↔ InvB code A s bs := Iff.rfl

/-- The four panics the checker excludes. -/
def Excluded (why : String) : Prop :=
  why = "stack underflow" ∨ why = "handler stack underflow" ∨ why = "memory index" ∨ why = "label at run time"

/-- What one iteration of the instruction loop does from a state that satisfies the invariant:
it continues in a state that satisfies it, or ends the run; it never falls off the end of a
function, and a panic outcome is a panic of the executed instruction other than the four
excluded ones (in particular never "non-existent routine", "no frame for the handler"). -/
def IterOK (code : Code) (A : List FnAnn) (lim : Limits) (s : VMState) (bs0 : List Base) : IterRes → Prop
  | .cont s' => ∃ bs', InvB code A s' bs' ∧ Rel bs0 bs'
  | .back _ => False
  | .done o => ∀ why st, o = .panic why st →
      ¬ Excluded why ∧ ∃ i sp, step code lim (tick s) i sp = .panic why st

theorem iter_sound {code : Code} {A : List FnAnn} (hv : verify code A = true) {s : VMState} {bs0 : List Base}
    (hinv : InvB code A s bs0) (lim : Limits) (hlim : s.mp < (lim.memory : Int))
    (hdyn : DynOK code A lim (tick s)) : IterOK code A lim s bs0 (iter code lim s) := by
  rcases iter_cases code lim s with ⟨_, h⟩ | ⟨f, rest, hc, ⟨hnf, _⟩ | ⟨c, hf, hcne, ⟨hnone, _⟩ | ⟨i, sp, hi, h⟩⟩⟩
  · rw [h]; intro why st e; cases e
  · -- the function of the running frame exists and is not empty
    obtain ⟨c', fa, a, B, bs, hd', _, cx⟩ := hinv.unpack hv hc
    have hfc := lookup_findCode _ _ _ _ _ cx.look
    obtain ⟨i, sp, pops, l, po⟩ := verify_point hv cx.look cx.pt
    rcases hnf with hnf | hnf
    · rw [hfc] at hnf; cases hnf
    · rw [hfc] at hnf; cases hnf; have := po.instr; simp at this
  · obtain ⟨c', fa, a, B, bs, hd', _, cx⟩ := hinv.unpack hv hc
    have hfc := lookup_findCode _ _ _ _ _ cx.look
    rw [hf] at hfc; cases hfc
    obtain ⟨i, sp, pops, l, po⟩ := verify_point hv cx.look cx.pt
    have := po.instr
    rw [hnone] at this; cases this
  · rw [h]
    obtain ⟨fa, a, _, _, hs⟩ := step_sound hv (InvB_tick.mpr hinv) (s := tick s) hc hf hi lim hlim hdyn
    have hr0 : step code lim (tick s) i sp = step code lim { s with steps := s.steps + 1 } i sp := rfl
    rw [hr0] at hs
    generalize hr : step code lim { s with steps := s.steps + 1 } i sp = r at hs ⊢
    cases r with
    | next s' => exact hs
    | panic why st =>
      show IterOK code A lim s bs0 (.done (.panic why st))
      intro why' st' e
      cases e
      exact ⟨by rintro (h | h | h | h) <;> simp_all [Sound, Sat3, NoBad], i, sp, hr⟩
    | intr x s' =>
      cases x with
      | fatal k msg fsp =>
        show IterOK code A lim s bs0 (.done (.fatal k msg fsp s'))
        intro why st e; cases e
      | term =>
        show IterOK code A lim s bs0 (.done (.term s'))
        intro why st e; cases e
      | throw msg tsp =>
        obtain ⟨htot, hcont⟩ := hs msg tsp rfl
        show IterOK code A lim s bs0 (throwTo s' msg tsp)
        cases ht : throwTo s' msg tsp with
        | cont s'' => exact hcont s'' ht
        | back s'' => exact absurd ht throwTo_not_back
        | done o =>
          intro why st e
          subst e
          rcases htot with hnil | ⟨s'', hs''⟩
          · unfold throwTo at ht; simp [hnil] at ht
          · rw [hs''] at ht; cases ht

/-- The hypotheses about the states of a quantum: dynamic calls conform, in every state reached
after `k` iterations. -/
def DynAlong (code : Code) (A : List FnAnn) (lim : Limits) (n : Nat) (s : VMState) : Prop :=
  ∀ k s1, k < n → runQuantum code lim k s = .inl s1 → DynOK code A lim (tick s1)

theorem DynAlong.head {code : Code} {A : List FnAnn} {lim : Limits} {n : Nat} {s : VMState}
    (h : DynAlong code A lim (n + 1) s) : DynOK code A lim (tick s) :=
  h 0 s (by omega) rfl

theorem DynAlong.tail {code : Code} {A : List FnAnn} {lim : Limits} {n : Nat} {s s' : VMState}
    (h : DynAlong code A lim (n + 1) s) (hi : iter code lim s = .cont s') : DynAlong code A lim n s' := by
  intro k s1 hk hq
  refine h (k + 1) s1 (by omega) ?_
  rw [runQuantum_succ, hi]; exact hq

/-- A quantum of instructions from a state that satisfies the invariant: the state in which the
next poll happens satisfies it, and a panic outcome is none of the excluded ones. -/
theorem runQuantum_sound {code : Code} {A : List FnAnn} (hv : verify code A = true) (lim : Limits) :
    ∀ (n : Nat) (s : VMState), Inv code A s → MemOK lim s → DynAlong code A lim n s →
      (∀ s', runQuantum code lim n s = .inl s' → Inv code A s' ∧ MemOK lim s')
      ∧ (∀ why st, runQuantum code lim n s = .inr (.panic why st) → ¬ Excluded why)
  | 0, s, hinv, hmem, _ => by
    refine ⟨?_, ?_⟩
    · intro s' h; simp only [runQuantum_zero, Sum.inl.injEq] at h; subst h; exact ⟨hinv, hmem⟩
    · intro why st h; simp [runQuantum_zero] at h
  | n + 1, s, hinv, hmem, hdyn => by
    obtain ⟨bs0, hb⟩ := hinv
    have hit := iter_sound hv hb lim hmem.1 hdyn.head
    have hbd := iter_bound code lim s
    rw [runQuantum_succ]
    cases hi : iter code lim s with
    | cont s1 =>
      rw [hi] at hit
      obtain ⟨bs', hb', _⟩ := hit
      exact runQuantum_sound hv lim n s1 ⟨bs', hb'⟩ (((hbd s1).1 hi).2.2 hmem) (hdyn.tail hi)
    | back s1 => rw [hi] at hit; exact hit.elim
    | done o =>
      rw [hi] at hit
      refine ⟨fun s' h => (by cases h), ?_⟩
      intro why st h
      simp only [Sum.inr.injEq] at h
      exact (hit why st h).1

/-- The hypothesis of the whole-run theorem: in every state in which `run` executes an
instruction, a dynamic call conforms to its call site. -/
def DynReach (code : Code) (A : List FnAnn) (lim : Limits) (q : Nat) (ca : Option Nat) (s₀ : VMState) : Prop :=
  ∀ p, PollReach code lim q ca s₀ p → PollPass lim ca p → DynAlong code A lim q (pollState p)

theorem Inv_pollState {code : Code} {A : List FnAnn} {s : VMState} : Inv code A (pollState s) ↔ Inv code A s :=
  Iff.rfl

/-- Every poll state of a run of checked code satisfies the invariant. -/
theorem pollReach_inv {code : Code} {A : List FnAnn} (hv : verify code A = true) {lim : Limits} {q : Nat}
    {ca : Option Nat} {s₀ p : VMState} (h0 : Inv code A s₀) (hm : MemOK lim s₀)
    (hdyn : DynReach code A lim q ca s₀) (h : PollReach code lim q ca s₀ p) : Inv code A p ∧ MemOK lim p := by
  induction h with
  | start => exact ⟨h0, hm⟩
  | next hp hpass hq ih =>
    have := (runQuantum_sound hv lim q _ (Inv_pollState.mpr ih.1) (MemOK_congr rfl rfl rfl ih.2) (hdyn _ hp hpass)).1 _ hq
    exact this

/-- **Checked code never stack-panics.** `run` on checked code, from a state that satisfies the
invariant, never ends in one of the four excluded panics. -/
theorem run_sound {code : Code} {A : List FnAnn} (hv : verify code A = true) (lim : Limits) (q : Nat)
    (ca : Option Nat) :
    ∀ (fuel : Nat) (s₀ : VMState), Inv code A s₀ → MemOK lim s₀ → DynReach code A lim q ca s₀ →
      ∀ why st, run code lim q ca fuel s₀ = .panic why st → ¬ Excluded why
  | 0, s₀, _, _, _, why, st, h => by rw [run_zero] at h; cases h
  | fuel + 1, s₀, hinv, hm, hdyn, why, st, h => by
    by_cases hn : s₀.calls = []
    · rw [run_nil _ _ _ _ _ _ hn] at h; cases h
    · rcases poll_trichotomy lim ca s₀ hn with hc | hx | hp
      · rw [run_cancelled _ _ _ _ _ _ hn hc] at h; cases h
      · obtain ⟨msg', sp', e⟩ := run_exceeds code lim q ca s₀ hx
        rw [e] at h; cases h
      · rw [run_pass _ _ _ _ _ _ hp] at h
        have hs := runQuantum_sound hv lim q _ (Inv_pollState.mpr hinv) (MemOK_congr rfl rfl rfl hm)
          (hdyn s₀ .start hp)
        cases hq : runQuantum code lim q (pollState s₀) with
        | inl s' =>
          simp only [hq] at h
          obtain ⟨hi', hm'⟩ := hs.1 s' hq
          refine run_sound hv lim q ca fuel s' hi' hm' ?_ why st h
          intro p hpr hpp
          refine hdyn p ?_ hpp
          clear hpp h
          induction hpr with
          | start => exact .next .start hp hq
          | next _ hpass' hq' ih => exact .next ih hpass' hq'
        | inr o =>
          simp only [hq] at h
          subst h
          exact hs.2 why st hq

/-! ## Balance -/

/-- `s₂` is reached from `s₁` by instructions (including exception dispatch) of the activation
that runs at call depth `d` and of the activations it calls: the call depth never drops below
`d`. The side conditions of `iter_sound` are part of the path. -/
inductive Path (code : Code) (A : List FnAnn) (lim : Limits) (d : Nat) : VMState → VMState → Prop
  | refl (s : VMState) : Path code A lim d s s
  | step {s s1 s2 : VMState} : Path code A lim d s s1 → s1.mp < (lim.memory : Int) →
      DynOK code A lim (tick s1) → iter code lim s1 = .cont s2 → d ≤ s2.calls.length → Path code A lim d s s2

theorem InvB_length {code : Code} {A : List FnAnn} {s : VMState} {bs : List Base} (h : InvB code A s bs) :
    bs.length = s.calls.length := InvL_length h.1

theorem suffix_of_append {α} {pre pre' x y : List α} (h : pre ++ x = pre' ++ y) (hl : x.length ≤ y.length) :
    ∃ p, y = p ++ x := by
  rcases List.append_eq_append_iff.mp h with ⟨a', _, h2⟩ | ⟨c', _, h2⟩
  · have : a' = [] := by
      have := congrArg List.length h2
      simp only [List.length_append] at this
      exact List.eq_nil_of_length_eq_zero (by omega)
    subst this
    exact ⟨[], by simpa using h2.symm⟩
  · exact ⟨c', h2⟩

/-- Along a path that stays at depth `≥ d`, the bases of the lowest `d` activations do not change. -/
theorem path_bases {code : Code} {A : List FnAnn} (hv : verify code A = true) {lim : Limits} {d : Nat}
    {s₁ s₂ : VMState} {bs₁ : List Base} (h1 : InvB code A s₁ bs₁) (hd : s₁.calls.length = d)
    (hp : Path code A lim d s₁ s₂) : ∃ bs₂ pre, InvB code A s₂ bs₂ ∧ bs₂ = pre ++ bs₁ := by
  induction hp with
  | refl => exact ⟨bs₁, [], h1, rfl⟩
  | step _ hmp hdyn hit hdepth ih =>
    obtain ⟨bs, pre, hb, rfl⟩ := ih
    have := iter_sound hv hb lim hmp hdyn
    rw [hit] at this
    obtain ⟨bs', hb', hrel⟩ := this
    rcases hrel with ⟨Bn, rfl⟩ | ⟨pre', he⟩
    · exact ⟨_, Bn :: pre, hb', rfl⟩
    · obtain ⟨p, hp'⟩ := suffix_of_append he (by rw [InvB_length hb', InvB_length h1, hd]; exact hdepth)
      exact ⟨bs', p, hb', hp'⟩

/-- **Balance.** Two states of one activation at the same instruction index have the same
operand-stack height and the same memory pointer. -/
theorem balanced {code : Code} {A : List FnAnn} (hv : verify code A = true) {lim : Limits}
    {s₁ s₂ : VMState} (h1 : Inv code A s₁) (hp : Path code A lim s₁.calls.length s₁ s₂)
    (hd : s₂.calls.length = s₁.calls.length) {f₁ f₂ : Frame} {r₁ r₂ : List Frame}
    (hc1 : s₁.calls = f₁ :: r₁) (hc2 : s₂.calls = f₂ :: r₂) (hf : f₂ = f₁) :
    s₂.stack.length = s₁.stack.length ∧ s₂.mp = s₁.mp := by
  obtain ⟨bs₁, hb1⟩ := h1
  obtain ⟨bs₂, pre, hb2, he⟩ := path_bases hv hb1 rfl hp
  have hpre : pre = [] := by
    have := congrArg List.length he
    rw [List.length_append, InvB_length hb2, InvB_length hb1, hd] at this
    exact List.eq_nil_of_length_eq_zero (by omega)
  subst hpre
  simp only [List.nil_append] at he
  subst he hf
  obtain ⟨c, fa, a, B, bs, hd', e1, cx1⟩ := hb1.unpack hv hc1
  obtain ⟨c', fa', a', B', bs', hd'', e2, cx2⟩ := hb2.unpack hv hc2
  rw [e1] at e2
  simp only [List.cons.injEq] at e2
  obtain ⟨rfl, rfl⟩ := e2
  have := cx1.look
  rw [cx2.look] at this
  simp only [Option.some.injEq, Prod.mk.injEq] at this
  obtain ⟨rfl, rfl⟩ := this
  have := cx1.pt
  rw [cx2.pt] at this
  simp only [Option.some.injEq] at this
  subst this
  exact ⟨by rw [← cx1.hh, ← cx2.hh], by rw [cx1.mp, cx2.mp]⟩

/-! ## Building paths by evaluation (for concrete examples) -/

theorem Path.head {code : Code} {A : List FnAnn} {lim : Limits} {d : Nat} {s s1 s2 : VMState}
    (hmp : s.mp < (lim.memory : Int)) (hdyn : DynOK code A lim (tick s)) (hit : iter code lim s = .cont s1)
    (hd : d ≤ s1.calls.length) (hp : Path code A lim d s1 s2) : Path code A lim d s s2 := by
  induction hp with
  | refl => exact .step (.refl s) hmp hdyn hit hd
  | step _ hmp' hdyn' hit' hd' ih => exact .step ih hmp' hdyn' hit' hd'

/-- `n` loop iterations that stay at call depth `≥ d` and within the memory limit. -/
def pathRun (code : Code) (lim : Limits) (d : Nat) : Nat → VMState → Option VMState
  | 0, s => some s
  | n + 1, s =>
    if s.mp < (lim.memory : Int) then
      match iter code lim s with
      | .cont s' => if d ≤ s'.calls.length then pathRun code lim d n s' else none
      | _ => none
    else none

theorem path_of_pathRun {code : Code} {A : List FnAnn} {lim : Limits} {d : Nat}
    (hdyn : ∀ s, DynOK code A lim s) : ∀ (n : Nat) (s s' : VMState),
    pathRun code lim d n s = some s' → Path code A lim d s s'
  | 0, s, s', h => by simp only [pathRun, Option.some.injEq] at h; subst h; exact .refl s
  | n + 1, s, s', h => by
    simp only [pathRun] at h
    split at h
    · rename_i hmp
      split at h
      · rename_i s1 hit
        split at h
        · rename_i hd
          exact Path.head hmp (hdyn _) hit hd (path_of_pathRun hdyn n s1 s' h)
        · cases h
      · cases h
    · cases h

end HmsProofs.Lemmas.VMSound
