import Hms.Mod.Order
/-!
# Order-independence of the computations that range over Go maps (C14)

Each computation of `Hms/Mod/Order.lean` is a function of the list of map entries in iteration
order; the theorems here say that permuting that list does not change what can be observed.
-/
namespace Hms.Mod

/-! ## Lookups in a list with distinct keys -/

theorem lookup_cons_eq {β} (k : String) (x : String × β) (l : List (String × β)) :
    (x :: l).lookup k = if k = x.1 then some x.2 else l.lookup k := by
  obtain ⟨a, b⟩ := x
  rw [List.lookup_cons]
  by_cases h : k = a
  · subst h; simp
  · have : (k == a) = false := by simpa using h
    simp [this, h]

/-- A Go map has distinct keys: lookups do not depend on the iteration order. -/
theorem lookup_perm_of_nodup_keys {β} {l₁ l₂ : List (String × β)} (h : l₁.Perm l₂)
    (hk : (l₁.map Prod.fst).Nodup) (k : String) : l₁.lookup k = l₂.lookup k := by
  induction h with
  | nil => rfl
  | cons x _ ih =>
    rw [lookup_cons_eq, lookup_cons_eq, ih (by simpa using (List.nodup_cons.mp (by simpa using hk)).2)]
  | swap x y l =>
    simp only [lookup_cons_eq]
    have hne : y.1 ≠ x.1 := by
      intro e
      simp only [List.map_cons, List.nodup_cons, List.mem_cons] at hk
      exact hk.1 (Or.inl e)
    by_cases hx : k = x.1
    · subst hx
      simp [Ne.symm hne]
    · by_cases hy : k = y.1
      · subst hy
        simp [hne]
      · simp [hx, hy]
  | trans h₁ _ ih₁ ih₂ =>
    rw [ih₁ hk, ih₂ (((h₁.map Prod.fst).nodup_iff).mp hk)]

/-- In a list with distinct keys an entry is determined by its key. -/
theorem eq_of_fst_eq_of_nodup_keys {β} {l : List (String × β)} (hk : (l.map Prod.fst).Nodup)
    {a b : String × β} (ha : a ∈ l) (hb : b ∈ l) (h : a.1 = b.1) : a = b := by
  induction l with
  | nil => cases ha
  | cons x l ih =>
    simp only [List.map_cons, List.nodup_cons, List.mem_map, not_exists, not_and] at hk
    rcases List.mem_cons.mp ha with rfl | ha' <;> rcases List.mem_cons.mp hb with rfl | hb'
    · rfl
    · exact absurd h.symm (hk.1 b hb')
    · exact absurd h (hk.1 a ha')
    · exact ih hk.2 ha' hb'

/-! ## `rebuild` -/

theorem map_fst_rebuild {β γ} (f : String → β → γ) (l : List (String × β)) :
    (rebuild f l).map Prod.fst = l.map Prod.fst := by
  simp [rebuild, List.map_map, Function.comp_def]

theorem perm_invariant_rebuild {β γ} (f : String → β → γ) {l₁ l₂ : List (String × β)} (h : l₁.Perm l₂)
    (hk : (l₁.map Prod.fst).Nodup) (k : String) : obsMap (rebuild f l₁) k = obsMap (rebuild f l₂) k := by
  unfold obsMap
  apply lookup_perm_of_nodup_keys
  · exact h.map _
  · rw [map_fst_rebuild]; exact hk

/-! ## Sorting by key -/

theorem keyLe_trans {β} (a b c : String × β) (h₁ : keyLe a b = true) (h₂ : keyLe b c = true) :
    keyLe a c = true := by
  simp only [keyLe, decide_eq_true_eq] at *
  exact String.le_trans h₁ h₂

theorem keyLe_total {β} (a b : String × β) : (keyLe a b || keyLe b a) = true := by
  simp only [keyLe, Bool.or_eq_true, decide_eq_true_eq]
  exact String.le_total _ _

theorem perm_invariant_sortByKey {β} {l₁ l₂ : List (String × β)} (h : l₁.Perm l₂)
    (hk : (l₁.map Prod.fst).Nodup) : sortByKey l₁ = sortByKey l₂ := by
  unfold sortByKey
  refine List.Perm.eq_of_pairwise (le := fun a b => keyLe a b = true) ?_
    (List.pairwise_mergeSort keyLe_trans keyLe_total l₁)
    (List.pairwise_mergeSort keyLe_trans keyLe_total l₂)
    ((List.mergeSort_perm l₁ keyLe).trans (h.trans (List.mergeSort_perm l₂ keyLe).symm))
  intro a b ha hb hab hba
  have ha' : a ∈ l₁ := (List.mergeSort_perm l₁ keyLe).mem_iff.mp ha
  have hb' : b ∈ l₁ := h.mem_iff.mpr ((List.mergeSort_perm l₂ keyLe).mem_iff.mp hb)
  simp only [keyLe, decide_eq_true_eq] at hab hba
  exact eq_of_fst_eq_of_nodup_keys hk ha' hb' (String.le_antisymm hab hba)

theorem perm_invariant_displayFields {l₁ l₂ : List (String × String)} (h : l₁.Perm l₂)
    (hk : (l₁.map Prod.fst).Nodup) : displayFields l₁ = displayFields l₂ := by
  unfold displayFields
  rw [perm_invariant_sortByKey h hk]

/-! ## `IsEqual` on objects -/

theorem perm_invariant_fieldsEqual {β} [BEq β] {l₁ l₂ r₁ r₂ : List (String × β)} (hl : l₁.Perm l₂) (hr : r₁.Perm r₂)
    (hk : (r₁.map Prod.fst).Nodup) : fieldsEqual l₁ r₁ = fieldsEqual l₂ r₂ := by
  unfold fieldsEqual
  rw [hl.length_eq, hr.length_eq, hl.all_eq]
  have : (fun (x : String × β) => match x with | (k, v) => r₁.lookup k == some v)
      = (fun (x : String × β) => match x with | (k, v) => r₂.lookup k == some v) := by
    funext ⟨k, v⟩
    simp only [lookup_perm_of_nodup_keys hr hk k]
  rw [this]

/-! ## `dropScope` -/

/-- the diagnostics of `dropScope` as a multiset -/
theorem perm_invariant_dropScope {l₁ l₂ : List (String × ScopeEntry)} (h : l₁.Perm l₂) :
    (dropScopeWarnings l₁).Perm (dropScopeWarnings l₂) :=
  h.filterMap _

/-! ## `renameVariables` -/

/-- Slots of variables that do not occur in the code are irrelevant and left alone. -/
theorem renameCode_append (old : List (String × Nat)) (code : List VInstr)
    (hd : ∀ v ∈ varsOf code, old.lookup v = none) (new : List (String × Nat)) (cnt : Nat) :
    renameCode (new ++ old) cnt code
      = ((renameCode new cnt code).1 ++ old, (renameCode new cnt code).2) := by
  induction code generalizing new cnt with
  | nil => simp [renameCode]
  | cons i rest ih =>
    have hrest : ∀ v ∈ varsOf rest, old.lookup v = none := by
      intro v hv
      apply hd
      cases i <;> simp [varsOf, VInstr.var?] at hv ⊢ <;> simp [hv]
    cases i with
    | other t => simp [renameCode, ih hrest]
    | getVar v =>
      have hv : old.lookup v = none := hd v (by simp [varsOf, VInstr.var?])
      simp only [renameCode, List.lookup_append, hv, Option.or_none]
      cases hnv : new.lookup v with
      | some n => simp [ih hrest]
      | none =>
        have := ih hrest ((v, cnt) :: new) (cnt + 1)
        simp only [List.cons_append] at this
        simp [this]
    | setVar v =>
      have hv : old.lookup v = none := hd v (by simp [varsOf, VInstr.var?])
      simp only [renameCode, List.lookup_append, hv, Option.or_none]
      cases hnv : new.lookup v with
      | some n => simp [ih hrest]
      | none =>
        have := ih hrest ((v, cnt) :: new) (cnt + 1)
        simp only [List.cons_append] at this
        simp [this]

/-- `renameCode` only adds slots for variables of the code. -/
theorem renameCode_lookup_none (code : List VInstr) (slots : List (String × Nat)) (cnt : Nat) (v : String)
    (hs : slots.lookup v = none) (hv : v ∉ varsOf code) :
    (renameCode slots cnt code).1.lookup v = none := by
  induction code generalizing slots cnt with
  | nil => simpa [renameCode] using hs
  | cons i rest ih =>
    cases i with
    | other t =>
      have hv' : v ∉ varsOf rest := by simpa [varsOf, VInstr.var?] using hv
      simpa [renameCode] using ih slots cnt hs hv'
    | getVar w =>
      have hv' : v ≠ w ∧ v ∉ varsOf rest := by simpa [varsOf, VInstr.var?] using hv
      simp only [renameCode]
      cases hw : slots.lookup w with
      | some n => simpa using ih slots cnt hs hv'.2
      | none =>
        have : ((w, cnt) :: slots).lookup v = none := by
          rw [lookup_cons_eq]; simp [hv'.1, hs]
        simpa using ih _ (cnt + 1) this hv'.2
    | setVar w =>
      have hv' : v ≠ w ∧ v ∉ varsOf rest := by simpa [varsOf, VInstr.var?] using hv
      simp only [renameCode]
      cases hw : slots.lookup w with
      | some n => simpa using ih slots cnt hs hv'.2
      | none =>
        have : ((w, cnt) :: slots).lookup v = none := by
          rw [lookup_cons_eq]; simp [hv'.1, hs]
        simpa using ih _ (cnt + 1) this hv'.2

/-- `noSharedVars` as a pairwise condition. -/
def VarsDisjoint (p q : String × List VInstr) : Prop := ∀ v ∈ varsOf p.2, v ∉ varsOf q.2

theorem VarsDisjoint.symm {p q : String × List VInstr} (h : VarsDisjoint p q) : VarsDisjoint q p :=
  fun v hq hp => h v hp hq

theorem noSharedVars_iff_pairwise (fs : List (String × List VInstr)) :
    noSharedVars fs = true ↔ fs.Pairwise VarsDisjoint := by
  induction fs with
  | nil => simp [noSharedVars]
  | cons p rest ih =>
    obtain ⟨n, c⟩ := p
    simp only [noSharedVars, Bool.and_eq_true, List.pairwise_cons, ih]
    apply and_congr_left'
    simp [VarsDisjoint, List.all_eq_true]

theorem noSharedVars_perm {l₁ l₂ : List (String × List VInstr)} (h : l₁.Perm l₂)
    (hs : noSharedVars l₁ = true) : noSharedVars l₂ = true :=
  (noSharedVars_iff_pairwise l₂).mpr
    (h.pairwise ((noSharedVars_iff_pairwise l₁).mp hs) VarsDisjoint.symm)

/-- Generalisation of `renameAll_eq_of_noSharedVars` to any slot map that knows none of the variables. -/
theorem renameAll_eq_of_disjoint (fs : List (String × List VInstr)) (h : fs.Pairwise VarsDisjoint)
    (slots : List (String × Nat)) (hd : ∀ p ∈ fs, ∀ v ∈ varsOf p.2, slots.lookup v = none) :
    renameAll slots fs = fs.map fun (n, c) => (n, (renameCode [] 0 c).2) := by
  induction fs generalizing slots with
  | nil => simp [renameAll]
  | cons p rest ih =>
    obtain ⟨n, c⟩ := p
    rw [List.pairwise_cons] at h
    have hc : ∀ v ∈ varsOf c, slots.lookup v = none := hd (n, c) (by simp)
    have e := renameCode_append slots c hc [] 0
    simp only [List.nil_append] at e
    simp only [renameAll, e, List.map_cons]
    congr 1
    apply ih h.2
    intro q hq v hv
    rw [List.lookup_append]
    have h1 : (renameCode [] 0 c).1.lookup v = none :=
      renameCode_lookup_none c [] 0 v rfl (fun hvc => h.1 q hq v hvc hv)
    have h2 : slots.lookup v = none := hd q (List.mem_cons_of_mem _ hq) v hv
    simp [h1, h2]

/-- with no variable shared between two functions the shared slot map is irrelevant -/
theorem renameAll_eq_of_noSharedVars (fs : List (String × List VInstr)) (h : noSharedVars fs = true) :
    renameAll [] fs = fs.map fun (n, c) => (n, (renameCode [] 0 c).2) :=
  renameAll_eq_of_disjoint fs ((noSharedVars_iff_pairwise fs).mp h) [] (fun _ _ _ _ => rfl)

theorem perm_invariant_renameVariables_partial {l₁ l₂ : List (String × List VInstr)} (h : l₁.Perm l₂)
    (hs : noSharedVars l₁ = true) (hk : (l₁.map Prod.fst).Nodup) (k : String) :
    obsMap (renameAll [] l₁) k = obsMap (renameAll [] l₂) k := by
  rw [renameAll_eq_of_noSharedVars l₁ hs, renameAll_eq_of_noSharedVars l₂ (noSharedVars_perm h hs)]
  exact perm_invariant_rebuild (fun _ c => (renameCode [] 0 c).2) h hk k

/-- finding V12: a variable shared by two functions gets its slot from whichever function is visited first -/
theorem renameVariables_counterexample_V12 :
    ∃ l₁ l₂ : List (String × List VInstr), l₁.Perm l₂ ∧ (l₁.map Prod.fst).Nodup ∧
      obsMap (renameAll [] l₁) "g" ≠ obsMap (renameAll [] l₂) "g" := by
  refine ⟨[("f", [.setVar "a", .setVar "x"]), ("g", [.setVar "x"])],
    [("g", [.setVar "x"]), ("f", [.setVar "a", .setVar "x"])], List.Perm.swap _ _ _, by decide, by decide⟩

end Hms.Mod
