import HmsProofs.Lemmas.SimExec
/-!
# Semantic correctness of straight-line code (`exec_straight`)
-/
namespace HmsProofs.Sim
open Hms.Core Hms.Core.Comp Hms.Core.VM

/-! ## Fetching -/

theorem fetch_of (code : Code) (s : VMState) (f : Frame) (rest : List Frame) (c : List (RInstr × Span))
    (x : RInstr × Span) (hc : s.calls = f :: rest) (hf : findCode code f.fn = some c)
    (hx : c[f.ip]? = some x) : fetch code s = some x := by
  unfold fetch
  rw [hc]
  simp [hf, hx]

theorem done_calls (s : VMState) (n : Nat) (v : Val) (f : Frame) (rest : List Frame)
    (hc : s.calls = f :: rest) : (done s n v).calls = { f with ip := f.ip + n } :: rest := by
  simp [done, bumpIp, hc]

/-! ## Single instructions -/

theorem exec1_push (code : Code) (lim : Limits) (s : VMState) (pv : PVal) (sp : Span) (v : Val)
    (f : Frame) (rest : List Frame) (hc : s.calls = f :: rest)
    (hf : fetch code s = some (.copyPush pv, sp)) (hp : ∀ st, pvalToVal st pv = (v, st)) :
    exec1 code lim s = .next (done s 1 v) := by
  obtain ⟨stack, calls, mem, mp, handlers, iters, nextIter, globals, st, polls, steps⟩ := s
  simp only at hc
  subst hc
  unfold exec1
  rw [hf]
  simp only [step, hp]
  rfl

theorem exec1_getVar (code : Code) (lim : Limits) (s : VMState) (k : Nat) (sp : Span) (v : Val)
    (f : Frame) (rest : List Frame) (hc : s.calls = f :: rest)
    (hf : fetch code s = some (.getVar k, sp))
    (h0 : 0 ≤ s.mp - (k : Int)) (h1 : s.mp - (k : Int) < (lim.memory : Int))
    (hm : s.mem.lookup (s.mp - (k : Int)) = some v) :
    exec1 code lim s = .next (done s 1 v) := by
  obtain ⟨stack, calls, mem, mp, handlers, iters, nextIter, globals, st, polls, steps⟩ := s
  simp only at hc h0 h1 hm
  subst hc
  unfold exec1
  rw [hf]
  simp only [step, memGet, hm]
  rw [if_neg (by omega)]
  rfl

theorem step_pre (code : Code) (lim : Limits) (t : VMState) (op : PrefixOp) (sp : Span) (a v : Val)
    (oa : Option Org) (stk : List SVal) (lab : String → Nat) (σ : String → Nat)
    (hs : t.stack = ⟨a, oa⟩ :: stk) (hv : preOp op a = .ok v) :
    step code lim t (mapLV lab σ (preI op)) sp = .next (advance (push1 { t with stack := stk } v)) := by
  cases op <;> cases a <;> simp [preOp] at hv <;> subst hv <;> simp [preI, mapLV, step, pop1, hs]

theorem preOp_not_fatal (op : PrefixOp) (a : Val) (k m : String) (sp : Span) :
    preOp op a ≠ .error (.fatal k m sp) := by
  cases op <;> cases a <;> simp [preOp]

theorem step_arith (code : Code) (lim : Limits) (t : VMState) (op : InfixOp) (i : SInstr) (sp : Span)
    (lab : String → Nat) (σ : String → Nat) (h : arithI op = [i]) :
    step code lim t (mapLV lab σ i) sp = binArith op t sp := by
  cases op <;> simp [arithI] at h <;> subst h <;> rfl

theorem sameStore_done (s : VMState) (n : Nat) (v : Val) : SameStore s (done s n v) :=
  ⟨rfl, rfl, rfl, rfl, rfl⟩

theorem SameStore.trans {a b c : VMState} (h1 : SameStore a b) (h2 : SameStore b c) : SameStore a c := by
  obtain ⟨a1, a2, a3, a4, a5⟩ := h1
  obtain ⟨b1, b2, b3, b4, b5⟩ := h2
  exact ⟨b1.trans a1, b2.trans a2, b3.trans a3, b4.trans a4, b5.trans a5⟩

/-- An error raised by a prefix of the code is the error of the whole. -/
theorem Sim1.error_prefix {code lim s n st c st1} (m : Nat) (h : Sim1 code lim s n st (.error c, st1)) :
    Sim1 code lim s (n + m) st (.error c, st1) := by
  cases c <;> try trivial
  obtain ⟨h1, s', h2, h3⟩ := h
  refine ⟨h1, s', ?_, h3⟩
  rw [execN_add, h2]

/-- … also after a first part that ran to completion. -/
theorem Sim1.error_after {code lim s n s1 st c st2} (m k : Nat) (h0 : execN code lim n s = .next s1)
    (hss : SameStore s s1) (h : Sim1 code lim s1 m st (.error c, st2)) :
    Sim1 code lim s (n + m + k) st (.error c, st2) := by
  cases c <;> try trivial
  obtain ⟨h1, s', h2, h3⟩ := h
  refine ⟨h1, s', ?_, hss.trans h3⟩
  rw [execN_add, execN_add, h0]
  simp only [h2]

theorem done_done_stack (s : VMState) (n1 n2 : Nat) (a b : Val) :
    (done (done s n1 a) n2 b).stack = ⟨b, none⟩ :: ⟨a, none⟩ :: s.stack := rfl

/-- The binary operator instruction, executed on top of the two operand values. -/
theorem exec1_bin (code : Code) (lim : Limits) (s : VMState) (op : InfixOp) (i : SInstr) (sp : Span)
    (lab : String → Nat) (σ : String → Nat) (n1 n2 : Nat) (a b : Val) (st : St)
    (f : Frame) (rest : List Frame) (hc : s.calls = f :: rest)
    (hi : arithI op = [i]) (hne : op ≠ .ne)
    (hf : fetch code (done (done s n1 a) n2 b) = some (mapLV lab σ i, sp))
    (hheap : s.st.heap = st.heap) :
    match binOp op a b sp st with
    | (.ok v, _) => exec1 code lim (done (done s n1 a) n2 b) = .next (done s (n1 + n2 + 1) v)
    | (.error (.fatal k m fsp), _) =>
      ∃ s', exec1 code lim (done (done s n1 a) n2 b) = .intr (.fatal k m fsp) s' ∧ SameStore s s'
    | _ => True := by
  obtain ⟨stack, calls, mem, mp, handlers, iters, nextIter, globals, vst, polls, steps⟩ := s
  simp only at hc hheap
  subst hc
  have hho := binOp_heapOnly op a b sp st vst hheap
  simp only [done, bumpIp] at hf ⊢
  unfold exec1
  rw [hf]
  simp only []
  rw [step_arith code lim _ op i sp lab σ hi, binArith_eq op _ sp ⟨b, none⟩ ⟨a, none⟩ stack rfl]
  cases hk : okKinds op a b with
  | false =>
    obtain ⟨w, hw⟩ := binOp_unsup op a b sp st hk hne
    rw [hw]; trivial
  | true =>
    simp only [Bool.not_true, Bool.false_eq_true, if_false, runM]
    rw [hho]
    rcases hb : binOp op a b sp st with ⟨r, st'⟩
    cases r with
    | ok v =>
      simp only [advance, push1]
      simp only [Nat.add_assoc]
    | error c =>
      cases c <;> try trivial
      exact ⟨_, rfl, ⟨rfl, rfl, rfl, rfl, rfl⟩⟩

/-- A prefix operator instruction, executed on top of its operand value. -/
theorem exec1_pre (code : Code) (lim : Limits) (s : VMState) (op : PrefixOp) (sp : Span)
    (lab : String → Nat) (σ : String → Nat) (n : Nat) (a v : Val)
    (f : Frame) (rest : List Frame) (hc : s.calls = f :: rest)
    (hf : fetch code (done s n a) = some (mapLV lab σ (preI op), sp))
    (hv : preOp op a = .ok v) :
    exec1 code lim (done s n a) = .next (done s (n + 1) v) := by
  obtain ⟨stack, calls, mem, mp, handlers, iters, nextIter, globals, vst, polls, steps⟩ := s
  simp only at hc
  subst hc
  simp only [done, bumpIp] at hf ⊢
  unfold exec1
  rw [hf]
  simp only []
  rw [step_pre code lim _ op sp a v none stack lab σ rfl hv]
  simp only [advance, push1, Nat.add_assoc]

theorem fetch_done (code : Code) (s : VMState) (n : Nat) (v : Val) (f : Frame) (rest : List Frame)
    (c : List (RInstr × Span)) (x : RInstr × Span) (hc : s.calls = f :: rest)
    (hf : findCode code f.fn = some c) (hx : c[f.ip + n]? = some x) :
    fetch code (done s n v) = some x :=
  fetch_of code _ _ rest c x (done_calls s n v f rest hc) hf hx

theorem fetch_done_done (code : Code) (s : VMState) (n1 n2 : Nat) (a b : Val) (f : Frame) (rest : List Frame)
    (c : List (RInstr × Span)) (x : RInstr × Span) (hc : s.calls = f :: rest)
    (hf : findCode code f.fn = some c) (hx : c[f.ip + n1 + n2]? = some x) :
    fetch code (done (done s n1 a) n2 b) = some x :=
  fetch_done code _ n2 b _ rest c x (done_calls s n1 a f rest hc) hf hx

theorem arithI_cases (op : InfixOp) (h : Frag.isLogical op = false) :
    op = .ne ∨ (op ≠ .ne ∧ ∃ i, arithI op = [i]) := by
  cases op <;> simp [Frag.isLogical] at h <;> simp [arithI]

/-- **Semantic correctness of straight-line code.** See `Sim1` for the conclusion. -/
theorem exec_straight (cfg : Cfg) (code : Code) (lim : Limits) (ρ : String → Option String)
    (σ lab : String → Nat) :
    ∀ (fuel : Nat) (e : Expr) (st : St) (s : VMState) (f : Frame) (rest : List Frame)
      (c : List (RInstr × Span)),
      Frag.straight e = true →
      s.calls = f :: rest → findCode code f.fn = some c →
      CodeAt c f.ip ((cstraightSp ρ e).map (lower lab σ)) →
      EnvRel ρ σ lim (Frag.vars e) st.scopes s.mp s.mem →
      s.st.heap = st.heap →
      Sim1 code lim s (cstraightSp ρ e).length st (evalExpr cfg fuel e st) := by
  intro fuel
  induction fuel with
  | zero =>
    intro e st s f rest c _ _ _ _ _ _
    rw [evalExpr]
    trivial
  | succ fuel ih =>
    intro e st s f rest c hs hc hf hcode henv hheap
    have lit : ∀ (pv : PVal) (sp : Span) (v : Val), (∀ st, pvalToVal st pv = (v, st)) →
        CodeAt c f.ip [((Instr.copyPush pv : RInstr), sp)] →
        Sim1 code lim s 1 st (.ok v, st) := by
      intro pv sp v hp hcd
      refine ⟨rfl, ?_⟩
      rw [execN_one]
      exact exec1_push code lim s pv sp v f rest hc (fetch_of code s f rest c _ hc hf hcd.head) hp
    cases e <;> simp only [Frag.straight, Bool.false_eq_true] at hs
    case int sp v => rw [evalExpr]; exact lit (.int v) sp _ (fun _ => rfl) hcode
    case bool sp b => rw [evalExpr]; exact lit (.bool b) sp _ (fun _ => rfl) hcode
    case str sp b => rw [evalExpr]; exact lit (.str b) sp _ (fun _ => rfl) hcode
    case null sp => rw [evalExpr]; exact lit .null sp _ (fun _ => rfl) hcode
    case none sp => rw [evalExpr]; exact lit .noneOpt sp _ (fun _ => rfl) hcode
    case grouped sp e =>
      rw [evalExpr]
      exact ih e st s f rest c hs hc hf hcode henv hheap
    case ident sp ty name isGlobal isFn isSingleton =>
      obtain ⟨m, v, hρ, hl, h0, h1, hm⟩ := henv name (by simp [Frag.vars])
      rw [evalExpr_ident _ _ _ _ _ _ _ _ _ v hl]
      simp only [cstraightSp, hρ] at hcode ⊢
      refine ⟨rfl, ?_⟩
      rw [List.length_singleton, execN_one]
      exact exec1_getVar code lim s (σ m) sp v f rest hc
        (fetch_of code s f rest c _ hc hf hcode.head) h0 h1 hm
    case pre sp ty op e =>
      simp only [cstraightSp, List.map_append, List.map_cons, List.map_nil] at hcode
      obtain ⟨hc1, hc2⟩ := hcode.append
      simp only [List.length_map] at hc2
      have h1 := ih e st s f rest c hs hc hf hc1 henv hheap
      rw [evalExpr_pre]
      simp only [cstraightSp, List.length_append, List.length_singleton]
      rcases he : evalExpr cfg fuel e st with ⟨r1, st1⟩
      rw [he] at h1
      cases r1 with
      | error c1 => exact h1.error_prefix 1
      | ok a =>
        obtain ⟨rfl, hx⟩ := h1
        simp only []
        cases hp : preOp op a with
        | error c' =>
          cases c' <;> try trivial
          exact absurd hp (preOp_not_fatal _ _ _ _ _)
        | ok v =>
          refine ⟨rfl, ?_⟩
          rw [execN_add, hx]
          simp only []
          rw [execN_one]
          exact exec1_pre code lim s op sp lab σ _ a v f rest hc
            (fetch_done code s _ a f rest c _ hc hf hc2.head) hp
    case «infix» sp ty op l r =>
      simp only [Bool.and_eq_true, Bool.not_eq_eq_eq_not, Bool.not_true] at hs
      obtain ⟨⟨hop, hl⟩, hr⟩ := hs
      simp only [cstraightSp, List.map_append, List.map_map] at hcode
      obtain ⟨hc12, hc3⟩ := hcode.append
      obtain ⟨hc1, hc2⟩ := hc12.append
      simp only [List.length_map, List.length_append] at hc2 hc3
      have h1 := ih l st s f rest c hl hc hf hc1
        (henv.mono (by intro x hx; simp [Frag.vars, hx])) hheap
      rw [evalExpr_infix _ _ _ _ _ _ _ _ hop]
      simp only [cstraightSp, List.length_append, List.length_map]
      rcases hel : evalExpr cfg fuel l st with ⟨r1, st1⟩
      rw [hel] at h1
      cases r1 with
      | error c1 => rw [Nat.add_assoc]; exact h1.error_prefix _
      | ok a =>
        obtain ⟨rfl, hx1⟩ := h1
        simp only []
        have h2 := ih r st1 (done s (cstraightSp ρ l).length a) _ rest c hr
          (done_calls s _ a f rest hc) hf hc2
          (henv.mono (by intro x hx; simp [Frag.vars, hx])) hheap
        rcases her : evalExpr cfg fuel r st1 with ⟨r2, st2⟩
        rw [her] at h2
        cases r2 with
        | error c2 => exact h2.error_after _ _ hx1 (sameStore_done ..)
        | ok b =>
          obtain ⟨rfl, hx2⟩ := h2
          simp only []
          have hrun : ∀ k, execN code lim ((cstraightSp ρ l).length + (cstraightSp ρ r).length + k) s =
              execN code lim k (done (done s (cstraightSp ρ l).length a) (cstraightSp ρ r).length b) := by
            intro k
            rw [execN_add, execN_add, hx1]
            simp only [hx2]
          rcases arithI_cases op hop with rfl | ⟨hne, i, hi⟩
          · -- `!=` is `eq; not`
            simp only [arithI, List.map_cons, List.map_nil] at hc3
            have hfe := fetch_done_done code s _ _ a b f rest c _ hc hf (by rw [Nat.add_assoc]; exact hc3.head)
            have hfn : c[f.ip + ((cstraightSp ρ l).length + (cstraightSp ρ r).length + 1)]? =
                some (mapLV lab σ (preI .not), sp) := by
              have := hc3 1 (by simp)
              rw [Nat.add_assoc] at this
              exact this
            have hbin := exec1_bin code lim s .eq .eq sp lab σ _ _ a b st2 f rest hc rfl (by decide) hfe hheap
            rw [binOp_ne_run]
            rw [binOp_eq_run] at hbin
            cases hv : valEq st2.heap 64 a b with
            | none => trivial
            | some q =>
              rw [hv] at hbin
              simp only [] at hbin
              refine ⟨rfl, ?_⟩
              simp only [arithI, List.length_cons, List.length_nil]
              rw [hrun]
              show execN code lim (1 + 1) _ = _
              rw [execN_add, execN_one, hbin]
              simp only []
              rw [execN_one]
              have := exec1_pre code lim s .not sp lab σ _ (.bool q) (.bool (!q)) f rest hc
                (fetch_done code s _ _ f rest c _ hc hf hfn) rfl
              rw [this]
          · rw [hi] at hc3 ⊢
            simp only [List.map_cons, List.map_nil] at hc3
            have hfe := fetch_done_done code s _ _ a b f rest c _ hc hf (by rw [Nat.add_assoc]; exact hc3.head)
            have hbin := exec1_bin code lim s op i sp lab σ _ _ a b st2 f rest hc hi hne hfe hheap
            simp only [List.length_singleton]
            rcases hb : binOp op a b sp st2 with ⟨rb, st3⟩
            have hst3 : st3 = st2 := by
              have := (binOp_heapOnly op a b sp).state st2
              rw [hb] at this; exact this
            subst hst3
            rw [hb] at hbin
            cases rb with
            | ok v =>
              refine ⟨rfl, ?_⟩
              rw [hrun, execN_one]
              exact hbin
            | error cb =>
              cases cb <;> try trivial
              obtain ⟨s', hs', hss⟩ := hbin
              refine ⟨rfl, s', ?_, hss⟩
              rw [hrun, execN_one]
              exact hs'

/-! ## `execN` is what `runQuantum` does -/

theorem runQuantum_exec1 (code : Code) (lim : Limits) (n : Nat) (s : VMState) :
    (∀ s', exec1 code lim s = .next s' → runQuantum code lim (n + 1) s = runQuantum code lim n s') ∧
    (∀ k m sp s', exec1 code lim s = .intr (.fatal k m sp) s' →
      runQuantum code lim (n + 1) s = .inr (.fatal k m sp s')) := by
  unfold exec1 fetch
  rw [runQuantum]
  cases hc : s.calls with
  | nil => simp
  | cons f rest =>
    simp only []
    cases hf : findCode code f.fn with
    | none => simp
    | some c =>
      simp only [Option.bind_some]
      cases hi : c[f.ip]? with
      | none => simp
      | some x =>
        obtain ⟨i, sp⟩ := x
        have hne : c.isEmpty = false := by
          cases c with
          | nil => simp at hi
          | cons _ _ => rfl
        simp only [hne, Bool.false_eq_true, if_false]
        constructor
        · intro s' h; rw [h]
        · intro k m fsp s' h; rw [h]

/-- `n` successful `execN` steps are `n` iterations of the VM's inner loop. -/
theorem runQuantum_of_execN (code : Code) (lim : Limits) (m : Nat) : ∀ (n : Nat) (s s' : VMState),
    execN code lim n s = .next s' → runQuantum code lim (n + m) s = runQuantum code lim m s' := by
  intro n
  induction n with
  | zero => intro s s' h; simp only [execN] at h; cases h; simp
  | succ n ih =>
    intro s s' h
    simp only [execN] at h
    cases h1 : exec1 code lim s with
    | next s1 =>
      rw [h1] at h
      rw [Nat.add_right_comm, (runQuantum_exec1 code lim (n + m) s).1 s1 h1]
      exact ih s1 s' h
    | intr i s1 => rw [h1] at h; cases h
    | panic w s1 => rw [h1] at h; cases h

/-- A fatal interrupt met by `execN` ends the VM's run with that fatal outcome. -/
theorem runQuantum_of_execN_fatal (code : Code) (lim : Limits) (m : Nat) : ∀ (n : Nat) (s s' : VMState)
    (k msg : String) (sp : Span),
    execN code lim n s = .intr (.fatal k msg sp) s' →
    runQuantum code lim (n + m) s = .inr (.fatal k msg sp s') := by
  intro n
  induction n with
  | zero => intro s s' k msg sp h; simp only [execN] at h; cases h
  | succ n ih =>
    intro s s' k msg sp h
    simp only [execN] at h
    cases h1 : exec1 code lim s with
    | next s1 =>
      rw [h1] at h
      rw [Nat.add_right_comm, (runQuantum_exec1 code lim (n + m) s).1 s1 h1]
      exact ih s1 s' k msg sp h
    | intr i s1 =>
      rw [h1] at h
      cases h
      rw [Nat.add_right_comm]
      exact (runQuantum_exec1 code lim (n + m) s).2 k msg sp s' h1
    | panic w s1 => rw [h1] at h; cases h

end HmsProofs.Sim
