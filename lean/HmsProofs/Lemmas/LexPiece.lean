import HmsProofs.Lemmas.LexStep
import HmsProofs.Lemmas.LexLoc
/-! The step lemma: a successful `nextPiece` yields a piece meeting the specification; a failing one reports a span inside the input. -/
namespace HmsProofs.Lemmas.LexPiece
open Hms Hms.Lex HmsProofs.Lemmas.LexStep HmsProofs.Lemmas.LexLoc

/-- What one successful step establishes about the piece it produced. -/
def pieceOK (loc : Loc) (p : Piece) (rest : List Char) : Prop :=
  match p with
  | .token t lx => lx ≠ [] ∧ Spec.lexemeOK t.kind lx t.value = true ∧ t.start = loc
      ∧ t.stop = loc.advanceBy lx.dropLast ∧ maxOK t.kind lx rest.head? = true
  | p => Spec.triviaOK p rest.isEmpty = true

theorem maxOK_string (lx : List Char) (next : Option Char) : maxOK .string lx next = true := by
  have hk1 : Spec.isOperatorKind .string = false := by decide
  have hk2 : Spec.isKeywordKind .string = false := by decide
  have hk3 : (TokKind.string == TokKind.identifier) = false := by decide
  have hk4 : (TokKind.string == TokKind.int) = false := by decide
  cases next with
  | none => rfl
  | some c => simp [maxOK, hk1, hk2, hk3, hk4]

theorem lexemeOK_string (q : Char) (hq : q = '\'' ∨ q = '"') (body v : List Char)
    (h : ∀ f, body.length + 1 ≤ f → Spec.decodeBody q f body = some v) :
    Spec.lexemeOK .string (q :: body ++ [q]) v = true := by
  have hk1 : Spec.isOperatorKind .string = false := by decide
  have hk2 : Spec.isKeywordKind .string = false := by decide
  have hq' : (q == '"' || q == '\'') = true := by
    rcases hq with rfl | rfl <;> decide
  simp only [Spec.lexemeOK, hk1, hk2, Bool.false_eq_true, if_false, List.cons_append, hq', Bool.true_and]
  rw [List.getLast?_concat, List.dropLast_concat, h _ (by simp)]
  simp

theorem nextPiece_ok (loc : Loc) (c : Char) (cs : List Char) (p : Piece) (rest : List Char)
    (h : nextPiece loc c cs = .ok (p, rest)) :
    p.chars ++ rest = c :: cs ∧ p.chars ≠ [] ∧ pieceOK loc p rest := by
  unfold nextPiece at h
  split at h
  · rename_i hsp
    simp only [Except.ok.injEq, Prod.mk.injEq] at h
    obtain ⟨rfl, rfl⟩ := h
    refine ⟨rfl, by simp [Piece.chars], ?_⟩
    simp only [pieceOK, Spec.triviaOK]
    exact hsp
  split at h
  · rename_i hsp hcm
    obtain ⟨rfl, hh⟩ := hcm
    obtain ⟨tl, rfl⟩ : ∃ tl, cs = '/' :: tl := by
      cases cs with
      | nil => simp at hh
      | cons x xs => simp at hh; exact ⟨xs, by rw [hh]⟩
    simp only [List.tail_cons] at h
    have h1 := (lineBody_spec tl).1
    have h2 := lineComment_ok tl
    generalize lineBody tl = lb at *
    obtain ⟨body, r⟩ := lb
    simp only [Except.ok.injEq, Prod.mk.injEq] at h
    obtain ⟨rfl, rfl⟩ := h
    simp only at h1 h2
    exact ⟨by simp [Piece.chars, h1], by simp [Piece.chars], h2⟩
  split at h
  · rename_i hsp hcm1 hcm
    obtain ⟨rfl, hh⟩ := hcm
    obtain ⟨tl, rfl⟩ : ∃ tl, cs = '*' :: tl := by
      cases cs with
      | nil => simp at hh
      | cons x xs => simp at hh; exact ⟨xs, by rw [hh]⟩
    simp only [List.tail_cons] at h
    have h1 := blockBody_append tl
    have h2 := blockComment_ok tl
    generalize blockBody tl = lb at *
    obtain ⟨body, r⟩ := lb
    simp only [Except.ok.injEq, Prod.mk.injEq] at h
    obtain ⟨rfl, rfl⟩ := h
    simp only at h1 h2
    exact ⟨by simp [Piece.chars, h1], by simp [Piece.chars], h2⟩
  split at h
  · rename_i hq
    have hq' : c ≠ '\\' := by rcases hq with rfl | rfl <;> decide
    split at h
    · rename_i v body r hs
      simp only [Except.ok.injEq, Prod.mk.injEq] at h
      obtain ⟨rfl, rfl⟩ := h
      obtain ⟨s1, s2⟩ := stringBody_ok c hq' _ _ _ _ _ hs
      refine ⟨by simp [Piece.chars, ← s1], by simp [Piece.chars], ?_⟩
      exact ⟨by simp, lexemeOK_string c hq body v s2, rfl, rfl, maxOK_string _ _⟩
    · simp at h
    · simp at h
  split at h
  · rename_i ht
    split at h
    · simp only [Except.ok.injEq, Prod.mk.injEq] at h
      obtain ⟨rfl, rfl⟩ := h
      subst ht
      refine ⟨rfl, by simp [Piece.chars], ?_⟩
      refine ⟨by simp, (by decide : Spec.lexemeOK .tildeArrow ['~', '>'] ['~', '>'] = true), rfl, rfl,
        maxOK_op .tildeArrow _ _ (by decide) ?_⟩
      intro c' _
      simp [opPairs]
    · simp at h
  split at h
  · rename_i k lx hm
    simp only [Except.ok.injEq, Prod.mk.injEq] at h
    obtain ⟨rfl, rfl⟩ := h
    obtain ⟨m1, m2, m3, m4⟩ := matchOp_spec c cs k lx hm
    have hlen : lx.length = lx.toList.length := String.length_toList.symm
    rw [hlen]
    exact ⟨m1, m2, m2, m3, rfl, rfl, m4⟩
  · split at h
    · rename_i hd
      obtain ⟨n1, n2, n3, n4⟩ := number_spec c cs hd
      generalize number c cs = nb at *
      obtain ⟨k, lx, r⟩ := nb
      simp only [Except.ok.injEq, Prod.mk.injEq] at h
      obtain ⟨rfl, rfl⟩ := h
      exact ⟨n1, n2, n2, n3, rfl, rfl, n4⟩
    · split at h
      · rename_i hl
        obtain ⟨n1, n2⟩ := name_spec c cs hl
        have n0 := (spanWhile_spec (fun x => isDigit x || isLetter x) cs).1
        generalize spanWhile (fun x => isDigit x || isLetter x) cs = sp at *
        obtain ⟨tail, r⟩ := sp
        simp only [Except.ok.injEq, Prod.mk.injEq] at h
        obtain ⟨rfl, rfl⟩ := h
        simp only at n0 n1 n2
        exact ⟨by simp [Piece.chars, n0], by simp [Piece.chars], by simp, n1, rfl, rfl, n2⟩
      · simp at h


/-- A failing step reports a span inside the remaining input. -/
theorem nextPiece_err (loc : Loc) (c : Char) (cs : List Char) (e : LexErr)
    (h : nextPiece loc c cs = .error e) :
    ∃ a b r, a ++ b ++ r = c :: cs ∧ e.start = loc.advanceBy a ∧ e.stop = loc.advanceBy (a ++ b) := by
  unfold nextPiece at h
  split at h
  · simp at h
  split at h
  · generalize lineBody cs.tail = lb at h
    obtain ⟨body, r⟩ := lb
    simp at h
  split at h
  · generalize blockBody cs.tail = lb at h
    obtain ⟨body, r⟩ := lb
    simp at h
  split at h
  · split at h
    · simp at h
    · rename_i consumed hs
      obtain ⟨r, hr⟩ := (stringBody_err c _ cs).1 _ hs
      simp only [Except.error.injEq] at h
      subst h
      exact ⟨[], c :: consumed, r, by simp [hr], rfl, rfl⟩
    · rename_i k before consumed hs
      obtain ⟨r, hr⟩ := (stringBody_err c _ cs).2 _ _ _ hs
      simp only [Except.error.injEq] at h
      subst h
      exact ⟨c :: before, consumed, r, by simp [← hr], rfl, rfl⟩
  split at h
  · split at h
    · simp at h
    · simp only [Except.error.injEq] at h
      subst h
      exact ⟨[c], [], cs, by simp, rfl, rfl⟩
  split at h
  · simp at h
  · split at h
    · generalize number c cs = nb at h
      obtain ⟨k, lx, r⟩ := nb
      simp at h
    · split at h
      · generalize spanWhile (fun x => isDigit x || isLetter x) cs = sp at h
        obtain ⟨tail, r⟩ := sp
        simp at h
      · simp only [Except.error.injEq] at h
        subst h
        exact ⟨[], [], c :: cs, by simp, rfl, rfl⟩

end HmsProofs.Lemmas.LexPiece
