import Hms.Fuzz.Rules
/-!
# Soundness of the loop-control guard

`stmtCCL s = false` (the model of `!stmtCanControlLoop(s)`) implies that evaluating `s` never ends
in `break` or `continue`, at any fuel and in any state: the two control transfers only originate
from `break;` / `continue;` statements, propagate through expressions and blocks, and are consumed
by the nearest enclosing loop (`loopRun`, `forRun`) or function activation (`callBody`); every
primitive of the evaluator (`NE_*` lemmas below) raises other errors only. The proof is one
induction on the fuel over all functions of the mutual evaluator (`CCLAt`).
-/
namespace HmsProofs.Lemmas.Fuzz
open Hms Hms.Core Hms.Fuzz

/-- A result that is not a loop exit. -/
def NoExit {α : Type} (r : Except Ctl α) : Prop := r ≠ .error .brk ∧ r ≠ .error .cont

/-- A computation that never ends in `break` / `continue`. -/
structure NE {α : Type} (m : M α) : Prop where
  h : ∀ st, NoExit (m st).1

theorem NE_pure {α : Type} (a : α) : NE (pure a : M α) := by
  constructor; intro st; exact ⟨by simp [pure, ExceptT.pure, ExceptT.mk, StateT.pure], by simp [pure, ExceptT.pure, ExceptT.mk, StateT.pure]⟩

def notExit : Ctl → Bool
  | .brk | .cont => false
  | _ => true

theorem NE_throw {α : Type} (c : Ctl) (h : notExit c = true) : NE (throwCtl c : M α) := by
  constructor; intro st
  simp only [throwCtl, throw, throwThe, MonadExceptOf.throw, ExceptT.mk, pure, StateT.pure]
  constructor <;> (intro e; injection e with e; subst e; simp [notExit] at h)

theorem NE_bind {α β : Type} (m : M α) (f : α → M β) (hm : NE m) (hf : ∀ a, NE (f a)) : NE (m >>= f) := by
  constructor; intro st
  simp only [bind, ExceptT.bind, ExceptT.mk, StateT.bind, ExceptT.bindCont]
  cases h : m st with
  | mk r s1 =>
    cases r with
    | ok a => exact (hf a).h s1
    | error c =>
      have := hm.h st
      rw [h] at this
      simp only [pure, StateT.pure]
      exact ⟨fun e => this.1 (by injection e with e; rw [e]), fun e => this.2 (by injection e with e; rw [e])⟩

theorem NE_get : NE (get : M St) := by
  constructor; intro st
  simp [NoExit, get, getThe, MonadStateOf.get, liftM, monadLift, MonadLift.monadLift, ExceptT.lift, ExceptT.mk, StateT.get,
    Functor.map, StateT.map, pure, StateT.pure, bind, StateT.bind]

theorem NE_set (s : St) : NE (set s : M Unit) := by
  constructor; intro st
  simp [NoExit, set, MonadStateOf.set, liftM, monadLift, MonadLift.monadLift, ExceptT.lift, ExceptT.mk, StateT.set,
    Functor.map, StateT.map, pure, StateT.pure, bind, StateT.bind]

theorem NE_modify (f : St → St) : NE (modify f : M Unit) := by
  constructor; intro st
  simp [NoExit, modify, modifyGet, MonadStateOf.modifyGet, liftM, monadLift, MonadLift.monadLift, ExceptT.lift, ExceptT.mk,
    StateT.modifyGet, Functor.map, StateT.map, pure, StateT.pure, bind, StateT.bind]

theorem NE_map {α β : Type} (g : α → β) (m : M α) (hm : NE m) : NE (g <$> m) := by
  constructor; intro st
  have := hm.h st
  simp only [Functor.map, ExceptT.map, ExceptT.mk, bind, StateT.bind, pure, StateT.pure]
  cases h : m st with
  | mk r s1 =>
    rw [h] at this
    cases r with
    | ok a => exact ⟨by simp [StateT.pure, pure], by simp [StateT.pure, pure]⟩
    | error c =>
      simp only [StateT.pure, pure]
      exact ⟨fun e => this.1 (by injection e with e; rw [e]), fun e => this.2 (by injection e with e; rw [e])⟩

/-- One step of the structural proof that a computation built from the combinators never exits. -/
macro "ne_step" : tactic => `(tactic| first
  | exact NE_pure _
  | exact NE_get
  | exact NE_set _
  | exact NE_modify _
  | (apply NE_throw; rfl)
  | assumption
  | apply NE_bind
  | apply NE_map
  | intro _
  | split
  | dsimp only)

macro "ne" : tactic => `(tactic| repeat ne_step)

theorem NE_readCell (a : Nat) : NE (readCell a) := by unfold readCell; ne
theorem NE_writeCell (a : Nat) (c : Cell) : NE (writeCell a c) := by unfold writeCell; ne
theorem NE_alloc (c : Cell) : NE (alloc c) := by unfold alloc; ne
theorem NE_declare (n : String) (v : Val) : NE (declare n v) := by unfold declare; ne
theorem NE_emit (t : String) : NE (emit t) := by unfold emit; ne
theorem NE_displayM (v : Val) : NE (displayM v) := by unfold displayM; ne
theorem NE_eqM (a b : Val) : NE (eqM a b) := by unfold eqM; ne
theorem NE_intOp (op : InfixOp) (a b : I64) (sp : Span) : NE (intOp op a b sp) := by unfold intOp; ne
theorem NE_floatOp (op : InfixOp) (a b : Float) (sp : Span) : NE (floatOp op a b sp) := by unfold floatOp; ne
theorem NE_boolOp (op : InfixOp) (a b : Bool) : NE (boolOp op a b) := by unfold boolOp; ne

theorem NE_mapM {α β : Type} (f : α → M β) (hf : ∀ a, NE (f a)) : ∀ xs : List α, NE (xs.mapM f)
  | [] => by simp only [List.mapM_nil]; exact NE_pure _
  | x :: xs => by
    simp only [List.mapM_cons]
    exact NE_bind _ _ (hf x) (fun b => NE_bind _ _ (NE_mapM f hf xs) (fun bs => NE_pure _))

theorem NE_forIn {α β : Type} (f : α → β → M (ForInStep β)) (hf : ∀ a b, NE (f a b)) :
    ∀ (xs : List α) (init : β), NE (forIn xs init f)
  | [], init => by simp only [List.forIn_nil]; exact NE_pure _
  | x :: xs, init => by
    simp only [List.forIn_cons]
    refine NE_bind _ _ (hf x init) ?_
    intro r
    cases r with
    | done b => exact NE_pure _
    | yield b => exact NE_forIn f hf xs b

theorem NE_inScope {α : Type} (m : M α) (hm : NE m) : NE (inScope m) := by
  constructor; intro st
  have h1 : NE (pushScope *> m) := by
    have : (pushScope *> m) = (pushScope >>= fun _ => m) := by
      simp [SeqRight.seqRight, bind, ExceptT.bind, ExceptT.mk, ExceptT.bindCont, ExceptT.map, Functor.map]
    rw [this]
    exact NE_bind _ _ (by unfold pushScope; exact NE_modify _) (fun _ => hm)
  have := h1.h st
  simp only [inScope]
  exact this

theorem NE_binOp (op : InfixOp) (a b : Val) (sp : Span) : NE (binOp op a b sp) := by
  unfold binOp
  repeat (first | exact NE_eqM _ _ | exact NE_intOp _ _ _ _ | exact NE_floatOp _ _ _ _ | exact NE_boolOp _ _ _ | ne_step)

theorem NE_readPlace (pl : Place) : NE (readPlace pl) := by
  unfold readPlace
  repeat (first | exact NE_readCell _ | ne_step)

theorem NE_writePlace (pl : Place) (v : Val) : NE (writePlace pl v) := by
  unfold writePlace
  repeat (first | exact NE_readCell _ | exact NE_writeCell _ _ | ne_step)

theorem NE_indexVal (b i : Val) (sp : Span) : NE (indexVal b i sp) := by
  unfold indexVal
  repeat (first | exact NE_readCell _ | ne_step)

theorem NE_memberVal (b : Val) (n : String) (op : MemberOp) (sp : Span) : NE (memberVal b n op sp) := by
  unfold memberVal
  repeat (first | exact NE_readCell _ | ne_step)

theorem NE_iterElems (v : Val) : NE (iterElems v) := by
  unfold iterElems
  repeat (first | exact NE_readCell _ | ne_step)

theorem NE_callBuiltin (n : String) (vs : List Val) (sp : Span) : NE (callBuiltin n vs sp) := by
  unfold callBuiltin
  repeat (first | exact NE_displayM _ | exact NE_emit _ | (apply NE_mapM; intro _) | ne_step)

macro "ne_lib" : tactic => `(tactic| first
  | exact NE_displayM _
  | exact NE_eqM _ _
  | exact NE_readCell _
  | exact NE_writeCell _ _
  | exact NE_alloc _
  | (apply NE_mapM; intro _)
  | (apply NE_forIn; intro _ _)
  | ne_step)

theorem NE_floatToIntM (f : Float) : NE (floatToIntM f) := by unfold floatToIntM; ne
theorem NE_floatIsIntM (f : Float) : NE (floatIsIntM f) := by unfold floatIsIntM; ne

theorem NE_floatMember (f : Float) (n : String) (vs : List Val) : NE (floatMember f n vs) := by
  unfold floatMember
  repeat (first | exact NE_floatToIntM _ | exact NE_floatIsIntM _ | ne_lib)

theorem NE_strconvErr {α : Type} (fn s why : String) (sp : Span) : NE (strconvErr fn s why sp : M α) := by
  unfold strconvErr; ne
theorem NE_strSubstring (s : String) (vs : List Val) (sp : Span) : NE (strSubstring s vs sp) := by
  unfold strSubstring; ne
theorem NE_strReplace (s : String) (vs : List Val) : NE (strReplace s vs) := by unfold strReplace; ne
theorem NE_strSplit (s : String) (vs : List Val) : NE (strSplit s vs) := by unfold strSplit; repeat ne_lib
theorem NE_strToUpper (s : String) : NE (strToUpper s) := by unfold strToUpper; ne
theorem NE_strToLower (s : String) : NE (strToLower s) := by unfold strToLower; ne
theorem NE_strParseInt (s : String) (sp : Span) : NE (strParseInt s sp) := by
  unfold strParseInt; repeat (first | exact NE_strconvErr _ _ _ _ | ne_step)
theorem NE_strParseBool (s : String) (sp : Span) : NE (strParseBool s sp) := by
  unfold strParseBool; repeat (first | exact NE_strconvErr _ _ _ _ | ne_step)
theorem NE_strParseFloat (s : String) (sp : Span) : NE (strParseFloat s sp) := by
  unfold strParseFloat; repeat (first | exact NE_strconvErr _ _ _ _ | ne_step)

theorem NE_jsonUnmodelled {α : Type} : NE (jsonUnmodelled : M α) := by unfold jsonUnmodelled; ne

/-- `pjValue` / `pjElems` / `pjMembers` at one fuel. -/
structure ParseJsonNE (n : Nat) : Prop where
  val : ∀ cs, NE (pjValue n cs)
  elems : ∀ cs acc, NE (pjElems n cs acc)
  members : ∀ cs acc, NE (pjMembers n cs acc)

theorem parseJsonNE : ∀ n, ParseJsonNE n := by
  intro n
  induction n with
  | zero =>
    constructor <;> intros <;> simp only [pjValue, pjElems, pjMembers] <;> exact NE_jsonUnmodelled
  | succ n ih =>
    refine ⟨?_, ?_, ?_⟩
    · intro cs
      simp only [pjValue]
      repeat (first | exact ih.val _ | exact ih.elems _ _ | exact ih.members _ _ | exact NE_jsonUnmodelled | ne_lib)
    · intro cs acc
      simp only [pjElems]
      repeat (first | exact ih.val _ | exact ih.elems _ _ | exact ih.members _ _ | exact NE_jsonUnmodelled | ne_lib)
    · intro cs acc
      simp only [pjMembers]
      repeat (first | exact ih.val _ | exact ih.elems _ _ | exact ih.members _ _ | exact NE_jsonUnmodelled | ne_lib)

theorem NE_strParseJson (s : String) : NE (strParseJson s) := by
  unfold strParseJson
  repeat (first | exact (parseJsonNE _).val _ | exact NE_jsonUnmodelled | ne_lib)

theorem NE_toJsonM (indent : Bool) (v : Val) : NE (toJsonM indent v) := by unfold toJsonM; ne

theorem NE_strCompareLev (s : String) (vs : List Val) : NE (strCompareLev s vs) := by unfold strCompareLev; ne

theorem NE_strMember (s : String) (n : String) (vs : List Val) (sp : Span) : NE (strMember s n vs sp) := by
  unfold strMember
  repeat (first | exact NE_strSubstring _ _ _ | exact NE_strReplace _ _ | exact NE_strSplit _ _ | exact NE_strToUpper _ | exact NE_strToLower _ | exact NE_strParseInt _ _ | exact NE_strParseBool _ _ | exact NE_strParseFloat _ _ | exact NE_strParseJson _ | exact NE_strCompareLev _ _ | ne_step)

theorem NE_listSort (a : Nat) (xs : List Val) : NE (listSort a xs) := by
  unfold listSort
  repeat ne_lib

theorem NE_kindNameM (v : Val) : NE (kindNameM v) := by
  unfold kindNameM
  repeat ne_lib

theorem NE_typeKindNameM (v : Val) : NE (typeKindNameM v) := by
  unfold typeKindNameM
  repeat ne_lib

set_option maxHeartbeats 1000000 in
theorem NE_callMember (recv : Val) (n : String) (vs : List Val) (sp : Span) : NE (callMember recv n vs sp) := by
  unfold callMember
  repeat (first | exact NE_floatMember _ _ _ | exact NE_strMember _ _ _ _ | exact NE_listSort _ _ | exact NE_typeKindNameM _ | exact NE_toJsonM _ _ | ne_lib)

theorem NE_castIncompat {α : Type} (v : Val) (t : Ty) (path : String) (sp : Span) :
    NE (castIncompat v t path sp : M α) := by
  unfold castIncompat
  repeat (first | exact NE_kindNameM _ | ne_lib)

/-- `deepClone` / `deepCloneList` / `deepCloneFields` at one fuel. -/
structure CloneNE (n : Nat) : Prop where
  val : ∀ v, NE (deepClone n v)
  list : ∀ xs, NE (deepCloneList n xs)
  fields : ∀ fs, NE (deepCloneFields n fs)

theorem cloneNE : ∀ n, CloneNE n := by
  intro n
  induction n with
  | zero =>
    constructor <;> intros <;> simp only [deepClone, deepCloneList, deepCloneFields] <;> exact NE_throw _ rfl
  | succ n ih =>
    refine ⟨?_, ?_, ?_⟩
    · intro v
      cases v <;> simp only [deepClone] <;>
        repeat (first | exact ih.val _ | exact ih.list _ | exact ih.fields _ | ne_lib)
    · intro xs
      cases xs <;> simp only [deepCloneList] <;>
        repeat (first | exact ih.val _ | exact ih.list _ | exact ih.fields _ | ne_lib)
    · intro fs
      cases fs with
      | nil => simp only [deepCloneFields]; exact NE_pure _
      | cons f fs =>
        obtain ⟨k, x⟩ := f
        simp only [deepCloneFields]
        repeat (first | exact ih.val _ | exact ih.list _ | exact ih.fields _ | ne_lib)

/-- `castVal` / `castList` / `castFields` at one fuel. -/
structure CastNE (n : Nat) : Prop where
  val : ∀ v t allow path sp, NE (castVal n v t allow path sp)
  list : ∀ xs t allow path idx sp, NE (castList n xs t allow path idx sp)
  fields : ∀ fs tfs allow path sp, NE (castFields n fs tfs allow path sp)

theorem castNE : ∀ n, CastNE n := by
  intro n
  induction n with
  | zero =>
    constructor <;> intros <;> simp only [castVal, castList, castFields] <;> exact NE_throw _ rfl
  | succ n ih =>
    refine ⟨?_, ?_, ?_⟩
    · intro v t allow path sp
      simp only [castVal]
      repeat (first | exact ih.val _ _ _ _ _ | exact ih.list _ _ _ _ _ _ | exact ih.fields _ _ _ _ _ | exact NE_castIncompat _ _ _ _ | exact NE_floatToIntM _ | exact (cloneNE _).fields _ | ne_lib)
    · intro xs t allow path idx sp
      cases xs <;> simp only [castList] <;>
        repeat (first | exact ih.val _ _ _ _ _ | exact ih.list _ _ _ _ _ _ | ne_lib)
    · intro fs tfs allow path sp
      cases fs with
      | nil => simp only [castFields]; exact NE_pure _
      | cons f fs =>
        obtain ⟨k, x⟩ := f
        simp only [castFields]
        repeat (first | exact ih.val _ _ _ _ _ | exact ih.fields _ _ _ _ _ | ne_lib)

theorem NE_castVal (n : Nat) (v : Val) (t : Ty) (allow : Bool) (path : String) (sp : Span) :
    NE (castVal n v t allow path sp) := (castNE n).val v t allow path sp

end HmsProofs.Lemmas.Fuzz

namespace HmsProofs.Lemmas.Fuzz
open Hms Hms.Core Hms.Fuzz

theorem listCCL_args (as : List (String × Expr)) : listCCL (as.map (·.2)) = argsCCL as := by
  induction as with
  | nil => rfl
  | cons a as ih => obtain ⟨k, e⟩ := a; simp [listCCL, argsCCL, ih]

/-- The guard is sound at fuel `n` for every function of the evaluator. -/
structure CCLAt (cfg : Cfg) (n : Nat) : Prop where
  expr : ∀ e, exprCCL e = false → NE (evalExpr cfg n e)
  list : ∀ es, listCCL es = false → NE (evalList cfg n es)
  fields : ∀ fs, fieldsCCL fs = false → NE (evalFields cfg n fs)
  arms : ∀ v as d, armsCCL as = false → optExprCCL d = false →
    NE (evalArms cfg n v as d)
  anyLit : ∀ v ls, listCCL ls = false → NE (anyLit cfg n v ls)
  place : ∀ e, exprCCL e = false → NE (evalPlace cfg n e)
  call : ∀ sp b as, exprCCL b = false → argsCCL as = false → NE (evalCall cfg n sp b as)
  apply : ∀ sp f vs, NE (applyFn cfg n sp f vs)
  body : ∀ sp m ps b vs, NE (callBody cfg n sp m ps b vs)
  block : ∀ b, blockCCL b = false → NE (evalBlock cfg n b)
  stmts : ∀ ss, stmtsCCL ss = false → NE (evalStmts cfg n ss)
  stmt : ∀ s, stmtCCL s = false → NE (evalStmt cfg n s)
  loop : ∀ c b, optExprCCL c = false → NE (loopRun cfg n c b)
  for_ : ∀ nm xs b, NE (forRun cfg n nm xs b)

theorem cclAt_zero (cfg : Cfg) : CCLAt cfg 0 := by
  constructor <;> intros <;>
    simp only [evalExpr, evalList, evalFields, evalArms, anyLit, evalPlace, evalCall, applyFn, callBody, evalBlock,
      evalStmts, evalStmt, loopRun, forRun] <;> exact NE_throw _ rfl

end HmsProofs.Lemmas.Fuzz

namespace HmsProofs.Lemmas.Fuzz
open Hms Hms.Core Hms.Fuzz

set_option hygiene false in
/-- Recursive calls by the induction hypothesis `ih` (side conditions from the guard `h`). -/
macro "ccl_rec" : tactic => `(tactic| first
  | exact ih.apply _ _ _
  | exact ih.body _ _ _ _ _
  | exact ih.for_ _ _ _
  | focus (apply ih.expr; simp_all [exprCCL, optExprCCL, optBlockCCL, listCCL, fieldsCCL, argsCCL, armsCCL, stmtCCL, blockCCL, stmtsCCL]; done)
  | focus (apply ih.list; simp_all [exprCCL, optExprCCL, optBlockCCL, listCCL, fieldsCCL, argsCCL, armsCCL, stmtCCL, blockCCL, stmtsCCL, listCCL_args]; done)
  | focus (apply ih.fields; simp_all [exprCCL, optExprCCL, optBlockCCL, listCCL, fieldsCCL, argsCCL, armsCCL, stmtCCL, blockCCL, stmtsCCL]; done)
  | focus (apply ih.anyLit; simp_all [exprCCL, optExprCCL, optBlockCCL, listCCL, fieldsCCL, argsCCL, armsCCL, stmtCCL, blockCCL, stmtsCCL]; done)
  | focus (apply ih.place; simp_all [exprCCL, optExprCCL, optBlockCCL, listCCL, fieldsCCL, argsCCL, armsCCL, stmtCCL, blockCCL, stmtsCCL]; done)
  | focus (apply ih.block; simp_all [exprCCL, optExprCCL, optBlockCCL, listCCL, fieldsCCL, argsCCL, armsCCL, stmtCCL, blockCCL, stmtsCCL]; done)
  | focus (apply ih.stmts; simp_all [exprCCL, optExprCCL, optBlockCCL, listCCL, fieldsCCL, argsCCL, armsCCL, stmtCCL, blockCCL, stmtsCCL]; done)
  | focus (apply ih.stmt; simp_all [exprCCL, optExprCCL, optBlockCCL, listCCL, fieldsCCL, argsCCL, armsCCL, stmtCCL, blockCCL, stmtsCCL]; done)
  | focus (apply ih.loop; simp_all [exprCCL, optExprCCL, optBlockCCL, listCCL, fieldsCCL, argsCCL, armsCCL, stmtCCL, blockCCL, stmtsCCL]; done)
  | focus (apply ih.call <;> simp_all [exprCCL, optExprCCL, optBlockCCL, listCCL, fieldsCCL, argsCCL, armsCCL, stmtCCL, blockCCL, stmtsCCL]; done)
  | focus (apply ih.arms <;> simp_all [exprCCL, optExprCCL, optBlockCCL, listCCL, fieldsCCL, argsCCL, armsCCL, stmtCCL, blockCCL, stmtsCCL]; done))

macro "ne_more" : tactic => `(tactic| first
  | exact NE_binOp _ _ _ _
  | exact NE_readPlace _
  | exact NE_writePlace _ _
  | exact NE_indexVal _ _ _
  | exact NE_memberVal _ _ _ _
  | exact NE_iterElems _
  | exact NE_callBuiltin _ _ _
  | exact NE_callMember _ _ _ _
  | exact NE_declare _ _
  | exact NE_castVal _ _ _ _ _ _
  | apply NE_inScope
  | ne_lib)

macro "ccl" : tactic => `(tactic| repeat (first | ccl_rec | ne_more))

theorem ccl_list (cfg : Cfg) (n : Nat) (ih : CCLAt cfg n) :
    ∀ es, listCCL es = false → NE (evalList cfg (n+1) es) := by
  intro es h
  cases es <;> simp only [evalList] <;> ccl

theorem ccl_fields (cfg : Cfg) (n : Nat) (ih : CCLAt cfg n) :
    ∀ fs, fieldsCCL fs = false → NE (evalFields cfg (n+1) fs) := by
  intro fs h
  cases fs with
  | nil => simp only [evalFields]; ccl
  | cons f fs => obtain ⟨k, e⟩ := f; simp only [evalFields]; ccl

theorem ccl_stmts (cfg : Cfg) (n : Nat) (ih : CCLAt cfg n) :
    ∀ ss, stmtsCCL ss = false → NE (evalStmts cfg (n+1) ss) := by
  intro ss h
  cases ss <;> simp only [evalStmts] <;> ccl

theorem ccl_block (cfg : Cfg) (n : Nat) (ih : CCLAt cfg n) :
    ∀ b, blockCCL b = false → NE (evalBlock cfg (n+1) b) := by
  intro b h
  cases b with
  | mk sp ty ss e => cases e <;> simp only [evalBlock] <;> ccl

end HmsProofs.Lemmas.Fuzz

namespace HmsProofs.Lemmas.Fuzz
open Hms Hms.Core Hms.Fuzz

theorem ccl_arms (cfg : Cfg) (n : Nat) (ih : CCLAt cfg n) :
    ∀ v as d, armsCCL as = false → optExprCCL d = false →
      NE (evalArms cfg (n+1) v as d) := by
  intro v as d h hd
  cases as with
  | nil => cases d <;> simp only [evalArms] <;> ccl
  | cons a as => obtain ⟨lits, act⟩ := a; simp only [evalArms]; ccl

theorem ccl_anyLit (cfg : Cfg) (n : Nat) (ih : CCLAt cfg n) :
    ∀ v ls, listCCL ls = false → NE (anyLit cfg (n+1) v ls) := by
  intro v ls h
  cases ls <;> simp only [anyLit] <;> ccl

theorem ccl_place (cfg : Cfg) (n : Nat) (ih : CCLAt cfg n) :
    ∀ e, exprCCL e = false → NE (evalPlace cfg (n+1) e) := by
  intro e h
  cases e <;> simp only [evalPlace] <;> ccl

theorem ccl_call (cfg : Cfg) (n : Nat) (ih : CCLAt cfg n) :
    ∀ sp b as, exprCCL b = false → argsCCL as = false → NE (evalCall cfg (n+1) sp b as) := by
  intro sp b as h1 h2
  simp only [evalCall]; ccl

theorem ccl_apply (cfg : Cfg) (n : Nat) (ih : CCLAt cfg n) :
    ∀ sp f vs, NE (applyFn cfg (n+1) sp f vs) := by
  intro sp f vs
  cases f <;> simp only [applyFn] <;> ccl

end HmsProofs.Lemmas.Fuzz

namespace HmsProofs.Lemmas.Fuzz
open Hms Hms.Core Hms.Fuzz

theorem noExit_of_ne {α : Type} {c : Ctl} (h1 : c ≠ .brk) (h2 : c ≠ .cont) : NoExit (Except.error c : Except Ctl α) :=
  ⟨fun e => h1 (by injection e), fun e => h2 (by injection e)⟩

theorem ccl_body (cfg : Cfg) (n : Nat) :
    ∀ sp m ps b vs, NE (callBody cfg (n+1) sp m ps b vs) := by
  intro sp m ps b vs
  constructor; intro st
  simp only [callBody]
  split
  · exact noExit_of_ne (by simp) (by simp)
  · split
    · exact noExit_of_ne (by simp) (by simp)
    · split
      · exact noExit_of_ne (by simp) (by simp)
      · split
        split
        · exact ⟨by simp, by simp⟩
        · exact noExit_of_ne (by simp) (by simp)
        · exact noExit_of_ne (by simp) (by simp)
        · rename_i h1 h2 h3
          exact ⟨fun e => h2 e, fun e => h3 e⟩

end HmsProofs.Lemmas.Fuzz

namespace HmsProofs.Lemmas.Fuzz
open Hms Hms.Core Hms.Fuzz

set_option hygiene false in
/-- The part of `loopRun` after the condition: run the body, interpret `break` / `continue`. -/
macro "loop_tail" : tactic => `(tactic| focus (
  constructor; intro st; split
  · exact ⟨by simp, by simp⟩
  · exact (ih.loop _ _ h).h _
  · exact (ih.loop _ _ h).h _
  · rename_i h1 h2 h3
    refine ⟨fun e => ?_, fun e => ?_⟩
    · injection e with e; subst e; exact h1 _ rfl
    · injection e with e; subst e; exact h2 _ rfl))

set_option hygiene false in
/-- The part of `loopRun` after the condition: run the body, interpret `break` / `continue`. -/
macro "loop_tail" : tactic => `(tactic| focus (
  constructor; intro st; split
  · exact ⟨by simp, by simp⟩
  · refine (ih.loop _ _ ?_).h _; exact h
  · refine (ih.loop _ _ ?_).h _; exact h
  · rename_i h1 h2 h3
    refine ⟨fun e => ?_, fun e => ?_⟩
    · injection e with e; subst e; exact h1 rfl
    · injection e with e; subst e; exact h2 rfl))

theorem ccl_loop (cfg : Cfg) (n : Nat) (ih : CCLAt cfg n) :
    ∀ c b, optExprCCL c = false → NE (loopRun cfg (n+1) c b) := by
  intro c b h
  simp only [loopRun]
  split
  · repeat (first | loop_tail | ne_more)
  · rename_i c1
    repeat (first | loop_tail | (focus (apply ih.expr; simpa [optExprCCL] using h)) | ne_more)

end HmsProofs.Lemmas.Fuzz

namespace HmsProofs.Lemmas.Fuzz
open Hms Hms.Core Hms.Fuzz

theorem ccl_for (cfg : Cfg) (n : Nat) (ih : CCLAt cfg n) :
    ∀ nm xs b, NE (forRun cfg (n+1) nm xs b) := by
  intro nm xs b
  cases xs with
  | nil => simp only [forRun]; exact NE_pure _
  | cons x xs =>
    simp only [forRun]
    constructor; intro st; split
    · exact ⟨by simp, by simp⟩
    · exact (ih.for_ _ _ _).h _
    · exact (ih.for_ _ _ _).h _
    · rename_i h1 h2 h3
      refine ⟨fun e => ?_, fun e => ?_⟩
      · injection e with e; subst e; exact h1 rfl
      · injection e with e; subst e; exact h2 rfl

theorem ccl_stmt (cfg : Cfg) (n : Nat) (ih : CCLAt cfg n) :
    ∀ s, stmtCCL s = false → NE (evalStmt cfg (n+1) s) := by
  intro s h
  cases s <;> simp only [evalStmt] <;> ccl
  all_goals simp [stmtCCL] at h

end HmsProofs.Lemmas.Fuzz

namespace HmsProofs.Lemmas.Fuzz
open Hms Hms.Core Hms.Fuzz

theorem ccl_expr (cfg : Cfg) (n : Nat) (ih : CCLAt cfg n) :
    ∀ e, exprCCL e = false → NE (evalExpr cfg (n+1) e) := by
  intro e h
  cases e
  case tryE sp ty t id c =>
    simp only [evalExpr]
    have ht : NE (inScope (evalBlock cfg n t)) := by ccl
    constructor; intro st
    split
    · rename_i msg tsp s' heq
      have hc : NE (inScope (do
          let o ← alloc (.obj [("message", .str msg), ("line", .int (I64.ofInt tsp.sl)),
            ("column", .int (I64.ofInt tsp.sc)), ("filename", .str s'.module)])
          declare id o
          evalBlock cfg n c)) := by ccl
      exact hc.h s'
    · exact ht.h st
  all_goals (simp only [evalExpr]; ccl)

theorem ccl_all (cfg : Cfg) : ∀ n, CCLAt cfg n := by
  intro n
  induction n with
  | zero => exact cclAt_zero cfg
  | succ n ih =>
    exact {
      expr := ccl_expr cfg n ih, list := ccl_list cfg n ih, fields := ccl_fields cfg n ih
      arms := ccl_arms cfg n ih, anyLit := ccl_anyLit cfg n ih, place := ccl_place cfg n ih
      call := ccl_call cfg n ih, apply := ccl_apply cfg n ih, body := ccl_body cfg n
      block := ccl_block cfg n ih, stmts := ccl_stmts cfg n ih, stmt := ccl_stmt cfg n ih
      loop := ccl_loop cfg n ih, for_ := ccl_for cfg n ih }

end HmsProofs.Lemmas.Fuzz
