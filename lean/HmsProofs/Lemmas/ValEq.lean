import Hms.Value.Val
/-! Lemmas for C13: `isEqual` is an equivalence on well-formed data values. -/
namespace HmsProofs.Lemmas.ValEq
open Hms.Value

/-! ### Lists of keys -/

theorem nodupKeys_cons {k : String} {ks : List String} :
    nodupKeys (k :: ks) = true ↔ k ∉ ks ∧ nodupKeys ks = true := by
  simp [nodupKeys]

/-- Pigeonhole: a duplicate-free list contained in a list of the same length exhausts it. -/
theorem subset_of_nodup_length : ∀ (l1 l2 : List String), nodupKeys l1 = true → (∀ x ∈ l1, x ∈ l2) →
    l1.length = l2.length → ∀ y ∈ l2, y ∈ l1
  | [], l2, _, _, hl, y, hy => by
    have : l2 = [] := List.length_eq_zero_iff.mp hl.symm
    subst this; simp at hy
  | a :: t, l2, hn, hs, hl, y, hy => by
    rw [nodupKeys_cons] at hn
    have ha : a ∈ l2 := hs a (by simp)
    have hlen : (l2.erase a).length = t.length := by
      rw [List.length_erase_of_mem ha]; simp at hl; omega
    have hsub : ∀ x ∈ t, x ∈ l2.erase a := by
      intro x hx
      have hne : x ≠ a := fun e => hn.1 (e ▸ hx)
      exact (List.mem_erase_of_ne hne).mpr (hs x (by simp [hx]))
    have ih := subset_of_nodup_length t (l2.erase a) hn.2 hsub hlen.symm
    by_cases hya : y = a
    · simp [hya]
    · have : y ∈ l2.erase a := (List.mem_erase_of_ne hya).mpr hy
      simp [ih y this]

/-! ### Field lists as finite maps -/

theorem keys_length : ∀ (fs : Fields), fs.keys.length = fs.length
  | .nil => rfl
  | .cons k v fs => by simp [Fields.keys, Fields.length, keys_length fs]

theorem mem_keys_of_mem : ∀ (fs : Fields) (k : String) (a : Val), (k, a) ∈ fs.toList → k ∈ fs.keys
  | .nil, k, a, h => by simp [Fields.toList] at h
  | .cons k' v fs, k, a, h => by
    simp only [Fields.toList, List.mem_cons, Prod.mk.injEq] at h
    rcases h with ⟨rfl, _⟩ | h
    · simp [Fields.keys]
    · simp [Fields.keys, mem_keys_of_mem fs k a h]

theorem lookup_mem : ∀ (fs : Fields) (k : String) (a : Val), fs.lookup k = .some a → (k, a) ∈ fs.toList
  | .nil, k, a, h => by simp [Fields.lookup] at h
  | .cons k' v fs, k, a, h => by
    simp only [Fields.lookup] at h
    split at h
    · rename_i e; cases h; simp [Fields.toList, e]
    · simp [Fields.toList, lookup_mem fs k a h]

theorem lookup_of_mem_keys : ∀ (fs : Fields) (k : String), k ∈ fs.keys → ∃ a, fs.lookup k = .some a
  | .nil, k, h => by simp [Fields.keys] at h
  | .cons k' v fs, k, h => by
    simp only [Fields.lookup]
    by_cases e : k' = k
    · exact ⟨v, by simp [e]⟩
    · simp only [Fields.keys, List.mem_cons] at h
      rcases h with h | h
      · exact absurd h.symm e
      · simpa [e] using lookup_of_mem_keys fs k h

theorem lookup_none_of_not_mem : ∀ (fs : Fields) (k : String), k ∉ fs.keys → fs.lookup k = .none
  | .nil, k, _ => by simp [Fields.lookup]
  | .cons k' v fs, k, h => by
    simp only [Fields.keys, List.mem_cons, not_or] at h
    have : k' ≠ k := fun e => h.1 e.symm
    simp [Fields.lookup, this, lookup_none_of_not_mem fs k h.2]

/-- In a duplicate-free field list, membership determines lookup. -/
theorem lookup_of_mem_nodup : ∀ (fs : Fields) (k : String) (a : Val), nodupKeys fs.keys = true →
    (k, a) ∈ fs.toList → fs.lookup k = .some a
  | .nil, k, a, _, h => by simp [Fields.toList] at h
  | .cons k' v fs, k, a, hn, h => by
    simp only [Fields.keys] at hn
    rw [nodupKeys_cons] at hn
    simp only [Fields.toList, List.mem_cons, Prod.mk.injEq] at h
    rcases h with ⟨rfl, rfl⟩ | h
    · simp [Fields.lookup]
    · have hk : k ∈ fs.keys := mem_keys_of_mem fs k a h
      have : k' ≠ k := fun e => hn.1 (e ▸ hk)
      simp [Fields.lookup, this, lookup_of_mem_nodup fs k a hn.2 h]

theorem mem_data : ∀ (fs : Fields), fs.data = true → ∀ k a, (k, a) ∈ fs.toList → a.data = true
  | .nil, _, k, a, hm => by simp [Fields.toList] at hm
  | .cons k' a' as, hw, k, a, hm => by
    simp only [Fields.data, Bool.and_eq_true] at hw
    simp only [Fields.toList, List.mem_cons, Prod.mk.injEq] at hm
    rcases hm with ⟨rfl, rfl⟩ | hm
    · exact hw.1
    · exact mem_data as hw.2 k a hm

/-- A duplicate-free list contained in another is no longer than it. -/
theorem length_le_of_nodup_subset : ∀ (l1 l2 : List String), nodupKeys l1 = true → (∀ x ∈ l1, x ∈ l2) →
    l1.length ≤ l2.length
  | [], l2, _, _ => by simp
  | a :: t, l2, hn, hs => by
    rw [nodupKeys_cons] at hn
    have ha : a ∈ l2 := hs a (by simp)
    have hsub : ∀ x ∈ t, x ∈ l2.erase a := by
      intro x hx
      have hne : x ≠ a := fun e => hn.1 (e ▸ hx)
      exact (List.mem_erase_of_ne hne).mpr (hs x (by simp [hx]))
    have ih := length_le_of_nodup_subset t (l2.erase a) hn.2 hsub
    rw [List.length_erase_of_mem ha] at ih
    have : 0 < l2.length := List.length_pos_of_mem ha
    simp; omega

/-- `isEqualIn` says: every listed field has an equal partner of that name on the right. -/
theorem isEqualIn_iff : ∀ (as gs : Fields), Fields.isEqualIn as gs = true ↔
    ∀ k a, (k, a) ∈ as.toList → ∃ b, gs.lookup k = .some b ∧ Val.isEqual a b = true
  | .nil, gs => by simp [Fields.isEqualIn, Fields.toList]
  | .cons k a as, gs => by
    simp only [Fields.isEqualIn, Bool.and_eq_true, isEqualIn_iff as gs, Fields.toList, List.mem_cons,
      Prod.mk.injEq]
    constructor
    · rintro ⟨h1, h2⟩ k' a' (⟨rfl, rfl⟩ | h)
      · cases hl : gs.lookup k' with
        | none => simp [hl] at h1
        | some b => exact ⟨b, rfl, by simpa [hl] using h1⟩
      · exact h2 k' a' h
    · intro h
      refine ⟨?_, fun k' a' hm => h k' a' (Or.inr hm)⟩
      obtain ⟨b, hb, he⟩ := h k a (Or.inl ⟨rfl, rfl⟩)
      simp [hb, he]

/-! ### Reflexivity -/

mutual
theorem isEqual_refl : ∀ (v : Val), v.wf = true → v.data = true → v.isEqual v = true
  | .null, _, _ => by simp [Val.isEqual]
  | .int _, _, _ => by simp [Val.isEqual]
  | .flt _, _, _ => by simp [Val.isEqual]
  | .bool _, _, _ => by simp [Val.isEqual]
  | .str _, _, _ => by simp [Val.isEqual]
  | .none, _, _ => by simp [Val.isEqual]
  | .range .., _, _ => by simp [Val.isEqual]
  | .fn, _, hd => by simp [Val.data] at hd
  | .some v, hw, hd => by
    simp only [Val.wf, Val.data] at hw hd
    simp [Val.isEqual, isEqual_refl v hw hd]
  | .list xs, hw, hd => by
    simp only [Val.wf, Val.data] at hw hd
    simp [Val.isEqual, isEqual_refl_vals xs hw hd]
  | .obj fs, hw, hd => by
    simp only [Val.wf, Val.data, Bool.and_eq_true] at hw hd
    simp [Val.isEqual, isEqualIn_refl fs hw.2 hd hw.1 fs (fun _ _ => rfl)]
  | .anyobj fs, hw, hd => by
    simp only [Val.wf, Val.data, Bool.and_eq_true] at hw hd
    simp [Val.isEqual, isEqualIn_refl fs hw.2 hd hw.1 fs (fun _ _ => rfl)]
theorem isEqual_refl_vals : ∀ (xs : Vals), xs.wf = true → xs.data = true → Vals.isEqual xs xs = true
  | .nil, _, _ => by simp [Vals.isEqual]
  | .cons x xs, hw, hd => by
    simp only [Vals.wf, Vals.data, Bool.and_eq_true] at hw hd
    simp [Vals.isEqual, isEqual_refl x hw.1 hd.1, isEqual_refl_vals xs hw.2 hd.2]
theorem isEqualIn_refl : ∀ (as : Fields), as.wf = true → as.data = true → nodupKeys as.keys = true →
    ∀ (gs : Fields), (∀ q, q ∈ as.keys → gs.lookup q = as.lookup q) → Fields.isEqualIn as gs = true
  | .nil, _, _, _, _, _ => by simp [Fields.isEqualIn]
  | .cons k a as, hw, hd, hn, gs, hl => by
    simp only [Fields.wf, Fields.data, Bool.and_eq_true] at hw hd
    simp only [Fields.keys] at hn hl
    rw [nodupKeys_cons] at hn
    have h1 : gs.lookup k = .some a := by rw [hl k (by simp)]; simp [Fields.lookup]
    have h2 : ∀ q, q ∈ as.keys → gs.lookup q = as.lookup q := by
      intro q hq
      have : k ≠ q := fun e => hn.1 (e ▸ hq)
      rw [hl q (by simp [hq])]; simp [Fields.lookup, this]
    simp [Fields.isEqualIn, h1, isEqual_refl a hw.1 hd.1, isEqualIn_refl as hw.2 hd.2 hn.2 gs h2]
end

/-! ### Symmetry -/

/-- Symmetry of the field comparison, given symmetry for the field values on the left. -/
theorem isEqualIn_symm (fs gs : Fields) (hnf : nodupKeys fs.keys = true) (hng : nodupKeys gs.keys = true)
    (hl : fs.length = gs.length) (h : Fields.isEqualIn fs gs = true)
    (ih : ∀ k a, (k, a) ∈ fs.toList → ∀ b, (k, b) ∈ gs.toList → a.isEqual b = true → b.isEqual a = true) :
    Fields.isEqualIn gs fs = true := by
  rw [isEqualIn_iff] at h ⊢
  intro k b hb
  have hsub : ∀ x ∈ fs.keys, x ∈ gs.keys := by
    intro x hx
    obtain ⟨a, ha⟩ := lookup_of_mem_keys fs x hx
    obtain ⟨b', hb', _⟩ := h x a (lookup_mem fs x a ha)
    exact mem_keys_of_mem gs x b' (lookup_mem gs x b' hb')
  have hk : k ∈ fs.keys :=
    subset_of_nodup_length fs.keys gs.keys hnf hsub (by simp [keys_length, hl]) k (mem_keys_of_mem gs k b hb)
  obtain ⟨a, ha⟩ := lookup_of_mem_keys fs k hk
  obtain ⟨b', hb', hab⟩ := h k a (lookup_mem fs k a ha)
  have : b' = b := by
    have := lookup_of_mem_nodup gs k b hng hb
    rw [this] at hb'; cases hb'; rfl
  subst this
  exact ⟨a, ha, ih k a (lookup_mem fs k a ha) b' hb hab⟩

theorem mem_wf : ∀ (fs : Fields), fs.wf = true → ∀ k a, (k, a) ∈ fs.toList → a.wf = true
  | .nil, _, k, a, hm => by simp [Fields.toList] at hm
  | .cons k' a' as, hw, k, a, hm => by
    simp only [Fields.wf, Bool.and_eq_true] at hw
    simp only [Fields.toList, List.mem_cons, Prod.mk.injEq] at hm
    rcases hm with ⟨rfl, rfl⟩ | hm
    · exact hw.1
    · exact mem_wf as hw.2 k a hm

mutual
theorem isEqual_symm : ∀ (a b : Val), a.wf = true → b.wf = true → a.isEqual b = true → b.isEqual a = true
  | .null, b, _, _, h => by cases b <;> simp [Val.isEqual] at h ⊢
  | .int _, b, _, _, h => by cases b <;> simp [Val.isEqual] at h ⊢; exact h.symm
  | .flt _, b, _, _, h => by cases b <;> simp [Val.isEqual] at h ⊢; exact h.symm
  | .bool _, b, _, _, h => by cases b <;> simp [Val.isEqual] at h ⊢; exact h.symm
  | .str _, b, _, _, h => by cases b <;> simp [Val.isEqual] at h ⊢; exact h.symm
  | .none, b, _, _, h => by cases b <;> simp [Val.isEqual] at h ⊢
  | .range .., b, _, _, h => by
    cases b <;> simp [Val.isEqual] at h ⊢
    obtain ⟨⟨h1, h2⟩, h3⟩ := h
    simp [h1, h2, h3]
  | .fn, b, _, _, h => by simp [Val.isEqual] at h
  | .some a, b, hwa, hwb, h => by
    cases b <;> simp [Val.isEqual] at h ⊢
    simp only [Val.wf] at hwa hwb
    exact isEqual_symm a _ hwa hwb h
  | .list xs, b, hwa, hwb, h => by
    cases b <;> simp [Val.isEqual] at h ⊢
    simp only [Val.wf] at hwa hwb
    exact ⟨h.1.symm, isEqual_symm_vals xs _ hwa hwb h.1 h.2⟩
  | .obj fs, b, hwa, hwb, h => by
    cases b <;> simp [Val.isEqual] at h ⊢
    rename_i gs
    simp only [Val.wf, Bool.and_eq_true] at hwa hwb
    exact ⟨h.1.symm, isEqualIn_symm fs gs hwa.1 hwb.1 h.1 h.2
      (fun k a hm b hb => isEqual_symm_fields fs hwa.2 k a hm b (mem_wf gs hwb.2 k b hb))⟩
  | .anyobj fs, b, hwa, hwb, h => by
    cases b <;> simp [Val.isEqual] at h ⊢
    rename_i gs
    simp only [Val.wf, Bool.and_eq_true] at hwa hwb
    exact ⟨h.1.symm, isEqualIn_symm fs gs hwa.1 hwb.1 h.1 h.2
      (fun k a hm b hb => isEqual_symm_fields fs hwa.2 k a hm b (mem_wf gs hwb.2 k b hb))⟩
theorem isEqual_symm_vals : ∀ (xs ys : Vals), xs.wf = true → ys.wf = true → xs.length = ys.length →
    Vals.isEqual xs ys = true → Vals.isEqual ys xs = true
  | .nil, ys, _, _, hl, _ => by
    cases ys with
    | nil => simp [Vals.isEqual]
    | cons y ys => simp [Vals.length] at hl
  | .cons x xs, ys, hwa, hwb, hl, h => by
    cases ys with
    | nil => simp [Vals.isEqual] at h
    | cons y ys =>
      simp only [Vals.isEqual, Bool.and_eq_true, Vals.wf, Vals.length] at h hwa hwb hl ⊢
      exact ⟨isEqual_symm x y hwa.1 hwb.1 h.1, isEqual_symm_vals xs ys hwa.2 hwb.2 (by omega) h.2⟩
theorem isEqual_symm_fields : ∀ (as : Fields), as.wf = true → ∀ k a, (k, a) ∈ as.toList →
    ∀ b, b.wf = true → a.isEqual b = true → b.isEqual a = true
  | .nil, _, k, a, hm => by simp [Fields.toList] at hm
  | .cons k' a' as, hw, k, a, hm => by
    simp only [Fields.wf, Bool.and_eq_true] at hw
    simp only [Fields.toList, List.mem_cons, Prod.mk.injEq] at hm
    rcases hm with ⟨rfl, rfl⟩ | hm
    · exact fun b hb h => isEqual_symm a b hw.1 hb h
    · exact isEqual_symm_fields as hw.2 k a hm
end

/-! ### Transitivity (no hypothesis on the values) -/

theorem isEqualIn_trans (fs gs hs : Fields) (h1 : Fields.isEqualIn fs gs = true) (h2 : Fields.isEqualIn gs hs = true)
    (ih : ∀ k a, (k, a) ∈ fs.toList → ∀ b c, a.isEqual b = true → b.isEqual c = true → a.isEqual c = true) :
    Fields.isEqualIn fs hs = true := by
  rw [isEqualIn_iff] at h1 h2 ⊢
  intro k a ha
  obtain ⟨b, hb, hab⟩ := h1 k a ha
  obtain ⟨c, hc, hbc⟩ := h2 k b (lookup_mem gs k b hb)
  exact ⟨c, hc, ih k a ha b c hab hbc⟩

mutual
theorem isEqual_trans : ∀ (a b c : Val), a.isEqual b = true → b.isEqual c = true → a.isEqual c = true
  | .null, b, c, h1, h2 => by cases b <;> simp [Val.isEqual] at h1; cases c <;> simp [Val.isEqual] at h2 ⊢
  | .int _, b, c, h1, h2 => by
    cases b <;> simp [Val.isEqual] at h1; cases c <;> simp [Val.isEqual] at h2 ⊢; exact h1.trans h2
  | .flt _, b, c, h1, h2 => by
    cases b <;> simp [Val.isEqual] at h1; cases c <;> simp [Val.isEqual] at h2 ⊢; exact h1.trans h2
  | .bool _, b, c, h1, h2 => by
    cases b <;> simp [Val.isEqual] at h1; cases c <;> simp [Val.isEqual] at h2 ⊢; exact h1.trans h2
  | .str _, b, c, h1, h2 => by
    cases b <;> simp [Val.isEqual] at h1; cases c <;> simp [Val.isEqual] at h2 ⊢; exact h1.trans h2
  | .none, b, c, h1, h2 => by cases b <;> simp [Val.isEqual] at h1; cases c <;> simp [Val.isEqual] at h2 ⊢
  | .range .., b, c, h1, h2 => by
    cases b <;> simp [Val.isEqual] at h1; cases c <;> simp [Val.isEqual] at h2 ⊢
    obtain ⟨⟨a1, a2⟩, a3⟩ := h1
    obtain ⟨⟨b1, b2⟩, b3⟩ := h2
    exact ⟨⟨a1.trans b1, a2.trans b2⟩, a3.trans b3⟩
  | .fn, b, c, h1, h2 => by simp [Val.isEqual] at h1
  | .some a, b, c, h1, h2 => by
    cases b <;> simp [Val.isEqual] at h1; cases c <;> simp [Val.isEqual] at h2 ⊢
    exact isEqual_trans a _ _ h1 h2
  | .list xs, b, c, h1, h2 => by
    cases b <;> simp [Val.isEqual] at h1; cases c <;> simp [Val.isEqual] at h2 ⊢
    exact ⟨h1.1.trans h2.1, isEqual_trans_vals xs _ _ h1.2 h2.2⟩
  | .obj fs, b, c, h1, h2 => by
    cases b <;> simp [Val.isEqual] at h1; cases c <;> simp [Val.isEqual] at h2 ⊢
    exact ⟨h1.1.trans h2.1, isEqualIn_trans fs _ _ h1.2 h2.2 (isEqual_trans_fields fs)⟩
  | .anyobj fs, b, c, h1, h2 => by
    cases b <;> simp [Val.isEqual] at h1; cases c <;> simp [Val.isEqual] at h2 ⊢
    exact ⟨h1.1.trans h2.1, isEqualIn_trans fs _ _ h1.2 h2.2 (isEqual_trans_fields fs)⟩
theorem isEqual_trans_vals : ∀ (xs ys zs : Vals), Vals.isEqual xs ys = true → Vals.isEqual ys zs = true →
    Vals.isEqual xs zs = true
  | .nil, _, _, _, _ => by simp [Vals.isEqual]
  | .cons x xs, ys, zs, h1, h2 => by
    cases ys with
    | nil => simp [Vals.isEqual] at h1
    | cons y ys =>
      cases zs with
      | nil => simp [Vals.isEqual] at h2
      | cons z zs =>
        simp only [Vals.isEqual, Bool.and_eq_true] at h1 h2 ⊢
        exact ⟨isEqual_trans x y z h1.1 h2.1, isEqual_trans_vals xs ys zs h1.2 h2.2⟩
theorem isEqual_trans_fields : ∀ (as : Fields) k a, (k, a) ∈ as.toList →
    ∀ b c, a.isEqual b = true → b.isEqual c = true → a.isEqual c = true
  | .nil, k, a, hm => by simp [Fields.toList] at hm
  | .cons k' a' as, k, a, hm => by
    simp only [Fields.toList, List.mem_cons, Prod.mk.injEq] at hm
    rcases hm with ⟨rfl, rfl⟩ | hm
    · exact fun b c => isEqual_trans a b c
    · exact isEqual_trans_fields as k a hm
end

end HmsProofs.Lemmas.ValEq
