import HmsProofs.Lemmas.SimHAll
/-!
# A function without trailing expression (the entry function `main`): the whole call
-/
namespace HmsProofs.Sim
open Hms.Core Hms.Core.Comp Hms.Core.VM

/-- The function `g` with definition `fd` — parameters, statements, *no* trailing expression — is
in the fragment, and `I.c` is its code as the VM runs it. -/
structure FnVoidOK (G : GCtx) (g : String) (fd : FnDef) (I : FnInfo) (stmts : List Stmt) : Prop where
  name : fd.name = g
  body : ∃ bsp bty, fd.body = .mk bsp bty stmts none
  params : ∀ p ∈ fd.params, p.isSingleton = false
  code : findCode G.code (mangleFnName G.mod g) = some I.c
  placed : Placed I.lab I.σ I.c 0 (cgFn G.mod I.φ fd stmts none I.scopes0 I.vm0 I.lm0)
  inj : ∀ a b, I.N a → I.N b → I.σ a = I.σ b → a = b
  vars : ∀ m ∈ codeVars (cgFn G.mod I.φ fd stmts none I.scopes0 I.vm0 I.lm0), I.N m
  slot : ∀ m, I.N m → I.σ m < (fnParts G.mod I.φ fd stmts none I.scopes0 I.vm0 I.lm0).envE.nv
  frame : (fnParts G.mod I.φ fd stmts none I.scopes0 I.vm0 I.lm0).envE.nv ≤ G.F
  okS : Frag.okFSs G.fr false true stmts = true
  wsS : Frag.wsGSs G.mod g I.φ [] stmts (fnParts G.mod I.φ fd stmts none I.scopes0 I.vm0 I.lm0).envB = true
  tParams : ∀ p ∈ fd.params, p.name ∈ I.T
  tIdents : ∀ x ∈ Frag.identsGSs stmts, x ∈ I.T
  key : cleanupKey G.mod g ∉ I.T
  outer : ∀ sc ∈ I.scopes0, ∀ x ∈ I.T, sc.lookup x = none
  phi : PhiOK G I.φ

/-- A call of a function without trailing expression: on normal completion nothing is pushed
(the body fell through) or the returned value is (a `return e;` was executed). -/
def SimCallV (G : GCtx) (g : String) (frames : List Frame) (mp : Int) (args : List Val) (stk : List SVal)
    (mem : Mem) (st : St) (r : Except Ctl Val × St) : Prop :=
  match r with
  | (.ok v, st') =>
    st' = { st with out := st'.out, heap := st'.heap } ∧
      ∃ mem' stk', (stk' = stk ∨ ∃ o, OrgOK G.fr o ∧ stk' = ⟨v, o⟩ :: stk) ∧
        RunsCall G g frames mp (args.map (⟨·, none⟩) ++ stk) mem st.world stk' mem' st'.world ∧ MemLe G.fr mp mem mem'
  | (.error (.fatal kd m sp), st') =>
    kd ≠ "StackOverFlow" → RunsCallF G g frames mp (args.map (⟨·, none⟩) ++ stk) mem st.world kd m sp st'.world
  | (.error (.throw msg sp), st') =>
    st' = { st with out := st'.out, heap := st'.heap } ∧
      ∃ mem', RunsCallT G g frames mp (args.map (⟨·, none⟩) ++ stk) stk mem st.world msg sp mem' st'.world ∧
        MemLe G.fr mp mem mem'
  | (.error (.unsupported _), _) => True
  | (.error .timeout, _) => True
  | _ => False

/-- **A call of a function without trailing expression** (in particular the entry function):
prologue, parameters, statements, epilogue. -/
theorem callV_correct (G : GCtx) (hG : G.OK') (fuel : Nat) (g : String) (fd : FnDef) (I : FnInfo)
    (stmts : List Stmt) (hFn : FnVoidOK G g fd I stmts)
    (hgh : G.fr = true → ∀ y ∈ I.T, ("$iter_" ++ y) ∉ I.T) (sp : Span) (vals : List Val) (st : St)
    (frames : List Frame) (mp : Int) (stk : List SVal) (mem : Mem) (hsp : SpecOK G mp st)
    (hmp : 0 ≤ mp) :
    SimCallV G (mangleFnName G.mod g) frames mp vals stk mem st
      (callBody G.cfg fuel sp G.mod fd.params fd.body vals st) := by
  cases fuel with
  | zero => rw [callBody]; trivial
  | succ n =>
  have hPSs : ∀ m, m + 1 = n → PGSs G m := fun m _ => (allP G hG m).pgss
  have hname := hFn.name
  subst hname
  obtain ⟨bsp, bty, hbody⟩ := hFn.body
  rw [hbody]
  by_cases hd : st.depth > G.cfg.callLimit
  · obtain ⟨msg, h⟩ := callBody_overflow G.cfg n sp G.mod fd.params (.mk bsp bty stmts none) vals st hd
    rw [h]
    intro hk; exact absurd rfl hk
  by_cases hlen' : ¬ fd.params.length = vals.length
  · rw [callBody_arity _ _ _ _ _ _ _ _ hFn.params hd hlen']; trivial
  have hlen : fd.params.length = vals.length := Classical.not_not.mp hlen'
  rw [callBody_step _ _ _ _ _ _ _ _ _ _ _ hFn.params hd hlen]
  cases n with
  | zero => rw [evalBlock]; trivial
  | succ m =>
  rw [evalBlock_stmts]
  generalize hbinds : ((fd.params.map (fun x : Param => x.name)).zip vals).reverse = binds
  generalize hspec1 : ({ st with scopes := [binds], module := G.mod, depth := st.depth + 1 } : St) = spec1
  -- the pieces of the code
  obtain ⟨P, hP⟩ : ∃ P, P = fnParts G.mod I.φ fd stmts none I.scopes0 I.vm0 I.lm0 := ⟨_, rfl⟩
  obtain ⟨env0, henv0⟩ : ∃ env0 : CEnv, env0 = ⟨[] :: I.scopes0, I.vm0, I.lm0, 0⟩ := ⟨_, rfl⟩
  have hpc : P.pcode = (cgParams G.mod fd.sp fd.params env0).1 := by rw [hP, henv0]; rfl
  have henvB : P.envB = bodyEnv G.mod fd.name (cgParams G.mod fd.sp fd.params env0).2 := by rw [hP, henv0]; rfl
  have hsc : P.scode = (cgSs G.mod fd.name I.φ [] stmts P.envB).1 := by rw [hP]; rfl
  have henvS : P.envS = (cgSs G.mod fd.name I.φ [] stmts P.envB).2 := by rw [hP]; rfl
  have hec : P.ecode = [] := by rw [hP]; rfl
  have hcl : P.cleanup = (freshLabel G.mod (cgParams G.mod fd.sp fd.params env0).2.lm "cleanup").1 := by
    rw [hP, henv0]; rfl
  have hcode : cgFn G.mod I.φ fd stmts none I.scopes0 I.vm0 I.lm0 =
      [(.addMp (P.envE.nv : Int), fd.sp)] ++ P.pcode ++ P.scode ++ P.ecode ++
        [(.label P.cleanup, fd.sp), (.addMp (-(P.envE.nv : Int)), fd.sp), (.ret, fd.sp)] := by rw [hP]; rfl
  have hslot := hFn.slot
  have hframe := hFn.frame
  have hwsS := hFn.wsS
  have hplaced := hFn.placed
  have hvars := hFn.vars
  rw [← hP] at hslot hframe hwsS
  rw [hcode] at hplaced hvars
  have hnvE : P.envE.nv = P.envS.nv := by rw [hP]; rfl
  -- arithmetic of the frame
  have hdep : st.depth ≤ G.cfg.callLimit := Nat.le_of_not_gt hd
  have hmul : (st.depth : Int) * (G.F : Int) ≤ (G.cfg.callLimit : Int) * (G.F : Int) := by
    exact_mod_cast Nat.mul_le_mul_right G.F hdep
  have hroom := hG.room
  rw [Int.add_mul] at hroom
  have hFle : (P.envE.nv : Int) ≤ (G.F : Int) := by exact_mod_cast hframe
  have hdepth := hsp.depth
  have hhi : mp + (P.envE.nv : Int) < (G.lim.memory : Int) := by omega
  -- the activation
  obtain ⟨A, hAdef⟩ : ∃ A : Act, A = Act.mk (mangleFnName G.mod fd.name) fd.name P.cleanup frames
    (mp + (P.envE.nv : Int)) I.c I.σ I.lab I.N I.T P.envE.nv I.φ true [] := ⟨_, rfl⟩
  have hA : A.OK G := by
    rw [hAdef]
    exact ⟨hFn.code, hFn.inj, hslot, by show 0 ≤ mp + (P.envE.nv : Int) - (P.envE.nv : Int); omega, hhi, hFn.phi,
      hFn.key, hG.println, rfl, fun p hp => by simp at hp, hgh⟩
  -- the placement of the pieces
  obtain ⟨hpl1234, hpl5⟩ := hplaced.append
  obtain ⟨hpl123, hpl4⟩ := hpl1234.append
  obtain ⟨hpl12, hpl3⟩ := hpl123.append
  obtain ⟨hpl1, hpl2⟩ := hpl12.append
  obtain ⟨hi0, _⟩ := hpl1.instr (i := .addMp (P.envE.nv : Int)) rfl
  obtain ⟨hlabC, hpl5'⟩ := hpl5.label
  obtain ⟨hiC, hpl5''⟩ := hpl5'.instr (i := .addMp (-(P.envE.nv : Int))) rfl
  obtain ⟨hiR, _⟩ := hpl5''.instr (i := .ret) rfl
  simp only [nI_append, nI_instr _ _ _ (rfl : isLabel (Instr.addMp (P.envE.nv : Int) : SInstr) = false), nI_nil,
    Nat.zero_add] at hpl2 hpl3 hpl4 hlabC hiC hiR
  have hAfn : A.fn = mangleFnName G.mod fd.name := by rw [hAdef]
  have hAsrc : A.src = fd.name := by rw [hAdef]
  have hAcl : A.cl = P.cleanup := by rw [hAdef]
  have hArest : A.rest = frames := by rw [hAdef]
  have hAmp : A.mp = mp + (P.envE.nv : Int) := by rw [hAdef]
  have hAc : A.c = I.c := by rw [hAdef]
  have hAσ : A.σ = I.σ := by rw [hAdef]
  have hAlab : A.lab = I.lab := by rw [hAdef]
  have hAN : A.N = I.N := by rw [hAdef]
  have hAT : A.T = I.T := by rw [hAdef]
  have hAnv : A.nv = P.envE.nv := by rw [hAdef]
  have hAφ : A.φ = I.φ := by rw [hAdef]
  -- parameters
  have hall : ∀ sc ∈ ([] :: I.scopes0 : CScopes), ∀ x ∈ I.T, sc.lookup x = none := by
    intro sc hsc x hx
    rcases List.mem_cons.mp hsc with rfl | hsc
    · rfl
    · exact hFn.outer sc hsc x hx
  have hrel0 : StRel G.mod A.T A.N A.σ G.lim A.mp env0.scopes env0.vm [[]] mem := by
    rw [hAT, henv0]
    have hlive := liveNames_of_unbound I.T ([] :: I.scopes0) hall
    refine ⟨⟨fun x hx => trivial, scopesRel_outer I.T _ G.lim _ mem I.scopes0 hFn.outer⟩,
      by rw [hlive]; exact List.nodup_nil, by rw [hlive]; simp, ?_⟩
    intro sc hsc p hp hpT
    have := List.lookup_eq_none_iff.mp (hall sc hsc p.1 hpT) p hp
    simp at this
  simp only [codeVars_append, List.mem_append] at hvars
  have hvm : (vals.map (fun v => (⟨v, none⟩ : SVal))).map (·.v) = vals := by
    rw [List.map_map]; exact List.map_id' vals
  obtain ⟨mem1, hrunP, hmlP, hrelP⟩ := params_run G A hA fd.sp st.world fd.params (vals.map (⟨·, none⟩)) env0 [[]] mem 1 stk
    hFn.params (by rw [hlen, List.length_map]) (by rw [hAT]; exact hFn.tParams)
    (by rw [hAN, ← hpc]; exact fun m hm => hvars m (Or.inl (Or.inl (Or.inl (Or.inr hm)))))
    (by rw [hAlab, hAσ, hAc, ← hpc]; exact hpl2) hrel0
  rw [hvm, declAll_single, List.append_nil, hbinds] at hrelP
  rw [← hpc] at hrunP
  obtain ⟨c', hc'⟩ := cgParams_scopes G.mod fd.sp fd.params env0 [] I.scopes0 (by rw [henv0])
  have henvBsc : P.envB.scopes = ((cleanupKey G.mod fd.name, P.cleanup) :: c') :: I.scopes0 := by
    rw [henvB, hcl]; simp only [bodyEnv, hc']
  have henvBvm : P.envB.vm = (cgParams G.mod fd.sp fd.params env0).2.vm := by rw [henvB]; rfl
  have hgrel : GRel G A P.envB.scopes P.envB.vm [binds] mem1 := by
    refine ⟨?_, ?_, fun p hp => by rw [hAdef] at hp; simp at hp, fun p hp => by rw [hAdef] at hp; simp at hp⟩
    · rw [henvBsc, henvBvm]
      rw [hc'] at hrelP
      exact hrelP.addKey _ _ (by rw [hAT]; exact hFn.key)
    · rw [henvBsc, hAsrc, hAcl]
      simp [ρS]
  have hsp1 : SpecOK G A.mp spec1 := by
    rw [← hspec1, hAmp]
    refine ⟨hsp.heap, rfl, hsp.globals, ?_⟩
    show mp + (P.envE.nv : Int) ≤ G.B + ((st.depth + 1 : Nat) : Int) * (G.F : Int)
    push_cast
    rw [Int.add_mul]
    omega
  have hS := hPSs m rfl A hA [] (P.envB.scopes.drop 1) 1 stmts P.envB spec1 (1 + nI P.pcode) stk mem1
    (by rw [hAdef]; exact hFn.okS)
    (by rw [hAT]; exact hFn.tIdents) (by rw [hAsrc, hAφ]; exact hwsS)
    (by rw [hAsrc, hAφ, hAN, ← hsc]; exact fun m hm => hvars m (Or.inl (Or.inl (Or.inr hm))))
    (by rw [hAsrc, hAφ, hAlab, hAσ, hAc, ← hsc]; exact hpl3) (Nat.le_refl 1) rfl
    (by rw [← hspec1]; exact hgrel) hsp1
  rw [hAsrc, hAφ, ← hsc, ← henvS] at hS
  generalize hrS : evalStmts G.cfg m stmts spec1 = rS at hS ⊢
  obtain ⟨r1, st1⟩ := rS
  have hmono : mp ≤ A.mp - (A.nv : Int) := by rw [hAmp, hAnv]; omega
  have hmono' : mp ≤ A.mp := by rw [hAmp]; omega
  rw [hAfn, hArest, hAmp] at hrunP
  cases r1 with
  | ok u =>
    simp only []
    obtain ⟨hst1, mem2, hrunS, hmlS, hrel2⟩ := hS
    rw [hAfn, hArest, hAmp] at hrunS
    have hout1 : spec1.world = st.world := by rw [← hspec1]; rfl
    rw [hout1] at hrunS
    have hipC : 1 + nI P.pcode + nI P.scode = 1 + nI P.pcode + nI P.scode + nI P.ecode := by rw [hec]; rfl
    refine ⟨?_, mem2, stk, Or.inl rfl,
      RunsCall.intro hFn.code hi0 hhi ((hrunP.trans hrunS).cast hipC) hiC hiR,
      (hmlP.mono hmono).trans (hmlS.mono hmono)⟩
    rw [hst1, ← hspec1]
  | error c =>
    have hout1 : spec1.world = st.world := by rw [← hspec1]; rfl
    cases c <;> simp only [] <;> first | trivial | exact False.elim hS | skip
    · -- return
      obtain ⟨_, hst1, mem2, oS, hoS, hrunS, hmlS⟩ := hS
      rw [hAfn, hArest, hAmp, hAlab, hAcl, hlabC, hout1] at hrunS
      refine ⟨?_, mem2, _, Or.inr ⟨oS, hoS, rfl⟩, RunsCall.intro hFn.code hi0 hhi (hrunP.trans hrunS) hiC hiR,
        (hmlP.mono hmono).trans (hmlS.mono hmono)⟩
      rw [hst1, ← hspec1]
    · -- a statement throws
      obtain ⟨hst1, mem2, hTS, hmlS, _⟩ := hS
      rw [hAfn, hArest, hAmp, hout1] at hTS
      refine ⟨?_, mem2, RunsCallT.intro hFn.code hi0 hhi hrunP hTS, (hmlP.mono hmono).trans (hmlS.mono hmono)⟩
      rw [hst1, ← hspec1]
    · intro hk
      have hS' := hS hk
      rw [hAfn, hArest, hAmp, hout1] at hS'
      exact RunsCallF.intro hFn.code hi0 hhi (hrunP.fatal hS')


/-! ## The driver `run` on the entry function -/

/-- The context with another base state that differs only in the poll counter. -/
def GCtx.withPolls (G : GCtx) (p : Nat) : GCtx := { G with s := { G.s with polls := p } }

theorem PhiOK.withPolls {G : GCtx} {φ} (h : PhiOK G φ) (p : Nat) : PhiOK (G.withPolls p) φ := h

theorem FnOK.withPolls {G : GCtx} {g fd I stmts e} (h : FnOK G g fd I stmts e) (p : Nat) :
    FnOK (G.withPolls p) g fd I stmts e :=
  { name := h.name, body := h.body, params := h.params, code := h.code, placed := h.placed, inj := h.inj
    vars := h.vars, slot := h.slot, frame := h.frame, okS := h.okS, okE := h.okE, wsS := h.wsS, wsE := h.wsE
    tParams := h.tParams, tIdents := h.tIdents, tVars := h.tVars, key := h.key, outer := h.outer
    phi := h.phi.withPolls p }

theorem FnVoidOK.withPolls {G : GCtx} {g fd I stmts} (h : FnVoidOK G g fd I stmts) (p : Nat) :
    FnVoidOK (G.withPolls p) g fd I stmts :=
  { name := h.name, body := h.body, params := h.params, code := h.code, placed := h.placed, inj := h.inj
    vars := h.vars, slot := h.slot, frame := h.frame, okS := h.okS, wsS := h.wsS
    tParams := h.tParams, tIdents := h.tIdents, key := h.key, outer := h.outer, phi := h.phi.withPolls p }

theorem GCtx.OK'.withPolls {G : GCtx} (h : G.OK') (p : Nat) : (G.withPolls p).OK' :=
  { prog := fun g fd hK hf => by
      obtain ⟨I, stmts, e, hFn, hgh⟩ := h.prog g fd hK hf
      exact ⟨I, stmts, e, hFn.withPolls p, hgh⟩
    room := h.room, base := h.base, println := h.println, noPrintFn := h.noPrintFn, noThrowFn := h.noThrowFn }

/-- **`Core.Run` on a top-level call of a function without trailing expression** (the entry
function `main`): no caller frame, operand stack within its limit. For every quantum at least as
large as the number of instructions the whole call executes — all nested calls included — `run`
ends with `ok` in a state with no frame left, the memory pointer as before and the
specification's output; and with the specification's fatal error (other than its own
`StackOverFlow`) when it ends in one. -/
theorem entry_run (G : GCtx) (hG : G.OK') (fuel : Nat) (g : String) (fd : FnDef) (I : FnInfo)
    (stmts : List Stmt) (hFn : FnVoidOK G g fd I stmts)
    (hgh : G.fr = true → ∀ y ∈ I.T, ("$iter_" ++ y) ∉ I.T) (sp : Span) (st : St) (mp : Int) (stk : List SVal)
    (mem : Mem) (hsp : SpecOK G mp st) (hmp : 0 ≤ mp)
    (hstack : stk.length ≤ G.lim.stack) (hcallLim : 1 ≤ G.lim.callStack) :
    match callBody G.cfg fuel sp G.mod fd.params fd.body [] st with
    | (.ok v, st') =>
      ∃ K, ∀ quantum, K ≤ quantum → ∀ vfuel, ∃ s',
        run G.code G.lim quantum none (vfuel + 1) (mkSI G.s [⟨mangleFnName G.mod g, 0⟩] mp 0 stk mem st.world) = .ok s' ∧
        s'.st = { G.s.st with out := st'.out, heap := st'.heap } ∧ s'.mp = mp ∧ s'.calls = [] ∧
        (s'.stack = stk ∨ ∃ o, OrgOK G.fr o ∧ s'.stack = ⟨v, o⟩ :: stk)
    | (.error (.fatal kd m fsp), st') =>
      kd ≠ "StackOverFlow" → ∃ K, ∀ quantum, K ≤ quantum → ∀ vfuel, ∃ s',
        run G.code G.lim quantum none (vfuel + 1) (mkSI G.s [⟨mangleFnName G.mod g, 0⟩] mp 0 stk mem st.world) =
          .fatal kd m fsp s' ∧ s'.st = { G.s.st with out := st'.out, heap := st'.heap }
    | (.error (.throw msg tsp), st') =>
      G.s.handlers = [] → ∃ K, ∀ quantum, K ≤ quantum → ∀ vfuel, ∃ s',
        run G.code G.lim quantum none (vfuel + 1) (mkSI G.s [⟨mangleFnName G.mod g, 0⟩] mp 0 stk mem st.world) =
          .fatal "UncaughtThrow" msg tsp s' ∧ s'.st = { G.s.st with out := st'.out, heap := st'.heap }
    | _ => True := by
  have h := callV_correct (G.withPolls (G.s.polls + 1)) (hG.withPolls _) fuel g fd I stmts (hFn.withPolls _) hgh sp []
    st [] mp stk mem ⟨hsp.heap, hsp.module, hsp.globals, hsp.depth⟩ hmp
  have hrun : ∀ quantum vfuel,
      run G.code G.lim quantum none (vfuel + 1) (mkSI G.s [⟨mangleFnName G.mod g, 0⟩] mp 0 stk mem st.world) =
      match runQuantum G.code G.lim quantum
          (mkSI (G.withPolls (G.s.polls + 1)).s [⟨mangleFnName G.mod g, 0⟩] mp 0 stk mem st.world) with
      | .inl s' => run G.code G.lim quantum none vfuel s'
      | .inr o => o := by
    intro quantum vfuel
    rw [run]
    have h1 : ¬ stk.length > G.lim.stack := by omega
    have h2 : ¬ 1 > G.lim.callStack := by omega
    simp only [mkSI, mkS, withIt, Option.map_none, Option.getD_none, Bool.false_eq_true, if_false, List.length_singleton,
      h1, h2]
    rfl
  have hcode : (G.withPolls (G.s.polls + 1)).code = G.code := rfl
  have hlim : (G.withPolls (G.s.polls + 1)).lim = G.lim := rfl
  have hmod : (G.withPolls (G.s.polls + 1)).mod = G.mod := rfl
  have hcfg : (G.withPolls (G.s.polls + 1)).cfg = G.cfg := rfl
  rw [hmod, hcfg] at h
  rcases hev : callBody G.cfg fuel sp G.mod fd.params fd.body [] st with ⟨res, st'⟩
  rw [hev] at h
  cases res with
  | error ce =>
    cases ce <;> try trivial
    case throw msg tsp =>
      intro hh
      obtain ⟨_, mem', hct, _⟩ := h
      obtain ⟨k, s1, frames', mp', xs, e1, e2⟩ := hct 0
      rw [hcode, hlim] at e1 e2
      simp only [List.map_nil, List.nil_append] at e1
      have e3 : exec1H G.code G.lim s1 = .intr (.throw msg tsp)
          (mkSI (G.withPolls (G.s.polls + 1)).s (frames' ++ []) mp' (0 + k + 1) (xs ++ stk) mem' st'.world) := by
        rw [exec1H_of_throw e2]
        unfold dispatch
        have : (mkSI (G.withPolls (G.s.polls + 1)).s (frames' ++ []) mp' (0 + k + 1) (xs ++ stk) mem' st'.world).handlers = [] := hh
        rw [this]
      have e4 : execHN G.code G.lim (k + 1) (mkSI (G.withPolls (G.s.polls + 1)).s [⟨mangleFnName G.mod g, 0⟩] mp 0 stk mem
          st.world) = .intr (.throw msg tsp)
          (mkSI (G.withPolls (G.s.polls + 1)).s (frames' ++ []) mp' (0 + k + 1) (xs ++ stk) mem' st'.world) := by
        rw [execHN_add, e1]
        simp only []
        rw [execHN_one, e3]
      refine ⟨k + 1, fun quantum hq vfuel =>
        ⟨mkSI (G.withPolls (G.s.polls + 1)).s (frames' ++ []) mp' (0 + k + 1) (xs ++ stk) mem' st'.world, ?_, rfl⟩⟩
      obtain ⟨j, rfl⟩ : ∃ j, quantum = k + 1 + j := ⟨quantum - (k + 1), by omega⟩
      rw [hrun, runQuantum_of_execHN_throw G.code G.lim j (k + 1) _ _ _ _ e4]
    intro hk
    obtain ⟨k, s', hk', h1, _⟩ := h hk 0
    rw [hcode, hlim] at hk'
    simp only [List.map_nil, List.nil_append] at hk'
    refine ⟨k, fun quantum hq vfuel => ⟨s', ?_, h1⟩⟩
    obtain ⟨j, rfl⟩ : ∃ j, quantum = k + j := ⟨quantum - k, by omega⟩
    rw [hrun, runQuantum_of_execHN_fatal G.code G.lim j k _ s' _ _ _ hk']
  | ok v =>
    obtain ⟨_, mem', stk', hstk, hcall, _⟩ := h
    obtain ⟨k, hk⟩ := hcall 0
    rw [hcode, hlim] at hk
    simp only [List.map_nil, List.nil_append] at hk
    refine ⟨k + 1, fun quantum hq vfuel =>
      ⟨mkSI (G.withPolls (G.s.polls + 1)).s [] mp (0 + k) stk' mem' st'.world, ?_, rfl, rfl, rfl, hstk⟩⟩
    obtain ⟨j, rfl⟩ : ∃ j, quantum = k + (j + 1) := ⟨quantum - k - 1, by omega⟩
    rw [hrun, runQuantum_of_execHN G.code G.lim (j + 1) k _ _ hk, runQuantum_done G.code G.lim j _ rfl]

/-- A compiled function without trailing expression is `FnVoidOK` (as `FnOK.of_relocate`). -/
theorem FnVoidOK.of_relocate (G : GCtx) (fd : FnDef) (stmts : List Stmt) (φ : String → Option String)
    (scopes0 : CScopes) (vm0 : List (String × Nat)) (lm0 : LM) (T : List String) (r : NCode)
    (hbody : ∃ bsp bty, fd.body = .mk bsp bty stmts none)
    (hparams : ∀ p ∈ fd.params, p.isSingleton = false)
    (hrel : relocate (cgFn G.mod φ fd stmts none scopes0 vm0 lm0) = some r)
    (hnodup : (definedLabels (cgFn G.mod φ fd stmts none scopes0 vm0 lm0)).Nodup)
    (hcode : findCode G.code (mangleFnName G.mod fd.name) = some (renameVars r))
    (hslot : ∀ m ∈ varNames r, slotFn r m < (fnParts G.mod φ fd stmts none scopes0 vm0 lm0).envE.nv)
    (hframe : (fnParts G.mod φ fd stmts none scopes0 vm0 lm0).envE.nv ≤ G.F)
    (okS : Frag.okFSs G.fr false true stmts = true)
    (wsS : Frag.wsGSs G.mod fd.name φ [] stmts (fnParts G.mod φ fd stmts none scopes0 vm0 lm0).envB = true)
    (tParams : ∀ p ∈ fd.params, p.name ∈ T) (tIdents : ∀ x ∈ Frag.identsGSs stmts, x ∈ T)
    (key : cleanupKey G.mod fd.name ∉ T)
    (outer : ∀ sc ∈ scopes0, ∀ x ∈ T, sc.lookup x = none) (phi : PhiOK G φ) :
    FnVoidOK G fd.name fd
      ⟨renameVars r, slotFn r, labelIndex (cgFn G.mod φ fd stmts none scopes0 vm0 lm0), (· ∈ varNames r), T, φ,
        scopes0, vm0, lm0⟩ stmts := by
  have hpl := placed_of_relocate [] (cgFn G.mod φ fd stmts none scopes0 vm0 lm0) [] r
    (by simpa using hrel) hnodup (by simp [definedLabels])
  simp only [List.nil_append, List.append_nil, nI_nil] at hpl
  exact
    { name := rfl, body := hbody, params := hparams, code := hcode, placed := hpl
      inj := fun a b ha hb h => (slotFn_inj r a b ha hb).mp h
      vars := fun m hm => by
        show m ∈ varNames r
        rw [varNames_relocate _ r hrel]; exact hm
      slot := hslot, frame := hframe, okS := okS, wsS := wsS, tParams := tParams
      tIdents := tIdents, key := key, outer := outer, phi := phi }

end HmsProofs.Sim
