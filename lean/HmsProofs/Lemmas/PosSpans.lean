import Hms.Pos.Span
import HmsProofs.Lemmas.Lexer
/-! Lemmas for C08: the spans of a lexed token stream are real, ordered and increasing. -/
namespace HmsProofs.Lemmas.PosSpans
open Hms Hms.Lex Hms.Pos

/-- What `Spec.tokenizes` says about the positions of the tokens of a piece list starting at `off`. -/
def TokFacts (src : List Char) (lo hi : Nat) (t : Tok) : Prop :=
  lo ≤ t.start.idx ∧ t.start.idx ≤ t.stop.idx ∧ t.stop.idx < hi
    ∧ t.start = Spec.locAt src t.start.idx ∧ t.stop = Spec.locAt src t.stop.idx

theorem TokFacts.widen {src : List Char} {lo hi lo' hi' : Nat} {t : Tok} (h : TokFacts src lo hi t)
    (h1 : lo' ≤ lo) (h2 : hi ≤ hi') : TokFacts src lo' hi' t := by
  obtain ⟨a, b, c, d, e⟩ := h
  exact ⟨by omega, b, by omega, d, e⟩

theorem go_facts (src : List Char) (ps : List Piece) (off : Nat)
    (h : Spec.tokenizes.go src off ps = true) :
    (∀ t ∈ tokensOf ps, TokFacts src off (off + (ps.flatMap Piece.chars).length) t)
      ∧ (tokensOf ps).Pairwise (fun a b => a.stop.idx < b.start.idx) := by
  induction ps generalizing off with
  | nil => simp [tokensOf]
  | cons p rest ih =>
    simp only [Spec.tokenizes.go, Bool.and_eq_true] at h
    obtain ⟨hp, hrest⟩ := h
    obtain ⟨ih1, ih2⟩ := ih _ hrest
    have hlen : off + ((p :: rest).flatMap Piece.chars).length
        = off + p.chars.length + (rest.flatMap Piece.chars).length := by
      simp [List.flatMap_cons]; omega
    cases p with
    | token t lx =>
      simp only [Bool.and_eq_true, beq_iff_eq, Bool.not_eq_true'] at hp
      obtain ⟨⟨⟨⟨hne, _⟩, hst⟩, hen⟩, _⟩ := hp
      have hlx : 1 ≤ lx.length := by
        cases lx with
        | nil => simp at hne
        | cons _ _ => simp
      have hsi : t.start.idx = off := by rw [hst]; rfl
      have hei : t.stop.idx = off + lx.length - 1 := by rw [hen]; rfl
      have hthis : TokFacts src off (off + lx.length) t :=
        ⟨by omega, by omega, by omega, by rw [hsi]; exact hst, by rw [hei]; exact hen⟩
      simp only [tokensOf, Piece.chars] at *
      constructor
      · intro t' ht'
        simp only [List.mem_cons] at ht'
        rcases ht' with rfl | hm
        · rw [hlen]; exact hthis.widen (Nat.le_refl _) (by omega)
        · rw [hlen]; exact (ih1 t' hm).widen (by omega) (Nat.le_refl _)
      · rw [List.pairwise_cons]
        refine ⟨?_, ih2⟩
        intro t' hm
        have := (ih1 t' hm).1
        omega
    | space c =>
      simp only [tokensOf] at *
      exact ⟨fun t' hm => by rw [hlen]; exact (ih1 t' hm).widen (by omega) (Nat.le_refl _), ih2⟩
    | lineComment cs =>
      simp only [tokensOf] at *
      exact ⟨fun t' hm => by rw [hlen]; exact (ih1 t' hm).widen (by omega) (Nat.le_refl _), ih2⟩
    | blockComment cs =>
      simp only [tokensOf] at *
      exact ⟨fun t' hm => by rw [hlen]; exact (ih1 t' hm).widen (by omega) (Nat.le_refl _), ih2⟩

theorem tokenizes_facts (src : List Char) (ps : List Piece) (h : Spec.tokenizes src ps = true) :
    (∀ t ∈ tokensOf ps, TokFacts src 0 src.length t)
      ∧ (tokensOf ps).Pairwise (fun a b => a.stop.idx < b.start.idx) := by
  simp only [Spec.tokenizes, Bool.and_eq_true, beq_iff_eq] at h
  obtain ⟨hflat, hgo⟩ := h
  obtain ⟨h1, h2⟩ := go_facts src ps 0 hgo
  rw [hflat] at h1
  simpa using And.intro h1 h2

/-- Every token span is a well-formed span of the text. -/
theorem tok_span_wf (src : List Char) (ps : List Piece) (h : Spec.tokenizes src ps = true) :
    ∀ t ∈ tokensOf ps, InText src ⟨t.start, t.stop⟩ ∧ Ordered ⟨t.start, t.stop⟩ := by
  intro t ht
  obtain ⟨_, b, c, d, e⟩ := (tokenizes_facts src ps h).1 t ht
  exact ⟨⟨by simp only; omega, by simp only; omega, d, e⟩, b⟩

theorem pairwise_get {α : Type} {R : α → α → Prop} {l : List α} (h : l.Pairwise R) (i j : Nat)
    (hi : i < j) (hj : j < l.length) : R (l[i]'(by omega)) (l[j]'hj) := by
  exact (List.pairwise_iff_getElem.mp h) i j (by omega) hj hi

/-- `start_i.Until(end_j)` for tokens `i ≤ j` of one stream. -/
theorem until_wf (src : List Char) (ps : List Piece) (h : Spec.tokenizes src ps = true)
    (i j : Nat) (hij : i ≤ j) (hj : j < (tokensOf ps).length) :
    InText src (spanUntil ((tokensOf ps)[i]'(by omega)).start ((tokensOf ps)[j]'hj).stop)
      ∧ Ordered (spanUntil ((tokensOf ps)[i]'(by omega)).start ((tokensOf ps)[j]'hj).stop) := by
  obtain ⟨h1, h2⟩ := tokenizes_facts src ps h
  have hi : i < (tokensOf ps).length := by omega
  obtain ⟨_, a2, a3, a4, _⟩ := h1 _ (List.getElem_mem hi)
  obtain ⟨_, b2, b3, _, b5⟩ := h1 _ (List.getElem_mem hj)
  have hord : ((tokensOf ps)[i]'hi).start.idx ≤ ((tokensOf ps)[j]'hj).stop.idx := by
    by_cases e : i = j
    · subst e; exact a2
    · have := pairwise_get h2 i j (by omega) hj
      omega
  refine ⟨⟨?_, ?_, a4, b5⟩, hord⟩
  · simp only [spanUntil]; omega
  · simp only [spanUntil]; omega

end HmsProofs.Lemmas.PosSpans
