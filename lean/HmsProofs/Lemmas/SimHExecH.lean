import HmsProofs.Lemmas.SimSlots
/-!
# Instruction sequences with exception dispatch

`exec1`/`execN` stop at every interrupt. The VM's inner loop `runQuantum` handles a thrown
exception itself: it unwinds to the newest handler. `exec1H`/`execHN` include that dispatch.
-/
namespace HmsProofs.Sim
open Hms.Core Hms.Core.Comp Hms.Core.VM

/-- The error object `catch` binds. -/
def errCell (msg : String) (tsp : Span) : Cell :=
  .obj [("message", .str msg), ("line", .int (I64.ofInt tsp.sl)), ("column", .int (I64.ofInt tsp.sc)),
    ("filename", .str "main")]

/-- What `runQuantum` does with a thrown exception: with no handler the interrupt stands; otherwise
unwind to the newest handler's activation, cut the operand stack back, restore the memory
pointer, allocate the error object and push it, continue at the handler's target. -/
def dispatch (msg : String) (tsp : Span) (s' : VMState) : StepRes :=
  match s'.handlers with
  | [] => .intr (.throw msg tsp) s'
  | h :: _ =>
    match s'.calls.drop (s'.calls.length - h.callDepth) with
    | [] => .panic "no frame for the handler" s'
    | _ :: below =>
      match (alloc (errCell msg tsp)) s'.st with
      | (.ok o, st') =>
        .next (push1 { s' with calls := h.target :: below,
                               stack := s'.stack.drop (s'.stack.length - h.stackHeight), mp := h.mp, st := st' } o)
      | (.error _, _) => .panic "alloc" s'

def exec1H (code : Code) (lim : Limits) (s : VMState) : StepRes :=
  match exec1 code lim s with
  | .intr (.throw msg tsp) s' => dispatch msg tsp s'
  | r => r

/-- `n` instructions with exception dispatch; stops at the first remaining interrupt or panic. -/
def execHN (code : Code) (lim : Limits) : Nat → VMState → StepRes
  | 0, s => .next s
  | n + 1, s =>
    match exec1H code lim s with
    | .next s' => execHN code lim n s'
    | r => r

theorem execHN_add (code : Code) (lim : Limits) (a b : Nat) : ∀ s,
    execHN code lim (a + b) s = match execHN code lim a s with
      | .next s' => execHN code lim b s'
      | r => r := by
  induction a with
  | zero => intro s; simp [execHN]
  | succ a ih =>
    intro s
    rw [Nat.add_right_comm]
    simp only [execHN]
    cases exec1H code lim s with
    | next s' => exact ih s'
    | intr i s' => rfl
    | panic w s' => rfl

theorem execHN_one (code : Code) (lim : Limits) (s : VMState) : execHN code lim 1 s = exec1H code lim s := by
  simp only [execHN]
  cases exec1H code lim s <;> rfl

theorem exec1H_of_next {code lim s s'} (h : exec1 code lim s = .next s') : exec1H code lim s = .next s' := by
  unfold exec1H; rw [h]

theorem exec1H_of_fatal {code lim s s' kd m sp} (h : exec1 code lim s = .intr (.fatal kd m sp) s') :
    exec1H code lim s = .intr (.fatal kd m sp) s' := by
  unfold exec1H; rw [h]

theorem exec1H_of_throw {code lim s s' msg sp} (h : exec1 code lim s = .intr (.throw msg sp) s') :
    exec1H code lim s = dispatch msg sp s' := by
  unfold exec1H; rw [h]

theorem execHN_of_execN (code : Code) (lim : Limits) : ∀ (n : Nat) (s s' : VMState),
    execN code lim n s = .next s' → execHN code lim n s = .next s' := by
  intro n
  induction n with
  | zero => intro s s' h; exact h
  | succ n ih =>
    intro s s' h
    simp only [execN] at h
    simp only [execHN]
    cases h1 : exec1 code lim s with
    | next s1 => rw [h1] at h; rw [exec1H_of_next h1]; exact ih s1 s' h
    | intr i s1 => rw [h1] at h; cases h
    | panic w s1 => rw [h1] at h; cases h

theorem execHN_of_execN_fatal (code : Code) (lim : Limits) : ∀ (n : Nat) (s s' : VMState) (kd m : String) (sp : Span),
    execN code lim n s = .intr (.fatal kd m sp) s' → execHN code lim n s = .intr (.fatal kd m sp) s' := by
  intro n
  induction n with
  | zero => intro s s' kd m sp h; cases h
  | succ n ih =>
    intro s s' kd m sp h
    simp only [execN] at h
    simp only [execHN]
    cases h1 : exec1 code lim s with
    | next s1 => rw [h1] at h; rw [exec1H_of_next h1]; exact ih s1 s' kd m sp h
    | intr i s1 => rw [h1] at h; cases h; rw [exec1H_of_fatal h1]
    | panic w s1 => rw [h1] at h; cases h

/-! ## `execHN` is what `runQuantum` does -/

theorem runQuantum_exec1H (code : Code) (lim : Limits) (n : Nat) (s : VMState) :
    (∀ s', exec1H code lim s = .next s' → runQuantum code lim (n + 1) s = runQuantum code lim n s') ∧
    (∀ k m sp s', exec1H code lim s = .intr (.fatal k m sp) s' →
      runQuantum code lim (n + 1) s = .inr (.fatal k m sp s')) ∧
    (∀ m sp s', exec1H code lim s = .intr (.throw m sp) s' →
      runQuantum code lim (n + 1) s = .inr (.fatal "UncaughtThrow" m sp s')) := by
  unfold exec1H exec1 fetch
  rw [runQuantum]
  cases hc : s.calls with
  | nil => simp
  | cons f rest =>
    simp only []
    cases hf : findCode code f.fn with
    | none => simp
    | some c =>
      simp only [Option.bind_some]
      cases hi : c[f.ip]? with
      | none => simp
      | some x =>
        obtain ⟨i, sp⟩ := x
        have hne : c.isEmpty = false := by
          cases c with
          | nil => simp at hi
          | cons _ _ => rfl
        simp only [hne, Bool.false_eq_true, if_false]
        cases hst : step code lim { s with calls := f :: rest, steps := s.steps + 1 } i sp with
        | next s1 => simp
        | panic w s1 => simp
        | intr it s1 =>
          cases it with
          | fatal k m fsp =>
            simp
            intro k1 m1 sp1 s' h1 h2 h3 h4
            exact ⟨h1, h2, h3, h4⟩
          | term => simp
          | throw msg tsp =>
            simp only [dispatch]
            cases hh : s1.handlers with
            | nil => simp
            | cons h hs =>
              simp only []
              cases hd : s1.calls.drop (s1.calls.length - h.callDepth) with
              | nil => simp
              | cons top below =>
                simp only []
                rcases ha : alloc (errCell msg tsp) s1.st with ⟨ro, st'⟩
                have ha' : alloc (.obj [("message", .str msg), ("line", .int (I64.ofInt tsp.sl)),
                    ("column", .int (I64.ofInt tsp.sc)), ("filename", .str "main")]) s1.st = (ro, st') := ha
                simp only [ha']
                cases ro <;> simp

theorem runQuantum_of_execHN (code : Code) (lim : Limits) (m : Nat) : ∀ (n : Nat) (s s' : VMState),
    execHN code lim n s = .next s' → runQuantum code lim (n + m) s = runQuantum code lim m s' := by
  intro n
  induction n with
  | zero => intro s s' h; simp only [execHN] at h; cases h; simp
  | succ n ih =>
    intro s s' h
    simp only [execHN] at h
    cases h1 : exec1H code lim s with
    | next s1 =>
      rw [h1] at h
      rw [Nat.add_right_comm, (runQuantum_exec1H code lim (n + m) s).1 s1 h1]
      exact ih s1 s' h
    | intr i s1 => rw [h1] at h; cases h
    | panic w s1 => rw [h1] at h; cases h

theorem runQuantum_of_execHN_fatal (code : Code) (lim : Limits) (m : Nat) : ∀ (n : Nat) (s s' : VMState)
    (k msg : String) (sp : Span),
    execHN code lim n s = .intr (.fatal k msg sp) s' →
    runQuantum code lim (n + m) s = .inr (.fatal k msg sp s') := by
  intro n
  induction n with
  | zero => intro s s' k msg sp h; simp only [execHN] at h; cases h
  | succ n ih =>
    intro s s' k msg sp h
    simp only [execHN] at h
    cases h1 : exec1H code lim s with
    | next s1 =>
      rw [h1] at h
      rw [Nat.add_right_comm, (runQuantum_exec1H code lim (n + m) s).1 s1 h1]
      exact ih s1 s' k msg sp h
    | intr i s1 =>
      rw [h1] at h
      cases h
      rw [Nat.add_right_comm]
      exact (runQuantum_exec1H code lim (n + m) s).2.1 k msg sp s' h1
    | panic w s1 => rw [h1] at h; cases h

/-- An exception that no handler encloses ends the run with the fatal error `UncaughtThrow`. -/
theorem runQuantum_of_execHN_throw (code : Code) (lim : Limits) (m : Nat) : ∀ (n : Nat) (s s' : VMState)
    (msg : String) (sp : Span),
    execHN code lim n s = .intr (.throw msg sp) s' →
    runQuantum code lim (n + m) s = .inr (.fatal "UncaughtThrow" msg sp s') := by
  intro n
  induction n with
  | zero => intro s s' msg sp h; simp only [execHN] at h; cases h
  | succ n ih =>
    intro s s' msg sp h
    simp only [execHN] at h
    cases h1 : exec1H code lim s with
    | next s1 =>
      rw [h1] at h
      rw [Nat.add_right_comm, (runQuantum_exec1H code lim (n + m) s).1 s1 h1]
      exact ih s1 s' msg sp h
    | intr i s1 =>
      rw [h1] at h
      cases h
      rw [Nat.add_right_comm]
      exact (runQuantum_exec1H code lim (n + m) s).2.2 msg sp s' h1
    | panic w s1 => rw [h1] at h; cases h

end HmsProofs.Sim
