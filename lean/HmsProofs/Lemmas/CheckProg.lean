import HmsProofs.Lemmas.CheckSound
import HmsProofs.Lemmas.CheckComplete
/-! Program level of C03: globals, function definitions, `main`, and the bridge between the
diagnostic list `check p` and the error list of `checkProg`. -/
set_option linter.unusedSimpArgs false

namespace HmsProofs.Lemmas.Check
open Hms.Check

/-! ### duplicate function names -/

theorem dupFn_nil_iff (fs : List PFn) : ∀ seen, dupFnErrs seen fs = [] ↔ distinctFnNames seen fs = true := by
  induction fs with
  | nil => intro seen; simp [dupFnErrs, distinctFnNames]
  | cons f rest ih =>
    intro seen
    simp only [dupFnErrs, distinctFnNames, List.append_eq_nil_iff, Bool.and_eq_true, ih]
    cases hs : seen.contains f.name <;> simp

/-! ### functions named like a value of the root scope -/

theorem fnClash_nil_iff (root : List (String × Ty)) (fs : List PFn) :
    fnClashErrs root fs = [] ↔ fnNamesFree root fs = true := by
  induction fs with
  | nil => simp [fnClashErrs, fnNamesFree]
  | cons f rest ih =>
    simp only [fnNamesFree, List.all_cons, Bool.and_eq_true] at ih ⊢
    simp only [fnClashErrs, List.append_eq_nil_iff, ih]
    cases hs : lookupTy f.name root <;> simp

theorem globalClash_nil_iff (fns : List (String × Ty)) (name : String) :
    globalClashErrs fns name = [] ↔ lookupTy name fns = none := by
  cases hs : lookupTy name fns <;> simp [globalClashErrs, hs]

/-! ### globals -/

theorem sound_globals (fns : List (String × Ty)) : (gs : List PGlobal) → ∀ vars, (checkGlobals fns vars gs).errs = [] →
    GlobalsOK fns vars gs (checkGlobals fns vars gs).vars (checkGlobals fns vars gs).tys
  | [], vars => by intro _; simp only [checkGlobals]; exact GlobalsOK.nil
  | g :: rest, vars => by
    intro h
    simp only [checkGlobals, letRule, Bool.true_and, List.append_eq_nil_iff] at h ⊢
    obtain ⟨⟨⟨⟨⟨he, hc⟩, hv⟩, hd⟩, hcl⟩, hr⟩ := h
    have hcst : (checkExpr { vars := vars, fns := fns, ret := none, inLoop := false } false g.e).cst = true := by
      cases hh : (checkExpr { vars := vars, fns := fns, ret := none, inLoop := false } false g.e).cst <;> simp_all
    have hlk : lookupTy g.name vars = none := by
      cases hh : lookupTy g.name vars <;> simp_all
    simp only [hcst, Bool.not_true, Bool.false_eq_true, ↓reduceIte] at hr ⊢
    have hty := sound_expr g.e _ false he
    rw [hcst] at hty
    exact GlobalsOK.cons hty (letVarTy_sound hv) hlk ((globalClash_nil_iff _ _).mp hcl) (sound_globals fns rest _ hr)

theorem complete_globals (fns : List (String × Ty)) : (gs : List PGlobal) → ∀ vars vars' l,
    GlobalsOK fns vars gs vars' l → checkGlobals fns vars gs = { errs := [], vars := vars', tys := l }
  | [], vars, vars', l => by intro h; cases h; simp only [checkGlobals]
  | g :: rest, vars, vars', l => by
    intro h
    cases h with | cons he hl hlk hcl hr =>
    have e := complete_expr g.e _ _ _ _ _ _ he
    have er := complete_globals fns rest _ _ _ hr
    simp only [checkGlobals, letRule, e, (globalClash_nil_iff _ _).mpr hcl, letVarTy_complete hl, hlk, Bool.true_and, Bool.not_true, Bool.false_eq_true,
      ↓reduceIte, Option.isSome_none, List.append_nil, er, List.nil_append, List.cons_append]

/-! ### functions -/

theorem kind_ok {k : Kind} (h : k = Kind.null ∨ k = Kind.unknown) : (k != Kind.unknown && k != Kind.null) = false := by
  cases h with
  | inl h => simp [h]
  | inr h => simp [h]

theorem sound_fn (fns globals : List (String × Ty)) (f : PFn) (h : (checkFn fns globals f).1 = []) :
    FnOK fns globals f (checkFn fns globals f).2 := by
  by_cases hm : f.name = "main"
  · have hmb : (f.name == "main") = true := by simp [hm]
    simp only [checkFn, hmb, ↓reduceIte, Bool.true_and, List.append_eq_nil_iff] at h ⊢
    obtain ⟨⟨⟨⟨⟨hrt, hp⟩, hret⟩, _⟩, hb⟩, htc⟩ := h
    have hps : f.params = [] := by
      cases hh : f.params with
      | nil => rfl
      | cons a as => simp [hh] at hp
    have hk : ((convertType true f.ret).2.kind != Kind.unknown && (convertType true f.ret).2.kind != Kind.null) = false := by
      cases hh : ((convertType true f.ret).2.kind != Kind.unknown && (convertType true f.ret).2.kind != Kind.null) <;> simp_all
    simp only [hk, Bool.false_eq_true, ↓reduceIte] at htc ⊢
    have hkind : (convertType true f.ret).2.kind = Kind.null ∨ (convertType true f.ret).2.kind = Kind.unknown := by
      simp only [Bool.and_eq_false_imp, bne_iff_ne, ne_eq, bne_eq_false_iff_eq] at hk
      by_cases hu : (convertType true f.ret).2.kind = Kind.unknown
      · exact Or.inr hu
      · exact Or.inl (hk hu)
    exact FnOK.main hm hps (prod_eq_of_fst hrt) hkind (sound_block f.body _ hb) (tcErr_nil htc)
  · have hm' : (f.name == "main") = false := by simpa using hm
    simp only [checkFn, hm', Bool.false_eq_true, ↓reduceIte, Bool.false_and, List.append_eq_nil_iff] at h ⊢
    obtain ⟨⟨⟨⟨⟨hrt, hdup⟩, _⟩, hps⟩, hb⟩, htc⟩ := h
    exact FnOK.normal hm (prod_eq_of_fst hps) (replicate_nil hdup) (prod_eq_of_fst hrt) (sound_block f.body _ hb)
      (tcErr_nil htc)

theorem complete_fn (fns globals : List (String × Ty)) (f : PFn) (l : List Ty) (h : FnOK fns globals f l) :
    checkFn fns globals f = ([], l) := by
  cases h with
  | normal hm hps hdup hrt hb hc =>
    have hm' : (f.name == "main") = false := by simpa using hm
    simp only [checkFn, hm', Bool.false_eq_true, ↓reduceIte, Bool.false_and, hps, hdup, hrt,
      complete_block f.body _ _ _ _ _ hb, tcErr_of_compat hc, replicate_zero, List.append_nil]
  | main hm hps hrt hk hb hc =>
    have hmb : (f.name == "main") = true := by simp [hm]
    have hb' := complete_block f.body _ _ _ _ _ hb
    simp only [checkFn, hmb, ↓reduceIte, Bool.true_and, hps, List.length_nil, Nat.lt_irrefl, decide_false,
      Bool.false_eq_true, hrt, kind_ok hk, paramScope, List.nil_append, hb', tcErr_of_compat hc, List.append_nil]

theorem sound_fns (fns globals : List (String × Ty)) : (fs : List PFn) → (checkFns fns globals fs).1 = [] →
    FnsOK fns globals fs (checkFns fns globals fs).2
  | [] => by intro _; simp only [checkFns]; exact FnsOK.nil
  | f :: rest => by
    intro h
    simp only [checkFns, List.append_eq_nil_iff] at h ⊢
    exact FnsOK.cons (sound_fn fns globals f h.1) (sound_fns fns globals rest h.2)

theorem complete_fns (fns globals : List (String × Ty)) : (fs : List PFn) → ∀ l, FnsOK fns globals fs l →
    checkFns fns globals fs = ([], l)
  | [], l => by intro h; cases h; simp only [checkFns]
  | f :: rest, l => by
    intro h
    cases h with | cons hf hr =>
    simp only [checkFns, complete_fn fns globals f _ hf, complete_fns fns globals rest _ hr, List.append_nil]

/-! ### programs -/

theorem sound_prog (p : PProg) (h : (checkProg true p).errs = []) : ProgOK p (checkProg true p).tys := by
  simp only [checkProg, List.append_eq_nil_iff, Bool.true_and] at h ⊢
  obtain ⟨⟨⟨⟨hd, hcl⟩, hg⟩, hf⟩, hm⟩ := h
  have hmain : (p.fns.any fun f => f.name == "main") = true := by
    cases hh : (p.fns.any fun f => f.name == "main") <;> simp_all
  exact ProgOK.mk ((dupFn_nil_iff _ _).mp hd) ((fnClash_nil_iff _ _).mp hcl) (sound_globals _ _ _ hg) (sound_fns _ _ _ hf) hmain

theorem complete_prog (p : PProg) (tys : List Ty) (h : ProgOK p tys) :
    checkProg true p = { errs := [], tys := tys } := by
  cases h with | mk hd hcl hg hf hm =>
  simp only [checkProg, (dupFn_nil_iff _ _).mpr hd, (fnClash_nil_iff _ _).mpr hcl, complete_globals _ _ _ _ _ hg, complete_fns _ _ _ _ hf, hm,
    Bool.not_true, Bool.and_false, Bool.false_eq_true, ↓reduceIte, List.append_nil]

/-! ### diagnostics vs. errors -/

theorem check_all_notError_iff (needMain : Bool) (p : PProg) :
    (checkWith needMain p).all notError = true ↔ (checkProg needMain p).errs = [] := by
  simp only [checkWith, List.all_append, Bool.and_eq_true]
  constructor
  · intro ⟨h1, _⟩
    cases hh : (checkProg needMain p).errs with
    | nil => rfl
    | cons e es => simp [hh, Diag.ofErr, notError] at h1
  · intro h
    constructor
    · simp [h]
    · simp [warnings, notError]

end HmsProofs.Lemmas.Check
