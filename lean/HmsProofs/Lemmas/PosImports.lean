import Hms.Pos.ImportGraph
/-! Lemmas for C05: the module recursion and the cycle check terminate (measure: unvisited names). -/
namespace HmsProofs.Lemmas.PosImports
open Hms.Pos.Imports

theorem filter_len_le {α : Type} (p q : α → Bool) (h : ∀ x, p x = true → q x = true) (l : List α) :
    (l.filter p).length ≤ (l.filter q).length := by
  induction l with
  | nil => simp
  | cons a l ih =>
    simp only [List.filter_cons]
    cases hp : p a with
    | true => simp [h a hp]; exact ih
    | false =>
      cases hq : q a with
      | true => simp; omega
      | false => simpa using ih

theorem filter_len_lt {α : Type} (p q : α → Bool) (h : ∀ x, p x = true → q x = true) (l : List α)
    (a : α) (ha : a ∈ l) (hq : q a = true) (hp : p a = false) :
    (l.filter p).length < (l.filter q).length := by
  induction l with
  | nil => simp at ha
  | cons b l ih =>
    simp only [List.filter_cons]
    simp only [List.mem_cons] at ha
    rcases ha with rfl | ha
    · have := filter_len_le p q h l
      simp [hq, hp]; omega
    · have := ih ha
      cases hpb : p b with
      | true => simp [h b hpb]; exact this
      | false =>
        cases hqb : q b with
        | true => simp; omega
        | false => simpa using this

theorem white_mono (u : List String) {vis vis' : List String} (h : ∀ x, x ∈ vis → x ∈ vis') :
    white u vis' ≤ white u vis := by
  unfold white
  apply filter_len_le
  intro x hx
  simp only [Bool.not_eq_true', List.contains_eq_mem, decide_eq_false_iff_not] at hx ⊢
  exact fun hm => hx (h x hm)

theorem white_lt (u : List String) {a : String} {vis : List String} (hu : a ∈ u) (ha : a ∉ vis) :
    white u (a :: vis) < white u vis := by
  unfold white
  apply filter_len_lt _ _ _ u a hu
  · simpa using ha
  · simp
  · intro x hx
    simp only [Bool.not_eq_true', List.contains_eq_mem, decide_eq_false_iff_not, List.mem_cons, not_or] at hx ⊢
    exact hx.2

theorem white_le (u vis : List String) : white u vis ≤ u.length := by
  unfold white; exact List.length_filter_le _ _

theorem lookup_mem_univ {g : Graph} {k : String} {ns : List String} (h : g.lookup k = some ns) :
    ∀ n ∈ ns, n ∈ univ g := by
  induction g with
  | nil => simp at h
  | cons e g ih =>
    intro n hn
    simp only [List.lookup] at h
    unfold univ
    simp only [List.flatMap_cons, List.mem_append, List.mem_cons]
    split at h
    · simp only [Option.some.injEq] at h
      subst h; exact Or.inl (Or.inr hn)
    · exact Or.inr (ih h n hn)

theorem lookup_key_mem {α : Type} {g : List (String × α)} {k : String} {v : α} (h : g.lookup k = some v) :
    k ∈ g.map Prod.fst := by
  induction g with
  | nil => simp at h
  | cons e g ih =>
    simp only [List.lookup] at h
    split at h
    · rename_i heq
      have : k = e.1 := by simpa using heq
      simp [this]
    · simp [ih h]

/-! ## The cycle check -/

/-- The neighbour loop terminates when every recursive call it can make terminates. -/
theorem cycLoop_total (u : List String) (orig : String) (fuel : Nat)
    (step : String → List String → Option (Bool × List String))
    (hstep : ∀ n vis, white u vis < fuel → ∃ r, step n vis = some r ∧ ∀ x, x ∈ vis → x ∈ r.2)
    (ns : List String) (hns : ∀ n ∈ ns, n ∈ u) (vis : List String) (hw : white u vis < fuel + 1) :
    ∃ r, cycLoop step orig ns vis = some r ∧ ∀ x, x ∈ vis → x ∈ r.2 := by
  induction ns generalizing vis with
  | nil => exact ⟨_, rfl, fun _ h => h⟩
  | cons n rest ih =>
    have hrest : ∀ m ∈ rest, m ∈ u := fun m hm => hns m (by simp [hm])
    simp only [cycLoop]
    split
    · exact ⟨_, rfl, fun _ h => h⟩
    · split
      · exact ih hrest vis hw
      · rename_i hnv
        have hnv' : n ∉ vis := by simpa using hnv
        have hlt := white_lt u (hns n (by simp)) hnv'
        obtain ⟨r, hr, hsub⟩ := hstep n (n :: vis) (by omega)
        rw [hr]
        obtain ⟨b, v⟩ := r
        cases b with
        | true => exact ⟨_, rfl, fun x hx => hsub x (by simp [hx])⟩
        | false =>
          have hsub' : ∀ x, x ∈ vis → x ∈ v := fun x hx => hsub x (by simp [hx])
          have hw' : white u v < fuel + 1 := by
            have := white_mono u hsub'; omega
          obtain ⟨r', hr', hsub''⟩ := ih hrest v hw'
          exact ⟨r', hr', fun x hx => hsub'' x (hsub' x hx)⟩

/-- `importGraphIsCyclicInner` with the visited set terminates: fuel above the number of names
not yet visited is enough. -/
theorem cyc_total (g : Graph) (orig : String) (fuel : Nat) (start : String) (vis : List String)
    (hw : white (univ g) vis < fuel) :
    ∃ r, cyc g orig fuel start vis = some r ∧ ∀ x, x ∈ vis → x ∈ r.2 := by
  induction fuel generalizing start vis with
  | zero => omega
  | succ fuel ih =>
    simp only [cyc]
    split
    · exact ⟨_, rfl, fun _ h => h⟩
    · rename_i ns hl
      exact cycLoop_total (univ g) orig fuel (cyc g orig fuel) (fun n v hv => ih n v hv) ns
        (lookup_mem_univ hl) vis hw

theorem isCyclic_total (g : Graph) (start : String) : ∃ b, isCyclic g start = some b := by
  unfold isCyclic
  obtain ⟨r, hr, _⟩ := cyc_total g start ((univ g).length + 1) start [start]
    (by have := white_le (univ g) [start]; omega)
  exact ⟨r.1, by rw [hr]; rfl⟩

/-- Finding A8: without the visited set the check does not return on `main → a → a`, whatever the fuel. -/
theorem cycUnfixed_self_loop (fuel : Nat) :
    cycUnfixed [("main", ["a"]), ("a", ["a"])] "main" fuel "a" = none := by
  induction fuel with
  | zero => rfl
  | succ fuel ih =>
    simp only [cycUnfixed, List.lookup]
    simp [ih]

theorem cycUnfixed_diverges (fuel : Nat) :
    cycUnfixed [("main", ["a"]), ("a", ["a"])] "main" fuel "main" = none := by
  cases fuel with
  | zero => rfl
  | succ fuel =>
    simp only [cycUnfixed, List.lookup]
    simp [cycUnfixed_self_loop]

/-! ## The module recursion -/

def keys (host : Host) : List String := host.map Prod.fst

theorem importItem_total (host : Host) (fuel : Nat) (rec : String → AState → Option AState)
    (hrec : ∀ m st, white (keys host) (m :: st.visited) < fuel →
      ∃ st', rec m st = some st' ∧ ∀ x, x ∈ m :: st.visited → x ∈ st'.visited)
    (cur x : String) (st : AState) (hw : white (keys host) st.visited < fuel + 1) :
    ∃ st', importItem host rec cur x st = some st' ∧ ∀ y, y ∈ st.visited → y ∈ st'.visited := by
  unfold importItem
  cases hl : host.lookup x with
  | none => exact ⟨st, rfl, fun _ h => h⟩
  | some v =>
    simp only
    by_cases hv : st.visited.contains x = true
    · simp only [hv, if_true]
      exact ⟨_, rfl, fun _ h => h⟩
    · simp only [hv]
      have hnv' : x ∉ st.visited := by simpa using hv
      have hkey : x ∈ keys host := lookup_key_mem hl
      have hlt := white_lt (keys host) hkey hnv'
      obtain ⟨st1, h1, hsub1⟩ := hrec x { st with imports := addImport st.imports cur x } (by simp only; omega)
      simp only [Bool.false_eq_true, if_false, h1]
      obtain ⟨b, hb⟩ := isCyclic_total st1.imports cur
      simp only [hb]
      have hsub : ∀ y, y ∈ st.visited → y ∈ st1.visited := fun y hy => hsub1 y (by simp [hy])
      cases b with
      | true => exact ⟨_, rfl, hsub⟩
      | false => exact ⟨_, rfl, hsub⟩

theorem importLoop_total (host : Host) (fuel : Nat) (rec : String → AState → Option AState)
    (hrec : ∀ m st, white (keys host) (m :: st.visited) < fuel →
      ∃ st', rec m st = some st' ∧ ∀ x, x ∈ m :: st.visited → x ∈ st'.visited)
    (cur : String) (xs : List String) (st : AState) (hw : white (keys host) st.visited < fuel + 1) :
    ∃ st', importLoop host rec cur xs st = some st' ∧ ∀ x, x ∈ st.visited → x ∈ st'.visited := by
  induction xs generalizing st with
  | nil => exact ⟨st, rfl, fun _ h => h⟩
  | cons x rest ih =>
    obtain ⟨st1, h1, hsub1⟩ := importItem_total host fuel rec hrec cur x st hw
    have hw1 : white (keys host) st1.visited < fuel + 1 := by
      have := white_mono (keys host) hsub1; omega
    obtain ⟨st2, h2, hsub2⟩ := ih st1 hw1
    exact ⟨st2, by simp only [importLoop, h1, h2], fun y hy => hsub2 y (hsub1 y hy)⟩

/-- `analyzeModule` terminates: fuel above the number of host modules not yet visited is enough. -/
theorem analyzeModule_total (host : Host) (fuel : Nat) (m : String) (st : AState)
    (hw : white (keys host) (m :: st.visited) < fuel) :
    ∃ st', analyzeModule host fuel m st = some st' ∧ ∀ x, x ∈ m :: st.visited → x ∈ st'.visited := by
  induction fuel generalizing m st with
  | zero => omega
  | succ fuel ih =>
    simp only [analyzeModule]
    exact importLoop_total host fuel (analyzeModule host fuel) (fun m' st' h => ih m' st' h) m _
      { st with visited := m :: st.visited, imports := st.imports ++ [(m, [])] } (by simp only; omega)

theorem analyze_total (host : Host) (entry : String) : ∃ st, analyze host entry = some st := by
  unfold analyze
  obtain ⟨st, h, _⟩ := analyzeModule_total host (host.length + 1) entry {}
    (by
      have h := white_le (keys host) (entry :: ({} : AState).visited)
      have hk : (keys host).length = host.length := by simp [keys]
      omega)
  exact ⟨st, h⟩

end HmsProofs.Lemmas.PosImports
