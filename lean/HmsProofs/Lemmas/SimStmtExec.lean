import HmsProofs.Lemmas.SimStmtSpec
/-!
# Semantic correctness of `let`, assignment and `while` (`exec_stmt`)
-/
namespace HmsProofs.Sim
open Hms.Core Hms.Core.Comp Hms.Core.VM

/-! ## More about `StRel` -/

theorem StRel.push {mod T N σ lim mp cs vm ss mem} (h : StRel mod T N σ lim mp cs vm ss mem) :
    StRel mod T N σ lim mp ([] :: cs) vm ([] :: ss) mem := by
  refine ⟨h.scopes.push T σ lim mp, ?_, ?_, ?_⟩
  · simpa [liveNames, levelNames] using h.nodup
  · intro m hm; exact h.inN m (by simpa [liveNames, levelNames] using hm)
  · intro sc hsc p hp hpT
    simp only [List.mem_cons] at hsc
    rcases hsc with rfl | hsc
    · simp at hp
    · exact h.named sc hsc p hp hpT

theorem StRel.tail {mod T N σ lim mp cs vm ss mem} (h : StRel mod T N σ lim mp cs vm ss mem) :
    StRel mod T N σ lim mp cs.tail vm ss.tail mem := by
  refine ⟨h.scopes.tail T σ lim mp, ?_, ?_, ?_⟩
  · cases cs with
    | nil => exact h.nodup
    | cons c cs =>
      have := h.nodup
      simp only [liveNames, List.flatMap_cons] at this
      exact (List.nodup_append.mp this).2.1
  · intro m hm
    cases cs with
    | nil => exact h.inN m hm
    | cons c cs => exact h.inN m (by simp only [liveNames, List.flatMap_cons, List.mem_append]; exact Or.inr hm)
  · intro sc hsc p hp hpT
    exact h.named sc (List.mem_of_mem_tail hsc) p hp hpT

theorem StRel.vm_mono {mod T N σ lim mp cs vm vm' ss mem} (h : StRel mod T N σ lim mp cs vm ss mem)
    (hm : ∀ k, cnt vm k ≤ cnt vm' k) : StRel mod T N σ lim mp cs vm' ss mem := by
  refine ⟨h.scopes, h.nodup, h.inN, ?_⟩
  intro sc hsc p hp hpT
  obtain ⟨c, e, hlt⟩ := h.named sc hsc p hp hpT
  exact ⟨c, e, Nat.lt_of_lt_of_le hlt (hm _)⟩

/-! ## The simulation statement for statements -/

/-- For one result `r` of the specification started in `st`: normal completion ↦ only the scopes
of the specification state changed, the VM runs from `ip` to `ip + n` with the operand stack as
before, and the invariant `Q` holds for the new scopes and the new memory; fatal ↦ same fatal
interrupt; `unsupported`/`timeout` ↦ no claim; the statements of the fragment never end in
`break`/`continue`/`return`/`throw`. -/
def SimS {α : Type} (code : Code) (lim : Limits) (s : VMState) (ip n : Nat) (stk : List SVal)
    (mem : List (Int × Val)) (Q : SScopes → List (Int × Val) → Prop) (st : St)
    (r : Except Ctl α × St) : Prop :=
  match r with
  | (.ok _, st') =>
    st' = { st with scopes := st'.scopes } ∧
      ∃ mem', RunsTo code lim s ip stk mem (ip + n) stk mem' ∧ Q st'.scopes mem'
  | (.error (.fatal kd m sp), _) => RunsFatal code lim s ip stk mem kd m sp
  | (.error (.unsupported _), _) => True
  | (.error .timeout, _) => True
  | _ => False

section Arith
variable (code : Code) (lim : Limits) (s : VMState) (f : Frame) (rest : List Frame) (c : List (RInstr × Span))
variable (σ lab : String → Nat)

/-- The instruction(s) of a non-logical infix operator on two operand values. -/
theorem exec_arith (hc : s.calls = f :: rest) (hf : findCode code f.fn = some c)
    (op : InfixOp) (sp : Span) (a b : Val) (oa ob : Option Org) (st : St) (ip : Nat) (stk : List SVal)
    (mem : List (Int × Val)) (hlog : Frag.isLogical op = false)
    (hpl : Placed lab σ c ip ((arithI op).map (·, sp))) (hheap : s.st.heap = st.heap) :
    match binOp op a b sp st with
    | (.ok v, _) =>
      RunsTo code lim s ip (⟨b, ob⟩ :: ⟨a, oa⟩ :: stk) mem (ip + nI ((arithI op).map (·, sp))) (⟨v, none⟩ :: stk) mem
    | (.error (.fatal kd m fsp), _) => RunsFatal code lim s ip (⟨b, ob⟩ :: ⟨a, oa⟩ :: stk) mem kd m fsp
    | (.error (.unsupported _), _) => True
    | (.error .timeout, _) => True
    | _ => False := by
  rcases arithI_cases op hlog with rfl | ⟨hne, i, hi⟩
  · simp only [arithI, List.map_cons, List.map_nil] at hpl ⊢
    obtain ⟨ieq, hY⟩ := hpl.instr (i := .eq) rfl
    obtain ⟨inot, _⟩ := hY.instr (i := .not) rfl
    have hbin := fun k => reach_bin code lim s ip k stk mem f rest c hc hf .eq .eq sp lab σ a b
      oa ob st rfl (by decide) ieq hheap
    rw [binOp_ne_run]
    simp only [binOp_eq_run] at hbin
    cases hv : valEq st.heap 64 a b with
    | none => trivial
    | some q =>
      simp only [hv] at hbin
      refine ((RunsTo.of_exec1 hbin).trans (RunsTo.of_exec1 (fun k =>
        reach_pre code lim s _ k stk mem f rest c hc hf .not sp lab σ (.bool q) (.bool (!q)) none
          inot rfl))).cast ?_
      rw [nI_instr _ _ _ rfl, nI_instr _ _ _ rfl]
      simp only [nI_nil]
  · rw [hi] at hpl ⊢
    simp only [List.map_cons, List.map_nil] at hpl ⊢
    have hil : isLabel i = false := by
      cases op <;> simp [arithI] at hi <;> subst hi <;> rfl
    obtain ⟨iop, _⟩ := hpl.instr hil
    have hbin := fun k => reach_bin code lim s ip k stk mem f rest c hc hf op i sp lab σ a b
      oa ob st hi hne iop hheap
    rcases hb : binOp op a b sp st with ⟨rb, st3⟩
    simp only [hb] at hbin
    cases rb with
    | ok v =>
      simp only [] at hbin
      refine (RunsTo.of_exec1 hbin).cast ?_
      rw [nI_instr _ _ _ hil]
      simp only [nI_nil]
    | error cb =>
      have hben := binOp_benign hb
      cases cb <;> first | trivial | exact hben.elim | skip
      simp only [] at hbin
      intro k
      obtain ⟨s', hs', h1, _, h3, h4, h5⟩ := hbin k
      exact ⟨1, s', by rw [execN_one]; exact hs', h1, h3, h4, h5⟩
end Arith

section Main
variable (cfg : Cfg) (code : Code) (lim : Limits) (mod : String) (T : List String) (N : String → Prop)
variable (σ lab : String → Nat) (s : VMState) (f : Frame) (rest : List Frame) (c : List (RInstr × Span))

/-- The four simulation statements at a given fuel. -/
def PS (fuel : Nat) : Prop :=
  ∀ (st : Stmt) (env : CEnv) (spec : St) (ip : Nat) (stk : List SVal) (mem : List (Int × Val)),
    Frag.okS st = true → (∀ x ∈ Frag.identsS st, x ∈ T) → Frag.wsS mod st env = true →
    (∀ m ∈ codeVars (cS mod st env).1, N m) → Placed lab σ c ip (cS mod st env).1 →
    StRel mod T N σ lim s.mp env.scopes env.vm spec.scopes mem → s.st.heap = spec.heap →
    SimS code lim s ip (nI (cS mod st env).1) stk mem
      (StRel mod T N σ lim s.mp (cS mod st env).2.scopes (cS mod st env).2.vm) spec (evalStmt cfg fuel st spec)

def PSs (fuel : Nat) : Prop :=
  ∀ (ss : List Stmt) (env : CEnv) (spec : St) (ip : Nat) (stk : List SVal) (mem : List (Int × Val)),
    Frag.okSs ss = true → (∀ x ∈ Frag.identsSs ss, x ∈ T) → Frag.wsSs mod ss env = true →
    (∀ m ∈ codeVars (cSs mod ss env).1, N m) → Placed lab σ c ip (cSs mod ss env).1 →
    StRel mod T N σ lim s.mp env.scopes env.vm spec.scopes mem → s.st.heap = spec.heap →
    SimS code lim s ip (nI (cSs mod ss env).1) stk mem
      (StRel mod T N σ lim s.mp (cSs mod ss env).2.scopes (cSs mod ss env).2.vm) spec (evalStmts cfg fuel ss spec)

def PB (fuel : Nat) : Prop :=
  ∀ (b : Block) (env : CEnv) (spec : St) (ip : Nat) (stk : List SVal) (mem : List (Int × Val)),
    Frag.okB b = true → (∀ x ∈ Frag.identsB b, x ∈ T) → Frag.wsB mod b env = true →
    (∀ m ∈ codeVars (cB mod b env).1, N m) → Placed lab σ c ip (cB mod b env).1 →
    StRel mod T N σ lim s.mp env.scopes env.vm spec.scopes mem → s.st.heap = spec.heap →
    SimS code lim s ip (nI (cB mod b env).1) stk mem
      (StRel mod T N σ lim s.mp (cB mod b env).2.scopes (cB mod b env).2.vm) spec
      (inScope (evalBlock cfg fuel b) spec)

def PL (fuel : Nat) : Prop :=
  ∀ (sp : Span) (cnd : Expr) (body : Block) (env : CEnv) (spec : St) (ip : Nat) (stk : List SVal)
    (mem : List (Int × Val)),
    Frag.okS (.whileS sp cnd body) = true → (∀ x ∈ Frag.identsS (.whileS sp cnd body), x ∈ T) →
    Frag.wsS mod (.whileS sp cnd body) env = true →
    (∀ m ∈ codeVars (cS mod (.whileS sp cnd body) env).1, N m) →
    Placed lab σ c ip (cS mod (.whileS sp cnd body) env).1 →
    StRel mod T N σ lim s.mp env.scopes env.vm spec.scopes mem → s.st.heap = spec.heap →
    SimS code lim s ip (nI (cS mod (.whileS sp cnd body) env).1) stk mem
      (StRel mod T N σ lim s.mp env.scopes env.vm) spec (loopRun cfg fuel (some cnd) body spec)

variable {cfg code lim mod T N σ lab s f rest c}

theorem ps_zero : PS cfg code lim mod T N σ lab s c 0 := by
  intro st env spec ip stk mem _ _ _ _ _ _ _
  rw [evalStmt]; trivial

theorem pss_zero : PSs cfg code lim mod T N σ lab s c 0 := by
  intro ss env spec ip stk mem _ _ _ _ _ _ _
  rw [evalStmts]; trivial

theorem pb_zero : PB cfg code lim mod T N σ lab s c 0 := by
  intro b env spec ip stk mem _ _ _ _ _ _ _
  rw [inScope_run, evalBlock]; trivial

theorem pl_zero : PL cfg code lim mod T N σ lab s c 0 := by
  intro sp cnd body env spec ip stk mem _ _ _ _ _ _ _
  rw [loopRun]; trivial

/-- `let` and assignments (and `while`, given the loop statement at the fuel below). -/
theorem cB_vm_mono (mod : String) (b : Block) (env : CEnv) (k : String) :
    cnt env.vm k ≤ cnt (cB mod b env).2.vm k :=
  (cS_vm_mono mod (Frag.depthBS b)).2.2 b env (Nat.le_refl _) k

theorem ps_step (hc : s.calls = f :: rest) (hf : findCode code f.fn = some c) (hg : Good T N σ lim s.mp)
    (n : Nat) (hPL : PL cfg code lim mod T N σ lab s c n)
    (hPBlow : ∀ m, m + 1 = n → PB cfg code lim mod T N σ lab s c m) :
    PS cfg code lim mod T N σ lab s c (n + 1) := by
  intro st env spec ip stk mem hs hT hws hN hpl hrel hheap
  cases st
  case typedef | trigger | ret | brk | cont | loopS | forS => simp [Frag.okS] at hs
  case letS sp name vty needsCast oty e =>
    simp only [Frag.okS, Bool.and_eq_true, Bool.not_eq_eq_eq_not, Bool.not_true] at hs
    obtain ⟨hnc, he⟩ := hs
    subst hnc
    simp only [Frag.wsS] at hws
    simp only [Frag.identsS, List.mem_cons] at hT
    simp only [cS] at hN hpl ⊢
    generalize hce : cpE mod (ρS env.scopes) e env.lm = ce at hN hpl ⊢
    obtain ⟨hplE, hplS⟩ := hpl.append
    obtain ⟨iset, _⟩ := hplS.instr (i := .setVar (freshVar mod { env with lm := ce.2 } name).1) rfl
    have hNm : N (freshVar mod { env with lm := ce.2 } name).1 := hN _ (by simp [codeVars, var?])
    have henv := hrel.scopes.envRel T σ lim s.mp (Frag.varsE e) (fun x hx => hT x (Or.inr hx)) hws
    have h1 := exec_pure cfg code lim mod (ρS env.scopes) σ lab s f rest c hc hf n e spec ip stk mem env.lm he
      (hce ▸ hplE) henv hheap
    rw [hce] at h1
    rw [evalStmt_let]
    rcases hev : evalExpr cfg n e spec with ⟨r1, st1⟩
    rw [hev] at h1
    cases r1 with
    | error ce' => cases ce' <;> first | trivial | exact h1.elim | exact h1.2
    | ok v =>
      obtain ⟨rfl, hrun⟩ := h1
      have hdecl := StRel.declare (env := { env with lm := ce.2 }) hg hrel name (hT name (Or.inl rfl)) v hNm
      refine ⟨declareSt_frame name v st1, _, (hrun.trans (RunsTo.of_exec1 (fun k =>
        reach_setVar code lim s _ k stk mem f rest c hc hf _ sp v none iset (hg.frame _ hNm).1
          (hg.frame _ hNm).2))).cast ?_, ?_⟩
      · rw [nI_append, nI_instr _ _ _ rfl]; simp only [nI_nil]; omega
      · rw [declareSt_scopes]
        exact hdecl
  case exprS sp e =>
    rcases okS_exprS_inv sp e hs with ⟨asp, op, isp, ity, name, isFn, r, rfl, hr, hlog⟩ |
      ⟨isp, ty, cnd, t, eb, rfl, hty, hcnd, ht, heb⟩ | ⟨isp, ty, cnd, t, rfl, hty, hcnd, ht⟩
    ·
      simp only [Frag.wsS] at hws
      obtain ⟨hname, hvr⟩ := resolved_cons hws
      simp only [Frag.identsS, List.mem_cons] at hT
      have hxT : name ∈ T := hT name (Or.inl rfl)
      -- the variable is bound on both sides
      have hlk := hrel.scopes.lookup T σ lim s.mp name hxT
      cases hρ : ρS env.scopes name with
      | none => simp [hρ] at hname
      | some m =>
      cases hls : lookupScopes name spec.scopes with
      | none => simp [hρ, hls] at hlk
      | some cur =>
      simp only [hρ, hls] at hlk
      obtain ⟨⟨hm0, hm1, hmv⟩, hmlive⟩ := hlk
      have hNm : N m := hrel.inN m hmlive
      have henv := hrel.scopes.envRel T σ lim s.mp (Frag.varsE r) (fun x hx => hT x (Or.inr hx)) hvr
      rw [evalStmt_exprS]
      match n with
      | 0 => rw [evalExpr]; trivial
      | 1 => rw [evalExpr_assign_short]; trivial
      | n' + 2 =>
      cases op with
      | none =>
        simp only [cS, hρ, Option.getD_some] at hN hpl ⊢
        generalize hcr : cpE mod (ρS env.scopes) r env.lm = cr at hN hpl ⊢
        obtain ⟨hplE, hplS⟩ := hpl.append
        obtain ⟨iset, _⟩ := hplS.instr (i := .setVar m) rfl
        have h1 := exec_pure cfg code lim mod (ρS env.scopes) σ lab s f rest c hc hf (n' + 1) r spec ip stk mem env.lm hr
          (hcr ▸ hplE) henv hheap
        rw [hcr] at h1
        rw [evalExpr_assign_none]
        rcases hev : evalExpr cfg (n' + 1) r spec with ⟨r1, st1⟩
        rw [hev] at h1
        cases r1 with
        | error ce' => cases ce' <;> first | trivial | exact h1.elim | exact h1.2
        | ok v =>
          obtain ⟨rfl, hrun⟩ := h1
          obtain ⟨ss', hass, hrel'⟩ := hrel.assign hg name hxT m hρ v
          simp only [writePlace_var name false v st1 ss' hass]
          refine ⟨rfl, _, (hrun.trans (RunsTo.of_exec1 (fun k =>
            reach_setVar code lim s _ k stk mem f rest c hc hf _ asp v none iset hm0 hm1))).cast ?_, hrel'⟩
          rw [nI_append, nI_instr _ _ _ rfl]; simp only [nI_nil]; omega
      | some o =>
        have hlog := hlog o rfl
        simp only [cS, hρ, Option.getD_some] at hN hpl ⊢
        generalize hcr : cpE mod (ρS env.scopes) r env.lm = cr at hN hpl ⊢
        -- (([getVar m] ++ cr.1) ++ arith) ++ [setVar m]
        obtain ⟨h3, hplS⟩ := hpl.append
        obtain ⟨h2, hplA⟩ := h3.append
        obtain ⟨hplG, hplE⟩ := h2.append
        obtain ⟨iget, _⟩ := hplG.instr (i := .getVar m) rfl
        obtain ⟨iset, _⟩ := hplS.instr (i := .setVar m) rfl
        have hnG : nI [((Instr.getVar m : SInstr), asp)] = 1 := rfl
        simp only [nI_append, hnG] at hplE hplA iset ⊢
        simp only [← Nat.add_assoc] at hplA iset
        have hget : RunsTo code lim s ip stk mem (ip + 1) (⟨cur, none⟩ :: stk) mem :=
          RunsTo.of_exec1 (fun k => reach_getVar code lim s ip k stk mem f rest c hc hf (σ m) asp cur iget hm0 hm1 hmv)
        have h1 := exec_pure cfg code lim mod (ρS env.scopes) σ lab s f rest c hc hf (n' + 1) r spec (ip + 1)
          (⟨cur, none⟩ :: stk) mem env.lm hr (hcr ▸ hplE) henv hheap
        rw [hcr] at h1
        rw [evalExpr_assign_some, readPlace_var name false cur spec hls]
        simp only []
        rcases hev : evalExpr cfg (n' + 1) r spec with ⟨r1, st1⟩
        rw [hev] at h1
        cases r1 with
        | error ce' => cases ce' <;> first | trivial | exact h1.elim | exact hget.fatal h1.2
        | ok b =>
          obtain ⟨rfl, hrun⟩ := h1
          simp only []
          have ha := exec_arith code lim s f rest c σ lab hc hf o asp cur b none none st1 (ip + 1 + nI cr.1)
            stk mem hlog hplA hheap
          rcases hb : binOp o cur b asp st1 with ⟨rb, st2⟩
          have hst2 : st2 = st1 := by
            have := (binOp_heapOnly o cur b asp).state st1
            rw [hb] at this; exact this
          subst hst2
          rw [hb] at ha
          cases rb with
          | error cb => cases cb <;> first | trivial | exact ha.elim | exact (hget.trans hrun).fatal ha
          | ok v =>
            simp only [] at ha ⊢
            obtain ⟨ss', hass, hrel'⟩ := hrel.assign hg name hxT m hρ v
            simp only [writePlace_var name false v st2 ss' hass]
            refine ⟨rfl, _, (((hget.trans hrun).trans ha).trans (RunsTo.of_exec1 (fun k =>
              reach_setVar code lim s _ k stk mem f rest c hc hf _ asp v none iset hm0 hm1))).cast ?_, hrel'⟩
            rw [nI_instr _ _ _ rfl]; simp only [nI_nil]; omega

    · -- `if c { … } else { … }`
      simp only [Frag.wsS, Bool.and_eq_true] at hws
      obtain ⟨⟨hvc, hwt⟩, hwe⟩ := hws
      simp only [Frag.identsS, List.mem_append] at hT
      rw [evalStmt_exprS]
      match n, hPBlow with
      | 0, _ => rw [evalExpr]; trivial
      | m + 1, hPBlow =>
      have hPB := hPBlow m rfl
      simp only [cS, codeVars_append, List.mem_append] at hN hpl ⊢
      generalize hC : cpE mod (ρS env.scopes) cnd env.lm = C at hN hpl hwt hwe ⊢
      generalize hAf : freshLabel mod C.2 "if_after" = aft at hN hpl hwt hwe ⊢
      generalize hEl : freshLabel mod aft.2 "else" = els at hN hpl hwt hwe ⊢
      generalize hTb : cB mod t { env with lm := els.2 } = Tb at hN hpl hwe ⊢
      generalize hEb : cB mod eb Tb.2 = Eb at hN hpl ⊢
      obtain ⟨h5, hZ⟩ := hpl.append
      obtain ⟨h4, hplE⟩ := h5.append
      obtain ⟨h3, hY⟩ := h4.append
      obtain ⟨h2, hplT⟩ := h3.append
      obtain ⟨hplC, hX⟩ := h2.append
      obtain ⟨ijif, _⟩ := hX.instr (i := .jumpIfFalse els.1) rfl
      obtain ⟨ijmp, hY'⟩ := hY.instr (i := .jump aft.1) rfl
      obtain ⟨eels, _⟩ := hY'.label
      obtain ⟨eaft, _⟩ := hZ.label
      have hnCX : nI (C.1 ++ [((Instr.jumpIfFalse els.1 : SInstr), isp)]) = nI C.1 + 1 := by
        rw [nI_append, nI_instr _ _ _ rfl]; rfl
      have hnY : nI [((Instr.jump aft.1 : SInstr), isp), (.label els.1, isp)] = 1 := rfl
      have hn : nI (C.1 ++ [((Instr.jumpIfFalse els.1 : SInstr), isp)] ++ Tb.1 ++
          [(.jump aft.1, isp), (.label els.1, isp)] ++ Eb.1 ++ [(.label aft.1, isp)]) =
          nI C.1 + 1 + nI Tb.1 + 1 + nI Eb.1 := by
        rw [nI_append, nI_append, nI_append, nI_append, hnCX, hnY]; rfl
      simp only [nI_append, hnCX, hnY] at hplT ijmp eels hplE eaft
      rw [hn]
      have hscT : Tb.2.scopes = env.scopes := by rw [← hTb, cB_scopes]
      have hscE : Eb.2.scopes = env.scopes := by rw [← hEb, cB_scopes, hscT]
      have hvmT : ∀ k, cnt env.vm k ≤ cnt Tb.2.vm k := fun k => by rw [← hTb]; exact cB_vm_mono mod t { env with lm := els.2 } k
      have hvmE : ∀ k, cnt Tb.2.vm k ≤ cnt Eb.2.vm k := fun k => by rw [← hEb]; exact cB_vm_mono mod eb _ k
      have henvc := hrel.scopes.envRel T σ lim s.mp (Frag.varsE cnd) (fun x hx => hT x (Or.inl hx)) hvc
      have h1 := exec_pure cfg code lim mod (ρS env.scopes) σ lab s f rest c hc hf m cnd spec ip stk mem env.lm hcnd
        (hC ▸ hplC) henvc hheap
      rw [hC] at h1
      rw [evalExpr_ifE]
      rcases hev : evalExpr cfg m cnd spec with ⟨r1, st1⟩
      rw [hev] at h1
      cases r1 with
      | error ce' => cases ce' <;> first | trivial | exact h1.elim | exact h1.2
      | ok v =>
        obtain ⟨rfl, hrun⟩ := h1
        cases v <;> try trivial
        rename_i bv
        have hjif := RunsTo.of_exec1 (fun k =>
          reach_jumpIfFalse code lim s _ k stk mem f rest c hc hf (lab els.1) isp bv none ijif)
        cases bv with
        | true =>
          simp only []
          have hpre : RunsTo code lim s ip stk mem (ip + (nI C.1 + 1)) stk mem :=
            (hrun.trans hjif).cast (by simp only [if_true]; omega)
          have hb := hPB t { env with lm := els.2 } st1 (ip + (nI C.1 + 1)) stk mem ht
            (fun x hx => hT x (Or.inr (Or.inl hx))) hwt
            (fun mm hm => hN mm (Or.inl (Or.inl (Or.inl (Or.inr (hTb ▸ hm)))))) (hTb ▸ hplT) hrel hheap
          rw [hTb] at hb
          rcases hbe : inScope (evalBlock cfg m t) st1 with ⟨r2, st2⟩
          rw [hbe] at hb
          cases r2 with
          | error ce' => cases ce' <;> first | trivial | exact hb.elim | exact hpre.fatal hb
          | ok u =>
            obtain ⟨hfr, mem1, hrunB, hrelB⟩ := hb
            refine ⟨hfr, mem1, ((hpre.trans hrunB).trans (RunsTo.of_exec1 (fun k =>
              reach_jump code lim s _ k _ mem1 f rest c hc hf (lab aft.1) isp (by
                rw [← Nat.add_assoc] at ijmp ⊢; exact ijmp)))).cast (by omega), ?_⟩
            rw [hscE, ← hscT]
            exact hrelB.vm_mono hvmE
        | false =>
          simp only []
          have hpre : RunsTo code lim s ip stk mem (ip + (nI C.1 + 1 + nI Tb.1 + 1)) stk mem :=
            (hrun.trans hjif).cast (by simp only [Bool.false_eq_true, if_false]; omega)
          have hrelT : StRel mod T N σ lim s.mp Tb.2.scopes Tb.2.vm st1.scopes mem := by
            rw [hscT]; exact hrel.vm_mono hvmT
          have hb := hPB eb Tb.2 st1 (ip + (nI C.1 + 1 + nI Tb.1 + 1)) stk mem heb
            (fun x hx => hT x (Or.inr (Or.inr hx))) hwe
            (fun mm hm => hN mm (Or.inl (Or.inr (hEb ▸ hm)))) (hEb ▸ hplE) hrelT hheap
          rw [hEb] at hb
          rcases hbe : inScope (evalBlock cfg m eb) st1 with ⟨r2, st2⟩
          rw [hbe] at hb
          cases r2 with
          | error ce' => cases ce' <;> first | trivial | exact hb.elim | exact hpre.fatal hb
          | ok u =>
            obtain ⟨hfr, mem1, hrunB, hrelB⟩ := hb
            exact ⟨hfr, mem1, (hpre.trans hrunB).cast (by omega), hrelB⟩
    · -- `if c { … }`
      simp only [Frag.wsS, Bool.and_eq_true] at hws
      obtain ⟨hvc, hwt⟩ := hws
      simp only [Frag.identsS, List.mem_append] at hT
      rw [evalStmt_exprS]
      match n, hPBlow with
      | 0, _ => rw [evalExpr]; trivial
      | m + 1, hPBlow =>
      have hPB := hPBlow m rfl
      simp only [cS, codeVars_append, List.mem_append] at hN hpl ⊢
      generalize hC : cpE mod (ρS env.scopes) cnd env.lm = C at hN hpl hwt ⊢
      generalize hAf : freshLabel mod C.2 "if_after" = aft at hN hpl hwt ⊢
      generalize hEl : freshLabel mod aft.2 "else" = els at hN hpl hwt ⊢
      generalize hTb : cB mod t { env with lm := els.2 } = Tb at hN hpl ⊢
      -- ((C ++ [jif after]) ++ T) ++ [jump after, label after]
      obtain ⟨h3, hY⟩ := hpl.append
      obtain ⟨h2, hplT⟩ := h3.append
      obtain ⟨hplC, hX⟩ := h2.append
      obtain ⟨ijif, _⟩ := hX.instr (i := .jumpIfFalse aft.1) rfl
      obtain ⟨ijmp, hY'⟩ := hY.instr (i := .jump aft.1) rfl
      obtain ⟨eaft, _⟩ := hY'.label
      have hnCX : nI (C.1 ++ [((Instr.jumpIfFalse aft.1 : SInstr), isp)]) = nI C.1 + 1 := by
        rw [nI_append, nI_instr _ _ _ rfl]; rfl
      have hnY : nI [((Instr.jump aft.1 : SInstr), isp), (.label aft.1, isp)] = 1 := rfl
      have hn : nI (C.1 ++ [((Instr.jumpIfFalse aft.1 : SInstr), isp)] ++ Tb.1 ++
          [(.jump aft.1, isp), (.label aft.1, isp)]) = nI C.1 + 1 + nI Tb.1 + 1 := by
        rw [nI_append, nI_append, hnCX, hnY]
      simp only [nI_append, hnCX] at hplT ijmp eaft
      rw [hn]
      have hscT : Tb.2.scopes = env.scopes := by rw [← hTb, cB_scopes]
      have hvmT : ∀ k, cnt env.vm k ≤ cnt Tb.2.vm k := fun k => by rw [← hTb]; exact cB_vm_mono mod t { env with lm := els.2 } k
      have henvc := hrel.scopes.envRel T σ lim s.mp (Frag.varsE cnd) (fun x hx => hT x (Or.inl hx)) hvc
      have h1 := exec_pure cfg code lim mod (ρS env.scopes) σ lab s f rest c hc hf m cnd spec ip stk mem env.lm hcnd
        (hC ▸ hplC) henvc hheap
      rw [hC] at h1
      rw [evalExpr_ifE_none]
      rcases hev : evalExpr cfg m cnd spec with ⟨r1, st1⟩
      rw [hev] at h1
      cases r1 with
      | error ce' => cases ce' <;> first | trivial | exact h1.elim | exact h1.2
      | ok v =>
        obtain ⟨rfl, hrun⟩ := h1
        cases v <;> try trivial
        rename_i bv
        have hjif := RunsTo.of_exec1 (fun k =>
          reach_jumpIfFalse code lim s _ k stk mem f rest c hc hf (lab aft.1) isp bv none ijif)
        cases bv with
        | true =>
          simp only []
          have hpre : RunsTo code lim s ip stk mem (ip + (nI C.1 + 1)) stk mem :=
            (hrun.trans hjif).cast (by simp only [if_true]; omega)
          have hb := hPB t { env with lm := els.2 } st1 (ip + (nI C.1 + 1)) stk mem ht
            (fun x hx => hT x (Or.inr hx)) hwt
            (fun mm hm => hN mm (Or.inl (Or.inr (hTb ▸ hm)))) (hTb ▸ hplT) hrel hheap
          rw [hTb] at hb
          rcases hbe : inScope (evalBlock cfg m t) st1 with ⟨r2, st2⟩
          rw [hbe] at hb
          cases r2 with
          | error ce' => cases ce' <;> first | trivial | exact hb.elim | exact hpre.fatal hb
          | ok u =>
            obtain ⟨hfr, mem1, hrunB, hrelB⟩ := hb
            exact ⟨hfr, mem1, ((hpre.trans hrunB).trans (RunsTo.of_exec1 (fun k =>
              reach_jump code lim s _ k _ mem1 f rest c hc hf (lab aft.1) isp (by
                rw [← Nat.add_assoc] at ijmp ⊢; exact ijmp)))).cast (by omega), hrelB⟩
        | false =>
          refine ⟨rfl, mem, (hrun.trans hjif).cast (by simp only [Bool.false_eq_true, if_false]; omega), ?_⟩
          rw [hscT]
          exact hrel.vm_mono hvmT
  case whileS sp cnd body =>
    rw [evalStmt_while]
    have h := hPL sp cnd body env spec ip stk mem hs hT hws hN hpl hrel hheap
    rcases hl : loopRun cfg n (some cnd) body spec with ⟨r1, st1⟩
    rw [hl] at h
    cases r1 with
    | error ce' => cases ce' <;> exact h
    | ok u =>
      obtain ⟨h1, mem', hrun, hq⟩ := h
      refine ⟨h1, mem', hrun, ?_⟩
      have hsc : (cS mod (.whileS sp cnd body) env).2.scopes = env.scopes := by
        simp only [cS]; rw [cB_scopes]
      rw [hsc]
      exact hq.vm_mono ((cS_vm_mono mod _).1 _ env (Nat.le_refl _))

/-- Statement sequences. -/
theorem pss_step (n : Nat) (hPS : PS cfg code lim mod T N σ lab s c n) (hPSs : PSs cfg code lim mod T N σ lab s c n) :
    PSs cfg code lim mod T N σ lab s c (n + 1) := by
  intro ss env spec ip stk mem hs hT hws hN hpl hrel hheap
  cases ss with
  | nil =>
    rw [evalStmts_nil]
    exact ⟨rfl, mem, (RunsTo.refl code lim s ip stk mem).cast (by simp [cSs]), hrel⟩
  | cons st ss =>
    simp only [Frag.okSs, Bool.and_eq_true] at hs
    simp only [Frag.wsSs, Bool.and_eq_true] at hws
    simp only [Frag.identsSs, List.mem_append] at hT
    simp only [cSs, codeVars_append, List.mem_append] at hN hpl ⊢
    obtain ⟨hpl1, hpl2⟩ := hpl.append
    have h1 := hPS st env spec ip stk mem hs.1 (fun x hx => hT x (Or.inl hx)) hws.1
      (fun m hm => hN m (Or.inl hm)) hpl1 hrel hheap
    rw [evalStmts_cons]
    rcases hev : evalStmt cfg n st spec with ⟨r1, st1⟩
    rw [hev] at h1
    cases r1 with
    | error ce' => cases ce' <;> exact h1
    | ok u =>
      obtain ⟨hfr, mem1, hrun1, hrel1⟩ := h1
      simp only []
      have hheap1 : s.st.heap = st1.heap := by rw [hfr]; exact hheap
      have h2 := hPSs ss (cS mod st env).2 st1 (ip + nI (cS mod st env).1) stk mem1 hs.2
        (fun x hx => hT x (Or.inr hx)) hws.2 (fun m hm => hN m (Or.inr hm)) hpl2 hrel1 hheap1
      rcases hev2 : evalStmts cfg n ss st1 with ⟨r2, st2⟩
      rw [hev2] at h2
      cases r2 with
      | error ce' => cases ce' <;> first | trivial | exact h2.elim | exact hrun1.fatal h2
      | ok u2 =>
        obtain ⟨hfr2, mem2, hrun2, hrel2⟩ := h2
        refine ⟨?_, mem2, (hrun1.trans hrun2).cast (by rw [nI_append]; omega), hrel2⟩
        rw [hfr2, hfr]

/-- Blocks of statements, in their own scope. -/
theorem pb_step (n : Nat) (hPSs : PSs cfg code lim mod T N σ lab s c n) :
    PB cfg code lim mod T N σ lab s c (n + 1) := by
  intro b env spec ip stk mem hs hT hws hN hpl hrel hheap
  obtain ⟨bsp, bty, stmts, oe⟩ := b
  cases oe with
  | some _ => simp [Frag.okB] at hs
  | none =>
    simp only [Frag.okB] at hs
    simp only [Frag.wsB] at hws
    simp only [Frag.identsB] at hT
    simp only [cB] at hN hpl ⊢
    rw [inScope_run, evalBlock_stmts]
    have h1 := hPSs stmts { env with scopes := [] :: env.scopes } { spec with scopes := [] :: spec.scopes } ip stk mem
      hs hT hws hN hpl hrel.push hheap
    rcases hev : evalStmts cfg n stmts { spec with scopes := [] :: spec.scopes } with ⟨r1, st1⟩
    rw [hev] at h1
    cases r1 with
    | error ce' => cases ce' <;> exact h1
    | ok u =>
      obtain ⟨hfr, mem1, hrun1, hrel1⟩ := h1
      refine ⟨?_, mem1, hrun1, hrel1.tail⟩
      simp only []
      rw [hfr]

/-- The loop. -/
theorem pl_step (hc : s.calls = f :: rest) (hf : findCode code f.fn = some c) (n : Nat)
    (hPB : PB cfg code lim mod T N σ lab s c n) (hPL : PL cfg code lim mod T N σ lab s c n) :
    PL cfg code lim mod T N σ lab s c (n + 1) := by
  intro sp cnd body env spec ip stk mem hs hT hws hN hpl hrel hheap
  have hs' := hs
  simp only [Frag.okS, Bool.and_eq_true] at hs'
  obtain ⟨hcnd, hbody⟩ := hs'
  have hws' := hws
  simp only [Frag.wsS, Bool.and_eq_true] at hws'
  obtain ⟨hvc, hwb⟩ := hws'
  have hT' := hT
  simp only [Frag.identsS, List.mem_append] at hT'
  have hN' := hN
  have hpl' := hpl
  simp only [cS, codeVars_append, List.mem_append] at hN' hpl' ⊢
  generalize hH : freshLabel mod env.lm "loop_head" = head at hN' hpl' hwb ⊢
  generalize hA : freshLabel mod head.2 "loop_end" = after at hN' hpl' hwb ⊢
  generalize hC : cpE mod (ρS env.scopes) cnd after.2 = cc at hN' hpl' hwb ⊢
  generalize hB : cB mod body { env with lm := cc.2 } = cb at hN' hpl' ⊢
  -- ((([label head] ++ cc) ++ [jif after]) ++ cb) ++ [jump head, label after]
  obtain ⟨h4, hY⟩ := hpl'.append
  obtain ⟨h3, hplB⟩ := h4.append
  obtain ⟨h2, hX⟩ := h3.append
  obtain ⟨hL, hplC⟩ := h2.append
  obtain ⟨ehead, _⟩ := hL.label
  obtain ⟨ijif, _⟩ := hX.instr (i := .jumpIfFalse after.1) rfl
  obtain ⟨ijmp, hY'⟩ := hY.instr (i := .jump head.1) rfl
  obtain ⟨eafter, _⟩ := hY'.label
  have hnL : nI [((Instr.label head.1 : SInstr), sp)] = 0 := rfl
  have hnX : nI [((Instr.jumpIfFalse after.1 : SInstr), sp)] = 1 := rfl
  have hnY : nI [((Instr.jump head.1 : SInstr), sp), (.label after.1, sp)] = 1 := rfl
  simp only [nI_append, hnL, hnX, Nat.add_zero, Nat.zero_add] at hplC ijif hplB ijmp eafter
  simp only [nI_append, hnL, hnX, hnY, Nat.zero_add]
  have henv := hrel.scopes.envRel T σ lim s.mp (Frag.varsE cnd) (fun x hx => hT' x (Or.inl hx)) hvc
  have h1 := exec_pure cfg code lim mod (ρS env.scopes) σ lab s f rest c hc hf n cnd spec ip stk mem after.2 hcnd
    (hC ▸ hplC) henv hheap
  rw [hC] at h1
  rw [loopRun_step]
  rcases hev : evalExpr cfg n cnd spec with ⟨r1, st1⟩
  rw [hev] at h1
  cases r1 with
  | error ce' => cases ce' <;> first | trivial | exact h1.elim | exact h1.2
  | ok v =>
    obtain ⟨rfl, hrun⟩ := h1
    cases v <;> try trivial
    rename_i bv
    have hjif := RunsTo.of_exec1 (fun k =>
      reach_jumpIfFalse code lim s _ k stk mem f rest c hc hf (lab after.1) sp bv none ijif)
    cases bv with
    | false =>
      refine ⟨rfl, mem, (hrun.trans hjif).cast ?_, hrel⟩
      simp only [Bool.false_eq_true, if_false]
      omega
    | true =>
      simp only []
      have hpre : RunsTo code lim s ip stk mem (ip + (nI cc.1 + 1)) stk mem :=
        (hrun.trans hjif).cast (by simp only [if_true]; omega)
      have hb := hPB body { env with lm := cc.2 } st1 (ip + (nI cc.1 + 1)) stk mem hbody
        (fun x hx => hT' x (Or.inr hx)) hwb
        (fun m hm => hN' m (Or.inl (Or.inr (hB ▸ hm)))) (hB ▸ hplB) hrel hheap
      rw [hB] at hb
      rcases hbe : inScope (evalBlock cfg n body) st1 with ⟨r2, s'⟩
      rw [hbe] at hb
      have hjump : ∀ memx, RunsTo code lim s (ip + (nI cc.1 + 1) + nI cb.1) stk memx ip stk memx := fun memx =>
        (RunsTo.of_exec1 (fun k => reach_jump code lim s _ k stk memx f rest c hc hf (lab head.1) sp (by
          rw [Nat.add_assoc]; exact ijmp))).cast ehead
      cases r2 with
      | error ce' => cases ce' <;> first | trivial | exact hb.elim | exact hpre.fatal hb
      | ok u =>
        obtain ⟨hfr, mem1, hrunB, hrelB⟩ := hb
        simp only []
        have hscB : cb.2.scopes = env.scopes := by rw [← hB, cB_scopes]
        rw [hscB] at hrelB
        have hrel1 : StRel mod T N σ lim s.mp env.scopes env.vm s'.scopes mem1 :=
          ⟨hrelB.scopes, hrel.nodup, hrel.inN, hrel.named⟩
        have hheap1 : s.st.heap = s'.heap := by rw [hfr]; exact hheap
        have hloop := hPL sp cnd body env s' ip stk mem1 hs hT hws hN hpl hrel1 hheap1
        simp only [cS, hH, hA, hC, hB, nI_append, hnL, hnX, hnY, Nat.zero_add] at hloop
        rcases hl : loopRun cfg n (some cnd) body s' with ⟨r3, s''⟩
        rw [hl] at hloop
        have hround : RunsTo code lim s ip stk mem ip stk mem1 := (hpre.trans hrunB).trans (hjump mem1)
        cases r3 with
        | error ce' => cases ce' <;> first | trivial | exact hloop.elim | exact hround.fatal hloop
        | ok u3 =>
          obtain ⟨hfr3, mem3, hrun3, hrel3⟩ := hloop
          refine ⟨?_, mem3, hround.trans hrun3, hrel3⟩
          rw [hfr3, hfr]

/-- **Semantic correctness of `let`, assignment and `while`.** -/
theorem exec_stmt_all (hc : s.calls = f :: rest) (hf : findCode code f.fn = some c) (hg : Good T N σ lim s.mp) :
    ∀ fuel, PS cfg code lim mod T N σ lab s c fuel ∧ PSs cfg code lim mod T N σ lab s c fuel ∧
      PB cfg code lim mod T N σ lab s c fuel ∧ PL cfg code lim mod T N σ lab s c fuel := by
  intro fuel
  induction fuel using Nat.strongRecOn with
  | _ fuel ih =>
  cases fuel with
  | zero => exact ⟨ps_zero, pss_zero, pb_zero, pl_zero⟩
  | succ n =>
    obtain ⟨h1, h2, h3, h4⟩ := ih n (Nat.lt_succ_self n)
    exact ⟨ps_step hc hf hg n h4 (fun m hm => (ih m (by omega)).2.2.1), pss_step n h1 h2, pb_step n h2,
      pl_step hc hf n h3 h4⟩

end Main

end HmsProofs.Sim
