import HmsProofs.Lemmas.SimHDefs
/-!
# Static facts about `cgS`: block structure of scopes, growth of the variable counters
-/
namespace HmsProofs.Sim
open Hms.Core Hms.Core.Comp

theorem depthGS_pos (st : Stmt) : 1 ≤ Frag.depthGS st := by
  cases st <;> try (simp [Frag.depthGS]; done)
  case exprS sp e =>
    cases e <;> try (simp [Frag.depthGS]; done)
    case ifE isp ty c t el => cases el <;> simp [Frag.depthGS]
    case assign asp op l r => cases l <;> simp [Frag.depthGS]
    case call csp cty base args sw => cases base <;> simp [Frag.depthGS]
    case matchE msp ty c arms dflt =>
      cases dflt with
      | none => simp [Frag.depthGS]
      | some d => cases d <;> simp [Frag.depthGS]
  case ret sp oe => cases oe <;> simp [Frag.depthGS]
  case forS sp name vty iter body =>
    obtain ⟨bsp, bty, stmts, boe⟩ := body
    cases iter <;> simp [Frag.depthGS]

theorem levelNames_ghost (T : List String) (c : List (String × String)) (x m : String) (hx : x ∉ T) :
    levelNames T ((x, m) :: c.filter (·.1 != x)) = levelNames T c := by
  have hc : T.contains x = false := by simpa using hx
  unfold levelNames
  simp only [List.filter_cons, hc, Bool.false_eq_true, if_false, List.filter_filter]
  congr 1
  apply List.filter_congr
  intro p _
  by_cases hp : p.1 = x
  · rw [hp]; simp [hx]
  · have : (p.1 != x) = true := by simpa using hp
    simp [this]

theorem freshVar_scopes_tail (mod : String) (env : CEnv) (x : String) :
    (freshVar mod env x).2.scopes.tail = env.scopes.tail := by
  unfold freshVar
  cases env.scopes <;> rfl

theorem freshVar_vm_mono (mod : String) (env : CEnv) (x k : String) : cnt env.vm k ≤ cnt (freshVar mod env x).2.vm k := by
  rw [cnt_freshVar]
  split <;> (try subst_vars) <;> omega

/-- A property of the environment that every arm block preserves is preserved by the arms. -/
theorem cgArmsS_env (mod fn : String) (φ : String → Option String) (loops : List (String × String)) (sp : Span)
    (after : String) (P : CEnv → CEnv → Prop) (hrefl : ∀ e, P e e) (htrans : ∀ a b c, P a b → P b c → P a c)
    (n : Nat) (hB : ∀ (b : Block) (env : CEnv), Frag.depthGBS b ≤ n → P env (cgBS mod fn φ loops b env).2) :
    ∀ (arms : List (List Expr × Expr)) (nms : List String) (env : CEnv), Frag.depthGArmsS arms ≤ n →
      P env (cgArmsS mod fn φ loops sp after arms nms env).2 := by
  intro arms
  induction arms with
  | nil => intro nms env _; exact hrefl env
  | cons a rest ih =>
    intro nms env hd
    obtain ⟨lits, act⟩ := a
    cases nms with
    | nil => cases act <;> exact hrefl env
    | cons nm nms =>
      cases act
      case blockE b =>
        simp only [Frag.depthGArmsS] at hd
        simp only [cgArmsS]
        exact htrans _ _ _ (hB b env (by omega)) (ih nms _ (by omega))
      all_goals
        simp only [Frag.depthGArmsS] at hd
        simp only [cgArmsS]
        exact ih nms env hd

/-- A statement changes only the innermost scope level; a block restores the scopes. -/
theorem cgS_scopes_tail (mod fn : String) (φ : String → Option String) : ∀ (n : Nat),
    (∀ (loops : List (String × String)) (st : Stmt) (env : CEnv), Frag.depthGS st ≤ n →
      (cgS mod fn φ loops st env).2.scopes.tail = env.scopes.tail) ∧
    (∀ (loops : List (String × String)) (ss : List Stmt) (env : CEnv), Frag.depthGSs ss ≤ n →
      (cgSs mod fn φ loops ss env).2.scopes.tail = env.scopes.tail) ∧
    (∀ (loops : List (String × String)) (b : Block) (env : CEnv), Frag.depthGBS b ≤ n →
      (cgBS mod fn φ loops b env).2.scopes = env.scopes) := by
  intro n
  induction n with
  | zero =>
    refine ⟨?_, ?_, ?_⟩
    · intro loops st env hd; have := depthGS_pos st; omega
    · intro loops ss env hd; cases ss <;> simp [Frag.depthGSs] at hd
    · intro loops b env hd; obtain ⟨_, _, _, _⟩ := b; simp [Frag.depthGBS] at hd
  | succ n ih =>
    obtain ⟨ihS, ihSs, ihB⟩ := ih
    refine ⟨?_, ?_, ?_⟩
    · intro loops st env hd
      cases st
      case typedef | trigger => rfl
      case forS sp name vty iter body =>
        obtain ⟨bsp, bty, stmts, boe⟩ := body
        cases iter <;> try rfl
        cases boe <;> try rfl
        simp only [Frag.depthGS] at hd
        simp only [cgS]
        rw [ihSs _ stmts _ (by omega), freshVar_scopes_tail, freshVar_scopes_tail]
        rfl
      case brk sp => simp only [cgS]
      case cont sp => simp only [cgS]
      case ret sp oe => cases oe <;> rfl
      case letS sp name vty nc oty e =>
        cases nc
        · simp only [cgS, freshVar]
          cases env.scopes <;> rfl
        · rfl
      case exprS sp e =>
        cases e
        case assign asp op l r =>
          cases op <;> cases l <;> try rfl
          all_goals (rename_i g _ sg; cases g <;> cases sg <;> rfl)
        case ifE isp ty c t el =>
          cases el with
          | some eb =>
            simp only [Frag.depthGS] at hd
            simp only [cgS]
            rw [ihB loops eb _ (by omega), ihB loops t _ (by omega)]
          | none =>
            simp only [Frag.depthGS] at hd
            simp only [cgS]
            rw [ihB loops t _ (by omega)]
        case call csp cty base args sw =>
          cases base <;> try rfl
          case member msp mty b nm mop =>
            cases mop <;> cases args <;> try rfl
            rename_i a rest
            cases rest <;> cases sw <;> rfl
          rename_i isp ity name g f si
          simp only [cgS]
          split
          · rfl
          · split <;> rfl
        case matchE msp ty c arms dflt =>
          cases dflt with
          | none => rfl
          | some d =>
            cases d <;> try rfl
            rename_i db
            simp only [Frag.depthGS] at hd
            simp only [cgS]
            rw [ihB loops db _ (by omega)]
            rw [cgArmsS_env mod fn φ loops msp _ (fun e e' => e'.scopes = e.scopes) (fun _ => rfl)
              (fun a b c h1 h2 => h2.trans h1) n (fun b env hb => ihB loops b env hb) arms _ _ (by omega)]
        case tryE tsp ty t ci c =>
          obtain ⟨csp', cty', cstmts, coe⟩ := c
          cases coe with
          | some _ => rfl
          | none =>
            simp only [Frag.depthGS, Frag.depthGBS] at hd
            simp only [cgS]
            rw [ihSs loops cstmts _ (by omega)]
            simp only [freshVar, List.tail_cons]
            rw [ihB [] t _ (by omega)]
        all_goals rfl
      case whileS sp c body =>
        simp only [Frag.depthGS] at hd
        simp only [cgS]
        rw [ihB _ body _ (by omega)]
      case loopS sp body =>
        simp only [Frag.depthGS] at hd
        simp only [cgS]
        rw [ihB _ body _ (by omega)]
    · intro loops ss env hd
      cases ss with
      | nil => rfl
      | cons st ss =>
        simp only [Frag.depthGSs] at hd
        rw [cgSs]
        simp only []
        rw [ihSs loops ss _ (by omega), ihS loops st env (by omega)]
    · intro loops b env hd
      obtain ⟨bsp, bty, stmts, oe⟩ := b
      simp only [Frag.depthGBS] at hd
      cases oe with
      | some _ => rfl
      | none =>
        simp only [cgBS]
        rw [ihSs loops stmts _ (by omega)]
        rfl

theorem cgBS_scopes (mod fn : String) (φ : String → Option String) (loops : List (String × String)) (b : Block)
    (env : CEnv) : (cgBS mod fn φ loops b env).2.scopes = env.scopes :=
  (cgS_scopes_tail mod fn φ (Frag.depthGBS b)).2.2 loops b env (Nat.le_refl _)

theorem cgS_tail (mod fn : String) (φ : String → Option String) (loops : List (String × String)) (st : Stmt)
    (env : CEnv) : (cgS mod fn φ loops st env).2.scopes.tail = env.scopes.tail :=
  (cgS_scopes_tail mod fn φ (Frag.depthGS st)).1 loops st env (Nat.le_refl _)

theorem cgSs_tail (mod fn : String) (φ : String → Option String) (loops : List (String × String)) (ss : List Stmt)
    (env : CEnv) : (cgSs mod fn φ loops ss env).2.scopes.tail = env.scopes.tail :=
  (cgS_scopes_tail mod fn φ (Frag.depthGSs ss)).2.1 loops ss env (Nat.le_refl _)

/-- Variable counters only grow. -/
theorem cgS_vm_mono (mod fn : String) (φ : String → Option String) : ∀ (n : Nat),
    (∀ (loops : List (String × String)) (st : Stmt) (env : CEnv), Frag.depthGS st ≤ n →
      ∀ k, cnt env.vm k ≤ cnt (cgS mod fn φ loops st env).2.vm k) ∧
    (∀ (loops : List (String × String)) (ss : List Stmt) (env : CEnv), Frag.depthGSs ss ≤ n →
      ∀ k, cnt env.vm k ≤ cnt (cgSs mod fn φ loops ss env).2.vm k) ∧
    (∀ (loops : List (String × String)) (b : Block) (env : CEnv), Frag.depthGBS b ≤ n →
      ∀ k, cnt env.vm k ≤ cnt (cgBS mod fn φ loops b env).2.vm k) := by
  intro n
  induction n with
  | zero =>
    refine ⟨?_, ?_, ?_⟩
    · intro loops st env hd; have := depthGS_pos st; omega
    · intro loops ss env hd; cases ss <;> simp [Frag.depthGSs] at hd
    · intro loops b env hd; obtain ⟨_, _, _, _⟩ := b; simp [Frag.depthGBS] at hd
  | succ n ih =>
    obtain ⟨ihS, ihSs, ihB⟩ := ih
    refine ⟨?_, ?_, ?_⟩
    · intro loops st env hd k
      cases st
      case typedef | trigger => exact Nat.le_refl _
      case forS sp name vty iter body =>
        obtain ⟨bsp, bty, stmts, boe⟩ := body
        cases iter <;> try exact Nat.le_refl _
        cases boe <;> try exact Nat.le_refl _
        simp only [Frag.depthGS] at hd
        simp only [cgS]
        refine Nat.le_trans ?_ (ihSs _ stmts _ (by omega) k)
        refine Nat.le_trans ?_ (freshVar_vm_mono mod _ _ k)
        exact freshVar_vm_mono mod _ _ k
      case brk sp => simp only [cgS]; exact Nat.le_refl _
      case cont sp => simp only [cgS]; exact Nat.le_refl _
      case ret sp oe => cases oe <;> exact Nat.le_refl _
      case letS sp name vty nc oty e =>
        cases nc
        · simp only [cgS]
          have := cnt_freshVar mod { env with lm := (cgE mod (ρS env.scopes) φ e env.lm).2 } name k
          simp only at this
          rw [this]
          split <;> (try subst_vars) <;> omega
        · exact Nat.le_refl _
      case exprS sp e =>
        cases e
        case assign asp op l r =>
          cases op <;> cases l <;> try exact Nat.le_refl _
          all_goals (rename_i g _ sg; cases g <;> cases sg <;> exact Nat.le_refl _)
        case ifE isp ty c t el =>
          cases el with
          | some eb =>
            simp only [Frag.depthGS] at hd
            simp only [cgS]
            have h1 := ihB loops t { env with lm := (freshLabel mod (freshLabel mod
              (cgE mod (ρS env.scopes) φ c env.lm).2 "if_after").2 "else").2 } (by omega) k
            have h2 := ihB loops eb (cgBS mod fn φ loops t { env with lm := (freshLabel mod (freshLabel mod
              (cgE mod (ρS env.scopes) φ c env.lm).2 "if_after").2 "else").2 }).2 (by omega) k
            exact Nat.le_trans h1 h2
          | none =>
            simp only [Frag.depthGS] at hd
            simp only [cgS]
            have h1 := ihB loops t { env with lm := (freshLabel mod (freshLabel mod
              (cgE mod (ρS env.scopes) φ c env.lm).2 "if_after").2 "else").2 } (by omega) k
            exact h1
        case call csp cty base args sw =>
          cases base <;> try exact Nat.le_refl _
          case member msp mty b nm mop =>
            cases mop <;> cases args <;> try exact Nat.le_refl _
            rename_i a rest
            cases rest <;> cases sw <;> exact Nat.le_refl _
          rename_i isp ity name g f si
          simp only [cgS]
          split
          · exact Nat.le_refl _
          · split <;> exact Nat.le_refl _
        case matchE msp ty c arms dflt =>
          cases dflt with
          | none => exact Nat.le_refl _
          | some d =>
            cases d <;> try exact Nat.le_refl _
            rename_i db
            simp only [Frag.depthGS] at hd
            simp only [cgS]
            refine Nat.le_trans ?_ (ihB loops db _ (by omega) k)
            have h := cgArmsS_env mod fn φ loops msp
              (freshLabel mod (cgE mod (ρS env.scopes) φ c env.lm).2 "match_after").1
              (fun e e' => cnt e.vm k ≤ cnt e'.vm k) (fun _ => Nat.le_refl _)
              (fun a b c h1 h2 => Nat.le_trans h1 h2) n (fun b env hb => ihB loops b env hb k) arms
              (armTests mod msp arms (freshLabel mod (cgE mod (ρS env.scopes) φ c env.lm).2 "match_after").2).2.1
              { env with lm := (freshLabel mod (armTests mod msp arms (freshLabel mod
                (cgE mod (ρS env.scopes) φ c env.lm).2 "match_after").2).2.2 "match_default").2 } (by omega)
            exact h
        case tryE tsp ty t ci c =>
          obtain ⟨csp', cty', cstmts, coe⟩ := c
          cases coe with
          | some _ => exact Nat.le_refl _
          | none =>
            simp only [Frag.depthGS, Frag.depthGBS] at hd
            simp only [cgS]
            have h1 := ihB [] t { env with lm := (freshLabel mod (freshLabel mod env.lm "exception_label").2
              "after_catch_label").2 } (by omega) k
            generalize cgBS mod fn φ [] t { env with lm := (freshLabel mod (freshLabel mod env.lm "exception_label").2
              "after_catch_label").2 } = ct at h1 ⊢
            have h2 := cnt_freshVar mod { ct.2 with scopes := [] :: ct.2.scopes } ci k
            have h3 := ihSs loops cstmts (freshVar mod { ct.2 with scopes := [] :: ct.2.scopes } ci).2 (by omega) k
            have h2' : cnt ct.2.vm k ≤ cnt (freshVar mod { ct.2 with scopes := [] :: ct.2.scopes } ci).2.vm k := by
              rw [h2]; simp only []; split <;> (try subst_vars) <;> omega
            exact Nat.le_trans h1 (Nat.le_trans h2' h3)
        all_goals exact Nat.le_refl _
      case whileS sp c body =>
        simp only [Frag.depthGS] at hd
        simp only [cgS]
        have h := ihB ((( freshLabel mod (freshLabel mod env.lm "loop_head").2 "loop_end").1,
          (freshLabel mod env.lm "loop_head").1) :: loops) body { env with lm := (cgE mod (ρS env.scopes) φ c
          (freshLabel mod (freshLabel mod env.lm "loop_head").2 "loop_end").2).2 } (by omega) k
        exact h
      case loopS sp body =>
        simp only [Frag.depthGS] at hd
        simp only [cgS]
        have h := ihB ((( freshLabel mod (freshLabel mod env.lm "loop_head").2 "loop_end").1,
          (freshLabel mod env.lm "loop_head").1) :: loops) body
          { env with lm := (freshLabel mod (freshLabel mod env.lm "loop_head").2 "loop_end").2 } (by omega) k
        exact h
    · intro loops ss env hd k
      cases ss with
      | nil => exact Nat.le_refl _
      | cons st ss =>
        simp only [Frag.depthGSs] at hd
        rw [cgSs]
        exact Nat.le_trans (ihS loops st env (by omega) k) (ihSs loops ss _ (by omega) k)
    · intro loops b env hd k
      obtain ⟨bsp, bty, stmts, oe⟩ := b
      simp only [Frag.depthGBS] at hd
      cases oe with
      | some _ => exact Nat.le_refl _
      | none =>
        simp only [cgBS]
        have h := ihSs loops stmts { env with scopes := [] :: env.scopes } (by omega) k
        exact h

theorem cgBS_vm_mono (mod fn : String) (φ : String → Option String) (loops : List (String × String)) (b : Block)
    (env : CEnv) (k : String) : cnt env.vm k ≤ cnt (cgBS mod fn φ loops b env).2.vm k :=
  (cgS_vm_mono mod fn φ (Frag.depthGBS b)).2.2 loops b env (Nat.le_refl _) k

end HmsProofs.Sim
