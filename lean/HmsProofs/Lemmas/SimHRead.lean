import HmsProofs.Lemmas.SimHObj
/-!
# Cell reads `l[i]`, `o.f` and `l.len()`: one step each, given the simulation of the parts

The value of a cell read arrives on the VM's stack with the cell's origin attached; `SimOE` is `SimGE`
with that origin left open.
-/
namespace HmsProofs.Sim
open Hms.Core Hms.Core.Comp Hms.Core.VM

/-- `SimGE` with the origin of the pushed value left open. -/
def SimOE (G : GCtx) (A : Act) (ip n : Nat) (stk : List SVal) (mem : Mem) (st : St)
    (r : Except Ctl Val × St) : Prop :=
  match r with
  | (.ok v, st') =>
    st' = { st with out := st'.out, heap := st'.heap } ∧
      ∃ mem' o, Runs G.fr G.code G.lim G.s A.fn A.rest A.mp ip stk mem st.world (ip + n) (⟨v, o⟩ :: stk) mem' st'.world ∧
        MemLe G.fr A.mp mem mem'
  | (.error c, st') => SimGE G A ip n stk mem st (.error c, st')

theorem SimOE.of_simGE {G A ip n stk mem st r} (h : SimGE G A ip n stk mem st r) : SimOE G A ip n stk mem st r := by
  obtain ⟨r1, st1⟩ := r
  cases r1 with
  | error c => exact h
  | ok v =>
    obtain ⟨hfr, mem1, ov, hov, hrun, hml⟩ := h
    exact ⟨hfr, mem1, ov, hrun, hml⟩

theorem evalExpr_index (cfg fuel sp ty b i st) :
    evalExpr cfg (fuel + 1) (.index sp ty b i) st =
      match evalExpr cfg fuel b st with
      | (.ok bv, st1) =>
        (match evalExpr cfg fuel i st1 with
          | (.ok iv, st2) => indexVal bv iv sp st2
          | (.error c, st2) => (.error c, st2))
      | (.error c, st1) => (.error c, st1) := by
  rw [evalExpr, M_bind]
  rcases evalExpr cfg fuel b st with ⟨r1, st1⟩
  cases r1 with
  | error c => rfl
  | ok bv =>
    simp only []
    rw [M_bind]
    rcases evalExpr cfg fuel i st1 with ⟨r2, st2⟩
    cases r2 <;> rfl

theorem SimOE.error_after {G : GCtx} {A : Act} {ip n stk mem st c st1 ip1 mem1} {st0 : St} (n' : Nat)
    (ys : List SVal)
    (h0 : Runs G.fr G.code G.lim G.s A.fn A.rest A.mp ip stk mem st0.world ip1 (ys ++ stk) mem1 st.world)
    (hfr : st = { st0 with out := st.out, heap := st.heap }) (hml : MemLe G.fr A.mp mem mem1)
    (h : SimOE G A ip1 n (ys ++ stk) mem1 st (.error c, st1)) : SimOE G A ip n' stk mem st0 (.error c, st1) :=
  SimGE.error_after n' ys h0 hfr hml h

/-- `Index` after the base and the index: the specification's `indexVal`. -/
theorem index_runs (G : GCtx) (A : Act) (hA : A.OK G) (sp : Span) (ip : Nat) (stk : List SVal) (mem : Mem)
    (st : St) (bv iv : Val) (ob oi : Option Org) (hx : A.c[ip]? = some (.index, sp)) :
    match indexVal bv iv sp st with
    | (.ok v, _) => Runs G.fr G.code G.lim G.s A.fn A.rest A.mp ip (⟨iv, oi⟩ :: ⟨bv, ob⟩ :: stk) mem st.world
        (ip + 1) (⟨v, idxOrg st.heap bv iv⟩ :: stk) mem st.world
    | (.error (.fatal kd m fsp), _) =>
      RunsF G.code G.lim G.s A.fn A.rest A.mp ip (⟨iv, oi⟩ :: ⟨bv, ob⟩ :: stk) mem st.world kd m fsp st.world
    | (.error (.unsupported _), _) => True
    | _ => False := by
  obtain ⟨hst, hheap, herr⟩ := indexVal_shape bv iv sp st
  have hvm : ∀ it, (indexVal bv iv sp { (withIt G.s it).st with heap := st.world.heap, out := st.world.out }).1 =
      (indexVal bv iv sp st).1 := fun it =>
    (indexVal_shape bv iv sp st).2.1 _ rfl
  rcases hr : indexVal bv iv sp st with ⟨r, st'⟩
  rw [hr] at hvm herr
  simp only at hvm herr
  cases r with
  | ok v =>
    refine Runs.of_exec1 (fr := G.fr) (mem := mem) (fun it_ k => ?_)
    rw [mkS_index G.code G.lim (withIt G.s it_) A.fn ip A.rest A.mp k stk mem.cells st.world A.c hA.code sp bv iv ob oi hx,
      hvm it_]
    rfl
  | error c =>
    rcases herr c rfl with ⟨kd, m, rfl⟩ | ⟨w, rfl⟩
    · intro k
      refine ⟨1, mkS (withIt G.s mem.it) (⟨A.fn, ip⟩ :: A.rest) A.mp (k + 1) stk mem.cells st.world, ?_, rfl, rfl⟩
      rw [execHN_one]
      apply exec1H_of_fatal
      show exec1 G.code G.lim (mkS (withIt G.s mem.it) (⟨A.fn, ip⟩ :: A.rest) A.mp k (⟨iv, oi⟩ :: ⟨bv, ob⟩ :: stk) mem.cells
        st.world) = _
      rw [mkS_index G.code G.lim (withIt G.s mem.it) A.fn ip A.rest A.mp k stk mem.cells st.world A.c hA.code sp bv iv ob oi
        hx, hvm mem.it]
      rfl
    · trivial

theorem memberVal_dot_heap (b : Val) (name : String) (sp : Span) (st st' : St) (h : st'.heap = st.heap) :
    (memberVal b name .dot sp st').1 = (memberVal b name .dot sp st).1 := by
  rw [memberVal_dot, memberVal_dot]
  cases b <;> try rfl
  case ref a =>
    simp only [h]
    cases st.heap[a]? with
    | none => rfl
    | some c =>
      cases c <;> try rfl
      rename_i fs; simp only []; cases fs.lookup name <;> rfl
  case range x y i =>
    simp only []
    split
    · rfl
    · split <;> rfl

theorem memberVal_dot_error (b : Val) (name : String) (sp : Span) (st : St) (c : Ctl) (st' : St)
    (h : memberVal b name .dot sp st = (.error c, st')) : ∃ w, c = .unsupported w := by
  rw [memberVal_dot] at h
  cases b <;> try (cases h; done)
  case ref a =>
    simp only [] at h
    cases hc : st.heap[a]? with
    | none => rw [hc] at h; cases h; exact ⟨_, rfl⟩
    | some cl =>
      rw [hc] at h
      cases cl <;> try (cases h; done)
      rename_i fs; simp only [] at h; cases hl : fs.lookup name <;> rw [hl] at h <;> cases h
  case range x y i =>
    simp only [] at h
    split at h
    · cases h
    · split at h <;> cases h

/-- `Member` after the base: the specification's `memberVal`. -/
theorem member_runs (G : GCtx) (A : Act) (hA : A.OK G) (sp : Span) (ip : Nat) (stk : List SVal) (mem : Mem)
    (st : St) (bv : Val) (name : String) (ob : Option Org) (hx : A.c[ip]? = some (.member name, sp)) :
    match memberVal bv name .dot sp st with
    | (.ok v, _) => Runs G.fr G.code G.lim G.s A.fn A.rest A.mp ip (⟨bv, ob⟩ :: stk) mem st.world
        (ip + 1) (⟨v, memOrg st.heap bv name⟩ :: stk) mem st.world
    | (.error (.unsupported _), _) => True
    | _ => False := by
  have hvm : ∀ it, (memberVal bv name .dot sp { (withIt G.s it).st with heap := st.world.heap, out := st.world.out }).1 =
      (memberVal bv name .dot sp st).1 := fun it => memberVal_dot_heap bv name sp st _ rfl
  rcases hr : memberVal bv name .dot sp st with ⟨r, st'⟩
  rw [hr] at hvm
  simp only at hvm
  cases r with
  | ok v =>
    refine Runs.of_exec1 (fr := G.fr) (mem := mem) (fun it_ k => ?_)
    rw [mkS_member G.code G.lim (withIt G.s it_) A.fn ip A.rest A.mp k stk mem.cells st.world A.c hA.code sp name bv ob hx,
      hvm it_]
    rfl
  | error c =>
    obtain ⟨w, rfl⟩ := memberVal_dot_error bv name sp st c st' hr
    trivial


/-- In the extended fragment the origin of a result is unconstrained. -/
theorem SimGE.of_simOE {G A ip n stk mem st r} (hfr : G.fr = true) (h : SimOE G A ip n stk mem st r) :
    SimGE G A ip n stk mem st r := by
  obtain ⟨r1, st1⟩ := r
  cases r1 with
  | error c => exact h
  | ok v =>
    obtain ⟨hfr1, mem1, o, hrun, hml⟩ := h
    have ho : OrgOK G.fr o := fun h0 => by rw [hfr] at h0; cases h0
    exact ⟨hfr1, mem1, o, ho, hrun, hml⟩

/-- **`l[i]`**, given the simulations of `l` and of `i`. -/
theorem index_step (G : GCtx) (A : Act) (hA : A.OK G) (n : Nat) (sp : Span) (ty : Ty) (b i : Expr)
    (st : St) (ip : Nat) (stk : List SVal) (mem : Mem) (lm : LM) (scopes : CScopes) (vm : List (String × Nat))
    (hpl : Placed A.lab A.σ A.c ip (cgE G.mod (ρS scopes) A.φ (.index sp ty b i) lm).1)
    (hrel : StRel G.mod A.T A.N A.σ G.lim A.mp scopes vm st.scopes mem) (hsp : SpecOK G A.mp st)
    (hb : SimOE G A ip (nI (cgE G.mod (ρS scopes) A.φ b lm).1) stk mem st (evalExpr G.cfg n b st))
    (hi : ∀ (st1 : St) (mem1 : Mem) (bv : Val) (ob : Option Org),
      StRel G.mod A.T A.N A.σ G.lim A.mp scopes vm st1.scopes mem1 → SpecOK G A.mp st1 →
      SimOE G A (ip + nI (cgE G.mod (ρS scopes) A.φ b lm).1)
        (nI (cgE G.mod (ρS scopes) A.φ i (cgE G.mod (ρS scopes) A.φ b lm).2).1) (⟨bv, ob⟩ :: stk) mem1 st1
        (evalExpr G.cfg n i st1)) :
    SimOE G A ip (nI (cgE G.mod (ρS scopes) A.φ (.index sp ty b i) lm).1) stk mem st
      (evalExpr G.cfg (n + 1) (.index sp ty b i) st) := by
  simp only [cgE] at hpl ⊢
  generalize hCB : cgE G.mod (ρS scopes) A.φ b lm = CB at hpl hb hi ⊢
  generalize hCI : cgE G.mod (ρS scopes) A.φ i CB.2 = CI at hpl hi ⊢
  obtain ⟨h12, hX⟩ := hpl.append
  obtain ⟨iidx, _⟩ := hX.instr (i := .index) rfl
  have hnX : nI [((Instr.index : SInstr), sp)] = 1 := rfl
  simp only [nI_append, hnX] at iidx ⊢
  rw [evalExpr_index]
  rcases heb : evalExpr G.cfg n b st with ⟨r1, st1⟩
  rw [heb] at hb
  cases r1 with
  | error c1 => exact SimGE.error_n _ hb
  | ok bv =>
    obtain ⟨hfr1, mem1, ob, hrun1, hml1⟩ := hb
    simp only []
    have hsp1 := hsp.world st1 hfr1 hrun1.inv
    have hrel1 : StRel G.mod A.T A.N A.σ G.lim A.mp scopes vm st1.scopes mem1 := by
      rw [hfr1]; exact hrel.memLe hml1.cells
    have h2 := hi st1 mem1 bv ob hrel1 hsp1
    rcases hei : evalExpr G.cfg n i st1 with ⟨r2, st2⟩
    rw [hei] at h2
    cases r2 with
    | error c2 => exact SimOE.error_after _ [⟨bv, ob⟩] hrun1 hfr1 hml1 h2
    | ok iv =>
      obtain ⟨hfr2, mem2, oi, hrun2, hml2⟩ := h2
      simp only []
      have hrun12 := (hrun1.trans hrun2).cast (Nat.add_assoc ip _ _)
      have hidx := index_runs G A hA sp (ip + (nI CB.1 + nI CI.1)) stk mem2 st2 bv iv ob oi iidx
      have hst := (indexVal_shape bv iv sp st2).1
      rcases hr : indexVal bv iv sp st2 with ⟨r3, st3⟩
      rw [hr] at hidx hst
      simp only at hst
      subst hst
      have hfr : st3 = { st with out := st3.out, heap := st3.heap } := by rw [hfr2, hfr1]
      cases r3 with
      | ok v =>
        exact ⟨hfr, mem2, _, (hrun12.trans hidx).cast (by omega), hml1.trans hml2⟩
      | error c3 =>
        cases c3 <;> first | trivial | exact hidx.elim | skip
        intro _
        exact hrun12.fatal hidx

/-- **`o.f`**, given the simulation of `o`. -/
theorem member_step (G : GCtx) (A : Act) (hA : A.OK G) (n : Nat) (sp : Span) (ty : Ty) (b : Expr) (name : String)
    (st : St) (ip : Nat) (stk : List SVal) (mem : Mem) (lm : LM) (scopes : CScopes)
    (hpl : Placed A.lab A.σ A.c ip (cgE G.mod (ρS scopes) A.φ (.member sp ty b name .dot) lm).1)
    (hb : SimOE G A ip (nI (cgE G.mod (ρS scopes) A.φ b lm).1) stk mem st (evalExpr G.cfg n b st)) :
    SimOE G A ip (nI (cgE G.mod (ρS scopes) A.φ (.member sp ty b name .dot) lm).1) stk mem st
      (evalExpr G.cfg (n + 1) (.member sp ty b name .dot) st) := by
  simp only [cgE] at hpl ⊢
  generalize hCB : cgE G.mod (ρS scopes) A.φ b lm = CB at hpl hb ⊢
  obtain ⟨hpB, hX⟩ := hpl.append
  obtain ⟨imem, _⟩ := hX.instr (i := .member name) rfl
  have hnX : nI [((Instr.member name : SInstr), sp)] = 1 := rfl
  simp only [nI_append, hnX] at ⊢
  rw [evalExpr_member]
  rcases heb : evalExpr G.cfg n b st with ⟨r1, st1⟩
  rw [heb] at hb
  cases r1 with
  | error c1 => exact SimGE.error_n _ hb
  | ok bv =>
    obtain ⟨hfr1, mem1, ob, hrun1, hml1⟩ := hb
    simp only []
    have hmr := member_runs G A hA sp (ip + nI CB.1) stk mem1 st1 bv name ob imem
    have hst := memberVal_dot_state bv name sp st1
    rcases hr : memberVal bv name .dot sp st1 with ⟨r3, st3⟩
    rw [hr] at hmr hst
    simp only at hst
    subst hst
    cases r3 with
    | ok v => exact ⟨hfr1, mem1, _, (hrun1.trans hmr).cast (by omega), hml1⟩
    | error c3 => cases c3 <;> first | trivial | exact hmr.elim

theorem evalExpr_call_eq (cfg f sp ty base args st) :
    evalExpr cfg (f + 2) (.call sp ty base args false) st =
      match evalExpr cfg f base st with
      | (.ok fv, st1) =>
        (match evalList cfg f (args.map (·.2)) st1 with
          | (.ok vals, st2) => applyFn cfg f sp fv vals st2
          | (.error c, st2) => (.error c, st2))
      | (.error c, st1) => (.error c, st1) := by
  rw [evalExpr]
  simp only [Bool.false_eq_true, if_false]
  rw [evalCall, M_bind]
  rcases evalExpr cfg f base st with ⟨r1, st1⟩
  cases r1 with
  | error c => rfl
  | ok fv =>
    simp only []
    rw [M_bind]
    generalize evalList cfg f (List.map (fun x => x.snd) args) st1 = rr
    obtain ⟨r2, st2⟩ := rr
    cases r2 <;> rfl

theorem applyFn_bound (cfg f sp recv name vals st) :
    applyFn cfg (f + 1) sp (.bound recv name) vals st = callMember recv name vals sp st := by
  rw [applyFn]

/-- Under the heap invariant `l.len`, `l.push`, `o.is_some`, … is the bound method. -/
theorem memberVal_method (b : Val) (name : String) (sp : Span) (st : St) (hinv : HeapInv st.heap)
    (hn : name ∈ methNames) :
    memberVal b name .dot sp st = (.ok (.bound b name), st) ∨
      ∃ w, memberVal b name .dot sp st = (.error (.unsupported w), st) := by
  rw [memberVal_dot]
  cases b <;> try (left; rfl)
  case ref a =>
    simp only []
    cases hc : st.heap[a]? with
    | none => right; exact ⟨_, rfl⟩
    | some c =>
      cases c <;> try (left; rfl)
      rename_i fs
      left
      simp only [hinv a fs hc name hn]
  case range x y i =>
    left
    simp only [methNames, List.mem_cons, List.mem_nil_iff, or_false] at hn
    rcases hn with rfl | rfl | rfl | rfl | rfl | rfl <;> rfl

/-- **A builtin method without arguments** (`l.len()`, `o.is_some()`, …: a method that only reads the heap,
never yields `null` and fails only as unsupported), given the simulation of the receiver. -/
theorem meth0_step (G : GCtx) (A : Act) (hA : A.OK G) (hfr : G.fr = true) (n : Nat) (nm : String)
    (hnm : nm ∈ methNames)
    (csp : Span) (cty : Ty) (msp : Span) (mty : Ty) (b : Expr)
    (hHO : ∀ recv, HeapOnly (callMember recv nm [] csp))
    (hnn : ∀ recv st v st', callMember recv nm [] csp st = (.ok v, st') → v ≠ .null)
    (herr : ∀ recv st c st', callMember recv nm [] csp st = (.error c, st') → ∃ w, c = .unsupported w)
    (st : St) (ip : Nat) (stk : List SVal) (mem : Mem) (lm : LM) (scopes : CScopes)
    (hpl : Placed A.lab A.σ A.c ip (cgE G.mod (ρS scopes) A.φ (.call csp cty (.member msp mty b nm .dot) [] false) lm).1)
    (hsp : SpecOK G A.mp st)
    (hb : ∀ g, g + 3 = n → SimOE G A ip (nI (cgE G.mod (ρS scopes) A.φ b lm).1) stk mem st (evalExpr G.cfg g b st)) :
    SimOE G A ip (nI (cgE G.mod (ρS scopes) A.φ (.call csp cty (.member msp mty b nm .dot) [] false) lm).1) stk mem st
      (evalExpr G.cfg n (.call csp cty (.member msp mty b nm .dot) [] false) st) := by
  match n, hb with
  | 0, _ => rw [evalExpr]; trivial
  | 1, _ => rw [evalExpr]; simp only [Bool.false_eq_true, if_false]; rw [evalCall]; trivial
  | 2, _ => rw [evalExpr_call_eq, evalExpr]; trivial
  | g + 3, hb =>
  have hb := hb g rfl
  simp only [cgE] at hpl ⊢
  generalize hCB : cgE G.mod (ρS scopes) A.φ b lm = CB at hpl hb ⊢
  obtain ⟨hpB, hplX⟩ := hpl.append
  obtain ⟨imem, hX1⟩ := hplX.instr (i := .member nm) rfl
  obtain ⟨ipush, hX2⟩ := hX1.instr (i := .copyPush (.int 0)) rfl
  obtain ⟨icall, _⟩ := hX2.instr (i := .callVal) rfl
  have hnX : nI [((Instr.member nm : SInstr), msp), (.copyPush (.int 0), csp), (.callVal, csp)] = 3 := rfl
  simp only [nI_append, hnX] at ⊢
  rw [evalExpr_call_eq, evalExpr_member]
  rcases heb : evalExpr G.cfg g b st with ⟨r1, st1⟩
  rw [heb] at hb
  cases r1 with
  | error c1 => exact SimGE.error_n _ hb
  | ok bv =>
  obtain ⟨hfr1, mem1, ob, hrun1, hml1⟩ := hb
  simp only []
  have hsp1 := hsp.world st1 hfr1 hrun1.inv
  have hinv := hsp1.heap hfr
  have hmr := member_runs G A hA msp (ip + nI CB.1) stk mem1 st1 bv nm ob imem
  rcases memberVal_method bv nm msp st1 hinv hnm with hm | ⟨w, hm⟩
  · rw [hm] at hmr ⊢
    simp only [] at hmr ⊢
    rw [List.map_nil, evalList_nil]
    simp only []
    show SimOE G A ip _ stk mem st (applyFn G.cfg (g + 1) csp (.bound bv nm) [] st1)
    rw [applyFn_bound]
    have hpush := Runs.of_runsTo (fr := G.fr) (mem := mem1) (fun it_ => RunsTo.of_exec1 (fun k =>
      reach_push G.code G.lim (baseOf (withIt G.s it_) A.fn A.rest A.mp st1.world) (ip + nI CB.1 + 1) k
        (⟨.bound bv nm, memOrg st1.heap bv nm⟩ :: stk) mem1 ⟨A.fn, 0⟩ A.rest A.c rfl hA.code (.int 0) csp
        (.int (I64.ofInt 0)) ipush (fun _ => rfl)))
    have hst := (hHO bv).state st1
    rcases hr : callMember bv nm [] csp st1 with ⟨r, st2⟩
    rw [hr] at hst
    simp only at hst
    subst hst
    cases r with
    | error c =>
      obtain ⟨w, rfl⟩ := herr bv st2 c st2 hr
      trivial
    | ok nv =>
      have hne := hnn bv st2 nv st2 hr
      have hcall : Runs G.fr G.code G.lim G.s A.fn A.rest A.mp (ip + nI CB.1 + 1 + 1)
          (⟨.int (I64.ofInt 0), none⟩ :: ⟨.bound bv nm, memOrg st2.heap bv nm⟩ :: stk) mem1 st2.world
          (ip + nI CB.1 + 1 + 1 + 1) (⟨nv, none⟩ :: stk) mem1 st2.world := by
        refine Runs.of_exec1 (fr := G.fr) (mem := mem1) (fun it_ k => ?_)
        refine mkS_callVal_meth0 G.code G.lim (withIt G.s it_) A.fn _ A.rest A.mp k stk mem1.cells st2.world A.c hA.code csp nm bv
          none _ nv icall ?_ hne
        have h2 := hHO bv st2 { (withIt G.s it_).st with heap := st2.world.heap, out := st2.world.out } rfl
        rw [h2, hr]
      exact ⟨hfr1, mem1, none, (((hrun1.trans hmr).trans hpush).trans hcall).cast (by omega), hml1⟩
  · rw [hm]; trivial

/-! ## The methods without arguments of the fragment: `len`, `is_some`, `is_none` -/

theorem callMember_ref0 (nm : String) (hnm : nm = "is_some" ∨ nm = "is_none") (a : Nat) (sp : Span) (s : St) :
    callMember (.ref a) nm [] sp s =
      match s.heap[a]? with
      | some _ => (.error (.unsupported s!"member {nm}"), s)
      | none => (.error (.unsupported "dangling reference"), s) := by
  rcases hnm with rfl | rfl
  all_goals
    show (readCell a >>= fun c => _) s = _
    rw [M_bind, readCell_run]
    cases s.heap[a]? with
    | none => rfl
    | some c => cases c <;> rfl

/-- `is_some` / `is_none`: a boolean on an option, unsupported on anything else; the state is not touched. -/
theorem callMember_opt0 (nm : String) (hnm : nm = "is_some" ∨ nm = "is_none") (recv : Val) (sp : Span) (st : St) :
    (∃ o, recv = .opt o ∧ callMember recv nm [] sp st = (.ok (.bool (if nm = "is_some" then o.isSome else o.isNone)), st)) ∨
      (∃ w, ∀ st' : St, st'.heap = st.heap → callMember recv nm [] sp st' = (.error (.unsupported w), st')) := by
  cases recv
  case opt o =>
    left
    rcases hnm with rfl | rfl
    · exact ⟨o, rfl, rfl⟩
    · exact ⟨o, rfl, rfl⟩
  case ref a =>
    right
    cases hc : st.heap[a]? with
    | none => exact ⟨_, fun st' h => by rw [callMember_ref0 nm hnm, h, hc]⟩
    | some c => exact ⟨_, fun st' h => by rw [callMember_ref0 nm hnm, h, hc]⟩
  all_goals
    right
    rcases hnm with rfl | rfl <;> exact ⟨_, fun _ _ => rfl⟩

theorem callMember_opt0_heapOnly (nm : String) (hnm : nm = "is_some" ∨ nm = "is_none") (recv : Val) (sp : Span) :
    HeapOnly (callMember recv nm [] sp) := by
  intro st st' hh
  rcases callMember_opt0 nm hnm recv sp st with ⟨o, rfl, h⟩ | ⟨w, h⟩
  · rcases hnm with rfl | rfl <;> rfl
  · rw [h st' hh, h st rfl]

theorem callMember_len_heapOnly (recv : Val) (sp : Span) : HeapOnly (callMember recv "len" [] sp) := by
  intro st st' hh
  rw [callMember_len, callMember_len, hh]
  cases recv <;> try rfl
  rename_i a
  simp only []
  cases st.heap[a]? with
  | none => rfl
  | some c => cases c <;> rfl

/-- The three facts `meth0_step` asks of a method, for the methods of `meth0`. -/
theorem callMember_meth0 (nm : String) (hnm : nm ∈ meth0) (sp : Span) :
    (∀ recv, HeapOnly (callMember recv nm [] sp)) ∧
    (∀ recv st v st', callMember recv nm [] sp st = (.ok v, st') → v ≠ .null) ∧
    (∀ recv st c st', callMember recv nm [] sp st = (.error c, st') → ∃ w, c = .unsupported w) := by
  simp only [meth0, List.mem_cons, List.mem_nil_iff, or_false] at hnm
  rcases hnm with rfl | hnm
  · refine ⟨fun recv => callMember_len_heapOnly recv sp, ?_, ?_⟩
    · intro recv st v st' h
      rw [callMember_len] at h
      cases recv <;> simp only [] at h <;> try (cases h; done)
      · cases h; intro h'; cases h'
      · rename_i a
        cases hc : st.heap[a]? with
        | none => rw [hc] at h; cases h
        | some c =>
          rw [hc] at h
          cases c <;> first | (cases h; intro h'; cases h') | cases h
    · intro recv st c st' h
      rw [callMember_len] at h
      cases recv <;> simp only [] at h <;> try (first | (cases h; done) | (cases h; exact ⟨_, rfl⟩))
      rename_i a
      cases hc : st.heap[a]? with
      | none => rw [hc] at h; cases h; exact ⟨_, rfl⟩
      | some cl =>
        rw [hc] at h
        cases cl <;> first | (cases h; exact ⟨_, rfl⟩) | cases h
  · refine ⟨fun recv => callMember_opt0_heapOnly nm hnm recv sp, ?_, ?_⟩
    · intro recv st v st' h
      rcases callMember_opt0 nm hnm recv sp st with ⟨o, _, h'⟩ | ⟨w, h'⟩
      · rw [h'] at h; cases h; intro hx; cases hx
      · rw [h' st rfl] at h; cases h
    · intro recv st c st' h
      rcases callMember_opt0 nm hnm recv sp st with ⟨o, _, h'⟩ | ⟨w, h'⟩
      · rw [h'] at h; cases h
      · rw [h' st rfl] at h; cases h; exact ⟨_, rfl⟩

theorem meth0_sub : ∀ nm ∈ meth0, nm ∈ methNames := by decide

end HmsProofs.Sim
