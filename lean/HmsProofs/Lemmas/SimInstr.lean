import Hms.Core.VM
/-!
# Instruction-level vocabulary shared by the C01 simulation lemmas

`Instr.mapLV` changes the label and the variable representation of an instruction (labels →
instruction indices, mangled names → slots); `Instr.isLabel`, `Instr.target?`, `Instr.var?`
name the three places where `relocate` / `renameVars` look at an instruction.
-/
namespace HmsProofs.Sim
open Hms.Core Hms.Core.Comp

/-- Change the representation of labels (`f`) and of variables (`g`); everything else is kept. -/
def mapLV {L V L' V' : Type} (f : L → L') (g : V → V') : Instr L V → Instr L' V'
  | .nop => .nop | .copyPush v => .copyPush v | .cloningPush v => .cloningPush v
  | .clone => .clone | .drop => .drop | .dup => .dup
  | .spawn fn => .spawn fn | .callVal => .callVal | .callImm fn => .callImm fn
  | .ret => .ret | .loadSingleton a b => .loadSingleton a b | .hostCall n => .hostCall n
  | .jump l => .jump (f l) | .jumpIfFalse l => .jumpIfFalse (f l)
  | .getVar v => .getVar (g v) | .getGlob n => .getGlob n | .setVar v => .setVar (g v)
  | .setGlob n => .setGlob n | .assign => .assign | .cast t a => .cast t a
  | .neg => .neg | .some => .some | .not => .not
  | .add => .add | .sub => .sub | .mul => .mul | .pow => .pow | .div => .div | .rem => .rem
  | .eq => .eq | .eqPopOnce => .eqPopOnce | .lt => .lt | .gt => .gt | .le => .le | .ge => .ge
  | .shl => .shl | .shr => .shr | .bitOr => .bitOr | .bitAnd => .bitAnd | .bitXor => .bitXor
  | .index => .index | .setTry fn l => .setTry fn (f l) | .popTry => .popTry | .throw => .throw
  | .member n => .member n | .memberAnyobj n => .memberAnyobj n | .unwrap => .unwrap
  | .importI a b => .importI a b | .label l => .label (f l) | .intoRange b => .intoRange b
  | .addMp n => .addMp n | .iterAdvance => .iterAdvance | .intoIter => .intoIter

def isLabel {L V : Type} : Instr L V → Bool
  | .label _ => true
  | _ => false

/-- The label an instruction refers to (`jump`, `jumpIfFalse`, `setTry`); a `label`
pseudo-instruction defines a label, it does not refer to one. -/
def target? {L V : Type} : Instr L V → Option L
  | .jump l | .jumpIfFalse l | .setTry _ l => some l
  | _ => none

/-- The variable an instruction reads or writes (`getVar` / `setVar`). -/
def var? {L V : Type} : Instr L V → Option V
  | .getVar v | .setVar v => some v
  | _ => none

theorem mapLV_mapLV {L V L' V' L'' V'' : Type} (f : L → L') (g : V → V') (f' : L' → L'') (g' : V' → V'')
    (i : Instr L V) : mapLV f' g' (mapLV f g i) = mapLV (f' ∘ f) (g' ∘ g) i := by
  cases i <;> rfl

theorem mapLV_id {L V : Type} (i : Instr L V) : mapLV id id i = i := by
  cases i <;> rfl

theorem isLabel_mapLV {L V L' V' : Type} (f : L → L') (g : V → V') (i : Instr L V) :
    isLabel (mapLV f g i) = isLabel i := by
  cases i <;> rfl

theorem target?_mapLV {L V L' V' : Type} (f : L → L') (g : V → V') (i : Instr L V) :
    target? (mapLV f g i) = (target? i).map f := by
  cases i <;> rfl

theorem var?_mapLV {L V L' V' : Type} (f : L → L') (g : V → V') (i : Instr L V) :
    var? (mapLV f g i) = (var? i).map g := by
  cases i <;> rfl

/-- `mapLV` only looks at the label an instruction refers to or defines, and at its variable. -/
theorem mapLV_congr {L V L' V' : Type} (f f' : L → L') (g g' : V → V') (i : Instr L V)
    (hl : ∀ l, target? i = some l → f l = f' l)
    (hlab : ∀ l, i = .label l → f l = f' l)
    (hv : ∀ v, var? i = some v → g v = g' v) : mapLV f g i = mapLV f' g' i := by
  cases i <;> simp_all [mapLV, target?, var?]

end HmsProofs.Sim
