import HmsProofs.Lemmas.SimStmt
import HmsProofs.Lemmas.SimNames
import HmsProofs.Lemmas.SimPureExec
/-!
# The relation between specification scopes, compiler scopes and VM memory

`ScopesRel`: level by level, every tracked identifier is bound on both sides or on neither, and
when bound its mangled name's slot holds the specification's value. `StRel` adds what `let`
needs: the live mangled names are pairwise distinct, belong to the name set `N` on which the slot
assignment is injective, and are `mangleName`s with counters below the current ones.
-/
namespace HmsProofs.Sim
open Hms.Core Hms.Core.Comp Hms.Core.VM

/-! ## Mangled variable names -/

theorem mangleName_toList (mod x : String) (c : Nat) :
    (mangleName mod x c).toList = ("@".toList ++ mod.toList ++ "_".toList ++ x.toList) ++ Nat.toDigits 10 c := by
  show ("@" ++ mod ++ "_" ++ x ++ toString c).toList = _
  simp only [String.toList_append, Nat.toString_eq_repr, Nat.toList_repr]

/-- The identifier does not end in a decimal digit. (Identifiers that do are the cause of the
name collisions of finding V26.) -/
def NoTrailingDigit (x : String) : Prop := ∀ ch, x.toList.getLast? = some ch → ch.isDigit = false

instance (x : String) : Decidable (NoTrailingDigit x) := by
  unfold NoTrailingDigit
  cases h : x.toList.getLast? with
  | none => exact isTrue (by intro ch hc; cases hc)
  | some c =>
    cases hd : c.isDigit with
    | true => exact isFalse (by intro hf; have := hf c rfl; rw [hd] at this; cases this)
    | false => exact isTrue (by intro ch hc; cases hc; exact hd)

/-- Digit strings in front of something that does not start with a digit are determined. -/
theorem split_digits_head : ∀ (ds es xs ys : List Char),
    (∀ c ∈ ds, c.isDigit = true) → (∀ c ∈ es, c.isDigit = true) →
    (∀ c, xs.head? = some c → c.isDigit = false) → (∀ c, ys.head? = some c → c.isDigit = false) →
    ds ++ xs = es ++ ys → ds = es ∧ xs = ys := by
  intro ds
  induction ds with
  | nil =>
    intro es xs ys _ he hx _ h
    cases es with
    | nil => exact ⟨rfl, by simpa using h⟩
    | cons e es =>
      simp only [List.nil_append, List.cons_append] at h
      have h1 := hx e (by rw [h]; rfl)
      have h2 := he e (by simp)
      rw [h1] at h2; cases h2
  | cons d ds ih =>
    intro es xs ys hd he hx hy h
    cases es with
    | nil =>
      simp only [List.nil_append, List.cons_append] at h
      have h1 := hy d (by rw [← h]; rfl)
      have h2 := hd d (by simp)
      rw [h1] at h2; cases h2
    | cons e es =>
      simp only [List.cons_append, List.cons.injEq] at h
      obtain ⟨rfl, h⟩ := h
      obtain ⟨rfl, h'⟩ := ih es xs ys (fun c hc => hd c (by simp [hc])) (fun c hc => he c (by simp [hc])) hx hy h
      exact ⟨rfl, h'⟩

theorem prefix_noTrailingDigit (mod x : String) (hx : NoTrailingDigit x) :
    ∀ c, ("@".toList ++ mod.toList ++ "_".toList ++ x.toList).reverse.head? = some c → c.isDigit = false := by
  intro c hc
  rw [List.head?_reverse, List.getLast?_append] at hc
  cases hl : x.toList.getLast? with
  | some ch =>
    rw [hl] at hc
    simp only [Option.some_or] at hc
    have := Option.some.inj hc
    subst this
    exact hx ch hl
  | none =>
    rw [hl] at hc
    simp only [Option.none_or] at hc
    rw [List.getLast?_append] at hc
    have : "_".toList.getLast? = some '_' := by decide
    rw [this] at hc
    simp only [Option.some_or] at hc
    have := Option.some.inj hc
    subst this
    decide

/-- **Mangled variable names are injective** for identifiers without a trailing digit. -/
theorem mangleName_inj (mod x y : String) (c d : Nat) (hx : NoTrailingDigit x) (hy : NoTrailingDigit y)
    (h : mangleName mod x c = mangleName mod y d) : x = y ∧ c = d := by
  have := congrArg (fun s => s.toList.reverse) h
  simp only [mangleName_toList, List.reverse_append] at this
  obtain ⟨e1, e2⟩ := split_digits_head _ _ _ _
    (fun ch hch => Nat.isDigit_of_mem_toDigits (by decide) (by decide) (List.mem_reverse.mp hch))
    (fun ch hch => Nat.isDigit_of_mem_toDigits (by decide) (by decide) (List.mem_reverse.mp hch))
    (by simpa [List.reverse_append] using prefix_noTrailingDigit mod x hx)
    (by simpa [List.reverse_append] using prefix_noTrailingDigit mod y hy) this
  have e2' := List.reverse_inj.mp (List.append_cancel_right e2)
  exact ⟨String.toList_inj.mp e2', toDigits_inj _ _ (List.reverse_inj.mp e1)⟩

/-- Without the hypothesis the scheme is *not* injective (finding V26): `x1` declared first and
the eleventh `x` get the same mangled name, hence the same slot. -/
example : mangleName "main" "x1" 0 = mangleName "main" "x" 10 := by decide

end HmsProofs.Sim
