import HmsProofs.Lemmas.SimStmt
import HmsProofs.Lemmas.SimNames
import HmsProofs.Lemmas.SimFresh
import HmsProofs.Lemmas.SimPureExec
/-!
# The relation between specification scopes, compiler scopes and VM memory

`ScopesRel`: level by level, every tracked identifier is bound on both sides or on neither, and
when bound its mangled name's slot holds the specification's value. `StRel` adds what `let`
needs: the live mangled names are pairwise distinct, belong to the name set `N` on which the slot
assignment is injective, and are `mangleName`s with counters below the current ones.
-/
namespace HmsProofs.Sim
open Hms.Core Hms.Core.Comp Hms.Core.VM

/-! ## Mangled variable names -/

theorem mangleName_toList (mod x : String) (c : Nat) :
    (mangleName mod x c).toList =
      "@".toList ++ (mod.toList ++ (".".toList ++ (x.toList ++ (".".toList ++ Nat.toDigits 10 c)))) := by
  show ("@" ++ mod ++ "." ++ x ++ "." ++ toString c).toList = _
  simp only [String.toList_append, Nat.toString_eq_repr, Nat.toList_repr, List.append_assoc]

/-- **Mangled variable names are injective** in `(identifier, count)` — for all identifiers: the
count is what follows the last `.` (it contains none), the identifier what lies between the
fixed prefix `@<module>.` and that dot. (Before the fix of finding V26 the scheme
`@<module>_<ident><count>` identified `x1`,0 with `x`,10.) -/
theorem mangleName_inj (mod x y : String) (c d : Nat)
    (h : mangleName mod x c = mangleName mod y d) : x = y ∧ c = d := by
  have := congrArg String.toList h
  rw [mangleName_toList, mangleName_toList] at this
  have h1 := List.append_cancel_left (List.append_cancel_left (List.append_cancel_left this))
  have hd : ".".toList = ['.'] := rfl
  rw [hd] at h1
  obtain ⟨e1, e2⟩ := split_last_sep (sep := '.') h1 (dot_not_mem_toDigits c) (dot_not_mem_toDigits d)
  exact ⟨String.toList_inj.mp e1, toDigits_inj _ _ e2⟩

/-! ## Scopes and memory -/

abbrev CScopes := List (List (String × String))
abbrev SScopes := List (List (String × Val))

section Rel
variable (T : List String) (σ : String → Nat) (lim : Limits) (mp : Int)

/-- The slot of mangled name `m` is a legal cell holding `v`. -/
def SlotOK (mem : List (Int × Val)) (m : String) (v : Val) : Prop :=
  0 ≤ mp - (σ m : Int) ∧ mp - (σ m : Int) < (lim.memory : Int) ∧ mem.lookup (mp - (σ m : Int)) = some v

/-- One scope level: tracked identifiers are bound on both sides or on neither. -/
def LevelRel (mem : List (Int × Val)) (csc : List (String × String)) (ssc : List (String × Val)) : Prop :=
  ∀ x ∈ T, match csc.lookup x, ssc.lookup x with
    | some m, some v => SlotOK σ lim mp mem m v
    | none, none => True
    | _, _ => False

/-- Level by level, innermost first. The compiler may have *more* (outer) levels than the
specification's activation — the module-level scope around a function — provided they bind no
tracked identifier. -/
def ScopesRel (mem : List (Int × Val)) : CScopes → SScopes → Prop
  | [], [] => True
  | c :: cs, s :: ss => LevelRel T σ lim mp mem c s ∧ ScopesRel mem cs ss
  | c :: cs, [] => (∀ x ∈ T, c.lookup x = none) ∧ ScopesRel mem cs []
  | [], _ :: _ => False

/-- The mangled names bound (to tracked identifiers) in one level / in all levels. -/
def levelNames (sc : List (String × String)) : List String := (sc.filter fun p => T.contains p.1).map (·.2)
def liveNames (cs : CScopes) : List String := cs.flatMap (levelNames T)

theorem lookup_mem {α β} [BEq α] [LawfulBEq α] (l : List (α × β)) (k : α) (v : β) (h : l.lookup k = some v) :
    (k, v) ∈ l := by
  obtain ⟨l1, l2, rfl, _⟩ := List.lookup_eq_some_iff.mp h
  simp

theorem lookup_mem_levelNames (sc : List (String × String)) (x m : String) (hx : x ∈ T)
    (h : sc.lookup x = some m) : m ∈ levelNames T sc := by
  unfold levelNames
  refine List.mem_map.mpr ⟨(x, m), ?_, rfl⟩
  exact List.mem_filter.mpr ⟨lookup_mem _ _ _ h, by simpa using hx⟩

theorem ScopesRel.lookup {mem} : ∀ {cs : CScopes} {ss : SScopes}, ScopesRel T σ lim mp mem cs ss →
    ∀ x ∈ T, match ρS cs x, lookupScopes x ss with
      | some m, some v => SlotOK σ lim mp mem m v ∧ m ∈ liveNames T cs
      | none, none => True
      | _, _ => False := by
  intro cs
  induction cs with
  | nil =>
    intro ss h x _
    cases ss with
    | nil => simp [ρS, lookupScopes]
    | cons _ _ => exact h.elim
  | cons c cs ih =>
    intro ss h x hx
    cases ss with
    | nil =>
      obtain ⟨h1, h2⟩ := h
      have hr := ih h2 x hx
      simp only [ρS, List.findSome?_cons, lookupScopes, h1 x hx] at hr ⊢
      cases h3 : List.findSome? (fun sc => List.lookup x sc) cs with
      | some m => simp only [h3] at hr
      | none => trivial
    | cons s ss =>
      obtain ⟨h1, h2⟩ := h
      have hl := h1 x hx
      have hr := ih h2 x hx
      simp only [ρS, List.findSome?_cons, lookupScopes] at hr ⊢
      cases hc : c.lookup x with
      | some m =>
        cases hs : s.lookup x with
        | some v =>
          simp only [hc, hs] at hl ⊢
          exact ⟨hl, by simp only [liveNames, List.flatMap_cons, List.mem_append]
                        exact Or.inl (lookup_mem_levelNames T c x m hx hc)⟩
        | none => simp only [hc, hs] at hl
      | none =>
        cases hs : s.lookup x with
        | some v => simp only [hc, hs] at hl
        | none =>
          simp only []
          cases h3 : List.findSome? (fun sc => List.lookup x sc) cs with
          | some m =>
            cases h4 : lookupScopes x ss with
            | some v =>
              simp only [h3, h4] at hr ⊢
              exact ⟨hr.1, by simp only [liveNames, List.flatMap_cons, List.mem_append]; exact Or.inr hr.2⟩
            | none => simp only [h3, h4] at hr
          | none =>
            cases h4 : lookupScopes x ss with
            | some v => simp only [h3, h4] at hr
            | none => trivial

/-- For pure expressions: the environment relation of `exec_pure`. -/
theorem ScopesRel.envRel {mem} {cs : CScopes} {ss : SScopes} (h : ScopesRel T σ lim mp mem cs ss)
    (xs : List String) (hT : ∀ x ∈ xs, x ∈ T) (hres : Frag.resolved cs xs = true) :
    EnvRel (ρS cs) σ lim xs ss mp mem := by
  intro x hx
  have hl := h.lookup T σ lim mp x (hT x hx)
  simp only [Frag.resolved, List.all_eq_true] at hres
  have hsome := hres x hx
  cases hc : ρS cs x with
  | none => simp [hc] at hsome
  | some m =>
    cases hs : lookupScopes x ss with
    | none => simp only [hc, hs] at hl
    | some v =>
      simp only [hc, hs] at hl
      exact ⟨m, v, rfl, rfl, hl.1.1, hl.1.2.1, hl.1.2.2⟩

theorem ScopesRel.push {mem} {cs : CScopes} {ss : SScopes} (h : ScopesRel T σ lim mp mem cs ss) :
    ScopesRel T σ lim mp mem ([] :: cs) ([] :: ss) :=
  ⟨fun _ _ => trivial, h⟩

theorem ScopesRel.tail {mem} {cs : CScopes} {ss : SScopes} (h : ScopesRel T σ lim mp mem cs ss) :
    ScopesRel T σ lim mp mem cs.tail ss.tail := by
  cases cs with
  | nil => cases ss with
    | nil => trivial
    | cons _ _ => exact h.elim
  | cons c cs => cases ss with
    | nil => exact h.2
    | cons s ss => exact h.2

theorem LevelRel.mem_congr {mem mem'} {c : List (String × String)} {s : List (String × Val)}
    (hm : ∀ m ∈ levelNames T c, mem'.lookup (mp - (σ m : Int)) = mem.lookup (mp - (σ m : Int)))
    (h : LevelRel T σ lim mp mem c s) : LevelRel T σ lim mp mem' c s := by
  intro x hx
  have := h x hx
  cases hc : c.lookup x with
  | none =>
    cases hs : s.lookup x with
    | none => trivial
    | some v => simp [hc, hs] at this
  | some m =>
    cases hs : s.lookup x with
    | none => simp [hc, hs] at this
    | some v =>
      simp only [hc, hs] at this ⊢
      exact ⟨this.1, this.2.1, by rw [hm m (lookup_mem_levelNames T c x m hx hc)]; exact this.2.2⟩

/-- Memory writes outside the live slots keep the relation. -/
theorem ScopesRel.mem_congr {mem mem'} : ∀ {cs : CScopes} {ss : SScopes},
    (∀ m ∈ liveNames T cs, mem'.lookup (mp - (σ m : Int)) = mem.lookup (mp - (σ m : Int))) →
    ScopesRel T σ lim mp mem cs ss → ScopesRel T σ lim mp mem' cs ss := by
  intro cs
  induction cs with
  | nil => intro ss _ h; cases ss <;> exact h
  | cons c cs ih =>
    intro ss hm h
    simp only [liveNames, List.flatMap_cons, List.mem_append] at hm
    cases ss with
    | nil => exact ⟨h.1, ih (fun m hmm => hm m (Or.inr hmm)) h.2⟩
    | cons s ss =>
      exact ⟨h.1.mem_congr T σ lim mp (fun m hmm => hm m (Or.inl hmm)),
        ih (fun m hmm => hm m (Or.inr hmm)) h.2⟩

end Rel

/-! ## Memory writes -/

/-- `memSet` on the memory component. -/
def memSetL (mem : List (Int × Val)) (a : Int) (v : Val) : List (Int × Val) :=
  (a, v) :: mem.filter (·.1 != a)

theorem lookup_memSet (mem : List (Int × Val)) (a b : Int) (v : Val) :
    (memSetL mem a v).lookup b = if b = a then some v else mem.lookup b := by
  unfold memSetL
  by_cases h : b = a
  · subst h; simp
  · have : (b == a) = false := by simpa using h
    simp only [List.lookup_cons, this, h, if_false]
    induction mem with
    | nil => rfl
    | cons p mem ih =>
      obtain ⟨k, w⟩ := p
      by_cases hk : k = a
      · subst hk
        have : (b == k) = false := by simpa using h
        simp [List.lookup_cons, this, ih]
      · have hk' : (k != a) = true := by simpa using hk
        simp only [List.filter_cons, hk', if_true, List.lookup_cons]
        split <;> simp_all

theorem lookup_filter_ne {β} (l : List (String × β)) (x y : String) (h : y ≠ x) :
    (l.filter (·.1 != x)).lookup y = l.lookup y := by
  induction l with
  | nil => rfl
  | cons p l ih =>
    obtain ⟨k, w⟩ := p
    by_cases hk : k = x
    · subst hk
      have : (y == k) = false := by simpa using h
      simp [List.lookup_cons, this, ih]
    · have hk' : (k != x) = true := by simpa using hk
      simp only [List.filter_cons, hk', if_true, List.lookup_cons, ih]

/-! ## The full invariant -/

/-- Facts about the fixed parameters: the slot assignment is injective on the name set `N`, and
every name of `N` has a legal cell. -/
structure Good (T : List String) (N : String → Prop) (σ : String → Nat) (lim : Limits) (mp : Int) : Prop where
  inj : ∀ a b, N a → N b → σ a = σ b → a = b
  frame : ∀ m, N m → 0 ≤ mp - (σ m : Int) ∧ mp - (σ m : Int) < (lim.memory : Int)

/-- Every tracked binding carries a `mangleName` with a counter below the current one. -/
def Named (mod : String) (T : List String) (vm : List (String × Nat)) (cs : CScopes) : Prop :=
  ∀ sc ∈ cs, ∀ p ∈ sc, p.1 ∈ T → ∃ c, p.2 = mangleName mod p.1 c ∧ c < cnt vm p.1

structure StRel (mod : String) (T : List String) (N : String → Prop) (σ : String → Nat) (lim : Limits)
    (mp : Int) (cs : CScopes) (vm : List (String × Nat)) (ss : SScopes) (mem : List (Int × Val)) : Prop where
  scopes : ScopesRel T σ lim mp mem cs ss
  nodup : (liveNames T cs).Nodup
  inN : ∀ m ∈ liveNames T cs, N m
  named : Named mod T vm cs

theorem mem_liveNames (T : List String) (cs : CScopes) (m : String) :
    m ∈ liveNames T cs ↔ ∃ sc ∈ cs, ∃ p ∈ sc, p.1 ∈ T ∧ p.2 = m := by
  simp only [liveNames, List.mem_flatMap, levelNames, List.mem_map, List.mem_filter, List.contains_iff_mem]
  constructor
  · rintro ⟨sc, hsc, p, ⟨hp, hT⟩, rfl⟩; exact ⟨sc, hsc, p, hp, hT, rfl⟩
  · rintro ⟨sc, hsc, p, hp, hT, rfl⟩; exact ⟨sc, hsc, p, ⟨hp, hT⟩, rfl⟩

/-- The variable counters after `freshVar`. -/
theorem cnt_freshVar (mod : String) (env : CEnv) (x k : String) :
    cnt (freshVar mod env x).2.vm k = if k = x then cnt env.vm x + 1 else cnt env.vm k :=
  cnt_fresh "" env.vm x k

/-- A fresh name differs from every live name. -/
theorem fresh_ne_live {mod T N σ lim mp cs vm} (_hg : Good T N σ lim mp) (hn : Named mod T vm cs)
    (x : String) (_hx : x ∈ T) : ∀ m ∈ liveNames T cs, m ≠ mangleName mod x (cnt vm x) := by
  intro m hm heq
  obtain ⟨sc, hsc, p, hp, hpT, rfl⟩ := (mem_liveNames T cs m).mp hm
  obtain ⟨c, hc, hlt⟩ := hn sc hsc p hp hpT
  rw [hc] at heq
  obtain ⟨e1, e2⟩ := mangleName_inj mod p.1 x c _ heq
  rw [e1] at hlt
  omega

/-- The specification's `declare` on the scope stack. -/
def declScopes (x : String) (v : Val) : SScopes → SScopes
  | s :: rest => ((x, v) :: s) :: rest
  | [] => [[(x, v)]]

theorem levelNames_filter_sublist (T : List String) (c : List (String × String)) (q : String × String → Bool) :
    (levelNames T (c.filter q)).Sublist (levelNames T c) := by
  unfold levelNames
  exact (List.Sublist.filter _ List.filter_sublist).map _

/-- **`let`** keeps the invariant: the new binding gets a fresh name, its cell is written, and no
live cell is touched. -/
theorem StRel.declare {mod T N σ lim mp ss mem} {env : CEnv} (hg : Good T N σ lim mp)
    (h : StRel mod T N σ lim mp env.scopes env.vm ss mem) (x : String) (hx : x ∈ T) (v : Val)
    (hN : N (freshVar mod env x).1) :
    StRel mod T N σ lim mp (freshVar mod env x).2.scopes (freshVar mod env x).2.vm (declScopes x v ss)
      (memSetL mem (mp - (σ (freshVar mod env x).1 : Int)) v) := by
  have hfresh := fresh_ne_live hg h.named x hx
  have hm'def : (freshVar mod env x).1 = mangleName mod x (cnt env.vm x) := rfl
  generalize hm' : (freshVar mod env x).1 = m' at *
  subst hm'def
  -- live cells are untouched
  have hkeep : ∀ m ∈ liveNames T env.scopes,
      (memSetL mem (mp - (σ (mangleName mod x (cnt env.vm x)) : Int)) v).lookup (mp - (σ m : Int)) =
        mem.lookup (mp - (σ m : Int)) := by
    intro m hm
    rw [lookup_memSet]
    have hne : σ m ≠ σ (mangleName mod x (cnt env.vm x)) := fun e =>
      hfresh m hm (hg.inj _ _ (h.inN m hm) hN e)
    rw [if_neg (by omega)]
  have hslot : SlotOK σ lim mp (memSetL mem (mp - (σ (mangleName mod x (cnt env.vm x)) : Int)) v)
      (mangleName mod x (cnt env.vm x)) v :=
    ⟨(hg.frame _ hN).1, (hg.frame _ hN).2, by rw [lookup_memSet]; simp⟩
  have hvm : ∀ k, cnt env.vm k ≤ cnt (freshVar mod env x).2.vm k := by
    intro k; rw [cnt_freshVar]; split <;> (try subst_vars) <;> omega
  have hnamedNew : ∃ c, mangleName mod x (cnt env.vm x) = mangleName mod x c ∧ c < cnt (freshVar mod env x).2.vm x :=
    ⟨cnt env.vm x, rfl, by rw [cnt_freshVar]; simp⟩
  cases hcs : env.scopes with
  | nil =>
    have hsc : (freshVar mod env x).2.scopes = [[(x, mangleName mod x (cnt env.vm x))]] := by
      unfold freshVar; simp only [hcs]; rfl
    rw [hsc]
    cases ss with
    | cons _ _ => have := h.scopes; rw [hcs] at this; exact this.elim
    | nil =>
      refine ⟨⟨?_, trivial⟩, ?_, ?_, ?_⟩
      · intro y hy
        by_cases hyx : y = x
        · subst hyx; simpa [List.lookup_cons] using hslot
        · have : (y == x) = false := by simpa using hyx
          simp [List.lookup_cons, this]
      · simp only [liveNames, List.flatMap_cons, List.flatMap_nil, List.append_nil, levelNames]
        exact (List.nodup_cons.mpr ⟨by simp, List.nodup_nil⟩).sublist
          ((List.filter_sublist).map _)
      · intro m hm
        obtain ⟨sc, hsc', p, hp, hpT, rfl⟩ := (mem_liveNames T _ m).mp hm
        simp only [List.mem_singleton] at hsc'
        subst hsc'
        simp only [List.mem_singleton] at hp
        subst hp
        exact hN
      · intro sc hsc' p hp hpT
        simp only [List.mem_singleton] at hsc'
        subst hsc'
        simp only [List.mem_singleton] at hp
        subst hp
        exact hnamedNew
  | cons c crest =>
    have hsc : (freshVar mod env x).2.scopes =
        ((x, mangleName mod x (cnt env.vm x)) :: c.filter (·.1 != x)) :: crest := by
      unfold freshVar; simp only [hcs]; rfl
    rw [hsc]
    have hscopes := h.scopes
    have hnodup := h.nodup
    have hinN := h.inN
    have hnamed := h.named
    rw [hcs] at hscopes hnodup hinN hnamed hkeep hfresh
    simp only [liveNames, List.flatMap_cons, List.mem_append] at hkeep hfresh hinN
    have hscopes' : ScopesRel T σ lim mp (memSetL mem (mp - (σ (mangleName mod x (cnt env.vm x)) : Int)) v)
        (((x, mangleName mod x (cnt env.vm x)) :: c.filter (·.1 != x)) :: crest) (declScopes x v ss) := by
      cases ss with
      | nil =>
        obtain ⟨hl0, hrest⟩ := hscopes
        refine ⟨?_, ?_⟩
        · intro y hy
          by_cases hyx : y = x
          · subst hyx; simpa [List.lookup_cons] using hslot
          · have hb : (y == x) = false := by simpa using hyx
            simp [List.lookup_cons, hb, lookup_filter_ne _ _ _ hyx, hl0 y hy]
        · exact ScopesRel.mem_congr T σ lim mp (fun m hm => hkeep m (Or.inr hm)) hrest
      | cons s srest =>
        obtain ⟨hl, hrest⟩ := hscopes
        refine ⟨?_, ?_⟩
        · intro y hy
          by_cases hyx : y = x
          · subst hyx; simpa [List.lookup_cons] using hslot
          · have hb : (y == x) = false := by simpa using hyx
            have := (hl.mem_congr T σ lim mp (fun m hm => hkeep m (Or.inl hm))) y hy
            simpa [List.lookup_cons, hb, lookup_filter_ne _ _ _ hyx] using this
        · exact ScopesRel.mem_congr T σ lim mp (fun m hm => hkeep m (Or.inr hm)) hrest
    refine ⟨hscopes', ?_, ?_, ?_⟩
    · simp only [liveNames, List.flatMap_cons] at hnodup ⊢
      have hsub : (levelNames T ((x, mangleName mod x (cnt env.vm x)) :: c.filter (·.1 != x)) ++
          List.flatMap (levelNames T) crest).Sublist
          (mangleName mod x (cnt env.vm x) :: (levelNames T c ++ List.flatMap (levelNames T) crest)) := by
        have h1 : (levelNames T ((x, mangleName mod x (cnt env.vm x)) :: c.filter (·.1 != x))).Sublist
            (mangleName mod x (cnt env.vm x) :: levelNames T c) := by
          unfold levelNames
          have hc : T.contains x = true := by simpa using hx
          simp only [List.filter_cons, hc, if_true, List.map_cons]
          exact ((List.Sublist.filter _ List.filter_sublist).map _).cons_cons _
        exact (h1.append (List.Sublist.refl _))
      refine List.Sublist.nodup hsub (List.nodup_cons.mpr ⟨?_, hnodup⟩)
      intro hmem
      rcases List.mem_append.mp hmem with hm | hm
      · exact hfresh _ (Or.inl hm) rfl
      · exact hfresh _ (Or.inr hm) rfl
    · intro m hm
      simp only [liveNames, List.flatMap_cons, List.mem_append] at hm
      rcases hm with hm | hm
      · unfold levelNames at hm
        have hc : T.contains x = true := by simpa using hx
        simp only [List.filter_cons, hc, if_true, List.map_cons, List.mem_cons] at hm
        rcases hm with rfl | hm
        · exact hN
        · exact hinN m (Or.inl ((levelNames_filter_sublist T c _).mem hm))
      · exact hinN m (Or.inr hm)
    · intro sc hsc' p hp hpT
      simp only [List.mem_cons] at hsc'
      rcases hsc' with rfl | hsc'
      · simp only [List.mem_cons] at hp
        rcases hp with rfl | hp
        · exact hnamedNew
        · obtain ⟨c', e, hlt⟩ := hnamed c (by simp) p (List.mem_filter.mp hp).1 hpT
          exact ⟨c', e, Nat.lt_of_lt_of_le hlt (hvm _)⟩
      · obtain ⟨c', e, hlt⟩ := hnamed sc (by simp [hsc']) p hp hpT
        exact ⟨c', e, Nat.lt_of_lt_of_le hlt (hvm _)⟩

/-! ## Assignment -/

/-- The per-entry update of `assignScopes`. -/
def assignMap (x : String) (v : Val) : String × Val → String × Val :=
  fun (k, old) => if k == x then (k, v) else (k, old)

theorem assignMap_mk (x : String) (v : Val) (k : String) (w : Val) :
    assignMap x v (k, w) = if k == x then (k, v) else (k, w) := rfl

theorem assignScopes_cons_some (x : String) (v : Val) (s : List (String × Val)) (ss : SScopes)
    (h : (s.lookup x).isSome = true) : assignScopes x v (s :: ss) = some (s.map (assignMap x v) :: ss) := by
  unfold assignScopes
  simp only [h, if_true]
  rfl

theorem assignScopes_cons_none (x : String) (v : Val) (s : List (String × Val)) (ss : SScopes)
    (h : s.lookup x = none) : assignScopes x v (s :: ss) = (assignScopes x v ss).map (s :: ·) := by
  rw [assignScopes]
  simp [h]

theorem lookup_assign_self (s : List (String × Val)) (x : String) (v : Val) (h : (s.lookup x).isSome = true) :
    (s.map (assignMap x v)).lookup x = some v := by
  induction s with
  | nil => simp at h
  | cons p s ih =>
    obtain ⟨k, w⟩ := p
    simp only [List.map_cons, assignMap_mk, List.lookup_cons] at h ⊢
    by_cases hk : k = x
    · subst hk; simp
    · have hk' : (k == x) = false := by simpa using hk
      have hk'' : (x == k) = false := beq_eq_false_iff_ne.mpr (Ne.symm hk)
      simp only [hk', hk'', Bool.false_eq_true, if_false, List.lookup_cons] at h ⊢
      exact ih h

theorem lookup_assign_ne (s : List (String × Val)) (x y : String) (v : Val) (h : y ≠ x) :
    (s.map (assignMap x v)).lookup y = s.lookup y := by
  induction s with
  | nil => rfl
  | cons p s ih =>
    obtain ⟨k, w⟩ := p
    simp only [List.map_cons, assignMap_mk]
    by_cases hk : k = x
    · subst hk
      have : (y == k) = false := by simpa using h
      simp only [beq_self_eq_true, if_true, List.lookup_cons, this, ih]
    · have hk' : (k == x) = false := by simpa using hk
      simp only [hk', Bool.false_eq_true, if_false, List.lookup_cons, ih]

theorem assign_scopes {mod T N σ lim mp vm mem} (hg : Good T N σ lim mp) (x : String) (hx : x ∈ T)
    (m : String) (v : Val) : ∀ (cs : CScopes) (ss : SScopes),
    ScopesRel T σ lim mp mem cs ss → Named mod T vm cs → (liveNames T cs).Nodup →
    (∀ m ∈ liveNames T cs, N m) → ρS cs x = some m →
    ∃ ss', assignScopes x v ss = some ss' ∧
      ScopesRel T σ lim mp (memSetL mem (mp - (σ m : Int)) v) cs ss' := by
  intro cs
  induction cs with
  | nil => intro ss _ _ _ _ hρ; simp [ρS] at hρ
  | cons c cs ih =>
    intro ss hrel hnamed hnodup hinN hρ
    cases ss with
    | nil =>
      -- no tracked identifier is bound in the outer levels: `ρS … x = some m` is impossible
      have := ScopesRel.lookup T σ lim mp (cs := c :: cs) (ss := []) hrel x hx
      rw [hρ] at this
      simp [lookupScopes] at this
    | cons s ss =>
      obtain ⟨hl, hrest⟩ := hrel
      simp only [liveNames, List.flatMap_cons] at hnodup hinN
      have hNm : N m := by
        have := (ScopesRel.lookup T σ lim mp (cs := c :: cs) (ss := s :: ss) ⟨hl, hrest⟩ x hx)
        rw [hρ] at this
        cases hls : lookupScopes x (s :: ss) with
        | none => simp [hls] at this
        | some v0 =>
          simp only [hls] at this
          exact hinN m (by simpa [liveNames] using this.2)
      -- a binding of another identifier has another name, hence another cell
      have hother : ∀ (sc : List (String × String)), sc ∈ c :: cs → ∀ y m2, y ∈ T → y ≠ x → (y, m2) ∈ sc →
          ∀ c1, m = mangleName mod x c1 → m2 ≠ m := by
        intro sc hsc y m2 hy hyx hmem c1 hm e
        obtain ⟨c2, e2, _⟩ := hnamed sc hsc (y, m2) hmem hy
        simp only at e2
        rw [e2, hm] at e
        exact hyx (mangleName_inj mod y x c2 c1 e).1
      have hkeepOf : ∀ m2, N m2 → m2 ≠ m →
          (memSetL mem (mp - (σ m : Int)) v).lookup (mp - (σ m2 : Int)) = mem.lookup (mp - (σ m2 : Int)) := by
        intro m2 hN2 hne
        rw [lookup_memSet]
        have : σ m2 ≠ σ m := fun e => hne (hg.inj _ _ hN2 hNm e)
        rw [if_neg (by omega)]
      simp only [ρS, List.findSome?_cons] at hρ
      cases hc : c.lookup x with
      | some m0 =>
        rw [hc] at hρ
        simp only [Option.some.injEq] at hρ
        subst hρ
        have hlx := hl x hx
        cases hs : s.lookup x with
        | none => simp [hc, hs] at hlx
        | some v0 =>
          refine ⟨s.map (assignMap x v) :: ss, assignScopes_cons_some x v s ss (by simp [hs]), ⟨?_, ?_⟩⟩
          · obtain ⟨c1, hc1, _⟩ := hnamed c (by simp) (x, m0) (lookup_mem _ _ _ hc) hx
            simp only at hc1
            intro y hy
            by_cases hyx : y = x
            · subst hyx
              rw [hc, lookup_assign_self s y v (by simp [hs])]
              exact ⟨(hg.frame _ hNm).1, (hg.frame _ hNm).2, by rw [lookup_memSet]; simp⟩
            · rw [lookup_assign_ne s x y v hyx]
              have hly := hl y hy
              cases hcy : c.lookup y with
              | none =>
                cases hsy : s.lookup y with
                | none => trivial
                | some v2 => simp [hcy, hsy] at hly
              | some m2 =>
                cases hsy : s.lookup y with
                | none => simp [hcy, hsy] at hly
                | some v2 =>
                  simp only [hcy, hsy] at hly ⊢
                  have hne := hother c (by simp) y m2 hy hyx (lookup_mem _ _ _ hcy) c1 hc1
                  have hN2 := hinN m2 (List.mem_append.mpr (Or.inl (lookup_mem_levelNames T c y m2 hy hcy)))
                  exact ⟨hly.1, hly.2.1, by rw [hkeepOf m2 hN2 hne]; exact hly.2.2⟩
          · refine ScopesRel.mem_congr T σ lim mp ?_ hrest
            intro m2 hm2
            have hne : m2 ≠ m0 := by
              intro e; subst e
              exact (List.nodup_append.mp hnodup).2.2 _ (lookup_mem_levelNames T c x _ hx hc) _ hm2 rfl
            exact hkeepOf m2 (hinN m2 (List.mem_append.mpr (Or.inr hm2))) hne
      | none =>
        rw [hc] at hρ
        simp only [] at hρ
        have hlx := hl x hx
        cases hs : s.lookup x with
        | some v0 => simp [hc, hs] at hlx
        | none =>
          have hnamed' : Named mod T vm cs := fun sc hsc => hnamed sc (by simp [hsc])
          obtain ⟨ss'', hass, hrel''⟩ := ih ss hrest hnamed' (List.nodup_append.mp hnodup).2.1
            (fun m2 hm2 => hinN m2 (List.mem_append.mpr (Or.inr hm2))) (by simpa [ρS] using hρ)
          refine ⟨s :: ss'', by rw [assignScopes_cons_none x v s ss hs, hass]; rfl, ⟨?_, hrel''⟩⟩
          -- `m` is bound further out: it is some `mangleName mod x c1`
          have hml : m ∈ liveNames T cs := by
            have := (ScopesRel.lookup T σ lim mp hrest x hx)
            have hρ' : ρS cs x = some m := by simpa [ρS] using hρ
            rw [hρ'] at this
            cases hls : lookupScopes x ss with
            | none => simp [hls] at this
            | some v0 => simp only [hls] at this; exact this.2
          obtain ⟨sc, hsc, p, hp, hpT, hpm⟩ := (mem_liveNames T cs m).mp hml
          obtain ⟨c1, hc1, _⟩ := hnamed sc (by simp [hsc]) p hp hpT
          refine hl.mem_congr T σ lim mp ?_
          intro m2 hm2
          have hN2 := hinN m2 (List.mem_append.mpr (Or.inl hm2))
          refine hkeepOf m2 hN2 ?_
          intro e
          subst e
          exact (List.nodup_append.mp hnodup).2.2 _ hm2 _ hml rfl

theorem StRel.assign {mod T N σ lim mp cs vm ss mem} (hg : Good T N σ lim mp)
    (h : StRel mod T N σ lim mp cs vm ss mem) (x : String) (hx : x ∈ T) (m : String) (hρ : ρS cs x = some m)
    (v : Val) :
    ∃ ss', assignScopes x v ss = some ss' ∧
      StRel mod T N σ lim mp cs vm ss' (memSetL mem (mp - (σ m : Int)) v) := by
  obtain ⟨ss', h1, h2⟩ := assign_scopes hg x hx m v cs ss h.scopes h.named h.nodup h.inN hρ
  exact ⟨ss', h1, ⟨h2, h.nodup, h.inN, h.named⟩⟩

end HmsProofs.Sim
