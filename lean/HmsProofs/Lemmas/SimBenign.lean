import HmsProofs.Lemmas.SimExec
/-!
# The operators never produce control effects

`binOp` and the prefix operators end in a value, a fatal error, or `unsupported` — never in
`break`/`continue`/`return`/`throw`.
-/
namespace HmsProofs.Sim
open Hms.Core

/-- Outcomes that are not control transfers of the language. -/
def Benign : Ctl → Prop
  | .fatal .. | .unsupported _ | .timeout => True
  | _ => False

theorem preOp_error {op : PrefixOp} {a : Val} {c : Ctl} (h : preOp op a = .error c) :
    ∃ w, c = .unsupported w := by
  cases op <;> cases a <;> simp [preOp] at h <;> exact ⟨_, h.symm⟩

theorem intOp_benign (op x y sp st c st') (h : intOp op x y sp st = (.error c, st')) : Benign c := by
  cases op <;> simp only [intOp] at h <;>
    repeat' (first | (cases h <;> trivial) | split at h)

theorem floatOp_benign (op x y sp st c st') (h : floatOp op x y sp st = (.error c, st')) : Benign c := by
  cases op <;> simp only [floatOp] at h <;>
    first
    | (cases h; done)
    | (cases h; trivial)
    | (split at h <;> first | (cases h; done) | (cases h; trivial))
    | (cases hp : goPow x y <;> rw [hp] at h <;> first | (cases h; done) | (cases h; trivial))

theorem boolOp_benign (op x y st c st') (h : boolOp op x y st = (.error c, st')) : Benign c := by
  cases op <;> first | (cases h; done) | (cases h; trivial)

theorem binOp_benign {op a b sp st c st'} (h : binOp op a b sp st = (.error c, st')) : Benign c := by
  by_cases h1 : op = .eq
  · subst h1
    rw [binOp_eq_run] at h
    cases hv : valEq st.heap 64 a b <;> rw [hv] at h <;> cases h
    trivial
  by_cases h2 : op = .ne
  · subst h2
    rw [binOp_ne_run] at h
    cases hv : valEq st.heap 64 a b <;> rw [hv] at h <;> cases h
    trivial
  unfold binOp at h
  split at h
  · exact absurd rfl h1
  · exact absurd rfl h2
  · exact intOp_benign _ _ _ _ _ _ _ h
  · exact floatOp_benign _ _ _ _ _ _ _ h
  · exact boolOp_benign _ _ _ _ _ _ h
  · cases h
  · cases h; trivial

end HmsProofs.Sim
