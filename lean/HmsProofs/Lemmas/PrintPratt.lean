import Hms.Print.Expr
import HmsProofs.Lemmas.Pratt
/-!
# Printing and re-parsing expression trees

A successful parse does not depend on the amount of fuel beyond the `2 * length + 1` bound of the
totality theorem (`ok_any_fuel`), so the completeness theorem of C07 — stated for "enough fuel" —
applies to the entry point `parseExpr` (`parseExpr_of_parseE`).
-/
namespace HmsProofs.Lemmas.Print
open Hms Hms.Pratt Hms.Print HmsProofs.Lemmas.Pratt

/-- A result obtained with some fuel `N` is obtained with every fuel above the totality bound. -/
theorem ok_any_fuel (prec : Prec) : ∀ n,
    (∀ N p ts r, parseE prec N p ts = .ok r → 2 * ts.length + 1 ≤ n → parseE prec n p ts = .ok r) ∧
    (∀ N p lhs ts r, loop prec N p lhs ts = .ok r → 2 * ts.length + 1 ≤ n → loop prec n p lhs ts = .ok r) ∧
    (∀ N close ts r, parseArgs prec N close ts = .ok r → 2 * ts.length + 2 ≤ n →
        parseArgs prec n close ts = .ok r) := by
  intro n
  induction n with
  | zero =>
    refine ⟨?_, ?_, ?_⟩ <;> intros <;> omega
  | succ n ih =>
    obtain ⟨ihE, ihL, ihA⟩ := ih
    refine ⟨?_, ?_, ?_⟩
    · intro N p ts r h hn
      cases N with
      | zero => simp [parseE] at h
      | succ N =>
        obtain ⟨k, rest, lhs, rest', rfl, hprim, hloop⟩ := parseE_inv h
        simp only [List.length_cons] at hn
        have hprim' : Prim prec n k rest lhs rest' ∧ rest'.length ≤ rest.length := by
          cases hprim with
          | atom hk => exact ⟨.atom hk, Nat.le_refl _⟩
          | grp he =>
            have hl := parseE_len he
            simp only [List.length_cons] at hl
            exact ⟨.grp (ihE _ _ _ _ he (by omega)), by omega⟩
          | pre hk he =>
            have hl := parseE_len he
            exact ⟨.pre hk (ihE _ _ _ _ he (by omega)), by omega⟩
          | list ha =>
            have hl := parseArgs_len ha
            exact ⟨.list (ihA _ _ _ _ ha (by omega)), by omega⟩
        rw [parseE_replay hprim'.1]
        exact ihL _ _ _ _ _ hloop (by omega)
    · intro N p lhs ts r h hn
      cases N with
      | zero => simp [loop] at h
      | succ N =>
        rcases loop_inv h with ⟨hstop, rfl⟩ | ⟨k, rest, lhs', rest', rfl, hp, hstep, hloop⟩
        · exact loop_stop prec _ p lhs ts hstop
        · simp only [List.length_cons] at hn
          have hstep' : Step prec n lhs k rest lhs' rest' ∧ rest'.length ≤ rest.length := by
            cases hstep with
            | range he =>
              have hl := parseE_len he
              have hs : (rangeSplit rest).2.length ≤ rest.length := by
                unfold rangeSplit; split <;> simp
              exact ⟨.range (ihE _ _ _ _ he (by omega)), by omega⟩
            | bin hk he =>
              have hl := parseE_len he
              exact ⟨.bin hk (ihE _ _ _ _ he (by omega)), by omega⟩
            | asg hk hv he =>
              have hl := parseE_len he
              exact ⟨.asg hk hv (ihE _ _ _ _ he (by omega)), by omega⟩
            | call ha =>
              have hl := parseArgs_len ha
              exact ⟨.call (ihA _ _ _ _ ha (by omega)), by omega⟩
            | index he =>
              have hl := parseE_len he
              simp only [List.length_cons] at hl
              exact ⟨.index (ihE _ _ _ _ he (by omega)), by omega⟩
            | member hk hnm => exact ⟨.member hk hnm, by simp⟩
            | cast => exact ⟨.cast, by simp⟩
          rw [loop_replay hp hstep'.1]
          exact ihL _ _ _ _ _ hloop (by omega)
    · intro N close ts r h hn
      cases N with
      | zero => simp [parseArgs] at h
      | succ N =>
        cases ts with
        | nil => simp [parseArgs] at h
        | cons k rest =>
          simp only [List.length_cons] at hn
          by_cases hk : (k == close) = true
          · rw [parseArgs.eq_3] at h ⊢
            simpa [hk] using h
          · obtain ⟨xs, out⟩ := r
            rcases parseArgs_inv h with ⟨rest₀, hts, _, _⟩ | ⟨e, rest', xs', he, ha, rfl⟩ | ⟨e, he, rfl⟩
            · injection hts with h1 _
              exact absurd (by simp [h1]) hk
            · have hl := parseE_len he
              simp only [List.length_cons] at hl
              have he' := ihE _ _ _ _ he (by simp only [List.length_cons]; omega)
              have ha' := ihA _ _ _ _ ha (by omega)
              rw [parseArgs.eq_3]
              simp [hk, he', ha']
            · have hl := parseE_len he
              have he' := ihE _ _ _ _ he (by simp only [List.length_cons]; omega)
              by_cases hc : close = .comma
              · -- impossible: with `,` as closing token the first alternative would have been taken
                subst hc
                rw [parseArgs.eq_3] at h
                simp only [hk, he] at h
                cases hpa : parseArgs prec N .comma out with
                | error e' => simp [hpa] at h
                | ok r' =>
                  obtain ⟨xs, rest''⟩ := r'
                  have hl2 := parseArgs_len hpa
                  simp only [hpa] at h
                  obtain ⟨_, rfl⟩ := h
                  omega
              · rw [parseArgs.eq_3]
                simp only [hk, he']
                cases close <;> first | exact absurd rfl hc | simp

/-- If some fuel parses `ts` into `r`, the entry point does. -/
theorem parseExpr_of_parseE (prec : Prec) {n : Nat} {ts : List TokKind} {r : Tree × List TokKind}
    (h : parseE prec n 0 ts = .ok r) : parseExpr prec ts = .ok r :=
  (ok_any_fuel prec _).1 _ _ _ _ h (by omega)

/-- And conversely the entry point is one of the fuel-indexed calls. -/
theorem parseE_of_parseExpr (prec : Prec) {ts : List TokKind} {r : Tree × List TokKind}
    (h : parseExpr prec ts = .ok r) : parseE prec (2 * ts.length + 2) 0 ts = .ok r := h

end HmsProofs.Lemmas.Print
