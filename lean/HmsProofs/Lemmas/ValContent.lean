import Hms.Value.Content
import HmsProofs.Lemmas.ValEq
/-! `isEqual a b` ↔ `content a = content b` on well-formed data values. -/
namespace HmsProofs.Lemmas.ValContent
open Hms.Value HmsProofs.Lemmas.ValEq

theorem contentFields_eq : ∀ (fs : Fields) (q : String), contentFields fs q = (fs.lookup q).map content
  | .nil, q => by simp [contentFields, Fields.lookup]
  | .cons k v fs, q => by
    simp only [contentFields, Fields.lookup]
    split
    · simp
    · exact contentFields_eq fs q

theorem mem_keys_iff_lookup (fs : Fields) (q : String) : q ∈ fs.keys ↔ (fs.lookup q).isSome = true := by
  constructor
  · intro h; obtain ⟨a, ha⟩ := lookup_of_mem_keys fs q h; simp [ha]
  · intro h
    cases hl : fs.lookup q with
    | none => simp [hl] at h
    | some a => exact mem_keys_of_mem fs q a (lookup_mem fs q a hl)

/-- equal field lists (as compared by `isEqualIn` plus the length check) denote the same map -/
theorem fields_content_eq (fs gs : Fields) (hnf : nodupKeys fs.keys = true) (hng : nodupKeys gs.keys = true)
    (hl : fs.length = gs.length) (h : Fields.isEqualIn fs gs = true)
    (ih : ∀ k a, (k, a) ∈ fs.toList → ∀ b, (k, b) ∈ gs.toList → a.isEqual b = true → content a = content b) :
    contentFields fs = contentFields gs := by
  rw [isEqualIn_iff] at h
  have hsub : ∀ x ∈ fs.keys, x ∈ gs.keys := by
    intro x hx
    obtain ⟨a, ha⟩ := lookup_of_mem_keys fs x hx
    obtain ⟨b', hb', _⟩ := h x a (lookup_mem fs x a ha)
    exact mem_keys_of_mem gs x b' (lookup_mem gs x b' hb')
  funext q
  rw [contentFields_eq, contentFields_eq]
  by_cases hq : q ∈ fs.keys
  · obtain ⟨a, ha⟩ := lookup_of_mem_keys fs q hq
    obtain ⟨b, hb, hab⟩ := h q a (lookup_mem fs q a ha)
    simp [ha, hb, ih q a (lookup_mem fs q a ha) b (lookup_mem gs q b hb) hab]
  · have hq' : q ∉ gs.keys := fun hg =>
      hq (subset_of_nodup_length fs.keys gs.keys hnf hsub (by simp [keys_length, hl]) q hg)
    simp [lookup_none_of_not_mem fs q hq, lookup_none_of_not_mem gs q hq']

/-! ### equal values have the same content -/

mutual
theorem content_of_isEqual : ∀ (a b : Val), a.wf = true → b.wf = true → a.isEqual b = true → content a = content b
  | .null, b, _, _, h => by cases b <;> simp [Val.isEqual] at h; rfl
  | .int _, b, _, _, h => by cases b <;> simp [Val.isEqual] at h; simp [content, h]
  | .flt _, b, _, _, h => by cases b <;> simp [Val.isEqual] at h; simp [content, h]
  | .bool _, b, _, _, h => by cases b <;> simp [Val.isEqual] at h; simp [content, h]
  | .str _, b, _, _, h => by cases b <;> simp [Val.isEqual] at h; simp [content, h]
  | .none, b, _, _, h => by cases b <;> simp [Val.isEqual] at h; rfl
  | .range .., b, _, _, h => by
    cases b <;> simp [Val.isEqual] at h
    obtain ⟨⟨h1, h2⟩, h3⟩ := h
    simp [content, h1, h2, h3]
  | .fn, b, _, _, h => by simp [Val.isEqual] at h
  | .some a, b, hwa, hwb, h => by
    cases b <;> simp [Val.isEqual] at h
    simp only [Val.wf] at hwa hwb
    simp [content, content_of_isEqual a _ hwa hwb h]
  | .list xs, b, hwa, hwb, h => by
    cases b <;> simp [Val.isEqual] at h
    simp only [Val.wf] at hwa hwb
    simp [content, content_of_isEqual_vals xs _ hwa hwb h.1 h.2]
  | .obj fs, b, hwa, hwb, h => by
    cases b <;> simp [Val.isEqual] at h
    rename_i gs
    simp only [Val.wf, Bool.and_eq_true] at hwa hwb
    simp only [content, Content.obj.injEq]
    exact fields_content_eq fs gs hwa.1 hwb.1 h.1 h.2
      (fun k a hm b hb => content_of_isEqual_fields fs hwa.2 k a hm b (mem_wf gs hwb.2 k b hb))
  | .anyobj fs, b, hwa, hwb, h => by
    cases b <;> simp [Val.isEqual] at h
    rename_i gs
    simp only [Val.wf, Bool.and_eq_true] at hwa hwb
    simp only [content, Content.anyobj.injEq]
    exact fields_content_eq fs gs hwa.1 hwb.1 h.1 h.2
      (fun k a hm b hb => content_of_isEqual_fields fs hwa.2 k a hm b (mem_wf gs hwb.2 k b hb))
theorem content_of_isEqual_vals : ∀ (xs ys : Vals), xs.wf = true → ys.wf = true → xs.length = ys.length →
    Vals.isEqual xs ys = true → contentList xs = contentList ys
  | .nil, ys, _, _, hl, _ => by
    cases ys with
    | nil => rfl
    | cons y ys => simp [Vals.length] at hl
  | .cons x xs, ys, hwa, hwb, hl, h => by
    cases ys with
    | nil => simp [Vals.isEqual] at h
    | cons y ys =>
      simp only [Vals.isEqual, Bool.and_eq_true, Vals.wf, Vals.length] at h hwa hwb hl
      simp [contentList, content_of_isEqual x y hwa.1 hwb.1 h.1, content_of_isEqual_vals xs ys hwa.2 hwb.2 (by omega) h.2]
theorem content_of_isEqual_fields : ∀ (as : Fields), as.wf = true → ∀ k a, (k, a) ∈ as.toList →
    ∀ b, b.wf = true → a.isEqual b = true → content a = content b
  | .nil, _, k, a, hm => by simp [Fields.toList] at hm
  | .cons k' a' as, hw, k, a, hm => by
    simp only [Fields.wf, Bool.and_eq_true] at hw
    simp only [Fields.toList, List.mem_cons, Prod.mk.injEq] at hm
    rcases hm with ⟨rfl, rfl⟩ | hm
    · exact fun b hb h => content_of_isEqual a b hw.1 hb h
    · exact content_of_isEqual_fields as hw.2 k a hm
end

/-! ### values with the same content are equal -/

theorem contentList_length : ∀ (xs ys : Vals), contentList xs = contentList ys → xs.length = ys.length
  | .nil, .nil, _ => rfl
  | .nil, .cons _ _, h => by simp [contentList] at h
  | .cons _ _, .nil, h => by simp [contentList] at h
  | .cons x xs, .cons y ys, h => by
    simp only [contentList, List.cons.injEq] at h
    simp [Vals.length, contentList_length xs ys h.2]

/-- field lists denoting the same map are equal for `isEqualIn`, and equally long -/
theorem fields_isEqualIn_of_content (fs gs : Fields) (hnf : nodupKeys fs.keys = true) (hng : nodupKeys gs.keys = true)
    (h : contentFields fs = contentFields gs)
    (ih : ∀ k a, (k, a) ∈ fs.toList → ∀ b, (k, b) ∈ gs.toList → content a = content b → a.isEqual b = true) :
    fs.length = gs.length ∧ Fields.isEqualIn fs gs = true := by
  have hq : ∀ q, (fs.lookup q).map content = (gs.lookup q).map content := by
    intro q; rw [← contentFields_eq, ← contentFields_eq, h]
  have hkeys : ∀ q, q ∈ fs.keys ↔ q ∈ gs.keys := by
    intro q
    rw [mem_keys_iff_lookup, mem_keys_iff_lookup]
    have := hq q
    cases h1 : fs.lookup q <;> cases h2 : gs.lookup q <;> simp [h1, h2] at this ⊢
  refine ⟨?_, ?_⟩
  · rw [← keys_length, ← keys_length]
    exact Nat.le_antisymm (length_le_of_nodup_subset _ _ hnf (fun x hx => (hkeys x).mp hx))
      (length_le_of_nodup_subset _ _ hng (fun x hx => (hkeys x).mpr hx))
  · rw [isEqualIn_iff]
    intro k a ha
    have hl := lookup_of_mem_nodup fs k a hnf ha
    have := hq k
    rw [hl] at this
    cases hg : gs.lookup k with
    | none => simp [hg] at this
    | some b =>
      simp [hg] at this
      exact ⟨b, rfl, ih k a ha b (lookup_mem gs k b hg) this⟩

mutual
theorem isEqual_of_content : ∀ (a b : Val), a.wf = true → b.wf = true → a.data = true →
    content a = content b → a.isEqual b = true
  | .null, b, _, _, _, h => by cases b <;> simp [content] at h; simp [Val.isEqual]
  | .int _, b, _, _, _, h => by cases b <;> simp [content] at h; simp [Val.isEqual, h]
  | .flt _, b, _, _, _, h => by cases b <;> simp [content] at h; simp [Val.isEqual, h]
  | .bool _, b, _, _, _, h => by cases b <;> simp [content] at h; simp [Val.isEqual, h]
  | .str _, b, _, _, _, h => by cases b <;> simp [content] at h; simp [Val.isEqual, h]
  | .none, b, _, _, _, h => by cases b <;> simp [content] at h; simp [Val.isEqual]
  | .range .., b, _, _, _, h => by
    cases b <;> simp [content] at h
    simp [Val.isEqual, h.1, h.2.1, h.2.2]
  | .fn, b, _, _, hd, _ => by simp [Val.data] at hd
  | .some a, b, hwa, hwb, hd, h => by
    cases b <;> simp [content] at h
    simp only [Val.wf, Val.data] at hwa hwb hd
    simp [Val.isEqual, isEqual_of_content a _ hwa hwb hd h]
  | .list xs, b, hwa, hwb, hd, h => by
    cases b <;> simp [content] at h
    simp only [Val.wf, Val.data] at hwa hwb hd
    simp [Val.isEqual, contentList_length _ _ h, isEqual_of_content_vals xs _ hwa hwb hd h]
  | .obj fs, b, hwa, hwb, hd, h => by
    cases b <;> simp [content] at h
    rename_i gs
    simp only [Val.wf, Val.data, Bool.and_eq_true] at hwa hwb hd
    obtain ⟨h1, h2⟩ := fields_isEqualIn_of_content fs gs hwa.1 hwb.1 h
      (fun k a hm b hb => isEqual_of_content_fields fs hwa.2 hd k a hm b (mem_wf gs hwb.2 k b hb))
    simp [Val.isEqual, h1, h2]
  | .anyobj fs, b, hwa, hwb, hd, h => by
    cases b <;> simp [content] at h
    rename_i gs
    simp only [Val.wf, Val.data, Bool.and_eq_true] at hwa hwb hd
    obtain ⟨h1, h2⟩ := fields_isEqualIn_of_content fs gs hwa.1 hwb.1 h
      (fun k a hm b hb => isEqual_of_content_fields fs hwa.2 hd k a hm b (mem_wf gs hwb.2 k b hb))
    simp [Val.isEqual, h1, h2]
theorem isEqual_of_content_vals : ∀ (xs ys : Vals), xs.wf = true → ys.wf = true → xs.data = true →
    contentList xs = contentList ys → Vals.isEqual xs ys = true
  | .nil, _, _, _, _, _ => by simp [Vals.isEqual]
  | .cons x xs, ys, hwa, hwb, hd, h => by
    cases ys with
    | nil => simp [contentList] at h
    | cons y ys =>
      simp only [contentList, List.cons.injEq, Vals.wf, Vals.data, Bool.and_eq_true] at h hwa hwb hd
      simp [Vals.isEqual, isEqual_of_content x y hwa.1 hwb.1 hd.1 h.1, isEqual_of_content_vals xs ys hwa.2 hwb.2 hd.2 h.2]
theorem isEqual_of_content_fields : ∀ (as : Fields), as.wf = true → as.data = true → ∀ k a, (k, a) ∈ as.toList →
    ∀ b, b.wf = true → content a = content b → a.isEqual b = true
  | .nil, _, _, k, a, hm => by simp [Fields.toList] at hm
  | .cons k' a' as, hw, hd, k, a, hm => by
    simp only [Fields.wf, Fields.data, Bool.and_eq_true] at hw hd
    simp only [Fields.toList, List.mem_cons, Prod.mk.injEq] at hm
    rcases hm with ⟨rfl, rfl⟩ | hm
    · exact fun b hb h => isEqual_of_content a b hw.1 hb hd.1 h
    · exact isEqual_of_content_fields as hw.2 hd.2 k a hm
end

end HmsProofs.Lemmas.ValContent
