import HmsProofs.Lemmas.SimHStmt
/-!
# Assignment to a list element or a field by index: `l[i] = e`, `l[i] op= e`

`code(l); code(i); Index; [Dup]; code(e); [op]; Assign`: the value read by `Index` carries the slot it
came from, `Assign` writes through it. The specification resolves the slot first (`evalPlace`,
bounds checked before the right-hand side), then evaluates the right-hand side, then writes.
-/
namespace HmsProofs.Sim
open Hms.Core Hms.Core.Comp Hms.Core.VM

theorem okV_index {fr : Bool} {sp ty b i} (h : Frag.okV fr (.index sp ty b i) = true) :
    Frag.okV fr b = true ∧ Frag.okV fr i = true := by
  simp only [Frag.okV, Frag.okXE, Frag.okE, Bool.or_eq_true, Bool.and_eq_true] at h ⊢
  rcases h with ⟨⟨hb, hi⟩, _⟩ | ⟨⟨⟨_, hb⟩, hi⟩, _⟩
  · exact ⟨Or.inl hb, Or.inl hi⟩
  · exact ⟨Or.inr hb, Or.inr hi⟩

theorem okV_member {fr : Bool} {sp ty b name} (h : Frag.okV fr (.member sp ty b name .dot) = true) :
    Frag.okV fr b = true := by
  simp only [Frag.okV, Frag.okXE, Frag.okE, Bool.or_eq_true, Bool.and_eq_true] at h ⊢
  rcases h with hb | ⟨_, hb⟩
  · exact Or.inl hb
  · exact Or.inr hb

theorem wsGE_index {scopes φ sp ty b i} (h : Frag.wsGE scopes φ (.index sp ty b i) = true) :
    Frag.wsGE scopes φ b = true ∧ Frag.wsGE scopes φ i = true := by
  simp only [Frag.wsGE, Frag.varsGE, Frag.callsGE, resolved_append, callsOK_append, Bool.and_eq_true] at h ⊢
  exact ⟨⟨h.1.1, h.2.1⟩, ⟨h.1.2, h.2.2⟩⟩

theorem namesGE_index {sp ty b i} {T : List String} (h : ∀ x ∈ Frag.namesGE (.index sp ty b i), x ∈ T) :
    (∀ x ∈ Frag.namesGE b, x ∈ T) ∧ (∀ x ∈ Frag.namesGE i, x ∈ T) := by
  simp only [Frag.namesGE, Frag.varsGE, Frag.callsGE, List.mem_append] at h ⊢
  refine ⟨fun x hx => ?_, fun x hx => ?_⟩
  · rcases hx with hx | hx
    · exact h x (Or.inl (Or.inl hx))
    · exact h x (Or.inr (Or.inl hx))
  · rcases hx with hx | hx
    · exact h x (Or.inl (Or.inr hx))
    · exact h x (Or.inr (Or.inr hx))

/-- The left-hand side of an assignment to a heap slot is simulated: the specification's `evalPlace`
resolves the slot `pl`; the VM has pushed the slot's current value with the slot as its origin. -/
def SimPl (G : GCtx) (A : Act) (ip n : Nat) (stk : List SVal) (mem : Mem) (st : St)
    (r : Except Ctl Place × St) : Prop :=
  match r with
  | (.ok pl, st') =>
    st' = { st with out := st'.out, heap := st'.heap } ∧ pl.var = none ∧
      ∃ mem' cur, readPlace pl st' = (.ok cur, st') ∧
        Runs G.fr G.code G.lim G.s A.fn A.rest A.mp ip stk mem st.world (ip + n) (⟨cur, some (orgOf pl)⟩ :: stk) mem' st'.world ∧
        MemLe G.fr A.mp mem mem'
  | (.error c, st') => SimGE G A ip n stk mem st (.error c, st')

theorem SimPl.of_error {G : GCtx} {A : Act} {ip n stk mem st c st'}
    (h : SimGE G A ip n stk mem st (.error c, st')) : SimPl G A ip n stk mem st (.error c, st') := h

/-- **`l = e` and `l op= e` for a heap slot `l`**, given the slot (`SimPl`) and the value-position
expressions at the fuel of the right-hand side. -/
theorem placeAssign_step (G : GCtx) (n : Nat) (hPX1 : PV G (n + 1))
    (A : Act) (hA : A.OK G) (loops : List (String × String)) (lscopes : CScopes) (d : Nat)
    (asp : Span) (op : Option InfixOp) (l r : Expr) (cl : SCode × LM)
    (env : CEnv) (spec : St) (ip : Nat) (stk : List SVal) (mem : Mem)
    (hop : opOK op = true) (hr : Frag.okV G.fr r = true) (hwr : Frag.wsGE env.scopes A.φ r = true)
    (hTr : ∀ x ∈ Frag.namesGE r, x ∈ A.T)
    (hpl : Placed A.lab A.σ A.c ip (cl.1 ++ opPre op asp ++ (cgE G.mod (ρS env.scopes) A.φ r cl.2).1 ++ opPost op asp ++
      [(.assign, asp)]))
    (hls : lscopes = env.scopes.drop d)
    (hrel : GRel G A env.scopes env.vm spec.scopes mem) (hsp : SpecOK G A.mp spec)
    (hplace : SimPl G A ip (nI cl.1) stk mem spec (evalPlace G.cfg (n + 1) l spec)) :
    SimGS G A loops lscopes d ip
      (nI (cl.1 ++ opPre op asp ++ (cgE G.mod (ρS env.scopes) A.φ r cl.2).1 ++ opPost op asp ++ [(.assign, asp)])) stk mem
      (GRel G A env.scopes env.vm) spec
      (evalExpr G.cfg (n + 2) (.assign asp op l r) spec) := by
  generalize hCR : cgE G.mod (ρS env.scopes) A.φ r cl.2 = CR at hpl ⊢
  obtain ⟨h1234, hplS⟩ := hpl.append
  obtain ⟨h123, hplO⟩ := h1234.append
  obtain ⟨h12, hplR⟩ := h123.append
  obtain ⟨_, hplD⟩ := h12.append
  obtain ⟨iasg, _⟩ := hplS.instr (i := .assign) rfl
  have hnS : nI [((Instr.assign : SInstr), asp)] = 1 := rfl
  simp only [nI_append, hnS] at iasg hplD hplR hplO ⊢
  simp only [← Nat.add_assoc] at iasg hplD hplR hplO
  rw [evalExpr_assign_gen]
  rcases hp : evalPlace G.cfg (n + 1) l spec with ⟨rp, st2'⟩
  rw [hp] at hplace
  cases rp with
  | error cp =>
    exact SimGS.of_exprError _ hrel hls (show SimGE G A ip (nI cl.1) stk mem spec (.error cp, st2') from hplace)
  | ok pl =>
  obtain ⟨hfr12, hvar, mem2, cur, hread, hrun3, hml12⟩ := hplace
  simp only []
  have hsp2 := hsp.world st2' hfr12 hrun3.inv
  have hrel2 : StRel G.mod A.T A.N A.σ G.lim A.mp env.scopes env.vm st2'.scopes mem2 := by
    rw [hfr12]; exact hrel.rel.memLe hml12.cells
  -- the write, common to both forms
  have hwrite : ∀ (v : Val) (ov : Option Org) (st3 : St) (mem3 : Mem) (ipA : Nat),
      st3 = { spec with out := st3.out, heap := st3.heap } → MemLe G.fr A.mp mem mem3 →
      A.c[ipA]? = some (.assign, asp) →
      Runs G.fr G.code G.lim G.s A.fn A.rest A.mp ip stk mem spec.world ipA
        (⟨v, ov⟩ :: ⟨cur, some (orgOf pl)⟩ :: stk) mem3 st3.world →
      ∀ n', ipA + 1 = ip + n' →
      SimGS G A loops lscopes d ip n' stk mem (GRel G A env.scopes env.vm) spec
        (match writePlace pl v st3 with
          | (.ok _, st4) => (.ok Val.null, st4)
          | (.error c, st4) => (.error c, st4)) := by
    intro v ov st3 mem3 ipA hfr3 hml3 iA hrun n' hn'
    have hw := writePlace_heap pl v st3 hvar
    rcases hwp : writePlace pl v st3 with ⟨rw_, st4⟩
    rw [hwp] at hw
    cases rw_ with
    | error cw => cases cw <;> first | trivial | exact hw.elim
    | ok u =>
      obtain ⟨heap', hah, rfl⟩ := hw
      refine ⟨by rw [hfr3], mem3, ?_, hml3.mono (by omega), ?_⟩
      · refine (hrun.trans (Runs.of_exec1W (fr := G.fr) (mem := mem3) (fun it_ k =>
          mkS_assign_org G.code G.lim (withIt G.s it_) A.fn ipA A.rest A.mp k stk mem3.cells st3.world A.c hA.code asp
            (orgOf pl) heap' cur v ov iA hah) (fun hi => HeapInv.assign hah hi))).cast hn'
      · show GRel G A env.scopes env.vm st3.scopes mem3
        rw [hfr3]; exact hrel.memLe hml3
  cases op with
  | none =>
    simp only [opPre, opPost, nI_nil, Nat.add_zero] at hplR iasg ⊢
    have h3 := hPX1 A hA r st2' (ip + nI cl.1) (⟨cur, some (orgOf pl)⟩ :: stk) mem2 cl.2 env.scopes env.vm hr hwr hTr
      (hCR ▸ hplR) hrel2 hsp2
    rw [hCR] at h3
    rcases her : evalExpr G.cfg (n + 1) r st2' with ⟨r3, st3⟩
    rw [her] at h3
    cases r3 with
    | error c3 => exact SimGS.of_exprError _ hrel hls (SimOE.error_after 0 [⟨cur, some (orgOf pl)⟩] hrun3 hfr12 hml12 h3)
    | ok v =>
      obtain ⟨hfr3, mem3, ov, hrunR, hml3⟩ := h3
      simp only []
      exact hwrite v ov st3 mem3 _ (by rw [hfr3, hfr12]) (hml12.trans hml3) iasg (hrun3.trans hrunR) _ (by omega)
  | some o =>
    have hlog : Frag.isLogical o = false := by simpa [opOK] using hop
    have hnD : nI [((Instr.dup : SInstr), asp)] = 1 := rfl
    simp only [opPre, opPost, hnD] at hplD hplR hplO iasg ⊢
    obtain ⟨idup, _⟩ := hplD.instr (i := .dup) rfl
    simp only [hread]
    have hdup : Runs G.fr G.code G.lim G.s A.fn A.rest A.mp (ip + nI cl.1) (⟨cur, some (orgOf pl)⟩ :: stk) mem2
        st2'.world (ip + nI cl.1 + 1) (⟨cur, some (orgOf pl)⟩ :: ⟨cur, some (orgOf pl)⟩ :: stk) mem2 st2'.world :=
      Runs.of_exec1 (fr := G.fr) (mem := mem2) (fun it_ k =>
        mkS_dup G.code G.lim (withIt G.s it_) A.fn _ A.rest A.mp k stk mem2.cells st2'.world A.c hA.code asp _ idup)
    have hrun4 := hrun3.trans hdup
    have h3 := hPX1 A hA r st2' (ip + nI cl.1 + 1) (⟨cur, some (orgOf pl)⟩ :: ⟨cur, some (orgOf pl)⟩ :: stk) mem2 cl.2
      env.scopes env.vm hr hwr hTr (hCR ▸ hplR) hrel2 hsp2
    rw [hCR] at h3
    rcases her : evalExpr G.cfg (n + 1) r st2' with ⟨r3, st3⟩
    rw [her] at h3
    cases r3 with
    | error c3 =>
      exact SimGS.of_exprError _ hrel hls
        (SimOE.error_after 0 [⟨cur, some (orgOf pl)⟩, ⟨cur, some (orgOf pl)⟩] hrun4 hfr12 hml12 h3)
    | ok bb =>
      obtain ⟨hfr3, mem3, obb, hrunR, hml3⟩ := h3
      simp only []
      have hrun5 := hrun4.trans hrunR
      have ha := fun it_ => exec_arith G.code G.lim (baseOf (withIt G.s it_) A.fn A.rest A.mp st3.world) ⟨A.fn, 0⟩
        A.rest A.c A.σ A.lab
        rfl hA.code o asp cur bb (some (orgOf pl)) obb st3 (ip + nI cl.1 + 1 + nI CR.1)
        (⟨cur, some (orgOf pl)⟩ :: stk) mem3 hlog hplO rfl
      rcases hbo : binOp o cur bb asp st3 with ⟨rb, st4⟩
      have hst4 : st4 = st3 := by
        have := (binOp_heapOnly o cur bb asp).state st3
        rw [hbo] at this; exact this
      subst hst4
      simp only [hbo] at ha
      cases rb with
      | error cb =>
        cases cb <;> first | trivial | exact (ha ⟨[], 0⟩).elim | skip
        intro _
        exact hrun5.fatal (RunsF.of_runsFatal ha)
      | ok v =>
        simp only [] at ha ⊢
        exact hwrite v none st4 mem3 _ (by rw [hfr3, hfr12]) (hml12.trans hml3) iasg (hrun5.trans (Runs.of_runsTo ha)) _
          (by omega)

/-- **The slot `l[i]`**: `code(l); code(i); Index` against `evalPlace`. -/
theorem index_place (G : GCtx) (n : Nat) (hPX0 : PV G n) (A : Act) (hA : A.OK G)
    (isp : Span) (ity : Ty) (b i : Expr) (lm : LM) (scopes : CScopes) (vm : List (String × Nat))
    (spec : St) (ip : Nat) (stk : List SVal) (mem : Mem)
    (hl : Frag.okV G.fr (.index isp ity b i) = true) (hwl : Frag.wsGE scopes A.φ (.index isp ity b i) = true)
    (hT : ∀ x ∈ Frag.namesGE (.index isp ity b i), x ∈ A.T)
    (hpl : Placed A.lab A.σ A.c ip (cgE G.mod (ρS scopes) A.φ (.index isp ity b i) lm).1)
    (hrel : StRel G.mod A.T A.N A.σ G.lim A.mp scopes vm spec.scopes mem) (hsp : SpecOK G A.mp spec) :
    SimPl G A ip (nI (cgE G.mod (ρS scopes) A.φ (.index isp ity b i) lm).1) stk mem spec
      (evalPlace G.cfg (n + 1) (.index isp ity b i) spec) := by
  obtain ⟨hb, hi⟩ := okV_index hl
  obtain ⟨hwb, hwi⟩ := wsGE_index hwl
  obtain ⟨hTb, hTi⟩ := namesGE_index hT
  simp only [cgE] at hpl ⊢
  generalize hCB : cgE G.mod (ρS scopes) A.φ b lm = CB at hpl ⊢
  generalize hCI : cgE G.mod (ρS scopes) A.φ i CB.2 = CI at hpl ⊢
  obtain ⟨hBI, hplX⟩ := hpl.append
  obtain ⟨hpB, hpI⟩ := hBI.append
  obtain ⟨iidx, _⟩ := hplX.instr (i := .index) rfl
  have hnX : nI [((Instr.index : SInstr), isp)] = 1 := rfl
  simp only [nI_append, hnX] at iidx ⊢
  simp only [← Nat.add_assoc] at iidx
  rw [evalPlace_index]
  have h1 := hPX0 A hA b spec ip stk mem lm scopes vm hb hwb hTb (hCB ▸ hpB) hrel hsp
  rw [hCB] at h1
  rcases heb : evalExpr G.cfg n b spec with ⟨r1, st1⟩
  rw [heb] at h1
  cases r1 with
  | error c1 => exact SimPl.of_error (SimGE.error_n _ h1)
  | ok bv =>
  obtain ⟨hfr1, mem1, ob, hrun1, hml1⟩ := h1
  simp only []
  have hsp1 := hsp.world st1 hfr1 hrun1.inv
  have hrel1 : StRel G.mod A.T A.N A.σ G.lim A.mp scopes vm st1.scopes mem1 := by
    rw [hfr1]; exact hrel.memLe hml1.cells
  have h2 := hPX0 A hA i st1 (ip + nI CB.1) (⟨bv, ob⟩ :: stk) mem1 CB.2 scopes vm hi hwi hTi (hCI ▸ hpI) hrel1 hsp1
  rw [hCI] at h2
  rcases hei : evalExpr G.cfg n i st1 with ⟨r2, st2⟩
  rw [hei] at h2
  cases r2 with
  | error c2 => exact SimPl.of_error (SimOE.error_after _ [⟨bv, ob⟩] hrun1 hfr1 hml1 h2)
  | ok iv =>
  obtain ⟨hfr2, mem2, oi, hrun2, hml2⟩ := h2
  simp only []
  have hfr12 : st2 = { spec with out := st2.out, heap := st2.heap } := by rw [hfr2, hfr1]
  have hml12 := hml1.trans hml2
  have hrun12 := hrun1.trans hrun2
  have hidx := index_runs G A hA isp (ip + nI CB.1 + nI CI.1) stk mem2 st2 bv iv ob oi iidx
  have hshape := placeOf_shape bv iv isp st2
  rcases hp : placeOf bv iv isp st2 with ⟨rp, st2'⟩
  rw [hp] at hshape
  cases rp with
  | error cp =>
    apply SimPl.of_error
    cases cp <;> first | trivial | exact hshape.elim | skip
    obtain ⟨rfl, hiv⟩ := hshape
    rw [hiv] at hidx
    intro _
    exact hrun12.fatal hidx
  | ok pl =>
  obtain ⟨rfl, hvar, horg, cur, hiv, hread⟩ := hshape
  rw [hiv] at hidx
  simp only [horg] at hidx
  exact ⟨hfr12, hvar, mem2, cur, hread, (hrun12.trans hidx).cast (by omega), hml12⟩

/-- **`l[i] = e` and `l[i] op= e`**, given the value-position expressions at the two fuels below. -/
theorem idxAssign_step (G : GCtx) (n : Nat) (hPX0 : PV G n) (hPX1 : PV G (n + 1))
    (A : Act) (hA : A.OK G) (loops : List (String × String)) (lscopes : CScopes) (d : Nat)
    (sp asp : Span) (op : Option InfixOp) (isp : Span) (ity : Ty) (b i r : Expr)
    (env : CEnv) (spec : St) (ip : Nat) (stk : List SVal) (mem : Mem)
    (hs : Frag.okFS G.fr (!loops.isEmpty) A.rt (.exprS sp (.assign asp op (.index isp ity b i) r)) = true)
    (hT : ∀ x ∈ Frag.identsGS (.exprS sp (.assign asp op (.index isp ity b i) r)), x ∈ A.T)
    (hws : Frag.wsGS G.mod A.src A.φ loops (.exprS sp (.assign asp op (.index isp ity b i) r)) env = true)
    (hpl : Placed A.lab A.σ A.c ip (cgS G.mod A.src A.φ loops (.exprS sp (.assign asp op (.index isp ity b i) r)) env).1)
    (hls : lscopes = env.scopes.drop d)
    (hrel : GRel G A env.scopes env.vm spec.scopes mem) (hsp : SpecOK G A.mp spec) :
    SimGS G A loops lscopes d ip
      (nI (cgS G.mod A.src A.φ loops (.exprS sp (.assign asp op (.index isp ity b i) r)) env).1) stk mem
      (GRel G A (cgS G.mod A.src A.φ loops (.exprS sp (.assign asp op (.index isp ity b i) r)) env).2.scopes
        (cgS G.mod A.src A.φ loops (.exprS sp (.assign asp op (.index isp ity b i) r)) env).2.vm) spec
      (evalExpr G.cfg (n + 2) (.assign asp op (.index isp ity b i) r) spec) := by
  simp only [okFS_idxAssign, Bool.and_eq_true] at hs
  obtain ⟨⟨⟨hop, hl⟩, hr⟩, _⟩ := hs
  simp only [wsGS_idxAssign, Bool.and_eq_true] at hws
  obtain ⟨hwl, hwr⟩ := hws
  simp only [identsGS_idxAssign, List.mem_append] at hT
  rw [cgS_idxAssign] at hpl ⊢
  have hplL := hpl.append.1.append.1.append.1.append.1
  exact placeAssign_step G n hPX1 A hA loops lscopes d asp op _ r _ env spec ip stk mem hop hr hwr
    (fun x hx => hT x (Or.inr hx)) hpl hls hrel hsp
    (index_place G n hPX0 A hA isp ity b i env.lm env.scopes env.vm spec ip stk mem hl hwl
      (fun x hx => hT x (Or.inl hx)) hplL hrel.rel hsp)

/-- **The slot `o.f`**: `code(o); Member f` against `evalPlace`. -/
theorem member_place (G : GCtx) (n : Nat) (hPX0 : PV G n) (A : Act) (hA : A.OK G)
    (msp : Span) (mty : Ty) (b : Expr) (name : String) (lm : LM) (scopes : CScopes) (vm : List (String × Nat))
    (spec : St) (ip : Nat) (stk : List SVal) (mem : Mem)
    (hl : Frag.okV G.fr (.member msp mty b name .dot) = true) (hwl : Frag.wsGE scopes A.φ (.member msp mty b name .dot) = true)
    (hT : ∀ x ∈ Frag.namesGE (.member msp mty b name .dot), x ∈ A.T)
    (hpl : Placed A.lab A.σ A.c ip (cgE G.mod (ρS scopes) A.φ (.member msp mty b name .dot) lm).1)
    (hrel : StRel G.mod A.T A.N A.σ G.lim A.mp scopes vm spec.scopes mem) (hsp : SpecOK G A.mp spec) :
    SimPl G A ip (nI (cgE G.mod (ρS scopes) A.φ (.member msp mty b name .dot) lm).1) stk mem spec
      (evalPlace G.cfg (n + 1) (.member msp mty b name .dot) spec) := by
  have hl := okV_member hl
  have hwb : Frag.wsGE scopes A.φ b = true := by
    simpa [Frag.wsGE, Frag.varsGE, Frag.callsGE] using hwl
  have hTb : ∀ x ∈ Frag.namesGE b, x ∈ A.T := by
    intro x hx; exact hT x (by simpa [Frag.namesGE, Frag.varsGE, Frag.callsGE] using hx)
  simp only [cgE] at hpl ⊢
  generalize hCB : cgE G.mod (ρS scopes) A.φ b lm = CB at hpl ⊢
  obtain ⟨hpB, hplX⟩ := hpl.append
  obtain ⟨imem, _⟩ := hplX.instr (i := .member name) rfl
  have hnX : nI [((Instr.member name : SInstr), msp)] = 1 := rfl
  simp only [nI_append, hnX] at ⊢
  rw [evalPlace_member]
  have h1 := hPX0 A hA b spec ip stk mem lm scopes vm hl hwb hTb (hCB ▸ hpB) hrel hsp
  rw [hCB] at h1
  rcases heb : evalExpr G.cfg n b spec with ⟨r1, st1⟩
  rw [heb] at h1
  cases r1 with
  | error c1 => exact SimPl.of_error (SimGE.error_n _ h1)
  | ok bv =>
  obtain ⟨hfr1, mem1, ob, hrun1, hml1⟩ := h1
  simp only []
  have hmr := member_runs G A hA msp (ip + nI CB.1) stk mem1 st1 bv name ob imem
  have hshape := placeOfM_shape bv name msp st1
  rcases hp : placeOfM bv name st1 with ⟨rp, st1'⟩
  rw [hp] at hshape
  cases rp with
  | error cp =>
    apply SimPl.of_error
    cases cp <;> first | trivial | exact hshape.elim
  | ok pl =>
  obtain ⟨rfl, hvar, horg, cur, hmv, hread⟩ := hshape
  rw [hmv] at hmr
  simp only [horg] at hmr
  exact ⟨hfr1, hvar, mem1, cur, hread, (hrun1.trans hmr).cast (by omega), hml1⟩

/-- **`o.f = e` and `o.f op= e`**. -/
theorem memAssign_step (G : GCtx) (n : Nat) (hPX0 : PV G n) (hPX1 : PV G (n + 1))
    (A : Act) (hA : A.OK G) (loops : List (String × String)) (lscopes : CScopes) (d : Nat)
    (sp asp : Span) (op : Option InfixOp) (msp : Span) (mty : Ty) (b : Expr) (name : String) (r : Expr)
    (env : CEnv) (spec : St) (ip : Nat) (stk : List SVal) (mem : Mem)
    (hs : Frag.okFS G.fr (!loops.isEmpty) A.rt (.exprS sp (.assign asp op (.member msp mty b name .dot) r)) = true)
    (hT : ∀ x ∈ Frag.identsGS (.exprS sp (.assign asp op (.member msp mty b name .dot) r)), x ∈ A.T)
    (hws : Frag.wsGS G.mod A.src A.φ loops (.exprS sp (.assign asp op (.member msp mty b name .dot) r)) env = true)
    (hpl : Placed A.lab A.σ A.c ip
      (cgS G.mod A.src A.φ loops (.exprS sp (.assign asp op (.member msp mty b name .dot) r)) env).1)
    (hls : lscopes = env.scopes.drop d)
    (hrel : GRel G A env.scopes env.vm spec.scopes mem) (hsp : SpecOK G A.mp spec) :
    SimGS G A loops lscopes d ip
      (nI (cgS G.mod A.src A.φ loops (.exprS sp (.assign asp op (.member msp mty b name .dot) r)) env).1) stk mem
      (GRel G A (cgS G.mod A.src A.φ loops (.exprS sp (.assign asp op (.member msp mty b name .dot) r)) env).2.scopes
        (cgS G.mod A.src A.φ loops (.exprS sp (.assign asp op (.member msp mty b name .dot) r)) env).2.vm) spec
      (evalExpr G.cfg (n + 2) (.assign asp op (.member msp mty b name .dot) r) spec) := by
  simp only [okFS_memAssign, Bool.and_eq_true] at hs
  obtain ⟨⟨⟨hop, hl⟩, hr⟩, _⟩ := hs
  simp only [wsGS_memAssign, Bool.and_eq_true] at hws
  obtain ⟨hwl, hwr⟩ := hws
  simp only [identsGS_memAssign, List.mem_append] at hT
  rw [cgS_memAssign] at hpl ⊢
  have hplL := hpl.append.1.append.1.append.1.append.1
  exact placeAssign_step G n hPX1 A hA loops lscopes d asp op _ r _ env spec ip stk mem hop hr hwr
    (fun x hx => hT x (Or.inr hx)) hpl hls hrel hsp
    (member_place G n hPX0 A hA msp mty b name env.lm env.scopes env.vm spec ip stk mem hl hwl
      (fun x hx => hT x (Or.inl hx)) hplL hrel.rel hsp)

theorem SimGS.exprS {G : GCtx} {A : Act} {loops lscopes d ip n stk mem Q st} (r : Except Ctl Val × St) :
    SimGS G A loops lscopes d ip n stk mem Q st r →
    SimGS (α := Unit) G A loops lscopes d ip n stk mem Q st
      (match r with
        | (.ok _, st1) => (.ok (), st1)
        | (.error c, st1) => (.error c, st1)) := by
  obtain ⟨r1, st1⟩ := r
  cases r1 with
  | ok v => exact fun h => h
  | error c => intro h; cases c <;> exact h

end HmsProofs.Sim
