import HmsProofs.Lemmas.SimHDefs
import HmsProofs.Lemmas.SimHExecH
/-!
# Machine states across activations

`mkS s calls mp k stk mem out`: the state reached from the base state `s` after `k` more
instructions, with the given call stack, memory pointer, operand stack, memory and output;
everything else (heap, globals, handlers, iterators) is that of `s`. Inside one activation
`⟨fn, ip⟩ :: rest` this is the `reach` of the earlier lemmas over the base `baseOf s fn rest mp out`.
-/
namespace HmsProofs.Sim
open Hms.Core Hms.Core.Comp Hms.Core.VM

/-- What a run changes outside the frames: the heap and the output buffer. -/
structure World where
  heap : Array Cell
  out : String

/-- The world of a specification state. -/
def _root_.Hms.Core.St.world (st : St) : World := ⟨st.heap, st.out⟩

def mkS (s : VMState) (calls : List Frame) (mp : Int) (k : Nat) (stk : List SVal) (mem : List (Int × Val))
    (out : World) : VMState :=
  { s with calls := calls, mp := mp, steps := s.steps + k, stack := stk, mem := mem,
           st := { s.st with heap := out.heap, out := out.out } }

def baseOf (s : VMState) (fn : String) (rest : List Frame) (mp : Int) (out : World) : VMState :=
  { s with calls := ⟨fn, 0⟩ :: rest, mp := mp, st := { s.st with heap := out.heap, out := out.out } }

theorem mkS_eq_reach (s : VMState) (fn : String) (ip : Nat) (rest : List Frame) (mp : Int) (k : Nat)
    (stk : List SVal) (mem : List (Int × Val)) (out : World) :
    mkS s (⟨fn, ip⟩ :: rest) mp k stk mem out = reach (baseOf s fn rest mp out) ip k stk mem := rfl

/-! ## Iterators

The iterator table of the VM (`iters`, `nextIter`) is changed by `for` loops only. Runs are stated
for every iterator table the base state may carry (`withIt s it`), and end in some table `it'`
with `ItR fr it it'`: without `for` loops (`fr = false`) the same table, otherwise one in which
the iterators that existed before are untouched. -/

structure ItSt where
  iters : List (Nat × List Val)
  next : Nat

def withIt (s : VMState) (it : ItSt) : VMState := { s with iters := it.iters, nextIter := it.next }
def itOf (s : VMState) : ItSt := ⟨s.iters, s.nextIter⟩
theorem withIt_itOf (s : VMState) : withIt s (itOf s) = s := rfl

/-- Iterators allocated before (`id < it.next`) are untouched. -/
def ItLe (it it' : ItSt) : Prop := it.next ≤ it'.next ∧ ∀ j, j < it.next → it'.iters.lookup j = it.iters.lookup j

theorem ItLe.refl (it : ItSt) : ItLe it it := ⟨Nat.le_refl _, fun _ _ => rfl⟩
theorem ItLe.trans {a b c : ItSt} (h1 : ItLe a b) (h2 : ItLe b c) : ItLe a c :=
  ⟨Nat.le_trans h1.1 h2.1, fun j hj => (h2.2 j (Nat.lt_of_lt_of_le hj h1.1)).trans (h1.2 j hj)⟩

def ItR (fr : Bool) (it it' : ItSt) : Prop := if fr then ItLe it it' else it' = it

theorem ItR.refl (fr : Bool) (it : ItSt) : ItR fr it it := by
  unfold ItR; split
  · exact ItLe.refl it
  · rfl

theorem ItR.trans {fr : Bool} {a b c : ItSt} (h1 : ItR fr a b) (h2 : ItR fr b c) : ItR fr a c := by
  unfold ItR at *
  split
  · rename_i h; simp only [h, if_true] at h1 h2; exact h1.trans h2
  · rename_i h; simp only [h, if_false] at h1 h2; rw [h2, h1]

theorem ItR.eq {a b : ItSt} (h : ItR false a b) : b = a := h

theorem ItR.of_le {fr : Bool} {a b : ItSt} (hfr : fr = true) (h : ItLe a b) : ItR fr a b := by
  unfold ItR; simp only [hfr, if_true]; exact h

/-- **The memory of the VM as the simulation threads it**: the cells and the iterator table. -/
structure Mem where
  cells : List (Int × Val)
  it : ItSt

instance : Coe Mem (List (Int × Val)) := ⟨Mem.cells⟩

def Mem.set (m : Mem) (a : Int) (v : Val) : Mem := { m with cells := memSetL m.cells a v }

@[simp] theorem Mem.set_cells (m : Mem) (a : Int) (v : Val) : (m.set a v).cells = memSetL m.cells a v := rfl
@[simp] theorem Mem.set_it (m : Mem) (a : Int) (v : Val) : (m.set a v).it = m.it := rfl

/-- The state with the cells and the iterator table of `m`. -/
def mkSI (s : VMState) (calls : List Frame) (mp : Int) (k : Nat) (stk : List SVal) (m : Mem) (out : World) : VMState :=
  mkS (withIt s m.it) calls mp k stk m.cells out

theorem mkSI_own (s : VMState) (calls : List Frame) (mp : Int) (k : Nat) (stk : List SVal)
    (mem : List (Int × Val)) (out : World) : mkSI s calls mp k stk ⟨mem, itOf s⟩ out = mkS s calls mp k stk mem out := rfl

/-- **The heap invariant** the simulation threads along every run: no object cell has a data field named
like a builtin method (on such an object `o.len()` would call the field's value instead of the method). -/
def HeapInv (h : Array Cell) : Prop :=
  ∀ (a : Nat) (fs : List (String × Val)), h[a]? = some (Cell.obj fs) → ∀ k ∈ methNames, fs.lookup k = none

/-- Inside the activation `⟨fn, ·⟩ :: rest` with memory pointer `mp`: from `(ip, stk, mem, out)`
the VM gets to `(ip', stk', mem', out')` without interrupt or panic, and the heap invariant is
kept. (`fr` is only carried along.) -/
structure Runs (_fr : Bool) (code : Code) (lim : Limits) (s : VMState) (fn : String) (rest : List Frame) (mp : Int)
    (ip : Nat) (stk : List SVal) (mem : Mem) (out : World)
    (ip' : Nat) (stk' : List SVal) (mem' : Mem) (out' : World) : Prop where
  run : ∀ k, ∃ k', execHN code lim k' (mkSI s (⟨fn, ip⟩ :: rest) mp k stk mem out) =
    .next (mkSI s (⟨fn, ip'⟩ :: rest) mp (k + k') stk' mem' out')
  inv : HeapInv out.heap → HeapInv out'.heap

instance {fr code lim s fn rest mp ip stk mem out ip' stk' mem' out'} :
    CoeFun (Runs fr code lim s fn rest mp ip stk mem out ip' stk' mem' out')
      (fun _ => ∀ k, ∃ k', execHN code lim k' (mkSI s (⟨fn, ip⟩ :: rest) mp k stk mem out) =
        .next (mkSI s (⟨fn, ip'⟩ :: rest) mp (k + k') stk' mem' out')) := ⟨Runs.run⟩

/-- … runs into the fatal interrupt `(kd, msg, sp)` having produced the output `out'`. -/
def RunsF (code : Code) (lim : Limits) (s : VMState) (fn : String) (rest : List Frame) (mp : Int)
    (ip : Nat) (stk : List SVal) (mem : Mem) (out : World)
    (kd msg : String) (sp : Span) (out' : World) : Prop :=
  ∀ k, ∃ k' s', execHN code lim k' (mkSI s (⟨fn, ip⟩ :: rest) mp k stk mem out) = .intr (.fatal kd msg sp) s' ∧
    s'.st = { s.st with heap := out'.heap, out := out'.out } ∧ s'.globals = s.globals

section
variable {fr : Bool} {code : Code} {lim : Limits} {s : VMState} {fn : String} {rest : List Frame} {mp : Int}

theorem Runs.refl (ip stk mem out) : Runs fr code lim s fn rest mp ip stk mem out ip stk mem out :=
  ⟨fun _ => ⟨0, rfl⟩, id⟩

theorem Runs.trans {ip stk mem out ip1 stk1 mem1 out1 ip2 stk2 mem2 out2}
    (h1 : Runs fr code lim s fn rest mp ip stk mem out ip1 stk1 mem1 out1)
    (h2 : Runs fr code lim s fn rest mp ip1 stk1 mem1 out1 ip2 stk2 mem2 out2) :
    Runs fr code lim s fn rest mp ip stk mem out ip2 stk2 mem2 out2 := by
  refine ⟨fun k => ?_, fun h => h2.inv (h1.inv h)⟩
  obtain ⟨k1, e1⟩ := h1 k
  obtain ⟨k2, e2⟩ := h2 (k + k1)
  refine ⟨k1 + k2, ?_⟩
  rw [execHN_add, e1]
  simp only [e2, Nat.add_assoc]

theorem Runs.fatal {ip stk mem out ip1 stk1 mem1 out1 kd msg sp out2}
    (h1 : Runs fr code lim s fn rest mp ip stk mem out ip1 stk1 mem1 out1)
    (h2 : RunsF code lim s fn rest mp ip1 stk1 mem1 out1 kd msg sp out2) :
    RunsF code lim s fn rest mp ip stk mem out kd msg sp out2 := by
  intro k
  obtain ⟨k1, e1⟩ := h1 k
  obtain ⟨k2, s', e2, hs⟩ := h2 (k + k1)
  refine ⟨k1 + k2, s', ?_, hs⟩
  rw [execHN_add, e1]
  simp only [e2]

theorem Runs.cast {ip stk mem out ip' stk' mem' out' ip''}
    (h : Runs fr code lim s fn rest mp ip stk mem out ip' stk' mem' out') (e : ip' = ip'') :
    Runs fr code lim s fn rest mp ip stk mem out ip'' stk' mem' out' := e ▸ h

/-- Runs of the single-activation lemmas (`RunsTo` over the base state) are `Runs`; the iterator
table is untouched. -/
theorem Runs.of_runsTo {ip stk} {mem : Mem} {out ip' stk'} {cells' : List (Int × Val)}
    (h : ∀ it, RunsTo code lim (baseOf (withIt s it) fn rest mp out) ip stk mem.cells ip' stk' cells') :
    Runs fr code lim s fn rest mp ip stk mem out ip' stk' ⟨cells', mem.it⟩ out := ⟨fun k => by
  obtain ⟨k', e⟩ := h mem.it k
  exact ⟨k', execHN_of_execN code lim k' _ _ e⟩, id⟩

theorem RunsF.of_runsFatal {ip stk} {mem : Mem} {out kd msg sp}
    (h : ∀ it, RunsFatal code lim (baseOf (withIt s it) fn rest mp out) ip stk mem.cells kd msg sp) :
    RunsF code lim s fn rest mp ip stk mem out kd msg sp out := by
  intro k
  obtain ⟨k', s', e, h1, _, h3, _⟩ := h mem.it k
  exact ⟨k', s', execHN_of_execN_fatal code lim k' _ _ _ _ _ e, h1, h3⟩

theorem Runs.of_exec1 {ip stk} {mem : Mem} {out ip' stk'} {cells' : List (Int × Val)}
    (h : ∀ it k, exec1 code lim (mkS (withIt s it) (⟨fn, ip⟩ :: rest) mp k stk mem.cells out) =
      .next (mkS (withIt s it) (⟨fn, ip'⟩ :: rest) mp (k + 1) stk' cells' out)) :
    Runs fr code lim s fn rest mp ip stk mem out ip' stk' ⟨cells', mem.it⟩ out :=
  ⟨fun k => ⟨1, by rw [execHN_one]; exact exec1H_of_next (h mem.it k)⟩, id⟩

/-- A step that changes the world: the heap invariant has to be kept. -/
theorem Runs.of_exec1W {ip stk} {mem : Mem} {out ip' stk'} {cells' : List (Int × Val)} {out'}
    (h : ∀ it k, exec1 code lim (mkS (withIt s it) (⟨fn, ip⟩ :: rest) mp k stk mem.cells out) =
      .next (mkS (withIt s it) (⟨fn, ip'⟩ :: rest) mp (k + 1) stk' cells' out'))
    (hinv : HeapInv out.heap → HeapInv out'.heap) :
    Runs fr code lim s fn rest mp ip stk mem out ip' stk' ⟨cells', mem.it⟩ out' :=
  ⟨fun k => ⟨1, by rw [execHN_one]; exact exec1H_of_next (h mem.it k)⟩, hinv⟩
end

/-- Memory cells up to `b` are the same. -/
def CellsLe (b : Int) (mem mem' : List (Int × Val)) : Prop := ∀ a, a ≤ b → mem'.lookup a = mem.lookup a

theorem CellsLe.refl (b mem) : CellsLe b mem mem := fun _ _ => rfl
theorem CellsLe.trans {b mem mem1 mem2} (h1 : CellsLe b mem mem1) (h2 : CellsLe b mem1 mem2) : CellsLe b mem mem2 :=
  fun a ha => (h2 a ha).trans (h1 a ha)
theorem CellsLe.mono {b b' mem mem'} (h : CellsLe b mem mem') (hb : b' ≤ b) : CellsLe b' mem mem' :=
  fun a ha => h a (by omega)
theorem CellsLe.set (b : Int) (mem : List (Int × Val)) (a : Int) (v : Val) (h : b < a) :
    CellsLe b mem (memSetL mem a v) := by
  intro a' ha'
  rw [lookup_memSet, if_neg (by omega)]

/-- Memory cells up to `b` are the same, and the iterator table developed as `ItR fr` allows. -/
structure MemLe (fr : Bool) (b : Int) (mem mem' : Mem) : Prop where
  cells : CellsLe b mem.cells mem'.cells
  it : ItR fr mem.it mem'.it

theorem MemLe.refl (fr b mem) : MemLe fr b mem mem := ⟨CellsLe.refl _ _, ItR.refl _ _⟩
theorem MemLe.trans {fr b mem mem1 mem2} (h1 : MemLe fr b mem mem1) (h2 : MemLe fr b mem1 mem2) : MemLe fr b mem mem2 :=
  ⟨h1.cells.trans h2.cells, h1.it.trans h2.it⟩
theorem MemLe.mono {fr b b' mem mem'} (h : MemLe fr b mem mem') (hb : b' ≤ b) : MemLe fr b' mem mem' :=
  ⟨h.cells.mono hb, h.it⟩
theorem MemLe.set (fr : Bool) (b : Int) (mem : Mem) (a : Int) (v : Val) (h : b < a) :
    MemLe fr b mem (mem.set a v) := ⟨CellsLe.set _ _ _ _ h, ItR.refl _ _⟩

/-! ## Instructions that change the activation -/

theorem fetch_mkS (code : Code) (s : VMState) (fn : String) (ip : Nat) (rest : List Frame) (mp : Int) (k : Nat)
    (stk : List SVal) (mem : List (Int × Val)) (out : World) (c : List (RInstr × Span)) (x : RInstr × Span)
    (hf : findCode code fn = some c) (hx : c[ip]? = some x) :
    fetch code (mkS s (⟨fn, ip⟩ :: rest) mp k stk mem out) = some x := by
  unfold fetch mkS
  simp [hf, hx]

section Acts
variable (code : Code) (lim : Limits) (s : VMState) (fn : String) (ip : Nat) (rest : List Frame) (mp : Int)
variable (k : Nat) (stk : List SVal) (mem : List (Int × Val)) (out : World) (c : List (RInstr × Span))
variable (hf : findCode code fn = some c)
include hf

theorem mkS_callImm (g : String) (sp : Span) (hx : c[ip]? = some (.callImm g, sp)) :
    exec1 code lim (mkS s (⟨fn, ip⟩ :: rest) mp k stk mem out) =
      .next (mkS s (⟨g, 0⟩ :: ⟨fn, ip + 1⟩ :: rest) mp (k + 1) stk mem out) := by
  have hfe := fetch_mkS code s fn ip rest mp k stk mem out c _ hf hx
  unfold exec1
  rw [hfe]
  rfl

theorem mkS_ret (sp : Span) (hx : c[ip]? = some (.ret, sp)) :
    exec1 code lim (mkS s (⟨fn, ip⟩ :: rest) mp k stk mem out) = .next (mkS s rest mp (k + 1) stk mem out) := by
  have hfe := fetch_mkS code s fn ip rest mp k stk mem out c _ hf hx
  unfold exec1
  rw [hfe]
  rfl

theorem mkS_addMp (n : Int) (sp : Span) (hx : c[ip]? = some (.addMp n, sp)) (hlim : mp + n < (lim.memory : Int)) :
    exec1 code lim (mkS s (⟨fn, ip⟩ :: rest) mp k stk mem out) =
      .next (mkS s (⟨fn, ip + 1⟩ :: rest) (mp + n) (k + 1) stk mem out) := by
  have hfe := fetch_mkS code s fn ip rest mp k stk mem out c _ hf hx
  rw [exec1_addMp code lim (mkS s (⟨fn, ip⟩ :: rest) mp k stk mem out) ⟨fn, ip⟩ rest n sp rfl hfe hlim]
  simp only [mkS, Nat.add_assoc]

theorem mkS_getGlob_builtin (name : String) (sp : Span) (hx : c[ip]? = some (.getGlob name, sp))
    (hg : s.globals.lookup name = none) (hb : builtinNames.contains name = true) :
    exec1 code lim (mkS s (⟨fn, ip⟩ :: rest) mp k stk mem out) =
      .next (mkS s (⟨fn, ip + 1⟩ :: rest) mp (k + 1) (⟨.builtin name, none⟩ :: stk) mem out) := by
  have hfe := fetch_mkS code s fn ip rest mp k stk mem out c _ hf hx
  unfold exec1
  rw [hfe]
  simp only [step, mkS, hg, hb, if_true]
  rfl
end Acts

/-! ## `println` -/

/-- What `println` appends for the values `vals` (`none`: a value the model cannot display). -/
def printText (heap : Array Cell) (vals : List Val) : Option String :=
  (vals.mapM (display heap 1000000)).map fun ds => " ".intercalate ds ++ "\n"

theorem displayM_run (v : Val) (st : St) :
    displayM v st = match display st.heap 1000000 v with
      | some d => (.ok d, st)
      | none => (.error (.unsupported "display of this value"), st) := by
  unfold displayM
  rw [M_bind, M_get]
  simp only []
  cases display st.heap 1000000 v <;> rfl

theorem mapM_displayM_run (vals : List Val) (st : St) :
    (vals.mapM displayM : M (List String)) st = match vals.mapM (display st.heap 1000000) with
      | some ds => (.ok ds, st)
      | none => (.error (.unsupported "display of this value"), st) := by
  induction vals with
  | nil => rfl
  | cons v vs ih =>
    rw [List.mapM_cons, List.mapM_cons, M_bind, displayM_run]
    cases hd : display st.heap 1000000 v with
    | none => rfl
    | some d =>
      simp only []
      rw [M_bind, ih]
      cases hds : vs.mapM (display st.heap 1000000) with
      | none => rfl
      | some ds => rfl

theorem println_run (vals : List Val) (sp : Span) (st : St) :
    callBuiltin "println" vals sp st = match printText st.heap vals with
      | some t => (.ok .null, { st with out := st.out ++ t })
      | none => (.error (.unsupported "display of this value"), st) := by
  show ((vals.mapM displayM >>= fun ds => Hms.Core.emit (" ".intercalate ds ++ "\n") >>= fun _ => pure Val.null) : M Val) st = _
  rw [M_bind, mapM_displayM_run]
  unfold printText
  cases vals.mapM (display st.heap 1000000) with
  | none => rfl
  | some ds => rfl

theorem throw_run (v : Val) (sp : Span) (st : St) :
    callBuiltin "throw" [v] sp st = match display st.heap 1000000 v with
      | some d => (.error (.throw d sp), st)
      | none => (.error (.unsupported "display of this value"), st) := by
  show ((displayM v >>= fun d => throwCtl (.throw d sp)) : M Val) st = _
  rw [M_bind, displayM_run]
  cases display st.heap 1000000 v <;> rfl

theorem popN_append (t : VMState) (svs stk : List SVal) (h : t.stack = svs ++ stk) :
    popN svs.length t = some (svs.map (·.v), { t with stack := stk }) := by
  induction svs generalizing t with
  | nil =>
    simp only [List.nil_append] at h
    simp only [List.length_nil, popN, List.map_nil]
    rw [← h]
  | cons x svs ih =>
    simp only [List.length_cons, popN, pop1, h, List.cons_append]
    have := ih { t with stack := svs ++ stk } rfl
    simp only [Option.bind_eq_bind, Option.bind_some, this]
    rfl

theorem ofInt_toNat (n : Nat) (h : n < 2 ^ 64) : (I64.ofInt (n : Int)).toNat = n := by
  unfold I64.ofInt
  rw [BitVec.toNat_ofInt]
  have : ((n : Int) % (2 ^ 64 : Nat)).toNat = n := by
    have h1 : (n : Int) % ((2 ^ 64 : Nat) : Int) = (n : Int) := Int.emod_eq_of_lt (by omega) (by exact_mod_cast h)
    rw [h1]; rfl
  simpa using this

/-- `println` of the values on top of the stack. -/
theorem mkS_callVal_println (code : Code) (lim : Limits) (s : VMState) (fn : String) (ip : Nat) (rest : List Frame)
    (mp : Int) (k : Nat) (stk : List SVal) (mem : List (Int × Val)) (out : World) (c : List (RInstr × Span))
    (hf : findCode code fn = some c) (sp : Span) (svs : List SVal) (o1 o2 : Option Org) (t : String)
    (hx : c[ip]? = some (.callVal, sp)) (hn : svs.length < 2 ^ 64)
    (ht : printText out.heap (svs.map (·.v)) = some t) :
    exec1 code lim (mkS s (⟨fn, ip⟩ :: rest) mp k
        (⟨.int (I64.ofInt (svs.length : Int)), o1⟩ :: ⟨.builtin "println", o2⟩ :: (svs ++ stk)) mem out) =
      .next (mkS s (⟨fn, ip + 1⟩ :: rest) mp (k + 1) stk mem ⟨out.heap, out.out ++ t⟩) := by
  have hfe := fetch_mkS code s fn ip rest mp k
    (⟨.int (I64.ofInt (svs.length : Int)), o1⟩ :: ⟨.builtin "println", o2⟩ :: (svs ++ stk)) mem out c _ hf hx
  unfold exec1
  rw [hfe]
  simp only [step, mkS, ofInt_toNat _ hn]
  rw [popN_append _ svs stk rfl]
  simp only [runM, println_run, ht]
  simp only [advance, Nat.add_assoc]

/-! ## `try` / `throw` -/

/-- The base state with another handler stack. -/
def withH (s : VMState) (hs : List Handler) : VMState := { s with handlers := hs }

theorem mkS_setTry (code : Code) (lim : Limits) (s : VMState) (fn : String) (ip : Nat) (rest : List Frame)
    (mp : Int) (k : Nat) (stk : List SVal) (mem : List (Int × Val)) (out : World) (c : List (RInstr × Span))
    (hf : findCode code fn = some c) (tfn : String) (l : Nat) (sp : Span)
    (hx : c[ip]? = some (.setTry tfn l, sp)) :
    exec1 code lim (mkS s (⟨fn, ip⟩ :: rest) mp k stk mem out) =
      .next (mkS (withH s (⟨⟨tfn, l⟩, rest.length + 1, stk.length, mp⟩ :: s.handlers)) (⟨fn, ip + 1⟩ :: rest) mp
        (k + 1) stk mem out) := by
  have hfe := fetch_mkS code s fn ip rest mp k stk mem out c _ hf hx
  unfold exec1
  rw [hfe]
  simp only [step, mkS, withH, advance, List.length_cons, Nat.add_assoc]

theorem mkS_popTry (code : Code) (lim : Limits) (s : VMState) (fn : String) (ip : Nat) (rest : List Frame)
    (mp : Int) (k : Nat) (stk : List SVal) (mem : List (Int × Val)) (out : World) (c : List (RInstr × Span))
    (hf : findCode code fn = some c) (sp : Span) (h : Handler) (hs : List Handler)
    (hx : c[ip]? = some (.popTry, sp)) :
    exec1 code lim (mkS (withH s (h :: hs)) (⟨fn, ip⟩ :: rest) mp k stk mem out) =
      .next (mkS (withH s hs) (⟨fn, ip + 1⟩ :: rest) mp (k + 1) stk mem out) := by
  have hfe := fetch_mkS code (withH s (h :: hs)) fn ip rest mp k stk mem out c _ hf hx
  unfold exec1
  rw [hfe]
  simp only [step, mkS, withH, advance, Nat.add_assoc]

/-- The `throw` instruction: the message is displayed and the interrupt raised. -/
theorem mkS_throw (code : Code) (lim : Limits) (s : VMState) (fn : String) (ip : Nat) (rest : List Frame)
    (mp : Int) (k : Nat) (stk : List SVal) (mem : List (Int × Val)) (out : World) (c : List (RInstr × Span))
    (hf : findCode code fn = some c) (sp : Span) (v : Val) (o : Option Org) (d : String)
    (hx : c[ip]? = some (.throw, sp)) (hd : display out.heap 1000000 v = some d) :
    exec1 code lim (mkS s (⟨fn, ip⟩ :: rest) mp k (⟨v, o⟩ :: stk) mem out) =
      .intr (.throw d sp) (mkS s (⟨fn, ip + 1⟩ :: rest) mp (k + 1) stk mem out) := by
  have hfe := fetch_mkS code s fn ip rest mp k (⟨v, o⟩ :: stk) mem out c _ hf hx
  unfold exec1
  rw [hfe]
  simp only [step, mkS, pop1, runM, displayM_run, hd, advance, Nat.add_assoc]

/-- **Exception dispatch.** The newest handler was installed in the activation `⟨·, ·⟩ :: rest`
with operand stack `stk` and memory pointer `hmp`; the exception is raised `frames'` activations
deeper with `xs` more operands: the VM continues at the handler's target in that activation, with
the error object (freshly allocated) on the operand stack `stk`. -/
theorem dispatch_mkS (s : VMState) (tfn : String) (tl : Nat) (hmp : Int) (hs : List Handler)
    (frames' : List Frame) (f : Frame) (rest : List Frame) (mp' : Int) (K : Nat) (xs stk : List SVal)
    (mem' : List (Int × Val)) (w' : World) (msg : String) (tsp : Span) :
    dispatch msg tsp (mkS (withH s (⟨⟨tfn, tl⟩, rest.length + 1, stk.length, hmp⟩ :: hs)) (frames' ++ f :: rest) mp' K
        (xs ++ stk) mem' w') =
      .next (mkS (withH s (⟨⟨tfn, tl⟩, rest.length + 1, stk.length, hmp⟩ :: hs)) (⟨tfn, tl⟩ :: rest) hmp K
        (⟨.ref w'.heap.size, none⟩ :: stk) mem' ⟨w'.heap.push (errCell msg tsp), w'.out⟩) := by
  unfold dispatch
  simp only [mkS, withH]
  have h1 : (frames' ++ f :: rest).length - (rest.length + 1) = frames'.length := by
    simp only [List.length_append, List.length_cons]; omega
  have h2 : (xs ++ stk).length - stk.length = xs.length := by
    simp only [List.length_append]; omega
  simp only [h1, h2, List.drop_left]
  rfl

/-! ## The same steps on `mkSI` states -/

theorem withH_withIt (s : VMState) (hs : List Handler) (it : ItSt) : withIt (withH s hs) it = withH (withIt s it) hs := rfl

theorem mkSI_withH (s : VMState) (hs : List Handler) (calls : List Frame) (mp : Int) (k : Nat) (stk : List SVal)
    (m : Mem) (out : World) : mkSI (withH s hs) calls mp k stk m out = mkS (withH (withIt s m.it) hs) calls mp k stk m.cells out := rfl

theorem mkSI_eq_reach (s : VMState) (fn : String) (ip : Nat) (rest : List Frame) (mp : Int) (k : Nat)
    (stk : List SVal) (m : Mem) (out : World) :
    mkSI s (⟨fn, ip⟩ :: rest) mp k stk m out = reach (baseOf (withIt s m.it) fn rest mp out) ip k stk m.cells := rfl

section ActsI
variable (code : Code) (lim : Limits) (s : VMState) (fn : String) (ip : Nat) (rest : List Frame) (mp : Int)
variable (k : Nat) (stk : List SVal) (mem : Mem) (out : World) (c : List (RInstr × Span))
variable (hf : findCode code fn = some c)
include hf

theorem mkSI_callImm (g : String) (sp : Span) (hx : c[ip]? = some (.callImm g, sp)) :
    exec1 code lim (mkSI s (⟨fn, ip⟩ :: rest) mp k stk mem out) =
      .next (mkSI s (⟨g, 0⟩ :: ⟨fn, ip + 1⟩ :: rest) mp (k + 1) stk mem out) :=
  mkS_callImm code lim (withIt s mem.it) fn ip rest mp k stk mem.cells out c hf g sp hx

theorem mkSI_ret (sp : Span) (hx : c[ip]? = some (.ret, sp)) :
    exec1 code lim (mkSI s (⟨fn, ip⟩ :: rest) mp k stk mem out) = .next (mkSI s rest mp (k + 1) stk mem out) :=
  mkS_ret code lim (withIt s mem.it) fn ip rest mp k stk mem.cells out c hf sp hx

theorem mkSI_addMp (n : Int) (sp : Span) (hx : c[ip]? = some (.addMp n, sp)) (hlim : mp + n < (lim.memory : Int)) :
    exec1 code lim (mkSI s (⟨fn, ip⟩ :: rest) mp k stk mem out) =
      .next (mkSI s (⟨fn, ip + 1⟩ :: rest) (mp + n) (k + 1) stk mem out) :=
  mkS_addMp code lim (withIt s mem.it) fn ip rest mp k stk mem.cells out c hf n sp hx hlim

theorem mkSI_setTry (tfn : String) (l : Nat) (sp : Span) (hx : c[ip]? = some (.setTry tfn l, sp)) :
    exec1 code lim (mkSI s (⟨fn, ip⟩ :: rest) mp k stk mem out) =
      .next (mkSI (withH s (⟨⟨tfn, l⟩, rest.length + 1, stk.length, mp⟩ :: s.handlers)) (⟨fn, ip + 1⟩ :: rest) mp
        (k + 1) stk mem out) :=
  mkS_setTry code lim (withIt s mem.it) fn ip rest mp k stk mem.cells out c hf tfn l sp hx

theorem mkSI_popTry (sp : Span) (h : Handler) (hs : List Handler) (hx : c[ip]? = some (.popTry, sp)) :
    exec1 code lim (mkSI (withH s (h :: hs)) (⟨fn, ip⟩ :: rest) mp k stk mem out) =
      .next (mkSI (withH s hs) (⟨fn, ip + 1⟩ :: rest) mp (k + 1) stk mem out) :=
  mkS_popTry code lim (withIt s mem.it) fn ip rest mp k stk mem.cells out c hf sp h hs hx

theorem mkSI_throw (sp : Span) (v : Val) (o : Option Org) (d : String)
    (hx : c[ip]? = some (.throw, sp)) (hd : display out.heap 1000000 v = some d) :
    exec1 code lim (mkSI s (⟨fn, ip⟩ :: rest) mp k (⟨v, o⟩ :: stk) mem out) =
      .intr (.throw d sp) (mkSI s (⟨fn, ip + 1⟩ :: rest) mp (k + 1) stk mem out) :=
  mkS_throw code lim (withIt s mem.it) fn ip rest mp k stk mem.cells out c hf sp v o d hx hd
end ActsI

theorem dispatch_mkSI (s : VMState) (tfn : String) (tl : Nat) (hmp : Int) (hs : List Handler)
    (frames' : List Frame) (f : Frame) (rest : List Frame) (mp' : Int) (K : Nat) (xs stk : List SVal)
    (mem' : Mem) (w' : World) (msg : String) (tsp : Span) :
    dispatch msg tsp (mkSI (withH s (⟨⟨tfn, tl⟩, rest.length + 1, stk.length, hmp⟩ :: hs)) (frames' ++ f :: rest) mp' K
        (xs ++ stk) mem' w') =
      .next (mkSI (withH s (⟨⟨tfn, tl⟩, rest.length + 1, stk.length, hmp⟩ :: hs)) (⟨tfn, tl⟩ :: rest) hmp K
        (⟨.ref w'.heap.size, none⟩ :: stk) mem' ⟨w'.heap.push (errCell msg tsp), w'.out⟩) :=
  dispatch_mkS (withIt s mem'.it) tfn tl hmp hs frames' f rest mp' K xs stk mem'.cells w' msg tsp

end HmsProofs.Sim
