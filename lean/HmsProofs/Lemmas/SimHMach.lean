import HmsProofs.Lemmas.SimHDefs
import HmsProofs.Lemmas.SimHExecH
/-!
# Machine states across activations

`mkS s calls mp k stk mem out`: the state reached from the base state `s` after `k` more
instructions, with the given call stack, memory pointer, operand stack, memory and output;
everything else (heap, globals, handlers, iterators) is that of `s`. Inside one activation
`⟨fn, ip⟩ :: rest` this is the `reach` of the earlier lemmas over the base `baseOf s fn rest mp out`.
-/
namespace HmsProofs.Sim
open Hms.Core Hms.Core.Comp Hms.Core.VM

/-- What a run changes outside the frames: the heap and the output buffer. -/
structure World where
  heap : Array Cell
  out : String

/-- The world of a specification state. -/
def _root_.Hms.Core.St.world (st : St) : World := ⟨st.heap, st.out⟩

def mkS (s : VMState) (calls : List Frame) (mp : Int) (k : Nat) (stk : List SVal) (mem : List (Int × Val))
    (out : World) : VMState :=
  { s with calls := calls, mp := mp, steps := s.steps + k, stack := stk, mem := mem,
           st := { s.st with heap := out.heap, out := out.out } }

def baseOf (s : VMState) (fn : String) (rest : List Frame) (mp : Int) (out : World) : VMState :=
  { s with calls := ⟨fn, 0⟩ :: rest, mp := mp, st := { s.st with heap := out.heap, out := out.out } }

theorem mkS_eq_reach (s : VMState) (fn : String) (ip : Nat) (rest : List Frame) (mp : Int) (k : Nat)
    (stk : List SVal) (mem : List (Int × Val)) (out : World) :
    mkS s (⟨fn, ip⟩ :: rest) mp k stk mem out = reach (baseOf s fn rest mp out) ip k stk mem := rfl

/-- Inside the activation `⟨fn, ·⟩ :: rest` with memory pointer `mp`: from `(ip, stk, mem, out)`
the VM gets to `(ip', stk', mem', out')` without interrupt or panic. -/
def Runs (code : Code) (lim : Limits) (s : VMState) (fn : String) (rest : List Frame) (mp : Int)
    (ip : Nat) (stk : List SVal) (mem : List (Int × Val)) (out : World)
    (ip' : Nat) (stk' : List SVal) (mem' : List (Int × Val)) (out' : World) : Prop :=
  ∀ k, ∃ k', execHN code lim k' (mkS s (⟨fn, ip⟩ :: rest) mp k stk mem out) =
    .next (mkS s (⟨fn, ip'⟩ :: rest) mp (k + k') stk' mem' out')

/-- … runs into the fatal interrupt `(kd, msg, sp)` having produced the output `out'`. -/
def RunsF (code : Code) (lim : Limits) (s : VMState) (fn : String) (rest : List Frame) (mp : Int)
    (ip : Nat) (stk : List SVal) (mem : List (Int × Val)) (out : World)
    (kd msg : String) (sp : Span) (out' : World) : Prop :=
  ∀ k, ∃ k' s', execHN code lim k' (mkS s (⟨fn, ip⟩ :: rest) mp k stk mem out) = .intr (.fatal kd msg sp) s' ∧
    s'.st = { s.st with heap := out'.heap, out := out'.out } ∧ s'.globals = s.globals

section
variable {code : Code} {lim : Limits} {s : VMState} {fn : String} {rest : List Frame} {mp : Int}

theorem Runs.refl (ip stk mem out) : Runs code lim s fn rest mp ip stk mem out ip stk mem out :=
  fun _ => ⟨0, rfl⟩

theorem Runs.trans {ip stk mem out ip1 stk1 mem1 out1 ip2 stk2 mem2 out2}
    (h1 : Runs code lim s fn rest mp ip stk mem out ip1 stk1 mem1 out1)
    (h2 : Runs code lim s fn rest mp ip1 stk1 mem1 out1 ip2 stk2 mem2 out2) :
    Runs code lim s fn rest mp ip stk mem out ip2 stk2 mem2 out2 := by
  intro k
  obtain ⟨k1, e1⟩ := h1 k
  obtain ⟨k2, e2⟩ := h2 (k + k1)
  refine ⟨k1 + k2, ?_⟩
  rw [execHN_add, e1]
  simp only [e2, Nat.add_assoc]

theorem Runs.fatal {ip stk mem out ip1 stk1 mem1 out1 kd msg sp out2}
    (h1 : Runs code lim s fn rest mp ip stk mem out ip1 stk1 mem1 out1)
    (h2 : RunsF code lim s fn rest mp ip1 stk1 mem1 out1 kd msg sp out2) :
    RunsF code lim s fn rest mp ip stk mem out kd msg sp out2 := by
  intro k
  obtain ⟨k1, e1⟩ := h1 k
  obtain ⟨k2, s', e2, hs⟩ := h2 (k + k1)
  refine ⟨k1 + k2, s', ?_, hs⟩
  rw [execHN_add, e1]
  simp only [e2]

theorem Runs.cast {ip stk mem out ip' stk' mem' out' ip''}
    (h : Runs code lim s fn rest mp ip stk mem out ip' stk' mem' out') (e : ip' = ip'') :
    Runs code lim s fn rest mp ip stk mem out ip'' stk' mem' out' := e ▸ h

/-- Runs of the single-activation lemmas (`RunsTo` over the base state) are `Runs`. -/
theorem Runs.of_runsTo {ip stk mem out ip' stk' mem'}
    (h : RunsTo code lim (baseOf s fn rest mp out) ip stk mem ip' stk' mem') :
    Runs code lim s fn rest mp ip stk mem out ip' stk' mem' out := fun k => by
  obtain ⟨k', e⟩ := h k
  exact ⟨k', execHN_of_execN code lim k' _ _ e⟩

theorem RunsF.of_runsFatal {ip stk mem out kd msg sp}
    (h : RunsFatal code lim (baseOf s fn rest mp out) ip stk mem kd msg sp) :
    RunsF code lim s fn rest mp ip stk mem out kd msg sp out := by
  intro k
  obtain ⟨k', s', e, h1, _, h3, _⟩ := h k
  exact ⟨k', s', execHN_of_execN_fatal code lim k' _ _ _ _ _ e, h1, h3⟩

theorem Runs.of_exec1 {ip stk mem out ip' stk' mem' out'}
    (h : ∀ k, exec1 code lim (mkS s (⟨fn, ip⟩ :: rest) mp k stk mem out) =
      .next (mkS s (⟨fn, ip'⟩ :: rest) mp (k + 1) stk' mem' out')) :
    Runs code lim s fn rest mp ip stk mem out ip' stk' mem' out' :=
  fun k => ⟨1, by rw [execHN_one]; exact exec1H_of_next (h k)⟩
end

/-- Memory cells up to `b` are the same. -/
def MemLe (b : Int) (mem mem' : List (Int × Val)) : Prop := ∀ a, a ≤ b → mem'.lookup a = mem.lookup a

theorem MemLe.refl (b mem) : MemLe b mem mem := fun _ _ => rfl
theorem MemLe.trans {b mem mem1 mem2} (h1 : MemLe b mem mem1) (h2 : MemLe b mem1 mem2) : MemLe b mem mem2 :=
  fun a ha => (h2 a ha).trans (h1 a ha)
theorem MemLe.mono {b b' mem mem'} (h : MemLe b mem mem') (hb : b' ≤ b) : MemLe b' mem mem' :=
  fun a ha => h a (by omega)
theorem MemLe.set (b : Int) (mem : List (Int × Val)) (a : Int) (v : Val) (h : b < a) :
    MemLe b mem (memSetL mem a v) := by
  intro a' ha'
  rw [lookup_memSet, if_neg (by omega)]

/-! ## Instructions that change the activation -/

theorem fetch_mkS (code : Code) (s : VMState) (fn : String) (ip : Nat) (rest : List Frame) (mp : Int) (k : Nat)
    (stk : List SVal) (mem : List (Int × Val)) (out : World) (c : List (RInstr × Span)) (x : RInstr × Span)
    (hf : findCode code fn = some c) (hx : c[ip]? = some x) :
    fetch code (mkS s (⟨fn, ip⟩ :: rest) mp k stk mem out) = some x := by
  unfold fetch mkS
  simp [hf, hx]

section Acts
variable (code : Code) (lim : Limits) (s : VMState) (fn : String) (ip : Nat) (rest : List Frame) (mp : Int)
variable (k : Nat) (stk : List SVal) (mem : List (Int × Val)) (out : World) (c : List (RInstr × Span))
variable (hf : findCode code fn = some c)
include hf

theorem mkS_callImm (g : String) (sp : Span) (hx : c[ip]? = some (.callImm g, sp)) :
    exec1 code lim (mkS s (⟨fn, ip⟩ :: rest) mp k stk mem out) =
      .next (mkS s (⟨g, 0⟩ :: ⟨fn, ip + 1⟩ :: rest) mp (k + 1) stk mem out) := by
  have hfe := fetch_mkS code s fn ip rest mp k stk mem out c _ hf hx
  unfold exec1
  rw [hfe]
  rfl

theorem mkS_ret (sp : Span) (hx : c[ip]? = some (.ret, sp)) :
    exec1 code lim (mkS s (⟨fn, ip⟩ :: rest) mp k stk mem out) = .next (mkS s rest mp (k + 1) stk mem out) := by
  have hfe := fetch_mkS code s fn ip rest mp k stk mem out c _ hf hx
  unfold exec1
  rw [hfe]
  rfl

theorem mkS_addMp (n : Int) (sp : Span) (hx : c[ip]? = some (.addMp n, sp)) (hlim : mp + n < (lim.memory : Int)) :
    exec1 code lim (mkS s (⟨fn, ip⟩ :: rest) mp k stk mem out) =
      .next (mkS s (⟨fn, ip + 1⟩ :: rest) (mp + n) (k + 1) stk mem out) := by
  have hfe := fetch_mkS code s fn ip rest mp k stk mem out c _ hf hx
  rw [exec1_addMp code lim (mkS s (⟨fn, ip⟩ :: rest) mp k stk mem out) ⟨fn, ip⟩ rest n sp rfl hfe hlim]
  simp only [mkS, Nat.add_assoc]

theorem mkS_getGlob_builtin (name : String) (sp : Span) (hx : c[ip]? = some (.getGlob name, sp))
    (hg : s.globals.lookup name = none) (hb : builtinNames.contains name = true) :
    exec1 code lim (mkS s (⟨fn, ip⟩ :: rest) mp k stk mem out) =
      .next (mkS s (⟨fn, ip + 1⟩ :: rest) mp (k + 1) (⟨.builtin name, none⟩ :: stk) mem out) := by
  have hfe := fetch_mkS code s fn ip rest mp k stk mem out c _ hf hx
  unfold exec1
  rw [hfe]
  simp only [step, mkS, hg, hb, if_true]
  rfl
end Acts

/-! ## `println` -/

/-- What `println` appends for the values `vals` (`none`: a value the model cannot display). -/
def printText (heap : Array Cell) (vals : List Val) : Option String :=
  (vals.mapM (display heap 1000000)).map fun ds => " ".intercalate ds ++ "\n"

theorem displayM_run (v : Val) (st : St) :
    displayM v st = match display st.heap 1000000 v with
      | some d => (.ok d, st)
      | none => (.error (.unsupported "display of this value"), st) := by
  unfold displayM
  rw [M_bind, M_get]
  simp only []
  cases display st.heap 1000000 v <;> rfl

theorem mapM_displayM_run (vals : List Val) (st : St) :
    (vals.mapM displayM : M (List String)) st = match vals.mapM (display st.heap 1000000) with
      | some ds => (.ok ds, st)
      | none => (.error (.unsupported "display of this value"), st) := by
  induction vals with
  | nil => rfl
  | cons v vs ih =>
    rw [List.mapM_cons, List.mapM_cons, M_bind, displayM_run]
    cases hd : display st.heap 1000000 v with
    | none => rfl
    | some d =>
      simp only []
      rw [M_bind, ih]
      cases hds : vs.mapM (display st.heap 1000000) with
      | none => rfl
      | some ds => rfl

theorem println_run (vals : List Val) (sp : Span) (st : St) :
    callBuiltin "println" vals sp st = match printText st.heap vals with
      | some t => (.ok .null, { st with out := st.out ++ t })
      | none => (.error (.unsupported "display of this value"), st) := by
  show ((vals.mapM displayM >>= fun ds => Hms.Core.emit (" ".intercalate ds ++ "\n") >>= fun _ => pure Val.null) : M Val) st = _
  rw [M_bind, mapM_displayM_run]
  unfold printText
  cases vals.mapM (display st.heap 1000000) with
  | none => rfl
  | some ds => rfl

theorem throw_run (v : Val) (sp : Span) (st : St) :
    callBuiltin "throw" [v] sp st = match display st.heap 1000000 v with
      | some d => (.error (.throw d sp), st)
      | none => (.error (.unsupported "display of this value"), st) := by
  show ((displayM v >>= fun d => throwCtl (.throw d sp)) : M Val) st = _
  rw [M_bind, displayM_run]
  cases display st.heap 1000000 v <;> rfl

theorem popN_append (t : VMState) (svs stk : List SVal) (h : t.stack = svs ++ stk) :
    popN svs.length t = some (svs.map (·.v), { t with stack := stk }) := by
  induction svs generalizing t with
  | nil =>
    simp only [List.nil_append] at h
    simp only [List.length_nil, popN, List.map_nil]
    rw [← h]
  | cons x svs ih =>
    simp only [List.length_cons, popN, pop1, h, List.cons_append]
    have := ih { t with stack := svs ++ stk } rfl
    simp only [Option.bind_eq_bind, Option.bind_some, this]
    rfl

theorem ofInt_toNat (n : Nat) (h : n < 2 ^ 64) : (I64.ofInt (n : Int)).toNat = n := by
  unfold I64.ofInt
  rw [BitVec.toNat_ofInt]
  have : ((n : Int) % (2 ^ 64 : Nat)).toNat = n := by
    have h1 : (n : Int) % ((2 ^ 64 : Nat) : Int) = (n : Int) := Int.emod_eq_of_lt (by omega) (by exact_mod_cast h)
    rw [h1]; rfl
  simpa using this

/-- `println` of the values on top of the stack. -/
theorem mkS_callVal_println (code : Code) (lim : Limits) (s : VMState) (fn : String) (ip : Nat) (rest : List Frame)
    (mp : Int) (k : Nat) (stk : List SVal) (mem : List (Int × Val)) (out : World) (c : List (RInstr × Span))
    (hf : findCode code fn = some c) (sp : Span) (svs : List SVal) (o1 o2 : Option Org) (t : String)
    (hx : c[ip]? = some (.callVal, sp)) (hn : svs.length < 2 ^ 64)
    (ht : printText out.heap (svs.map (·.v)) = some t) :
    exec1 code lim (mkS s (⟨fn, ip⟩ :: rest) mp k
        (⟨.int (I64.ofInt (svs.length : Int)), o1⟩ :: ⟨.builtin "println", o2⟩ :: (svs ++ stk)) mem out) =
      .next (mkS s (⟨fn, ip + 1⟩ :: rest) mp (k + 1) stk mem ⟨out.heap, out.out ++ t⟩) := by
  have hfe := fetch_mkS code s fn ip rest mp k
    (⟨.int (I64.ofInt (svs.length : Int)), o1⟩ :: ⟨.builtin "println", o2⟩ :: (svs ++ stk)) mem out c _ hf hx
  unfold exec1
  rw [hfe]
  simp only [step, mkS, ofInt_toNat _ hn]
  rw [popN_append _ svs stk rfl]
  simp only [runM, println_run, ht]
  simp only [advance, Nat.add_assoc]

/-! ## `try` / `throw` -/

/-- The base state with another handler stack. -/
def withH (s : VMState) (hs : List Handler) : VMState := { s with handlers := hs }

theorem mkS_setTry (code : Code) (lim : Limits) (s : VMState) (fn : String) (ip : Nat) (rest : List Frame)
    (mp : Int) (k : Nat) (stk : List SVal) (mem : List (Int × Val)) (out : World) (c : List (RInstr × Span))
    (hf : findCode code fn = some c) (tfn : String) (l : Nat) (sp : Span)
    (hx : c[ip]? = some (.setTry tfn l, sp)) :
    exec1 code lim (mkS s (⟨fn, ip⟩ :: rest) mp k stk mem out) =
      .next (mkS (withH s (⟨⟨tfn, l⟩, rest.length + 1, stk.length, mp⟩ :: s.handlers)) (⟨fn, ip + 1⟩ :: rest) mp
        (k + 1) stk mem out) := by
  have hfe := fetch_mkS code s fn ip rest mp k stk mem out c _ hf hx
  unfold exec1
  rw [hfe]
  simp only [step, mkS, withH, advance, List.length_cons, Nat.add_assoc]

theorem mkS_popTry (code : Code) (lim : Limits) (s : VMState) (fn : String) (ip : Nat) (rest : List Frame)
    (mp : Int) (k : Nat) (stk : List SVal) (mem : List (Int × Val)) (out : World) (c : List (RInstr × Span))
    (hf : findCode code fn = some c) (sp : Span) (h : Handler) (hs : List Handler)
    (hx : c[ip]? = some (.popTry, sp)) :
    exec1 code lim (mkS (withH s (h :: hs)) (⟨fn, ip⟩ :: rest) mp k stk mem out) =
      .next (mkS (withH s hs) (⟨fn, ip + 1⟩ :: rest) mp (k + 1) stk mem out) := by
  have hfe := fetch_mkS code (withH s (h :: hs)) fn ip rest mp k stk mem out c _ hf hx
  unfold exec1
  rw [hfe]
  simp only [step, mkS, withH, advance, Nat.add_assoc]

/-- The `throw` instruction: the message is displayed and the interrupt raised. -/
theorem mkS_throw (code : Code) (lim : Limits) (s : VMState) (fn : String) (ip : Nat) (rest : List Frame)
    (mp : Int) (k : Nat) (stk : List SVal) (mem : List (Int × Val)) (out : World) (c : List (RInstr × Span))
    (hf : findCode code fn = some c) (sp : Span) (v : Val) (o : Option Org) (d : String)
    (hx : c[ip]? = some (.throw, sp)) (hd : display out.heap 1000000 v = some d) :
    exec1 code lim (mkS s (⟨fn, ip⟩ :: rest) mp k (⟨v, o⟩ :: stk) mem out) =
      .intr (.throw d sp) (mkS s (⟨fn, ip + 1⟩ :: rest) mp (k + 1) stk mem out) := by
  have hfe := fetch_mkS code s fn ip rest mp k (⟨v, o⟩ :: stk) mem out c _ hf hx
  unfold exec1
  rw [hfe]
  simp only [step, mkS, pop1, runM, displayM_run, hd, advance, Nat.add_assoc]

/-- **Exception dispatch.** The newest handler was installed in the activation `⟨·, ·⟩ :: rest`
with operand stack `stk` and memory pointer `hmp`; the exception is raised `frames'` activations
deeper with `xs` more operands: the VM continues at the handler's target in that activation, with
the error object (freshly allocated) on the operand stack `stk`. -/
theorem dispatch_mkS (s : VMState) (tfn : String) (tl : Nat) (hmp : Int) (hs : List Handler)
    (frames' : List Frame) (f : Frame) (rest : List Frame) (mp' : Int) (K : Nat) (xs stk : List SVal)
    (mem' : List (Int × Val)) (w' : World) (msg : String) (tsp : Span) :
    dispatch msg tsp (mkS (withH s (⟨⟨tfn, tl⟩, rest.length + 1, stk.length, hmp⟩ :: hs)) (frames' ++ f :: rest) mp' K
        (xs ++ stk) mem' w') =
      .next (mkS (withH s (⟨⟨tfn, tl⟩, rest.length + 1, stk.length, hmp⟩ :: hs)) (⟨tfn, tl⟩ :: rest) hmp K
        (⟨.ref w'.heap.size, none⟩ :: stk) mem' ⟨w'.heap.push (errCell msg tsp), w'.out⟩) := by
  unfold dispatch
  simp only [mkS, withH]
  have h1 : (frames' ++ f :: rest).length - (rest.length + 1) = frames'.length := by
    simp only [List.length_append, List.length_cons]; omega
  have h2 : (xs ++ stk).length - stk.length = xs.length := by
    simp only [List.length_append]; omega
  simp only [h1, h2, List.drop_left]
  rfl

end HmsProofs.Sim
