import HmsProofs.Lemmas.SimFn
/-!
# A whole function body on the VM

`fn_body_correct`: the code `compileFn` produces for a parameterless function whose body is a
statement block of the fragment — prologue `addMp n`, statements, epilogue `addMp (-n); ret` —
run from its first instruction, simulates the specification's execution of the statements in a
fresh activation and returns to the caller with stack, memory pointer, heap and output restored.
-/
namespace HmsProofs.Sim
open Hms.Core Hms.Core.Comp Hms.Core.VM

/-! ## `addMp` and `ret` -/

theorem exec1_addMp (code : Code) (lim : Limits) (t : VMState) (f : Frame) (rest : List Frame) (n : Int)
    (sp : Span) (hc : t.calls = f :: rest) (hf : fetch code t = some (.addMp n, sp))
    (hlim : t.mp + n < (lim.memory : Int)) :
    exec1 code lim t = .next { t with mp := t.mp + n, steps := t.steps + 1,
                                      calls := { f with ip := f.ip + 1 } :: rest } := by
  obtain ⟨stack, calls, mem, mp, handlers, iters, nextIter, globals, vst, polls, steps⟩ := t
  simp only at hc hlim
  subst hc
  unfold exec1
  rw [hf]
  simp only [step]
  rw [if_neg (by omega)]
  rfl

theorem exec1_ret (code : Code) (lim : Limits) (t : VMState) (sp : Span)
    (hf : fetch code t = some (.ret, sp)) :
    exec1 code lim t = .next { t with steps := t.steps + 1, calls := t.calls.tail } := by
  unfold exec1
  rw [hf]
  rfl

/-- The cleanup label is not among the labels of the body. -/
theorem fn_hpost (cs : CState) (fd : FnDef) (stmts : List Stmt) :
    ∀ l ∈ definedLabels (cSs cs.currModule stmts (fnEnv cs fd.name)).1,
      l ∉ definedLabels [((Instr.label (freshLabel cs.currModule cs.labelMangle "cleanup").1 : SInstr), fd.sp),
        (.addMp (-((cSs cs.currModule stmts (fnEnv cs fd.name)).2.nv : Int)), fd.sp), (.ret, fd.sp)] := by
  have h1 := LblInv.single cs.currModule cs.labelMangle "cleanup" (by decide)
  have h2 := (cS_labels cs.currModule (Frag.depthSs stmts)).2.1 stmts (fnEnv cs fd.name) (Nat.le_refl _)
  have hnd := (h1.append h2).nodup
  intro l hl hmem
  have : l = (freshLabel cs.currModule cs.labelMangle "cleanup").1 := by
    simpa [definedLabels, labelOf?] using hmem
  subst this
  exact (List.nodup_append.mp hnd).2.2 _ (by simp) _ hl rfl

/-- Scopes without bindings of tracked identifiers have no live names. -/
theorem levelNames_of_unbound (T : List String) (sc : List (String × String))
    (h : ∀ x ∈ T, sc.lookup x = none) : levelNames T sc = [] := by
  unfold levelNames
  rw [List.map_eq_nil_iff, List.filter_eq_nil_iff]
  intro p hp hT
  have hpT : p.1 ∈ T := by simpa using hT
  have := List.lookup_eq_none_iff.mp (h p.1 hpT) p hp
  simp at this

theorem liveNames_of_unbound (T : List String) (cs : CScopes)
    (h : ∀ sc ∈ cs, ∀ x ∈ T, sc.lookup x = none) : liveNames T cs = [] := by
  unfold liveNames
  rw [List.flatMap_eq_nil_iff]
  intro sc hsc
  exact levelNames_of_unbound T sc (h sc hsc)

theorem scopesRel_outer (T : List String) (σ : String → Nat) (lim : Limits) (mp : Int) (mem : List (Int × Val))
    (cs : CScopes) (h : ∀ sc ∈ cs, ∀ x ∈ T, sc.lookup x = none) : ScopesRel T σ lim mp mem cs [] := by
  induction cs with
  | nil => trivial
  | cons c cs ih => exact ⟨h c (by simp), ih (fun sc hsc => h sc (by simp [hsc]))⟩

/-- The invariant at function entry: a fresh activation against the function's top scope. -/
theorem stRel_fnEntry (mod : String) (T : List String) (N : String → Prop) (σ : String → Nat) (lim : Limits)
    (mp : Int) (mem : List (Int × Val)) (cs : CState) (fn : String)
    (hkey : cleanupKey cs.currModule fn ∉ T)
    (houter : ∀ sc ∈ cs.scopes, ∀ x ∈ T, sc.lookup x = none) :
    StRel mod T N σ lim mp (fnEnv cs fn).scopes (fnEnv cs fn).vm [[]] mem := by
  have hhead : ∀ x ∈ T, [(cleanupKey cs.currModule fn, (freshLabel cs.currModule cs.labelMangle "cleanup").1)].lookup x
      = none := by
    intro x hx
    have : (x == cleanupKey cs.currModule fn) = false := by
      simp only [beq_eq_false_iff_ne, ne_eq]
      intro e; subst e; exact hkey hx
    simp [List.lookup_cons, this]
  have hall : ∀ sc ∈ (fnEnv cs fn).scopes, ∀ x ∈ T, sc.lookup x = none := by
    intro sc hsc
    simp only [fnEnv, List.mem_cons] at hsc
    rcases hsc with rfl | hsc
    · exact hhead
    · exact houter sc hsc
  have hlive := liveNames_of_unbound T (fnEnv cs fn).scopes hall
  refine ⟨?_, by rw [hlive]; exact List.nodup_nil, by rw [hlive]; simp, ?_⟩
  · refine ⟨?_, scopesRel_outer T σ lim mp mem cs.scopes houter⟩
    intro x hx
    rw [hhead x hx]
    trivial
  · intro sc hsc p hp hpT
    have := List.lookup_eq_none_iff.mp (hall sc hsc p.1 hpT) p hp
    simp at this

/-- What a call of the function amounts to, for one result `r` of the specification's run of
the body in the fresh activation `spec`: normal completion ↦ the VM returns to the caller's
frame with operand stack, memory pointer, heap/output, globals and handlers as at the call;
fatal ↦ the same fatal interrupt. -/
def SimFn (code : Code) (lim : Limits) (s0 : VMState) (rest : List Frame) (spec : St)
    (r : Except Ctl Unit × St) : Prop :=
  match r with
  | (.ok _, spec') =>
    spec' = { spec with scopes := spec'.scopes } ∧
      ∃ k s', execN code lim k s0 = .next s' ∧ s'.calls = rest ∧ s'.mp = s0.mp ∧ s'.stack = s0.stack ∧
        s'.st = s0.st ∧ s'.globals = s0.globals ∧ s'.handlers = s0.handlers
  | (.error (.fatal kd m sp), _) =>
    ∃ k s', execN code lim k s0 = .intr (.fatal kd m sp) s' ∧ s'.st = s0.st ∧ s'.globals = s0.globals ∧
      s'.handlers = s0.handlers
  | (.error (.unsupported _), _) => True
  | (.error .timeout, _) => True
  | _ => False

/-- **A whole function body.** -/
theorem fn_body_correct (cfg : Cfg) (code : Code) (lim : Limits) (T : List String) (fuel : Nat)
    (cs : CState) (fd : FnDef) (stmts : List Stmt) (r : NCode) (spec : St) (s0 : VMState) (fname : String)
    (rest : List Frame)
    (hs : Frag.okSs stmts = true) (hT : ∀ x ∈ Frag.identsSs stmts, x ∈ T)
    (hws : Frag.wsSs cs.currModule stmts (fnEnv cs fd.name) = true)
    (hkey : cleanupKey cs.currModule fd.name ∉ T)
    (houter : ∀ sc ∈ cs.scopes, ∀ x ∈ T, sc.lookup x = none)
    (hrel : relocate (fnCode cs fd stmts) = some r)
    (hcalls : s0.calls = ⟨fname, 0⟩ :: rest) (hfn : findCode code fname = some (renameVars r))
    (hmp0 : 0 ≤ s0.mp)
    (hmem : s0.mp + ((cSs cs.currModule stmts (fnEnv cs fd.name)).2.nv : Int) < (lim.memory : Int))
    (hslots : ∀ m ∈ varNames r, slotFn r m ≤ (cSs cs.currModule stmts (fnEnv cs fd.name)).2.nv)
    (hspec : spec.scopes = [[]]) (hheap : s0.st.heap = spec.heap) :
    SimFn code lim s0 rest spec (evalStmts cfg fuel stmts spec) := by
  generalize hR : cSs cs.currModule stmts (fnEnv cs fd.name) = R at *
  have hfc : fnCode cs fd stmts =
      [((Instr.addMp (R.2.nv : Int) : SInstr), fd.sp)] ++ R.1 ++
        [(.label (freshLabel cs.currModule cs.labelMangle "cleanup").1, fd.sp), (.addMp (-(R.2.nv : Int)), fd.sp),
         (.ret, fd.sp)] := by
    unfold fnCode; rw [hR]
  rw [hfc] at hrel
  -- the code around the body
  have hpro := (codeAt_of_compiled [] [((Instr.addMp (R.2.nv : Int) : SInstr), fd.sp)]
    (R.1 ++ [(.label (freshLabel cs.currModule cs.labelMangle "cleanup").1, fd.sp), (.addMp (-(R.2.nv : Int)), fd.sp),
         (.ret, fd.sp)]) r (by simpa using hrel)).head
  have hepi := codeAt_of_compiled ([((Instr.addMp (R.2.nv : Int) : SInstr), fd.sp)] ++ R.1)
    [(.label (freshLabel cs.currModule cs.labelMangle "cleanup").1, fd.sp), (.addMp (-(R.2.nv : Int)), fd.sp),
      (.ret, fd.sp)] [] r (by simpa using hrel)
  have hpreN : (stripLabels ([((Instr.addMp (R.2.nv : Int) : SInstr), fd.sp)] ++ R.1)).length = 1 + nI R.1 := by
    rw [stripLabels_append]; simp [stripLabels, isLabel, nI]; omega
  -- step 1: the prologue
  let s1 : VMState := { s0 with mp := s0.mp + (R.2.nv : Int), steps := s0.steps + 1,
                                calls := ⟨fname, 1⟩ :: rest }
  have hstep1 : exec1 code lim s0 = .next s1 :=
    exec1_addMp code lim s0 ⟨fname, 0⟩ rest _ fd.sp hcalls
      (fetch_of code s0 ⟨fname, 0⟩ rest _ _ hcalls hfn (by simpa [stripLabels, isLabel, lower, mapLV] using hpro)) hmem
  have hcalls1 : s1.calls = ⟨fname, 1⟩ :: rest := rfl
  -- step 2: the body
  have hframe : ∀ m ∈ varNames r, 0 ≤ s1.mp - (slotFn r m : Int) ∧ s1.mp - (slotFn r m : Int) < (lim.memory : Int) := by
    intro m hm
    have := hslots m hm
    show 0 ≤ s0.mp + (R.2.nv : Int) - (slotFn r m : Int) ∧ s0.mp + (R.2.nv : Int) - (slotFn r m : Int) < _
    omega
  have hst := stRel_fnEntry cs.currModule T (· ∈ varNames r) (slotFn r) lim s1.mp s1.mem cs fd.name hkey houter
  have hbody := compiled_stmts_correct cfg code lim cs.currModule T fuel stmts (fnEnv cs fd.name) spec s1
    ⟨fname, 1⟩ rest [((Instr.addMp (R.2.nv : Int) : SInstr), fd.sp)]
    [(.label (freshLabel cs.currModule cs.labelMangle "cleanup").1, fd.sp), (.addMp (-(R.2.nv : Int)), fd.sp),
      (.ret, fd.sp)] r s1.stack s1.mem hs hT hws (by rw [hR]; exact hrel)
    (by have := fn_hpost cs fd stmts; rw [hR] at this; rw [hR]; exact this) hcalls1 hfn hframe
    (by rw [hspec]; exact hst) hheap
  rw [hR] at hbody
  have hnpre : nI [((Instr.addMp (R.2.nv : Int) : SInstr), fd.sp)] = 1 := rfl
  rw [hnpre] at hbody
  rcases hev : evalStmts cfg fuel stmts spec with ⟨res, spec'⟩
  rw [hev] at hbody
  cases res with
  | error ce =>
    cases ce <;> first | trivial | exact hbody.elim | skip
    -- fatal
    obtain ⟨k, s', hk, h1, _, h3, h4⟩ := hbody.from_state (f := ⟨fname, 1⟩) hcalls1
    refine ⟨1 + k, s', ?_, h1, h3, h4⟩
    rw [execN_add, execN_one, hstep1]
    exact hk
  | ok u =>
    obtain ⟨hfr, mem', hrun, _⟩ := hbody
    obtain ⟨k, hk⟩ := hrun.from_state (f := ⟨fname, 1⟩) hcalls1
    -- step 3: the epilogue
    have hip : (1 : Nat) + nI R.1 = (stripLabels ([((Instr.addMp (R.2.nv : Int) : SInstr), fd.sp)] ++ R.1)).length :=
      hpreN.symm
    have hc1 : (renameVars r)[1 + nI R.1]? = some (.addMp (-(R.2.nv : Int)), fd.sp) := by
      have := hepi 0 (by simp [stripLabels, isLabel])
      rw [← hip] at this
      simpa [stripLabels, isLabel, lower, mapLV] using this
    have hc2 : (renameVars r)[1 + nI R.1 + 1]? = some (.ret, fd.sp) := by
      have := hepi 1 (by simp [stripLabels, isLabel])
      rw [← hip] at this
      simpa [stripLabels, isLabel, lower, mapLV] using this
    let t := reach s1 (1 + nI R.1) k s1.stack mem'
    have hct : t.calls = ⟨fname, 1 + nI R.1⟩ :: rest := rfl
    have hmp0' : t.mp + (-(R.2.nv : Int)) < (lim.memory : Int) := by
      show s0.mp + (R.2.nv : Int) + (-(R.2.nv : Int)) < _
      omega
    have hstep3 := exec1_addMp code lim t ⟨fname, 1 + nI R.1⟩ rest _ fd.sp hct
      (fetch_of code t _ rest _ _ hct hfn hc1) hmp0'
    let t2 : VMState :=
      { t with mp := t.mp + (-(R.2.nv : Int)), steps := t.steps + 1, calls := ⟨fname, 1 + nI R.1 + 1⟩ :: rest }
    have hstep4 := exec1_ret code lim t2 fd.sp
      (fetch_of code t2 ⟨fname, 1 + nI R.1 + 1⟩ rest _ _ rfl hfn hc2)
    refine ⟨hfr, 1 + (k + (1 + 1)), { t2 with steps := t2.steps + 1, calls := t2.calls.tail }, ?_, rfl, ?_,
      rfl, rfl, rfl, rfl⟩
    · rw [execN_add, execN_one, hstep1]
      simp only []
      rw [execN_add, hk]
      simp only []
      rw [execN_add, execN_one, hstep3]
      simp only []
      rw [execN_one, hstep4]
    · show s0.mp + (R.2.nv : Int) + (-(R.2.nv : Int)) = s0.mp
      omega

end HmsProofs.Sim
