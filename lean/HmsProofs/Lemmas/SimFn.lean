import HmsProofs.Lemmas.SimStmtFinal
/-!
# `compileFn` on functions whose body is a statement block of the fragment

The symbolic code of such a function is `addMp n; <statements>; cleanup: addMp (-n); ret` with
`n` the number of variable slots the compiler counted (`compileFn_frag`).
-/
namespace HmsProofs.Sim
open Hms.Core Hms.Core.Comp Hms.Core.VM

/-- The pseudo scope entry under which `compileFn` remembers the cleanup label. -/
def cleanupKey (mod fn : String) : String := s!"cleanup:{mod}:{fn}"

/-- The compile-time environment at the start of the body of function `fn`. -/
def fnEnv (cs : CState) (fn : String) : CEnv :=
  ⟨[(cleanupKey cs.currModule fn, (freshLabel cs.currModule cs.labelMangle "cleanup").1)] :: cs.scopes,
   cs.varMangle, (freshLabel cs.currModule cs.labelMangle "cleanup").2, 0⟩

/-- The symbolic code of a parameterless function whose body is the statements `stmts`. -/
def fnCode (cs : CState) (fd : FnDef) (stmts : List Stmt) : SCode :=
  [(.addMp ((cSs cs.currModule stmts (fnEnv cs fd.name)).2.nv : Int), fd.sp)] ++
    (cSs cs.currModule stmts (fnEnv cs fd.name)).1 ++
    [(.label (freshLabel cs.currModule cs.labelMangle "cleanup").1, fd.sp),
     (.addMp (-((cSs cs.currModule stmts (fnEnv cs fd.name)).2.nv : Int)), fd.sp), (.ret, fd.sp)]

/-- `addFn` on the function table. -/
def addFnL (fns : List ((String × String) × SFn)) (key : String × String) (mangled : String) :
    List ((String × String) × SFn) :=
  if fns.any (·.1 == key) then
    fns.map fun (k, f) => if k == key then (k, ({ name := mangled, code := [] } : SFn)) else (k, f)
  else fns ++ [(key, { name := mangled, code := [] })]

theorem addFnL_map_eq (fns : List ((String × String) × SFn)) (key : String × String) (mangled : String) :
    (fns.map fun (k, f) => if k == key then (k, ({ name := mangled, code := [] } : SFn)) else (k, f)) =
    (fns.map fun p => if p.1 == key then (p.1, ({ name := mangled, code := [] } : SFn)) else p) :=
  rfl

theorem lookup_addFnL (fns : List ((String × String) × SFn)) (key : String × String) (mangled : String) :
    (addFnL fns key mangled).lookup key = some { name := mangled, code := [] } := by
  unfold addFnL
  split
  · rename_i h
    have hm := lookup_map_upd fns key key (fun _ => ({ name := mangled, code := [] } : SFn))
    rw [addFnL_map_eq, hm]
    simp only [if_true]
    have : (fns.lookup key).isSome = true := by
      simp only [List.any_eq_true] at h
      obtain ⟨p, hp, hk⟩ := h
      cases hl : fns.lookup key with
      | some _ => rfl
      | none =>
        have := List.lookup_eq_none_iff.mp hl p hp
        simp at hk
        simp [hk] at this
    cases hl : fns.lookup key with
    | some _ => rfl
    | none => simp [hl] at this
  · rename_i h
    have hnone : fns.lookup key = none := by
      rw [List.lookup_eq_none_iff]
      intro p hp
      simp only [List.any_eq_true, not_exists, not_and] at h
      have := h p hp
      simp only [beq_iff_eq] at this
      simp only [bne_iff_ne, ne_eq]
      exact fun e => this e.symm
    simp [List.lookup_append, hnone]

theorem lookup_addFnL_other (fns : List ((String × String) × SFn)) (key k : String × String) (mangled : String)
    (hk : k ≠ key) : (addFnL fns key mangled).lookup k = fns.lookup k := by
  unfold addFnL
  split
  · have hm := lookup_map_upd fns key k (fun _ => ({ name := mangled, code := [] } : SFn))
    rw [addFnL_map_eq, hm]
    simp [hk]
  · have : (k == key) = false := by simpa using hk
    simp [List.lookup_append, List.lookup_cons, this]

theorem addFn_run (ident mangled : String) (cs : CState) :
    (addFn ident mangled).run cs =
      ((), { cs with fns := addFnL cs.fns (cs.currModule, ident) mangled }) := by
  unfold addFn addFnL
  simp only [StateT.run_modify]
  by_cases h : (cs.fns.any fun x => x.1 == (cs.currModule, ident)) = true
  · simp only [h, if_true]
    rfl
  · simp only [h]
    rfl

/-- The compiler state in which the body of `fd` is compiled (before anything is emitted). -/
def fnBase (cs : CState) (fd : FnDef) : CState :=
  { cs with fns := addFnL cs.fns (cs.currModule, fd.name) (mangleFnName cs.currModule fd.name),
            currFn := fd.name, scopes := [] :: cs.scopes, tryDepth := 0 }

theorem fnBase_lookup (cs : CState) (fd : FnDef) :
    (fnBase cs fd).fns.lookup ((fnBase cs fd).currModule, (fnBase cs fd).currFn) =
      some { name := mangleFnName cs.currModule fd.name, code := [] } :=
  lookup_addFnL _ _ _

theorem currLen_fnBase (cs : CState) (fd : FnDef) : currLen.run (fnBase cs fd) = (0, fnBase cs fd) := by
  have h := fnBase_lookup cs fd
  show ((((fnBase cs fd).fns.lookup ((fnBase cs fd).currModule, (fnBase cs fd).currFn)).map (·.code.length) |>.getD 0),
    fnBase cs fd) = _
  rw [h]
  rfl

/-- The state after the body has been compiled. -/
def fnX6 (cs : CState) (fd : FnDef) (stmts : List Stmt) : CState :=
  updS (fnBase cs fd) cs.loops ([(.addMp 0, fd.sp)] ++ (cSs cs.currModule stmts (fnEnv cs fd.name)).1)
    (cSs cs.currModule stmts (fnEnv cs fd.name)).2

/-- `cnt` as `compileFn` reads it. -/
def fnCnt (cs : CState) (fd : FnDef) (stmts : List Stmt) : Int :=
  (((fnX6 cs fd stmts).fns.lookup ((fnX6 cs fd stmts).currModule, fd.name)).map (fun x => (x.cntVars : Int))).getD 0

def fnX7 (cs : CState) (fd : FnDef) (stmts : List Stmt) : CState :=
  { fnX6 cs fd stmts with
    fns := (fnX6 cs fd stmts).fns.map fun (k, fn) =>
      if k == ((fnX6 cs fd stmts).currModule, (fnX6 cs fd stmts).currFn) then
        (k, { fn with code := fn.code.set 0 (.addMp (fnCnt cs fd stmts), fd.sp) })
      else (k, fn) }

/-- The state `compileFn` ends in. -/
def fnFinal (cs : CState) (fd : FnDef) (stmts : List Stmt) : CState :=
  let x8 := appendCode (appendCode (appendCode (fnX7 cs fd stmts)
    [(.label (freshLabel cs.currModule cs.labelMangle "cleanup").1, fd.sp)])
    [(.addMp (-(fnCnt cs fd stmts)), fd.sp)]) [(.ret, fd.sp)]
  { x8 with tryDepth := cs.tryDepth, scopes := x8.scopes.tail }

theorem compileFn_frag_run (f2 : Nat) (fd : FnDef) (cs : CState) (bsp : Span) (bty : Ty) (stmts : List Stmt)
    (hbody : fd.body = .mk bsp bty stmts none) (hparams : fd.params = []) (hann : fd.hasAnnotation = false)
    (hs : Frag.okSs stmts = true) (hd : Frag.depthSs stmts ≤ f2)
    (hws : Frag.wsSs cs.currModule stmts (fnEnv cs fd.name) = true) :
    (compileFn (f2 + 2) fd).run cs = ((), fnFinal cs fd stmts) := by
  rw [compileFn]
  refine bind_run _ _ _ cs cs _ rfl ?_
  refine bind_run _ _ _ _ _ _ (addFn_run _ _ _) ?_
  refine bind_run _ _ _ _ () _ rfl ?_
  refine bind_run _ _ _ _ () _ rfl ?_
  refine bind_run _ _ _ ({ fnBase cs fd with tryDepth := cs.tryDepth }) _ _ rfl ?_
  refine bind_run _ _ _ (fnBase cs fd) () _ rfl ?_
  rw [hann]
  simp only [Bool.false_eq_true, if_false]
  refine bind_run _ _ _ _ _ _ (currLen_fnBase cs fd) ?_
  rw [← updS_self (fnBase cs fd)]
  refine bind_run _ _ _ _ _ _ (emit_run_S _ _ _ _ _ _) ?_
  rw [hparams]
  refine bind_run _ _ _ _ () _ rfl ?_
  refine bind_run _ _ _ _ () _ rfl ?_
  refine bind_run _ _ _ _ _ _ (mangleLabel_run_S _ _ _ _ _) ?_
  refine bind_run _ _ _ (updS (fnBase cs fd) cs.loops ([] ++ [(.addMp 0, fd.sp)]) (fnEnv cs fd.name)) () _ rfl ?_
  rw [hbody, compileBlock]
  simp only [Bool.false_eq_true, if_false]
  have hSs := (compile_stmt f2).2.1 stmts (fnBase cs fd) hs hd cs.loops ([] ++ [(.addMp 0, fd.sp)])
    (fnEnv cs fd.name) hws
  refine bind_run _ _ _ (fnX6 cs fd stmts) () _ (bind_run _ _ _ _ _ _ hSs rfl) ?_
  refine bind_run _ _ _ (fnX6 cs fd stmts) (fnX6 cs fd stmts) _ rfl ?_
  refine bind_run _ _ _ (fnX7 cs fd stmts) () _ rfl ?_
  refine bind_run _ _ _ _ _ _ (emit_run _ _ _) ?_
  refine bind_run _ _ _ _ _ _ (emit_run _ _ _) ?_
  refine bind_run _ _ _ _ _ _ (emit_run _ _ _) ?_
  rfl

theorem fnX6_lookup (cs : CState) (fd : FnDef) (stmts : List Stmt) :
    (fnX6 cs fd stmts).fns.lookup (cs.currModule, fd.name) =
      some { name := mangleFnName cs.currModule fd.name,
             code := (.addMp 0, fd.sp) :: (cSs cs.currModule stmts (fnEnv cs fd.name)).1,
             cntVars := (cSs cs.currModule stmts (fnEnv cs fd.name)).2.nv } := by
  unfold fnX6 updS
  simp only
  have hm := lookup_map_upd (fnBase cs fd).fns ((fnBase cs fd).currModule, (fnBase cs fd).currFn)
    (cs.currModule, fd.name) (fun fn => { fn with
      code := fn.code ++ ([(.addMp 0, fd.sp)] ++ (cSs cs.currModule stmts (fnEnv cs fd.name)).1),
      cntVars := fn.cntVars + (cSs cs.currModule stmts (fnEnv cs fd.name)).2.nv })
  rw [hm]
  have hb := fnBase_lookup cs fd
  have hk : (cs.currModule, fd.name) = ((fnBase cs fd).currModule, (fnBase cs fd).currFn) := rfl
  rw [if_pos hk, hk, hb]
  simp

theorem fnCnt_eq (cs : CState) (fd : FnDef) (stmts : List Stmt) :
    fnCnt cs fd stmts = ((cSs cs.currModule stmts (fnEnv cs fd.name)).2.nv : Int) := by
  unfold fnCnt
  have : (fnX6 cs fd stmts).currModule = cs.currModule := rfl
  rw [this, fnX6_lookup]
  rfl

theorem fnX7_lookup (cs : CState) (fd : FnDef) (stmts : List Stmt) :
    (fnX7 cs fd stmts).fns.lookup (cs.currModule, fd.name) =
      some { name := mangleFnName cs.currModule fd.name,
             code := (.addMp ((cSs cs.currModule stmts (fnEnv cs fd.name)).2.nv : Int), fd.sp) ::
               (cSs cs.currModule stmts (fnEnv cs fd.name)).1,
             cntVars := (cSs cs.currModule stmts (fnEnv cs fd.name)).2.nv } := by
  unfold fnX7
  simp only
  have hm := lookup_map_upd (fnX6 cs fd stmts).fns ((fnX6 cs fd stmts).currModule, (fnX6 cs fd stmts).currFn)
    (cs.currModule, fd.name) (fun fn => { fn with code := fn.code.set 0 (.addMp (fnCnt cs fd stmts), fd.sp) })
  have hk : (cs.currModule, fd.name) = ((fnX6 cs fd stmts).currModule, (fnX6 cs fd stmts).currFn) := rfl
  rw [if_pos hk] at hm
  show List.lookup _ ((fnX6 cs fd stmts).fns.map fun p =>
    if p.1 == ((fnX6 cs fd stmts).currModule, (fnX6 cs fd stmts).currFn) then
      (p.1, (fun fn : SFn => { fn with code := fn.code.set 0 (.addMp (fnCnt cs fd stmts), fd.sp) }) p.2) else p) = _
  rw [hm, fnX6_lookup, fnCnt_eq]
  simp

/-- **`compileFn` on a parameterless function whose body is a statement block of the fragment**:
the resulting state `fnFinal` holds, for that function, the code `fnCode` (prologue `addMp n`,
the statements, `cleanup:` `addMp (-n)`, `ret`) and `n` as its variable count. -/
theorem fnFinal_lookup (cs : CState) (fd : FnDef) (stmts : List Stmt) :
    (fnFinal cs fd stmts).fns.lookup (cs.currModule, fd.name) =
      some { name := mangleFnName cs.currModule fd.name, code := fnCode cs fd stmts,
             cntVars := (cSs cs.currModule stmts (fnEnv cs fd.name)).2.nv } := by
  unfold fnFinal
  simp only
  have h7 := fnX7_lookup cs fd stmts
  have k7 : (cs.currModule, fd.name) = ((fnX7 cs fd stmts).currModule, (fnX7 cs fd stmts).currFn) := rfl
  rw [k7] at h7 ⊢
  have h8 := appendCode_lookup (fnX7 cs fd stmts)
    [(.label (freshLabel cs.currModule cs.labelMangle "cleanup").1, fd.sp)] _ h7
  have h9 := appendCode_lookup (appendCode (fnX7 cs fd stmts)
    [(.label (freshLabel cs.currModule cs.labelMangle "cleanup").1, fd.sp)])
    [(.addMp (-(fnCnt cs fd stmts)), fd.sp)] _ h8
  have h10 := appendCode_lookup (appendCode (appendCode (fnX7 cs fd stmts)
    [(.label (freshLabel cs.currModule cs.labelMangle "cleanup").1, fd.sp)])
    [(.addMp (-(fnCnt cs fd stmts)), fd.sp)]) [(Instr.ret, fd.sp)] _ h9
  refine h10.trans ?_
  rw [fnCnt_eq]
  simp [fnCode]

theorem fnFinal_lookup_other (cs : CState) (fd : FnDef) (stmts : List Stmt) (k : String × String)
    (hk : k ≠ (cs.currModule, fd.name)) :
    (fnFinal cs fd stmts).fns.lookup k = cs.fns.lookup k := by
  unfold fnFinal
  simp only
  have k7 : (cs.currModule, fd.name) = ((fnX7 cs fd stmts).currModule, (fnX7 cs fd stmts).currFn) := rfl
  rw [appendCode_lookup_other _ _ _ (by exact hk), appendCode_lookup_other _ _ _ (by exact hk),
    appendCode_lookup_other _ _ _ (by exact hk)]
  unfold fnX7
  simp only
  have hm := lookup_map_upd (fnX6 cs fd stmts).fns ((fnX6 cs fd stmts).currModule, (fnX6 cs fd stmts).currFn)
    k (fun fn => { fn with code := fn.code.set 0 (.addMp (fnCnt cs fd stmts), fd.sp) })
  show List.lookup _ ((fnX6 cs fd stmts).fns.map fun p =>
    if p.1 == ((fnX6 cs fd stmts).currModule, (fnX6 cs fd stmts).currFn) then
      (p.1, (fun fn : SFn => { fn with code := fn.code.set 0 (.addMp (fnCnt cs fd stmts), fd.sp) }) p.2) else p) = _
  rw [hm, if_neg (by exact hk)]
  unfold fnX6 updS
  simp only
  have hm6 := lookup_map_upd (fnBase cs fd).fns ((fnBase cs fd).currModule, (fnBase cs fd).currFn)
    k (fun fn => { fn with
      code := fn.code ++ ([(.addMp 0, fd.sp)] ++ (cSs cs.currModule stmts (fnEnv cs fd.name)).1),
      cntVars := fn.cntVars + (cSs cs.currModule stmts (fnEnv cs fd.name)).2.nv })
  rw [hm6, if_neg (by exact hk)]
  exact lookup_addFnL_other _ _ _ _ hk

/-- What else `compileFn` leaves behind: scopes, loop stack, `try` depth, module and the
`unsupported` flag are those of the start; the counters are those after the body. -/
theorem fnFinal_frame (cs : CState) (fd : FnDef) (stmts : List Stmt) :
    (fnFinal cs fd stmts).scopes = cs.scopes ∧ (fnFinal cs fd stmts).loops = cs.loops ∧
    (fnFinal cs fd stmts).tryDepth = cs.tryDepth ∧ (fnFinal cs fd stmts).currModule = cs.currModule ∧
    (fnFinal cs fd stmts).unsupported = cs.unsupported ∧ (fnFinal cs fd stmts).lambdaCount = cs.lambdaCount ∧
    (fnFinal cs fd stmts).labelMangle = (cSs cs.currModule stmts (fnEnv cs fd.name)).2.lm ∧
    (fnFinal cs fd stmts).varMangle = (cSs cs.currModule stmts (fnEnv cs fd.name)).2.vm := by
  refine ⟨?_, rfl, rfl, rfl, rfl, rfl, rfl, rfl⟩
  show (cSs cs.currModule stmts (fnEnv cs fd.name)).2.scopes.tail = cs.scopes
  rw [(cS_scopes_tail cs.currModule (Frag.depthSs stmts)).2.1 stmts _ (Nat.le_refl _)]
  rfl

end HmsProofs.Sim
