import Hms.Mod.Graph

/-!
# Correctness of the import-cycle check (`importGraphIsCyclic`, after the fix for finding A8)

* `cycle_check_correct`: the check answers `true` iff `start` reaches itself along ≥ 1 import edge;
* `cycle_check_fuel`: any fuel ≥ number of modules + 1 gives the same answer;
* `cycle_check_unfixed_diverges`: without the visited set the search does not return on a cycle
  that does not contain the start module.

Soundness is a direct induction. Completeness is the DFS closure argument: when a call returns
`false` (with enough fuel), every node it added to the visited list, and the node it expanded, is
*closed*: no successor is `orig` and every successor is in the returned visited list. Fuel
sufficiency is measured by `white adj vis`, the number of entries of `adj` whose key is not yet
visited: it is ≤ `adj.length`, and strictly drops when a node that has an entry is marked.
-/
namespace Hms.Mod

/-- `b` is a direct import of `a` (only modules with an entry in `adj` have out-edges;
`List.lookup` = first entry). -/
def Edge (adj : Adj) (a b : String) : Prop := ∃ ns, adj.lookup a = some ns ∧ b ∈ ns

/-- A path with at least one edge. -/
inductive Path (adj : Adj) : String → String → Prop
  | single {a b} : Edge adj a b → Path adj a b
  | cons {a b c} : Edge adj a b → Path adj b c → Path adj a c

/-! ## Soundness: `true` only comes from a neighbour equal to `orig` -/

theorem nbrLoop_true {adj : Adj} {orig : String}
    {step : List String → String → Bool × List String}
    (hstep : ∀ vis node vis', step vis node = (true, vis') → Path adj node orig) :
    ∀ (nbrs vis vis' : List String), nbrLoop step orig vis nbrs = (true, vis') →
      ∃ b, b ∈ nbrs ∧ (b = orig ∨ Path adj b orig)
  | [], vis, vis', h => by simp [nbrLoop] at h
  | node :: rest, vis, vis', h => by
    simp only [nbrLoop] at h
    split at h
    · rename_i hno
      exact ⟨node, by simp, Or.inl (by simpa using hno)⟩
    · split at h
      · obtain ⟨b, hb, hp⟩ := nbrLoop_true hstep rest vis vis' h
        exact ⟨b, by simp [hb], hp⟩
      · split at h
        · rename_i v1 hs
          exact ⟨node, by simp, Or.inr (hstep _ _ _ hs)⟩
        · rename_i v1 hs
          obtain ⟨b, hb, hp⟩ := nbrLoop_true hstep rest v1 vis' h
          exact ⟨b, by simp [hb], hp⟩

theorem cyclicFrom_true (adj : Adj) (orig : String) :
    ∀ (fuel : Nat) (vis : List String) (start : String) (vis' : List String),
      cyclicFrom adj orig fuel vis start = (true, vis') → Path adj start orig
  | 0, vis, start, vis', h => by simp [cyclicFrom] at h
  | fuel + 1, vis, start, vis', h => by
    simp only [cyclicFrom] at h
    split at h
    · simp at h
    · rename_i nbrs hl
      obtain ⟨b, hb, hp⟩ :=
        nbrLoop_true (adj := adj) (fun v n v' hs => cyclicFrom_true adj orig fuel v n v' hs)
          nbrs vis vis' h
      have he : Edge adj start b := ⟨nbrs, hl, hb⟩
      rcases hp with rfl | hp
      · exact .single he
      · exact .cons he hp

/-! ## The fuel measure -/

/-- Number of entries of `adj` whose key is not in `vis`. -/
def white : Adj → List String → Nat
  | [], _ => 0
  | (k, _) :: rest, vis => (if k ∈ vis then 0 else 1) + white rest vis

theorem white_le_length : ∀ (adj : Adj) (vis : List String), white adj vis ≤ adj.length
  | [], _ => by simp [white]
  | (k, _) :: rest, vis => by
    have := white_le_length rest vis
    simp only [white, List.length_cons]
    split <;> omega

theorem white_mono {vis vis' : List String} (h : ∀ x, x ∈ vis → x ∈ vis') :
    ∀ (adj : Adj), white adj vis' ≤ white adj vis
  | [] => by simp [white]
  | (k, _) :: rest => by
    have := white_mono h rest
    simp only [white]
    by_cases hk : k ∈ vis
    · simp [hk, h k hk, this]
    · split <;> simp <;> omega

theorem white_lt {a : String} {vis : List String} (ha : a ∉ vis) :
    ∀ (adj : Adj) (ns : List String), adj.lookup a = some ns →
      white adj (a :: vis) < white adj vis
  | [], ns, h => by simp at h
  | (k, v) :: rest, ns, h => by
    simp only [white]
    by_cases hk : a = k
    · subst hk
      have := white_mono (vis := vis) (vis' := a :: vis) (fun x hx => by simp [hx]) rest
      simp [ha]
      omega
    · have hk' : (a == k) = false := by simpa using hk
      rw [List.lookup_cons, hk'] at h
      have := white_lt ha rest ns h
      have hm : (k ∈ a :: vis) ↔ k ∈ vis := by
        simp only [List.mem_cons]
        constructor
        · rintro (h1 | h1)
          · exact absurd h1.symm hk
          · exact h1
        · exact Or.inr
      by_cases hv : k ∈ vis
      · simp [hv, this]
      · have : k ∉ a :: vis := fun hc => hv (hm.1 hc)
        simp [hv, this]
        omega

/-! ## Completeness: the closure invariant -/

/-- All successors of `x` are in `S` and none of them is `orig`. -/
def Closed (adj : Adj) (orig : String) (S : List String) (x : String) : Prop :=
  ∀ ns, adj.lookup x = some ns → ∀ b, b ∈ ns → b ≠ orig ∧ b ∈ S

theorem Closed.mono {adj : Adj} {orig : String} {S S' : List String} {x : String}
    (h : Closed adj orig S x) (hs : ∀ y, y ∈ S → y ∈ S') : Closed adj orig S' x :=
  fun ns hl b hb => ⟨(h ns hl b hb).1, hs _ (h ns hl b hb).2⟩

/-- What a `false` return guarantees. -/
def Post (adj : Adj) (orig : String) (vis vis' : List String) : Prop :=
  (∀ x, x ∈ vis → x ∈ vis') ∧ (∀ x, x ∈ vis' → x ∈ vis ∨ Closed adj orig vis' x)

theorem nbrLoop_false {adj : Adj} {orig : String} {f : Nat}
    {step : List String → String → Bool × List String}
    (hstep : ∀ vis node vis', (white adj vis < f ∨ adj.lookup node = none) →
      step vis node = (false, vis') → Post adj orig vis vis' ∧ Closed adj orig vis' node) :
    ∀ (nbrs vis vis' : List String), white adj vis ≤ f →
      nbrLoop step orig vis nbrs = (false, vis') →
      Post adj orig vis vis' ∧ ∀ b, b ∈ nbrs → b ≠ orig ∧ b ∈ vis'
  | [], vis, vis', _, h => by
    simp only [nbrLoop, Prod.mk.injEq, true_and] at h
    subst h
    exact ⟨⟨fun _ hx => hx, fun _ hx => Or.inl hx⟩, by simp⟩
  | node :: rest, vis, vis', hf, h => by
    simp only [nbrLoop] at h
    split at h
    · simp at h
    · rename_i hno
      have hno : node ≠ orig := by simpa using hno
      split at h
      · rename_i hc
        have hc : node ∈ vis := by simpa using hc
        obtain ⟨hp, hr⟩ := nbrLoop_false hstep rest vis vis' hf h
        refine ⟨hp, ?_⟩
        intro b hb
        rcases List.mem_cons.1 hb with rfl | hb
        · exact ⟨hno, hp.1 _ hc⟩
        · exact hr b hb
      · rename_i hc
        have hc : node ∉ vis := by simpa using hc
        split at h
        · simp at h
        · rename_i v1 hs
          have hsuff : white adj (node :: vis) < f ∨ adj.lookup node = none := by
            cases hl : adj.lookup node with
            | none => exact Or.inr rfl
            | some ns => exact Or.inl (Nat.lt_of_lt_of_le (white_lt hc adj ns hl) hf)
          obtain ⟨⟨hsub1, hnew1⟩, hcl1⟩ := hstep _ _ _ hsuff hs
          have hf1 : white adj v1 ≤ f :=
            Nat.le_trans (white_mono (fun x hx => hsub1 x (List.mem_cons_of_mem _ hx)) adj) hf
          obtain ⟨⟨hsub2, hnew2⟩, hr⟩ := nbrLoop_false hstep rest v1 vis' hf1 h
          refine ⟨⟨fun x hx => hsub2 x (hsub1 x (List.mem_cons_of_mem _ hx)), ?_⟩, ?_⟩
          · intro x hx
            rcases hnew2 x hx with hx1 | hx1
            · rcases hnew1 x hx1 with hx0 | hx0
              · rcases List.mem_cons.1 hx0 with rfl | hx0
                · exact Or.inr (hcl1.mono hsub2)
                · exact Or.inl hx0
              · exact Or.inr (hx0.mono hsub2)
            · exact Or.inr hx1
          · intro b hb
            rcases List.mem_cons.1 hb with rfl | hb
            · exact ⟨hno, hsub2 _ (hsub1 _ (by simp))⟩
            · exact hr b hb

theorem cyclicFrom_false (adj : Adj) (orig : String) :
    ∀ (fuel : Nat) (vis : List String) (start : String) (vis' : List String),
      (white adj vis < fuel ∨ adj.lookup start = none) →
      cyclicFrom adj orig fuel vis start = (false, vis') →
      Post adj orig vis vis' ∧ Closed adj orig vis' start
  | 0, vis, start, vis', hf, h => by
    simp only [cyclicFrom, Prod.mk.injEq, true_and] at h
    subst h
    have hl : adj.lookup start = none := by
      rcases hf with hf | hf
      · omega
      · exact hf
    exact ⟨⟨fun _ hx => hx, fun _ hx => Or.inl hx⟩, fun ns hn => by simp [hl] at hn⟩
  | fuel + 1, vis, start, vis', hf, h => by
    simp only [cyclicFrom] at h
    split at h
    · rename_i hl
      simp only [Prod.mk.injEq, true_and] at h
      subst h
      exact ⟨⟨fun _ hx => hx, fun _ hx => Or.inl hx⟩, fun ns hn => by simp [hl] at hn⟩
    · rename_i nbrs hl
      have hf' : white adj vis ≤ fuel := by
        rcases hf with hf | hf
        · omega
        · simp [hl] at hf
      obtain ⟨hp, hr⟩ :=
        nbrLoop_false (adj := adj) (f := fuel)
          (fun v n v' hsuff hs => cyclicFrom_false adj orig fuel v n v' hsuff hs)
          nbrs vis vis' hf' h
      refine ⟨hp, ?_⟩
      intro ns hn
      rw [hl] at hn
      cases hn
      exact hr

/-- A set all of whose members are closed contains everything reachable from it, and `orig` is
not reachable from it. -/
theorem Path.closed {adj : Adj} {orig : String} {S : List String}
    (hS : ∀ x, x ∈ S → Closed adj orig S x) {a b : String} (hp : Path adj a b) (ha : a ∈ S) :
    b ≠ orig ∧ b ∈ S := by
  induction hp with
  | single he =>
    obtain ⟨ns, hl, hb⟩ := he
    exact hS _ ha ns hl _ hb
  | cons he _ ih =>
    obtain ⟨ns, hl, hb⟩ := he
    exact ih (hS _ ha ns hl _ hb).2

/-- Correctness for any sufficient fuel. -/
theorem cyclicFrom_correct (adj : Adj) (start : String) (fuel : Nat)
    (h : white adj [start] < fuel) :
    (cyclicFrom adj start fuel [start] start).1 = true ↔ Path adj start start := by
  constructor
  · intro ht
    exact cyclicFrom_true adj start fuel [start] start
      (cyclicFrom adj start fuel [start] start).2 (by rw [← ht])
  · intro hp
    cases hr : (cyclicFrom adj start fuel [start] start).1 with
    | true => rfl
    | false =>
      exfalso
      obtain ⟨⟨hsub, hnew⟩, hcl⟩ :=
        cyclicFrom_false adj start fuel [start] start
          (cyclicFrom adj start fuel [start] start).2 (Or.inl h) (by rw [← hr])
      have hS : ∀ x, x ∈ (cyclicFrom adj start fuel [start] start).2 →
          Closed adj start (cyclicFrom adj start fuel [start] start).2 x := by
        intro x hx
        rcases hnew x hx with hx0 | hx0
        · have : x = start := by simpa using hx0
          subst this
          exact hcl
        · exact hx0
      exact (Path.closed hS hp (hsub _ (by simp))).1 rfl

/-! ## The stated theorems -/

/-- The check reports a cycle iff `start` can be reached from `start` along ≥ 1 import edge. -/
theorem cycle_check_correct (adj : Adj) (start : String) :
    importGraphIsCyclic adj start = true ↔ Path adj start start :=
  cyclicFrom_correct adj start (adj.length + 1)
    (Nat.lt_succ_of_le (white_le_length adj [start]))

/-- Termination bound: any fuel ≥ (number of modules) + 1 gives the same answer
(every module is expanded at most once; measure = modules not yet visited). -/
theorem cycle_check_fuel (adj : Adj) (start : String) (fuel : Nat) (h : adj.length + 1 ≤ fuel) :
    (cyclicFrom adj start fuel [start] start).1 = importGraphIsCyclic adj start := by
  rw [Bool.eq_iff_iff, cycle_check_correct]
  exact cyclicFrom_correct adj start fuel
    (Nat.lt_of_lt_of_le (Nat.lt_succ_of_le (white_le_length adj [start])) h)

theorem unfixed_inner :
    ∀ fuel,
      cyclicFromUnfixed [("main", ["a"]), ("a", ["b"]), ("b", ["a"])] "main" fuel "a" = none ∧
      cyclicFromUnfixed [("main", ["a"]), ("a", ["b"]), ("b", ["a"])] "main" fuel "b" = none
  | 0 => by simp [cyclicFromUnfixed]
  | fuel + 1 => by
    obtain ⟨ha, hb⟩ := unfixed_inner fuel
    constructor
    · simp [cyclicFromUnfixed, List.lookup, hb]
    · simp [cyclicFromUnfixed, List.lookup, ha]

/-- Finding A8: without the visited set the search never returns on a cycle that does not contain
the start. -/
theorem cycle_check_unfixed_diverges :
    ∀ fuel, cyclicFromUnfixed [("main", ["a"]), ("a", ["b"]), ("b", ["a"])] "main" fuel "main" = none
  | 0 => by simp [cyclicFromUnfixed]
  | fuel + 1 => by
    simp [cyclicFromUnfixed, List.lookup, (unfixed_inner fuel).1]

end Hms.Mod
