import HmsProofs.Lemmas.SimHExpr
/-!
# Argument lists: the VM's right-to-left order agrees with the specification's left-to-right
order when at most one argument is not an atom
-/
namespace HmsProofs.Sim
open Hms.Core Hms.Core.Comp Hms.Core.VM

theorem oneNonAtom_tail (a : String × Expr) (as : List (String × Expr)) (h : Frag.oneNonAtom (a :: as) = true) :
    Frag.oneNonAtom as = true := by
  simp only [Frag.oneNonAtom, decide_eq_true_eq] at h ⊢
  have := (List.Sublist.filter (fun a => !Frag.atomE a.2) (List.sublist_cons_self a as)).length_le
  omega

theorem allAtoms_of_oneNonAtom (a : String × Expr) (as : List (String × Expr))
    (h : Frag.oneNonAtom (a :: as) = true) (ha : Frag.atomE a.2 = false) : allAtoms as = true := by
  simp only [Frag.oneNonAtom, decide_eq_true_eq] at h
  rw [List.filter_cons] at h
  simp only [ha, Bool.not_false, if_true, List.length_cons] at h
  have h0 : (as.filter fun a => !Frag.atomE a.2).length = 0 := by omega
  have hnil := List.length_eq_zero_iff.mp h0
  rw [List.filter_eq_nil_iff] at hnil
  simp only [allAtoms, List.all_eq_true]
  intro x hx
  have := hnil x hx
  simpa using this

theorem varsG_atoms : ∀ (as : List (String × Expr)), allAtoms as = true →
    Frag.varsGArgs as = varsArgs as ∧ Frag.callsGArgs as = [] := by
  intro as
  induction as with
  | nil => intro _; exact ⟨rfl, rfl⟩
  | cons a as ih =>
    intro h
    simp only [allAtoms, List.all_cons, Bool.and_eq_true] at h
    obtain ⟨h1, h2⟩ := ih h.2
    have hp := (varsG_pure (Frag.depthE a.2)).1 a.2 (Nat.le_refl _) (atom_pure _ h.1)
    simp only [Frag.varsGArgs, varsArgs, Frag.callsGArgs, h1, h2, hp.1, hp.2, List.append_nil, and_self]

theorem SimArgs.error_n {G A ip n stk mem st c st1} (n' : Nat) (h : SimArgs G A ip n stk mem st (.error c, st1)) :
    SimArgs G A ip n' stk mem st (.error c, st1) := by
  cases c <;> first | trivial | exact h

/-- Argument lists. -/
theorem pargs_step (G : GCtx) (n : Nat) (hPE : PE G n) (hPArgs : PArgs G n) : PArgs G (n + 1) := by
  intro A hA args st ip stk mem lm scopes vm hok hone hws hT hpl hrel hsp
  cases args with
  | nil =>
    rw [List.map_nil, evalList_nil]
    exact ⟨rfl, mem, [], rfl, fun _ => rfl, (Runs.refl ip stk mem st.world).cast (by simp [cgArgs]), MemLe.refl _ _ _⟩
  | cons a as =>
    simp only [Frag.okEArgs, Bool.and_eq_true] at hok
    obtain ⟨hoka, hokas⟩ := hok
    have hone' := oneNonAtom_tail a as hone
    simp only [Frag.wsGArgs, Frag.varsGArgs, Frag.callsGArgs, Bool.and_eq_true, resolved_append, callsOK_append] at hws
    obtain ⟨⟨hresa, hresas⟩, ⟨hcalla, hcallas⟩⟩ := hws
    simp only [Frag.namesGArgs, Frag.varsGArgs, Frag.callsGArgs, List.mem_append] at hT
    have hwsas : Frag.wsGArgs scopes A.φ as = true := by simp [Frag.wsGArgs, hresas, hcallas]
    have hTas : ∀ x ∈ Frag.namesGArgs as, x ∈ A.T := by
      intro x hx; simp only [Frag.namesGArgs, List.mem_append] at hx
      rcases hx with hx | hx
      · exact hT x (Or.inl (Or.inr hx))
      · exact hT x (Or.inr (Or.inr hx))
    have hwsa : Frag.wsGE scopes A.φ a.2 = true := by simp [Frag.wsGE, hresa, hcalla]
    have hTa : ∀ x ∈ Frag.namesGE a.2, x ∈ A.T := by
      intro x hx; simp only [Frag.namesGE, List.mem_append] at hx
      rcases hx with hx | hx
      · exact hT x (Or.inl (Or.inl hx))
      · exact hT x (Or.inr (Or.inl hx))
    simp only [cgArgs] at hpl ⊢
    generalize hCS : cgArgs G.mod (ρS scopes) A.φ as lm = CS at hpl ⊢
    generalize hCA : cgE G.mod (ρS scopes) A.φ a.2 CS.2 = CA at hpl ⊢
    obtain ⟨hplS, hplA⟩ := hpl.append
    rw [List.map_cons, evalList_cons]
    cases hat : Frag.atomE a.2 with
    | true =>
      -- the specification evaluates the atom first, the VM last
      have hpa := atom_pure _ hat
      have hva := varsGE_pure a.2 hpa
      have hresa' : Frag.resolved scopes (Frag.varsE a.2) = true := by rw [← hva]; exact hresa
      have hTa' : ∀ x ∈ Frag.varsE a.2, x ∈ A.T := fun x hx => hT x (Or.inl (Or.inl (by rw [hva]; exact hx)))
      have hb := bound_of_resolved hrel.scopes (Frag.varsE a.2) hTa' hresa'
      obtain ⟨va, hva1, hva2, _⟩ := atom_eval G.cfg _ a.2 st (Nat.le_refl _) hat hb
      rcases hva2 n with h | h
      · rw [h]; trivial
      · rw [h]
        simp only []
        have h1 := hPArgs A hA as st ip stk mem lm scopes vm hokas hone' hwsas hTas (hCS ▸ hplS) hrel hsp
        rw [hCS] at h1
        rcases hes : evalList G.cfg n (List.map (fun x => x.snd) as) st with ⟨r1, st1⟩
        rw [hes] at h1
        rw [hes]
        cases r1 with
        | error c1 => exact h1.error_n _
        | ok vs =>
          obtain ⟨hfr1, mem1, svs, hsv, hsv0, hrun1, hml1⟩ := h1
          have hrel1 : StRel G.mod A.T A.N A.σ G.lim A.mp scopes vm st1.scopes mem1 := by
            rw [hfr1]; exact hrel.memLe hml1.cells
          have hsp1 := hsp.world st1 hfr1 hrun1.inv
          rw [cgE_of_pure _ _ _ _ _ hpa] at hCA
          obtain ⟨v, hv, hrunA⟩ := atom_runs G A hA a.2 st1 (ip + nI CS.1) (svs ++ stk) mem1 CS.2
            scopes vm hat hresa' hTa' (by rw [hCA]; exact hplA) hrel1
          have hsc : st1.scopes = st.scopes := by rw [hfr1]
          rw [hsc, hva1] at hv
          cases hv
          rw [hCA] at hrunA
          exact ⟨hfr1, mem1, ⟨va, none⟩ :: svs, by simp [hsv], fun h => by rw [hsv0 h]; rfl,
            (hrun1.trans (hrunA st1.world)).cast (by rw [nI_append]; omega), hml1⟩
    | false =>
      -- the only non-atom: the VM pushes the atoms after it first
      have hall := allAtoms_of_oneNonAtom a as hone hat
      obtain ⟨hvs, hcs⟩ := varsG_atoms as hall
      obtain ⟨vs, hvs1, hvs2⟩ := atoms_run G A hA st mem scopes vm hrel as ip stk lm hall
        (by rw [← hvs]; exact hresas) (fun x hx => hT x (Or.inl (Or.inr (by rw [hvs]; exact hx))))
        (hCS ▸ hplS)
      rw [hCS] at hvs2
      have h1 := hPE A hA a.2 st (ip + nI CS.1) (vs.map (⟨·, none⟩) ++ stk) mem CS.2 scopes vm hoka hwsa hTa
        (hCA ▸ hplA) hrel hsp
      rw [hCA] at h1
      rcases hea : evalExpr G.cfg n a.2 st with ⟨r1, st1⟩
      rw [hea] at h1
      cases r1 with
      | error c1 =>
        cases c1 <;> first | trivial | exact h1.elim | exact fun hk => (hvs2 st.world).fatal (h1 hk) | skip
        obtain ⟨hfr1, mem1, hT1, hml1⟩ := h1
        exact ⟨hfr1, mem1, Runs.throw (vs.map (⟨·, none⟩)) (hvs2 st.world) hT1, hml1⟩
      | ok va =>
        obtain ⟨hfr1, mem1, ov1, hov1, hrun1, hml1⟩ := h1
        simp only []
        have hsc : st1.scopes = st.scopes := by rw [hfr1]
        rcases hvs1 st1 hsc n with h | h
        · rw [h]; trivial
        · rw [h]
          exact ⟨hfr1, mem1, ⟨va, ov1⟩ :: vs.map (⟨·, none⟩), by simp [Function.comp_def],
            fun h => by rw [hov1 h]; rfl,
            ((hvs2 st.world).trans hrun1).cast (by rw [nI_append]; omega), hml1⟩

end HmsProofs.Sim
